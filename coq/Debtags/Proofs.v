(** C20, LINEAR layer: the two indexes of a collection stay mutually inverse and
    every query agrees with the reference relation of Debtags/Spec.v, for every
    history of read / insert / derivation steps.

    [repr c S] is the abstraction relation between a collection [c] (two
    association lists of sorted sets) and a reference relation [S].  Every step
    of the model preserves it ([step_repr]); [Inv] and the agreement of all
    queries follow from it.  The code as written ([fx = false]) coincides with
    the one-token repair ([fx = true]) on every history that never executes
    K1's trigger ([run_faithful_eq_repaired]); when the trigger is executed by an
    insert the invariant is broken ([trigger_breaks_inv]). *)
From Verif Require Import Lib.Base Lib.PyStr Gen.PyChars
  Debtags.StrSet Debtags.Model Debtags.Spec Debtags.SetProofs Debtags.DictProofs.

(** * Statement vocabulary *)

Definition Inv (c : coll) : Prop :=
  forall p t, In p (packages_of_tag c t) <-> In t (tags_of_package c p).

(** the Spec operation of a linear step *)
Definition spec_of_op (o : op) (S : rel) : rel :=
  match o with
  | ORead lines tf => s_read tf (parse_tags lines)
  | OInsert pkg tags => s_insert S pkg tags
  | OCopy => S
  | OReverse | OReverseCopy => s_reverse S
  | OChoose l => s_choose l S
  | OChooseCopy l => if forallb (q_has_package S) l then s_choose l S else S   (* KeyError: no change *)
  | OFilterP f | OFilterPCopy f => s_filter_packages f S
  | OFilterPT g | OFilterPTCopy g => s_filter_packages_tags g S
  | OFilterT f | OFilterTCopy f => s_filter_tags f S
  | OFacet _ => s_facet facet S
  end.
Definition spec_run (S : rel) (ops : list op) : rel := fold_left (fun S o => spec_of_op o S) ops S.

Fixpoint nodupb (l : list str) : bool :=
  match l with
  | [] => true
  | x :: r => negb (mem x r) && nodupb r
  end.

(** The property's domain, step by step: tag files have distinct package names,
    inserts are of packages the collection does not know yet, and the [order]
    argument of [OFacet] (the iteration order of [self.db], which the model
    takes as an input) lists exactly the packages of the collection. *)
Definition step_dom (c : coll) (o : op) : bool :=
  match o with
  | ORead lines _ => distinct_recs (parse_tags lines)
  | OInsert pkg _ => negb (has_package c pkg)
  | OFacet order =>
      nodupb order && forallb (has_package c) order
      && forallb (fun p => mem p order) (keys (c_db c))
  | _ => true
  end.

Fixpoint hist_dom (fx : bool) (c : coll) (ops : list op) : bool :=
  match ops with
  | [] => true
  | o :: rest => step_dom c o && hist_dom fx (step' fx c o) rest
  end.

(** A well-formed collection: distinct keys, sorted duplicate-free sets, the two
    indexes mutually inverse (all decidable). *)
Definition inv_b (db rdb : dict) : bool :=
  forallb (fun kv => forallb (fun t => set_mem (fst kv) (get rdb t)) (snd kv)) db
  && forallb (fun kv => forallb (fun p => set_mem (fst kv) (get db p)) (snd kv)) rdb.

Definition dict_wf (d : dict) : bool := nodupb (keys d) && forallb (fun kv => sortedb (snd kv)) d.
Definition coll_wf (c : coll) : bool :=
  dict_wf (c_db c) && dict_wf (c_rdb c) && inv_b (c_db c) (c_rdb c).

(** the relation a well-formed collection stands for *)
Definition rel_of (c : coll) : rel :=
  mkR (keys (c_db c)) (keys (c_rdb c))
      (flat_map (fun kv => map (pair (fst kv)) (snd kv)) (c_db c)).

(** * Small helpers *)

Lemma fold_left_ext {A B} (f g : A -> B -> A) :
  (forall a b, f a b = g a b) -> forall l a, fold_left f l a = fold_left g l a.
Proof. intros H. induction l as [|b l IH]; intros a; simpl; [reflexivity|]. now rewrite H, IH. Qed.

Lemma forallb_ext' {A} (f g : A -> bool) :
  (forall a, f a = g a) -> forall l, forallb f l = forallb g l.
Proof. intros H. induction l as [|a l IH]; simpl; [reflexivity|]. now rewrite H, IH. Qed.

Lemma mem_in x l : mem x l = true <-> In x l.
Proof. exact (set_mem_in x l). Qed.

Lemma mem_false x l : mem x l = false <-> ~ In x l.
Proof. exact (set_mem_false x l). Qed.

Lemma nodupb_NoDup l : nodupb l = true -> NoDup l.
Proof.
  induction l as [|x l IH]; simpl; intros H; constructor.
  - apply andb_true_iff in H. destruct H as [H _]. apply negb_true_iff, mem_false in H. exact H.
  - apply IH. apply andb_true_iff in H. apply H.
Qed.

Lemma bool_eq_iff (a b : bool) : (a = true <-> b = true) -> a = b.
Proof. destruct a, b; intuition congruence. Qed.

(** * Membership in the answers of the Spec *)

Lemma q_tags_of_in S p t : In t (q_tags_of S p) <-> In (p, t) (r_R S).
Proof.
  unfold q_tags_of. rewrite set_of_list_in, in_map_iff. split.
  - intros [[p' t'] [E H]]. apply filter_In in H. destruct H as [H1 H2].
    simpl in *. apply str_eqb_eq in H2. now subst.
  - intros H. exists (p, t). split; [reflexivity|]. apply filter_In. split; [assumption|].
    simpl. apply str_eqb_refl.
Qed.

Lemma q_pkgs_of_in S p t : In p (q_pkgs_of S t) <-> In (p, t) (r_R S).
Proof.
  unfold q_pkgs_of. rewrite set_of_list_in, in_map_iff. split.
  - intros [[p' t'] [E H]]. apply filter_In in H. destruct H as [H1 H2].
    simpl in *. apply str_eqb_eq in H2. now subst.
  - intros H. exists (p, t). split; [reflexivity|]. apply filter_In. split; [assumption|].
    simpl. apply str_eqb_refl.
Qed.

(** * The abstraction relation *)

Record repr (c : coll) (S : rel) : Prop := mkRepr {
  rp_db_ok : dict_ok (c_db c);
  rp_rdb_ok : dict_ok (c_rdb c);
  rp_P : forall p, In p (keys (c_db c)) <-> In p (r_P S);
  rp_T : forall t, In t (keys (c_rdb c)) <-> In t (r_T S);
  rp_db : forall p t, In t (get (c_db c) p) <-> In (p, t) (r_R S);
  rp_rdb : forall p t, In p (get (c_rdb c) t) <-> In (p, t) (r_R S) }.

Definition rel_equiv (S S' : rel) : Prop :=
  (forall p, In p (r_P S) <-> In p (r_P S'))
  /\ (forall t, In t (r_T S) <-> In t (r_T S'))
  /\ (forall pt, In pt (r_R S) <-> In pt (r_R S')).

Lemma repr_equiv c S S' : rel_equiv S S' -> repr c S -> repr c S'.
Proof.
  intros [HP [HT HR]] [H1 H2 H3 H4 H5 H6]. constructor; try assumption.
  - intros p. now rewrite H3.
  - intros t. now rewrite H4.
  - intros p t. now rewrite H5.
  - intros p t. now rewrite H6.
Qed.

Lemma repr_empty : repr empty_coll s_empty.
Proof. constructor; simpl; try apply dict_ok_nil; intros; tauto. Qed.

Theorem repr_Inv c S : repr c S -> Inv c.
Proof.
  intros H p t. unfold packages_of_tag, tags_of_package.
  now rewrite (rp_rdb _ _ H), (rp_db _ _ H).
Qed.

Lemma repr_no_pair c S p t : repr c S -> ~ In p (r_P S) -> ~ In (p, t) (r_R S).
Proof.
  intros H Hp Hin. apply (rp_db _ _ H) in Hin. rewrite get_notin in Hin; [destruct Hin|].
  now rewrite (rp_P _ _ H).
Qed.

(** ** Queries *)

Lemma repr_tags_of c S p : repr c S -> tags_of_package c p = q_tags_of S p.
Proof.
  intros H. unfold tags_of_package. apply sorted_ext.
  - apply get_sorted, (rp_db_ok _ _ H).
  - apply set_of_list_sorted.
  - intros t. now rewrite (rp_db _ _ H), q_tags_of_in.
Qed.

Lemma repr_pkgs_of c S t : repr c S -> packages_of_tag c t = q_pkgs_of S t.
Proof.
  intros H. unfold packages_of_tag. apply sorted_ext.
  - apply get_sorted, (rp_rdb_ok _ _ H).
  - apply set_of_list_sorted.
  - intros p. now rewrite (rp_rdb _ _ H), q_pkgs_of_in.
Qed.

Lemma repr_card c S t : repr c S -> card c t = q_card S t.
Proof. intros H. unfold card, q_card. now rewrite <- (repr_pkgs_of c S t H). Qed.

Lemma repr_has_package c S p : repr c S -> has_package c p = q_has_package S p.
Proof.
  intros H. apply bool_eq_iff. unfold has_package, q_has_package.
  now rewrite dict_mem_iff, mem_in, (rp_P _ _ H).
Qed.

Lemma repr_has_tag c S t : repr c S -> has_tag c t = q_has_tag S t.
Proof.
  intros H. apply bool_eq_iff. unfold has_tag, q_has_tag.
  now rewrite dict_mem_iff, mem_in, (rp_T _ _ H).
Qed.

Lemma keys_length {V} (d : list (str * V)) : length (keys d) = length d.
Proof. apply map_length. Qed.

Lemma repr_package_count c S : repr c S -> package_count c = q_package_count S.
Proof.
  intros H. unfold package_count, q_package_count, q_packages. rewrite <- keys_length.
  apply NoDup_same_length.
  - apply (rp_db_ok _ _ H).
  - apply sorted_NoDup, set_of_list_sorted.
  - intros p. now rewrite set_of_list_in, (rp_P _ _ H).
Qed.

Lemma repr_tag_count c S : repr c S -> tag_count c = q_tag_count S.
Proof.
  intros H. unfold tag_count, q_tag_count, q_tags. rewrite <- keys_length.
  apply NoDup_same_length.
  - apply (rp_rdb_ok _ _ H).
  - apply sorted_NoDup, set_of_list_sorted.
  - intros p. now rewrite set_of_list_in, (rp_T _ _ H).
Qed.

(** ** reverse *)

Lemma in_map_swap p t R : In (t, p) (map swap R) <-> In (p, t) R.
Proof.
  rewrite in_map_iff. split.
  - intros [[p' t'] [E H]]. unfold swap in E. simpl in E. now inversion E; subst.
  - intros H. now exists (p, t).
Qed.

Lemma repr_reverse c S : repr c S -> repr (mkC (c_rdb c) (c_db c)) (s_reverse S).
Proof.
  intros [H1 H2 H3 H4 H5 H6]. constructor; simpl; try assumption.
  - intros p t. now rewrite in_map_swap.
  - intros p t. now rewrite in_map_swap.
Qed.

(** ** Derivations built from a pkg -> tags dict and its [reverse] *)

Lemma in_map_snd_pairs (R : list (str * str)) t : In t (map snd R) <-> exists p, In (p, t) R.
Proof.
  rewrite in_map_iff. split.
  - intros [[p t'] [E H]]. simpl in E. subst. now exists p.
  - intros [p H]. now exists (p, t).
Qed.

Lemma in_map_fst_pairs (R : list (str * str)) p : In p (map fst R) <-> exists t, In (p, t) R.
Proof.
  rewrite in_map_iff. split.
  - intros [[p' t] [E H]]. simpl in E. subst. now exists t.
  - intros [t H]. now exists (p, t).
Qed.

Lemma repr_of_db d S' :
  dict_ok d ->
  (forall p, In p (keys d) <-> In p (r_P S')) ->
  (forall p t, In t (get d p) <-> In (p, t) (r_R S')) ->
  (forall t, In t (r_T S') <-> exists p, In (p, t) (r_R S')) ->
  repr (of_db d) S'.
Proof.
  intros Hok HP HR HT. constructor; simpl; try assumption.
  - apply reverse_d_ok.
  - intros t. rewrite reverse_d_keys by apply Hok. rewrite HT.
    split; intros [p H]; exists p; now apply HR.
  - intros p t. rewrite reverse_d_get by apply Hok. apply HR.
Qed.

(** any dict that answers [lookup] like "the entries of [c_db c] selected by [f]" *)
Lemma repr_select (f : str -> bool) d' c S :
  repr c S -> NoDup (keys d') ->
  (forall k, lookup k d' = if f k then lookup k (c_db c) else None) ->
  repr (of_db d') (s_filter_packages f S).
Proof.
  intros H Hn Hl.
  assert (Hget : forall k, get d' k = if f k then get (c_db c) k else []).
  { intros k. unfold get. rewrite Hl. now destruct (f k). }
  assert (Hkeys : forall k, In k (keys d') <-> f k = true /\ In k (keys (c_db c))).
  { intros k. rewrite <- !dict_mem_iff. unfold dict_mem. rewrite Hl.
    destruct (f k); intuition congruence. }
  apply repr_of_db.
  - split; [assumption|]. intros k v. rewrite Hl. destruct (f k); [|discriminate].
    apply (proj2 (rp_db_ok _ _ H)).
  - intros p. simpl. rewrite Hkeys, filter_In, (rp_P _ _ H). tauto.
  - intros p t. simpl. rewrite Hget, filter_In. simpl.
    destruct (f p); [rewrite (rp_db _ _ H); intuition|]. simpl. intuition congruence.
  - intros t. simpl. apply in_map_snd_pairs.
Qed.

Lemma repr_filter_packages f c S :
  repr c S -> repr (of_db (filter (fun kv => f (fst kv)) (c_db c))) (s_filter_packages f S).
Proof.
  intros H. apply (repr_select f _ c S H).
  - apply NoDup_keys_filter, (rp_db_ok _ _ H).
  - intros k. apply lookup_filter_key.
Qed.

Lemma repr_filter_packages_tags g c S :
  repr c S ->
  repr (of_db (filter (fun kv => g (fst kv) (snd kv)) (c_db c))) (s_filter_packages_tags g S).
Proof.
  intros H. unfold s_filter_packages_tags.
  apply (repr_select (fun p => g p (q_tags_of S p)) _ c S H).
  - apply NoDup_keys_filter, (rp_db_ok _ _ H).
  - intros k. rewrite lookup_filter_gen by apply (rp_db_ok _ _ H). simpl.
    destruct (lookup k (c_db c)) eqn:E.
    + assert (s = q_tags_of S k) as <-; [|reflexivity].
      rewrite <- (repr_tags_of c S k H). unfold tags_of_package, get. now rewrite E.
    + now destruct (g k (q_tags_of S k)).
Qed.

Lemma repr_choose l c S : repr c S -> repr (of_db (choose_d (c_db c) l)) (s_choose l S).
Proof.
  intros H. unfold s_choose. apply (repr_select (fun p => mem p l) _ c S H).
  - apply choose_d_NoDup.
  - intros k. apply choose_d_lookup.
Qed.

Lemma repr_filter_tags f c S :
  repr c S -> repr (of_rdb (filter (fun kv => f (fst kv)) (c_rdb c))) (s_filter_tags f S).
Proof.
  intros H.
  pose proof (repr_reverse _ _ (repr_filter_packages f _ _ (repr_reverse _ _ H))) as H'.
  simpl in H'. unfold of_rdb. eapply repr_equiv; [|exact H'].
  split; [intros p|split; [intros t|intros pt]]; simpl; split; try tauto.
  - rewrite in_map_snd_pairs. intros [t Ht]. apply filter_In in Ht. destruct Ht as [H1 H2].
    apply in_map_fst_pairs. exists t. apply filter_In. split; [|exact H2].
    destruct (proj1 (in_map_iff _ _ _) H1) as [[p' t'] [E Hin]]. unfold swap in E. simpl in E.
    now inversion E; subst.
  - rewrite in_map_fst_pairs. intros [t Ht]. apply filter_In in Ht. destruct Ht as [H1 H2].
    apply in_map_snd_pairs. exists t. apply filter_In. split; [|exact H2].
    now apply in_map_swap.
  - destruct pt as [p t]. rewrite in_map_swap. intros Ht. apply filter_In in Ht.
    destruct Ht as [H1 H2]. apply filter_In. split; [now apply in_map_swap|exact H2].
  - destruct pt as [p t]. rewrite in_map_swap. intros Ht. apply filter_In in Ht.
    destruct Ht as [H1 H2]. apply filter_In. split; [now apply in_map_swap|exact H2].
Qed.

(** ** insert (repaired) *)

Lemma ins_rdb_true_rev_add pkg rdb t : ins_rdb true pkg rdb t = rev_add pkg rdb t.
Proof. unfold ins_rdb, rev_add, get. now destruct (lookup t rdb). Qed.

Lemma in_map_pair (p q t : str) tl : In (q, t) (map (pair p) tl) <-> q = p /\ In t tl.
Proof.
  rewrite in_map_iff. split.
  - intros [t' [E H]]. now inversion E; subst.
  - intros [-> H]. now exists t.
Qed.

Lemma repr_insert c S pkg ts tl :
  repr c S -> sorted ts -> (forall t, In t ts <-> In t tl) -> ~ In pkg (r_P S) ->
  repr (insert true c pkg ts) (s_insert S pkg tl).
Proof.
  intros H Hs Hm Hfresh. unfold insert.
  rewrite (fold_left_ext _ _ (ins_rdb_true_rev_add pkg)).
  constructor; simpl.
  - apply dict_ok_dict_set; [assumption|apply (rp_db_ok _ _ H)].
  - apply rev_add_fold_ok, (rp_rdb_ok _ _ H).
  - intros p. rewrite keys_dict_set, (rp_P _ _ H). intuition.
  - intros t. rewrite rev_add_fold_keys, in_app_iff, (rp_T _ _ H), Hm. tauto.
  - intros p t. rewrite get_dict_set, in_app_iff, in_map_pair.
    destruct (str_eqb p pkg) eqn:E.
    + apply str_eqb_eq in E. subst p. rewrite Hm. split; [intuition|].
      intros [[_ Ht]|Hr]; [assumption|]. exfalso. now apply (repr_no_pair _ _ pkg t H).
    + apply str_eqb_neq in E. rewrite (rp_db _ _ H). intuition.
  - intros p t. rewrite rev_add_fold_get, in_app_iff, in_map_pair, (rp_rdb _ _ H), Hm. tauto.
Qed.

(** ** facet_collection (repaired) *)

Definition s_facet_step (src : dict) (S : rel) (p : str) : rel :=
  s_insert S p (facet_tags (get src p)).

Lemma repr_facet_fold src order : forall acc S,
  repr acc S -> NoDup order ->
  (forall p, In p order -> In p (keys src)) ->
  (forall p, In p order -> ~ In p (r_P S)) ->
  repr (fold_left (facet_step true src) order acc) (fold_left (s_facet_step src) order S).
Proof.
  induction order as [|p order IH]; intros acc S H Hn Hsub Hfresh; simpl; [assumption|].
  inversion Hn as [|? ? Hn1 Hn2]; subst.
  apply IH; try assumption.
  - unfold facet_step, s_facet_step. unfold get.
    destruct (lookup p src) eqn:E.
    + apply repr_insert; [assumption|apply set_of_list_sorted|tauto|]. apply Hfresh. now left.
    + exfalso. apply lookup_none_iff in E. apply E, Hsub. now left.
  - intros q Hq. apply Hsub. now right.
  - intros q Hq. unfold s_facet_step, s_insert. simpl. intros [->|Hin]; [contradiction|].
    apply (Hfresh q); [now right|assumption].
Qed.

Lemma s_facet_fold_P src order : forall S p,
  In p (r_P (fold_left (s_facet_step src) order S)) <-> In p (r_P S) \/ In p order.
Proof.
  induction order as [|q order IH]; intros S p; simpl; [intuition|].
  rewrite IH. simpl. intuition.
Qed.

Lemma s_facet_fold_R src order : forall S p t,
  In (p, t) (r_R (fold_left (s_facet_step src) order S)) <->
  In (p, t) (r_R S) \/ (In p order /\ In t (facet_tags (get src p))).
Proof.
  induction order as [|q order IH]; intros S p t; simpl; [intuition|].
  rewrite IH. simpl. rewrite in_app_iff, in_map_pair. intuition; subst; intuition.
Qed.

Lemma s_facet_fold_T src order : forall S t,
  In t (r_T (fold_left (s_facet_step src) order S)) <->
  In t (r_T S) \/ exists p, In p order /\ In t (facet_tags (get src p)).
Proof.
  induction order as [|q order IH]; intros S t; simpl.
  - split; [now left|]. intros [H|[p [[] _]]]. assumption.
  - rewrite IH. simpl. rewrite in_app_iff. split.
    + intros [[H|H]|[p [H1 H2]]]; [right; exists q; intuition|now left|right; exists p; intuition].
    + intros [H|[p [[->|H1] H2]]]; [left; now right|left; now left|right; exists p; intuition].
Qed.

Lemma facet_tags_in tags t' : In t' (facet_tags tags) <-> exists t, In t tags /\ t' = facet t.
Proof.
  unfold facet_tags. rewrite set_of_list_in, in_map_iff. split; intros [t H]; exists t; intuition.
Qed.

Lemma repr_facet c S order :
  repr c S -> NoDup order ->
  (forall p, In p order <-> In p (keys (c_db c))) ->
  repr (facet_collection true c order) (s_facet facet S).
Proof.
  intros H Hn Hperm. unfold facet_collection.
  eapply repr_equiv; [|apply (repr_facet_fold (c_db c) order empty_coll s_empty)].
  - split; [intros p|split; [intros t|intros pt]]; simpl; split.
    + rewrite s_facet_fold_P. simpl. intros [[]|Hp]. now rewrite <- (rp_P _ _ H), <- Hperm.
    + intros Hp. apply s_facet_fold_P. right. now rewrite Hperm, (rp_P _ _ H).
    + rewrite s_facet_fold_T. simpl. intros [[]|[p [H1 H2]]].
      apply facet_tags_in in H2. destruct H2 as [t0 [H2 ->]].
      apply in_map_snd_pairs. exists p. apply in_map_iff. exists (p, t0). split; [reflexivity|].
      now apply (rp_db _ _ H).
    + intros Ht. apply in_map_snd_pairs in Ht. destruct Ht as [p Ht].
      apply in_map_iff in Ht. destruct Ht as [[p' t0] [E Hin]]. simpl in E. inversion E; subst.
      apply s_facet_fold_T. right. exists p. split.
      * apply Hperm, (rp_P _ _ H). destruct (in_dec str_dec p (r_P S)) as [Hi|Hi]; [assumption|].
        exfalso. now apply (repr_no_pair _ _ p t0 H).
      * apply facet_tags_in. exists t0. split; [now apply (rp_db _ _ H)|reflexivity].
    + destruct pt as [p t]. rewrite s_facet_fold_R. simpl. intros [[]|[H1 H2]].
      apply facet_tags_in in H2. destruct H2 as [t0 [H2 ->]].
      apply in_map_iff. exists (p, t0). split; [reflexivity|]. now apply (rp_db _ _ H).
    + destruct pt as [p t]. intros Ht. apply in_map_iff in Ht.
      destruct Ht as [[p' t0] [E Hin]]. simpl in E. inversion E; subst.
      apply s_facet_fold_R. right. split.
      * apply Hperm, (rp_P _ _ H). destruct (in_dec str_dec p (r_P S)) as [Hi|Hi]; [assumption|].
        exfalso. now apply (repr_no_pair _ _ p t0 H).
      * apply facet_tags_in. exists t0. split; [now apply (rp_db _ _ H)|reflexivity].
  - apply repr_empty.
  - assumption.
  - intros p Hp. now apply Hperm.
  - intros p _ [].
Qed.

(** ** read *)

Definition ftags (tf : option (str -> bool)) (ts : sset) : sset :=
  match tf with None => ts | Some f => filter f ts end.

Definition s_ext (tf : option (str -> bool)) (S : rel) (r : sset * sset) : rel :=
  let R := list_prod (fst r) (ftags tf (snd r)) in
  mkR (r_P S ++ fst r) (r_T S ++ map snd R) (r_R S ++ R).

Definition pair_coll (x : dict * dict) : coll := mkC (fst x) (snd x).

Lemma ftags_sorted tf ts : sorted ts -> sorted (ftags tf ts).
Proof. destruct tf; simpl; [apply filter_sorted|auto]. Qed.

Lemma repr_read_step tf c S r :
  repr c S -> sorted (fst r) -> sorted (snd r) -> fst r <> [] ->
  (forall p, In p (fst r) -> ~ In p (r_P S)) ->
  repr (pair_coll (read_step tf (c_db c, c_rdb c) r)) (s_ext tf S r).
Proof.
  intros H Hs1 Hs2 Hne Hfresh. destruct r as [ps ts0]. simpl in *.
  unfold read_step, pair_coll. simpl.
  change (match tf with None => ts0 | Some f => filter f ts0 end) with (ftags tf ts0).
  set (ts := ftags tf ts0).
  assert (Hts : sorted ts) by now apply ftags_sorted.
  constructor; simpl.
  - apply set_fold_ok; [assumption|apply (rp_db_ok _ _ H)].
  - apply rdb_join_fold_ok; [assumption|apply (rp_rdb_ok _ _ H)].
  - intros p. rewrite set_fold_keys, in_app_iff, (rp_P _ _ H). tauto.
  - intros t. rewrite rdb_join_fold_keys, in_app_iff, (rp_T _ _ H), in_map_snd_pairs.
    split; (intros [Ht|Ht]; [now left|right]).
    + destruct ps as [|p0 ps]; [congruence|]. exists p0. apply in_prod; [now left|assumption].
    + destruct Ht as [p Hp]. apply in_prod_iff in Hp. apply Hp.
  - intros p t. rewrite set_fold_get, in_app_iff, in_prod_iff.
    destruct (existsb (str_eqb p) ps) eqn:E.
    + apply existsb_str_eqb_in in E. split; [intuition|].
      intros [Hr|[_ Ht]]; [|assumption]. exfalso.
      apply (repr_no_pair _ _ p t H); [now apply Hfresh|assumption].
    + assert (~ In p ps) by (rewrite <- existsb_str_eqb_in; congruence).
      rewrite (rp_db _ _ H). tauto.
  - intros p t. rewrite rdb_join_fold_get, in_app_iff, in_prod_iff, (rp_rdb _ _ H). tauto.
Qed.

Lemma distinct_recs_cons r rest :
  distinct_recs (r :: rest) = true ->
  (forall r' p, In r' rest -> In p (fst r) -> ~ In p (fst r')) /\ distinct_recs rest = true.
Proof.
  simpl. intros H. apply andb_true_iff in H. destruct H as [H1 H2]. split; [|assumption].
  intros r' p Hr' Hp. rewrite forallb_forall in H1. specialize (H1 r' Hr').
  rewrite forallb_forall in H1. specialize (H1 p Hp). now apply negb_true_iff, mem_false in H1.
Qed.

Lemma repr_read_fold tf recs : forall c S,
  repr c S ->
  (forall r, In r recs -> sorted (fst r) /\ sorted (snd r) /\ fst r <> []) ->
  distinct_recs recs = true ->
  (forall r p, In r recs -> In p (fst r) -> ~ In p (r_P S)) ->
  repr (pair_coll (fold_left (read_step tf) recs (c_db c, c_rdb c)))
       (fold_left (s_ext tf) recs S).
Proof.
  induction recs as [|r recs IH]; intros c S H Hwf Hd Hfresh; simpl.
  - now destruct c.
  - apply distinct_recs_cons in Hd. destruct Hd as [Hd1 Hd2].
    destruct (Hwf r (or_introl eq_refl)) as [W1 [W2 W3]].
    pose proof (repr_read_step tf c S r H W1 W2 W3 (fun p => Hfresh r p (or_introl eq_refl))) as H1.
    specialize (IH _ _ H1). unfold pair_coll at 2 3 in IH. cbn [c_db c_rdb] in IH.
    rewrite <- surjective_pairing in IH. apply IH.
    + intros r' Hr'. apply Hwf. now right.
    + assumption.
    + intros r' p Hr' Hp. simpl. rewrite in_app_iff. intros [Hin|Hin].
      * now apply (Hfresh r' p (or_intror Hr') Hp).
      * now apply (Hd1 r' p Hr' Hin).
Qed.

Lemma filter_recs_map tf rs :
  filter_recs tf rs = map (fun r => (fst r, ftags tf (snd r))) rs.
Proof.
  destruct tf; simpl; [reflexivity|].
  induction rs as [|[a b] rs IH]; simpl; [reflexivity|]. now rewrite <- IH.
Qed.

Lemma s_ext_fold_P tf recs : forall S p,
  In p (r_P (fold_left (s_ext tf) recs S)) <-> In p (r_P S) \/ exists r, In r recs /\ In p (fst r).
Proof.
  induction recs as [|r recs IH]; intros S p; simpl.
  - split; [now left|]. intros [H|[r [[] _]]]. assumption.
  - rewrite IH. simpl. rewrite in_app_iff. split.
    + intros [[H|H]|[r' [H1 H2]]]; [now left|right; exists r; intuition|right; exists r'; intuition].
    + intros [H|[r' [[->|H1] H2]]]; [left; now left|left; now right|right; exists r'; intuition].
Qed.

Lemma s_ext_fold_R tf recs : forall S pt,
  In pt (r_R (fold_left (s_ext tf) recs S)) <->
  In pt (r_R S) \/ exists r, In r recs /\ In pt (list_prod (fst r) (ftags tf (snd r))).
Proof.
  induction recs as [|r recs IH]; intros S pt; simpl.
  - split; [now left|]. intros [H|[r [[] _]]]. assumption.
  - rewrite IH. simpl. rewrite in_app_iff. split.
    + intros [[H|H]|[r' [H1 H2]]]; [now left|right; exists r; intuition|right; exists r'; intuition].
    + intros [H|[r' [[->|H1] H2]]]; [left; now left|left; now right|right; exists r'; intuition].
Qed.

Lemma s_ext_fold_T tf recs : forall S t,
  In t (r_T (fold_left (s_ext tf) recs S)) <->
  In t (r_T S) \/ exists r, In r recs /\ In t (map snd (list_prod (fst r) (ftags tf (snd r)))).
Proof.
  induction recs as [|r recs IH]; intros S pt; simpl.
  - split; [now left|]. intros [H|[r [[] _]]]. assumption.
  - rewrite IH. simpl. rewrite in_app_iff. split.
    + intros [[H|H]|[r' [H1 H2]]]; [now left|right; exists r; intuition|right; exists r'; intuition].
    + intros [H|[r' [[->|H1] H2]]]; [left; now left|left; now right|right; exists r'; intuition].
Qed.

Lemma pairs_of_in tf rs pt :
  In pt (pairs_of (filter_recs tf rs)) <->
  exists r, In r rs /\ In pt (list_prod (fst r) (ftags tf (snd r))).
Proof.
  unfold pairs_of. rewrite filter_recs_map, in_flat_map. split.
  - intros [x [Hx Hin]]. apply in_map_iff in Hx. destruct Hx as [r [<- Hr]]. now exists r.
  - intros [r [Hr Hin]]. exists (fst r, ftags tf (snd r)). split; [|assumption].
    apply in_map_iff. now exists r.
Qed.

Lemma s_ext_fold_read tf recs : rel_equiv (fold_left (s_ext tf) recs s_empty) (s_read tf recs).
Proof.
  split; [intros p|split; [intros t|intros pt]]; simpl; split.
  - rewrite s_ext_fold_P. simpl. intros [[]|[r [H1 H2]]]. apply in_flat_map. now exists r.
  - intros H. apply s_ext_fold_P. right. apply in_flat_map in H. destruct H as [r H]. now exists r.
  - rewrite s_ext_fold_T. simpl. intros [[]|[r [H1 H2]]].
    apply in_map_iff in H2. destruct H2 as [pt [<- H2]]. apply in_map. apply pairs_of_in. now exists r.
  - intros H. apply s_ext_fold_T. right. apply in_map_iff in H. destruct H as [pt [<- H]].
    apply pairs_of_in in H. destruct H as [r [H1 H2]]. exists r. split; [assumption|now apply in_map].
  - rewrite s_ext_fold_R. simpl. intros [[]|H]. now apply pairs_of_in.
  - intros H. apply s_ext_fold_R. right. now apply pairs_of_in.
Qed.

(** parse_tags produces sorted sets and at least one package per record *)
Lemma split_cs_aux_nonempty s : forall cur, split_cs_aux s cur <> [].
Proof.
  induction s as [|c s IH]; intros cur; simpl; [discriminate|].
  destruct s as [|d s']; [apply IH|].
  destruct ((c =? COMMA)%N && (d =? SP)%N); [discriminate|apply IH].
Qed.

Lemma set_of_list_nonempty l : l <> [] -> set_of_list l <> [].
Proof.
  destruct l as [|x l]; [congruence|]. intros _ E.
  assert (H : In x (set_of_list (x :: l))) by (apply set_of_list_in; now left).
  rewrite E in H. destruct H.
Qed.

Lemma parse_tags_wf lines r :
  In r (parse_tags lines) -> sorted (fst r) /\ sorted (snd r) /\ fst r <> [].
Proof.
  unfold parse_tags. rewrite in_flat_map. intros [line [_ H]].
  destruct (parse_line line) as [[g1 g2]|]; [|destruct H].
  destruct H as [<-|[]]. simpl. repeat split.
  - apply set_of_list_sorted.
  - destruct g2 as [[|c b]|]; try exact I. apply set_of_list_sorted.
  - apply set_of_list_nonempty, split_cs_aux_nonempty.
Qed.

Lemma repr_read tf lines :
  distinct_recs (parse_tags lines) = true ->
  repr (pair_coll (read_both tf lines)) (s_read tf (parse_tags lines)).
Proof.
  intros Hd. eapply repr_equiv; [apply s_ext_fold_read|].
  apply (repr_read_fold tf (parse_tags lines) empty_coll s_empty).
  - apply repr_empty.
  - intros r. apply parse_tags_wf.
  - assumption.
  - intros r p _ _ [].
Qed.

(** * One step, any history *)

Lemma step_dom_facet c order :
  step_dom c (OFacet order) = true ->
  NoDup order /\ (forall p, In p order <-> In p (keys (c_db c))).
Proof.
  simpl. intros H. apply andb_true_iff in H. destruct H as [H H3].
  apply andb_true_iff in H. destruct H as [H1 H2]. split; [now apply nodupb_NoDup|].
  rewrite forallb_forall in H2, H3. intros p. split; intros Hp.
  - apply dict_mem_iff. apply (H2 p Hp).
  - apply mem_in. apply (H3 p Hp).
Qed.

(** the repaired model: every step preserves the abstraction relation *)
Theorem step_repr c S o :
  repr c S -> step_dom c o = true -> repr (step' true c o) (spec_of_op o S).
Proof.
  intros H Hd. destruct o; unfold step'; simpl.
  - now apply (repr_read tf lines).
  - apply repr_insert; [assumption|apply set_of_list_sorted|apply set_of_list_in|].
    simpl in Hd. apply negb_true_iff in Hd. rewrite (repr_has_package c S pkg H) in Hd.
    now apply mem_false in Hd.
  - now destruct c.
  - now apply repr_reverse.
  - now apply repr_reverse.
  - now apply repr_choose.
  - rewrite (forallb_ext' _ (q_has_package S)) by (intros p; apply (repr_has_package c S p H)).
    destruct (forallb (q_has_package S) l); [now apply repr_choose|assumption].
  - now apply repr_filter_packages.
  - now apply repr_filter_packages.
  - now apply repr_filter_packages_tags.
  - now apply repr_filter_packages_tags.
  - now apply repr_filter_tags.
  - now apply repr_filter_tags.
  - apply step_dom_facet in Hd. destruct Hd as [Hn Hp]. now apply repr_facet.
Qed.

Theorem run_repr ops : forall c S,
  repr c S -> hist_dom true c ops = true -> repr (run true c ops) (spec_run S ops).
Proof.
  induction ops as [|o ops IH]; intros c S H Hd; simpl; [assumption|].
  simpl in Hd. apply andb_true_iff in Hd. destruct Hd as [Hd1 Hd2].
  apply IH; [now apply step_repr|assumption].
Qed.

(** [choose_packages_copy] raises KeyError exactly when the Spec says a requested
    package is unknown. *)
Theorem choose_copy_error fx c S l :
  repr c S ->
  step fx c (OChooseCopy l) = Err KeyError <-> forallb (q_has_package S) l = false.
Proof.
  intros H. simpl.
  rewrite (forallb_ext' _ (q_has_package S)) by (intros p; apply (repr_has_package c S p H)).
  destruct (forallb (q_has_package S) l); split; congruence.
Qed.

(** * The code as written coincides with the repair off K1's trigger *)

Lemma chars_of_single pkg : (length pkg =? 1)%nat = true -> chars_of pkg = [pkg].
Proof. destruct pkg as [|c [|d pkg]]; simpl; try discriminate. reflexivity. Qed.

Lemma ins_rdb_known fx pkg rdb t :
  dict_mem t rdb = true -> ins_rdb fx pkg rdb t = ins_rdb true pkg rdb t.
Proof. unfold ins_rdb, dict_mem. destruct (lookup t rdb); [reflexivity|discriminate]. Qed.

Lemma ins_rdb_mem fx pkg rdb t t' :
  dict_mem t' rdb = true -> dict_mem t' (ins_rdb fx pkg rdb t) = true.
Proof.
  rewrite !dict_mem_iff. intros H. unfold ins_rdb.
  destruct (lookup t rdb); apply keys_dict_set; now right.
Qed.

Lemma ins_fold_known pkg tags : forall rdb,
  forallb (fun t => dict_mem t rdb) tags = true ->
  fold_left (ins_rdb false pkg) tags rdb = fold_left (ins_rdb true pkg) tags rdb.
Proof.
  induction tags as [|t tags IH]; intros rdb H; simpl; [reflexivity|].
  simpl in H. apply andb_true_iff in H. destruct H as [H1 H2].
  rewrite (ins_rdb_known false pkg rdb t H1). apply IH.
  rewrite forallb_forall in *. intros t' Ht'. apply ins_rdb_mem. now apply H2.
Qed.

Theorem insert_faithful_eq_repaired c pkg tags :
  ins_trigger c pkg tags = false -> insert false c pkg tags = insert true c pkg tags.
Proof.
  unfold ins_trigger, insert. intros H. f_equal.
  apply andb_false_iff in H. destruct H as [H|H].
  - apply negb_false_iff in H. apply fold_left_ext. intros rdb t. unfold ins_rdb.
    now rewrite (chars_of_single pkg H).
  - apply ins_fold_known. rewrite forallb_forall. intros t Ht.
    destruct (dict_mem t (c_rdb c)) eqn:E; [reflexivity|]. exfalso.
    assert (X : existsb (fun t => negb (dict_mem t (c_rdb c))) tags = true).
    { apply existsb_exists. exists t. split; [assumption|]. now rewrite E. }
    congruence.
Qed.

Lemma facet_fold_faithful_eq_repaired src order : forall acc,
  facet_trigger src acc order = false ->
  fold_left (facet_step false src) order acc = fold_left (facet_step true src) order acc.
Proof.
  induction order as [|p order IH]; intros acc H; simpl; [reflexivity|].
  simpl in H. unfold facet_step at 2 4. destruct (lookup p src) eqn:E.
  - apply orb_false_iff in H. destruct H as [H1 H2].
    rewrite <- (insert_faithful_eq_repaired acc p (facet_tags s) H1). now apply IH.
  - now apply IH.
Qed.

Theorem step_faithful_eq_repaired c o :
  step_trigger c o = false -> step' false c o = step' true c o.
Proof.
  destruct o; unfold step'; simpl; try reflexivity.
  - intros H. now rewrite (insert_faithful_eq_repaired _ _ _ H).
  - intros H. unfold facet_collection. now rewrite (facet_fold_faithful_eq_repaired _ _ _ H).
Qed.

Theorem run_faithful_eq_repaired ops : forall c,
  k1_free c ops = true -> run false c ops = run true c ops.
Proof.
  induction ops as [|o ops IH]; intros c H; simpl; [reflexivity|].
  simpl in H. apply andb_true_iff in H. destruct H as [H1 H2]. apply negb_true_iff in H1.
  rewrite (IH _ H2). now rewrite (step_faithful_eq_repaired c o H1).
Qed.

Lemma hist_dom_faithful_eq_repaired ops : forall c,
  k1_free c ops = true -> hist_dom false c ops = hist_dom true c ops.
Proof.
  induction ops as [|o ops IH]; intros c H; simpl; [reflexivity|].
  simpl in H. apply andb_true_iff in H. destruct H as [H1 H2]. apply negb_true_iff in H1.
  rewrite (IH _ H2). now rewrite (step_faithful_eq_repaired c o H1).
Qed.

(** * Well-formed collections stand for their own relation *)

Lemma dict_wf_ok d : dict_wf d = true -> dict_ok d.
Proof.
  unfold dict_wf. intros H. apply andb_true_iff in H. destruct H as [H1 H2].
  apply nodupb_NoDup in H1. split; [assumption|].
  intros k v Hl. apply lookup_some_in in Hl. rewrite forallb_forall in H2.
  apply sortedb_sorted. apply (H2 (k, v) Hl).
Qed.

Lemma rel_of_pairs (d : dict) p t :
  NoDup (keys d) ->
  In (p, t) (flat_map (fun kv => map (pair (fst kv)) (snd kv)) d) <-> In t (get d p).
Proof.
  intros Hn. rewrite in_flat_map. split.
  - intros [[k v] [H1 H2]]. simpl in H2. apply in_map_pair in H2. destruct H2 as [-> H2].
    unfold get. now rewrite (in_lookup _ _ _ Hn H1).
  - intros H. unfold get in H. destruct (lookup p d) eqn:E; [|destruct H].
    exists (p, s). split; [now apply lookup_some_in|]. simpl. now apply in_map_pair.
Qed.

Lemma inv_b_Inv db rdb :
  NoDup (keys db) -> NoDup (keys rdb) -> inv_b db rdb = true -> Inv (mkC db rdb).
Proof.
  intros Hn1 Hn2 H. unfold inv_b in H. apply andb_true_iff in H. destruct H as [H1 H2].
  rewrite forallb_forall in H1, H2.
  intros p t. unfold packages_of_tag, tags_of_package. simpl. split; intros Hin.
  - unfold get in Hin at 1. destruct (lookup t rdb) eqn:E; [|destruct Hin].
    apply lookup_some_in in E. specialize (H2 _ E). simpl in H2. rewrite forallb_forall in H2.
    apply set_mem_in. now apply H2.
  - unfold get in Hin at 1. destruct (lookup p db) eqn:E; [|destruct Hin].
    apply lookup_some_in in E. specialize (H1 _ E). simpl in H1. rewrite forallb_forall in H1.
    apply set_mem_in. now apply H1.
Qed.

Theorem coll_wf_repr c : coll_wf c = true -> repr c (rel_of c).
Proof.
  unfold coll_wf. intros H. apply andb_true_iff in H. destruct H as [H H3].
  apply andb_true_iff in H. destruct H as [H1 H2].
  apply dict_wf_ok in H1. apply dict_wf_ok in H2.
  pose proof (inv_b_Inv _ _ (proj1 H1) (proj1 H2) H3) as HI.
  constructor; simpl; try assumption; try tauto.
  - intros p t. symmetry. apply rel_of_pairs, H1.
  - intros p t. rewrite rel_of_pairs by apply H1. apply (HI p t).
Qed.

(** * The theorems of C20 (linear layer) *)

(** repaired insert: unconditional *)
Theorem inverse_invariant_repaired c ops :
  coll_wf c = true -> hist_dom true c ops = true -> Inv (run true c ops).
Proof.
  intros Hc Hd. eapply repr_Inv. apply run_repr; [apply coll_wf_repr, Hc|assumption].
Qed.

(** code as written: on every history that never executes K1's trigger *)
Theorem inverse_invariant_faithful c ops :
  coll_wf c = true -> hist_dom false c ops = true -> k1_free c ops = true ->
  Inv (run false c ops).
Proof.
  intros Hc Hd Hk. rewrite (run_faithful_eq_repaired ops c Hk).
  rewrite (hist_dom_faithful_eq_repaired ops c Hk) in Hd.
  now apply inverse_invariant_repaired.
Qed.

Record queries_agree (c : coll) (S : rel) : Prop := mkQA {
  qa_tags : forall p, tags_of_package c p = q_tags_of S p;
  qa_pkgs : forall t, packages_of_tag c t = q_pkgs_of S t;
  qa_card : forall t, card c t = q_card S t;
  qa_hasp : forall p, has_package c p = q_has_package S p;
  qa_hast : forall t, has_tag c t = q_has_tag S t;
  qa_pc : package_count c = q_package_count S;
  qa_tc : tag_count c = q_tag_count S }.

Lemma repr_queries c S : repr c S -> queries_agree c S.
Proof.
  intros H. constructor; intros.
  - now apply repr_tags_of.
  - now apply repr_pkgs_of.
  - now apply repr_card.
  - now apply repr_has_package.
  - now apply repr_has_tag.
  - now apply repr_package_count.
  - now apply repr_tag_count.
Qed.

Theorem queries_agree_repaired c ops :
  coll_wf c = true -> hist_dom true c ops = true ->
  queries_agree (run true c ops) (spec_run (rel_of c) ops).
Proof.
  intros Hc Hd. apply repr_queries, run_repr; [apply coll_wf_repr, Hc|assumption].
Qed.

Theorem queries_agree_faithful c ops :
  coll_wf c = true -> hist_dom false c ops = true -> k1_free c ops = true ->
  queries_agree (run false c ops) (spec_run (rel_of c) ops).
Proof.
  intros Hc Hd Hk. rewrite (run_faithful_eq_repaired ops c Hk).
  rewrite (hist_dom_faithful_eq_repaired ops c Hk) in Hd.
  now apply queries_agree_repaired.
Qed.

(** * The side condition is exact: an insert that executes the trigger breaks Inv *)

Lemma ins_fold_get_other fx pkg tags t : forall rdb,
  ~ In t tags -> get (fold_left (ins_rdb fx pkg) tags rdb) t = get rdb t.
Proof.
  induction tags as [|t0 tags IH]; intros rdb Hn; simpl; [reflexivity|].
  rewrite IH by (intros Hin; apply Hn; now right).
  assert (Hne : str_eqb t t0 = false) by (apply str_eqb_neq; intros ->; apply Hn; now left).
  unfold ins_rdb. destruct (lookup t0 rdb); now rewrite get_dict_set, Hne.
Qed.

Lemma ins_fold_get_new pkg tags t : forall rdb,
  NoDup tags -> In t tags -> ~ In t (keys rdb) ->
  get (fold_left (ins_rdb false pkg) tags rdb) t = chars_of pkg.
Proof.
  induction tags as [|t0 tags IH]; intros rdb Hn Hin Hk; [destruct Hin|]. simpl.
  inversion Hn as [|? ? Hn1 Hn2]; subst.
  destruct (str_dec t t0) as [->|Hne].
  - rewrite ins_fold_get_other by assumption. unfold ins_rdb.
    apply lookup_none_iff in Hk. rewrite Hk. now rewrite get_dict_set, str_eqb_refl.
  - destruct Hin as [->|Hin]; [congruence|]. apply IH; try assumption.
    intros Hk'. apply Hk. unfold ins_rdb in Hk'.
    destruct (lookup t0 rdb); apply keys_dict_set in Hk'; destruct Hk' as [->|Hk']; congruence.
Qed.

Lemma chars_of_notin pkg : (length pkg =? 1)%nat = false -> ~ In pkg (chars_of pkg).
Proof.
  intros H Hin. unfold chars_of in Hin. apply set_of_list_in, in_map_iff in Hin.
  destruct Hin as [c [E _]]. subst pkg. discriminate.
Qed.

Theorem trigger_breaks_inv c pkg tags :
  ins_trigger c pkg (set_of_list tags) = true -> ~ Inv (insert false c pkg (set_of_list tags)).
Proof.
  unfold ins_trigger. intros H HI. apply andb_true_iff in H. destruct H as [H1 H2].
  apply negb_true_iff in H1. apply existsb_exists in H2. destruct H2 as [t [Ht Hm]].
  apply negb_true_iff, dict_mem_false in Hm.
  specialize (HI pkg t). unfold packages_of_tag, tags_of_package, insert in HI. simpl in HI.
  rewrite get_dict_set, str_eqb_refl in HI.
  rewrite ins_fold_get_new in HI; try assumption.
  - apply (chars_of_notin pkg H1). now apply HI.
  - apply sorted_NoDup, set_of_list_sorted.
Qed.

(** * The module-level functions: reverse(), read_tag_database*() *)

(** [reverse(db)] is the inverse index of any dict *)
Theorem reverse_inverse (d : dict) : nodupb (keys d) = true -> Inv (of_db d).
Proof.
  intros H p t. unfold packages_of_tag, tags_of_package, of_db. simpl.
  apply reverse_d_get. now apply nodupb_NoDup.
Qed.

Lemma read_db_fold_NoDup recs : forall d : dict,
  NoDup (keys d) ->
  NoDup (keys (fold_left (fun d (pt : sset * sset) =>
                 fold_left (fun d p => dict_set p (snd pt) d) (fst pt) d) recs d)).
Proof.
  induction recs as [|pt recs IH]; intros d H; simpl; [assumption|].
  apply IH. generalize dependent d. induction (fst pt) as [|p ps IHp]; intros d H; simpl; [assumption|].
  apply IHp. now apply NoDup_keys_dict_set.
Qed.

Theorem read_db_reverse_inverse lines : Inv (of_db (read_db lines)).
Proof.
  intros p t. unfold packages_of_tag, tags_of_package, of_db. simpl.
  apply reverse_d_get. unfold read_db. apply read_db_fold_NoDup. constructor.
Qed.

(** [read_tag_database_both_ways] without a filter is the pair of the two one-way readers *)
Theorem read_both_components lines :
  read_both None lines = (read_db lines, read_db_reversed lines).
Proof.
  unfold read_both, read_both_parsed, read_db, read_db_reversed.
  generalize (parse_tags lines). intros recs.
  generalize (@nil (str * sset)) at 1 3. generalize (@nil (str * sset)).
  induction recs as [|pt recs IH]; intros a b; simpl; [reflexivity|]. apply IH.
Qed.
