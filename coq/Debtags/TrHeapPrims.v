(** C20 — primitives of the regenerated class DB of lib/debian/debtags.py (Gen/TrDebtagsDB.v).

    RENDERING.  The dict objects held in [self.db] / [self.rdb] and the set objects stored in them have IDENTITY
    and are shared between collections ([x.reverse()] shares both dicts, the derivations without [_copy] share the
    sets): they live in the model's heap (Debtags/Model.v: [heap] = a store of set objects and a store of dict
    objects).  A [dref] / [sref] is a reference into it; the heap is threaded through the translated methods as
    state (and returned on exceptions too); [self.db], [self.rdb] are two more state variables holding references.
    A set or dict that a method has just made and that has no other name yet (a [fset], a [vdict]) is a VALUE until
    it is stored into an object of the heap: the store allocates it (the model's [alloc_set] / [alloc_vdict]) — so
    the heap never contains garbage, exactly like the model's.

    Every primitive is defined from the model's own heap functions.  Definitions only. *)
From Verif Require Import Lib.Base Lib.PyStr Lib.Tr Debtags.StrSet Debtags.Model Debtags.TrPrims Gen.TrDebtags.

Definition dref := nat.      (* a reference to a dict object {str: set object} *)
Definition sref := nat.      (* a reference to a set object *)

(** * dict objects *)
(** [{}]: a new, empty dict object *)
Definition trp_hd_new (h : heap) : mres dref heap := let (h', d) := alloc_dict h [] in MOk d h'.
(** [k in d] *)
Definition trp_hd_contains (h : heap) (d : dref) (k : str) : result bool := Ok (dict_mem k (get_dict h d)).
(** [d[k]]: the set OBJECT stored under k *)
Definition trp_hd_getitem (h : heap) (d : dref) (k : str) : result sref :=
  match lookup k (get_dict h d) with
  | Some r => Ok r
  | None => Err KeyError
  end.
(** [d[k] = <a set that was just made>]: the set becomes an object of the heap.  (Parameters in Python's evaluation
    order: value, container, key.) *)
Definition trp_hd_setitem_fresh (h : heap) (v : fset) (d : dref) (k : str) : mres unit heap :=
  let (h1, r) := alloc_set h v in MOk tt (put_dict h1 d (dict_set k r (get_dict h1 d))).
(** [len(d)], [d.keys()], [d.items()] (insertion order; items are (key, set OBJECT)) *)
Definition trp_hd_len (h : heap) (d : dref) : Z := Z.of_nat (length (get_dict h d)).
Definition trp_hd_keys (h : heap) (d : dref) : list str := keys (get_dict h d).
Definition trp_hd_items (h : heap) (d : dref) : list (str * sref) := get_dict h d.

(** * set objects *)
(** [s.add(x)]: in place *)
Definition trp_sref_add (h : heap) (r : sref) (x : str) : mres unit heap :=
  MOk tt (put_set h r (set_add x (get_set h r))).
(** [s.copy()] (a new set with the same elements, not yet stored anywhere), the elements of [s] where a method
    RETURNS the set (the model's queries return values), [len(s)], [for x in s] (canonical order) *)
Definition trp_sref_copy (h : heap) (r : sref) : fset := get_set h r.
Definition trp_sref_value (h : heap) (r : sref) : sset := get_set h r.
Definition trp_sref_len (h : heap) (r : sref) : Z := Z.of_nat (length (get_set h r)).
Definition trp_sref_iter (h : heap) (r : sref) : list str := get_set h r.

(** * [read_tag_database_both_ways(..)] as called by DB.read: the two dicts it returns (values in Gen/TrDebtags.v:
    none of their sets has another name) become objects of the heap — the model's [alloc_vdict] *)
Definition trp_h_read_both (h : heap) (lines : list str) (tf : option strpred) : mres (dref * dref) heap :=
  match tr_read_tag_database_both_ways lines tf with
  | Ok (a, b) =>
      let (h1, d1) := alloc_vdict h a in
      let (h2, d2) := alloc_vdict h1 b in MOk (d1, d2) h2
  | Err e => MErr e h
  end.

(** * A DB object under construction: [res = DB()] followed by [res.db = ..; res.rdb = ..].
    The two empty dicts that [DB.__init__] makes are unreachable once both attributes have been assigned; the
    model does not allocate them, so [DB()] is the blank object here (in [facet_collection], where the new object's
    own dicts are used, it is the model's [h_new]: Debtags/TrDerivePrims.v).  A method returns the object as it
    is: the tie theorems show that both attributes have been assigned ([ob_of]). *)
Definition objb := (option dref * option dref)%type.
Definition trp_db_blank : objb := (None, None).
Definition ob_of (o : obj) : objb := (Some (fst o), Some (snd o)).
(** [res.db = <a dict object>]: shared *)
Definition trp_ob_set_db_ref (o : objb) (d : dref) : objb := (Some d, snd o).
Definition trp_ob_set_rdb_ref (o : objb) (d : dref) : objb := (fst o, Some d).
(** [res.db = <a dict that was just made, of sets that were just made>]: published, the model's [alloc_vdict] *)
Definition trp_ob_set_db_vd (h : heap) (o : objb) (vd : vdict) : mres objb heap :=
  let (h', d) := alloc_vdict h vd in MOk (Some d, snd o) h'.
Definition trp_ob_set_rdb_vd (h : heap) (o : objb) (vd : vdict) : mres objb heap :=
  let (h', d) := alloc_vdict h vd in MOk (fst o, Some d) h'.
(** [{k: v for ..}]: the pairs in order; a later pair with an equal key replaces the value *)
Definition trp_vd_of_pairs (l : list (str * fset)) : vdict :=
  fold_left (fun d kv => dict_set (fst kv) (snd kv) d) l [].
