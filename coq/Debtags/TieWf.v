(** C20 — the guards of the tie theorems hold in every state the model can reach: every dict object of the heap has
    distinct keys ([keys_wf], proved here for every step of [hstep]) and every live object is closed ([hwf],
    Debtags/HeapWf.v). *)
From Verif Require Import Lib.Base Lib.PyStr Lib.Tr Debtags.StrSet Debtags.Model
  Debtags.SetProofs Debtags.DictProofs Debtags.Proofs Debtags.HeapBase Debtags.HeapInsert Debtags.HeapDerive
  Debtags.HeapWf Debtags.TrPrims Gen.TrDebtags Debtags.Tie Debtags.TrHeapPrims Gen.TrDebtagsDB Debtags.TieDB.

Definition keys_wf (h : heap) : Prop := forall d, NoDup (keys (get_dict h d)).

Lemma NoDup_nil_keys {V} : NoDup (keys (@nil (str * V))).
Proof. constructor. Qed.

Lemma keys_wf_alloc_set h s : keys_wf h -> keys_wf (fst (alloc_set h s)).
Proof. intros W d. exact (W d). Qed.

Lemma keys_wf_put_set h r s : keys_wf h -> keys_wf (put_set h r s).
Proof. intros W d. exact (W d). Qed.

Lemma keys_wf_alloc_dict h rd : keys_wf h -> NoDup (keys rd) -> keys_wf (fst (alloc_dict h rd)).
Proof.
  intros W Hn d. unfold get_dict, alloc_dict. cbn [fst h_dicts].
  destruct (Nat.lt_trichotomy d (length (h_dicts h))) as [L|[->|L]].
  - rewrite app_nth1 by exact L. exact (W d).
  - rewrite nth_snoc_eq. exact Hn.
  - rewrite nth_overflow; [constructor|]. rewrite app_length. simpl. lia.
Qed.

Lemma keys_wf_put_dict h d x : keys_wf h -> NoDup (keys x) -> keys_wf (put_dict h d x).
Proof.
  intros W Hn d'. destruct (Nat.eq_dec d d') as [<-|Hne].
  - destruct (Nat.lt_ge_cases d (ndicts h)) as [L|L].
    + now rewrite get_dict_put_dict_eq.
    + unfold get_dict, put_dict. cbn [h_dicts]. rewrite nth_overflow; [constructor|].
      rewrite upd_length. exact L.
  - rewrite get_dict_put_dict_neq by exact Hne. exact (W d').
Qed.

Lemma keys_fresh_dict ks n0 : keys (fresh_dict ks n0) = ks.
Proof.
  unfold keys, fresh_dict. revert n0. induction ks as [|k ks IH]; intros n0; simpl; [reflexivity|]. now rewrite IH.
Qed.

Lemma keys_wf_alloc_vdict h vd : keys_wf h -> NoDup (keys vd) -> keys_wf (fst (alloc_vdict h vd)).
Proof.
  intros W Hn d. rewrite alloc_vdict_eq. unfold get_dict. cbn [fst h_dicts].
  destruct (Nat.lt_trichotomy d (length (h_dicts h))) as [L|[->|L]].
  - rewrite app_nth1 by exact L. exact (W d).
  - rewrite nth_snoc_eq, keys_fresh_dict. exact Hn.
  - rewrite nth_overflow; [constructor|]. rewrite app_length. simpl. lia.
Qed.

Lemma keys_wf_ins_rdb fx pkg rd h t : keys_wf h -> keys_wf (h_ins_rdb fx pkg rd h t).
Proof.
  intros W. unfold h_ins_rdb. destruct (lookup t (get_dict h rd)) as [sr|].
  - now apply keys_wf_put_set.
  - destruct (alloc_set h (if fx then [pkg] else chars_of pkg)) as [h' r] eqn:E.
    assert (W' : keys_wf h') by (replace h' with (fst (alloc_set h (if fx then [pkg] else chars_of pkg)))
                                   by (now rewrite E); now apply keys_wf_alloc_set).
    apply keys_wf_put_dict; [exact W'|]. apply NoDup_keys_dict_set, W'.
Qed.

Lemma keys_wf_insert fx h o pkg tags : keys_wf h -> keys_wf (h_insert fx h o pkg tags).
Proof.
  intros W. rewrite h_insert_unfold.
  assert (W1 : keys_wf (put_dict (fst (alloc_set h tags)) (fst o) (dict_set pkg (nsets h) (get_dict h (fst o))))).
  { apply keys_wf_put_dict; [now apply keys_wf_alloc_set|]. apply NoDup_keys_dict_set, W. }
  revert W1. generalize (put_dict (fst (alloc_set h tags)) (fst o) (dict_set pkg (nsets h) (get_dict h (fst o)))).
  induction tags as [|t tags IH]; intros h0 W0; simpl; [exact W0|]. apply IH. now apply keys_wf_ins_rdb.
Qed.

Lemma keys_deref h (rd : rdict) : keys (deref h rd) = keys rd.
Proof. apply deref_keys. Qed.

Lemma two_vdicts_keys h vd1 vd2 :
  keys_wf h -> NoDup (keys vd1) -> NoDup (keys vd2) ->
  keys_wf (fst (alloc_vdict (fst (alloc_vdict h vd1)) vd2)).
Proof. intros W H1 H2. apply keys_wf_alloc_vdict; [now apply keys_wf_alloc_vdict|exact H2]. Qed.

Lemma reverse_d_NoDup d : NoDup (keys (reverse_d d)).
Proof. exact (proj1 (reverse_d_ok d)). Qed.

Lemma fst_let_pair {A B C} (p : A * B) (f : A -> B -> C) : (let (a, b) := p in f a b) = f (fst p) (snd p).
Proof. now destruct p. Qed.

Lemma keys_wf_of_db h db : keys_wf h -> NoDup (keys db) -> keys_wf (fst (h_of_db h db)).
Proof.
  intros W Hn. unfold h_of_db. rewrite !fst_let_pair. cbn [fst].
  apply keys_wf_alloc_vdict; [now apply keys_wf_alloc_dict|apply reverse_d_NoDup].
Qed.

Lemma keys_wf_of_rdb h db : keys_wf h -> NoDup (keys db) -> keys_wf (fst (h_of_rdb h db)).
Proof.
  intros W Hn. unfold h_of_rdb. rewrite !fst_let_pair. cbn [fst].
  apply keys_wf_alloc_vdict; [now apply keys_wf_alloc_dict|apply reverse_d_NoDup].
Qed.

Lemma keys_wf_of_db_copy h (db : rdict) : keys_wf h -> NoDup (keys db) -> keys_wf (fst (h_of_db_copy h db)).
Proof.
  intros W Hn. unfold h_of_db_copy. rewrite !fst_let_pair. cbn [fst].
  apply two_vdicts_keys; [exact W|now rewrite keys_deref|apply reverse_d_NoDup].
Qed.

Lemma keys_wf_of_rdb_copy h (db : rdict) : keys_wf h -> NoDup (keys db) -> keys_wf (fst (h_of_rdb_copy h db)).
Proof.
  intros W Hn. unfold h_of_rdb_copy. rewrite !fst_let_pair. cbn [fst].
  apply two_vdicts_keys; [exact W|now rewrite keys_deref|apply reverse_d_NoDup].
Qed.

(** the readers build dicts with distinct keys *)
Lemma fold_dict_set_NoDup (tags : sset) l : forall d : dict,
  NoDup (keys d) -> NoDup (keys (fold_left (fun d p => dict_set p tags d) l d)).
Proof. induction l as [|p l IH]; intros d H; simpl; [exact H|]. apply IH. now apply NoDup_keys_dict_set. Qed.

Lemma rdb_join_NoDup ps (d : dict) t : NoDup (keys d) -> NoDup (keys (rdb_join ps d t)).
Proof. intros H. unfold rdb_join. destruct (lookup t d); now apply NoDup_keys_dict_set. Qed.

Lemma fold_rdb_join_NoDup ps l : forall d : dict,
  NoDup (keys d) -> NoDup (keys (fold_left (rdb_join ps) l d)).
Proof. induction l as [|p l IH]; intros d H; simpl; [exact H|]. apply IH. now apply rdb_join_NoDup. Qed.

Lemma read_both_NoDup tf lines :
  NoDup (keys (fst (read_both tf lines))) /\ NoDup (keys (snd (read_both tf lines))).
Proof.
  unfold read_both, read_both_parsed.
  assert (G : forall recs (acc : dict * dict), NoDup (keys (fst acc)) -> NoDup (keys (snd acc)) ->
              NoDup (keys (fst (fold_left (read_step tf) recs acc)))
              /\ NoDup (keys (snd (fold_left (read_step tf) recs acc)))).
  { induction recs as [|r recs IH]; intros acc H1 H2; simpl; [now split|].
    apply IH; unfold read_step; cbn [fst snd].
    - now apply fold_dict_set_NoDup.
    - now apply fold_rdb_join_NoDup. }
  apply G; constructor.
Qed.

Lemma keys_wf_facet fx src fc order : forall h h' t,
  keys_wf h -> h_facet fx h src fc order = Ok (h', t) -> keys_wf h'.
Proof.
  induction order as [|p rest IH]; intros h h' t W H; simpl in H.
  - now inversion H; subst.
  - destruct (lookup p src) as [r|]; [|discriminate].
    destruct (h_facet fx (h_insert fx h fc p (facet_tags (get_set h r))) src fc rest) as [[h2 t2]|e] eqn:E;
      [|discriminate].
    inversion H; subst. eapply IH; [|exact E]. now apply keys_wf_insert.
Qed.

Lemma keys_wf_new h : keys_wf h -> keys_wf (fst (h_new h)).
Proof.
  intros W. rewrite h_new_eq. cbn [fst].
  apply keys_wf_alloc_dict; [apply keys_wf_alloc_dict; [exact W|constructor]|constructor].
Qed.

Theorem hstep_keys_wf fx st op : keys_wf (st_heap st) -> keys_wf (st_heap (hstate_of (hstep fx st op))).
Proof.
  intros W. unfold hstate_of.
  destruct op as [|o lines tf|o pkg tags|o|o|o|o l|o l|o f|o f|o g|o g|o f|o f|o order];
    [exact (keys_wf_new _ W)|..];
    (destruct (nth_error (st_objs st) o) as [ob|] eqn:Ho;
     [|rewrite hstep_no_obj by (simpl; congruence); exact W]);
    lazymatch goal with
    | |- context [HFacet] => rewrite (hstep_facet fx st o order ob Ho)
    | _ => simpl; rewrite Ho
    end.
  - (* read *)
    destruct (read_both_NoDup tf lines) as [N1 N2].
    pose proof (two_vdicts_keys _ _ _ W N1 N2) as T.
    destruct (alloc_vdict (st_heap st) (fst (read_both tf lines))) as [h1 d1]. cbn [fst] in T.
    destruct (alloc_vdict h1 (snd (read_both tf lines))) as [h2 d2]. exact T.
  - (* insert *) now apply keys_wf_insert.
  - (* copy *)
    assert (T := two_vdicts_keys (st_heap st) (deref (st_heap st) (get_dict (st_heap st) (fst ob)))
                   (deref (st_heap st) (get_dict (st_heap st) (snd ob))) W).
    rewrite !keys_deref in T. specialize (T (W _) (W _)).
    destruct (alloc_vdict (st_heap st) _) as [h1 d1]. cbn [fst] in T. destruct (alloc_vdict h1 _) as [h2 d2]. exact T.
  - (* reverse *) exact W.
  - (* reverse_copy *)
    assert (T := two_vdicts_keys (st_heap st) (deref (st_heap st) (get_dict (st_heap st) (snd ob)))
                   (deref (st_heap st) (get_dict (st_heap st) (fst ob))) W).
    rewrite !keys_deref in T. specialize (T (W _) (W _)).
    destruct (alloc_vdict (st_heap st) _) as [h1 d1]. cbn [fst] in T. destruct (alloc_vdict h1 _) as [h2 d2]. exact T.
  - (* choose *) apply keys_wf_of_db; [exact W|apply choose_d_NoDup].
  - (* choose_copy *)
    destruct (forallb _ l); [|exact W]. apply keys_wf_of_db_copy; [exact W|apply choose_d_NoDup].
  - apply keys_wf_of_db; [exact W|apply NoDup_keys_filter, W].
  - apply keys_wf_of_db_copy; [exact W|apply NoDup_keys_filter, W].
  - apply keys_wf_of_db; [exact W|apply NoDup_keys_filter, W].
  - apply keys_wf_of_db_copy; [exact W|apply NoDup_keys_filter, W].
  - apply keys_wf_of_rdb; [exact W|apply NoDup_keys_filter, W].
  - apply keys_wf_of_rdb_copy; [exact W|apply NoDup_keys_filter, W].
  - (* facet *)
    pose proof (keys_wf_new _ W) as W1. destruct (h_new (st_heap st)) as [h1 fc]. cbn [fst] in W1.
    destruct (h_facet fx h1 (get_dict (st_heap st) (fst ob)) fc order) as [[h2 trig]|e] eqn:E; [|exact W].
    simpl. eapply keys_wf_facet; eassumption.
Qed.

Theorem hrun_keys_wf fx ops : forall st, keys_wf (st_heap st) -> keys_wf (st_heap (hrun fx st ops)).
Proof.
  induction ops as [|op ops IH]; intros st W; simpl; [exact W|]. now apply IH, hstep_keys_wf.
Qed.

Lemma keys_wf_empty : keys_wf (st_heap empty_state).
Proof. intros d. unfold get_dict. simpl. destruct d; constructor. Qed.

Lemma NoDup_nodupb l : NoDup l -> nodupb l = true.
Proof.
  induction l as [|x l IH]; intros H; simpl; [reflexivity|]. inversion H as [|? ? H1 H2]; subst.
  rewrite IH by assumption. rewrite andb_true_r. apply negb_true_iff. now apply mem_false.
Qed.

(** In every state reached from the empty one by any sequence of operations, every live object satisfies every guard
    of the tie theorems. *)
Theorem reachable_guards fx ops o ob :
  let st := hrun fx empty_state ops in
  nth_error (st_objs st) o = Some ob ->
  dict_keysb (st_heap st) (fst ob) = true /\ dict_keysb (st_heap st) (snd ob) = true
  /\ dict_closedb (st_heap st) (fst ob) = true /\ dict_closedb (st_heap st) (snd ob) = true
  /\ (fst ob <? ndicts (st_heap st))%nat = true.
Proof.
  intros st Ho.
  pose proof (hrun_keys_wf fx ops empty_state keys_wf_empty) as K. fold st in K.
  pose proof (hrun_hwf fx ops empty_state hwf_empty) as W. fold st in W.
  pose proof (hw_closed _ W o ob Ho) as C.
  destruct (closed_obj_dict_closedb _ _ C) as [C1 C2].
  repeat split; try assumption.
  - apply NoDup_nodupb, K.
  - apply NoDup_nodupb, K.
  - apply Nat.ltb_lt, (co_db _ _ C).
Qed.
