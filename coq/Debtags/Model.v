(** Model of lib/debian/debtags.py (class DB, parse_tags, read_tag_database*,
    reverse) AS IT IS IN /repo NOW.  No proofs here.

    Two layers.

    LINEAR  — one collection is a pair of association lists (Python dicts:
              distinct keys, insertion order) whose values are sets of strings
              (sorted duplicate-free lists, code-point order).  Every derivation
              returns a new collection value.

    HEAP    — Python object identity made explicit: a store of set objects, a
              store of dict objects (key -> reference to a set object) and DB
              objects holding two dict references.  [x.reverse()] shares both
              dicts, the "sharing" derivations share set objects, [copy()] and the
              other "_copy" derivations allocate new ones, [insert] mutates
              [rdb[tag]] in place.  This is the layer the correspondence check
              runs, because it predicts what every live object looks like
              after every operation.

    Parameter [fx : bool] of [insert] selects the one-token repair of finding
    K1: [fx = false] is the code as written — [self.rdb[tag] = set((pkg))], the
    set of the CHARACTERS of [pkg] — and [fx = true] is [set((pkg,))]. *)
From Verif Require Import Lib.Base Lib.PyStr Gen.PyChars Debtags.StrSet.

(** [set((pkg))] — the parentheses are not a tuple: the set of the characters of
    [pkg], each a one-character string. *)
Definition chars_of (pkg : str) : sset := set_of_list (map (fun c => [c]) pkg).

(** * Dicts: association lists with distinct keys, insertion order *)

Section Dict.
Context {V : Type}.
Fixpoint lookup (k : str) (d : list (str * V)) : option V :=
  match d with
  | [] => None
  | (k', v) :: d' => if str_eqb k k' then Some v else lookup k d'
  end.
(** [d[k] = v] *)
Fixpoint dict_set (k : str) (v : V) (d : list (str * V)) : list (str * V) :=
  match d with
  | [] => [(k, v)]
  | (k', v') :: d' => if str_eqb k k' then (k, v) :: d' else (k', v') :: dict_set k v d'
  end.
Definition dict_mem (k : str) (d : list (str * V)) : bool :=
  match lookup k d with Some _ => true | None => false end.
End Dict.

Definition dict := list (str * sset).
Definition keys {V} (d : list (str * V)) : list str := map fst d.
(** [d[k] if k in d else set()] *)
Definition get (d : dict) (k : str) : sset :=
  match lookup k d with Some s => s | None => [] end.

(** * parse_tags *)

Definition COLON : N := 58.
Definition COMMA : N := 44.
Definition all_ws (s : str) : bool := forallb py_isspace s.

(** The pattern is  ^ (.+?) (?: :? \s* | : \s+ (.+?) \s* ) $  (written here with blanks
    between the tokens).  [match_rest r] decides, for
    a fixed end of group 1, whether the rest [r] of the line is matched by the
    alternation followed by [$], and returns group 2.
    - first alternative (optional colon, white space, end): [r] or [r] minus a leading colon is all
      white space ([$] also matches before a final LF, which is white space);
    - second alternative: colon, at least one white space, then
      the lazy group extends to the last non-space character and must not cross
      a LF (no shorter [\s+] can help: the group would cross the same LF). *)
Definition match_rest (r : str) : option (option str) :=
  if all_ws r then Some None
  else match r with
       | c :: r' =>
           if (c =? COLON)%N then
             if all_ws r' then Some None
             else match r' with
                  | w :: _ =>
                      if py_isspace w then
                        let body := strip_by py_isspace r' in
                        if mem_char LF body then None else Some (Some body)
                      else None
                  | [] => None
                  end
           else None
       | [] => None
       end.

(** Lazy group 1: the shortest non-empty LF-free prefix after which the rest matches. *)
Fixpoint parse_line_from (g1rev : str) (s : str) : option (str * option str) :=
  match match_rest s with
  | Some g2 => Some (rev g1rev, g2)
  | None =>
      match s with
      | c :: s' => if (c =? LF)%N then None else parse_line_from (c :: g1rev) s'
      | [] => None
      end
  end.

Definition parse_line (line : str) : option (str * option str) :=
  match line with
  | c :: s => if (c =? LF)%N then None else parse_line_from [c] s
  | [] => None
  end.

(** [s.split(', ')] *)
Fixpoint split_cs_aux (s cur : str) : list str :=
  match s with
  | [] => [rev cur]
  | c :: s' =>
      match s' with
      | d :: s'' =>
          if (c =? COMMA)%N && (d =? SP)%N then rev cur :: split_cs_aux s'' []
          else split_cs_aux s' (c :: cur)
      | [] => split_cs_aux s' (c :: cur)
      end
  end.
Definition split_cs (s : str) : list str := split_cs_aux s [].

Definition parse_tags (lines : list str) : list (sset * sset) :=
  flat_map (fun line =>
    match parse_line line with
    | None => []
    | Some (g1, g2) =>
        [(set_of_list (split_cs g1),
          match g2 with
          | Some (c :: b) => set_of_list (split_cs (c :: b))   (* [if m.group(2):] *)
          | _ => []
          end)]
    end) lines.

(** * read_tag_database, read_tag_database_reversed, read_tag_database_both_ways *)

(** [if tag in dbr: dbr[tag] |= pkgs else: dbr[tag] = pkgs.copy()] *)
Definition rdb_join (pkgs : sset) (dbr : dict) (tag : str) : dict :=
  match lookup tag dbr with
  | Some s => dict_set tag (set_union pkgs s) dbr
  | None => dict_set tag pkgs dbr
  end.

Definition read_step (tf : option (str -> bool)) (acc : dict * dict) (pt : sset * sset)
  : dict * dict :=
  let tags := match tf with None => snd pt | Some f => filter f (snd pt) end in
  (fold_left (fun d p => dict_set p tags d) (fst pt) (fst acc),
   fold_left (rdb_join (fst pt)) tags (snd acc)).

Definition read_both_parsed (tf : option (str -> bool)) (recs : list (sset * sset)) : dict * dict :=
  fold_left (read_step tf) recs ([], []).
Definition read_both (tf : option (str -> bool)) (lines : list str) : dict * dict :=
  read_both_parsed tf (parse_tags lines).

Definition read_db (lines : list str) : dict :=
  fold_left (fun d pt => fold_left (fun d p => dict_set p (snd pt) d) (fst pt) d) (parse_tags lines) [].
Definition read_db_reversed (lines : list str) : dict :=
  fold_left (fun d pt => fold_left (rdb_join (fst pt)) (snd pt) d) (parse_tags lines) [].

(** * reverse(db) *)

(** [if tag not in res: res[tag] = set()]; [res[tag].add(pkg)] *)
Definition rev_add (pkg : str) (res : dict) (tag : str) : dict :=
  dict_set tag (set_add pkg (get res tag)) res.
Definition reverse_d (d : dict) : dict :=
  fold_left (fun res kv => fold_left (rev_add (fst kv)) (snd kv) res) d [].

(** * The facet leaf: [re.compile(r"^([^:]+).+").sub(r"\1", t)] *)

(** Group 1 is greedy over non-colons (LF included) but must leave at least one
    non-LF character for [.+]: the largest [k] in [1 .. run] with [t[k]] present
    and not LF. *)
Fixpoint facet_k (t : str) (k : nat) : option nat :=
  match k with
  | O => None
  | S k' =>
      match nth_error t k with
      | Some c => if (c =? LF)%N then facet_k t k' else Some k
      | None => facet_k t k'
      end
  end.

Definition facet (t : str) : str :=
  let run := takewhile (fun c => negb (c =? COLON)%N) t in
  match facet_k t (length run) with
  | Some k => firstn k t ++ dropwhile (fun c => negb (c =? LF)%N) (skipn k t)
  | None => t
  end.

(** * LINEAR layer *)

Record coll := mkC { c_db : dict; c_rdb : dict }.
Definition empty_coll : coll := mkC [] [].

(** DB.insert — [tags] is the caller's set.
    [self.db[pkg] = tags.copy()]; for each tag: [self.rdb[tag].add(pkg)] if the
    tag is known, else [self.rdb[tag] = set((pkg))]. *)
Definition ins_rdb (fx : bool) (pkg : str) (rdb : dict) (tag : str) : dict :=
  match lookup tag rdb with
  | Some s => dict_set tag (set_add pkg s) rdb
  | None => dict_set tag (if fx then [pkg] else chars_of pkg) rdb
  end.

Definition insert (fx : bool) (c : coll) (pkg : str) (tags : sset) : coll :=
  mkC (dict_set pkg tags (c_db c)) (fold_left (ins_rdb fx pkg) tags (c_rdb c)).

(** K1's trigger: a tag not yet in [rdb] and a name whose length is not 1. *)
Definition ins_trigger (c : coll) (pkg : str) (tags : sset) : bool :=
  negb (length pkg =? 1)%nat && existsb (fun t => negb (dict_mem t (c_rdb c))) tags.

(** [db = {}; for pkg in package_iter: if pkg in self.db: db[pkg] = self.db[pkg]] *)
Definition choose_d {V} (d : list (str * V)) (l : list str) : list (str * V) :=
  fold_left (fun acc p => match lookup p d with Some v => dict_set p v acc | None => acc end) l [].

Definition of_db (db : dict) : coll := mkC db (reverse_d db).
Definition of_rdb (rdb : dict) : coll := mkC (reverse_d rdb) rdb.

Definition facet_tags (tags : sset) : sset := set_of_list (map facet tags).

(** facet_collection: [for pkg, tags in self.db.items(): fcoll.insert(pkg, {facet(t) …})].
    [order] is the iteration order of [self.db] (a permutation of its keys); it
    only matters for [fx = false], where the first package inserted under a
    facet is the one whose characters are stored. *)
Definition facet_step (fx : bool) (src : dict) (acc : coll) (p : str) : coll :=
  match lookup p src with
  | Some tags => insert fx acc p (facet_tags tags)
  | None => acc
  end.
Definition facet_collection (fx : bool) (c : coll) (order : list str) : coll :=
  fold_left (facet_step fx (c_db c)) order empty_coll.

Fixpoint facet_trigger (src : dict) (acc : coll) (order : list str) : bool :=
  match order with
  | [] => false
  | p :: rest =>
      match lookup p src with
      | Some tags =>
          ins_trigger acc p (facet_tags tags)
          || facet_trigger src (insert false acc p (facet_tags tags)) rest
      | None => facet_trigger src acc rest
      end
  end.

Inductive op :=
| ORead (lines : list str) (tf : option (str -> bool))
| OInsert (pkg : str) (tags : list str)
| OCopy | OReverse | OReverseCopy
| OChoose (l : list str) | OChooseCopy (l : list str)
| OFilterP (f : str -> bool) | OFilterPCopy (f : str -> bool)
| OFilterPT (g : str -> sset -> bool) | OFilterPTCopy (g : str -> sset -> bool)
| OFilterT (f : str -> bool) | OFilterTCopy (f : str -> bool)
| OFacet (order : list str).

(** One step of a linear history: the current collection is replaced by the
    result ([x = x.filter_tags(f)]); an exception leaves it unchanged. *)
Definition step (fx : bool) (c : coll) (o : op) : result coll :=
  match o with
  | ORead lines tf => let r := read_both tf lines in Ok (mkC (fst r) (snd r))
  | OInsert pkg tags => Ok (insert fx c pkg (set_of_list tags))
  | OCopy => Ok c
  | OReverse | OReverseCopy => Ok (mkC (c_rdb c) (c_db c))
  | OChoose l => Ok (of_db (choose_d (c_db c) l))
  | OChooseCopy l =>
      if forallb (fun p => dict_mem p (c_db c)) l
      then Ok (of_db (choose_d (c_db c) l)) else Err KeyError       (* [self.db[pkg]] *)
  | OFilterP f | OFilterPCopy f => Ok (of_db (filter (fun kv => f (fst kv)) (c_db c)))
  | OFilterPT g | OFilterPTCopy g => Ok (of_db (filter (fun kv => g (fst kv) (snd kv)) (c_db c)))
  | OFilterT f | OFilterTCopy f => Ok (of_rdb (filter (fun kv => f (fst kv)) (c_rdb c)))
  | OFacet order => Ok (facet_collection fx c order)
  end.

Definition step' (fx : bool) (c : coll) (o : op) : coll :=
  match step fx c o with Ok c' => c' | Err _ => c end.

Definition run (fx : bool) (c : coll) (ops : list op) : coll := fold_left (step' fx) ops c.

(** Does step [o] execute K1's trigger in state [c]? *)
Definition step_trigger (c : coll) (o : op) : bool :=
  match o with
  | OInsert pkg tags => ins_trigger c pkg (set_of_list tags)
  | OFacet order => facet_trigger (c_db c) empty_coll order
  | _ => false
  end.

(** No step of the history executes the trigger (evaluated along the code as written). *)
Fixpoint k1_free (c : coll) (ops : list op) : bool :=
  match ops with
  | [] => true
  | o :: rest => negb (step_trigger c o) && k1_free (step' false c o) rest
  end.

(** Query methods *)
Definition has_package (c : coll) (p : str) : bool := dict_mem p (c_db c).
Definition has_tag (c : coll) (t : str) : bool := dict_mem t (c_rdb c).
Definition tags_of_package (c : coll) (p : str) : sset := get (c_db c) p.
Definition packages_of_tag (c : coll) (t : str) : sset := get (c_rdb c) t.
Definition card (c : coll) (t : str) : nat := length (get (c_rdb c) t).
Definition package_count (c : coll) : nat := length (c_db c).
Definition tag_count (c : coll) : nat := length (c_rdb c).

(** * HEAP layer *)

Definition rdict := list (str * nat).             (* key -> reference to a set object *)
Record heap := mkH { h_sets : list sset; h_dicts : list rdict }.
Definition obj := (nat * nat)%type.               (* references of self.db and self.rdb *)
Record hstate := mkS { st_heap : heap; st_objs : list obj }.

Fixpoint upd {A} (n : nat) (v : A) (l : list A) : list A :=
  match l, n with
  | [], _ => []
  | _ :: l', O => v :: l'
  | x :: l', S n' => x :: upd n' v l'
  end.

Definition get_set (h : heap) (r : nat) : sset := nth r (h_sets h) [].
Definition get_dict (h : heap) (r : nat) : rdict := nth r (h_dicts h) [].
Definition put_set (h : heap) (r : nat) (s : sset) : heap := mkH (upd r s (h_sets h)) (h_dicts h).
Definition put_dict (h : heap) (r : nat) (d : rdict) : heap := mkH (h_sets h) (upd r d (h_dicts h)).
Definition alloc_set (h : heap) (s : sset) : heap * nat :=
  (mkH (h_sets h ++ [s]) (h_dicts h), length (h_sets h)).
Definition alloc_dict (h : heap) (d : rdict) : heap * nat :=
  (mkH (h_sets h) (h_dicts h ++ [d]), length (h_dicts h)).

(** the value of a dict object: every reference followed *)
Definition deref (h : heap) (d : rdict) : dict := map (fun kr => (fst kr, get_set h (snd kr))) d.

(** allocate a fresh set object per entry ([{k: v.copy() for k, v in …}], and the
    dicts built by [reverse] / the readers, whose sets are all new) *)
Definition alloc_sets (h : heap) (vd : dict) : heap * rdict :=
  fold_left (fun (acc : heap * rdict) kv =>
               let (h', r) := alloc_set (fst acc) (snd kv) in (h', snd acc ++ [(fst kv, r)]))
            vd (h, []).
Definition alloc_vdict (h : heap) (vd : dict) : heap * nat :=
  let (h1, rd) := alloc_sets h vd in alloc_dict h1 rd.

Definition h_ins_rdb (fx : bool) (pkg : str) (rdbref : nat) (h : heap) (tag : str) : heap :=
  match lookup tag (get_dict h rdbref) with
  | Some sr => put_set h sr (set_add pkg (get_set h sr))                   (* .add in place *)
  | None =>
      let (h', r) := alloc_set h (if fx then [pkg] else chars_of pkg) in
      put_dict h' rdbref (dict_set tag r (get_dict h' rdbref))
  end.

Definition h_insert (fx : bool) (h : heap) (o : obj) (pkg : str) (tags : sset) : heap :=
  let (h1, r) := alloc_set h tags in                                         (* tags.copy() *)
  let h2 := put_dict h1 (fst o) (dict_set pkg r (get_dict h1 (fst o))) in
  fold_left (h_ins_rdb fx pkg (snd o)) tags h2.

Definition h_ins_trigger (h : heap) (o : obj) (pkg : str) (tags : sset) : bool :=
  negb (length pkg =? 1)%nat && existsb (fun t => negb (dict_mem t (get_dict h (snd o)))) tags.

(** [res.db = db; res.rdb = reverse(db)] for a dict [db] just built *)
Definition h_of_db (h : heap) (db : rdict) : heap * obj :=
  let (h1, d1) := alloc_dict h db in
  let (h2, d2) := alloc_vdict h1 (reverse_d (deref h1 db)) in
  (h2, (d1, d2)).
Definition h_of_rdb (h : heap) (rdb : rdict) : heap * obj :=
  let (h1, d2) := alloc_dict h rdb in
  let (h2, d1) := alloc_vdict h1 (reverse_d (deref h1 rdb)) in
  (h2, (d1, d2)).
(** the same with [.copy()] of every value *)
Definition h_of_db_copy (h : heap) (db : rdict) : heap * obj :=
  let (h1, d1) := alloc_vdict h (deref h db) in
  let (h2, d2) := alloc_vdict h1 (reverse_d (deref h db)) in
  (h2, (d1, d2)).
Definition h_of_rdb_copy (h : heap) (rdb : rdict) : heap * obj :=
  let (h1, d2) := alloc_vdict h (deref h rdb) in
  let (h2, d1) := alloc_vdict h1 (reverse_d (deref h rdb)) in
  (h2, (d1, d2)).

Inductive hop :=
| HNew
| HRead (o : nat) (lines : list str) (tf : option (str -> bool))
| HInsert (o : nat) (pkg : str) (tags : list str)
| HCopy (o : nat) | HReverse (o : nat) | HReverseCopy (o : nat)
| HChoose (o : nat) (l : list str) | HChooseCopy (o : nat) (l : list str)
| HFilterP (o : nat) (f : str -> bool) | HFilterPCopy (o : nat) (f : str -> bool)
| HFilterPT (o : nat) (g : str -> sset -> bool) | HFilterPTCopy (o : nat) (g : str -> sset -> bool)
| HFilterT (o : nat) (f : str -> bool) | HFilterTCopy (o : nat) (f : str -> bool)
| HFacet (o : nat) (order : list str).

Definition hop_obj (op : hop) : option nat :=
  match op with
  | HNew => None
  | HRead o _ _ | HInsert o _ _ | HCopy o | HReverse o | HReverseCopy o | HChoose o _
  | HChooseCopy o _ | HFilterP o _ | HFilterPCopy o _ | HFilterPT o _ | HFilterPTCopy o _
  | HFilterT o _ | HFilterTCopy o _ | HFacet o _ => Some o
  end.

Definition new_obj (st : hstate) (ho : heap * obj) : hstate :=
  mkS (fst ho) (st_objs st ++ [snd ho]).

Definition h_new (h : heap) : heap * obj :=
  let (h1, d1) := alloc_dict h [] in
  let (h2, d2) := alloc_dict h1 [] in (h2, (d1, d2)).

(** facet_collection on the heap: the new object is private while it is built *)
Fixpoint h_facet (fx : bool) (h : heap) (src : rdict) (fc : obj) (order : list str)
  : result (heap * bool) :=
  match order with
  | [] => Ok (h, false)
  | p :: rest =>
      match lookup p src with
      | Some r =>
          let ft := facet_tags (get_set h r) in
          let trig := h_ins_trigger h fc p ft in
          match h_facet fx (h_insert fx h fc p ft) src fc rest with
          | Ok (h', t') => Ok (h', trig || t')
          | Err e => Err e
          end
      | None => Err OtherError          (* [order] is not the key order of the source *)
      end
  end.

(** One operation.  Result: new state, the exception if one is raised (the
    state is then unchanged), and whether K1's trigger was executed. *)
Definition hstep (fx : bool) (st : hstate) (op : hop) : hstate * option err * bool :=
  let h := st_heap st in
  match op with
  | HNew => (new_obj st (h_new h), None, false)
  | _ =>
    match match hop_obj op with Some o => nth_error (st_objs st) o | None => None end with
    | None => (st, Some OtherError, false)        (* no such object: outside the model *)
    | Some ob =>
      let db := get_dict h (fst ob) in
      let rdb := get_dict h (snd ob) in
      match op with
      | HNew => (st, Some OtherError, false)
      | HRead o lines tf =>
          let r := read_both tf lines in
          let (h1, d1) := alloc_vdict h (fst r) in
          let (h2, d2) := alloc_vdict h1 (snd r) in
          (mkS h2 (upd o (d1, d2) (st_objs st)), None, false)
      | HInsert _ pkg tags =>
          let ts := set_of_list tags in
          (mkS (h_insert fx h ob pkg ts) (st_objs st), None, h_ins_trigger h ob pkg ts)
      | HCopy _ =>
          let (h1, d1) := alloc_vdict h (deref h db) in
          let (h2, d2) := alloc_vdict h1 (deref h rdb) in
          (new_obj st (h2, (d1, d2)), None, false)
      | HReverse _ => (new_obj st (h, (snd ob, fst ob)), None, false)
      | HReverseCopy _ =>
          let (h1, d1) := alloc_vdict h (deref h rdb) in
          let (h2, d2) := alloc_vdict h1 (deref h db) in
          (new_obj st (h2, (d1, d2)), None, false)
      | HChoose _ l => (new_obj st (h_of_db h (choose_d db l)), None, false)
      | HChooseCopy _ l =>
          if forallb (fun p => dict_mem p db) l
          then (new_obj st (h_of_db_copy h (choose_d db l)), None, false)
          else (st, Some KeyError, false)
      | HFilterP _ f => (new_obj st (h_of_db h (filter (fun kr => f (fst kr)) db)), None, false)
      | HFilterPCopy _ f =>
          (new_obj st (h_of_db_copy h (filter (fun kr => f (fst kr)) db)), None, false)
      | HFilterPT _ g =>
          (new_obj st (h_of_db h (filter (fun kr => g (fst kr) (get_set h (snd kr))) db)), None, false)
      | HFilterPTCopy _ g =>
          (new_obj st (h_of_db_copy h (filter (fun kr => g (fst kr) (get_set h (snd kr))) db)),
           None, false)
      | HFilterT _ f => (new_obj st (h_of_rdb h (filter (fun kr => f (fst kr)) rdb)), None, false)
      | HFilterTCopy _ f =>
          (new_obj st (h_of_rdb_copy h (filter (fun kr => f (fst kr)) rdb)), None, false)
      | HFacet _ order =>
          let (h1, fc) := h_new h in
          match h_facet fx h1 db fc order with
          | Ok (h2, trig) => (new_obj st (h2, fc), None, trig)
          | Err e => (st, Some e, false)
          end
      end
    end
  end.

Definition empty_state : hstate := mkS (mkH [] []) [].

(** What an object looks like: both dicts with every reference followed. *)
Definition view (h : heap) (ob : obj) : coll :=
  mkC (deref h (get_dict h (fst ob))) (deref h (get_dict h (snd ob))).
