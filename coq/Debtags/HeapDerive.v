(** HEAP layer, part 3: allocation only grows the heap ([ext]); what the object
    built by each derivation looks like ([view]) and which references it holds. *)
From Verif Require Import Lib.Base Lib.PyStr Debtags.StrSet Debtags.Model
  Debtags.SetProofs Debtags.DictProofs Debtags.HeapBase Debtags.HeapInsert.

(** * Heap extension *)

Record ext (h h' : heap) : Prop := mkExt {
  ex_sets : nsets h <= nsets h';
  ex_dicts : ndicts h <= ndicts h';
  ex_set : forall r, r < nsets h -> get_set h' r = get_set h r;
  ex_dict : forall d, d < ndicts h -> get_dict h' d = get_dict h d }.

Lemma ext_refl h : ext h h.
Proof. constructor; auto. Qed.

Lemma ext_trans a b c : ext a b -> ext b c -> ext a c.
Proof.
  intros [A1 A2 A3 A4] [B1 B2 B3 B4]. constructor; try lia.
  - intros r Hr. rewrite B3 by lia. now apply A3.
  - intros d Hd. rewrite B4 by lia. now apply A4.
Qed.

Lemma ext_obj_refs h h' b : ext h h' -> closed_obj h b -> obj_refs h' b = obj_refs h b.
Proof.
  intros E C. unfold obj_refs, dict_refs.
  now rewrite (ex_dict _ _ E _ (co_db _ _ C)), (ex_dict _ _ E _ (co_rdb _ _ C)).
Qed.

Lemma ext_closed h h' b : ext h h' -> closed_obj h b -> closed_obj h' b.
Proof.
  intros E C. pose proof (ext_obj_refs h h' b E C) as R.
  destruct C as [C1 C2 C3 C4 C5]. destruct E as [E1 E2 E3 E4]. constructor; try lia; try assumption.
  - intros r. rewrite R. intros Hr. specialize (C4 r Hr). lia.
  - now rewrite R.
Qed.

Lemma ext_deref h h' (d : rdict) :
  ext h h' -> (forall r, In r (map snd d) -> r < nsets h) -> deref h' d = deref h d.
Proof. intros E H. apply deref_ext. intros r Hr. apply (ex_set _ _ E). now apply H. Qed.

Lemma ext_view h h' b : ext h h' -> closed_obj h b -> view h' b = view h b.
Proof.
  intros E C. unfold view.
  rewrite (ex_dict _ _ E _ (co_db _ _ C)), (ex_dict _ _ E _ (co_rdb _ _ C)).
  f_equal; apply (ext_deref _ _ _ E); intros r Hr; apply (co_refs _ _ C), in_app_iff;
    [now left|now right].
Qed.

Lemma ext_sep h h' a b : ext h h' -> closed_obj h a -> closed_obj h b -> sep h a b -> sep h' a b.
Proof.
  intros E Ca Cb [S1 S2 S3 S4 S5]. constructor; try assumption.
  rewrite (ext_obj_refs _ _ a E Ca), (ext_obj_refs _ _ b E Cb). exact S5.
Qed.

(** * alloc_dict, alloc_vdict *)

Lemma alloc_dict_ext h rd : ext h (fst (alloc_dict h rd)).
Proof.
  constructor.
  - unfold nsets. simpl. lia.
  - unfold ndicts. simpl. rewrite app_length. lia.
  - reflexivity.
  - intros d Hd. unfold get_dict. simpl. now apply nth_snoc_lt.
Qed.

Lemma alloc_dict_snd h rd : snd (alloc_dict h rd) = ndicts h.
Proof. reflexivity. Qed.
Lemma alloc_dict_get h rd : get_dict (fst (alloc_dict h rd)) (ndicts h) = rd.
Proof. unfold get_dict, ndicts. simpl. apply nth_snoc_eq. Qed.
Lemma alloc_dict_ndicts h rd : ndicts (fst (alloc_dict h rd)) = S (ndicts h).
Proof. unfold ndicts. simpl. rewrite app_length. simpl. lia. Qed.
Lemma alloc_dict_nsets h rd : nsets (fst (alloc_dict h rd)) = nsets h.
Proof. reflexivity. Qed.

Definition fresh_dict (ks : list str) (n0 : nat) : rdict := combine ks (seq n0 (length ks)).

Lemma alloc_sets_fold (vd : dict) : forall h acc,
  fold_left (fun (acc : heap * rdict) kv =>
               let (h', r) := alloc_set (fst acc) (snd kv) in (h', snd acc ++ [(fst kv, r)]))
            vd (h, acc)
  = (mkH (h_sets h ++ map snd vd) (h_dicts h), acc ++ fresh_dict (map fst vd) (nsets h)).
Proof.
  induction vd as [|[k v] vd IH]; intros h acc; simpl.
  - unfold fresh_dict. simpl. rewrite !app_nil_r. now destruct h.
  - rewrite IH. simpl. f_equal.
    + now rewrite <- app_assoc.
    + unfold fresh_dict. simpl. rewrite <- app_assoc. simpl. do 3 f_equal.
      unfold nsets. simpl. rewrite app_length. simpl. now rewrite Nat.add_1_r.
Qed.

Lemma alloc_sets_eq h vd :
  alloc_sets h vd = (mkH (h_sets h ++ map snd vd) (h_dicts h), fresh_dict (map fst vd) (nsets h)).
Proof. unfold alloc_sets. now rewrite alloc_sets_fold. Qed.

Lemma alloc_vdict_eq h vd :
  alloc_vdict h vd =
  (mkH (h_sets h ++ map snd vd) (h_dicts h ++ [fresh_dict (map fst vd) (nsets h)]), ndicts h).
Proof. unfold alloc_vdict. rewrite alloc_sets_eq. reflexivity. Qed.

Lemma fresh_dict_refs ks n0 : map snd (fresh_dict ks n0) = seq n0 (length ks).
Proof.
  unfold fresh_dict. revert n0. induction ks as [|k ks IH]; intros n0; simpl; [reflexivity|].
  now rewrite IH.
Qed.

Lemma deref_fresh (vd : dict) D : forall pre,
  deref (mkH (pre ++ map snd vd) D) (fresh_dict (map fst vd) (length pre)) = vd.
Proof.
  unfold fresh_dict. induction vd as [|[k v] vd IH]; intros pre; simpl; [reflexivity|].
  f_equal.
  - f_equal. unfold get_set. simpl. rewrite app_nth2 by lia. now rewrite Nat.sub_diag.
  - specialize (IH (pre ++ [v])). rewrite <- app_assoc in IH. simpl in IH.
    rewrite app_length in IH. simpl in IH. rewrite Nat.add_1_r in IH. exact IH.
Qed.

Record vdict_facts (h : heap) (vd : dict) (h' : heap) (d : nat) : Prop := mkVF {
  vf_ext : ext h h';
  vf_d : d = ndicts h;
  vf_ndicts : ndicts h' = S (ndicts h);
  vf_nsets : nsets h' = nsets h + length vd;
  vf_refs : dict_refs h' d = seq (nsets h) (length vd);
  vf_view : deref h' (get_dict h' d) = vd }.

Lemma alloc_vdict_facts h vd : vdict_facts h vd (fst (alloc_vdict h vd)) (snd (alloc_vdict h vd)).
Proof.
  rewrite alloc_vdict_eq. simpl.
  assert (G : get_dict (mkH (h_sets h ++ map snd vd)
                 (h_dicts h ++ [fresh_dict (map fst vd) (nsets h)])) (ndicts h)
              = fresh_dict (map fst vd) (nsets h)).
  { unfold get_dict, ndicts. simpl. apply nth_snoc_eq. }
  constructor.
  - constructor.
    + unfold nsets. simpl. rewrite app_length. lia.
    + unfold ndicts. simpl. rewrite app_length. lia.
    + intros r Hr. unfold get_set. simpl. now apply app_nth1.
    + intros d Hd. unfold get_dict. simpl. now apply nth_snoc_lt.
  - reflexivity.
  - unfold ndicts. simpl. rewrite app_length. simpl. lia.
  - unfold nsets. simpl. now rewrite app_length, map_length.
  - unfold dict_refs. rewrite G, fresh_dict_refs. now rewrite map_length.
  - rewrite G. apply deref_fresh.
Qed.

(** * An object made of two newly allocated dicts *)

(** [src]: the set objects it may share with older objects *)
Record derived_from (h h' : heap) (src : list nat) (ob : obj) : Prop := mkDF {
  df_ext : ext h h';
  df_closed : closed_obj h' ob;
  df_d1 : ndicts h <= fst ob;
  df_d2 : ndicts h <= snd ob;
  df_refs : forall r, In r (obj_refs h' ob) -> In r src \/ nsets h <= r }.

Lemma derived_sep h h' src ob b :
  derived_from h h' src ob -> closed_obj h b ->
  (forall r, In r src -> ~ In r (obj_refs h b)) -> sep h' ob b.
Proof.
  intros [E C D1 D2 R] Cb Hs. pose proof (ext_obj_refs _ _ b E Cb) as Rb.
  destruct Cb as [B1 B2 B3 B4 B5]. constructor; try lia.
  intros r Hr. rewrite Rb. intros Hb. destruct (R r Hr) as [H|H].
  - now apply (Hs r).
  - specialize (B4 r Hb). lia.
Qed.

Lemma seq_bounds n0 len r : In r (seq n0 len) -> n0 <= r < n0 + len.
Proof. intros H. apply in_seq in H. lia. Qed.

(** both dicts hold only new set objects *)
Lemma two_vdicts h vd1 vd2 :
  let h1 := fst (alloc_vdict h vd1) in
  let h2 := fst (alloc_vdict h1 vd2) in
  let ob := (snd (alloc_vdict h vd1), snd (alloc_vdict h1 vd2)) in
  derived_from h h2 [] ob /\ view h2 ob = mkC vd1 vd2.
Proof.
  intros h1 h2 ob. subst ob.
  pose proof (alloc_vdict_facts h vd1) as F1. pose proof (alloc_vdict_facts h1 vd2) as F2.
  fold h1 in F1, F2. fold h2 in F2.
  set (d1 := snd (alloc_vdict h vd1)) in *. set (d2 := snd (alloc_vdict h1 vd2)) in *.
  destruct F1 as [E1 A1 B1 N1 R1 V1]. destruct F2 as [E2 A2 B2 N2 R2 V2].
  assert (Hd1 : d1 < ndicts h1) by lia.
  assert (R1' : dict_refs h2 d1 = seq (nsets h) (length vd1)).
  { unfold dict_refs. rewrite (ex_dict _ _ E2 _ Hd1). exact R1. }
  assert (V1' : deref h2 (get_dict h2 d1) = vd1).
  { rewrite (ex_dict _ _ E2 _ Hd1). rewrite <- V1. apply (ext_deref _ _ _ E2).
    intros r Hr. change (In r (dict_refs h1 d1)) in Hr. rewrite R1 in Hr.
    apply seq_bounds in Hr. lia. }
  split.
  - constructor.
    + eapply ext_trans; eassumption.
    + constructor; simpl; try lia.
      * intros r Hr. unfold obj_refs in Hr. simpl in Hr. apply in_app_iff in Hr. rewrite R1', R2 in Hr.
        destruct Hr as [Hr|Hr]; apply seq_bounds in Hr; lia.
      * unfold obj_refs. simpl. rewrite R1', R2. apply NoDup_app_intro; try apply seq_NoDup.
        intros r Ha Hb. apply seq_bounds in Ha. apply seq_bounds in Hb. lia.
    + simpl. lia.
    + simpl. lia.
    + intros r Hr. right. unfold obj_refs in Hr. simpl in Hr. apply in_app_iff in Hr. rewrite R1', R2 in Hr.
      destruct Hr as [Hr|Hr]; apply seq_bounds in Hr; lia.
  - unfold view. simpl. now rewrite V1', V2.
Qed.

Lemma NoDup_map_filter {A B} (f : A -> B) (p : A -> bool) l :
  NoDup (map f l) -> NoDup (map f (filter p l)).
Proof.
  induction l as [|x l IH]; simpl; intros H; [constructor|].
  inversion H as [|? ? H1 H2]; subst. destruct (p x); simpl; [|now apply IH].
  constructor; [|now apply IH]. intros Hin. apply H1.
  apply in_map_iff in Hin. destruct Hin as [y [E Hy]]. apply filter_In in Hy.
  apply in_map_iff. exists y. tauto.
Qed.

(** the first dict is a given dict [rd] over old set objects, the second one is new *)
Lemma dict_and_vdict h (rd : rdict) vd2 src :
  (forall r, In r (map snd rd) -> In r src) -> (forall r, In r src -> r < nsets h) ->
  NoDup (map snd rd) ->
  let h1 := fst (alloc_dict h rd) in
  let h2 := fst (alloc_vdict h1 vd2) in
  let d1 := snd (alloc_dict h rd) in
  let d2 := snd (alloc_vdict h1 vd2) in
  ext h h2 /\ closed_obj h2 (d1, d2) /\ closed_obj h2 (d2, d1)
  /\ d1 = ndicts h /\ d2 = S (ndicts h)
  /\ (forall r, In r (dict_refs h2 d1 ++ dict_refs h2 d2) -> In r src \/ nsets h <= r)
  /\ deref h2 (get_dict h2 d1) = deref h rd /\ deref h2 (get_dict h2 d2) = vd2.
Proof.
  intros Hsub Hsrc Hnd h1 h2 d1 d2.
  pose proof (alloc_dict_ext h rd) as E1. fold h1 in E1.
  pose proof (alloc_vdict_facts h1 vd2) as F2. fold h2 d2 in F2.
  destruct F2 as [E2 A2 B2 N2 R2 V2].
  assert (Hd1 : d1 = ndicts h) by reflexivity.
  assert (Hn1 : ndicts h1 = S (ndicts h)) by apply alloc_dict_ndicts.
  assert (Hs1 : nsets h1 = nsets h) by reflexivity.
  assert (G1 : get_dict h2 d1 = rd).
  { rewrite (ex_dict _ _ E2) by lia. rewrite Hd1. apply alloc_dict_get. }
  assert (R1 : dict_refs h2 d1 = map snd rd) by (unfold dict_refs; now rewrite G1).
  assert (Hdisj : forall r, In r (map snd rd) -> ~ In r (seq (nsets h1) (length vd2))).
  { intros r Ha Hb. apply seq_bounds in Hb. specialize (Hsrc r (Hsub r Ha)). lia. }
  assert (Hcl : forall r, In r (map snd rd ++ seq (nsets h1) (length vd2)) -> r < nsets h2).
  { intros r Hr. apply in_app_iff in Hr. destruct Hr as [Hr|Hr].
    - specialize (Hsrc r (Hsub r Hr)). lia.
    - apply seq_bounds in Hr. lia. }
  assert (E : ext h h2) by (eapply ext_trans; eassumption).
  assert (CO1 : closed_obj h2 (d1, d2)).
  { constructor; simpl.
    - lia.
    - lia.
    - lia.
    - unfold obj_refs. simpl. rewrite R1, R2. exact Hcl.
    - unfold obj_refs. simpl. rewrite R1, R2.
      apply NoDup_app_intro; [assumption|apply seq_NoDup|exact Hdisj]. }
  assert (CO2 : closed_obj h2 (d2, d1)).
  { constructor; simpl.
    - lia.
    - lia.
    - lia.
    - unfold obj_refs. simpl. rewrite R1, R2. intros r Hr. apply Hcl.
      apply in_app_iff. apply in_app_iff in Hr. tauto.
    - unfold obj_refs. simpl. rewrite R1, R2. apply NoDup_app_intro; [apply seq_NoDup|assumption|].
      intros r Ha Hb. exact (Hdisj r Hb Ha). }
  split; [exact E|]. split; [exact CO1|]. split; [exact CO2|].
  split; [exact Hd1|]. split; [lia|]. split; [|split].
  - rewrite R1, R2. intros r Hr. apply in_app_iff in Hr. destruct Hr as [Hr|Hr].
    + left. now apply Hsub.
    + right. apply seq_bounds in Hr. lia.
  - rewrite G1. apply (ext_deref _ _ _ E). intros r Hr. now apply Hsrc, Hsub.
  - exact V2.
Qed.

(** * deref commutes with the dict-level operations of the derivations *)

Lemma deref_filter_key h (f : str -> bool) (d : rdict) :
  deref h (filter (fun kr => f (fst kr)) d) = filter (fun kv => f (fst kv)) (deref h d).
Proof.
  induction d as [|[k r] d IH]; simpl; [reflexivity|].
  destruct (f k); simpl; now rewrite IH.
Qed.

Lemma deref_filter_pt h (g : str -> sset -> bool) (d : rdict) :
  deref h (filter (fun kr => g (fst kr) (get_set h (snd kr))) d)
  = filter (fun kv => g (fst kv) (snd kv)) (deref h d).
Proof.
  induction d as [|[k r] d IH]; simpl; [reflexivity|].
  destruct (g k (get_set h r)); simpl; now rewrite IH.
Qed.

Lemma deref_choose_fold h (d : rdict) l : forall acc,
  deref h (fold_left (fun acc p => match lookup p d with Some v => dict_set p v acc | None => acc end) l acc)
  = fold_left (fun acc p => match lookup p (deref h d) with Some v => dict_set p v acc | None => acc end)
      l (deref h acc).
Proof.
  induction l as [|p l IH]; intros acc; simpl; [reflexivity|].
  rewrite IH. f_equal. rewrite lookup_deref. destruct (lookup p d); simpl; [|reflexivity].
  apply deref_dict_set.
Qed.

Lemma deref_choose h (d : rdict) l : deref h (choose_d d l) = choose_d (deref h d) l.
Proof. unfold choose_d. now rewrite deref_choose_fold. Qed.

Lemma refs_filter_sub {B} (p : str * B -> bool) (d : list (str * B)) r :
  In r (map snd (filter p d)) -> In r (map snd d).
Proof.
  intros H. apply in_map_iff in H. destruct H as [x [E Hx]]. apply filter_In in Hx.
  apply in_map_iff. exists x. tauto.
Qed.

(** choose_d: entries come from [d], keys are distinct *)
Lemma in_dict_set {V} k (v : V) (d : list (str * V)) k' v' :
  In (k', v') (dict_set k v d) -> (k' = k /\ v' = v) \/ In (k', v') d.
Proof.
  induction d as [|[k0 v0] d IH]; simpl.
  - intros [H|[]]. inversion H. now left.
  - destruct (str_eqb k k0); simpl.
    + intros [H|H]; [inversion H; now left|right; now right].
    + intros [H|H]; [right; now left|]. destruct (IH H) as [?|?]; [now left|right; now right].
Qed.

Lemma choose_fold_entries {V} (d : list (str * V)) l : forall acc,
  (forall k v, In (k, v) acc -> lookup k d = Some v) ->
  forall k v, In (k, v) (fold_left (choose_step d) l acc) -> lookup k d = Some v.
Proof.
  induction l as [|p l IH]; intros acc H k v; simpl; [apply H|].
  apply IH. intros k' v'. unfold choose_step. destruct (lookup p d) eqn:E; [|apply H].
  intros Hin. apply in_dict_set in Hin. destruct Hin as [[-> ->]|Hin]; [exact E|now apply H].
Qed.

Lemma refs_inj (d : rdict) k1 k2 r :
  NoDup (map snd d) -> In (k1, r) d -> In (k2, r) d -> k1 = k2.
Proof.
  induction d as [|[k0 r0] d IH]; simpl; intros Hn H1 H2; [destruct H1|].
  inversion Hn as [|? ? N1 N2]; subst.
  destruct H1 as [H1|H1], H2 as [H2|H2].
  - congruence.
  - inversion H1; subst. exfalso. apply N1. apply in_map_iff. now exists (k2, r).
  - inversion H2; subst. exfalso. apply N1. apply in_map_iff. now exists (k1, r).
  - now apply IH.
Qed.

Lemma entries_NoDup_refs (acc d : rdict) :
  NoDup (keys acc) -> (forall k r, In (k, r) acc -> lookup k d = Some r) ->
  NoDup (map snd d) -> NoDup (map snd acc).
Proof.
  unfold keys. induction acc as [|[k r] acc IH]; simpl; intros Hk He Hn; [constructor|].
  inversion Hk as [|? ? K1 K2]; subst. constructor.
  - intros Hin. apply in_map_iff in Hin. destruct Hin as [[k' r'] [E Hin]]. simpl in E. subst r'.
    assert (k = k').
    { apply (refs_inj d k k' r Hn); apply lookup_some_in, He; [now left|now right]. }
    subst k'. apply K1. apply in_map_iff. now exists (k, r).
  - apply IH; try assumption. intros k' r' Hin. apply He. now right.
Qed.

Lemma choose_d_refs (d : rdict) l :
  NoDup (map snd d) ->
  NoDup (map snd (choose_d d l)) /\ (forall r, In r (map snd (choose_d d l)) -> In r (map snd d)).
Proof.
  intros Hn.
  assert (He : forall k r, In (k, r) (choose_d d l) -> lookup k d = Some r).
  { apply (choose_fold_entries d l []). intros k v []. }
  split.
  - apply (entries_NoDup_refs _ d); [apply choose_d_NoDup|exact He|exact Hn].
  - intros r Hr. apply in_map_iff in Hr. destruct Hr as [[k r'] [E Hin]]. simpl in E. subst r'.
    apply He, lookup_some_in in Hin. apply in_map_iff. now exists (k, r).
Qed.

(** * The derivations *)

Lemma h_new_eq h :
  h_new h = (fst (alloc_dict (fst (alloc_dict h [])) []),
             (ndicts h, ndicts (fst (alloc_dict h [])))).
Proof. reflexivity. Qed.

Lemma h_of_db_eq h rd :
  h_of_db h rd =
  (fst (alloc_vdict (fst (alloc_dict h rd)) (reverse_d (deref (fst (alloc_dict h rd)) rd))),
   (snd (alloc_dict h rd),
    snd (alloc_vdict (fst (alloc_dict h rd)) (reverse_d (deref (fst (alloc_dict h rd)) rd))))).
Proof.
  unfold h_of_db. destruct (alloc_dict h rd) as [h1 d1]. simpl.
  now destruct (alloc_vdict h1 (reverse_d (deref h1 rd))).
Qed.

Lemma h_of_rdb_eq h rd :
  h_of_rdb h rd =
  (fst (alloc_vdict (fst (alloc_dict h rd)) (reverse_d (deref (fst (alloc_dict h rd)) rd))),
   (snd (alloc_vdict (fst (alloc_dict h rd)) (reverse_d (deref (fst (alloc_dict h rd)) rd))),
    snd (alloc_dict h rd))).
Proof.
  unfold h_of_rdb. destruct (alloc_dict h rd) as [h1 d1]. simpl.
  now destruct (alloc_vdict h1 (reverse_d (deref h1 rd))).
Qed.

Lemma h_of_db_copy_eq h rd :
  h_of_db_copy h rd =
  (fst (alloc_vdict (fst (alloc_vdict h (deref h rd))) (reverse_d (deref h rd))),
   (snd (alloc_vdict h (deref h rd)),
    snd (alloc_vdict (fst (alloc_vdict h (deref h rd))) (reverse_d (deref h rd))))).
Proof.
  unfold h_of_db_copy. destruct (alloc_vdict h (deref h rd)) as [h1 d1]. simpl.
  now destruct (alloc_vdict h1 (reverse_d (deref h rd))).
Qed.

Lemma h_of_rdb_copy_eq h rd :
  h_of_rdb_copy h rd =
  (fst (alloc_vdict (fst (alloc_vdict h (deref h rd))) (reverse_d (deref h rd))),
   (snd (alloc_vdict (fst (alloc_vdict h (deref h rd))) (reverse_d (deref h rd))),
    snd (alloc_vdict h (deref h rd)))).
Proof.
  unfold h_of_rdb_copy. destruct (alloc_vdict h (deref h rd)) as [h1 d1]. simpl.
  now destruct (alloc_vdict h1 (reverse_d (deref h rd))).
Qed.

Lemma h_new_facts h :
  derived_from h (fst (h_new h)) [] (snd (h_new h)) /\ view (fst (h_new h)) (snd (h_new h)) = empty_coll.
Proof.
  rewrite h_new_eq.
  set (h1 := fst (alloc_dict h [])). set (h2 := fst (alloc_dict h1 [])).
  cbn [fst snd].
  assert (N1 : ndicts h1 = S (ndicts h)) by apply alloc_dict_ndicts.
  assert (N2 : ndicts h2 = S (ndicts h1)) by apply alloc_dict_ndicts.
  assert (E1 : ext h h1) by apply alloc_dict_ext.
  assert (E2 : ext h1 h2) by apply alloc_dict_ext.
  assert (G2 : get_dict h2 (ndicts h1) = []) by apply alloc_dict_get.
  assert (G1 : get_dict h2 (ndicts h) = []).
  { rewrite (ex_dict _ _ E2) by lia. apply alloc_dict_get. }
  assert (R : obj_refs h2 (ndicts h, ndicts h1) = []).
  { unfold obj_refs, dict_refs. simpl. now rewrite G1, G2. }
  split.
  - constructor.
    + eapply ext_trans; eassumption.
    + constructor; [cbn [fst snd]; lia|cbn [fst snd]; lia|cbn [fst snd]; lia| |].
      * rewrite R. intros r [].
      * rewrite R. constructor.
    + cbn [fst snd]. lia.
    + cbn [fst snd]. lia.
    + rewrite R. intros r [].
  - unfold view. simpl. now rewrite G1, G2.
Qed.

Lemma h_of_db_facts h (rd : rdict) src :
  (forall r, In r (map snd rd) -> In r src) -> (forall r, In r src -> r < nsets h) ->
  NoDup (map snd rd) ->
  derived_from h (fst (h_of_db h rd)) src (snd (h_of_db h rd))
  /\ view (fst (h_of_db h rd)) (snd (h_of_db h rd)) = of_db (deref h rd).
Proof.
  intros H1 H2 H3. rewrite h_of_db_eq.
  set (h1 := fst (alloc_dict h rd)).
  set (vd := reverse_d (deref h1 rd)).
  cbn [fst snd].
  destruct (dict_and_vdict h rd vd src H1 H2 H3) as [E [C1 [C2 [D1 [D2 [R [V1 V2]]]]]]].
  fold h1 in E, C1, C2, D2, R, V1, V2.
  assert (Hvd : vd = reverse_d (deref h rd)).
  { reflexivity. }
  split.
  - constructor; [exact E|exact C1|cbn [fst snd]; rewrite D1; lia|cbn [fst snd]; rewrite D2; lia|exact R].
  - unfold view, of_db. cbn [fst snd c_db c_rdb]. now rewrite V1, V2, Hvd.
Qed.

Lemma h_of_rdb_facts h (rd : rdict) src :
  (forall r, In r (map snd rd) -> In r src) -> (forall r, In r src -> r < nsets h) ->
  NoDup (map snd rd) ->
  derived_from h (fst (h_of_rdb h rd)) src (snd (h_of_rdb h rd))
  /\ view (fst (h_of_rdb h rd)) (snd (h_of_rdb h rd)) = of_rdb (deref h rd).
Proof.
  intros H1 H2 H3. rewrite h_of_rdb_eq.
  set (h1 := fst (alloc_dict h rd)).
  set (vd := reverse_d (deref h1 rd)).
  cbn [fst snd].
  destruct (dict_and_vdict h rd vd src H1 H2 H3) as [E [C1 [C2 [D1 [D2 [R [V1 V2]]]]]]].
  fold h1 in E, C1, C2, D2, R, V1, V2.
  assert (Hvd : vd = reverse_d (deref h rd)).
  { reflexivity. }
  split.
  - constructor; [exact E|exact C2|cbn [fst snd]; rewrite D2; lia|cbn [fst snd]; rewrite D1; lia|].
    intros r Hr. apply R. unfold obj_refs in Hr. cbn [fst snd] in Hr.
    apply in_app_iff. apply in_app_iff in Hr. tauto.
  - unfold view, of_rdb. cbn [fst snd c_db c_rdb]. now rewrite V1, V2, Hvd.
Qed.

Lemma h_of_db_copy_facts h (rd : rdict) :
  derived_from h (fst (h_of_db_copy h rd)) [] (snd (h_of_db_copy h rd))
  /\ view (fst (h_of_db_copy h rd)) (snd (h_of_db_copy h rd)) = of_db (deref h rd).
Proof.
  rewrite h_of_db_copy_eq. cbn [fst snd]. apply two_vdicts.
Qed.

Lemma in_obj_refs_swap h a b r : In r (obj_refs h (b, a)) <-> In r (obj_refs h (a, b)).
Proof. unfold obj_refs. cbn [fst snd]. rewrite !in_app_iff. tauto. Qed.

Lemma closed_obj_swap h a b : closed_obj h (a, b) -> closed_obj h (b, a).
Proof.
  intros [C1 C2 C3 C4 C5]. cbn [fst snd] in *. constructor; cbn [fst snd]; try assumption; try congruence.
  - intros r Hr. apply C4. now apply in_obj_refs_swap.
  - unfold obj_refs in *. cbn [fst snd] in *. apply NoDup_app_intro.
    + now apply (NoDup_app_r _ _ C5).
    + now apply (NoDup_app_l _ _ C5).
    + intros r Ha Hb. exact (NoDup_app_disj _ _ r C5 Hb Ha).
Qed.

Lemma derived_swap h h' src a b : derived_from h h' src (a, b) -> derived_from h h' src (b, a).
Proof.
  intros [E C D1 D2 R]. cbn [fst snd] in *. constructor; cbn [fst snd]; try assumption.
  - now apply closed_obj_swap.
  - intros r Hr. apply R. now apply in_obj_refs_swap.
Qed.

Lemma h_of_rdb_copy_facts h (rd : rdict) :
  derived_from h (fst (h_of_rdb_copy h rd)) [] (snd (h_of_rdb_copy h rd))
  /\ view (fst (h_of_rdb_copy h rd)) (snd (h_of_rdb_copy h rd)) = of_rdb (deref h rd).
Proof.
  rewrite h_of_rdb_copy_eq. cbn [fst snd].
  destruct (two_vdicts h (deref h rd) (reverse_d (deref h rd))) as [D V]. cbv zeta in D, V.
  split; [now apply derived_swap|].
  unfold view in *. cbn [fst snd] in *. unfold of_rdb. injection V as E1 E2. now rewrite E1, E2.
Qed.
