(** Lemmas about the association-list dicts of Debtags/Model.v and about the
    functions that build one index from the other ([rev_add], [reverse_d],
    [choose_d], [rdb_join]). *)
From Verif Require Import Lib.Base Lib.PyStr Debtags.StrSet Debtags.Model Debtags.SetProofs.

Section Dict.
Context {V : Type}.
Implicit Types d : list (str * V).

Lemma lookup_dict_set k k' (v : V) d :
  lookup k (dict_set k' v d) = if str_eqb k k' then Some v else lookup k d.
Proof.
  induction d as [|[k0 v0] d IH]; simpl; [reflexivity|].
  destruct (str_eqb k' k0) eqn:E0; simpl.
  - apply str_eqb_eq in E0. subst k0. destruct (str_eqb k k'); reflexivity.
  - rewrite IH. destruct (str_eqb k k0) eqn:E1; [|reflexivity].
    apply str_eqb_eq in E1. subst k0. rewrite str_eqb_sym, E0. reflexivity.
Qed.

Lemma keys_dict_set k k' (v : V) d :
  In k (keys (dict_set k' v d)) <-> k = k' \/ In k (keys d).
Proof.
  unfold keys. induction d as [|[k0 v0] d IH]; simpl; [intuition|].
  destruct (str_eqb k' k0) eqn:E0; simpl.
  - apply str_eqb_eq in E0. subst k0. intuition.
  - rewrite IH. intuition.
Qed.

Lemma NoDup_keys_dict_set k (v : V) d :
  NoDup (keys d) -> NoDup (keys (dict_set k v d)).
Proof.
  unfold keys. induction d as [|[k0 v0] d IH]; simpl; intros H.
  - constructor; [intros []|constructor].
  - inversion H as [|? ? Hn Hd]; subst.
    destruct (str_eqb k k0) eqn:E0; simpl.
    + apply str_eqb_eq in E0. subst k0. now constructor.
    + constructor; [|now apply IH].
      intros Hin. apply (keys_dict_set k0 k v d) in Hin. destruct Hin as [->|Hin].
      * now rewrite str_eqb_refl in E0.
      * contradiction.
Qed.

Lemma lookup_none_iff k d : lookup k d = None <-> ~ In k (keys d).
Proof.
  unfold keys. induction d as [|[k0 v0] d IH]; simpl; [intuition|].
  destruct (str_eqb k k0) eqn:E.
  - apply str_eqb_eq in E. subst. split; [discriminate|intros H; exfalso; apply H; now left].
  - apply str_eqb_neq in E. rewrite IH. intuition.
Qed.

Lemma lookup_some_in k (v : V) d : lookup k d = Some v -> In (k, v) d.
Proof.
  induction d as [|[k0 v0] d IH]; simpl; [discriminate|].
  destruct (str_eqb k k0) eqn:E.
  - apply str_eqb_eq in E. subst. intros [= ->]. now left.
  - intros H. right. now apply IH.
Qed.

Lemma in_keys (k : str) (v : V) d : In (k, v) d -> In k (keys d).
Proof. intros H. unfold keys. apply in_map_iff. now exists (k, v). Qed.

Lemma in_lookup k (v : V) d : NoDup (keys d) -> In (k, v) d -> lookup k d = Some v.
Proof.
  unfold keys. induction d as [|[k0 v0] d IH]; simpl; intros Hn Hin; [destruct Hin|].
  destruct Hin as [H|H].
  - inversion H; subst. now rewrite str_eqb_refl.
  - inversion Hn as [|? ? Hn1 Hn2]; subst.
    destruct (str_eqb k k0) eqn:E.
    + apply str_eqb_eq in E. subst. exfalso. apply Hn1. apply (in_keys _ _ _ H).
    + now apply IH.
Qed.

Lemma dict_mem_iff k d : dict_mem k d = true <-> In k (keys d).
Proof.
  unfold dict_mem. destruct (lookup k d) eqn:E.
  - split; [intros _|reflexivity]. apply lookup_some_in in E. apply (in_keys _ _ _ E).
  - apply lookup_none_iff in E. split; [discriminate|contradiction].
Qed.

Lemma dict_mem_false k d : dict_mem k d = false <-> ~ In k (keys d).
Proof. rewrite <- dict_mem_iff. destruct (dict_mem k d); split; congruence. Qed.

Lemma lookup_filter_key (f : str -> bool) k d :
  lookup k (filter (fun kv => f (fst kv)) d) = if f k then lookup k d else None.
Proof.
  induction d as [|[k0 v0] d IH]; simpl; [now destruct (f k)|].
  destruct (f k0) eqn:F0; simpl.
  - destruct (str_eqb k k0) eqn:E.
    + apply str_eqb_eq in E. subst. now rewrite F0.
    + exact IH.
  - rewrite IH. destruct (str_eqb k k0) eqn:E; [|reflexivity].
    apply str_eqb_eq in E. subst. now rewrite F0.
Qed.

Lemma keys_filter_sub (g : str * V -> bool) k d :
  In k (keys (filter g d)) -> In k (keys d).
Proof.
  unfold keys. intros H. apply in_map_iff in H. destruct H as [[k' v] [E H]].
  apply filter_In in H. apply in_map_iff. exists (k', v). tauto.
Qed.

Lemma NoDup_keys_filter (g : str * V -> bool) d :
  NoDup (keys d) -> NoDup (keys (filter g d)).
Proof.
  induction d as [|[k0 v0] d IH]; simpl; intros H; [constructor|].
  inversion H as [|? ? Hn Hd]; subst.
  destruct (g (k0, v0)); simpl; [|now apply IH].
  constructor; [|now apply IH]. intros Hin. apply Hn. eapply keys_filter_sub, Hin.
Qed.

Lemma lookup_filter_gen (g : str * V -> bool) k d :
  NoDup (keys d) ->
  lookup k (filter g d) =
  match lookup k d with Some v => if g (k, v) then Some v else None | None => None end.
Proof.
  induction d as [|[k0 v0] d IH]; simpl; intros H; [reflexivity|].
  inversion H as [|? ? Hn Hd]; subst.
  destruct (str_eqb k k0) eqn:E.
  - apply str_eqb_eq in E. subst k0.
    destruct (g (k, v0)) eqn:G; simpl.
    + now rewrite str_eqb_refl.
    + apply lookup_none_iff. intros Hin. apply Hn. eapply keys_filter_sub, Hin.
  - destruct (g (k0, v0)); simpl; [rewrite E|]; now apply IH.
Qed.

(** choose_d *)
Definition choose_step d (acc : list (str * V)) (p : str) :=
  match lookup p d with Some v => dict_set p v acc | None => acc end.

Lemma choose_fold_lookup d l : forall acc k,
  lookup k (fold_left (choose_step d) l acc) =
  match (if existsb (str_eqb k) l then lookup k d else None) with
  | Some v => Some v
  | None => lookup k acc
  end.
Proof.
  induction l as [|p l IH]; intros acc k; simpl; [reflexivity|].
  rewrite IH. unfold choose_step.
  destruct (str_eqb k p) eqn:E; simpl.
  - apply str_eqb_eq in E. subst p.
    destruct (existsb (str_eqb k) l); destruct (lookup k d) eqn:L; try reflexivity.
    now rewrite lookup_dict_set, str_eqb_refl.
  - destruct (existsb (str_eqb k) l); [destruct (lookup k d); [reflexivity|]|];
      (destruct (lookup p d); [rewrite lookup_dict_set, E|]; reflexivity).
Qed.

Lemma choose_fold_NoDup d l : forall acc,
  NoDup (keys acc) -> NoDup (keys (fold_left (choose_step d) l acc)).
Proof.
  induction l as [|p l IH]; intros acc H; simpl; [assumption|].
  apply IH. unfold choose_step. destruct (lookup p d); [now apply NoDup_keys_dict_set|assumption].
Qed.

Lemma choose_d_lookup d l k :
  lookup k (choose_d d l) = if existsb (str_eqb k) l then lookup k d else None.
Proof.
  unfold choose_d. change (fun acc p => match lookup p d with Some v => dict_set p v acc | None => acc end)
    with (choose_step d).
  rewrite choose_fold_lookup. simpl.
  destruct (existsb (str_eqb k) l); [destruct (lookup k d)|]; reflexivity.
Qed.

Lemma choose_d_NoDup d l : NoDup (keys (choose_d d l)).
Proof. apply choose_fold_NoDup. constructor. Qed.

End Dict.

(** * Dicts of sets *)

Definition vals_sorted (d : dict) : Prop := forall k v, lookup k d = Some v -> sorted v.
Definition dict_ok (d : dict) : Prop := NoDup (keys d) /\ vals_sorted d.

Lemma get_dict_set k v d k' :
  get (dict_set k v d) k' = if str_eqb k' k then v else get d k'.
Proof. unfold get. rewrite lookup_dict_set. now destruct (str_eqb k' k). Qed.

Lemma get_sorted d k : vals_sorted d -> sorted (get d k).
Proof. intros H. unfold get. destruct (lookup k d) eqn:E; [now apply (H k)|exact I]. Qed.

Lemma get_notin d k : ~ In k (keys d) -> get d k = [].
Proof. intros H. apply lookup_none_iff in H. unfold get. now rewrite H. Qed.

Lemma vals_sorted_dict_set k v d : sorted v -> vals_sorted d -> vals_sorted (dict_set k v d).
Proof.
  intros Hv Hd k' v'. rewrite lookup_dict_set. destruct (str_eqb k' k).
  - now intros [= <-].
  - apply Hd.
Qed.

Lemma dict_ok_nil : dict_ok [].
Proof. split; [constructor|intros k v; discriminate]. Qed.

Lemma dict_ok_dict_set k v d : sorted v -> dict_ok d -> dict_ok (dict_set k v d).
Proof. intros Hv [H1 H2]. split; [now apply NoDup_keys_dict_set|now apply vals_sorted_dict_set]. Qed.

Lemma vals_sorted_filter (g : str * sset -> bool) d :
  NoDup (keys d) -> vals_sorted d -> vals_sorted (filter g d).
Proof.
  intros Hn Hd k v. rewrite lookup_filter_gen by assumption.
  destruct (lookup k d) eqn:E; [|discriminate]. destruct (g (k, s)); [|discriminate].
  intros [= <-]. now apply (Hd k).
Qed.

Lemma dict_ok_filter (g : str * sset -> bool) d : dict_ok d -> dict_ok (filter g d).
Proof. intros [H1 H2]. split; [now apply NoDup_keys_filter|now apply vals_sorted_filter]. Qed.

(** * rev_add / reverse_d *)

Section RevAdd.
Variable pkg : str.

Lemma rev_add_keys res t t' :
  In t' (keys (rev_add pkg res t)) <-> t' = t \/ In t' (keys res).
Proof. unfold rev_add. apply keys_dict_set. Qed.

Lemma rev_add_get res t t' p :
  In p (get (rev_add pkg res t) t') <-> In p (get res t') \/ (p = pkg /\ t' = t).
Proof.
  unfold rev_add. rewrite get_dict_set. destruct (str_eqb t' t) eqn:E.
  - apply str_eqb_eq in E. subst t'. rewrite set_add_in. intuition.
  - apply str_eqb_neq in E. intuition.
Qed.

Lemma rev_add_ok res t : dict_ok res -> dict_ok (rev_add pkg res t).
Proof.
  intros H. unfold rev_add. apply dict_ok_dict_set; [|assumption].
  apply set_add_sorted, get_sorted, H.
Qed.

Lemma rev_add_fold_keys tags : forall res t',
  In t' (keys (fold_left (rev_add pkg) tags res)) <-> In t' (keys res) \/ In t' tags.
Proof.
  induction tags as [|t tags IH]; intros res t'; simpl; [intuition|].
  rewrite IH, rev_add_keys. intuition.
Qed.

Lemma rev_add_fold_get tags : forall res t' p,
  In p (get (fold_left (rev_add pkg) tags res) t') <->
  In p (get res t') \/ (p = pkg /\ In t' tags).
Proof.
  induction tags as [|t tags IH]; intros res t' p; simpl; [intuition|].
  rewrite IH, rev_add_get. intuition.
Qed.

Lemma rev_add_fold_ok tags : forall res, dict_ok res -> dict_ok (fold_left (rev_add pkg) tags res).
Proof.
  induction tags as [|t tags IH]; intros res H; simpl; [assumption|]. now apply IH, rev_add_ok.
Qed.
End RevAdd.

Definition rev_entry (res : dict) (kv : str * sset) : dict :=
  fold_left (rev_add (fst kv)) (snd kv) res.

Lemma reverse_fold_keys d : forall res t,
  In t (keys (fold_left rev_entry d res)) <->
  In t (keys res) \/ exists p v, In (p, v) d /\ In t v.
Proof.
  induction d as [|[p0 v0] d IH]; intros res t; simpl.
  - split; [now left|]. intros [H|[p [v [[] _]]]]. assumption.
  - rewrite IH. unfold rev_entry. simpl. rewrite rev_add_fold_keys. split.
    + intros [[H|H]|[p [v [H1 H2]]]].
      * now left.
      * right. exists p0, v0. split; [now left|assumption].
      * right. exists p, v. split; [now right|assumption].
    + intros [H|[p [v [[H1|H1] H2]]]].
      * left. now left.
      * inversion H1; subst. left. now right.
      * right. now exists p, v.
Qed.

Lemma reverse_fold_get d : forall res t p,
  In p (get (fold_left rev_entry d res) t) <->
  In p (get res t) \/ exists v, In (p, v) d /\ In t v.
Proof.
  induction d as [|[p0 v0] d IH]; intros res t p; simpl.
  - split; [now left|]. intros [H|[v [[] _]]]. assumption.
  - rewrite IH. unfold rev_entry. simpl. rewrite rev_add_fold_get. split.
    + intros [[H|[-> H]]|[v [H1 H2]]].
      * now left.
      * right. exists v0. split; [now left|assumption].
      * right. exists v. split; [now right|assumption].
    + intros [H|[v [[H1|H1] H2]]].
      * left. now left.
      * inversion H1; subst. left. right. now split.
      * right. now exists v.
Qed.

Lemma reverse_fold_ok d : forall res, dict_ok res -> dict_ok (fold_left rev_entry d res).
Proof.
  induction d as [|kv d IH]; intros res H; simpl; [assumption|].
  apply IH. unfold rev_entry. now apply rev_add_fold_ok.
Qed.

Lemma reverse_d_unfold d : reverse_d d = fold_left rev_entry d [].
Proof. reflexivity. Qed.

Lemma reverse_d_ok d : dict_ok (reverse_d d).
Proof. rewrite reverse_d_unfold. apply reverse_fold_ok, dict_ok_nil. Qed.

(** For a dict with distinct keys, [reverse_d] is the inverse index. *)
Lemma reverse_d_get d t p :
  NoDup (keys d) -> (In p (get (reverse_d d) t) <-> In t (get d p)).
Proof.
  intros Hn. rewrite reverse_d_unfold, reverse_fold_get. simpl. split.
  - intros [[]|[v [H1 H2]]]. unfold get. now rewrite (in_lookup _ _ _ Hn H1).
  - intros H. right. unfold get in H. destruct (lookup p d) eqn:E; [|destruct H].
    exists s. split; [now apply lookup_some_in|assumption].
Qed.

Lemma reverse_d_keys d t :
  NoDup (keys d) -> (In t (keys (reverse_d d)) <-> exists p, In t (get d p)).
Proof.
  intros Hn. rewrite reverse_d_unfold, reverse_fold_keys. simpl. split.
  - intros [[]|[p [v [H1 H2]]]]. exists p. unfold get. now rewrite (in_lookup _ _ _ Hn H1).
  - intros [p H]. right. unfold get in H. destruct (lookup p d) eqn:E; [|destruct H].
    exists p, s. split; [now apply lookup_some_in|assumption].
Qed.

(** * The readers *)

Lemma set_fold_keys (tags : sset) ps : forall d k,
  In k (keys (fold_left (fun d p => dict_set p tags d) ps d)) <-> In k (keys d) \/ In k ps.
Proof.
  induction ps as [|p ps IH]; intros d k; simpl; [intuition|].
  rewrite IH, keys_dict_set. intuition.
Qed.

Lemma set_fold_get (tags : sset) ps : forall d k,
  get (fold_left (fun d p => dict_set p tags d) ps d) k =
  if existsb (str_eqb k) ps then tags else get d k.
Proof.
  induction ps as [|p ps IH]; intros d k; simpl; [reflexivity|].
  rewrite IH, get_dict_set. destruct (str_eqb k p); simpl; [|reflexivity].
  now destruct (existsb (str_eqb k) ps).
Qed.

Lemma set_fold_ok (tags : sset) ps : sorted tags -> forall d,
  dict_ok d -> dict_ok (fold_left (fun d p => dict_set p tags d) ps d).
Proof.
  intros Ht. induction ps as [|p ps IH]; intros d H; simpl; [assumption|].
  now apply IH, dict_ok_dict_set.
Qed.

Lemma rdb_join_keys ps dbr t t' :
  In t' (keys (rdb_join ps dbr t)) <-> t' = t \/ In t' (keys dbr).
Proof. unfold rdb_join. destruct (lookup t dbr); apply keys_dict_set. Qed.

Lemma rdb_join_get ps dbr t t' p :
  In p (get (rdb_join ps dbr t) t') <-> In p (get dbr t') \/ (In p ps /\ t' = t).
Proof.
  unfold rdb_join. destruct (lookup t dbr) eqn:L; rewrite get_dict_set;
    destruct (str_eqb t' t) eqn:E.
  - apply str_eqb_eq in E. subst t'. rewrite set_union_in. unfold get. rewrite L. intuition.
  - apply str_eqb_neq in E. intuition.
  - apply str_eqb_eq in E. subst t'. unfold get. rewrite L. simpl. intuition.
  - apply str_eqb_neq in E. intuition.
Qed.

Lemma rdb_join_ok ps dbr t : sorted ps -> dict_ok dbr -> dict_ok (rdb_join ps dbr t).
Proof.
  intros Hp H. unfold rdb_join. destruct (lookup t dbr) eqn:L.
  - apply dict_ok_dict_set; [|assumption]. apply set_union_sorted. now apply (proj2 H t).
  - now apply dict_ok_dict_set.
Qed.

Lemma rdb_join_fold_keys ps tags : forall dbr t',
  In t' (keys (fold_left (rdb_join ps) tags dbr)) <-> In t' (keys dbr) \/ In t' tags.
Proof.
  induction tags as [|t tags IH]; intros dbr t'; simpl; [intuition|].
  rewrite IH, rdb_join_keys. intuition.
Qed.

Lemma rdb_join_fold_get ps tags : forall dbr t' p,
  In p (get (fold_left (rdb_join ps) tags dbr) t') <->
  In p (get dbr t') \/ (In p ps /\ In t' tags).
Proof.
  induction tags as [|t tags IH]; intros dbr t' p; simpl; [intuition|].
  rewrite IH, rdb_join_get. intuition.
Qed.

Lemma rdb_join_fold_ok ps tags : sorted ps -> forall dbr,
  dict_ok dbr -> dict_ok (fold_left (rdb_join ps) tags dbr).
Proof.
  intros Hp. induction tags as [|t tags IH]; intros dbr H; simpl; [assumption|].
  now apply IH, rdb_join_ok.
Qed.

Lemma existsb_str_eqb_in k (l : list str) : existsb (str_eqb k) l = true <-> In k l.
Proof. exact (set_mem_in k l). Qed.
