(** HEAP layer, part 5: the heap model (with the one-token repair) refines the
    multi-object Spec of Debtags/Spec.v.  [sim st ss]: every object the Spec still
    specifies looks, on the heap, like its reference relation; objects of
    different sharing groups have disjoint footprints.  Every operation preserves
    it ([hstep_sim]). *)
From Verif Require Import Lib.Base Lib.PyStr Debtags.StrSet Debtags.Model Debtags.Spec
  Debtags.SetProofs Debtags.DictProofs Debtags.Proofs
  Debtags.HeapBase Debtags.HeapInsert Debtags.HeapDerive Debtags.HeapWf.

(** the Spec operation of a heap operation, given the exception it raised (if any) *)
Definition sop_of_hop (op : hop) (e : option err) : sop :=
  match e with
  | Some _ => SNop
  | None =>
    match op with
    | HNew => SNew
    | HRead o lines tf => SRead o tf (parse_tags lines)
    | HInsert o pkg tags => SInsert o pkg tags
    | HCopy o => SDerive o false (fun S => S)
    | HReverse o => SDerive o true s_reverse
    | HReverseCopy o => SDerive o false s_reverse
    | HChoose o l => SDerive o true (s_choose l)
    | HChooseCopy o l => SDerive o false (s_choose l)
    | HFilterP o f => SDerive o true (s_filter_packages f)
    | HFilterPCopy o f => SDerive o false (s_filter_packages f)
    | HFilterPT o g => SDerive o true (s_filter_packages_tags g)
    | HFilterPTCopy o g => SDerive o false (s_filter_packages_tags g)
    | HFilterT o f => SDerive o true (s_filter_tags f)
    | HFilterTCopy o f => SDerive o false (s_filter_tags f)
    | HFacet o _ => SDerive o false (s_facet facet)
    end
  end.

(** the [order] argument of [HFacet] lists exactly the packages of the receiver *)
Definition hop_dom (st : hstate) (op : hop) : bool :=
  match op with
  | HFacet o order =>
      match nth_error (st_objs st) o with
      | Some ob =>
          let db := get_dict (st_heap st) (fst ob) in
          nodupb order && forallb (fun p => dict_mem p db) order
          && forallb (fun p => mem p order) (keys db)
      | None => true
      end
  | _ => true
  end.

Record sim (st : hstate) (ss : sstate) : Prop := mkSim {
  sm_hwf : hwf st;
  sm_len : length (st_objs st) = length (ss_objs ss);
  sm_sep : forall i j a b sa sb,
      nth_error (st_objs st) i = Some a -> nth_error (st_objs st) j = Some b ->
      nth_error (ss_objs ss) i = Some sa -> nth_error (ss_objs ss) j = Some sb ->
      so_grp sa <> so_grp sb -> sep (st_heap st) a b;
  sm_repr : forall i a sa,
      nth_error (st_objs st) i = Some a -> nth_error (ss_objs ss) i = Some sa ->
      so_valid sa = true -> repr (view (st_heap st) a) (so_rel sa);
  sm_grp : forall i sa, nth_error (ss_objs ss) i = Some sa -> so_grp sa < ss_next ss }.

Lemma sim_empty : sim empty_state s_init.
Proof.
  constructor; simpl.
  - apply hwf_empty.
  - reflexivity.
  - intros [|i] j a b sa sb Ha; discriminate.
  - intros [|i] a sa Ha; discriminate.
  - intros [|i] sa Ha; discriminate.
Qed.

(** * Spec-side list lemmas *)

Lemma upd_nth_upd {A} n (v : A) l : upd_nth n v l = upd n v l.
Proof. reflexivity. Qed.

Lemma nth_error_mapi_from {A B} (f : nat -> A -> B) l : forall k i,
  nth_error (mapi_from f k l) i = option_map (f (k + i)) (nth_error l i).
Proof.
  induction l as [|x l IH]; intros k [|i]; simpl; try reflexivity.
  - now rewrite Nat.add_0_r.
  - rewrite IH. now rewrite Nat.add_succ_r.
Qed.

Lemma mapi_from_length {A B} (f : nat -> A -> B) l : forall k, length (mapi_from f k l) = length l.
Proof. induction l as [|x l IH]; intros k; simpl; [reflexivity|]. now rewrite IH. Qed.

(** * A new object made of new dicts *)

Lemma sim_push_gen st ss h' ob' src sn :
  sim st ss -> derived_from (st_heap st) h' src ob' -> so_grp sn <= ss_next ss ->
  (forall j b sb, nth_error (st_objs st) j = Some b -> nth_error (ss_objs ss) j = Some sb ->
     so_grp sn <> so_grp sb -> forall r, In r src -> ~ In r (obj_refs (st_heap st) b)) ->
  (so_valid sn = true -> repr (view h' ob') (so_rel sn)) ->
  sim (new_obj st (h', ob')) (mkSS (ss_objs ss ++ [sn]) (S (ss_next ss))).
Proof.
  intros [W L Sp Rp G] D Hg Hsrc Hrepr. pose proof (df_ext _ _ _ _ D) as E.
  constructor; simpl.
  - eapply hwf_push_derived; eassumption.
  - rewrite !app_length. simpl. lia.
  - intros i j a b sa sb Ha Hb Hsa Hsb Hne.
    apply nth_error_snoc in Ha. apply nth_error_snoc in Hb.
    apply nth_error_snoc in Hsa. apply nth_error_snoc in Hsb.
    destruct Ha as [[La Ha]|[La ->]], Hsa as [[Lsa Hsa]|[Lsa ->]]; try lia;
      destruct Hb as [[Lb Hb]|[Lb ->]], Hsb as [[Lsb Hsb]|[Lsb ->]]; try lia.
    + apply (ext_sep _ _ _ _ E); [now apply (hw_closed _ W i)|now apply (hw_closed _ W j)|].
      now apply (Sp i j a b sa sb).
    + apply sep_sym. apply (derived_sep _ _ _ _ _ D); [now apply (hw_closed _ W i)|].
      apply (Hsrc i a sa); try assumption. congruence.
    + apply (derived_sep _ _ _ _ _ D); [now apply (hw_closed _ W j)|].
      now apply (Hsrc j b sb).
  - intros i a sa Ha Hsa Hv.
    apply nth_error_snoc in Ha. apply nth_error_snoc in Hsa.
    destruct Ha as [[La Ha]|[La ->]], Hsa as [[Lsa Hsa]|[Lsa ->]]; try lia.
    + rewrite (ext_view _ _ _ E (hw_closed _ W i a Ha)). now apply (Rp i).
    + now apply Hrepr.
  - intros i sa Hsa. apply nth_error_snoc in Hsa. destruct Hsa as [[_ Hsa]|[_ ->]].
    + specialize (G i sa Hsa). lia.
    + lia.
Qed.

Lemma sim_derive st ss o ob so shares f h' ob' src :
  sim st ss -> nth_error (st_objs st) o = Some ob -> nth_error (ss_objs ss) o = Some so ->
  derived_from (st_heap st) h' src ob' ->
  (forall r, In r src -> shares = true /\ In r (obj_refs (st_heap st) ob)) ->
  (so_valid so = true -> repr (view h' ob') (f (so_rel so))) ->
  sim (new_obj st (h', ob')) (spec_step ss (SDerive o shares f)).
Proof.
  intros S Ho Hso D Hsrc Hrepr. simpl. rewrite Hso.
  apply (sim_push_gen st ss h' ob' src); try assumption.
  - simpl. destruct shares; [|lia]. pose proof (sm_grp _ _ S o so Hso). lia.
  - simpl. intros j b sb Hb Hsb Hne r Hr. destruct (Hsrc r Hr) as [-> Hin].
    apply (sp_refs _ _ _ (sm_sep _ _ S o j ob b so sb Ho Hb Hso Hsb Hne)). exact Hin.
Qed.

(** * reverse: the same two dicts, swapped *)

Lemma sep_swap_l h a b : sep h a b -> sep h (snd a, fst a) b.
Proof.
  intros [S1 S2 S3 S4 S5]. constructor; cbn [fst snd]; try assumption.
  intros r Hr. apply S5. rewrite (obj_eta a). now apply in_obj_refs_swap.
Qed.

Lemma view_swap h (a : obj) : view h (snd a, fst a) = mkC (c_rdb (view h a)) (c_db (view h a)).
Proof. reflexivity. Qed.

Lemma sim_reverse fx st ss o ob so :
  sim st ss -> nth_error (st_objs st) o = Some ob -> nth_error (ss_objs ss) o = Some so ->
  sim (hstate_of (hstep fx st (HReverse o))) (spec_step ss (SDerive o true s_reverse)).
Proof.
  intros S Ho Hso. pose proof (hstep_hwf fx st (HReverse o) (sm_hwf _ _ S)) as W'.
  destruct S as [W L Sp Rp G].
  unfold hstate_of in *. simpl in *. rewrite Ho in *. rewrite Hso. simpl in *.
  constructor; simpl.
  - exact W'.
  - rewrite !app_length. simpl. lia.
  - intros i j a b sa sb Ha Hb Hsa Hsb Hne.
    apply nth_error_snoc in Ha. apply nth_error_snoc in Hb.
    apply nth_error_snoc in Hsa. apply nth_error_snoc in Hsb.
    destruct Ha as [[La Ha]|[La ->]], Hsa as [[Lsa Hsa]|[Lsa ->]]; try lia;
      destruct Hb as [[Lb Hb]|[Lb ->]], Hsb as [[Lsb Hsb]|[Lsb ->]]; try lia.
    + now apply (Sp i j a b sa sb).
    + apply sep_sym, sep_swap_l. apply (Sp o i ob a so sa); try assumption. simpl in Hne. congruence.
    + apply sep_swap_l. now apply (Sp o j ob b so sb).
  - intros i a sa Ha Hsa Hv.
    apply nth_error_snoc in Ha. apply nth_error_snoc in Hsa.
    destruct Ha as [[La Ha]|[La ->]], Hsa as [[Lsa Hsa]|[Lsa ->]]; try lia.
    + now apply (Rp i).
    + simpl in *. rewrite view_swap. apply repr_reverse. now apply (Rp o).
  - intros i sa Hsa. apply nth_error_snoc in Hsa. destruct Hsa as [[_ Hsa]|[_ ->]].
    + specialize (G i sa Hsa). lia.
    + simpl. specialize (G o so Hso). lia.
Qed.

(** * read: the receiver is replaced by an object made of new dicts *)

Lemma sim_replace st ss o h' ob' sn :
  sim st ss -> derived_from (st_heap st) h' [] ob' -> so_grp sn <= ss_next ss ->
  (so_valid sn = true -> repr (view h' ob') (so_rel sn)) ->
  sim (mkS h' (upd o ob' (st_objs st))) (mkSS (upd_nth o sn (ss_objs ss)) (S (ss_next ss))).
Proof.
  intros [W L Sp Rp G] D Hg Hrepr. pose proof (df_ext _ _ _ _ D) as E.
  change (upd_nth o sn (ss_objs ss)) with (upd o sn (ss_objs ss)).
  constructor; simpl.
  - destruct D. now apply hwf_replace.
  - now rewrite !upd_length.
  - intros i j a b sa sb Ha Hb Hsa Hsb Hne.
    apply nth_error_upd_cases in Ha. apply nth_error_upd_cases in Hb.
    apply nth_error_upd_cases in Hsa. apply nth_error_upd_cases in Hsb.
    destruct Ha as [[Ia ->]|[Ia Ha]], Hsa as [[Isa ->]|[Isa Hsa]]; try congruence;
      destruct Hb as [[Ib ->]|[Ib Hb]], Hsb as [[Isb ->]|[Isb Hsb]]; try congruence.
    + apply (derived_sep _ _ _ _ _ D); [now apply (hw_closed _ W j)|intros r []].
    + apply sep_sym. apply (derived_sep _ _ _ _ _ D); [now apply (hw_closed _ W i)|intros r []].
    + apply (ext_sep _ _ _ _ E); [now apply (hw_closed _ W i)|now apply (hw_closed _ W j)|].
      now apply (Sp i j a b sa sb).
  - intros i a sa Ha Hsa Hv.
    apply nth_error_upd_cases in Ha. apply nth_error_upd_cases in Hsa.
    destruct Ha as [[Ia ->]|[Ia Ha]], Hsa as [[Isa ->]|[Isa Hsa]]; try congruence.
    + now apply Hrepr.
    + rewrite (ext_view _ _ _ E (hw_closed _ W i a Ha)). now apply (Rp i).
  - intros i sa Hsa. apply nth_error_upd_cases in Hsa. destruct Hsa as [[_ ->]|[_ Hsa]].
    + lia.
    + specialize (G i sa Hsa). lia.
Qed.

(** * insert *)

Definition ins_sobj (o : nat) (sob : sobj) (p : str) (tags : list str) (i : nat) (x : sobj) : sobj :=
  if (i =? o)%nat
  then mkSO (so_valid x && negb (q_has_package (so_rel x) p)) (so_grp x) (s_insert (so_rel x) p tags)
  else if (so_grp x =? so_grp sob)%nat then mkSO false (so_grp x) (so_rel x)
  else x.

Lemma ins_sobj_grp o sob p tags i x : so_grp (ins_sobj o sob p tags i x) = so_grp x.
Proof. unfold ins_sobj. destruct (i =? o)%nat; [reflexivity|]. now destruct (so_grp x =? so_grp sob)%nat. Qed.

Lemma sim_insert st ss o ob sob pkg tags :
  sim st ss -> nth_error (st_objs st) o = Some ob -> nth_error (ss_objs ss) o = Some sob ->
  sim (mkS (h_insert true (st_heap st) ob pkg (set_of_list tags)) (st_objs st))
      (spec_step ss (SInsert o pkg tags)).
Proof.
  intros [W L Sp Rp G] Ho Hso. simpl. rewrite Hso.
  change (mapi_from _ 0 (ss_objs ss)) with (mapi_from (ins_sobj o sob pkg tags) 0 (ss_objs ss)).
  set (h := st_heap st) in *. set (ts := set_of_list tags).
  pose proof (hw_closed _ W o ob Ho) as C.
  assert (Hnth : forall i sa', nth_error (mapi_from (ins_sobj o sob pkg tags) 0 (ss_objs ss)) i = Some sa' ->
            exists sa, nth_error (ss_objs ss) i = Some sa /\ sa' = ins_sobj o sob pkg tags i sa).
  { intros i sa'. rewrite nth_error_mapi_from. simpl.
    destruct (nth_error (ss_objs ss) i) as [sa|]; simpl; [|discriminate].
    intros [= <-]. now exists sa. }
  constructor; simpl.
  - now apply (hwf_insert true st ob o).
  - now rewrite mapi_from_length.
  - intros i j a b sa' sb' Ha Hb Hsa Hsb Hne.
    destruct (Hnth i sa' Hsa) as [sa [Hsa0 ->]]. destruct (Hnth j sb' Hsb) as [sb [Hsb0 ->]].
    rewrite !ins_sobj_grp in Hne.
    pose proof (hw_closed _ W i a Ha) as Ca. pose proof (hw_closed _ W j b Hb) as Cb.
    destruct (Nat.eq_dec (so_grp sb) (so_grp sob)) as [Eb|Nb].
    + apply sep_sym. apply (h_insert_sep true h ob pkg ts b a C Cb Ca).
      * now apply (hw_dicts _ W o j).
      * apply (Sp o i ob a sob sa); try assumption. congruence.
      * apply (Sp j i b a sb sa); try assumption. congruence.
    + apply (h_insert_sep true h ob pkg ts a b C Ca Cb).
      * now apply (hw_dicts _ W o i).
      * apply (Sp o j ob b sob sb); try assumption. congruence.
      * now apply (Sp i j a b sa sb).
  - intros i a sa' Ha Hsa Hv. destruct (Hnth i sa' Hsa) as [sa [Hsa0 ->]].
    unfold ins_sobj in *. destruct (i =? o)%nat eqn:Ei.
    + apply Nat.eqb_eq in Ei. subst i. rewrite Ho in Ha. inversion Ha; subst a.
      rewrite Hso in Hsa0. inversion Hsa0; subst sa. simpl in *.
      apply andb_true_iff in Hv. destruct Hv as [Hv1 Hv2].
      rewrite (h_insert_view true h ob pkg ts C).
      apply repr_insert.
      * now apply (Rp o).
      * apply set_of_list_sorted.
      * apply set_of_list_in.
      * apply negb_true_iff in Hv2. now apply mem_false in Hv2.
    + destruct (so_grp sa =? so_grp sob)%nat eqn:Eg; [simpl in Hv; discriminate|].
      apply Nat.eqb_neq in Eg.
      rewrite (h_insert_frame true h ob pkg ts a C (hw_closed _ W i a Ha)).
      * now apply (Rp i).
      * apply (Sp o i ob a sob sa); try assumption. congruence.
  - intros i sa' Hsa. destruct (Hnth i sa' Hsa) as [sa [Hsa0 ->]]. rewrite ins_sobj_grp.
    now apply (G i).
Qed.

(** * facet_collection *)

Lemma hop_dom_facet st o order ob :
  hop_dom st (HFacet o order) = true -> nth_error (st_objs st) o = Some ob ->
  let db := get_dict (st_heap st) (fst ob) in
  NoDup order /\ (forall p, In p order <-> In p (keys db)).
Proof.
  intros H Ho. simpl in H. rewrite Ho in H. cbv zeta in H.
  apply andb_true_iff in H. destruct H as [H H3]. apply andb_true_iff in H. destruct H as [H1 H2].
  split; [now apply nodupb_NoDup|]. rewrite forallb_forall in H2, H3.
  intros p. split; intros Hp.
  - apply dict_mem_iff. now apply H2.
  - apply mem_in. now apply H3.
Qed.

Lemma facet_derived fx h ob order h1 fc h2 tr :
  closed_obj h ob -> h_new h = (h1, fc) ->
  h_facet fx h1 (get_dict h (fst ob)) fc order = Ok (h2, tr) ->
  derived_from h h2 [] fc
  /\ view h2 fc = facet_collection fx (view h ob) order.
Proof.
  intros C En Ef. pose proof (h_new_facts h) as T. rewrite En in T. cbn [fst snd] in T.
  destruct T as [[E Cf D1 D2 R] V].
  pose proof (h_facet_facts fx order h1 _ fc h2 tr Cf Ef) as F.
  assert (Rf : forall r, In r (obj_refs h1 fc) -> nsets h <= r).
  { intros r Hr. destruct (R r Hr) as [[]|?]. assumption. }
  split.
  - constructor.
    + constructor.
      * pose proof (ex_sets _ _ E). pose proof (ff_sets _ _ _ _ _ _ F). lia.
      * rewrite (ff_dicts _ _ _ _ _ _ F). apply (ex_dicts _ _ E).
      * intros r Hr. rewrite (ff_set_frame _ _ _ _ _ _ F).
        -- now apply (ex_set _ _ E).
        -- pose proof (ex_sets _ _ E). lia.
        -- intros Hin. specialize (Rf r Hin). lia.
      * intros d Hd. rewrite (ff_dict_frame _ _ _ _ _ _ F) by lia. now apply (ex_dict _ _ E).
    + apply (ff_closed _ _ _ _ _ _ F).
    + exact D1.
    + exact D2.
    + intros r Hr. right. destruct (ff_refs _ _ _ _ _ _ F r Hr) as [H|H].
      * now apply Rf.
      * pose proof (ex_sets _ _ E). lia.
  - rewrite (ff_view _ _ _ _ _ _ F).
    + rewrite V. unfold facet_collection. f_equal. unfold view. simpl.
      f_equal. apply (ext_deref _ _ _ E). intros r Hr. apply (co_refs _ _ C). now apply db_refs_in.
    + intros r Hr. assert (r < nsets h) by (apply (co_refs _ _ C); now apply db_refs_in).
      split.
      * pose proof (ex_sets _ _ E). lia.
      * intros Hin. specialize (Rf r Hin). lia.
Qed.

(** * Every operation *)

Lemma view_db h ob : c_db (view h ob) = deref h (get_dict h (fst ob)).
Proof. reflexivity. Qed.
Lemma view_rdb h ob : c_rdb (view h ob) = deref h (get_dict h (snd ob)).
Proof. reflexivity. Qed.

Lemma hstep_insert fx st o pkg tags ob :
  nth_error (st_objs st) o = Some ob ->
  hstep fx st (HInsert o pkg tags) =
  (mkS (h_insert fx (st_heap st) ob pkg (set_of_list tags)) (st_objs st), None,
   h_ins_trigger (st_heap st) ob pkg (set_of_list tags)).
Proof. intros Ho. unfold hstep. cbn [hop_obj]. rewrite Ho. reflexivity. Qed.

Theorem hstep_sim st ss op :
  sim st ss -> hop_dom st op = true ->
  sim (hstate_of (hstep true st op)) (spec_step ss (sop_of_hop op (herr_of (hstep true st op)))).
Proof.
  intros S Hdom. pose proof (sm_hwf _ _ S) as W.
  destruct op as [|o lines tf|o pkg tags|o|o|o|o l|o l|o f|o f|o g|o g|o f|o f|o order].
  { (* new *)
    destruct (h_new_facts (st_heap st)) as [D V].
    unfold hstate_of, herr_of.
    change (hstep true st HNew) with (new_obj st (h_new (st_heap st)), @None err, false).
    cbn [fst snd sop_of_hop spec_step]. rewrite (pair_eta (h_new (st_heap st))).
    apply (sim_push_gen st ss _ _ []); try assumption.
    - simpl. lia.
    - intros j b sb _ _ _ r [].
    - intros _. cbn [so_rel]. rewrite V. apply repr_empty. }
  all: destruct (nth_error (st_objs st) o) as [ob|] eqn:Ho;
    [|rewrite hstep_no_obj by (simpl; congruence); exact S].
  all: assert (Hso : exists so, nth_error (ss_objs ss) o = Some so)
    by (destruct (nth_error (ss_objs ss) o) eqn:E; [now eexists|];
        apply nth_error_None in E; rewrite <- (sm_len _ _ S) in E;
        assert (nth_error (st_objs st) o <> None) by congruence;
        apply nth_error_Some in H; lia).
  all: destruct Hso as [so Hso].
  all: pose proof (hw_closed _ W o ob Ho) as C.
  all: pose proof (fun Hv => sm_repr _ _ S o ob so Ho Hso Hv) as Rp.
  - (* read *)
    unfold hstate_of, herr_of. simpl. rewrite Ho.
    destruct (alloc_vdict _ _) as [h1 d1] eqn:A1. destruct (alloc_vdict h1 _) as [h2 d2] eqn:A2.
    destruct (two_vdicts' _ _ _ _ _ _ _ A1 A2) as [D V]. simpl. rewrite Hso.
    apply sim_replace; try assumption.
    + simpl. lia.
    + simpl. intros Hv. rewrite V. now apply (repr_read tf lines).
  - (* insert *)
    unfold hstate_of, herr_of. rewrite (hstep_insert true st o pkg tags ob Ho). cbn [fst snd sop_of_hop].
    now apply (sim_insert st ss o ob so).
  - (* copy *)
    unfold hstate_of, herr_of. simpl. rewrite Ho.
    destruct (alloc_vdict _ _) as [h1 d1] eqn:A1. destruct (alloc_vdict h1 _) as [h2 d2] eqn:A2.
    destruct (two_vdicts' _ _ _ _ _ _ _ A1 A2) as [D V]. simpl fst. simpl snd.
    apply (sim_derive st ss o ob so false _ h2 (d1, d2) []); try assumption.
    + intros r [].
    + intros Hv. rewrite V. now apply Rp.
  - (* reverse *)
    assert (E : herr_of (hstep true st (HReverse o)) = None)
      by (unfold herr_of; simpl; now rewrite Ho).
    rewrite E. now apply (sim_reverse true st ss o ob so).
  - (* reverse_copy *)
    unfold hstate_of, herr_of. simpl. rewrite Ho.
    destruct (alloc_vdict _ _) as [h1 d1] eqn:A1. destruct (alloc_vdict h1 _) as [h2 d2] eqn:A2.
    destruct (two_vdicts' _ _ _ _ _ _ _ A1 A2) as [D V]. simpl fst. simpl snd.
    apply (sim_derive st ss o ob so false _ h2 (d1, d2) []); try assumption.
    + intros r [].
    + intros Hv. rewrite V. apply (repr_reverse _ _ (Rp Hv)).
  - (* choose *)
    unfold hstate_of, herr_of. simpl. rewrite Ho. simpl. rewrite (pair_eta (h_of_db _ _)).
    destruct (h_of_db_derived _ ob _ C (sub_dict_choose _ ob l C)) as [D V].
    apply (sim_derive st ss o ob so true _ _ _ _ S Ho Hso D).
    + intros r Hr. now split.
    + intros Hv. rewrite V, deref_choose, <- view_db. apply repr_choose. now apply Rp.
  - (* choose_copy *)
    unfold hstate_of, herr_of. simpl. rewrite Ho.
    destruct (forallb _ l) eqn:Ef; simpl; [|exact S].
    rewrite (pair_eta (h_of_db_copy _ _)).
    destruct (h_of_db_copy_facts (st_heap st) (choose_d (get_dict (st_heap st) (fst ob)) l)) as [D V].
    apply (sim_derive st ss o ob so false _ _ _ _ S Ho Hso D).
    + intros r [].
    + intros Hv. rewrite V, deref_choose, <- view_db. apply repr_choose. now apply Rp.
  - (* filter_packages *)
    unfold hstate_of, herr_of. simpl. rewrite Ho. simpl. rewrite (pair_eta (h_of_db _ _)).
    destruct (h_of_db_derived _ ob _ C (sub_dict_filter_db _ ob (fun kr => f (fst kr)) C)) as [D V].
    apply (sim_derive st ss o ob so true _ _ _ _ S Ho Hso D).
    + intros r Hr. now split.
    + intros Hv. rewrite V, deref_filter_key, <- view_db. apply repr_filter_packages. now apply Rp.
  - unfold hstate_of, herr_of. simpl. rewrite Ho. simpl. rewrite (pair_eta (h_of_db_copy _ _)).
    destruct (h_of_db_copy_facts (st_heap st) (filter (fun kr => f (fst kr)) (get_dict (st_heap st) (fst ob)))) as [D V].
    apply (sim_derive st ss o ob so false _ _ _ _ S Ho Hso D).
    + intros r [].
    + intros Hv. rewrite V, deref_filter_key, <- view_db. apply repr_filter_packages. now apply Rp.
  - (* filter_packages_tags *)
    unfold hstate_of, herr_of. simpl. rewrite Ho. simpl. rewrite (pair_eta (h_of_db _ _)).
    destruct (h_of_db_derived _ ob _ C
                (sub_dict_filter_db _ ob (fun kr => g (fst kr) (get_set (st_heap st) (snd kr))) C)) as [D V].
    apply (sim_derive st ss o ob so true _ _ _ _ S Ho Hso D).
    + intros r Hr. now split.
    + intros Hv. rewrite V, deref_filter_pt, <- view_db. apply repr_filter_packages_tags. now apply Rp.
  - unfold hstate_of, herr_of. simpl. rewrite Ho. simpl. rewrite (pair_eta (h_of_db_copy _ _)).
    destruct (h_of_db_copy_facts (st_heap st)
                (filter (fun kr => g (fst kr) (get_set (st_heap st) (snd kr))) (get_dict (st_heap st) (fst ob)))) as [D V].
    apply (sim_derive st ss o ob so false _ _ _ _ S Ho Hso D).
    + intros r [].
    + intros Hv. rewrite V, deref_filter_pt, <- view_db. apply repr_filter_packages_tags. now apply Rp.
  - (* filter_tags *)
    unfold hstate_of, herr_of. simpl. rewrite Ho. simpl. rewrite (pair_eta (h_of_rdb _ _)).
    destruct (h_of_rdb_derived _ ob _ C (sub_dict_filter_rdb _ ob (fun kr => f (fst kr)) C)) as [D V].
    apply (sim_derive st ss o ob so true _ _ _ _ S Ho Hso D).
    + intros r Hr. now split.
    + intros Hv. rewrite V, deref_filter_key, <- view_rdb. apply repr_filter_tags. now apply Rp.
  - unfold hstate_of, herr_of. simpl. rewrite Ho. simpl. rewrite (pair_eta (h_of_rdb_copy _ _)).
    destruct (h_of_rdb_copy_facts (st_heap st) (filter (fun kr => f (fst kr)) (get_dict (st_heap st) (snd ob)))) as [D V].
    apply (sim_derive st ss o ob so false _ _ _ _ S Ho Hso D).
    + intros r [].
    + intros Hv. rewrite V, deref_filter_key, <- view_rdb. apply repr_filter_tags. now apply Rp.
  - (* facet *)
    destruct (hop_dom_facet st o order ob Hdom Ho) as [Hn Hperm]. cbv zeta in Hperm.
    unfold hstate_of, herr_of. rewrite (hstep_facet true st o order ob Ho).
    destruct (h_new (st_heap st)) as [h1 fc] eqn:En.
    destruct (h_facet true h1 (get_dict (st_heap st) (fst ob)) fc order) as [[h2 tr]|e] eqn:Ef.
    + destruct (facet_derived true _ ob order h1 fc h2 tr C En Ef) as [D V]. simpl fst. simpl snd.
      apply (sim_derive st ss o ob so false _ _ _ _ S Ho Hso D).
      * intros r [].
      * intros Hv. rewrite V. apply repr_facet; [now apply Rp|assumption|].
        intros p. rewrite Hperm. rewrite view_db, deref_keys. tauto.
    + simpl. exact S.
Qed.
