(** C20 — tie by regeneration, part 2: the methods of class DB as regenerated into Gen/TrDebtagsDB.v
    (DB.__init__, read, insert — with finding K1 —, reverse, copy, reverse_copy and the queries) equal the
    heap-level functions of Debtags/Model.v that [hstep] is made of. *)
From Verif Require Import Lib.Base Lib.PyStr Lib.Tr Debtags.StrSet Debtags.Model
  Debtags.SetProofs Debtags.DictProofs Debtags.Proofs Debtags.HeapBase Debtags.HeapInsert Debtags.HeapDerive
  Debtags.TrPrims Gen.TrDebtags Debtags.Tie Debtags.TrHeapPrims Gen.TrDebtagsDB.

(** * Guards: representation invariants of the heap (all boolean) *)

(** the dict object [d] exists and every set object it refers to exists *)
Definition dict_closedb (h : heap) (d : nat) : bool :=
  (d <? ndicts h)%nat && forallb (fun r => (r <? nsets h)%nat) (dict_refs h d).
(** the association list stands for a Python dict: its keys are distinct *)
Definition dict_keysb (h : heap) (d : nat) : bool := nodupb (keys (get_dict h d)).

Lemma closed_obj_dict_closedb h ob :
  closed_obj h ob -> dict_closedb h (fst ob) = true /\ dict_closedb h (snd ob) = true.
Proof.
  intros [C1 C2 _ C4 _]. unfold dict_closedb. split; apply andb_true_iff; split;
    try (now apply Nat.ltb_lt); apply forallb_forall; intros r Hr; apply Nat.ltb_lt, C4;
    unfold obj_refs; apply in_app_iff; [now left|now right].
Qed.

Lemma dict_closedb_ext h h' d :
  ext h h' -> dict_closedb h d = true ->
  get_dict h' d = get_dict h d /\ deref h' (get_dict h d) = deref h (get_dict h d).
Proof.
  intros E H. apply andb_true_iff in H. destruct H as [H1 H2]. apply Nat.ltb_lt in H1.
  split; [now apply (ex_dict _ _ E)|]. apply deref_ext. intros r Hr.
  apply (ex_set _ _ E). rewrite forallb_forall in H2. now apply Nat.ltb_lt, H2.
Qed.

(** * DB.__init__ — [h_new] *)

Theorem tie_db_init h d0 r0 :
  tr_db_init h d0 r0 = MOk tt (fst (h_new h), fst (snd (h_new h)), snd (snd (h_new h))).
Proof. reflexivity. Qed.

(** * DB.read — the code of [hstep] for [HRead] *)

Definition h_read (h : heap) (lines : list str) (tf : option (str -> bool)) : heap * obj :=
  let r := read_both tf lines in
  let (h1, d1) := alloc_vdict h (fst r) in
  let (h2, d2) := alloc_vdict h1 (snd r) in (h2, (d1, d2)).

Theorem tie_db_read h d r lines tf :
  tr_db_read h d r lines tf
  = MOk tt (fst (h_read h lines tf), fst (snd (h_read h lines tf)), snd (snd (h_read h lines tf))).
Proof.
  unfold tr_db_read, trp_h_read_both, h_read. rewrite tie_read_tag_database_both_ways.
  destruct (read_both tf lines) as [a b]. cbn [fst snd].
  destruct (alloc_vdict h a) as [h1 d1]. destruct (alloc_vdict h1 b) as [h2 d2]. reflexivity.
Qed.

(** * DB.insert — [h_insert false] (the code as written: [set((pkg))] is [chars_of pkg], finding K1) *)

Lemma tie_db_insert_loop it : forall pkg tags h d r,
  tr_db_insert_loop1 it pkg tags h d r = MOk tt (fold_left (h_ins_rdb false pkg r) it h, d, r).
Proof.
  induction it as [|t it IH]; intros pkg tags h d r; cbn [tr_db_insert_loop1 fold_left]; [reflexivity|].
  unfold trp_hd_contains, dict_mem, trp_hd_getitem, trp_sref_add, trp_hd_setitem_fresh, trp_set_of_str, h_ins_rdb.
  destruct (lookup t (get_dict h r)) as [sr|] eqn:L.
  - now rewrite IH.
  - destruct (alloc_set h (chars_of pkg)) as [h1 x]. now rewrite IH.
Qed.

Theorem tie_db_insert h d r pkg tags :
  tr_db_insert h d r pkg tags = MOk tt (h_insert false h (d, r) pkg tags, d, r).
Proof.
  unfold tr_db_insert, trp_hd_setitem_fresh, trp_set_copy, trp_set_iter, h_insert. cbn [fst snd].
  destruct (alloc_set h tags) as [h1 x]. now rewrite tie_db_insert_loop.
Qed.

(** * DB.reverse — the object made of the same two dict objects, swapped *)

Theorem tie_db_reverse h d r : tr_db_reverse h d r = Ok (ob_of (r, d)).
Proof. reflexivity. Qed.

(** * DB.copy, DB.reverse_copy — the code of [hstep] for [HCopy] / [HReverseCopy] *)

Definition h_copy (h : heap) (ob : obj) : heap * obj :=
  let (h1, d1) := alloc_vdict h (deref h (get_dict h (fst ob))) in
  let (h2, d2) := alloc_vdict h1 (deref h (get_dict h (snd ob))) in (h2, (d1, d2)).

Lemma dict_set_notin {V} k (v : V) d : ~ In k (keys d) -> dict_set k v d = d ++ [(k, v)].
Proof.
  induction d as [|[k0 v0] d IH]; simpl; intros H; [reflexivity|].
  destruct (str_eqb k k0) eqn:E.
  - apply str_eqb_eq in E. subst. exfalso. apply H. now left.
  - rewrite IH; [reflexivity|]. intros Hin. apply H. now right.
Qed.

Lemma of_pairs_fold {V} (l : list (str * V)) : forall acc,
  NoDup (keys acc ++ keys l) ->
  fold_left (fun d kv => dict_set (fst kv) (snd kv) d) l acc = acc ++ l.
Proof.
  induction l as [|[k v] l IH]; intros acc H; simpl; [now rewrite app_nil_r|].
  assert (Hk : ~ In k (keys acc)).
  { intros Hin. unfold keys in H. simpl in H. apply NoDup_remove_2 in H. apply H, in_app_iff. now left. }
  rewrite dict_set_notin by assumption. rewrite IH.
  - now rewrite <- app_assoc.
  - unfold keys in *. rewrite map_app. simpl. rewrite <- app_assoc. exact H.
Qed.

(** [{k: v.copy() for k, v in d.items()}] is the dict with every reference followed *)
Lemma of_pairs_deref h (rd : rdict) :
  nodupb (keys rd) = true ->
  trp_vd_of_pairs (map (fun '(k, v) => (k, trp_sref_copy h v)) rd) = deref h rd.
Proof.
  intros H. apply nodupb_NoDup in H. unfold trp_vd_of_pairs. rewrite of_pairs_fold.
  - unfold deref, trp_sref_copy. simpl. apply map_ext. now intros [k v].
  - simpl. unfold keys in *. rewrite map_map.
    erewrite map_ext; [exact H|]. now intros [k v].
Qed.

Theorem tie_db_copy h d r :
  dict_keysb h d = true -> dict_keysb h r = true -> dict_closedb h r = true ->
  tr_db_copy h d r = MOk (ob_of (snd (h_copy h (d, r)))) (fst (h_copy h (d, r)), d, r).
Proof.
  intros Kd Kr Cr. unfold tr_db_copy, trp_ob_set_db_vd, trp_ob_set_rdb_vd, trp_hd_items, h_copy. cbn [fst snd].
  rewrite (of_pairs_deref h _ Kd).
  pose proof (alloc_vdict_facts h (deref h (get_dict h d))) as F.
  destruct (alloc_vdict h (deref h (get_dict h d))) as [h1 d1]. cbn [fst snd] in F.
  destruct (dict_closedb_ext h h1 r (vf_ext _ _ _ _ F) Cr) as [G D].
  rewrite G, (of_pairs_deref h1 _ Kr), D.
  destruct (alloc_vdict h1 (deref h (get_dict h r))) as [h2 d2]. reflexivity.
Qed.

Definition h_reverse_copy (h : heap) (ob : obj) : heap * obj :=
  let (h1, d1) := alloc_vdict h (deref h (get_dict h (snd ob))) in
  let (h2, d2) := alloc_vdict h1 (deref h (get_dict h (fst ob))) in (h2, (d1, d2)).

Theorem tie_db_reverse_copy h d r :
  dict_keysb h d = true -> dict_keysb h r = true -> dict_closedb h d = true ->
  tr_db_reverse_copy h d r
  = MOk (ob_of (snd (h_reverse_copy h (d, r)))) (fst (h_reverse_copy h (d, r)), d, r).
Proof.
  intros Kd Kr Cd. unfold tr_db_reverse_copy, trp_ob_set_db_vd, trp_ob_set_rdb_vd, trp_hd_items, h_reverse_copy.
  cbn [fst snd]. rewrite (of_pairs_deref h _ Kr).
  pose proof (alloc_vdict_facts h (deref h (get_dict h r))) as F.
  destruct (alloc_vdict h (deref h (get_dict h r))) as [h1 d1]. cbn [fst snd] in F.
  destruct (dict_closedb_ext h h1 d (vf_ext _ _ _ _ F) Cd) as [G D].
  rewrite G, (of_pairs_deref h1 _ Kd), D.
  destruct (alloc_vdict h1 (deref h (get_dict h d))) as [h2 d2]. reflexivity.
Qed.

(** * The queries — the model's query functions on [view h ob] *)

Theorem tie_db_has_package h d r p : tr_db_has_package h d r p = Ok (has_package (view h (d, r)) p).
Proof. unfold tr_db_has_package, trp_hd_contains, has_package, view. cbn. now rewrite dict_mem_deref. Qed.

Theorem tie_db_has_tag h d r t : tr_db_has_tag h d r t = Ok (has_tag (view h (d, r)) t).
Proof. unfold tr_db_has_tag, trp_hd_contains, has_tag, view. cbn. now rewrite dict_mem_deref. Qed.

Lemma get_deref h (rd : rdict) k :
  get (deref h rd) k = match lookup k rd with Some r => get_set h r | None => [] end.
Proof. unfold get. rewrite lookup_deref. now destruct (lookup k rd). Qed.

Theorem tie_db_tags_of_package h d r p :
  tr_db_tags_of_package h d r p = Ok (tags_of_package (view h (d, r)) p).
Proof.
  unfold tr_db_tags_of_package, trp_hd_contains, dict_mem, trp_hd_getitem, trp_sref_value, trp_set_empty,
    tags_of_package, view. cbn [c_db fst snd bind]. rewrite get_deref.
  now destruct (lookup p (get_dict h d)).
Qed.

Theorem tie_db_packages_of_tag h d r t :
  tr_db_packages_of_tag h d r t = Ok (packages_of_tag (view h (d, r)) t).
Proof.
  unfold tr_db_packages_of_tag, trp_hd_contains, dict_mem, trp_hd_getitem, trp_sref_value, trp_set_empty,
    packages_of_tag, view. cbn [c_rdb fst snd bind]. rewrite get_deref.
  now destruct (lookup t (get_dict h r)).
Qed.

Theorem tie_db_card h d r t : tr_db_card h d r t = Ok (Z.of_nat (card (view h (d, r)) t)).
Proof.
  unfold tr_db_card, trp_hd_contains, dict_mem, trp_hd_getitem, trp_sref_len, card, view.
  cbn [c_rdb fst snd bind]. rewrite get_deref.
  now destruct (lookup t (get_dict h r)).
Qed.

Theorem tie_db_package_count h d r : tr_db_package_count h d r = Ok (Z.of_nat (package_count (view h (d, r)))).
Proof. unfold tr_db_package_count, trp_hd_len, package_count, view, deref. cbn. now rewrite map_length. Qed.

Theorem tie_db_tag_count h d r : tr_db_tag_count h d r = Ok (Z.of_nat (tag_count (view h (d, r)))).
Proof. unfold tr_db_tag_count, trp_hd_len, tag_count, view, deref. cbn. now rewrite map_length. Qed.

(** the iterators: the keys / the items of the two indexes, in insertion order; an item is (key, set OBJECT):
    following the references gives the index of [view] *)
Theorem tie_db_iter_packages h d r : tr_db_iter_packages h d r = Ok (keys (c_db (view h (d, r)))).
Proof. unfold tr_db_iter_packages, trp_hd_keys, view. cbn [c_db fst snd]. now rewrite deref_keys. Qed.

Theorem tie_db_iter_tags h d r : tr_db_iter_tags h d r = Ok (keys (c_rdb (view h (d, r)))).
Proof. unfold tr_db_iter_tags, trp_hd_keys, view. cbn [c_rdb fst snd]. now rewrite deref_keys. Qed.

Theorem tie_db_iter_packages_tags h d r :
  exists items, tr_db_iter_packages_tags h d r = Ok items /\ items = get_dict h d /\ deref h items = c_db (view h (d, r)).
Proof. eexists. repeat split. Qed.

Theorem tie_db_iter_tags_packages h d r :
  exists items, tr_db_iter_tags_packages h d r = Ok items /\ items = get_dict h r /\ deref h items = c_rdb (view h (d, r)).
Proof. eexists. repeat split. Qed.

(** * The same, as steps of the model's [hstep] (what [agree] runs through [model_obs]) *)

Definition step_state (r : hstate * option err * bool) : hstate := fst (fst r).
Definition step_err (r : hstate * option err * bool) : option err := snd (fst r).

Theorem tie_hstep_new st :
  hstep false st HNew
  = (new_obj st (h_new (st_heap st)), None, false).
Proof. reflexivity. Qed.

Theorem tie_hstep_read st o ob lines tf :
  nth_error (st_objs st) o = Some ob ->
  hstep false st (HRead o lines tf)
  = (mkS (fst (h_read (st_heap st) lines tf)) (upd o (snd (h_read (st_heap st) lines tf)) (st_objs st)), None, false).
Proof.
  intros Ho. unfold hstep, h_read. cbn [hop_obj]. rewrite Ho.
  destruct (alloc_vdict (st_heap st) (fst (read_both tf lines))) as [h1 d1].
  destruct (alloc_vdict h1 (snd (read_both tf lines))) as [h2 d2]. reflexivity.
Qed.

Theorem tie_hstep_insert st o ob pkg tags :
  nth_error (st_objs st) o = Some ob ->
  hstep false st (HInsert o pkg tags)
  = (mkS (h_insert false (st_heap st) ob pkg (set_of_list tags)) (st_objs st), None,
     h_ins_trigger (st_heap st) ob pkg (set_of_list tags)).
Proof. intros Ho. unfold hstep. cbn [hop_obj]. now rewrite Ho. Qed.

Theorem tie_hstep_reverse st o ob :
  nth_error (st_objs st) o = Some ob ->
  hstep false st (HReverse o) = (new_obj st (st_heap st, (snd ob, fst ob)), None, false).
Proof. intros Ho. unfold hstep. cbn [hop_obj]. now rewrite Ho. Qed.

Theorem tie_hstep_copy st o ob :
  nth_error (st_objs st) o = Some ob ->
  hstep false st (HCopy o) = (new_obj st (h_copy (st_heap st) ob), None, false).
Proof.
  intros Ho. unfold hstep, h_copy. cbn [hop_obj]. rewrite Ho.
  destruct (alloc_vdict (st_heap st) (deref (st_heap st) (get_dict (st_heap st) (fst ob)))) as [h1 d1].
  destruct (alloc_vdict h1 (deref (st_heap st) (get_dict (st_heap st) (snd ob)))) as [h2 d2]. reflexivity.
Qed.

Theorem tie_hstep_reverse_copy st o ob :
  nth_error (st_objs st) o = Some ob ->
  hstep false st (HReverseCopy o) = (new_obj st (h_reverse_copy (st_heap st) ob), None, false).
Proof.
  intros Ho. unfold hstep, h_reverse_copy. cbn [hop_obj]. rewrite Ho.
  destruct (alloc_vdict (st_heap st) (deref (st_heap st) (get_dict (st_heap st) (snd ob)))) as [h1 d1].
  destruct (alloc_vdict h1 (deref (st_heap st) (get_dict (st_heap st) (fst ob)))) as [h2 d2]. reflexivity.
Qed.
