(** C20 — primitives of the regenerated module-level functions of lib/debian/debtags.py
    (Gen/TrDebtags.v: parse_tags, read_tag_database, read_tag_database_reversed,
    read_tag_database_both_ways, reverse, output).

    RENDERING.  A Python [set] of str is a value of the model's [sset] (Debtags/StrSet.v: the
    sorted duplicate-free list); a [dict] from str to sets is the model's [dict] (association
    list in INSERTION ORDER, which is Python's iteration order of a dict).  Both are rendered BY
    VALUE here: in these functions no set object has two names — whatever is stored into a dict
    is a set that was made for that entry ([x.copy()], [set(..)]).  The translator checks this
    by TYPE: [dict.__setitem__] takes an [fset] (a set that was just made), a plain [sset] is not
    accepted where an [fset] is expected (harness/props/c20.py).  Sets that ARE shared between
    collections (class DB) are references into the model's heap: Debtags/TrHeapPrims.v.

    ITERATION ORDER.  [for x in <set>] runs over the model's canonical order ([trp_set_iter]);
    Python's order is unspecified.  See Props/C20Tie.v for what is proved about the other orders.

    Every primitive is defined from the model's own leaf functions.  Definitions only. *)
From Verif Require Import Lib.Base Lib.PyStr Lib.Tr Debtags.StrSet Debtags.Model.

(** a set object that was made where the expression stands and has no other name *)
Definition fset := sset.
(** a dict {str: set} none of whose sets has another name *)
Definition vdict := dict.
(** a user callback (tag_filter, package_filter): assumed pure and total, as in the model *)
Definition strpred := str -> bool.

(** * The pattern [lre] of parse_tags (its text is asserted by the spec in harness/props/c20.py and quoted in
    Debtags/Model.v): the model's leaf [parse_line], which the ParseLeaf cases of the correspondence compare with
    the live compiled pattern *)
Definition lre := unit.
Definition lmatch := (str * option str)%type.
Definition trp_lre_compile (_ : unit) : lre := tt.
Definition trp_lre_match (_ : lre) (line : str) : option lmatch := parse_line line.
Definition trp_lm_group1 (m : lmatch) : str := fst m.
Definition trp_lm_group2 (m : lmatch) : option str := snd m.

(** [s.split(', ')] *)
Definition trp_split_cs (s : str) : list str := split_cs s.

(** * Sets by value *)
(** [set()], [set(<list>)], [set(<set>)] / [<set>.copy()] (a copy has the same elements),
    [set(<str>)] — the set of the CHARACTERS of the string (finding K1: [set((pkg))]) *)
Definition trp_set_empty : fset := [].
Definition trp_set_of_list (l : list str) : fset := set_of_list l.
Definition trp_set_of_set (s : sset) : fset := s.
Definition trp_set_copy (s : sset) : fset := s.
Definition trp_set_of_str (s : str) : fset := chars_of s.
(** [for x in s] / [", ".join(s)] / [filter(f, s)]: the elements in the model's canonical order *)
Definition trp_set_iter (s : sset) : list str := s.
Definition trp_filter (f : strpred) (s : sset) : list str := filter f s.

(** * Dicts of sets by value *)
Definition trp_vd_empty : vdict := [].
(** [d[k] = v] *)
Definition trp_vd_setitem (d : vdict) (k : str) (v : fset) : unit * vdict := (tt, dict_set k v d).
(** [k in d] *)
Definition trp_vd_contains (d : vdict) (k : str) : bool := dict_mem k d.
(** [d[k] |= e]: [d[k]] (KeyError), then the in-place union, then the store of the same object *)
Definition trp_vd_ior (d : vdict) (k : str) (e : sset) : result (unit * vdict) :=
  match lookup k d with
  | Some s => Ok (tt, dict_set k (set_union e s) d)
  | None => Err KeyError
  end.
(** [d[k].add(x)]: [d[k]] (KeyError), then the in-place insertion *)
Definition trp_vd_item_add (d : vdict) (k : str) (x : str) : result (unit * vdict) :=
  match lookup k d with
  | Some s => Ok (tt, dict_set k (set_add x s) d)
  | None => Err KeyError
  end.
(** [d.items()]: insertion order *)
Definition trp_vd_items (d : vdict) : list (str * sset) := d.

(** * output: [print(a, b)] appends [a + " " + b + "\n"] to the text written to stdout *)
Definition trp_print2 (out : str) (a b : str) : mres unit str := MOk tt (out ++ a ++ [SP] ++ b ++ [LF]).
(** [", ".join(s)] for a set [s]: its elements in the canonical order *)
Definition trp_join_cs (sep : str) (s : sset) : str := join sep s.
