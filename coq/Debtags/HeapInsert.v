(** HEAP layer, part 2: objects, closedness, separation, and what [h_insert] does
    to the receiver (its view follows the linear [insert]) and to every object
    separate from it (nothing). *)
From Verif Require Import Lib.Base Lib.PyStr Debtags.StrSet Debtags.Model
  Debtags.SetProofs Debtags.DictProofs Debtags.HeapBase.

Definition obj_refs (h : heap) (ob : obj) : list nat :=
  dict_refs h (fst ob) ++ dict_refs h (snd ob).

(** every reference of the object is allocated; its two dicts are different
    objects; no set object is referenced twice *)
Record closed_obj (h : heap) (ob : obj) : Prop := mkCO {
  co_db : fst ob < ndicts h;
  co_rdb : snd ob < ndicts h;
  co_ne : fst ob <> snd ob;
  co_refs : forall r, In r (obj_refs h ob) -> r < nsets h;
  co_nodup : NoDup (obj_refs h ob) }.

(** the footprints of two objects are disjoint *)
Record sep (h : heap) (a b : obj) : Prop := mkSep {
  sp_1 : fst a <> fst b;
  sp_2 : fst a <> snd b;
  sp_3 : snd a <> fst b;
  sp_4 : snd a <> snd b;
  sp_refs : forall r, In r (obj_refs h a) -> ~ In r (obj_refs h b) }.

Lemma sep_sym h a b : sep h a b -> sep h b a.
Proof.
  intros [H1 H2 H3 H4 H5]. constructor; try congruence.
  intros r Hb Ha. exact (H5 r Ha Hb).
Qed.

Lemma NoDup_app_l {A} (a b : list A) : NoDup (a ++ b) -> NoDup a.
Proof.
  induction a as [|x a IH]; simpl; intros H; [constructor|].
  inversion H as [|? ? H1 H2]; subst. constructor; [|now apply IH].
  intros Hin. apply H1. apply in_app_iff. now left.
Qed.

Lemma NoDup_app_r {A} (a b : list A) : NoDup (a ++ b) -> NoDup b.
Proof.
  induction a as [|x a IH]; simpl; intros H; [assumption|].
  inversion H; subst. now apply IH.
Qed.

Lemma NoDup_app_disj {A} (a b : list A) x : NoDup (a ++ b) -> In x a -> ~ In x b.
Proof.
  induction a as [|y a IH]; simpl; intros H Ha Hb; [destruct Ha|].
  inversion H as [|? ? H1 H2]; subst. destruct Ha as [->|Ha].
  - apply H1. apply in_app_iff. now right.
  - now apply (IH H2 Ha).
Qed.

Lemma NoDup_app_intro {A} (a b : list A) :
  NoDup a -> NoDup b -> (forall x, In x a -> ~ In x b) -> NoDup (a ++ b).
Proof.
  induction a as [|x a IH]; simpl; intros Ha Hb Hd; [assumption|].
  inversion Ha as [|? ? H1 H2]; subst. constructor.
  - rewrite in_app_iff. intros [H|H]; [contradiction|]. apply (Hd x); [now left|assumption].
  - apply IH; try assumption. intros y Hy. apply Hd. now right.
Qed.

(** * h_insert *)

Lemma h_insert_unfold fx h o pkg tags :
  h_insert fx h o pkg tags =
  fold_left (h_ins_rdb fx pkg (snd o)) tags
    (put_dict (fst (alloc_set h tags)) (fst o) (dict_set pkg (nsets h) (get_dict h (fst o)))).
Proof. reflexivity. Qed.

Record insert_facts (fx : bool) (h : heap) (o : obj) (pkg : str) (tags : sset) (h' : heap) : Prop := mkIF {
  if_sets : nsets h < nsets h';
  if_dicts : ndicts h' = ndicts h;
  if_dict_frame : forall d, d <> fst o -> d <> snd o -> get_dict h' d = get_dict h d;
  if_set_frame : forall r, r < nsets h -> ~ In r (dict_refs h (snd o)) -> get_set h' r = get_set h r;
  if_db : get_dict h' (fst o) = dict_set pkg (nsets h) (get_dict h (fst o));
  if_new : get_set h' (nsets h) = tags;
  if_rdb_refs : forall r, In r (dict_refs h' (snd o)) -> In r (dict_refs h (snd o)) \/ nsets h < r;
  if_rdb_closed : forall r, In r (dict_refs h' (snd o)) -> r < nsets h';
  if_rdb_view :
    deref h' (get_dict h' (snd o)) = fold_left (ins_rdb fx pkg) tags (deref h (get_dict h (snd o)));
  if_rdb_nodup : NoDup (dict_refs h' (snd o)) }.

Lemma h_insert_facts fx h o pkg tags :
  closed_obj h o -> insert_facts fx h o pkg tags (h_insert fx h o pkg tags).
Proof.
  intros [C1 C2 C3 C4 C5]. rewrite h_insert_unfold.
  set (h1 := fst (alloc_set h tags)).
  set (h2 := put_dict h1 (fst o) (dict_set pkg (nsets h) (get_dict h (fst o)))).
  assert (N2 : nsets h2 = S (nsets h)) by (unfold h2, h1; now rewrite nsets_put_dict, nsets_alloc_set).
  assert (D2 : ndicts h2 = ndicts h) by (unfold h2, h1; now rewrite ndicts_put_dict, ndicts_alloc_set).
  assert (G2 : forall d, d <> fst o -> get_dict h2 d = get_dict h d).
  { intros d Hd. unfold h2, h1. rewrite get_dict_put_dict_neq by congruence. apply get_dict_alloc_set. }
  assert (G2' : get_dict h2 (fst o) = dict_set pkg (nsets h) (get_dict h (fst o))).
  { unfold h2. apply get_dict_put_dict_eq. unfold h1. now rewrite ndicts_alloc_set. }
  assert (S2 : forall r, r < nsets h -> get_set h2 r = get_set h r).
  { intros r Hr. unfold h2, h1. rewrite get_set_put_dict. now apply get_set_alloc_lt. }
  assert (S2' : get_set h2 (nsets h) = tags).
  { unfold h2, h1. rewrite get_set_put_dict. apply get_set_alloc_eq. }
  assert (R2 : dict_refs h2 (snd o) = dict_refs h (snd o)).
  { unfold dict_refs. rewrite G2 by congruence. reflexivity. }
  assert (Cl : forall r, In r (dict_refs h (snd o)) -> r < nsets h).
  { intros r Hr. apply C4. unfold obj_refs. apply in_app_iff. now right. }
  assert (I0 : ins_inv (snd o) h2 h2).
  { apply ins_inv_refl. intros r. rewrite R2, N2. intros Hr. specialize (Cl r Hr). lia. }
  assert (Hrd : snd o < ndicts h2) by now rewrite D2.
  pose proof (h_ins_rdb_fold_inv fx pkg (snd o) h2 tags h2 Hrd I0) as I.
  assert (Nd : NoDup (dict_refs h2 (snd o))) by (rewrite R2; now apply (NoDup_app_r _ _ C5)).
  destruct (h_ins_rdb_fold_view fx pkg (snd o) h2 tags h2 Hrd I0 Nd) as [V N].
  set (h' := fold_left (h_ins_rdb fx pkg (snd o)) tags h2) in *.
  destruct I as [I1 I2 I3 I4 I5 I6].
  constructor.
  - lia.
  - now rewrite I2.
  - intros d Hd1 Hd2. rewrite I3 by assumption. now apply G2.
  - intros r Hr Hn. rewrite I4; [now apply S2|lia|now rewrite R2].
  - rewrite I3 by congruence. exact G2'.
  - rewrite I4; [exact S2'|lia|]. rewrite R2. intros Hin. specialize (Cl _ Hin). lia.
  - intros r Hr. destruct (I5 r Hr) as [H|H]; [left; now rewrite <- R2|right; lia].
  - exact I6.
  - rewrite V. f_equal. rewrite G2 by congruence. apply deref_ext.
    intros r Hr. apply S2. now apply Cl.
  - exact N.
Qed.

(** the receiver stays closed *)
Lemma h_insert_closed fx h o pkg tags :
  closed_obj h o -> closed_obj (h_insert fx h o pkg tags) o.
Proof.
  intros C. pose proof (h_insert_facts fx h o pkg tags C) as F.
  destruct C as [C1 C2 C3 C4 C5]. set (h' := h_insert fx h o pkg tags) in *.
  assert (Hdb : forall r, In r (dict_refs h' (fst o)) -> r = nsets h \/ In r (dict_refs h (fst o))).
  { intros r. unfold dict_refs at 1. rewrite (if_db _ _ _ _ _ _ F). apply dict_refs_dict_set. }
  constructor.
  - now rewrite (if_dicts _ _ _ _ _ _ F).
  - now rewrite (if_dicts _ _ _ _ _ _ F).
  - assumption.
  - intros r Hr. apply in_app_iff in Hr. destruct Hr as [Hr|Hr].
    + pose proof (if_sets _ _ _ _ _ _ F). destruct (Hdb r Hr) as [->|Hr']; [lia|].
      assert (r < nsets h) by (apply C4, in_app_iff; now left). lia.
    + now apply (if_rdb_closed _ _ _ _ _ _ F).
  - apply NoDup_app_intro.
    + unfold dict_refs. rewrite (if_db _ _ _ _ _ _ F). apply NoDup_refs_dict_set.
      * now apply (NoDup_app_l _ _ C5).
      * intros Hin. assert (nsets h < nsets h) by (apply C4, in_app_iff; now left). lia.
    + apply (if_rdb_nodup _ _ _ _ _ _ F).
    + intros r Hr1 Hr2. destruct (if_rdb_refs _ _ _ _ _ _ F r Hr2) as [H|H].
      * destruct (Hdb r Hr1) as [->|Hr'].
        -- assert (nsets h < nsets h) by (apply C4, in_app_iff; now right). lia.
        -- now apply (NoDup_app_disj _ _ r C5 Hr').
      * destruct (Hdb r Hr1) as [->|Hr']; [lia|].
        assert (r < nsets h) by (apply C4, in_app_iff; now left). lia.
Qed.

(** the receiver's view follows the linear model *)
Theorem h_insert_view fx h o pkg tags :
  closed_obj h o ->
  view (h_insert fx h o pkg tags) o = insert fx (view h o) pkg tags.
Proof.
  intros C. pose proof (h_insert_facts fx h o pkg tags C) as F.
  destruct C as [C1 C2 C3 C4 C5]. set (h' := h_insert fx h o pkg tags) in *.
  unfold view, insert. simpl. f_equal.
  - rewrite (if_db _ _ _ _ _ _ F), deref_dict_set, (if_new _ _ _ _ _ _ F). f_equal.
    apply deref_ext. intros r Hr. apply (if_set_frame _ _ _ _ _ _ F).
    + apply C4, in_app_iff. now left.
    + now apply (NoDup_app_disj _ _ r C5).
  - apply (if_rdb_view _ _ _ _ _ _ F).
Qed.

(** an object separate from the receiver is untouched *)
Lemma h_insert_frame_refs fx h o pkg tags b :
  closed_obj h o -> closed_obj h b -> sep h o b ->
  get_dict (h_insert fx h o pkg tags) (fst b) = get_dict h (fst b)
  /\ get_dict (h_insert fx h o pkg tags) (snd b) = get_dict h (snd b).
Proof.
  intros C Cb [S1 S2 S3 S4 S5]. pose proof (h_insert_facts fx h o pkg tags C) as F.
  split; apply (if_dict_frame _ _ _ _ _ _ F); congruence.
Qed.

Theorem h_insert_frame fx h o pkg tags b :
  closed_obj h o -> closed_obj h b -> sep h o b ->
  view (h_insert fx h o pkg tags) b = view h b.
Proof.
  intros C Cb Sp. destruct (h_insert_frame_refs fx h o pkg tags b C Cb Sp) as [E1 E2].
  pose proof (h_insert_facts fx h o pkg tags C) as F.
  assert (Hs : forall r, In r (obj_refs h b) -> get_set (h_insert fx h o pkg tags) r = get_set h r).
  { intros r Hr. apply (if_set_frame _ _ _ _ _ _ F).
    - now apply (co_refs _ _ Cb).
    - intros Hin. apply (sp_refs _ _ _ Sp r); [|assumption]. apply in_app_iff. now right. }
  unfold view. rewrite E1, E2. f_equal; apply deref_ext; intros r Hr; apply Hs, in_app_iff;
    [now left|now right].
Qed.

Lemma h_insert_frame_closed fx h o pkg tags b :
  closed_obj h o -> closed_obj h b -> sep h o b ->
  closed_obj (h_insert fx h o pkg tags) b /\ sep (h_insert fx h o pkg tags) o b.
Proof.
  intros C Cb Sp. destruct (h_insert_frame_refs fx h o pkg tags b C Cb Sp) as [E1 E2].
  pose proof (h_insert_facts fx h o pkg tags C) as F.
  pose proof (h_insert_closed fx h o pkg tags C) as C'.
  set (h' := h_insert fx h o pkg tags) in *.
  assert (Rb : obj_refs h' b = obj_refs h b).
  { unfold obj_refs, dict_refs. now rewrite E1, E2. }
  pose proof (if_sets _ _ _ _ _ _ F) as Hlt.
  split.
  - destruct Cb as [B1 B2 B3 B4 B5]. constructor; try assumption.
    + now rewrite (if_dicts _ _ _ _ _ _ F).
    + now rewrite (if_dicts _ _ _ _ _ _ F).
    + intros r. rewrite Rb. intros Hr. specialize (B4 r Hr). lia.
    + now rewrite Rb.
  - destruct Sp as [S1 S2 S3 S4 S5]. constructor; try assumption.
    intros r Ho. rewrite Rb. intros Hb.
    assert (Hr : r < nsets h) by now apply (co_refs _ _ Cb).
    apply in_app_iff in Ho. destruct Ho as [Ho|Ho].
    + unfold dict_refs in Ho. rewrite (if_db _ _ _ _ _ _ F) in Ho.
      apply dict_refs_dict_set in Ho. destruct Ho as [->|Ho]; [lia|].
      apply (S5 r); [apply in_app_iff; now left|assumption].
    + destruct (if_rdb_refs _ _ _ _ _ _ F r Ho) as [H|H]; [|lia].
      apply (S5 r); [apply in_app_iff; now right|assumption].
Qed.

(** an object sharing nothing but possibly set objects keeps its references *)
Lemma h_insert_other_dicts fx h o pkg tags b :
  closed_obj h o -> fst b <> fst o -> fst b <> snd o -> snd b <> fst o -> snd b <> snd o ->
  obj_refs (h_insert fx h o pkg tags) b = obj_refs h b.
Proof.
  intros C H1 H2 H3 H4. pose proof (h_insert_facts fx h o pkg tags C) as F.
  unfold obj_refs, dict_refs. now rewrite !(if_dict_frame _ _ _ _ _ _ F) by assumption.
Qed.
