(** C20 — tie by regeneration, part 1: the module-level functions of lib/debian/debtags.py as regenerated
    into Gen/TrDebtags.v equal the model functions of Debtags/Model.v on ALL inputs. *)
From Coq Require Import Permutation.
From Verif Require Import Lib.Base Lib.PyStr Lib.Tr Debtags.StrSet Debtags.Model
  Debtags.SetProofs Debtags.DictProofs Debtags.Proofs Debtags.TrPrims Gen.TrDebtags.

(** * parse_tags *)

Definition parse_rec (line : str) : list (sset * sset) :=
  match parse_line line with
  | None => []
  | Some (g1, g2) =>
      [(set_of_list (split_cs g1),
        match g2 with
        | Some (c :: b) => set_of_list (split_cs (c :: b))
        | _ => []
        end)]
  end.

Lemma parse_tags_cons line lines : parse_tags (line :: lines) = parse_rec line ++ parse_tags lines.
Proof. reflexivity. Qed.

Lemma tie_parse_tags_loop it : forall inp out r,
  tr_parse_tags_loop1 it inp out r = Ok (out ++ parse_tags it).
Proof.
  induction it as [|line it IH]; intros inp out r; cbn [tr_parse_tags_loop1].
  - now rewrite app_nil_r.
  - rewrite parse_tags_cons. unfold parse_rec, trp_lre_match.
    destruct (parse_line line) as [[g1 g2]|]; [|now rewrite IH].
    unfold trp_lm_group2, trp_lm_group1, trp_set_of_list, trp_split_cs, trp_set_empty. cbn [fst snd].
    destruct g2 as [[|c b]|]; cbn [tr_opt_nonempty tr_unwrap bind]; rewrite IH, <- app_assoc; reflexivity.
Qed.

Theorem tie_parse_tags lines : tr_parse_tags lines = Ok (parse_tags lines).
Proof. unfold tr_parse_tags. now rewrite tie_parse_tags_loop. Qed.

(** * read_tag_database *)

Lemma tie_read_loop2 it kx : forall inp db pkgs tags,
  tr_read_tag_database_loop2 it kx inp db pkgs tags
  = kx inp (fold_left (fun d p => dict_set p tags d) it db) pkgs tags.
Proof.
  induction it as [|p it IH]; intros inp db pkgs tags; cbn [tr_read_tag_database_loop2 fold_left]; [reflexivity|].
  unfold trp_vd_setitem, trp_set_copy. now rewrite IH.
Qed.

Lemma tie_read_loop1 it : forall inp db,
  tr_read_tag_database_loop1 it inp db
  = Ok (fold_left (fun d pt => fold_left (fun d p => dict_set p (snd pt) d) (fst pt) d) it db).
Proof.
  induction it as [|[pkgs tags] it IH]; intros inp db; cbn [tr_read_tag_database_loop1 fold_left]; [reflexivity|].
  rewrite tie_read_loop2. unfold trp_set_iter. now rewrite IH.
Qed.

Theorem tie_read_tag_database lines : tr_read_tag_database lines = Ok (read_db lines).
Proof.
  unfold tr_read_tag_database. rewrite tie_parse_tags. cbn [bind]. now rewrite tie_read_loop1.
Qed.

(** * read_tag_database_reversed *)

Lemma tie_readr_loop2 it kx : forall inp db pkgs tags,
  tr_read_tag_database_reversed_loop2 it kx inp db pkgs tags
  = kx inp (fold_left (rdb_join pkgs) it db) pkgs tags.
Proof.
  induction it as [|t it IH]; intros inp db pkgs tags;
    cbn [tr_read_tag_database_reversed_loop2 fold_left]; [reflexivity|].
  unfold trp_vd_contains, dict_mem, trp_vd_ior, trp_vd_setitem, trp_set_copy, rdb_join.
  destruct (lookup t db); cbn [bind]; now rewrite IH.
Qed.

Lemma tie_readr_loop1 it : forall inp db,
  tr_read_tag_database_reversed_loop1 it inp db
  = Ok (fold_left (fun d pt => fold_left (rdb_join (fst pt)) (snd pt) d) it db).
Proof.
  induction it as [|[pkgs tags] it IH]; intros inp db;
    cbn [tr_read_tag_database_reversed_loop1 fold_left]; [reflexivity|].
  rewrite tie_readr_loop2. unfold trp_set_iter. now rewrite IH.
Qed.

Theorem tie_read_tag_database_reversed lines :
  tr_read_tag_database_reversed lines = Ok (read_db_reversed lines).
Proof.
  unfold tr_read_tag_database_reversed. rewrite tie_parse_tags. cbn [bind]. now rewrite tie_readr_loop1.
Qed.

(** * read_tag_database_both_ways *)

Lemma tie_both_loop2 it kx : forall inp tf db dbr pkgs tags,
  tr_read_tag_database_both_ways_loop2 it kx inp tf db dbr pkgs tags
  = kx inp tf (fold_left (fun d p => dict_set p tags d) it db) dbr pkgs tags.
Proof.
  induction it as [|p it IH]; intros inp tf db dbr pkgs tags;
    cbn [tr_read_tag_database_both_ways_loop2 fold_left]; [reflexivity|].
  unfold trp_vd_setitem, trp_set_copy. now rewrite IH.
Qed.

Lemma tie_both_loop3 it kx : forall inp tf db dbr pkgs tags,
  tr_read_tag_database_both_ways_loop3 it kx inp tf db dbr pkgs tags
  = kx inp tf db (fold_left (rdb_join pkgs) it dbr) pkgs tags.
Proof.
  induction it as [|t it IH]; intros inp tf db dbr pkgs tags;
    cbn [tr_read_tag_database_both_ways_loop3 fold_left]; [reflexivity|].
  unfold trp_vd_contains, dict_mem, trp_vd_ior, trp_vd_setitem, trp_set_copy, rdb_join.
  destruct (lookup t dbr); cbn [bind]; now rewrite IH.
Qed.

(** [set(filter(tag_filter, tags))] is the model's [filter f tags] because [tags] — a set made by parse_tags — is
    canonical *)
Lemma tie_both_loop1 it : forall inp tf db dbr,
  (forall r, In r it -> sorted (snd r)) ->
  tr_read_tag_database_both_ways_loop1 it inp tf db dbr
  = Ok (fold_left (read_step tf) it (db, dbr)).
Proof.
  induction it as [|[pkgs tags] it IH]; intros inp tf db dbr Hs;
    cbn [tr_read_tag_database_both_ways_loop1 fold_left]; [reflexivity|].
  assert (Hs' : forall r, In r it -> sorted (snd r)) by (intros r Hr; apply Hs; now right).
  assert (Ht : sorted tags) by (apply (Hs (pkgs, tags)); now left).
  destruct tf as [f|]; rewrite tie_both_loop2, tie_both_loop3, IH by assumption;
    unfold read_step, trp_set_iter, trp_set_of_set, trp_set_of_list, trp_filter; cbn [fst snd]; [|reflexivity].
  rewrite set_of_list_sorted_id by now apply filter_sorted. reflexivity.
Qed.

Theorem tie_read_tag_database_both_ways lines tf :
  tr_read_tag_database_both_ways lines tf = Ok (read_both tf lines).
Proof.
  unfold tr_read_tag_database_both_ways. rewrite tie_parse_tags. cbn [bind].
  rewrite tie_both_loop1; [reflexivity|]. intros r Hr. now apply (parse_tags_wf lines r).
Qed.

(** * reverse *)

Lemma dict_set_twice {V} k (v v' : V) d : dict_set k v (dict_set k v' d) = dict_set k v d.
Proof.
  induction d as [|[k0 v0] d IH]; simpl.
  - now rewrite str_eqb_refl.
  - destruct (str_eqb k k0) eqn:E; simpl; rewrite ?str_eqb_refl, ?E; [reflexivity|]. now rewrite IH.
Qed.

Lemma tie_reverse_loop2 it kx : forall db res pkg tags,
  tr_reverse_loop2 it kx db res pkg tags = kx db (fold_left (rev_add pkg) it res) pkg tags.
Proof.
  induction it as [|t it IH]; intros db res pkg tags; cbn [tr_reverse_loop2 fold_left]; [reflexivity|].
  unfold trp_vd_contains, dict_mem, trp_vd_item_add, trp_vd_setitem, trp_set_empty, rev_add, get.
  destruct (lookup t res) as [s|] eqn:L; cbn [negb].
  - cbn [bind]. now rewrite IH.
  - rewrite lookup_dict_set, str_eqb_refl. cbn [bind]. rewrite dict_set_twice. now rewrite IH.
Qed.

Lemma tie_reverse_loop1 it : forall db res,
  tr_reverse_loop1 it db res
  = Ok (fold_left (fun res kv => fold_left (rev_add (fst kv)) (snd kv) res) it res).
Proof.
  induction it as [|[pkg tags] it IH]; intros db res; cbn [tr_reverse_loop1 fold_left]; [reflexivity|].
  rewrite tie_reverse_loop2. unfold trp_set_iter. now rewrite IH.
Qed.

Theorem tie_reverse (d : dict) : tr_reverse d = Ok (reverse_d d).
Proof. unfold tr_reverse, trp_vd_items, trp_vd_empty. now rewrite tie_reverse_loop1. Qed.

(** * output (no model function: the text a collection is printed as, for the canonical order of each set) *)

Definition output_line (kv : str * sset) : str := fst kv ++ [COLON] ++ [SP] ++ join [COMMA; SP] (snd kv) ++ [LF].
Definition output_text (d : dict) : str := concat (map output_line d).

Lemma tie_output_loop it : forall db out,
  tr_output_loop1 it db out = MOk tt (out ++ concat (map output_line it)).
Proof.
  induction it as [|[pkg tags] it IH]; intros db out; cbn [tr_output_loop1 map concat].
  - now rewrite app_nil_r.
  - unfold trp_print2, trp_join_cs. rewrite IH. unfold output_line. cbn [fst snd].
    f_equal. rewrite <- !app_assoc. reflexivity.
Qed.

Theorem tie_output out (d : dict) : tr_output out d = MOk tt (out ++ output_text d).
Proof. unfold tr_output, trp_vd_items. apply tie_output_loop. Qed.

(** * Order independence of the loops over sets

    Python does not specify the order in which a set is iterated; the regenerated loops run over the model's
    canonical order ([trp_set_iter]).  For the loop bodies below the dict that a loop builds is THE SAME FINITE MAP
    whatever the order ([same_map]: every key has the same value; only the insertion order of the keys that the
    loop adds follows the iteration order). *)

Definition same_map {V} (d d' : list (str * V)) : Prop := forall k, lookup k d = lookup k d'.

Section FoldPerm.
Context {V A : Type} (f : list (str * V) -> A -> list (str * V)).
Hypothesis f_congr : forall d d' a, same_map d d' -> same_map (f d a) (f d' a).
Hypothesis f_comm : forall d a b, same_map (f (f d a) b) (f (f d b) a).

Lemma fold_same_map l : forall d d', same_map d d' -> same_map (fold_left f l d) (fold_left f l d').
Proof. induction l as [|a l IH]; intros d d' H; simpl; [exact H|]. apply IH. now apply f_congr. Qed.

Lemma fold_perm_same_map l l' :
  Permutation l l' -> forall d d', same_map d d' -> same_map (fold_left f l d) (fold_left f l' d').
Proof.
  induction 1 as [|x l l' _ IH|x y l|l l' l'' _ IH1 _ IH2]; intros d d' H.
  - exact H.
  - simpl. apply IH. now apply f_congr.
  - simpl. apply fold_same_map. intros k. rewrite (f_comm d y x k). now apply f_congr, f_congr.
  - intros k. rewrite (IH1 d d' H k). apply IH2. intros k'. reflexivity.
Qed.
End FoldPerm.

(** [for p in pkgs: db[p] = tags.copy()] (read_tag_database, read_tag_database_both_ways) *)
Theorem order_indep_set_all (tags : sset) l l' (d : dict) :
  Permutation l l' ->
  same_map (fold_left (fun d p => dict_set p tags d) l d) (fold_left (fun d p => dict_set p tags d) l' d).
Proof.
  intros P. apply (fold_perm_same_map (fun d p => dict_set p tags d)); [| |exact P|intros k; reflexivity].
  - intros a b p H k. rewrite !lookup_dict_set. now rewrite H.
  - intros a p q k. rewrite !lookup_dict_set.
    destruct (str_eqb k q), (str_eqb k p); reflexivity.
Qed.

Lemma lookup_rdb_join ps (d : dict) t k :
  lookup k (rdb_join ps d t)
  = if str_eqb k t then Some (match lookup t d with Some s => set_union ps s | None => ps end) else lookup k d.
Proof. unfold rdb_join. destruct (lookup t d); now rewrite lookup_dict_set. Qed.

(** [for tag in tags: if tag in dbr: dbr[tag] |= pkgs else: dbr[tag] = pkgs.copy()] *)
Theorem order_indep_rdb_join (pkgs : sset) l l' (d : dict) :
  Permutation l l' -> same_map (fold_left (rdb_join pkgs) l d) (fold_left (rdb_join pkgs) l' d).
Proof.
  intros P. apply (fold_perm_same_map (rdb_join pkgs)); [| |exact P|intros k; reflexivity].
  - intros a b t H k. rewrite !lookup_rdb_join. now rewrite (H t), (H k).
  - intros a p q k. rewrite !lookup_rdb_join.
    destruct (str_eqb k q) eqn:Eq, (str_eqb k p) eqn:Ep; try reflexivity.
    + apply str_eqb_eq in Eq, Ep. subst. reflexivity.
    + apply str_eqb_eq in Eq. subst q. now rewrite Ep.
    + apply str_eqb_eq in Ep. subst p. now rewrite Eq.
Qed.

Lemma lookup_rev_add pkg (res : dict) t k :
  lookup k (rev_add pkg res t) = if str_eqb k t then Some (set_add pkg (get res t)) else lookup k res.
Proof. unfold rev_add. now rewrite lookup_dict_set. Qed.

(** [for tag in tags: if tag not in res: res[tag] = set() ; res[tag].add(pkg)] (reverse) *)
Theorem order_indep_rev_add pkg l l' (res : dict) :
  Permutation l l' -> same_map (fold_left (rev_add pkg) l res) (fold_left (rev_add pkg) l' res).
Proof.
  intros P. apply (fold_perm_same_map (rev_add pkg)); [| |exact P|intros k; reflexivity].
  - intros a b t H k. rewrite !lookup_rev_add. unfold get. now rewrite (H t), (H k).
  - intros a p q k. rewrite !lookup_rev_add. unfold get. rewrite !lookup_rev_add.
    destruct (str_eqb k q) eqn:Eq, (str_eqb k p) eqn:Ep; try reflexivity.
    + apply str_eqb_eq in Eq, Ep. subst. reflexivity.
    + apply str_eqb_eq in Eq. subst q. now rewrite Ep.
    + apply str_eqb_eq in Ep. subst p. now rewrite Eq.
Qed.

Lemma lookup_ins_rdb fx pkg (rdb : dict) t k :
  lookup k (ins_rdb fx pkg rdb t)
  = if str_eqb k t
    then Some (match lookup t rdb with Some s => set_add pkg s | None => if fx then [pkg] else chars_of pkg end)
    else lookup k rdb.
Proof. unfold ins_rdb. destruct (lookup t rdb); now rewrite lookup_dict_set. Qed.

(** [for tag in tags: if tag in self.rdb: self.rdb[tag].add(pkg) else: self.rdb[tag] = set((pkg))] (DB.insert), on
    the value of the index ([view]: Props/C20.v, C20_heap_insert_is_linear_insert) *)
Theorem order_indep_ins_rdb fx pkg l l' (rdb : dict) :
  Permutation l l' -> same_map (fold_left (ins_rdb fx pkg) l rdb) (fold_left (ins_rdb fx pkg) l' rdb).
Proof.
  intros P. apply (fold_perm_same_map (ins_rdb fx pkg)); [| |exact P|intros k; reflexivity].
  - intros a b t H k. rewrite !lookup_ins_rdb. now rewrite (H t), (H k).
  - intros a p q k. rewrite !lookup_ins_rdb.
    destruct (str_eqb k q) eqn:Eq, (str_eqb k p) eqn:Ep; try reflexivity.
    + apply str_eqb_eq in Eq, Ep. subst. reflexivity.
    + apply str_eqb_eq in Eq. subst q. now rewrite Ep.
    + apply str_eqb_eq in Ep. subst p. now rewrite Eq.
Qed.

(** a set built from the elements produced by a loop over a set ([{f(t) for t in tags}], [set(filter(f, tags))])
    does not depend on the order in which they are produced *)
Theorem order_indep_set_of_list l l' : Permutation l l' -> set_of_list l = set_of_list l'.
Proof.
  intros P. apply sorted_ext; try apply set_of_list_sorted.
  intros x. rewrite !set_of_list_in. split; intros H.
  - now apply (Permutation_in x P).
  - now apply (Permutation_in x (Permutation_sym P)).
Qed.
