(** HEAP layer, part 6: the theorems about whole histories of operations on
    several live objects — the function [hstep] that the correspondence check
    runs, against the multi-object Spec [spec_step]. *)
From Verif Require Import Lib.Base Lib.PyStr Debtags.StrSet Debtags.Model Debtags.Spec
  Debtags.SetProofs Debtags.DictProofs Debtags.Proofs
  Debtags.HeapBase Debtags.HeapInsert Debtags.HeapDerive Debtags.HeapWf Debtags.HeapSim.

(** the Spec state after a history, following the exceptions of the model *)
Fixpoint srun (fx : bool) (st : hstate) (ss : sstate) (ops : list hop) : sstate :=
  match ops with
  | [] => ss
  | op :: rest =>
      let r := hstep fx st op in
      srun fx (hstate_of r) (spec_step ss (sop_of_hop op (herr_of r))) rest
  end.

Fixpoint hops_dom (fx : bool) (st : hstate) (ops : list hop) : bool :=
  match ops with
  | [] => true
  | op :: rest => hop_dom st op && hops_dom fx (hstate_of (hstep fx st op)) rest
  end.

(** no step executes K1's trigger (the third component of [hstep false]) *)
Fixpoint hk1_free (st : hstate) (ops : list hop) : bool :=
  match ops with
  | [] => true
  | op :: rest => negb (snd (hstep false st op)) && hk1_free (hstate_of (hstep false st op)) rest
  end.

Theorem hrun_sim ops : forall st ss,
  sim st ss -> hops_dom true st ops = true -> sim (hrun true st ops) (srun true st ss ops).
Proof.
  induction ops as [|op ops IH]; intros st ss S Hd; simpl; [assumption|].
  simpl in Hd. apply andb_true_iff in Hd. destruct Hd as [Hd1 Hd2].
  apply IH; [now apply hstep_sim|assumption].
Qed.

(** * The code as written coincides with the repair off K1's trigger *)

Lemma h_ins_rdb_known fx pkg rd h t :
  dict_mem t (get_dict h rd) = true -> h_ins_rdb fx pkg rd h t = h_ins_rdb true pkg rd h t.
Proof.
  unfold dict_mem. intros H. destruct (lookup t (get_dict h rd)) as [sr|] eqn:L; [|discriminate].
  now rewrite !(h_ins_rdb_some _ _ _ _ _ _ L).
Qed.

Lemma h_ins_rdb_mem fx pkg rd h t t' :
  dict_mem t' (get_dict h rd) = true -> dict_mem t' (get_dict (h_ins_rdb fx pkg rd h t) rd) = true.
Proof.
  intros H. destruct (lookup t (get_dict h rd)) as [sr|] eqn:L.
  - rewrite (h_ins_rdb_some _ _ _ _ _ _ L). now rewrite get_dict_put_set.
  - rewrite (h_ins_rdb_none _ _ _ _ _ L).
    destruct (Nat.lt_ge_cases rd (ndicts h)) as [Hlt|Hge].
    + rewrite get_dict_put_dict_eq by (now rewrite ndicts_alloc_set).
      apply dict_mem_iff, keys_dict_set. right. now apply dict_mem_iff.
    + exfalso. unfold get_dict in H. rewrite nth_overflow in H by exact Hge. discriminate.
Qed.

Lemma h_ins_fold_known pkg rd tags : forall h,
  forallb (fun t => dict_mem t (get_dict h rd)) tags = true ->
  fold_left (h_ins_rdb false pkg rd) tags h = fold_left (h_ins_rdb true pkg rd) tags h.
Proof.
  induction tags as [|t tags IH]; intros h H; simpl; [reflexivity|].
  simpl in H. apply andb_true_iff in H. destruct H as [H1 H2].
  rewrite (h_ins_rdb_known false pkg rd h t H1). apply IH.
  rewrite forallb_forall in *. intros t' Ht'. apply h_ins_rdb_mem. now apply H2.
Qed.

Lemma h_ins_rdb_single pkg rd h t :
  (length pkg =? 1)%nat = true -> h_ins_rdb false pkg rd h t = h_ins_rdb true pkg rd h t.
Proof. intros H. unfold h_ins_rdb. now rewrite (chars_of_single pkg H). Qed.

Theorem h_insert_faithful_eq_repaired h o pkg tags :
  closed_obj h o -> h_ins_trigger h o pkg tags = false ->
  h_insert false h o pkg tags = h_insert true h o pkg tags.
Proof.
  intros C H. rewrite !h_insert_unfold. unfold h_ins_trigger in H.
  apply andb_false_iff in H. destruct H as [H|H].
  - apply negb_false_iff in H. apply fold_left_ext. intros h' t. now apply h_ins_rdb_single.
  - apply h_ins_fold_known. rewrite forallb_forall. intros t Ht.
    rewrite get_dict_put_dict_neq by apply (co_ne _ _ C). rewrite get_dict_alloc_set.
    destruct (dict_mem t (get_dict h (snd o))) eqn:E; [reflexivity|]. exfalso.
    assert (X : existsb (fun t => negb (dict_mem t (get_dict h (snd o)))) tags = true).
    { apply existsb_exists. exists t. split; [assumption|]. now rewrite E. }
    congruence.
Qed.

Lemma h_facet_err fx order : forall h src fc,
  (exists p, In p order /\ lookup p src = None) -> h_facet fx h src fc order = Err OtherError.
Proof.
  induction order as [|p order IH]; intros h src fc [q [Hq Lq]]; [destruct Hq|]. simpl.
  destruct (lookup p src) as [r|] eqn:L; [|reflexivity].
  destruct Hq as [->|Hq]; [congruence|].
  rewrite IH; [reflexivity|]. now exists q.
Qed.

Lemma h_facet_faithful_eq_repaired order : forall h src fc r,
  closed_obj h fc -> h_facet false h src fc order = r ->
  match r with Ok (_, true) => True | _ => h_facet true h src fc order = r end.
Proof.
  induction order as [|p order IH]; intros h src fc r C H; simpl in *.
  - now subst r.
  - destruct (lookup p src) as [x|] eqn:L; [|now subst r].
    set (ft := facet_tags (get_set h x)) in *.
    destruct (h_ins_trigger h fc p ft) eqn:T.
    + destruct (h_facet false (h_insert false h fc p ft) src fc order) as [[h' t']|e] eqn:E.
      * now subst r.
      * subst r.
        assert (Herr : exists q, In q order /\ lookup q src = None).
        { destruct (forallb (fun q => dict_mem q src) order) eqn:F.
          - rewrite forallb_forall in F.
            destruct (h_facet_ok false order (h_insert false h fc p ft) src fc F) as [h' [tr E']].
            congruence.
          - assert (X : exists q, In q order /\ dict_mem q src = false).
            { clear -F. induction order as [|q order IH]; simpl in F; [discriminate|].
              apply andb_false_iff in F. destruct F as [F|F].
              - exists q. split; [now left|assumption].
              - destruct (IH F) as [q' [H1 H2]]. exists q'. split; [now right|assumption]. }
            destruct X as [q [H1 H2]]. exists q. split; [assumption|].
            unfold dict_mem in H2. now destruct (lookup q src). }
        rewrite (h_facet_err false order _ src fc Herr) in E. inversion E; subst e.
        now rewrite (h_facet_err true order _ src fc Herr).
    + rewrite <- (h_insert_faithful_eq_repaired h fc p ft C T).
      pose proof (h_insert_closed false h fc p ft C) as C1.
      specialize (IH (h_insert false h fc p ft) src fc _ C1 eq_refl).
      destruct (h_facet false (h_insert false h fc p ft) src fc order) as [[h' t']|e] eqn:E.
      * subst r. simpl. destruct t'; [exact I|]. now rewrite IH.
      * subst r. now rewrite IH.
Qed.

Theorem hstep_faithful_eq_repaired st op :
  hwf st -> snd (hstep false st op) = false -> hstep false st op = hstep true st op.
Proof.
  intros W H.
  destruct op as [|o lines tf|o pkg tags|o|o|o|o l|o l|o f|o f|o g|o g|o f|o f|o order];
    try reflexivity.
  - destruct (nth_error (st_objs st) o) as [ob|] eqn:Ho;
      [|now rewrite !hstep_no_obj by (simpl; congruence)].
    rewrite (hstep_insert false st o pkg tags ob Ho) in *. rewrite (hstep_insert true st o pkg tags ob Ho).
    simpl in H. rewrite H.
    now rewrite (h_insert_faithful_eq_repaired _ _ _ _ (hw_closed _ W o ob Ho) H).
  - destruct (nth_error (st_objs st) o) as [ob|] eqn:Ho;
      [|now rewrite !hstep_no_obj by (simpl; congruence)].
    rewrite (hstep_facet false st o order ob Ho) in *. rewrite (hstep_facet true st o order ob Ho).
    pose proof (h_new_facts (st_heap st)) as T.
    destruct (h_new (st_heap st)) as [h1 fc] eqn:En. cbn [fst snd] in T. destruct T as [[_ Cf _ _ _] _].
    pose proof (h_facet_faithful_eq_repaired order h1 (get_dict (st_heap st) (fst ob)) fc _ Cf eq_refl) as F.
    destruct (h_facet false h1 (get_dict (st_heap st) (fst ob)) fc order) as [[h2 tr]|e] eqn:E.
    + simpl in H. subst tr. now rewrite F.
    + now rewrite F.
Qed.

Theorem hrun_faithful_eq_repaired ops : forall st,
  hwf st -> hk1_free st ops = true -> hrun false st ops = hrun true st ops.
Proof.
  induction ops as [|op ops IH]; intros st W H; simpl; [reflexivity|].
  simpl in H. apply andb_true_iff in H. destruct H as [H1 H2]. apply negb_true_iff in H1.
  rewrite (IH _ (hstep_hwf false st op W) H2).
  now rewrite (hstep_faithful_eq_repaired st op W H1).
Qed.

Lemma srun_faithful_eq_repaired ops : forall st ss,
  hwf st -> hk1_free st ops = true -> srun false st ss ops = srun true st ss ops.
Proof.
  induction ops as [|op ops IH]; intros st ss W H; simpl; [reflexivity|].
  simpl in H. apply andb_true_iff in H. destruct H as [H1 H2]. apply negb_true_iff in H1.
  rewrite (IH _ _ (hstep_hwf false st op W) H2).
  now rewrite (hstep_faithful_eq_repaired st op W H1).
Qed.

Lemma hops_dom_faithful_eq_repaired ops : forall st,
  hwf st -> hk1_free st ops = true -> hops_dom false st ops = hops_dom true st ops.
Proof.
  induction ops as [|op ops IH]; intros st W H; simpl; [reflexivity|].
  simpl in H. apply andb_true_iff in H. destruct H as [H1 H2]. apply negb_true_iff in H1.
  rewrite (IH _ (hstep_hwf false st op W) H2).
  now rewrite (hstep_faithful_eq_repaired st op W H1).
Qed.

(** * inverse_invariant and queries, for every live object the Spec specifies *)

Definition obj_ok (st : hstate) (ss : sstate) (i : nat) : Prop :=
  forall ob so,
    nth_error (st_objs st) i = Some ob -> nth_error (ss_objs ss) i = Some so -> so_valid so = true ->
    Inv (view (st_heap st) ob) /\ queries_agree (view (st_heap st) ob) (so_rel so).

Theorem heap_inverse_invariant_repaired ops i :
  hops_dom true empty_state ops = true ->
  obj_ok (hrun true empty_state ops) (srun true empty_state s_init ops) i.
Proof.
  intros Hd ob so Ho Hso Hv.
  pose proof (hrun_sim ops empty_state s_init sim_empty Hd) as S.
  pose proof (sm_repr _ _ S i ob so Ho Hso Hv) as R.
  split; [now apply (repr_Inv _ _ R)|now apply repr_queries].
Qed.

Theorem heap_inverse_invariant_faithful ops i :
  hops_dom false empty_state ops = true -> hk1_free empty_state ops = true ->
  obj_ok (hrun false empty_state ops) (srun false empty_state s_init ops) i.
Proof.
  intros Hd Hk.
  rewrite (hrun_faithful_eq_repaired ops _ hwf_empty Hk), (srun_faithful_eq_repaired ops _ _ hwf_empty Hk).
  rewrite (hops_dom_faithful_eq_repaired ops _ hwf_empty Hk) in Hd.
  now apply heap_inverse_invariant_repaired.
Qed.

(** * copy_independent *)

Definition ins_list := list (str * list str).
Definition lin_inserts (fx : bool) (c : coll) (l : ins_list) : coll :=
  fold_left (fun c x => insert fx c (fst x) (set_of_list (snd x))) l c.

(** inserts, each into the original ([false]) or into the copy ([true]) *)
Definition mixed := list (bool * (str * list str)).
Definition to_hops (o o' : nat) (l : mixed) : list hop :=
  map (fun x : bool * (str * list str) => HInsert (if fst x then o' else o) (fst (snd x)) (snd (snd x))) l.
Definition pick (b : bool) (l : mixed) : ins_list :=
  map snd (filter (fun x : bool * (str * list str) => Bool.eqb (fst x) b) l).

Lemma hstep_copy fx st o ob :
  nth_error (st_objs st) o = Some ob ->
  hstep fx st (HCopy o) =
  (let (h1, d1) := alloc_vdict (st_heap st) (deref (st_heap st) (get_dict (st_heap st) (fst ob))) in
   let (h2, d2) := alloc_vdict h1 (deref (st_heap st) (get_dict (st_heap st) (snd ob))) in
   (new_obj st (h2, (d1, d2)), None, false)).
Proof. intros Ho. unfold hstep. cbn [hop_obj]. rewrite Ho. reflexivity. Qed.

Lemma hrun_cons fx st op ops : hrun fx st (op :: ops) = hrun fx (hstate_of (hstep fx st op)) ops.
Proof. reflexivity. Qed.

Lemma to_hops_cons o o' (f : bool) pkg tags l :
  to_hops o o' ((f, (pkg, tags)) :: l) = HInsert (if f then o' else o) pkg tags :: to_hops o o' l.
Proof. reflexivity. Qed.

Lemma mixed_inserts fx o o' a b (l : mixed) : forall h objs,
  o <> o' -> nth_error objs o = Some a -> nth_error objs o' = Some b ->
  closed_obj h a -> closed_obj h b -> sep h a b ->
  let st' := hrun fx (mkS h objs) (to_hops o o' l) in
  st_objs st' = objs
  /\ view (st_heap st') a = lin_inserts fx (view h a) (pick false l)
  /\ view (st_heap st') b = lin_inserts fx (view h b) (pick true l).
Proof.
  induction l as [|[[|] [pkg tags]] l IH]; intros h objs Hne Ha Hb Ca Cb Sab; cbv zeta.
  - simpl. repeat split.
  - rewrite to_hops_cons, hrun_cons. unfold hstate_of at 1 2 3.
    rewrite (hstep_insert fx (mkS h objs) o' pkg tags b Hb). cbn [fst snd st_heap st_objs].
    change (pick false ((true, (pkg, tags)) :: l)) with (pick false l).
    change (pick true ((true, (pkg, tags)) :: l)) with ((pkg, tags) :: pick true l).
    cbn [lin_inserts fold_left fst snd]. fold (lin_inserts fx).
    set (h' := h_insert fx h b pkg (set_of_list tags)).
    destruct (h_insert_frame_closed fx h b pkg (set_of_list tags) a Cb Ca (sep_sym _ _ _ Sab)) as [Ca' Sba'].
    pose proof (h_insert_closed fx h b pkg (set_of_list tags) Cb) as Cb'.
    destruct (IH h' objs Hne Ha Hb Ca' Cb' (sep_sym _ _ _ Sba')) as [I1 [I2 I3]].
    split; [exact I1|]. split.
    + rewrite I2. unfold h'. now rewrite (h_insert_frame fx h b pkg (set_of_list tags) a Cb Ca (sep_sym _ _ _ Sab)).
    + rewrite I3. unfold h'. now rewrite (h_insert_view fx h b pkg (set_of_list tags) Cb).
  - rewrite to_hops_cons, hrun_cons. unfold hstate_of at 1 2 3.
    rewrite (hstep_insert fx (mkS h objs) o pkg tags a Ha). cbn [fst snd st_heap st_objs].
    change (pick true ((false, (pkg, tags)) :: l)) with (pick true l).
    change (pick false ((false, (pkg, tags)) :: l)) with ((pkg, tags) :: pick false l).
    cbn [lin_inserts fold_left fst snd]. fold (lin_inserts fx).
    set (h' := h_insert fx h a pkg (set_of_list tags)).
    destruct (h_insert_frame_closed fx h a pkg (set_of_list tags) b Ca Cb Sab) as [Cb' Sab'].
    pose proof (h_insert_closed fx h a pkg (set_of_list tags) Ca) as Ca'.
    destruct (IH h' objs Hne Ha Hb Ca' Cb' Sab') as [I1 [I2 I3]].
    split; [exact I1|]. split.
    + rewrite I2. unfold h'. now rewrite (h_insert_view fx h a pkg (set_of_list tags) Ca).
    + rewrite I3. unfold h'. now rewrite (h_insert_frame fx h a pkg (set_of_list tags) b Ca Cb Sab).
Qed.

(** In any reachable state: after [c' = c.copy()], ANY interleaving of inserts
    into [c] and into [c'] leaves each of the two looking exactly as if the
    inserts into the other had never happened. *)
Theorem copy_independent fx ops o ob (l : mixed) :
  let st := hrun fx empty_state ops in
  nth_error (st_objs st) o = Some ob ->
  let st1 := hstate_of (hstep fx st (HCopy o)) in
  let o' := length (st_objs st) in
  exists ob',
    nth_error (st_objs st1) o' = Some ob'
    /\ nth_error (st_objs st1) o = Some ob
    /\ view (st_heap st1) ob' = view (st_heap st) ob
    /\ let st2 := hrun fx st1 (to_hops o o' l) in
       st_objs st2 = st_objs st1
       /\ view (st_heap st2) ob = lin_inserts fx (view (st_heap st) ob) (pick false l)
       /\ view (st_heap st2) ob' = lin_inserts fx (view (st_heap st) ob) (pick true l).
Proof.
  intros st Ho st1 o'.
  assert (W : hwf st) by (apply hrun_hwf, hwf_empty).
  pose proof (hw_closed _ W o ob Ho) as C.
  unfold st1, hstate_of. rewrite (hstep_copy fx st o ob Ho).
  destruct (alloc_vdict _ _) as [h1 d1] eqn:A1. destruct (alloc_vdict h1 _) as [h2 d2] eqn:A2.
  destruct (two_vdicts' _ _ _ _ _ _ _ A1 A2) as [D V]. cbn [fst snd].
  exists (d1, d2).
  assert (Ho' : nth_error (st_objs (new_obj st (h2, (d1, d2)))) o' = Some (d1, d2)).
  { unfold new_obj. simpl. unfold o'. rewrite nth_error_app2 by lia. now rewrite Nat.sub_diag. }
  assert (Ho1 : nth_error (st_objs (new_obj st (h2, (d1, d2)))) o = Some ob).
  { unfold new_obj. simpl. rewrite nth_error_app1; [assumption|]. apply nth_error_Some. congruence. }
  assert (Hlt : o < o') by (unfold o'; apply nth_error_Some; congruence).
  pose proof (df_ext _ _ _ _ D) as E.
  assert (V' : view h2 (d1, d2) = view (st_heap st) ob) by (rewrite V; reflexivity).
  split; [exact Ho'|]. split; [exact Ho1|]. split; [exact V'|].
  cbv zeta.
  assert (C2 : closed_obj h2 ob) by now apply (ext_closed _ _ _ E).
  assert (S2 : sep h2 ob (d1, d2)).
  { apply sep_sym. apply (derived_sep _ _ _ _ _ D C). intros r []. }
  destruct (mixed_inserts fx o o' ob (d1, d2) l h2 (st_objs st ++ [(d1, d2)])) as [I1 [I2 I3]];
    try assumption; try lia.
  - apply (df_closed _ _ _ _ D).
  - unfold new_obj. cbn [fst snd]. split; [exact I1|]. split.
    + etransitivity; [exact I2|]. now rewrite (ext_view _ _ _ E C).
    + etransitivity; [exact I3|]. now rewrite V'.
Qed.

(** * The receiver of a heap insert changes exactly as the linear model says *)

Theorem heap_insert_is_linear fx ops o ob pkg tags :
  let st := hrun fx empty_state ops in
  nth_error (st_objs st) o = Some ob ->
  let st' := hstate_of (hstep fx st (HInsert o pkg tags)) in
  nth_error (st_objs st') o = Some ob
  /\ view (st_heap st') ob = insert fx (view (st_heap st) ob) pkg (set_of_list tags).
Proof.
  intros st Ho st'. assert (W : hwf st) by (apply hrun_hwf, hwf_empty).
  unfold st', hstate_of. rewrite (hstep_insert fx st o pkg tags ob Ho). cbn [fst snd st_objs st_heap].
  split; [assumption|]. apply h_insert_view. now apply (hw_closed _ W o).
Qed.

(** * The same for every derivation documented as returning a copy *)

Definition copying_of (op : hop) : option nat :=
  match op with
  | HCopy o | HReverseCopy o | HChooseCopy o _ | HFilterPCopy o _ | HFilterPTCopy o _
  | HFilterTCopy o _ | HFacet o _ => Some o
  | _ => None
  end.

Lemma hstep_copying_derived fx st op o ob :
  copying_of op = Some o -> nth_error (st_objs st) o = Some ob -> hwf st ->
  herr_of (hstep fx st op) = None ->
  exists h' ob', hstate_of (hstep fx st op) = new_obj st (h', ob')
                 /\ derived_from (st_heap st) h' [] ob'.
Proof.
  intros Hc Ho W He. pose proof (hw_closed _ W o ob Ho) as C.
  destruct op as [|o1 lines tf|o1 pkg tags|o1|o1|o1|o1 l|o1 l|o1 f|o1 f|o1 g|o1 g|o1 f|o1 f|o1 order];
    simpl in Hc; try discriminate; inversion Hc; subst o1; clear Hc.
  - (* copy *)
    unfold hstate_of. rewrite (hstep_copy fx st o ob Ho).
    destruct (alloc_vdict _ _) as [h1 d1] eqn:A1. destruct (alloc_vdict h1 _) as [h2 d2] eqn:A2.
    destruct (two_vdicts' _ _ _ _ _ _ _ A1 A2) as [D _]. now exists h2, (d1, d2).
  - (* reverse_copy *)
    unfold hstate_of. simpl. rewrite Ho.
    destruct (alloc_vdict _ _) as [h1 d1] eqn:A1. destruct (alloc_vdict h1 _) as [h2 d2] eqn:A2.
    destruct (two_vdicts' _ _ _ _ _ _ _ A1 A2) as [D _]. now exists h2, (d1, d2).
  - (* choose_copy *)
    unfold hstate_of, herr_of in *. simpl in *. rewrite Ho in *.
    destruct (forallb _ l); [|discriminate]. simpl.
    destruct (h_of_db_copy_facts (st_heap st) (choose_d (get_dict (st_heap st) (fst ob)) l)) as [D _].
    eexists _, _. split; [|exact D]. now rewrite <- pair_eta.
  - unfold hstate_of. simpl. rewrite Ho. simpl.
    destruct (h_of_db_copy_facts (st_heap st) (filter (fun kr => f (fst kr)) (get_dict (st_heap st) (fst ob)))) as [D _].
    eexists _, _. split; [|exact D]. now rewrite <- pair_eta.
  - unfold hstate_of. simpl. rewrite Ho. simpl.
    destruct (h_of_db_copy_facts (st_heap st)
                (filter (fun kr => g (fst kr) (get_set (st_heap st) (snd kr))) (get_dict (st_heap st) (fst ob)))) as [D _].
    eexists _, _. split; [|exact D]. now rewrite <- pair_eta.
  - unfold hstate_of. simpl. rewrite Ho. simpl.
    destruct (h_of_rdb_copy_facts (st_heap st) (filter (fun kr => f (fst kr)) (get_dict (st_heap st) (snd ob)))) as [D _].
    eexists _, _. split; [|exact D]. now rewrite <- pair_eta.
  - (* facet *)
    unfold hstate_of, herr_of in *. rewrite (hstep_facet fx st o order ob Ho) in *.
    destruct (h_new (st_heap st)) as [h1 fc] eqn:En.
    destruct (h_facet fx h1 (get_dict (st_heap st) (fst ob)) fc order) as [[h2 tr]|e] eqn:Ef; [|discriminate].
    destruct (facet_derived fx _ ob order h1 fc h2 tr C En Ef) as [D _]. now exists h2, fc.
Qed.

Theorem copying_independent fx ops op o ob (l : mixed) :
  let st := hrun fx empty_state ops in
  copying_of op = Some o -> nth_error (st_objs st) o = Some ob ->
  herr_of (hstep fx st op) = None ->
  let st1 := hstate_of (hstep fx st op) in
  let o' := length (st_objs st) in
  exists ob',
    nth_error (st_objs st1) o' = Some ob'
    /\ nth_error (st_objs st1) o = Some ob
    /\ view (st_heap st1) ob = view (st_heap st) ob
    /\ let st2 := hrun fx st1 (to_hops o o' l) in
       st_objs st2 = st_objs st1
       /\ view (st_heap st2) ob = lin_inserts fx (view (st_heap st) ob) (pick false l)
       /\ view (st_heap st2) ob' = lin_inserts fx (view (st_heap st1) ob') (pick true l).
Proof.
  intros st Hc Ho He st1 o'.
  assert (W : hwf st) by (apply hrun_hwf, hwf_empty).
  pose proof (hw_closed _ W o ob Ho) as C.
  destruct (hstep_copying_derived fx st op o ob Hc Ho W He) as [h2 [ob' [E1 D]]].
  unfold st1. rewrite E1. exists ob'.
  assert (Ho' : nth_error (st_objs (new_obj st (h2, ob'))) o' = Some ob').
  { unfold new_obj. simpl. unfold o'. rewrite nth_error_app2 by lia. now rewrite Nat.sub_diag. }
  assert (Ho1 : nth_error (st_objs (new_obj st (h2, ob'))) o = Some ob).
  { unfold new_obj. simpl. rewrite nth_error_app1; [assumption|]. apply nth_error_Some. congruence. }
  assert (Hlt : o < o') by (unfold o'; apply nth_error_Some; congruence).
  pose proof (df_ext _ _ _ _ D) as E.
  assert (Vo : view h2 ob = view (st_heap st) ob) by apply (ext_view _ _ _ E C).
  split; [exact Ho'|]. split; [exact Ho1|]. split; [exact Vo|].
  cbv zeta.
  assert (C2 : closed_obj h2 ob) by now apply (ext_closed _ _ _ E).
  assert (S2 : sep h2 ob ob').
  { apply sep_sym. apply (derived_sep _ _ _ _ _ D C). intros r []. }
  destruct (mixed_inserts fx o o' ob ob' l h2 (st_objs st ++ [ob'])) as [I1 [I2 I3]];
    try assumption; try lia.
  - apply (df_closed _ _ _ _ D).
  - unfold new_obj. cbn [fst snd]. split; [exact I1|]. split.
    + etransitivity; [exact I2|]. now rewrite Vo.
    + exact I3.
Qed.
