(** HEAP layer of Debtags/Model.v, part 1: the store primitives ([upd], [alloc_*],
    [put_*], [deref]) and the frame / effect lemmas of [h_insert]. *)
From Verif Require Import Lib.Base Lib.PyStr Debtags.StrSet Debtags.Model
  Debtags.SetProofs Debtags.DictProofs.

(** * Lists as stores *)

Lemma upd_length {A} n (v : A) : forall l, length (upd n v l) = length l.
Proof.
  induction n as [|n IH]; intros [|x l]; simpl; try reflexivity. now rewrite IH.
Qed.

Lemma nth_upd_eq {A} n (v d : A) : forall l, n < length l -> nth n (upd n v l) d = v.
Proof.
  induction n as [|n IH]; intros [|x l] H; simpl in *; try lia; [reflexivity|].
  apply IH. lia.
Qed.

Lemma nth_upd_neq {A} n m (v d : A) : forall l, n <> m -> nth m (upd n v l) d = nth m l d.
Proof.
  revert m. induction n as [|n IH]; intros m [|x l] H; simpl; try reflexivity.
  - destruct m; [congruence|reflexivity].
  - destruct m; [reflexivity|]. apply IH. congruence.
Qed.

Lemma nth_error_upd_eq {A} n (v : A) : forall l, n < length l -> nth_error (upd n v l) n = Some v.
Proof.
  induction n as [|n IH]; intros [|x l] H; simpl in *; try lia; [reflexivity|].
  apply IH. lia.
Qed.

Lemma nth_error_upd_neq {A} n m (v : A) : forall l, n <> m -> nth_error (upd n v l) m = nth_error l m.
Proof.
  revert m. induction n as [|n IH]; intros m [|x l] H; simpl; try reflexivity.
  - destruct m; [congruence|reflexivity].
  - destruct m; [reflexivity|]. simpl. apply IH. congruence.
Qed.

Lemma nth_snoc_eq {A} (l : list A) v d : nth (length l) (l ++ [v]) d = v.
Proof. rewrite app_nth2 by lia. now rewrite Nat.sub_diag. Qed.

Lemma nth_snoc_lt {A} (l : list A) v d n : n < length l -> nth n (l ++ [v]) d = nth n l d.
Proof. intros H. now apply app_nth1. Qed.

(** * Heap accessors *)

Definition nsets (h : heap) : nat := length (h_sets h).
Definition ndicts (h : heap) : nat := length (h_dicts h).
Definition dict_refs (h : heap) (d : nat) : list nat := map snd (get_dict h d).

Lemma get_set_put_set_eq h r s : r < nsets h -> get_set (put_set h r s) r = s.
Proof. intros H. unfold get_set, put_set. simpl. now apply nth_upd_eq. Qed.

Lemma get_set_put_set_neq h r r' s : r <> r' -> get_set (put_set h r s) r' = get_set h r'.
Proof. intros H. unfold get_set, put_set. simpl. now apply nth_upd_neq. Qed.

Lemma get_dict_put_set h r s d : get_dict (put_set h r s) d = get_dict h d.
Proof. reflexivity. Qed.

Lemma get_set_put_dict h d x r : get_set (put_dict h d x) r = get_set h r.
Proof. reflexivity. Qed.

Lemma get_dict_put_dict_eq h d x : d < ndicts h -> get_dict (put_dict h d x) d = x.
Proof. intros H. unfold get_dict, put_dict. simpl. now apply nth_upd_eq. Qed.

Lemma get_dict_put_dict_neq h d d' x : d <> d' -> get_dict (put_dict h d x) d' = get_dict h d'.
Proof. intros H. unfold get_dict, put_dict. simpl. now apply nth_upd_neq. Qed.

Lemma nsets_put_set h r s : nsets (put_set h r s) = nsets h.
Proof. unfold nsets, put_set. simpl. apply upd_length. Qed.
Lemma ndicts_put_set h r s : ndicts (put_set h r s) = ndicts h.
Proof. reflexivity. Qed.
Lemma nsets_put_dict h d x : nsets (put_dict h d x) = nsets h.
Proof. reflexivity. Qed.
Lemma ndicts_put_dict h d x : ndicts (put_dict h d x) = ndicts h.
Proof. unfold ndicts, put_dict. simpl. apply upd_length. Qed.

Lemma alloc_set_fst h s : fst (alloc_set h s) = mkH (h_sets h ++ [s]) (h_dicts h).
Proof. reflexivity. Qed.
Lemma alloc_set_snd h s : snd (alloc_set h s) = nsets h.
Proof. reflexivity. Qed.

Lemma get_set_alloc_eq h s : get_set (fst (alloc_set h s)) (nsets h) = s.
Proof. unfold get_set, nsets. simpl. apply nth_snoc_eq. Qed.
Lemma get_set_alloc_lt h s r : r < nsets h -> get_set (fst (alloc_set h s)) r = get_set h r.
Proof. intros H. unfold get_set. simpl. now apply nth_snoc_lt. Qed.
Lemma get_dict_alloc_set h s d : get_dict (fst (alloc_set h s)) d = get_dict h d.
Proof. reflexivity. Qed.
Lemma nsets_alloc_set h s : nsets (fst (alloc_set h s)) = S (nsets h).
Proof. unfold nsets. simpl. rewrite app_length. simpl. lia. Qed.
Lemma ndicts_alloc_set h s : ndicts (fst (alloc_set h s)) = ndicts h.
Proof. reflexivity. Qed.

(** * deref *)

Lemma deref_keys h d : keys (deref h d) = keys d.
Proof. unfold keys, deref. rewrite map_map. reflexivity. Qed.

Lemma lookup_deref h (d : rdict) k :
  lookup k (deref h d) = option_map (get_set h) (lookup k d).
Proof.
  induction d as [|[k0 r0] d IH]; simpl; [reflexivity|].
  destruct (str_eqb k k0); [reflexivity|exact IH].
Qed.

Lemma deref_dict_set h (d : rdict) k r :
  deref h (dict_set k r d) = dict_set k (get_set h r) (deref h d).
Proof.
  induction d as [|[k0 r0] d IH]; simpl; [reflexivity|].
  destruct (str_eqb k k0); simpl; [reflexivity|]. now rewrite IH.
Qed.

Lemma deref_ext h h' (d : rdict) :
  (forall r, In r (map snd d) -> get_set h' r = get_set h r) -> deref h' d = deref h d.
Proof.
  intros H. unfold deref. apply map_ext_in. intros [k r] Hin. simpl. f_equal.
  apply H. apply in_map_iff. now exists (k, r).
Qed.

Lemma dict_mem_deref h (d : rdict) k : dict_mem k (deref h d) = dict_mem k d.
Proof. unfold dict_mem. rewrite lookup_deref. now destruct (lookup k d). Qed.

(** one set object replaced: only the entry that refers to it changes *)
Lemma deref_put_set h (d : rdict) k sr v :
  lookup k d = Some sr -> NoDup (map snd d) ->
  deref (put_set h sr v) d = dict_set k (if (sr <? nsets h)%nat then v else get_set h sr) (deref h d).
Proof.
  induction d as [|[k0 r0] d IH]; simpl; [discriminate|]. intros Hl Hn.
  inversion Hn as [|? ? Hn1 Hn2]; subst.
  destruct (str_eqb k k0) eqn:E.
  - inversion Hl; subst r0. apply str_eqb_eq in E. subst k0. f_equal.
    + f_equal. destruct (sr <? nsets h)%nat eqn:L.
      * apply Nat.ltb_lt in L. now apply get_set_put_set_eq.
      * apply Nat.ltb_ge in L. unfold get_set, put_set. simpl.
        rewrite !nth_overflow; try reflexivity; [|rewrite upd_length]; exact L.
    + apply deref_ext. intros r Hr. apply get_set_put_set_neq. intros ->. contradiction.
  - f_equal.
    + f_equal. apply get_set_put_set_neq. intros ->. apply Hn1.
      apply lookup_some_in in Hl. apply in_map_iff. now exists (k, r0).
    + now apply IH.
Qed.

(** * One step of the in-place update of rdb *)

Definition new_pkgs (fx : bool) (pkg : str) : sset := if fx then [pkg] else chars_of pkg.

Lemma h_ins_rdb_some fx pkg rd h t sr :
  lookup t (get_dict h rd) = Some sr ->
  h_ins_rdb fx pkg rd h t = put_set h sr (set_add pkg (get_set h sr)).
Proof. intros L. unfold h_ins_rdb. now rewrite L. Qed.

Lemma h_ins_rdb_none fx pkg rd h t :
  lookup t (get_dict h rd) = None ->
  h_ins_rdb fx pkg rd h t =
  put_dict (fst (alloc_set h (new_pkgs fx pkg))) rd (dict_set t (nsets h) (get_dict h rd)).
Proof. intros L. unfold h_ins_rdb. now rewrite L. Qed.

Section InsRdb.
Variables (fx : bool) (pkg : str) (rd : nat).

(** what the fold of [h_ins_rdb] preserves, relative to the heap [h0] it started from *)
Record ins_inv (h0 h : heap) : Prop := mkII {
  ii_sets : nsets h0 <= nsets h;
  ii_dicts : ndicts h = ndicts h0;
  ii_dict_frame : forall d, d <> rd -> get_dict h d = get_dict h0 d;
  ii_set_frame : forall r, r < nsets h0 -> ~ In r (dict_refs h0 rd) -> get_set h r = get_set h0 r;
  ii_refs : forall r, In r (dict_refs h rd) -> In r (dict_refs h0 rd) \/ nsets h0 <= r;
  ii_closed : forall r, In r (dict_refs h rd) -> r < nsets h }.

Lemma ins_inv_refl h : (forall r, In r (dict_refs h rd) -> r < nsets h) -> ins_inv h h.
Proof. intros H. constructor; auto. Qed.

Lemma dict_refs_dict_set (d : rdict) k r x :
  In x (map snd (dict_set k r d)) -> x = r \/ In x (map snd d).
Proof.
  induction d as [|[k0 r0] d IH]; simpl; [intuition|].
  destruct (str_eqb k k0); simpl; intuition.
Qed.

Lemma h_ins_rdb_inv h0 h t :
  rd < ndicts h0 -> ins_inv h0 h -> ins_inv h0 (h_ins_rdb fx pkg rd h t).
Proof.
  intros Hrd [I1 I2 I3 I4 I5 I6].
  destruct (lookup t (get_dict h rd)) as [sr|] eqn:L.
  - rewrite (h_ins_rdb_some _ _ _ _ _ _ L).
    assert (Hsr : In sr (dict_refs h rd)).
    { apply lookup_some_in in L. apply in_map_iff. now exists (t, sr). }
    constructor.
    + now rewrite nsets_put_set.
    + now rewrite ndicts_put_set.
    + intros d Hd. rewrite get_dict_put_set. now apply I3.
    + intros r Hr Hn. rewrite get_set_put_set_neq; [now apply I4|].
      intros ->. destruct (I5 r Hsr) as [H|H]; [contradiction|lia].
    + intros r. unfold dict_refs. rewrite get_dict_put_set. apply I5.
    + intros r. unfold dict_refs. rewrite get_dict_put_set, nsets_put_set. apply I6.
  - rewrite (h_ins_rdb_none _ _ _ _ _ L). set (v := new_pkgs fx pkg).
    assert (Hrd' : rd < ndicts (fst (alloc_set h v))) by (rewrite ndicts_alloc_set; lia).
    constructor.
    + rewrite nsets_put_dict, nsets_alloc_set. lia.
    + now rewrite ndicts_put_dict, ndicts_alloc_set.
    + intros d Hd. rewrite get_dict_put_dict_neq by congruence. rewrite get_dict_alloc_set. now apply I3.
    + intros r Hr Hn. rewrite get_set_put_dict, get_set_alloc_lt by lia. now apply I4.
    + intros r. unfold dict_refs. rewrite get_dict_put_dict_eq by assumption.
      intros Hin. apply dict_refs_dict_set in Hin. destruct Hin as [->|Hin]; [right; lia|now apply I5].
    + intros r. unfold dict_refs. rewrite get_dict_put_dict_eq by assumption.
      rewrite nsets_put_dict, nsets_alloc_set.
      intros Hin. apply dict_refs_dict_set in Hin. destruct Hin as [->|Hin]; [lia|].
      specialize (I6 r Hin). lia.
Qed.

Lemma h_ins_rdb_fold_inv h0 tags : forall h,
  rd < ndicts h0 -> ins_inv h0 h -> ins_inv h0 (fold_left (h_ins_rdb fx pkg rd) tags h).
Proof.
  induction tags as [|t tags IH]; intros h Hrd H; simpl; [assumption|].
  apply IH; [assumption|]. now apply h_ins_rdb_inv.
Qed.

(** the value of the rdb dict follows the linear [ins_rdb] *)
Lemma NoDup_refs_dict_set (d : rdict) k r :
  NoDup (map snd d) -> ~ In r (map snd d) -> NoDup (map snd (dict_set k r d)).
Proof.
  induction d as [|[k0 r0] d IH]; simpl; intros Hn Hr.
  - constructor; [intros []|constructor].
  - inversion Hn as [|? ? Hn1 Hn2]; subst.
    destruct (str_eqb k k0); simpl.
    + constructor; [|assumption]. intuition.
    + constructor; [|apply IH; intuition].
      intros Hin. apply dict_refs_dict_set in Hin. destruct Hin as [->|Hin]; intuition.
Qed.

Lemma h_ins_rdb_view h t :
  rd < ndicts h -> (forall r, In r (dict_refs h rd) -> r < nsets h) -> NoDup (dict_refs h rd) ->
  let h' := h_ins_rdb fx pkg rd h t in
  deref h' (get_dict h' rd) = ins_rdb fx pkg (deref h (get_dict h rd)) t
  /\ NoDup (dict_refs h' rd).
Proof.
  intros Hrd Hcl Hn. unfold ins_rdb. rewrite lookup_deref.
  destruct (lookup t (get_dict h rd)) as [sr|] eqn:L; cbn [option_map].
  - rewrite (h_ins_rdb_some _ _ _ _ _ _ L). cbv zeta.
    assert (Hsr : sr < nsets h).
    { apply Hcl. apply lookup_some_in in L. apply in_map_iff. now exists (t, sr). }
    unfold dict_refs. rewrite get_dict_put_set. split; [|assumption].
    rewrite (deref_put_set h _ t sr _ L Hn).
    apply Nat.ltb_lt in Hsr. now rewrite Hsr.
  - rewrite (h_ins_rdb_none _ _ _ _ _ L). cbv zeta. set (v := new_pkgs fx pkg).
    assert (Hrd' : rd < ndicts (fst (alloc_set h v))) by (rewrite ndicts_alloc_set; lia).
    unfold dict_refs. rewrite get_dict_put_dict_eq by assumption. split.
    + rewrite deref_dict_set. rewrite get_set_put_dict, get_set_alloc_eq. f_equal.
      apply deref_ext. intros r Hr. rewrite get_set_put_dict. apply get_set_alloc_lt. now apply Hcl.
    + apply NoDup_refs_dict_set; [assumption|]. intros Hin. specialize (Hcl _ Hin). lia.
Qed.

Lemma h_ins_rdb_fold_view h0 tags : forall h,
  rd < ndicts h0 -> ins_inv h0 h -> NoDup (dict_refs h rd) ->
  let h' := fold_left (h_ins_rdb fx pkg rd) tags h in
  deref h' (get_dict h' rd) = fold_left (ins_rdb fx pkg) tags (deref h (get_dict h rd))
  /\ NoDup (dict_refs h' rd).
Proof.
  induction tags as [|t tags IH]; intros h Hrd Hi Hn; simpl; [now split|].
  assert (Hrd' : rd < ndicts h) by (rewrite (ii_dicts _ _ Hi); exact Hrd).
  destruct (h_ins_rdb_view h t Hrd' (ii_closed _ _ Hi) Hn) as [E N].
  destruct (IH (h_ins_rdb fx pkg rd h t) Hrd (h_ins_rdb_inv _ _ t Hrd Hi) N) as [E' N'].
  split; [|exact N']. rewrite E'. now rewrite E.
Qed.
End InsRdb.
