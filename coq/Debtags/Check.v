(** Case format evaluated by the correspondence check of C20.

    A history case is a sequence of operations on DB objects (object [i] is the
    [i]-th one created), and, after every operation, what EVERY live object
    answered to every query method (delta-encoded by the harness: an object is
    listed again only when one of its answers changed).

    [agree]: the heap model (code as written, K1 included) predicts every answer
             of every object after every step, every exception and every
             execution of K1's trigger.
    [holds]: the property, judged on what the implementation answered: for every
             object the Spec still specifies, the two indexes are mutually
             inverse and every query agrees with the reference relation that the
             Spec computes from the operation sequence alone.
    [k1_explained]: used only to classify a failure of [holds] as the known
             finding K1: the implementation behaved exactly like the model as
             written, the trigger was executed, and the same history run through
             the model with the one-token repair satisfies [holds]. *)
From Coq Require Import String Uint63.
From Verif Require Import Lib.Base Lib.Dec Lib.PyStr Debtags.StrSet Debtags.Model Debtags.Spec.

Inductive pred :=
| PTrue | PFalse
| PIn (l : list string) | PNotIn (l : list string)
| PLenLe (n : nat) | PPrefix (s : string).

Inductive ptpred :=
| PTPkg (p : pred)
| PTHasTag (t : string) | PTNoTag (t : string)
| PTNTagsGe (n : nat).

Inductive cop :=
| CNew
| CRead (o : nat) (lines : list string) (tf : option pred)
        (rs : list (list string * list string))      (* the records the lines were rendered from *)
| CInsert (o : nat) (pkg : string) (tags : list string)
| CCopy (o : nat) | CReverse (o : nat) | CReverseCopy (o : nat)
| CChoose (o : nat) (l : list string) | CChooseCopy (o : nat) (l : list string)
| CFilterP (o : nat) (p : pred) | CFilterPCopy (o : nat) (p : pred)
| CFilterPT (o : nat) (g : ptpred) | CFilterPTCopy (o : nat) (g : ptpred)
| CFilterT (o : nat) (p : pred) | CFilterTCopy (o : nat) (p : pred)
| CFacet (o : nat) (order : list string).        (* order = list(x.iter_packages()) just before *)

Definition items := list (string * list string).

(** One snapshot of one object is one text, written as a list of primitive
    63-bit integers carrying seven bytes each (structured literals and [string]
    literals cost 6 to 40 microseconds per character to elaborate; this is the
    only use of primitive integers, and no theorem depends on this file).
    Bytes: a code point 1..254 is itself, any other is 255 followed by four
    base-64 digits, each plus one; zero bytes are padding.
    The text has nine fields separated by '|':
      db  rdb  pc  tc  hasp  hast  tags  pkgs  card
    db, rdb : iter_packages_tags() / iter_tags_packages(), sorted: every entry is
              ';' key, then '/' element for each element, sorted
    pc, tc  : package_count(), tag_count() as one character chr(48+n)
    hasp, hast : one character '0'/'1' per probe name
    tags, pkgs : per probe name ';', then '/' element for each element, sorted
    card    : per probe name one character chr(48+n) *)
Definition snap := list int.

Record stepobs := mkStep {
  so_err : option err;                (* the exception raised by the operation, if any *)
  so_trig : bool;                     (* DB.insert ran [set((pkg))] with len(pkg) != 1 (traced) *)
  so_delta : list (nat * snap) }.

Inductive case :=
| Hist (probes : list string) (ops : list cop) (obs : list stepobs)
| ParseLeaf (line : string) (obs : option (list string * list string))
| FacetLeaf (tag : string) (obs : string)
| ReadFns (lines : list string) (db rdb rv : items).

(** * Decoding *)

Definition interp_pred (p : pred) : str -> bool :=
  match p with
  | PTrue => fun _ => true
  | PFalse => fun _ => false
  | PIn l => let l' := map dec l in fun s => mem s l'
  | PNotIn l => let l' := map dec l in fun s => negb (mem s l')
  | PLenLe n => fun s => (length s <=? n)%nat
  | PPrefix pre => let p' := dec pre in fun s => startswith p' s
  end.

Definition interp_ptpred (g : ptpred) : str -> sset -> bool :=
  match g with
  | PTPkg p => let f := interp_pred p in fun k _ => f k
  | PTHasTag t => let t' := dec t in fun _ s => set_mem t' s
  | PTNoTag t => let t' := dec t in fun _ s => negb (set_mem t' s)
  | PTNTagsGe n => fun _ s => (n <=? length s)%nat
  end.

Definition to_hop (c : cop) : hop :=
  match c with
  | CNew => HNew
  | CRead o lines tf _ => HRead o (map dec lines) (option_map interp_pred tf)
  | CInsert o pkg tags => HInsert o (dec pkg) (map dec tags)
  | CCopy o => HCopy o | CReverse o => HReverse o | CReverseCopy o => HReverseCopy o
  | CChoose o l => HChoose o (map dec l) | CChooseCopy o l => HChooseCopy o (map dec l)
  | CFilterP o p => HFilterP o (interp_pred p) | CFilterPCopy o p => HFilterPCopy o (interp_pred p)
  | CFilterPT o g => HFilterPT o (interp_ptpred g)
  | CFilterPTCopy o g => HFilterPTCopy o (interp_ptpred g)
  | CFilterT o p => HFilterT o (interp_pred p) | CFilterTCopy o p => HFilterTCopy o (interp_pred p)
  | CFacet o order => HFacet o (map dec order)
  end.

(** decoded snapshots; [d_ok = false]: the literal is not in the format *)
Record dsnap := mkD {
  d_ok : bool;
  d_db : dict; d_rdb : dict; d_pc : nat; d_tc : nat;
  d_hasp : list bool; d_hast : list bool;
  d_tags : list sset; d_pkgs : list sset; d_card : list nat }.

Definition GS : N := 124.
Definition RS : N := 59.
Definition US : N := 47.

Definition unpack7 (i : int) : list N :=
  let b (k : int) := Z.to_N (Uint63.to_Z (Uint63.land (Uint63.lsr i k) 255%uint63)) in
  filter (fun c => negb (c =? 0)%N)
    [b 0%uint63; b 8%uint63; b 16%uint63; b 24%uint63; b 32%uint63; b 40%uint63; b 48%uint63].

Fixpoint unesc (l : list N) : str :=
  match l with
  | [] => []
  | x :: r =>
      if (x =? 255)%N then
        match r with
        | a :: b :: c :: d :: r' =>
            ((((a - 1) * 64 + (b - 1)) * 64 + (c - 1)) * 64 + (d - 1))%N :: unesc r'
        | _ => []
        end
      else x :: unesc r
  end.

Definition dec_packed (l : list int) : str := unesc (flat_map unpack7 l).

(** [(sep item)*] *)
Definition split_pref (sep : N) (s : str) : option (list str) :=
  match split_on sep s with
  | [] :: rest => Some rest
  | _ => None
  end.

Fixpoint all_some {A} (l : list (option A)) : option (list A) :=
  match l with
  | [] => Some []
  | Some a :: l' => match all_some l' with Some r => Some (a :: r) | None => None end
  | None :: _ => None
  end.

Definition dec_entry (s : str) : str * sset :=
  match split_on US s with
  | k :: vs => (k, vs)
  | [] => ([], [])
  end.
Definition dec_dict (s : str) : option dict := option_map (map dec_entry) (split_pref RS s).
Definition dec_sets (s : str) : option (list sset) :=
  match split_pref RS s with
  | Some es => all_some (map (split_pref US) es)
  | None => None
  end.
Definition dec_bools (s : str) : list bool := map (fun c => (c =? 49)%N) s.
Definition dec_nats (s : str) : list nat := map (fun c => N.to_nat (c - 48)) s.
Definition dec_nat1 (s : str) : option nat :=
  match s with [c] => Some (N.to_nat (c - 48)) | _ => None end.

Definition bad_snap : dsnap := mkD false [] [] 0 0 [] [] [] [] [].

Definition dec_snap (s : snap) : dsnap :=
  match split_on GS (dec_packed s) with
  | [db; rdb; pc; tc; hasp; hast; tags; pkgs; card] =>
      match dec_dict db, dec_dict rdb, dec_nat1 pc, dec_nat1 tc, dec_sets tags, dec_sets pkgs with
      | Some db', Some rdb', Some pc', Some tc', Some tags', Some pkgs' =>
          mkD true db' rdb' pc' tc' (dec_bools hasp) (dec_bools hast) tags' pkgs' (dec_nats card)
      | _, _, _, _, _, _ => bad_snap
      end
  | _ => bad_snap
  end.

Definition dec_items (it : items) : dict := map (fun kv => (dec (fst kv), map dec (snd kv))) it.

Definition dict_eqb : dict -> dict -> bool := list_eqb (pair_eqb str_eqb strs_eqb).
Definition bools_eqb : list bool -> list bool -> bool := list_eqb Bool.eqb.
Definition nats_eqb : list nat -> list nat -> bool := list_eqb Nat.eqb.
Definition ssets_eqb : list sset -> list sset -> bool := list_eqb strs_eqb.

Definition dsnap_eqb (a b : dsnap) : bool :=
  d_ok a && d_ok b && dict_eqb (d_db a) (d_db b) && dict_eqb (d_rdb a) (d_rdb b)
  && (d_pc a =? d_pc b)%nat && (d_tc a =? d_tc b)%nat
  && bools_eqb (d_hasp a) (d_hasp b) && bools_eqb (d_hast a) (d_hast b)
  && ssets_eqb (d_tags a) (d_tags b) && ssets_eqb (d_pkgs a) (d_pkgs b)
  && nats_eqb (d_card a) (d_card b).

(** full observation of one step: every live object *)
Record fstep := mkF { f_err : option err; f_trig : bool; f_snaps : list dsnap }.

Definition apply_delta (cur : list dsnap) (delta : list (nat * snap)) : list dsnap :=
  fold_left (fun cur (is : nat * snap) =>
               if (fst is <? length cur)%nat then upd (fst is) (dec_snap (snd is)) cur
               else cur ++ [dec_snap (snd is)]) delta cur.

Fixpoint expand (cur : list dsnap) (obs : list stepobs) : list fstep :=
  match obs with
  | [] => []
  | o :: rest =>
      let cur' := apply_delta cur (so_delta o) in
      mkF (so_err o) (so_trig o) cur' :: expand cur' rest
  end.

(** * The model's prediction *)

Fixpoint dict_ins (kv : str * sset) (d : dict) : dict :=
  match d with
  | [] => [kv]
  | kv' :: d' =>
      match str_cmp (fst kv) (fst kv') with
      | Gt => kv' :: dict_ins kv d'
      | _ => kv :: d
      end
  end.
Definition sort_dict (d : dict) : dict := fold_right dict_ins [] d.

Definition snap_of (probes : list str) (c : coll) : dsnap :=
  mkD true (sort_dict (c_db c)) (sort_dict (c_rdb c)) (package_count c) (tag_count c)
      (map (has_package c) probes) (map (has_tag c) probes)
      (map (tags_of_package c) probes) (map (packages_of_tag c) probes)
      (map (card c) probes).

Fixpoint model_obs (fx : bool) (probes : list str) (st : hstate) (ops : list hop) : list fstep :=
  match ops with
  | [] => []
  | op :: rest =>
      let '(st', e, tr) := hstep fx st op in
      mkF e tr (map (fun ob => snap_of probes (view (st_heap st') ob)) (st_objs st'))
      :: model_obs fx probes st' rest
  end.

Definition opt_err_eqb := option_eqb err_eqb.

Definition fstep_eqb (a b : fstep) : bool :=
  opt_err_eqb (f_err a) (f_err b) && Bool.eqb (f_trig a) (f_trig b)
  && list_eqb dsnap_eqb (f_snaps a) (f_snaps b).

(** * The property on what was observed *)

(** mutual inverse of the two observed indexes *)
Definition inv_obs (db rdb : dict) : bool :=
  forallb (fun kv => forallb (fun t => set_mem (fst kv) (get rdb t)) (snd kv)) db
  && forallb (fun kv => forallb (fun p => set_mem (fst kv) (get db p)) (snd kv)) rdb.

(** every answer equals the answer of the reference relation *)
Definition agrees_rel (probes : list str) (S : rel) (d : dsnap) : bool :=
  strs_eqb (keys (d_db d)) (q_packages S)
  && forallb (fun kv => strs_eqb (snd kv) (q_tags_of S (fst kv))) (d_db d)
  && strs_eqb (keys (d_rdb d)) (q_tags S)
  && forallb (fun kv => strs_eqb (snd kv) (q_pkgs_of S (fst kv))) (d_rdb d)
  && (d_pc d =? q_package_count S)%nat && (d_tc d =? q_tag_count S)%nat
  && bools_eqb (d_hasp d) (map (q_has_package S) probes)
  && bools_eqb (d_hast d) (map (q_has_tag S) probes)
  && ssets_eqb (d_tags d) (map (q_tags_of S) probes)
  && ssets_eqb (d_pkgs d) (map (q_pkgs_of S) probes)
  && nats_eqb (d_card d) (map (q_card S) probes).

Definition check_obj (probes : list str) (so : sobj) (d : dsnap) : bool :=
  d_ok d && (if so_valid so then inv_obs (d_db d) (d_rdb d) && agrees_rel probes (so_rel so) d else true).

Fixpoint forallb2 {A B} (f : A -> B -> bool) (la : list A) (lb : list B) : bool :=
  match la, lb with
  | [], [] => true
  | a :: la', b :: lb' => f a b && forallb2 f la' lb'
  | _, _ => false
  end.

Definition dec_recs (rs : list (list string * list string)) : recs :=
  map (fun pt => (map dec (fst pt), map dec (snd pt))) rs.

(** The Spec operation for a call, given whether the call raised.  [None]:
    the call raised although nothing allows it to. *)
Definition to_sop (ss : sstate) (c : cop) (raised : bool) : option sop :=
  let ok (s : sop) := if raised then None else Some s in
  match c with
  | CNew => ok SNew
  | CRead o _ tf rs => ok (SRead o (option_map interp_pred tf) (dec_recs rs))
  | CInsert o pkg tags => ok (SInsert o (dec pkg) (map dec tags))
  | CCopy o => ok (SDerive o false (fun S => S))
  | CReverse o => ok (SDerive o true s_reverse)
  | CReverseCopy o => ok (SDerive o false s_reverse)
  | CChoose o l => ok (SDerive o true (s_choose (map dec l)))
  | CChooseCopy o l =>
      (* [self.db[pkg]]: KeyError exactly when a requested package is unknown *)
      let l' := map dec l in
      match nth_error (ss_objs ss) o with
      | None => None
      | Some ob =>
          if so_valid ob then
            if forallb (q_has_package (so_rel ob)) l'
            then ok (SDerive o false (s_choose l'))
            else if raised then Some SNop else None
          else if raised then Some SNop else Some (SDerive o false (s_choose l'))
      end
  | CFilterP o p => ok (SDerive o true (s_filter_packages (interp_pred p)))
  | CFilterPCopy o p => ok (SDerive o false (s_filter_packages (interp_pred p)))
  | CFilterPT o g => ok (SDerive o true (s_filter_packages_tags (interp_ptpred g)))
  | CFilterPTCopy o g => ok (SDerive o false (s_filter_packages_tags (interp_ptpred g)))
  | CFilterT o p => ok (SDerive o true (s_filter_tags (interp_pred p)))
  | CFilterTCopy o p => ok (SDerive o false (s_filter_tags (interp_pred p)))
  | CFacet o _ => ok (SDerive o false (s_facet facet))
  end.

Definition raised_of (f : fstep) : bool := match f_err f with Some _ => true | None => false end.

Fixpoint holds_run (probes : list str) (ss : sstate) (ops : list cop) (obs : list fstep) : bool :=
  match ops, obs with
  | [], [] => true
  | op :: ops', o :: obs' =>
      match to_sop ss op (raised_of o) with
      | None => false
      | Some s =>
          let ss' := spec_step ss s in
          forallb2 (check_obj probes) (ss_objs ss') (f_snaps o)
          && holds_run probes ss' ops' obs'
      end
  | _, _ => false
  end.

(** * agree / holds *)

Definition opt_pair_eqb (a b : option (list str * list str)) : bool :=
  option_eqb (pair_eqb strs_eqb strs_eqb) a b.

Definition agree (c : case) : bool :=
  match c with
  | Hist probes ops obs =>
      let pr := map dec probes in
      list_eqb fstep_eqb (model_obs false pr empty_state (map to_hop ops)) (expand [] obs)
  | ParseLeaf line obs =>
      opt_pair_eqb
        (match parse_tags [dec line] with
         | [pt] => Some pt
         | _ => None
         end)
        (option_map (fun pt => (map dec (fst pt), map dec (snd pt))) obs)
  | FacetLeaf tag obs => str_eqb (facet (dec tag)) (dec obs)
  | ReadFns lines db rdb rv =>
      let ls := map dec lines in
      dict_eqb (sort_dict (read_db ls)) (dec_items db)
      && dict_eqb (sort_dict (read_db_reversed ls)) (dec_items rdb)
      && dict_eqb (sort_dict (reverse_d (read_db ls))) (dec_items rv)
  end.

Definition holds (c : case) : bool :=
  match c with
  | Hist probes ops obs => holds_run (map dec probes) s_init ops (expand [] obs)
  | ReadFns lines db rdb rv =>
      (* reverse(db) is the inverse index of db *)
      inv_obs (dec_items db) (dec_items rv)
  | _ => true
  end.

Definition k1_explained (c : case) : bool :=
  match c with
  | Hist probes ops obs =>
      let pr := map dec probes in
      let hops := map to_hop ops in
      agree c
      && existsb f_trig (model_obs false pr empty_state hops)
      && holds_run pr s_init ops (model_obs true pr empty_state hops)
  | _ => false
  end.

Definition bad_agree (cs : list case) : list N := bad agree cs.
Definition bad_holds (cs : list case) : list N := bad holds cs.
