(** Finite sets of strings as sorted (code-point lexicographic, the order of
    Python's [sorted] on str) duplicate-free lists.  Shared by the model, the
    spec and the case checker; definitions only (lemmas in Debtags/Proofs.v). *)
From Verif Require Import Lib.Base.

Definition sset := list str.

Fixpoint str_cmp (a b : str) : comparison :=
  match a, b with
  | [], [] => Eq
  | [], _ :: _ => Lt
  | _ :: _, [] => Gt
  | x :: a', y :: b' =>
      match N.compare x y with
      | Eq => str_cmp a' b'
      | c => c
      end
  end.

Fixpoint set_add (x : str) (s : sset) : sset :=
  match s with
  | [] => [x]
  | y :: s' =>
      match str_cmp x y with
      | Lt => x :: s
      | Eq => s
      | Gt => y :: set_add x s'
      end
  end.

(** [set(l)] *)
Definition set_of_list (l : list str) : sset := fold_right set_add [] l.
(** [b | a] / [b |= a] *)
Definition set_union (a b : sset) : sset := fold_right set_add b a.
Definition set_mem (x : str) (s : sset) : bool := existsb (str_eqb x) s.

