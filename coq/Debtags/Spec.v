(** SPEC for C20: the reference is a finite relation R between package names
    and tag names, together with the two carriers (the packages and tags the
    collection knows: a package may have no tag, and after [reverse()] a tag may
    have no package).  Plain lists, duplicates allowed — only membership counts;
    the queries normalise their answers to sorted duplicate-free lists.

    Nothing here mentions dicts, indexes or set objects.

    The second half is the bookkeeping for several live DB objects, taken from
    the DOCUMENTATION of the derivations: methods documented as returning a copy
    give an independent collection; methods documented as "sharing tagsets with
    this one" give a collection for which nothing is promised once one of the
    sharing partners has been modified. *)
From Verif Require Import Lib.Base Debtags.StrSet.

Record rel := mkR { r_P : list str; r_T : list str; r_R : list (str * str) }.

Definition s_empty : rel := mkR [] [] [].
Definition mem (x : str) (l : list str) : bool := existsb (str_eqb x) l.

(** * Queries *)
Definition q_tags_of (S : rel) (p : str) : sset :=
  set_of_list (map snd (filter (fun pt => str_eqb (fst pt) p) (r_R S))).
Definition q_pkgs_of (S : rel) (t : str) : sset :=
  set_of_list (map fst (filter (fun pt => str_eqb (snd pt) t) (r_R S))).
Definition q_card (S : rel) (t : str) : nat := length (q_pkgs_of S t).
Definition q_has_package (S : rel) (p : str) : bool := mem p (r_P S).
Definition q_has_tag (S : rel) (t : str) : bool := mem t (r_T S).
Definition q_packages (S : rel) : sset := set_of_list (r_P S).
Definition q_tags (S : rel) : sset := set_of_list (r_T S).
Definition q_package_count (S : rel) : nat := length (q_packages S).
Definition q_tag_count (S : rel) : nat := length (q_tags S).

(** * Operations *)

(** A tag file is a list of records (packages, tags): every package of the
    record carries every tag of the record. *)
Definition recs := list (list str * list str).

Definition pairs_of (rs : recs) : list (str * str) :=
  flat_map (fun pt => list_prod (fst pt) (snd pt)) rs.

Definition filter_recs (tf : option (str -> bool)) (rs : recs) : recs :=
  match tf with
  | None => rs
  | Some f => map (fun pt => (fst pt, filter f (snd pt))) rs
  end.

Definition s_read (tf : option (str -> bool)) (rs : recs) : rel :=
  let R := pairs_of (filter_recs tf rs) in
  mkR (flat_map fst rs) (map snd R) R.

(** The property's domain: package names of different records are distinct. *)
Fixpoint distinct_recs (rs : recs) : bool :=
  match rs with
  | [] => true
  | r :: rest =>
      forallb (fun r' => forallb (fun p => negb (mem p (fst r'))) (fst r)) rest
      && distinct_recs rest
  end.

Definition s_insert (S : rel) (p : str) (tags : list str) : rel :=
  mkR (p :: r_P S) (tags ++ r_T S) (map (pair p) tags ++ r_R S).

Definition swap (pt : str * str) : str * str := (snd pt, fst pt).
Definition s_reverse (S : rel) : rel := mkR (r_T S) (r_P S) (map swap (r_R S)).

(** Keeping the packages selected by [f]: tags that lose all their packages disappear. *)
Definition s_filter_packages (f : str -> bool) (S : rel) : rel :=
  let R := filter (fun pt => f (fst pt)) (r_R S) in
  mkR (filter f (r_P S)) (map snd R) R.

Definition s_filter_packages_tags (g : str -> sset -> bool) (S : rel) : rel :=
  s_filter_packages (fun p => g p (q_tags_of S p)) S.

Definition s_choose (l : list str) (S : rel) : rel := s_filter_packages (fun p => mem p l) S.

(** Keeping the tags selected by [f]: packages that lose all their tags disappear. *)
Definition s_filter_tags (f : str -> bool) (S : rel) : rel :=
  let R := filter (fun pt => f (snd pt)) (r_R S) in
  mkR (map fst R) (filter f (r_T S)) R.

(** Every tag replaced by its facet ([fc] is the facet function). *)
Definition s_facet (fc : str -> str) (S : rel) : rel :=
  let R := map (fun pt => (fst pt, fc (snd pt))) (r_R S) in
  mkR (r_P S) (map snd R) R.

(** * Several live objects *)

Record sobj := mkSO { so_valid : bool; so_grp : nat; so_rel : rel }.

Inductive sop :=
| SNew
| SRead (o : nat) (tf : option (str -> bool)) (rs : recs)
| SInsert (o : nat) (p : str) (tags : list str)
| SDerive (o : nat) (shares : bool) (f : rel -> rel)
| SNop.                                     (* the call raised: nothing changes *)

Record sstate := mkSS { ss_objs : list sobj; ss_next : nat }.
Definition s_init : sstate := mkSS [] 0.

Fixpoint upd_nth {A} (n : nat) (v : A) (l : list A) : list A :=
  match l, n with
  | [], _ => []
  | _ :: l', O => v :: l'
  | x :: l', S n' => x :: upd_nth n' v l'
  end.

Fixpoint mapi_from {A B} (f : nat -> A -> B) (i : nat) (l : list A) : list B :=
  match l with
  | [] => []
  | a :: l' => f i a :: mapi_from f (S i) l'
  end.

Definition spec_step (st : sstate) (op : sop) : sstate :=
  let objs := ss_objs st in
  let g := ss_next st in
  match op with
  | SNew => mkSS (objs ++ [mkSO true g s_empty]) (S g)
  | SNop => st
  | SRead o tf rs =>
      match nth_error objs o with
      | None => st
      | Some _ => mkSS (upd_nth o (mkSO (distinct_recs rs) g (s_read tf rs)) objs) (S g)
      end
  | SInsert o p tags =>
      match nth_error objs o with
      | None => st
      | Some ob =>
          (* partners documented as sharing with [o] are no longer specified;
             [o] itself stays specified if [p] is a new package *)
          let objs' := mapi_from (fun i x =>
                          if (i =? o)%nat
                          then mkSO (so_valid x && negb (q_has_package (so_rel x) p))
                                    (so_grp x) (s_insert (so_rel x) p tags)
                          else if (so_grp x =? so_grp ob)%nat then mkSO false (so_grp x) (so_rel x)
                          else x) 0 objs in
          mkSS objs' g
      end
  | SDerive o shares f =>
      match nth_error objs o with
      | None => st
      | Some ob =>
          mkSS (objs ++ [mkSO (so_valid ob) (if shares then so_grp ob else g) (f (so_rel ob))]) (S g)
      end
  end.
