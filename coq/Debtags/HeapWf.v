(** HEAP layer, part 4: well-formedness of reachable states ([hwf]) is preserved by
    every operation; [facet_collection] on the heap; independence of copies. *)
From Verif Require Import Lib.Base Lib.PyStr Debtags.StrSet Debtags.Model
  Debtags.SetProofs Debtags.DictProofs Debtags.HeapBase Debtags.HeapInsert Debtags.HeapDerive.

(** two objects either are made of the same two dict objects or have no dict
    object in common *)
Definition dicts_disjoint (a b : obj) : Prop :=
  fst a <> fst b /\ fst a <> snd b /\ snd a <> fst b /\ snd a <> snd b.
Definition dict_rel (a b : obj) : Prop :=
  a = b \/ a = (snd b, fst b) \/ dicts_disjoint a b.

Record hwf (st : hstate) : Prop := mkHwf {
  hw_closed : forall i ob, nth_error (st_objs st) i = Some ob -> closed_obj (st_heap st) ob;
  hw_dicts : forall i j a b, nth_error (st_objs st) i = Some a -> nth_error (st_objs st) j = Some b ->
             dict_rel a b }.

Lemma hwf_empty : hwf empty_state.
Proof. constructor; intros [|i]; simpl; discriminate. Qed.

Lemma dict_rel_refl a : dict_rel a a.
Proof. now left. Qed.

Lemma dict_rel_sym a b : dict_rel a b -> dict_rel b a.
Proof.
  intros [->|[->|[H1 [H2 [H3 H4]]]]].
  - now left.
  - right. left. destruct b; reflexivity.
  - right. right. repeat split; congruence.
Qed.

Lemma nth_error_snoc {A} (l : list A) x i y :
  nth_error (l ++ [x]) i = Some y ->
  (i < length l /\ nth_error l i = Some y) \/ (i = length l /\ y = x).
Proof.
  intros H. destruct (Nat.lt_ge_cases i (length l)) as [L|L].
  - left. split; [assumption|]. now rewrite nth_error_app1 in H.
  - right. rewrite nth_error_app2 in H by assumption.
    destruct (i - length l) as [|k] eqn:E; simpl in H.
    + inversion H. split; [lia|reflexivity].
    + destruct k; discriminate.
Qed.

Lemma nth_error_upd_cases {A} (l : list A) o v i y :
  nth_error (upd o v l) i = Some y -> (i = o /\ y = v) \/ (i <> o /\ nth_error l i = Some y).
Proof.
  intros H. destruct (Nat.eq_dec i o) as [->|Hne].
  - left. split; [reflexivity|].
    assert (L : o < length l).
    { apply nth_error_Some. intros E.
      assert (nth_error (upd o v l) o <> None) by congruence.
      apply nth_error_Some in H0. rewrite upd_length in H0.
      apply nth_error_None in E. lia. }
    rewrite nth_error_upd_eq in H by assumption. congruence.
  - right. split; [assumption|]. now rewrite nth_error_upd_neq in H by congruence.
Qed.

Lemma fresh_dicts_disjoint h ob b :
  ndicts h <= fst ob -> ndicts h <= snd ob -> closed_obj h b -> dicts_disjoint ob b.
Proof. intros H1 H2 [B1 B2 _ _ _]. unfold dicts_disjoint. lia. Qed.

(** a new object made of new dicts *)
Lemma hwf_push st h' ob :
  hwf st -> ext (st_heap st) h' -> closed_obj h' ob ->
  ndicts (st_heap st) <= fst ob -> ndicts (st_heap st) <= snd ob ->
  hwf (new_obj st (h', ob)).
Proof.
  intros [W1 W2] E C D1 D2. unfold new_obj. simpl. constructor; simpl.
  - intros i b Hb. apply nth_error_snoc in Hb. destruct Hb as [[_ Hb]|[_ ->]]; [|assumption].
    eapply ext_closed; [eassumption|]. now apply (W1 i).
  - intros i j a b Ha Hb. apply nth_error_snoc in Ha. apply nth_error_snoc in Hb.
    destruct Ha as [[_ Ha]|[_ ->]], Hb as [[_ Hb]|[_ ->]].
    + now apply (W2 i j).
    + apply dict_rel_sym. right. right. apply (fresh_dicts_disjoint (st_heap st)); try assumption.
      now apply (W1 i).
    + right. right. apply (fresh_dicts_disjoint (st_heap st)); try assumption. now apply (W1 j).
    + now left.
Qed.

Lemma hwf_push_derived st h' src ob :
  hwf st -> derived_from (st_heap st) h' src ob -> hwf (new_obj st (h', ob)).
Proof. intros W [E C D1 D2 _]. now apply hwf_push. Qed.

(** an object replaced by one made of new dicts *)
Lemma hwf_replace st h' o ob :
  hwf st -> ext (st_heap st) h' -> closed_obj h' ob ->
  ndicts (st_heap st) <= fst ob -> ndicts (st_heap st) <= snd ob ->
  hwf (mkS h' (upd o ob (st_objs st))).
Proof.
  intros [W1 W2] E C D1 D2. constructor; simpl.
  - intros i b Hb. apply nth_error_upd_cases in Hb. destruct Hb as [[_ ->]|[_ Hb]]; [assumption|].
    eapply ext_closed; [eassumption|]. now apply (W1 i).
  - intros i j a b Ha Hb. apply nth_error_upd_cases in Ha. apply nth_error_upd_cases in Hb.
    destruct Ha as [[_ ->]|[_ Ha]], Hb as [[_ ->]|[_ Hb]].
    + now left.
    + right. right. apply (fresh_dicts_disjoint (st_heap st)); try assumption. now apply (W1 j).
    + apply dict_rel_sym. right. right. apply (fresh_dicts_disjoint (st_heap st)); try assumption.
      now apply (W1 i).
    + now apply (W2 i j).
Qed.

(** * insert and the other objects *)

Lemma obj_eta (b : obj) : b = (fst b, snd b).
Proof. now destruct b. Qed.

Lemma h_insert_closed_other fx h o pkg tags b :
  closed_obj h o -> closed_obj h b -> dict_rel o b ->
  closed_obj (h_insert fx h o pkg tags) b.
Proof.
  intros C Cb [<-|[E|[D1 [D2 [D3 D4]]]]].
  - now apply h_insert_closed.
  - pose proof (h_insert_closed fx h o pkg tags C) as C'.
    subst o. apply closed_obj_swap in C'. now rewrite <- obj_eta in C'.
  - pose proof (h_insert_facts fx h o pkg tags C) as F.
    assert (R : obj_refs (h_insert fx h o pkg tags) b = obj_refs h b).
    { apply h_insert_other_dicts; try assumption; congruence. }
    pose proof (if_sets _ _ _ _ _ _ F) as L.
    destruct Cb as [B1 B2 B3 B4 B5]. constructor; try assumption.
    + now rewrite (if_dicts _ _ _ _ _ _ F).
    + now rewrite (if_dicts _ _ _ _ _ _ F).
    + intros r. rewrite R. intros Hr. specialize (B4 r Hr). lia.
    + now rewrite R.
Qed.

(** references only grow by new set objects *)
Lemma h_insert_refs_grow fx h o pkg tags b r :
  closed_obj h o -> dict_rel o b ->
  In r (obj_refs (h_insert fx h o pkg tags) b) -> In r (obj_refs h b) \/ nsets h <= r.
Proof.
  intros C Rel Hr. pose proof (h_insert_facts fx h o pkg tags C) as F.
  assert (Ho : forall r, In r (obj_refs (h_insert fx h o pkg tags) o) -> In r (obj_refs h o) \/ nsets h <= r).
  { intros x Hx. unfold obj_refs in *. apply in_app_iff in Hx. destruct Hx as [Hx|Hx].
    - unfold dict_refs in Hx at 1. rewrite (if_db _ _ _ _ _ _ F) in Hx.
      apply dict_refs_dict_set in Hx. destruct Hx as [->|Hx]; [right; lia|].
      left. apply in_app_iff. now left.
    - destruct (if_rdb_refs _ _ _ _ _ _ F x Hx) as [H|H]; [|right; lia].
      left. apply in_app_iff. now right. }
  destruct Rel as [<-|[E|[D1 [D2 [D3 D4]]]]].
  - now apply Ho.
  - rewrite (obj_eta b) in Hr |- *. apply in_obj_refs_swap in Hr. rewrite <- E in Hr.
    destruct (Ho r Hr) as [H|H]; [|now right]. left. apply in_obj_refs_swap. now rewrite <- E.
  - left. rewrite h_insert_other_dicts in Hr; try assumption; congruence.
Qed.

Lemma h_insert_sep fx h o pkg tags a b :
  closed_obj h o -> closed_obj h a -> closed_obj h b -> dict_rel o a ->
  sep h o b -> sep h a b -> sep (h_insert fx h o pkg tags) a b.
Proof.
  intros C Ca Cb Rel Sob Sab.
  destruct (h_insert_frame_refs fx h o pkg tags b C Cb Sob) as [E1 E2].
  assert (Rb : obj_refs (h_insert fx h o pkg tags) b = obj_refs h b).
  { unfold obj_refs, dict_refs. now rewrite E1, E2. }
  destruct Sab as [S1 S2 S3 S4 S5]. constructor; try assumption.
  intros r Ha. rewrite Rb. intros Hb.
  destruct (h_insert_refs_grow fx h o pkg tags a r C Rel Ha) as [H|H].
  - now apply (S5 r).
  - pose proof (co_refs _ _ Cb r Hb). lia.
Qed.

Lemma hwf_insert fx st ob o pkg tags :
  hwf st -> nth_error (st_objs st) o = Some ob ->
  hwf (mkS (h_insert fx (st_heap st) ob pkg tags) (st_objs st)).
Proof.
  intros [W1 W2] Ho. constructor; simpl.
  - intros i b Hb. apply h_insert_closed_other; [now apply (W1 o)|now apply (W1 i)|now apply (W2 o i)].
  - exact W2.
Qed.

(** * facet_collection on the heap *)

Lemma h_facet_ok fx order : forall h (src : rdict) fc,
  (forall p, In p order -> dict_mem p src = true) ->
  exists h' tr, h_facet fx h src fc order = Ok (h', tr).
Proof.
  induction order as [|p order IH]; intros h src fc Hin; simpl.
  - now exists h, false.
  - assert (Hp : dict_mem p src = true) by (apply Hin; now left).
    unfold dict_mem in Hp. destruct (lookup p src) as [r|] eqn:L; [|discriminate].
    destruct (IH (h_insert fx h fc p (facet_tags (get_set h r))) src fc) as [h' [tr E]].
    { intros q Hq. apply Hin. now right. }
    rewrite E. now eexists _, _.
Qed.

Record facet_facts (fx : bool) (h : heap) (src : rdict) (fc : obj) (order : list str) (h' : heap) : Prop := mkFF {
  ff_closed : closed_obj h' fc;
  ff_sets : nsets h <= nsets h';
  ff_dicts : ndicts h' = ndicts h;
  ff_frame : forall b, closed_obj h b -> sep h fc b ->
             closed_obj h' b /\ sep h' fc b /\ view h' b = view h b /\ obj_refs h' b = obj_refs h b;
  ff_refs : forall r, In r (obj_refs h' fc) -> In r (obj_refs h fc) \/ nsets h <= r;
  ff_set_frame : forall r, r < nsets h -> ~ In r (obj_refs h fc) -> get_set h' r = get_set h r;
  ff_dict_frame : forall d, d <> fst fc -> d <> snd fc -> get_dict h' d = get_dict h d;
  ff_view : (forall r, In r (map snd src) -> r < nsets h /\ ~ In r (obj_refs h fc)) ->
            view h' fc = fold_left (facet_step fx (deref h src)) order (view h fc) }.

Lemma h_facet_facts fx order : forall h (src : rdict) fc h' tr,
  closed_obj h fc -> h_facet fx h src fc order = Ok (h', tr) ->
  facet_facts fx h src fc order h'.
Proof.
  induction order as [|p order IH]; intros h src fc h' tr C H; simpl in H.
  - inversion H; subst. constructor; auto.
  - destruct (lookup p src) as [r|] eqn:L; [|discriminate].
    set (ft := facet_tags (get_set h r)) in *.
    set (h1 := h_insert fx h fc p ft) in *.
    destruct (h_facet fx h1 src fc order) as [[h2 t2]|e] eqn:E; [|discriminate].
    inversion H; subst h2. clear H.
    pose proof (h_insert_closed fx h fc p ft C) as C1. fold h1 in C1.
    pose proof (h_insert_facts fx h fc p ft C) as F. fold h1 in F.
    specialize (IH h1 src fc h' t2 C1 E). destruct IH as [I1 I2 I3 I4 I5 I7 I8 I6].
    assert (Hgrow : forall x, In x (obj_refs h1 fc) -> In x (obj_refs h fc) \/ nsets h <= x).
    { intros x Hx. apply (h_insert_refs_grow fx h fc p ft fc x C (dict_rel_refl fc) Hx). }
    pose proof (if_sets _ _ _ _ _ _ F) as Ls.
    constructor.
    + exact I1.
    + lia.
    + rewrite I3. apply (if_dicts _ _ _ _ _ _ F).
    + intros b Cb Sb.
      destruct (h_insert_frame_closed fx h fc p ft b C Cb Sb) as [Cb1 Sb1]. fold h1 in Cb1, Sb1.
      destruct (I4 b Cb1 Sb1) as [J1 [J2 [J3 J4]]].
      split; [exact J1|split; [exact J2|split]].
      * rewrite J3. apply (h_insert_frame fx h fc p ft b C Cb Sb).
      * rewrite J4. destruct (h_insert_frame_refs fx h fc p ft b C Cb Sb) as [E1 E2]. fold h1 in E1, E2.
        unfold obj_refs, dict_refs. now rewrite E1, E2.
    + intros x Hx. destruct (I5 x Hx) as [Hx'|Hx']; [|right; lia].
      destruct (Hgrow x Hx') as [?|?]; [now left|right; lia].
    + intros x Hx Hn. rewrite I7.
      * apply (if_set_frame _ _ _ _ _ _ F); [assumption|].
        intros Hin. apply Hn. unfold obj_refs. apply in_app_iff. now right.
      * lia.
      * intros Hin. destruct (Hgrow x Hin) as [?|?]; [contradiction|lia].
    + intros d Hd1 Hd2. rewrite I8 by assumption. now apply (if_dict_frame _ _ _ _ _ _ F).
    + intros Hsrc.
      assert (Hd : deref h1 src = deref h src).
      { apply deref_ext. intros x Hx. destruct (Hsrc x Hx) as [Hx1 Hx2].
        apply (if_set_frame _ _ _ _ _ _ F); [assumption|].
        intros Hin. apply Hx2. unfold obj_refs. apply in_app_iff. now right. }
      rewrite I6.
      * rewrite Hd. simpl. f_equal. unfold facet_step. rewrite lookup_deref, L. simpl.
        unfold h1. now rewrite (h_insert_view fx h fc p ft C).
      * intros x Hx. destruct (Hsrc x Hx) as [Hx1 Hx2]. split; [lia|].
        intros Hin. destruct (Hgrow x Hin) as [?|?]; [contradiction|lia].
Qed.

(** * Every operation preserves well-formedness *)

Lemma sub_refs_lt h (ob : obj) (rd : rdict) :
  closed_obj h ob -> (forall r, In r (map snd rd) -> In r (obj_refs h ob)) ->
  forall r, In r (obj_refs h ob) -> r < nsets h.
Proof. intros C _. apply (co_refs _ _ C). Qed.

Lemma db_refs_in h (ob : obj) r : In r (map snd (get_dict h (fst ob))) -> In r (obj_refs h ob).
Proof. intros H. unfold obj_refs. apply in_app_iff. now left. Qed.
Lemma rdb_refs_in h (ob : obj) r : In r (map snd (get_dict h (snd ob))) -> In r (obj_refs h ob).
Proof. intros H. unfold obj_refs. apply in_app_iff. now right. Qed.

Lemma db_refs_NoDup h ob : closed_obj h ob -> NoDup (map snd (get_dict h (fst ob))).
Proof. intros C. apply (NoDup_app_l _ _ (co_nodup _ _ C)). Qed.
Lemma rdb_refs_NoDup h ob : closed_obj h ob -> NoDup (map snd (get_dict h (snd ob))).
Proof. intros C. apply (NoDup_app_r _ _ (co_nodup _ _ C)). Qed.

(** the derived dict handed to [h_of_db]/[h_of_rdb] by the sharing derivations *)
Definition sub_dict (h : heap) (ob : obj) (rd : rdict) : Prop :=
  (forall r, In r (map snd rd) -> In r (obj_refs h ob)) /\ NoDup (map snd rd).

Lemma sub_dict_filter_db h ob (p : str * nat -> bool) :
  closed_obj h ob -> sub_dict h ob (filter p (get_dict h (fst ob))).
Proof.
  intros C. split.
  - intros r Hr. apply db_refs_in. eapply refs_filter_sub, Hr.
  - apply NoDup_map_filter. now apply db_refs_NoDup.
Qed.

Lemma sub_dict_filter_rdb h ob (p : str * nat -> bool) :
  closed_obj h ob -> sub_dict h ob (filter p (get_dict h (snd ob))).
Proof.
  intros C. split.
  - intros r Hr. apply rdb_refs_in. eapply refs_filter_sub, Hr.
  - apply NoDup_map_filter. now apply rdb_refs_NoDup.
Qed.

Lemma sub_dict_choose h ob l :
  closed_obj h ob -> sub_dict h ob (choose_d (get_dict h (fst ob)) l).
Proof.
  intros C. destruct (choose_d_refs (get_dict h (fst ob)) l (db_refs_NoDup h ob C)) as [N S].
  split; [|assumption]. intros r Hr. apply db_refs_in. now apply S.
Qed.

Lemma h_of_db_derived h ob rd :
  closed_obj h ob -> sub_dict h ob rd ->
  derived_from h (fst (h_of_db h rd)) (obj_refs h ob) (snd (h_of_db h rd))
  /\ view (fst (h_of_db h rd)) (snd (h_of_db h rd)) = of_db (deref h rd).
Proof. intros C [S N]. apply h_of_db_facts; [assumption|apply (co_refs _ _ C)|assumption]. Qed.

Lemma h_of_rdb_derived h ob rd :
  closed_obj h ob -> sub_dict h ob rd ->
  derived_from h (fst (h_of_rdb h rd)) (obj_refs h ob) (snd (h_of_rdb h rd))
  /\ view (fst (h_of_rdb h rd)) (snd (h_of_rdb h rd)) = of_rdb (deref h rd).
Proof. intros C [S N]. apply h_of_rdb_facts; [assumption|apply (co_refs _ _ C)|assumption]. Qed.

Lemma pair_eta {A B} (x : A * B) : x = (fst x, snd x).
Proof. now destruct x. Qed.

Definition hstate_of (x : hstate * option err * bool) : hstate := fst (fst x).
Definition herr_of (x : hstate * option err * bool) : option err := snd (fst x).

Lemma two_vdicts' h vd1 vd2 h1 d1 h2 d2 :
  alloc_vdict h vd1 = (h1, d1) -> alloc_vdict h1 vd2 = (h2, d2) ->
  derived_from h h2 [] (d1, d2) /\ view h2 (d1, d2) = mkC vd1 vd2.
Proof.
  intros A1 A2. pose proof (two_vdicts h vd1 vd2) as T. cbv zeta in T.
  rewrite A1 in T. cbn [fst snd] in T. rewrite A2 in T. exact T.
Qed.

(** [hstep] with the receiver looked up *)
Lemma hstep_no_obj fx st op :
  op <> HNew ->
  match hop_obj op with Some o => nth_error (st_objs st) o | None => None end = None ->
  hstep fx st op = (st, Some OtherError, false).
Proof. intros Hn H. destruct op; try congruence; simpl in *; now rewrite H. Qed.

Lemma hstep_facet fx st o order ob :
  nth_error (st_objs st) o = Some ob ->
  hstep fx st (HFacet o order) =
  let (h1, fc) := h_new (st_heap st) in
  match h_facet fx h1 (get_dict (st_heap st) (fst ob)) fc order with
  | Ok (h2, trig) => (new_obj st (h2, fc), None, trig)
  | Err e => (st, Some e, false)
  end.
Proof. intros Ho. unfold hstep. cbn [hop_obj]. rewrite Ho. reflexivity. Qed.

Theorem hstep_hwf fx st op : hwf st -> hwf (hstate_of (hstep fx st op)).
Proof.
  intros W. unfold hstate_of.
  destruct op as [|o lines tf|o pkg tags|o|o|o|o l|o l|o f|o f|o g|o g|o f|o f|o order];
    [destruct (h_new_facts (st_heap st)) as [D _]; simpl;
     rewrite (pair_eta (h_new (st_heap st))); now apply (hwf_push_derived _ _ [])|..];
    (destruct (nth_error (st_objs st) o) as [ob|] eqn:Ho;
     [|rewrite hstep_no_obj by (simpl; congruence); exact W]);
    pose proof (hw_closed _ W o ob Ho) as C;
    lazymatch goal with
    | |- context [HFacet] => rewrite (hstep_facet fx st o order ob Ho)
    | _ => simpl; rewrite Ho
    end.
  - (* read *)
    destruct (alloc_vdict _ _) as [h1 d1] eqn:A1. destruct (alloc_vdict h1 _) as [h2 d2] eqn:A2.
    destruct (two_vdicts' _ _ _ _ _ _ _ A1 A2) as [[E C' D1 D2 _] _]. simpl.
    now apply hwf_replace.
  - (* insert *)
    simpl. now apply (hwf_insert fx st ob o).
  - (* copy *)
    destruct (alloc_vdict _ _) as [h1 d1] eqn:A1. destruct (alloc_vdict h1 _) as [h2 d2] eqn:A2.
    destruct (two_vdicts' _ _ _ _ _ _ _ A1 A2) as [D _]. simpl.
    now apply (hwf_push_derived _ _ []).
  - (* reverse *)
    simpl. destruct W as [W1 W2]. unfold new_obj. simpl. constructor; simpl.
    + intros i b Hb. apply nth_error_snoc in Hb. destruct Hb as [[_ Hb]|[_ ->]]; [now apply (W1 i)|].
      apply closed_obj_swap. now rewrite <- obj_eta.
    + assert (Sw : forall j b, nth_error (st_objs st) j = Some b -> dict_rel (snd ob, fst ob) b).
      { intros j b Hb. destruct (W2 o j ob b Ho Hb) as [<-|[->|[D1 [D2 [D3 D4]]]]].
        - right. now left.
        - left. simpl. now destruct b.
        - right. right. unfold dicts_disjoint. simpl. tauto. }
      intros i j a b Ha Hb. apply nth_error_snoc in Ha. apply nth_error_snoc in Hb.
      destruct Ha as [[_ Ha]|[_ ->]], Hb as [[_ Hb]|[_ ->]].
      * now apply (W2 i j).
      * apply dict_rel_sym. now apply (Sw i).
      * now apply (Sw j).
      * now left.
  - (* reverse_copy *)
    destruct (alloc_vdict _ _) as [h1 d1] eqn:A1. destruct (alloc_vdict h1 _) as [h2 d2] eqn:A2.
    destruct (two_vdicts' _ _ _ _ _ _ _ A1 A2) as [D _]. simpl.
    now apply (hwf_push_derived _ _ []).
  - (* choose *)
    simpl. rewrite (pair_eta (h_of_db _ _)).
    destruct (h_of_db_derived _ ob _ C (sub_dict_choose _ ob l C)) as [D _].
    now apply (hwf_push_derived _ _ _ _ W D).
  - (* choose_copy *)
    destruct (forallb _ l); [|exact W]. simpl. rewrite (pair_eta (h_of_db_copy _ _)).
    destruct (h_of_db_copy_facts (st_heap st) (choose_d (get_dict (st_heap st) (fst ob)) l)) as [D _].
    now apply (hwf_push_derived _ _ _ _ W D).
  - simpl. rewrite (pair_eta (h_of_db _ _)).
    destruct (h_of_db_derived _ ob _ C (sub_dict_filter_db _ ob (fun kr => f (fst kr)) C)) as [D _].
    now apply (hwf_push_derived _ _ _ _ W D).
  - simpl. rewrite (pair_eta (h_of_db_copy _ _)).
    destruct (h_of_db_copy_facts (st_heap st) (filter (fun kr => f (fst kr)) (get_dict (st_heap st) (fst ob)))) as [D _].
    now apply (hwf_push_derived _ _ _ _ W D).
  - simpl. rewrite (pair_eta (h_of_db _ _)).
    destruct (h_of_db_derived _ ob _ C
                (sub_dict_filter_db _ ob (fun kr => g (fst kr) (get_set (st_heap st) (snd kr))) C)) as [D _].
    now apply (hwf_push_derived _ _ _ _ W D).
  - simpl. rewrite (pair_eta (h_of_db_copy _ _)).
    destruct (h_of_db_copy_facts (st_heap st)
                (filter (fun kr => g (fst kr) (get_set (st_heap st) (snd kr))) (get_dict (st_heap st) (fst ob)))) as [D _].
    now apply (hwf_push_derived _ _ _ _ W D).
  - simpl. rewrite (pair_eta (h_of_rdb _ _)).
    destruct (h_of_rdb_derived _ ob _ C (sub_dict_filter_rdb _ ob (fun kr => f (fst kr)) C)) as [D _].
    now apply (hwf_push_derived _ _ _ _ W D).
  - simpl. rewrite (pair_eta (h_of_rdb_copy _ _)).
    destruct (h_of_rdb_copy_facts (st_heap st) (filter (fun kr => f (fst kr)) (get_dict (st_heap st) (snd ob)))) as [D _].
    now apply (hwf_push_derived _ _ _ _ W D).
  - (* facet *)
    pose proof (h_new_facts (st_heap st)) as T.
    destruct (h_new (st_heap st)) as [h1 fc] eqn:En. cbn [fst snd] in T.
    destruct T as [[E Cf D1 D2 R] _].
    destruct (h_facet fx h1 (get_dict (st_heap st) (fst ob)) fc order) as [[h2 tr]|e] eqn:Ef; [|exact W].
    simpl. pose proof (h_facet_facts fx order h1 _ fc h2 tr Cf Ef) as F.
    destruct W as [W1 W2]. unfold new_obj. simpl. constructor; simpl.
    + intros i b Hb. apply nth_error_snoc in Hb. destruct Hb as [[_ Hb]|[_ ->]]; [|apply (ff_closed _ _ _ _ _ _ F)].
      assert (Cb : closed_obj h1 b) by (eapply ext_closed; [exact E|now apply (W1 i)]).
      apply (ff_frame _ _ _ _ _ _ F b Cb).
      apply (derived_sep (st_heap st) h1 [] fc b); [now constructor|now apply (W1 i)|intros r []].
    + intros i j a b Ha Hb. apply nth_error_snoc in Ha. apply nth_error_snoc in Hb.
      destruct Ha as [[_ Ha]|[_ ->]], Hb as [[_ Hb]|[_ ->]].
      * now apply (W2 i j).
      * apply dict_rel_sym. right. right. apply (fresh_dicts_disjoint (st_heap st)); try assumption.
        now apply (W1 i).
      * right. right. apply (fresh_dicts_disjoint (st_heap st)); try assumption. now apply (W1 j).
      * now left.
Qed.

Definition hrun (fx : bool) (st : hstate) (ops : list hop) : hstate :=
  fold_left (fun st op => hstate_of (hstep fx st op)) ops st.

Theorem hrun_hwf fx ops : forall st, hwf st -> hwf (hrun fx st ops).
Proof.
  induction ops as [|op ops IH]; intros st W; simpl; [assumption|]. now apply IH, hstep_hwf.
Qed.
