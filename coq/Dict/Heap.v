(** C09 MODEL — pointer-level transcription of
      debian/_util.py : LinkedListNode, LinkedList, OrderedSet, _CaseInsensitiveString
      debian/deb822.py: Deb822Dict (+ Deb822.__setitem__/validate_input, _dump_format,
                        the line loop of _internal_parser for plain text)
    as the code is in /repo now.  No proofs here.

    Objects.  A LinkedListNode is a cell [{prev; next; value}] of one global
    heap (a finite map from ids), allocated with a fresh id; all paragraphs of a
    history live in the SAME heap, so aliasing between a paragraph and its copy
    would be visible.  [previous_node] is a weak reference in the code; it is
    modelled as an ordinary id (every node of a list is strongly reachable from
    [head_node], so the weak reference is never dead while it can be followed).
    LinkedList / OrderedSet / Deb822Dict objects are owned by exactly one
    parent, so they are records threaded by value.

    Exceptions.  Every method is a state-and-error computation
    [state -> result A * state]: when an exception is raised the mutations
    performed so far REMAIN (this is what makes "a failed operation leaves the
    mapping unchanged" a theorem and not a convention).  [Err OtherError] at a
    heap lookup means a dangling id and [Err OutOfFuel] in a walk means a cyclic
    list (Python would loop for ever); neither is a Python exception, both are
    excluded by the representation invariant (Props/C09.v).

    [lower] is [str.lower]: a parameter.  Nothing is assumed about it. *)
From Coq Require Import FMapPositive.
From Verif Require Import Lib.Base Lib.PyStr Gen.PyChars Dict.Common.

Definition id := positive.

Record node := mkNode { n_prev : option id; n_next : option id; n_value : str }.

Record heap := mkHeap { cells : PositiveMap.t node; nxt : id }.
Definition heap0 : heap := mkHeap (PositiveMap.empty node) 1%positive.
Definition hget (h : heap) (i : id) : option node := PositiveMap.find i (cells h).
Definition hput (i : id) (n : node) (h : heap) : heap :=
  mkHeap (PositiveMap.add i n (cells h)) (nxt h).

Definition oid_eqb (a b : option id) : bool := option_eqb Pos.eqb a b.   (* [a is b] *)

(** * State-and-error monad *)
Definition M (S A : Type) : Type := S -> result A * S.
Definition ret {S A} (a : A) : M S A := fun s => (Ok a, s).
Definition raise {S A} (e : err) : M S A := fun s => (Err e, s).
Definition mbind {S A B} (m : M S A) (f : A -> M S B) : M S B :=
  fun s => match m s with
           | (Ok a, s') => f a s'
           | (Err e, s') => (Err e, s')
           end.
Notation "'mdo' x <- m ; k" := (mbind m (fun x => k))
  (at level 200, x pattern, m at level 100, k at level 200, right associativity).
Definition get {S} : M S S := fun s => (Ok s, s).
Definition put {S} (s : S) : M S unit := fun _ => (Ok tt, s).
(** run [m] on a component of the state *)
Definition zoom {S T A} (prj : S -> T) (upd : S -> T -> S) (m : M T A) : M S A :=
  fun s => let (r, t) := m (prj s) in (r, upd s t).
Definition lift_result {S A} (r : result A) : M S A :=
  match r with Ok a => ret a | Err e => raise e end.

(** * LinkedListNode *)
Definition load (i : id) : M heap node :=
  fun h => match hget h i with Some n => (Ok n, h) | None => (Err OtherError, h) end.
Definition store (i : id) (n : node) : M heap unit := fun h => (Ok tt, hput i n h).

(** LinkedListNode(value) *)
Definition halloc (v : str) (h : heap) : heap :=
  mkHeap (PositiveMap.add (nxt h) (mkNode None None v) (cells h)) (Pos.succ (nxt h)).
Definition new_node (v : str) : M heap id := fun h => (Ok (nxt h), halloc v h).

Definition set_prev (i : id) (p : option id) : M heap unit :=
  mdo n <- load i; store i (mkNode p (n_next n) (n_value n)).
Definition set_next (i : id) (x : option id) : M heap unit :=
  mdo n <- load i; store i (mkNode (n_prev n) x (n_value n)).

(** link_nodes(previous_node, next_node) *)
Definition link_nodes (p n : option id) : M heap unit :=
  mdo _ <- (match n with Some j => set_prev j p | None => ret tt end);
  match p with Some i => set_next i n | None => ret tt end.

(** node.remove() *)
Definition node_remove (i : id) : M heap str :=
  mdo n <- load i;
  mdo _ <- link_nodes (n_prev n) (n_next n);
  mdo _ <- set_prev i None;
  mdo _ <- set_next i None;
  mdo n' <- load i;
  ret (n_value n').

(** _insert_link(first_node, new_node, last_node) *)
Definition insert_link (first : option id) (new : id) (last : option id) : M heap unit :=
  mdo _ <- link_nodes first (Some new);
  link_nodes (Some new) last.

(** self.insert_before(new_node) *)
Definition node_insert_before (self new : id) : M heap unit :=
  mdo n <- load self;
  if Pos.eqb self new || oid_eqb (Some new) (n_prev n) then raise AssertionError
  else insert_link (n_prev n) new (Some self).

(** self.insert_after(new_node) *)
Definition node_insert_after (self new : id) : M heap unit :=
  mdo n <- load self;
  if Pos.eqb self new || oid_eqb (Some new) (n_next n) then raise AssertionError
  else insert_link (Some self) new (n_next n).

(** node.iter_next(): [while node: yield node; node = node.next_node], values
    collected.  Fuel = number of ids ever allocated + 1; running out of it means
    some id was visited twice, i.e. a cycle. *)
Fixpoint walk (h : heap) (fuel : nat) (cur : option id) : result (list str) :=
  match cur with
  | None => Ok []
  | Some i =>
      match fuel with
      | O => Err OutOfFuel
      | S f =>
          match hget h i with
          | None => Err OtherError
          | Some n => do r <- walk h f (n_next n); Ok (n_value n :: r)
          end
      end
  end.
Definition walk_fuel (h : heap) : nat := Pos.to_nat (nxt h).

(** * LinkedList *)
Record llist := mkLL { ll_head : option id; ll_tail : option id; ll_size : nat }.
Definition ll_empty : llist := mkLL None None 0.

Definition lst := (heap * llist)%type.
Definition on_heap {A} (m : M heap A) : M lst A := zoom fst (fun s h => (h, snd s)) m.
Definition get_ll : M lst llist := fun s => (Ok (snd s), s).
Definition set_head (x : option id) : M lst unit :=
  fun s => (Ok tt, (fst s, mkLL x (ll_tail (snd s)) (ll_size (snd s)))).
Definition set_tail (x : option id) : M lst unit :=
  fun s => (Ok tt, (fst s, mkLL (ll_head (snd s)) x (ll_size (snd s)))).
Definition set_size (n : nat) : M lst unit :=
  fun s => (Ok tt, (fst s, mkLL (ll_head (snd s)) (ll_tail (snd s)) n)).

(** LinkedList.remove_node(node): first the head/tail bookkeeping ... *)
Definition ll_fix_ends (i : id) : M lst unit :=
  mdo l <- get_ll;
  if oid_eqb (Some i) (ll_head l) then              (* if node is self.head_node: *)
    mdo n <- on_heap (load i);
    mdo _ <- set_head (n_next n);                   (*   self.head_node = node.next_node *)
    match n_next n with                             (*   if self.head_node is None: *)
    | None => set_tail None                         (*       self.tail_node = None *)
    | Some _ => ret tt
    end
  else if oid_eqb (Some i) (ll_tail l) then         (* elif node is self.tail_node: *)
    mdo n <- on_heap (load i);
    mdo _ <- set_tail (n_prev n);                   (*   self.tail_node = node.previous_node *)
    match n_prev n with                             (*   assert self.tail_node is not None *)
    | None => raise AssertionError
    | Some _ => ret tt
    end
  else ret tt.

(** ... then the size and the unlinking *)
Definition ll_remove_node (i : id) : M lst unit :=
  mdo _ <- ll_fix_ends i;
  mdo l <- get_ll;
  match ll_size l with                               (* assert self._size > 0 *)
  | O => raise AssertionError
  | S k =>
      mdo _ <- set_size k;                           (* self._size -= 1 *)
      mdo _ <- on_heap (node_remove i);              (* node.remove() *)
      ret tt
  end.

(** LinkedList.append(value) *)
Definition ll_append (v : str) : M lst id :=
  mdo i <- on_heap (new_node v);
  mdo l <- get_ll;
  mdo _ <-
    (match ll_head l with
     | None => mdo _ <- set_head (Some i); set_tail (Some i)
     | Some _ =>
         match ll_tail l with
         | None => raise AssertionError              (* assert self.tail_node is not None *)
         | Some t =>
             mdo _ <- on_heap (node_insert_after t i);
             set_tail (Some i)
         end
     end);
  mdo l <- get_ll;
  mdo _ <- set_size (S (ll_size l));
  ret i.

(** LinkedList.insert_node_before(new_node, existing_node) *)
Definition ll_insert_node_before (new existing : id) : M lst id :=
  mdo l <- get_ll;
  match ll_head l with
  | None => raise ValueError
  | Some _ =>
      mdo n <- on_heap (load new);
      if is_some (n_next n) || is_some (n_prev n) then raise ValueError
      else
        mdo _ <- on_heap (node_insert_before existing new);
        mdo l <- get_ll;
        mdo _ <- (if oid_eqb (Some existing) (ll_head l) then set_head (Some new) else ret tt);
        mdo l <- get_ll;
        mdo _ <- set_size (S (ll_size l));
        ret new
  end.

(** LinkedList.insert_node_after(new_node, existing_node) *)
Definition ll_insert_node_after (new existing : id) : M lst id :=
  mdo l <- get_ll;
  match ll_tail l with
  | None => raise ValueError
  | Some _ =>
      mdo n <- on_heap (load new);
      if is_some (n_next n) || is_some (n_prev n) then raise ValueError
      else
        mdo _ <- on_heap (node_insert_after existing new);
        mdo l <- get_ll;
        mdo _ <- (if oid_eqb (Some existing) (ll_tail l) then set_tail (Some new) else ret tt);
        mdo l <- get_ll;
        mdo _ <- set_size (S (ll_size l));
        ret new
  end.

(** insert_before(value, existing_node) / insert_after(value, existing_node):
    the node is allocated before anything is checked. *)
Definition ll_insert_before (v : str) (existing : id) : M lst id :=
  mdo i <- on_heap (new_node v); ll_insert_node_before i existing.
Definition ll_insert_after (v : str) (existing : id) : M lst id :=
  mdo i <- on_heap (new_node v); ll_insert_node_after i existing.

(** LinkedList.insert_at_head(value) *)
Definition ll_insert_at_head (v : str) : M lst id :=
  mdo l <- get_ll;
  match ll_head l with
  | None => ll_append v
  | Some hd => ll_insert_before v hd
  end.

(** list(self): iter_nodes from head_node *)
Definition ll_values : M lst (list str) :=
  fun s => (walk (fst s) (walk_fuel (fst s)) (ll_head (snd s)), s).

Section WithLower.
Variable lower : str -> str.

(** * OrderedSet.  [__table] is keyed by _strI objects, whose hash and equality
    are those of [str_lower]: the model keys it by [lower item]. *)
Record oset := mkOS { os_table : tbl id; os_order : llist }.
Definition os_empty : oset := mkOS [] ll_empty.

Definition sst := (heap * oset)%type.
Definition on_order {A} (m : M lst A) : M sst A :=
  zoom (fun s => (fst s, os_order (snd s)))
       (fun s t => (fst t, mkOS (os_table (snd s)) (snd t))) m.
Definition on_heap_s {A} (m : M heap A) : M sst A := zoom fst (fun s h => (h, snd s)) m.
Definition get_table : M sst (tbl id) := fun s => (Ok (os_table (snd s)), s).
Definition put_table (t : tbl id) : M sst unit :=
  fun s => (Ok tt, (fst s, mkOS t (os_order (snd s)))).

(** item in self *)
Definition os_contains (item : str) : M sst bool :=
  mdo t <- get_table; ret (t_mem (lower item) t).

(** self.__table[item]  (KeyError) *)
Definition os_lookup (item : str) : M sst id :=
  mdo t <- get_table;
  match t_get (lower item) t with Some i => ret i | None => raise KeyError end.

(** OrderedSet.add(item) *)
Definition os_add (item : str) : M sst unit :=
  mdo b <- os_contains item;
  if b then ret tt
  else
    mdo i <- on_order (ll_append item);
    mdo t <- get_table;
    put_table (t_set (lower item) i t).

(** OrderedSet.remove(item) *)
Definition os_remove (item : str) : M sst unit :=
  mdo i <- os_lookup item;                          (* node = self.__table[item] *)
  mdo t <- get_table;
  mdo _ <- put_table (t_del (lower item) t);        (* del self.__table[item] *)
  on_order (ll_remove_node i).                      (* self.__order.remove_node(node) *)

(** OrderedSet._reorder(item, reinserter) *)
Definition os_reorder (item : str) (reinserter : str -> M lst id) : M sst unit :=
  mdo i <- os_lookup item;                          (* node = self.__table[item] *)
  mdo _ <- on_order (ll_remove_node i);             (* self.__order.remove_node(node) *)
  mdo n <- on_heap_s (load i);
  mdo j <- on_order (reinserter (n_value n));       (* new_node = reinserter(node.value) *)
  mdo t <- get_table;
  put_table (t_set (lower item) j t).               (* self.__table[item] = new_node *)

Definition os_order_last (item : str) : M sst unit := os_reorder item ll_append.
Definition os_order_first (item : str) : M sst unit := os_reorder item ll_insert_at_head.

(** order_before(item, reference_item): the self-reference test comes first,
    then the reference lookup, then (in _reorder) the item lookup; nothing is
    unlinked before all of them have succeeded. *)
Definition os_order_before (item ref : str) : M sst unit :=
  if str_eqb (lower item) (lower ref) then raise ValueError      (* item == reference_item *)
  else
    mdo r <- os_lookup ref;
    os_reorder item (fun x => ll_insert_before x r).
Definition os_order_after (item ref : str) : M sst unit :=
  if str_eqb (lower item) (lower ref) then raise ValueError
  else
    mdo r <- os_lookup ref;
    os_reorder item (fun x => ll_insert_after x r).

Definition os_values : M sst (list str) := on_order ll_values.
Definition os_len : M sst nat := fun s => (Ok (ll_size (os_order (snd s))), s).

(** OrderedSet(iterable) *)
Fixpoint os_extend (xs : list str) : M sst unit :=
  match xs with
  | [] => ret tt
  | x :: xs' => mdo _ <- os_add x; os_extend xs'
  end.

(** * Deb822Dict / Deb822 (no _parsed backing, str values).  [__dict] is keyed by
    _strI objects like the table. *)
Record dobj := mkD { d_keys : oset; d_vals : tbl str }.
Definition d_empty : dobj := mkD os_empty [].

Definition dst := (heap * dobj)%type.
Definition on_keys {A} (m : M sst A) : M dst A :=
  zoom (fun s => (fst s, d_keys (snd s)))
       (fun s t => (fst t, mkD (snd t) (d_vals (snd s)))) m.
Definition get_vals : M dst (tbl str) := fun s => (Ok (d_vals (snd s)), s).
Definition put_vals (t : tbl str) : M dst unit :=
  fun s => (Ok tt, (fst s, mkD (d_keys (snd s)) t)).

(** Deb822.validate_input(key, value) *)
Definition validate_input (v : str) : result unit :=
  if endswith [LF] v then Err ValueError
  else
    match splitlines py_islinebreak false v with
    | [] => Ok tt
    | _ :: rest =>
        if forallb (fun line => match line with [] => false | c :: _ => py_isspace c end) rest
        then Ok tt else Err ValueError
    end.

(** Deb822.__setitem__ = validate_input; Deb822Dict.__setitem__ *)
Definition d_setitem (k v : str) : M dst unit :=
  mdo _ <- lift_result (validate_input v);
  mdo _ <- on_keys (os_add k);                      (* self.__keys.add(keyi) *)
  mdo t <- get_vals;
  put_vals (t_set (lower k) v t).                   (* self.__dict[keyi] = value *)

(** Deb822Dict.__getitem__ (self.__parsed is None; decode is the identity on str) *)
Definition d_getitem (k : str) : M dst str :=
  mdo t <- get_vals;
  match t_get (lower k) t with Some v => ret v | None => raise KeyError end.

(** Deb822Dict.__delitem__ *)
Definition d_delitem (k : str) : M dst unit :=
  mdo _ <- on_keys (os_remove k);                   (* self.__keys.remove(keyi) *)
  mdo t <- get_vals;
  put_vals (t_del (lower k) t).                     (* try: del self.__dict[keyi] except KeyError: pass *)

Definition d_contains (k : str) : M dst bool := on_keys (os_contains k).
Definition d_len : M dst nat := on_keys os_len.
Definition d_iter : M dst (list str) := on_keys os_values.   (* str(key) for key in self.__keys *)

Definition d_order_first (k : str) : M dst unit := on_keys (os_order_first k).
Definition d_order_last (k : str) : M dst unit := on_keys (os_order_last k).
Definition d_order_before (k r : str) : M dst unit := on_keys (os_order_before k r).
Definition d_order_after (k r : str) : M dst unit := on_keys (os_order_after k r).

(** sort_fields(key): self.__keys = OrderedSet(sorted(self.__keys, key=key)); the key
    function is applied to the keys as spelled.  The new set (new list, new nodes) is
    complete before it is assigned. *)
Definition d_sort_fields (sk : sortkey) : M dst unit :=
  mdo ks <- d_iter;
  fun s =>
    match os_extend (sort_by (sort_key lower sk) ks) (fst s, os_empty) with
    | (Ok _, (h', set')) => (Ok tt, (h', mkD set' (d_vals (snd s))))
    | (Err e, (h', _)) => (Err e, (h', snd s))
    end.

(** _dump_format / dump() *)
Definition dump_entry (k v : str) : str :=
  match v with
  | [] => k ++ [58] ++ v ++ [LF]
  | c :: _ => if (c =? LF)%N then k ++ [58] ++ v ++ [LF] else k ++ [58; SP] ++ v ++ [LF]
  end%N.

Fixpoint d_items_of (ks : list str) : M dst items :=
  match ks with
  | [] => ret []
  | k :: ks' => mdo v <- d_getitem k; mdo r <- d_items_of ks'; ret ((k, v) :: r)
  end.
(** list(d.items()) *)
Definition d_items : M dst items := mdo ks <- d_iter; d_items_of ks.
Definition d_dump : M dst str :=
  mdo its <- d_items; ret (concat (map (fun kv => dump_entry (fst kv) (snd kv)) its)).

(** The line loop of Deb822._internal_parser on a str, default strictness, no
    [fields] filter, no PGP armour lines: the sequence of [self[curkey] = content]. *)
Definition is_key_stop (c : N) : bool :=           (* [: \t\n\r\f\v] *)
  ((c =? 58) || (c =? 32) || ((9 <=? c) && (c <=? 13)))%N.

(** _single / _multi:  ^(?P<key>[^: \t\n\r\f\v]+)\s*:\s*(?P<data>\S.*?)\s*$  |  ^key\s*:\s*$ *)
Definition parse_line (line : str) : option (str * str) :=
  let (k, rest) := span (fun c => negb (is_key_stop c)) line in
  match k with
  | [] => None
  | _ =>
      match lstrip_by py_isspace rest with
      | 58%N :: rest' => Some (k, strip_by py_isspace rest')
      | _ => None
      end
  end.

(** _multidata: ^\s(?P<data>.+?)\s*$ *)
Definition is_multidata (line : str) : bool :=
  match line with c :: _ :: _ => py_isspace c | _ => false end.

Definition is_nil (l : str) : bool := match l with [] => true | _ => false end.
Definition is_blank_bytes (l : str) : bool := forallb bytes_isspace l.   (* br'^\s*$' *)

(** _skip_useless_lines, then split_gpg_and_payload()[1] *)
Definition payload (lines : list str) : list str :=
  let ls := filter (fun l => negb (startswith [35%N] l)) lines in
  let ls := dropwhile is_nil ls in
  let ls := dropwhile is_blank_bytes ls in
  takewhile (fun l => negb (is_blank_bytes l)) ls.

Definition flush (cur : option (str * str)) : list (str * str) :=
  match cur with Some kv => [kv] | None => [] end.

Fixpoint parse_fields (lines : list str) (cur : option (str * str)) : list (str * str) :=
  match lines with
  | [] => flush cur
  | l :: ls =>
      match parse_line l with
      | Some kv => flush cur ++ parse_fields ls (Some kv)
      | None =>
          if is_multidata l
          then parse_fields ls
                 (match cur with Some (k, c) => Some (k, c ++ LF :: l) | None => None end)
          else parse_fields ls cur
      end
  end.

Definition parse_text (text : str) : list (str * str) :=
  parse_fields (payload (splitlines py_islinebreak false text)) None.

Fixpoint d_update (its : list (str * str)) : M dst unit :=
  match its with
  | [] => ret tt
  | (k, v) :: its' => mdo _ <- d_setitem k v; d_update its'
  end.

(** * The world of a history: one heap, the list of paragraph objects. *)
Record world := mkW { w_heap : heap; w_objs : list dobj }.

(** run a method of object [o] *)
Definition on_obj {A} (o : nat) (m : M dst A) (w : world) : option (result A * world) :=
  match nth_error (w_objs w) o with
  | None => None
  | Some d =>
      let '(r, (h', d')) := m (w_heap w, d) in
      Some (r, mkW h' (set_nth o d' (w_objs w)))
  end.

(** Deb822(mapping): [for k, v in items: self[k] = v]; a ValueError is caught and
    the handler evaluates [items[this]] on a dict_items / ItemsView object, which
    raises TypeError. *)
Definition d_init_from (its : list (str * str)) : M dst unit :=
  fun s => match d_update its s with
           | (Err ValueError, s') => (Err TypeError, s')
           | r => r
           end.

(** d.copy() = Deb822(d): ItemsView over the source, lazily: the source list is
    walked node by node while the copy is being filled (in the same heap);
    [node = node.next_node] is read after the loop body has run. *)
Fixpoint copy_loop (fuel : nat) (src : dobj) (cur : option id) : M dst unit :=
  match cur with
  | None => ret tt
  | Some i =>
      match fuel with
      | O => raise OutOfFuel
      | S f =>
          mdo n <- zoom fst (fun s h => (h, snd s)) (load i);        (* yield node.value *)
          mdo v <- (fun s => (fst (d_getitem (n_value n) (fst s, src)), s));  (* self._mapping[key] *)
          mdo _ <- d_setitem (n_value n) v;                          (* copy[k] = v *)
          mdo n' <- zoom fst (fun s h => (h, snd s)) (load i);       (* node = node.next_node *)
          copy_loop f src (n_next n')
      end
  end.

Definition d_copy_into (src : dobj) : M dst unit :=
  fun s =>
    match copy_loop (walk_fuel (fst s)) src (ll_head (os_order (d_keys src))) s with
    | (Err ValueError, s') => (Err TypeError, s')
    | r => r
    end.

(** create a new object with [init]; it is appended only if no exception escaped *)
Definition new_obj (init : M dst unit) (w : world) : out * world :=
  match init (w_heap w, d_empty) with
  | (Ok _, (h', d')) => (RNone, mkW h' (w_objs w ++ [d']))
  | (Err e, (h', _)) => (RErr e, mkW h' (w_objs w))
  end.

Definition out_of {A} (f : A -> out) (r : result A) : out :=
  match r with Ok a => f a | Err e => RErr e end.

(** An operation on a missing object index is a no-op of the driver, not of the code. *)
Definition no_obj : out := RErr IndexError.

Definition run_on {A} (o : nat) (m : M dst A) (f : A -> out) (w : world) : out * world :=
  match on_obj o m w with
  | None => (no_obj, w)
  | Some (r, w') => (out_of f r, w')
  end.

Definition step (w : world) (x : op) : out * world :=
  match x with
  | OSet o k v => run_on o (d_setitem k v) (fun _ => RNone) w
  | OGet o k => run_on o (d_getitem k) RStr w
  | ODel o k => run_on o (d_delitem k) (fun _ => RNone) w
  | OContains o k => run_on o (d_contains k) RBool w
  | OLen o => run_on o d_len RNat w
  | OIter o => run_on o d_iter RKeys w
  | OFirst o k => run_on o (d_order_first k) (fun _ => RNone) w
  | OLast o k => run_on o (d_order_last k) (fun _ => RNone) w
  | OBefore o k r => run_on o (d_order_before k r) (fun _ => RNone) w
  | OAfter o k r => run_on o (d_order_after k r) (fun _ => RNone) w
  | OSort o sk => run_on o (d_sort_fields sk) (fun _ => RNone) w
  | ODump o => run_on o d_dump RStr w
  | OCopy o =>
      match nth_error (w_objs w) o with
      | None => (no_obj, w)
      | Some src => new_obj (d_copy_into src) w
      end
  | OReparse o =>
      match on_obj o d_dump w with
      | None => (no_obj, w)
      | Some (Err e, w') => (RErr e, w')
      | Some (Ok text, w') => new_obj (d_update (parse_text text)) w'
      end
  end.

Definition world0 : world := mkW heap0 [].

(** The initial paragraph.  [None]: the constructor raised. *)
Definition start_world (s : start) : out * world :=
  match s with
  | SEmpty => new_obj (ret tt) world0
  | SDict its => new_obj (d_init_from its) world0
  | SParsed text _ => new_obj (d_update (parse_text text)) world0
  end.

Fixpoint run (w : world) (xs : list op) : world :=
  match xs with
  | [] => w
  | x :: xs' => run (snd (step w x)) xs'
  end.

(** * Observation (what the harness records after every operation) *)
Definition obj_items (w : world) (d : dobj) : result items := fst (d_items (w_heap w, d)).

Definition obj_view (alphabet : list str) (w : world) (d : dobj) : result view :=
  let s := (w_heap w, d) in
  do its <- fst (d_items s);
  do n <- fst (d_len s);
  do text <- fst (d_dump s);
  Ok (mkView its n (map (fun k => t_mem (lower k) (os_table (d_keys d))) alphabet) text).

(** index of the object whose full view is recorded after [x] *)
Definition viewed (nobjs_before nobjs_after : nat) (x : op) : nat :=
  match x with
  | OCopy _ | OReparse _ => if Nat.ltb nobjs_before nobjs_after then nobjs_before else op_target x
  | _ => op_target x
  end.

Definition frame_of (alphabet : list str) (nb : nat) (x : op) (r : out) (w : world) : frame :=
  mkFrame r
    (match nth_error (w_objs w) (viewed nb (length (w_objs w)) x) with
     | Some d => obj_view alphabet w d
     | None => Err IndexError
     end)
    (map (obj_items w) (w_objs w)).

Fixpoint trace (alphabet : list str) (w : world) (xs : list op) : list frame :=
  match xs with
  | [] => []
  | x :: xs' =>
      let (r, w') := step w x in
      frame_of alphabet (length (w_objs w)) x r w' :: trace alphabet w' xs'
  end.

End WithLower.
