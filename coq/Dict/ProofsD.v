(** C09 proofs, layer 3: one Deb822Dict object against the association-list
    reference (Spec.v). *)
From Coq Require Import FMapPositive Permutation.
From Verif Require Import Lib.Base Lib.PyStr Gen.PyChars Dict.Common Dict.Heap Dict.Spec
  Dict.ProofsLL Dict.ProofsOS.

(** * Pure facts about the reference *)
Section SpecFacts.
Variable lower : str -> str.

Definition keyI (p : str * str) : str := lower (fst p).

Lemma afind_cons_none {B} (key : B -> str) kl x a :
  afind key kl (x :: a) = None -> str_eqb kl (key x) = false /\ afind key kl a = None.
Proof. cbn. destruct (str_eqb kl (key x)); [discriminate|auto]. Qed.

Lemma nodup_none_left {B} (key : B -> str) a x b :
  NoDup (map key (a ++ x :: b)) -> afind key (key x) a = None.
Proof.
  intros Hnd. apply afind_none. rewrite map_app in Hnd. cbn in Hnd.
  apply NoDup_remove_2 in Hnd. intros Hin. apply Hnd. apply in_app_iff. now left.
Qed.

Lemma s_find_afind k d : s_find lower k d = afind keyI (lower k) d.
Proof.
  induction d as [|[k' v] d IH]; cbn; [reflexivity|]. unfold same, keyI at 1. cbn [fst].
  destruct (str_eqb (lower k) (lower k')); auto.
Qed.

Lemma s_has_afind k d : s_has lower k d = is_some (afind keyI (lower k) d).
Proof. unfold s_has. now rewrite s_find_afind. Qed.

Lemma s_remove_mid k a k' v' b :
  afind keyI (lower k) a = None -> lower k' = lower k ->
  s_remove lower k (a ++ (k', v') :: b) = a ++ b.
Proof.
  intros Hn Hk. induction a as [|[k0 v0] a IH]; cbn.
  - unfold same. now rewrite Hk, str_eqb_refl.
  - apply afind_cons_none in Hn. destruct Hn as [E Hn]. unfold same. unfold keyI in E. cbn [fst] in E.
    rewrite E. now rewrite IH.
Qed.

Lemma s_set_mid k v a k' v' b :
  afind keyI (lower k) a = None -> lower k' = lower k ->
  s_set lower k v (a ++ (k', v') :: b) = a ++ (k', v) :: b.
Proof.
  intros Hn Hk. induction a as [|[k0 v0] a IH]; cbn.
  - unfold same. now rewrite Hk, str_eqb_refl.
  - apply afind_cons_none in Hn. destruct Hn as [E Hn]. unfold same. unfold keyI in E. cbn [fst] in E.
    rewrite E. now rewrite IH.
Qed.

Lemma s_set_absent k v d :
  afind keyI (lower k) d = None -> s_set lower k v d = d ++ [(k, v)].
Proof.
  intros Hn. induction d as [|[k0 v0] d IH]; cbn; [reflexivity|].
  apply afind_cons_none in Hn. destruct Hn as [E Hn]. unfold same. unfold keyI in E. cbn [fst] in E.
  rewrite E. now rewrite IH.
Qed.

Lemma s_insert_before_mid p r a k' v' b :
  afind keyI (lower r) a = None -> lower k' = lower r ->
  s_insert_before lower p r (a ++ (k', v') :: b) = a ++ p :: (k', v') :: b.
Proof.
  intros Hn Hk. induction a as [|[k0 v0] a IH]; cbn.
  - unfold same. now rewrite Hk, str_eqb_refl.
  - apply afind_cons_none in Hn. destruct Hn as [E Hn]. unfold same. unfold keyI in E. cbn [fst] in E.
    rewrite E. now rewrite IH.
Qed.

Lemma s_insert_after_mid p r a k' v' b :
  afind keyI (lower r) a = None -> lower k' = lower r ->
  s_insert_after lower p r (a ++ (k', v') :: b) = a ++ (k', v') :: p :: b.
Proof.
  intros Hn Hk. induction a as [|[k0 v0] a IH]; cbn.
  - unfold same. now rewrite Hk, str_eqb_refl.
  - apply afind_cons_none in Hn. destruct Hn as [E Hn]. unfold same. unfold keyI in E. cbn [fst] in E.
    rewrite E. now rewrite IH.
Qed.

(** the reference keeps keys distinct *)
Lemma s_set_keys k v d :
  map keyI (s_set lower k v d)
  = if is_some (afind keyI (lower k) d) then map keyI d else map keyI d ++ [lower k].
Proof.
  induction d as [|[k0 v0] d IH]; cbn; [reflexivity|].
  unfold same. change (keyI (k0, v0)) with (lower k0).
  destruct (str_eqb (lower k) (lower k0)); cbn; [reflexivity|].
  rewrite IH. destruct (afind keyI (lower k) d); reflexivity.
Qed.
End SpecFacts.

(** * Stable sort *)
Section SortFacts.
Context {A : Type} (key : A -> list Z).

Lemma insert_by_perm x l : Permutation (insert_by key x l) (x :: l).
Proof.
  induction l as [|y l IH]; cbn; [reflexivity|].
  destruct (zs_leb (key x) (key y)); [reflexivity|].
  rewrite IH. apply perm_swap.
Qed.

Lemma sort_by_perm l : Permutation (sort_by key l) l.
Proof.
  induction l as [|x l IH]; cbn; [reflexivity|]. rewrite insert_by_perm. now constructor.
Qed.

(** the order on key values is reflexive and total *)
Lemma zs_leb_refl a : zs_leb a a = true.
Proof. induction a as [|x a IH]; cbn; [reflexivity|]. now rewrite Z.ltb_irrefl. Qed.

Lemma zs_leb_total a : forall b, zs_leb a b = false -> zs_leb b a = true.
Proof.
  induction a as [|x a IH]; intros [|y b]; cbn; try discriminate; try reflexivity.
  destruct (x <? y)%Z eqn:E1; [discriminate|]. destruct (y <? x)%Z eqn:E2; [reflexivity|]. apply IH.
Qed.

Lemma zs_leb_trans a : forall b c, zs_leb a b = true -> zs_leb b c = true -> zs_leb a c = true.
Proof.
  induction a as [|x a IH]; intros [|y b] [|z c]; cbn; try discriminate; try reflexivity.
  destruct (x <? y)%Z eqn:E1.
  - intros _. destruct (y <? z)%Z eqn:E2.
    + intros _. apply Z.ltb_lt in E1, E2. assert (x <? z = true)%Z as -> by (apply Z.ltb_lt; lia). reflexivity.
    + destruct (z <? y)%Z eqn:E3; [discriminate|]. intros _.
      apply Z.ltb_lt in E1. apply Z.ltb_ge in E2, E3.
      assert (x <? z = true)%Z as -> by (apply Z.ltb_lt; lia). reflexivity.
  - destruct (y <? x)%Z eqn:E2; [discriminate|]. intros H1.
    apply Z.ltb_ge in E1, E2. assert (x = y) by lia. subst y.
    destruct (x <? z)%Z; [reflexivity|]. destruct (z <? x)%Z; [discriminate|]. now apply IH.
Qed.

Lemma zs_eqb_eq a b : zs_eqb a b = true <-> a = b.
Proof. apply list_eqb_eq. intros; apply Z.eqb_eq. Qed.

(** the output is in non-decreasing key order *)
Definition key_le (x y : A) : Prop := zs_leb (key x) (key y) = true.

Lemma insert_by_sorted x l :
  Sorted.StronglySorted key_le l -> Sorted.StronglySorted key_le (insert_by key x l).
Proof.
  induction 1 as [|y l Hs IH Hy]; cbn; [repeat constructor|].
  destruct (zs_leb (key x) (key y)) eqn:E.
  - constructor; [now constructor|]. constructor; [exact E|].
    rewrite Forall_forall in *. intros z Hz. eapply zs_leb_trans; [exact E|now apply Hy].
  - constructor; [exact IH|]. apply zs_leb_total in E.
    rewrite Forall_forall in *. intros z Hz.
    apply (Permutation_in _ (insert_by_perm x l)) in Hz. destruct Hz as [<-|Hz]; [exact E|now apply Hy].
Qed.

Lemma sort_by_sorted l : Sorted.StronglySorted key_le (sort_by key l).
Proof. induction l as [|x l IH]; cbn; [constructor|now apply insert_by_sorted]. Qed.

(** stability: the elements with any given key value keep their relative order *)
Lemma insert_by_filter k x l :
  filter (fun y => zs_eqb (key y) k) (insert_by key x l) = filter (fun y => zs_eqb (key y) k) (x :: l).
Proof.
  induction l as [|y l IH]; [reflexivity|]. cbn [insert_by].
  destruct (zs_leb (key x) (key y)) eqn:E; [reflexivity|].
  cbn [filter] in *. rewrite IH.
  destruct (zs_eqb (key x) k) eqn:Ex; [|reflexivity].
  destruct (zs_eqb (key y) k) eqn:Ey; [|reflexivity].
  apply zs_eqb_eq in Ex, Ey. rewrite Ex, Ey, zs_leb_refl in E. discriminate.
Qed.

Lemma sort_by_stable k l :
  filter (fun y => zs_eqb (key y) k) (sort_by key l) = filter (fun y => zs_eqb (key y) k) l.
Proof.
  induction l as [|x l IH]; [reflexivity|]. cbn [sort_by]. rewrite insert_by_filter.
  cbn [filter]. now rewrite IH.
Qed.
End SortFacts.

Lemma insert_by_map {A B} (f : A -> B) (key : B -> list Z) x l :
  insert_by key (f x) (map f l) = map f (insert_by (fun a => key (f a)) x l).
Proof.
  induction l as [|y l IH]; cbn; [reflexivity|].
  destruct (zs_leb (key (f x)) (key (f y))); cbn; [reflexivity|]. now rewrite IH.
Qed.

Lemma sort_by_map {A B} (f : A -> B) (key : B -> list Z) l :
  sort_by key (map f l) = map f (sort_by (fun a => key (f a)) l).
Proof. induction l as [|x l IH]; cbn; [reflexivity|]. now rewrite IH, insert_by_map. Qed.

(** * validate_input *)
Lemma splitlines_aux_nolb islb keep s : forall cur,
  forallb (fun c => negb (islb c)) s = true ->
  splitlines_aux islb keep s cur = match cur, s with [], [] => [] | _, _ => [rev cur ++ s] end.
Proof.
  induction s as [|x s IH]; intros cur H; cbn.
  - destruct cur; [reflexivity|]. now rewrite app_nil_r.
  - cbn in H. apply andb_true_iff in H. destruct H as [Hx Hs].
    destruct (islb x); [discriminate|]. rewrite IH by exact Hs. cbn.
    rewrite <- app_assoc. cbn. destruct cur; reflexivity.
Qed.

Definition has_lb (v : str) : bool := existsb py_islinebreak v.

Lemma validate_no_linebreak v : has_lb v = false -> validate_input v = Ok tt.
Proof.
  intros H. unfold validate_input.
  assert (Hall : forallb (fun c => negb (py_islinebreak c)) v = true).
  { unfold has_lb in H. induction v as [|c v IH]; cbn in *; [reflexivity|].
    apply orb_false_iff in H. destruct H as [-> H]. cbn. now apply IH. }
  assert (He : endswith [LF] v = false).
  { unfold endswith. cbn [rev app]. destruct (rev v) as [|c r] eqn:Er; [reflexivity|].
    cbn [startswith]. assert (Hin : In c v) by (apply in_rev; rewrite Er; now left).
    rewrite forallb_forall in Hall. apply Hall in Hin.
    destruct (LF =? c)%N eqn:E; [|reflexivity]. apply N.eqb_eq in E. subst c.
    vm_compute in Hin. discriminate. }
  rewrite He. unfold splitlines. rewrite splitlines_aux_nolb by exact Hall.
  destruct v; reflexivity.
Qed.

Lemma validate_err v e : validate_input v = Err e -> e = ValueError.
Proof.
  unfold validate_input. destruct (endswith [LF] v); [congruence|].
  destruct (splitlines py_islinebreak false v); [discriminate|].
  destruct (forallb _ _); [discriminate|congruence].
Qed.

(** * One Deb822Dict object *)
Section WithLower.
Variable lower : str -> str.

Notation keyI := (keyI lower).
Notation keyL := (keyL lower).

(** abstract content: node id, key as first spelled, value -- in list order *)
Definition cell := (id * (str * str))%type.
Definition node_of (c : cell) : id * str := (fst c, fst (snd c)).
Definition nodes (C : list cell) : list (id * str) := map node_of C.
Definition its (C : list cell) : items := map snd C.
Definition cids (C : list cell) : list id := map fst C.
Definition keyC (c : cell) : str := lower (fst (snd c)).

Lemma ids_nodes C : ids (nodes C) = cids C.
Proof. unfold ids, nodes, cids. rewrite map_map. reflexivity. Qed.
Lemma keys_nodes C : map keyL (nodes C) = map keyC C.
Proof. unfold nodes. rewrite map_map. reflexivity. Qed.
Lemma keys_its C : map keyI (its C) = map keyC C.
Proof. unfold its. rewrite map_map. reflexivity. Qed.
Lemma afind_nodes kl C : afind keyL kl (nodes C) = option_map node_of (afind keyC kl C).
Proof. unfold nodes. now rewrite afind_map. Qed.
Lemma afind_its kl C : afind keyI kl (its C) = option_map snd (afind keyC kl C).
Proof. unfold its. now rewrite afind_map. Qed.
Lemma nodes_app a b : nodes (a ++ b) = nodes a ++ nodes b.
Proof. apply map_app. Qed.
Lemma its_app a b : its (a ++ b) = its a ++ its b.
Proof. apply map_app. Qed.
Lemma cids_app a b : cids (a ++ b) = cids a ++ cids b.
Proof. apply map_app. Qed.

Definition valid_kv (kv : str * str) : Prop := validate_input (snd kv) = Ok tt.

Record d_rep (h : heap) (d : dobj) (C : list cell) : Prop := mkDRep {
  dr_os : os_rep lower h (d_keys d) (nodes C);
  dr_vals : forall kl, t_get kl (d_vals d) = option_map snd (afind keyI kl (its C));
  dr_vnd : NoDup (map fst (d_vals d));
  dr_valid : Forall valid_kv (its C);
}.

Lemma d_rep_empty h : d_rep h d_empty [].
Proof. constructor; cbn; auto using os_rep_empty; constructor. Qed.

Lemma d_rep_keys h d C : d_rep h d C -> NoDup (map keyC C).
Proof. intros R. rewrite <- keys_nodes. exact (or_keys _ _ _ _ (dr_os _ _ _ R)). Qed.

Lemma d_rep_bound h d C : d_rep h d C -> forall i, In i (cids C) -> (i < nxt h)%positive.
Proof. intros R i Hi. rewrite <- ids_nodes in Hi. exact (lr_bound _ _ _ (or_ll _ _ _ _ (dr_os _ _ _ R)) i Hi). Qed.

Lemma d_rep_nodup h d C : d_rep h d C -> NoDup (cids C).
Proof. intros R. rewrite <- ids_nodes. exact (lr_nodup _ _ _ (or_ll _ _ _ _ (dr_os _ _ _ R))). Qed.

Lemma d_rep_hframe h own h' d C :
  hframe h own h' -> (forall i, In i (cids C) -> ~ In i own) -> d_rep h d C -> d_rep h' d C.
Proof.
  intros Hf Hd [R V N Va]. constructor; auto. eapply os_rep_hframe; eauto.
  intros i Hi. apply Hd. now rewrite <- ids_nodes.
Qed.

(** what an operation on this object may do to the shared heap *)
Definition d_post (h : heap) (C : list cell) (h' : heap) (C' : list cell) : Prop :=
  hframe h (cids C) h' /\
  forall j, In j (cids C') -> In j (cids C) \/ (nxt h <= j)%positive.

Lemma d_post_refl h C : d_post h C h C.
Proof. split; [apply hframe_refl|auto]. Qed.

Lemma on_keys_eq {A} (m : M sst A) h d r h' os' :
  m (h, d_keys d) = (r, (h', os')) ->
  on_keys m (h, d) = (r, (h', mkD os' (d_vals d))).
Proof. intros E. unfold on_keys, zoom. cbn. now rewrite E. Qed.

Lemma mkD_eta d : mkD (d_keys d) (d_vals d) = d.
Proof. destruct d; reflexivity. Qed.

(** ** lookups *)
Lemma d_getitem_spec h d C k :
  d_rep h d C ->
  d_getitem lower k (h, d)
  = (match afind keyI (lower k) (its C) with Some (_, v) => Ok v | None => Err KeyError end, (h, d)).
Proof.
  intros R. unfold d_getitem, mbind, get_vals. cbn. rewrite (dr_vals _ _ _ R).
  destruct (afind keyI (lower k) (its C)) as [[k' v]|]; reflexivity.
Qed.

Lemma d_contains_spec h d C k :
  d_rep h d C ->
  d_contains lower k (h, d) = (Ok (is_some (afind keyI (lower k) (its C))), (h, d)).
Proof.
  intros R. unfold d_contains.
  rewrite (on_keys_eq _ _ _ _ _ _ (os_contains_spec lower _ _ _ k (dr_os _ _ _ R))), mkD_eta.
  rewrite afind_nodes, afind_its. destruct (afind keyC (lower k) C); reflexivity.
Qed.

Lemma d_len_spec h d C : d_rep h d C -> d_len (h, d) = (Ok (length (its C)), (h, d)).
Proof.
  intros R. unfold d_len.
  rewrite (on_keys_eq _ _ _ _ _ _ (os_len_spec lower _ _ _ (dr_os _ _ _ R))), mkD_eta.
  unfold nodes, its. now rewrite !map_length.
Qed.

Lemma d_iter_spec h d C : d_rep h d C -> d_iter (h, d) = (Ok (map fst (its C)), (h, d)).
Proof.
  intros R. unfold d_iter.
  rewrite (on_keys_eq _ _ _ _ _ _ (os_values_spec lower _ _ _ (dr_os _ _ _ R))), mkD_eta.
  unfold nodes, its. now rewrite !map_map.
Qed.

Lemma d_items_of_spec h d C : d_rep h d C ->
  forall sub, incl sub (its C) -> d_items_of lower (map fst sub) (h, d) = (Ok sub, (h, d)).
Proof.
  intros R. pose proof (d_rep_keys _ _ _ R) as K. rewrite <- keys_its in K.
  induction sub as [|[k v] sub IH]; intros Hin; [reflexivity|].
  cbn [map fst d_items_of].
  assert (E : afind keyI (lower k) (its C) = Some (k, v)).
  { apply afind_iff; [exact K|]. split; [apply Hin; now left|reflexivity]. }
  pose proof (d_getitem_spec _ _ _ k R) as G. rewrite E in G.
  rewrite (mbind_ok _ _ _ _ _ G).
  rewrite (mbind_ok _ _ _ _ _ (IH (fun x Hx => Hin x (or_intror Hx)))). reflexivity.
Qed.

Lemma d_items_spec h d C : d_rep h d C -> d_items lower (h, d) = (Ok (its C), (h, d)).
Proof.
  intros R. unfold d_items. rewrite (mbind_ok _ _ _ _ _ (d_iter_spec _ _ _ R)).
  apply (d_items_of_spec _ _ _ R). apply incl_refl.
Qed.

Lemma dump_entry_spec kv : dump_entry (fst kv) (snd kv) = s_dump_entry kv.
Proof.
  destruct kv as [k v]. cbn [fst snd]. unfold dump_entry, s_dump_entry.
  destruct v as [|c v]; [reflexivity|]. destruct (c =? LF)%N eqn:E.
  - change (c =? 10)%N with (c =? LF)%N. rewrite E. reflexivity.
  - change (c =? 10)%N with (c =? LF)%N. rewrite E. reflexivity.
Qed.

Lemma d_dump_spec h d C : d_rep h d C -> d_dump lower (h, d) = (Ok (s_dump (its C)), (h, d)).
Proof.
  intros R. unfold d_dump. rewrite (mbind_ok _ _ _ _ _ (d_items_spec _ _ _ R)).
  unfold ret, s_dump. do 3 f_equal. apply map_ext. intros kv. apply dump_entry_spec.
Qed.

(** ** assignment *)
Lemma its_mid c1 c c2 : its (c1 ++ c :: c2) = its c1 ++ snd c :: its c2.
Proof. unfold its. now rewrite map_app. Qed.
Lemma nodes_mid c1 c c2 : nodes (c1 ++ c :: c2) = nodes c1 ++ node_of c :: nodes c2.
Proof. unfold nodes. now rewrite map_app. Qed.
Lemma cids_mid c1 c c2 : cids (c1 ++ c :: c2) = cids c1 ++ fst c :: cids c2.
Proof. unfold cids. now rewrite map_app. Qed.

Lemma afind_its_none kl C : afind keyC kl C = None -> afind keyI kl (its C) = None.
Proof. intros H. now rewrite afind_its, H. Qed.
Lemma afind_nodes_none kl C : afind keyC kl C = None -> afind keyL kl (nodes C) = None.
Proof. intros H. now rewrite afind_nodes, H. Qed.

Lemma d_setitem_err h d k v e :
  validate_input v = Err e -> d_setitem lower k v (h, d) = (Err e, (h, d)).
Proof. intros Hv. unfold d_setitem. now rewrite Hv. Qed.

Lemma d_setitem_ok h d C k v :
  d_rep h d C -> validate_input v = Ok tt ->
  exists h' d' C',
    d_setitem lower k v (h, d) = (Ok tt, (h', d'))
    /\ d_rep h' d' C' /\ its C' = s_set lower k v (its C) /\ d_post h C h' C'.
Proof.
  intros R Hv. pose proof (d_rep_keys _ _ _ R) as K. pose proof R as [RO V N Va].
  unfold d_setitem. rewrite Hv. rewrite (mbind_ok _ _ (h, d) tt (h, d)) by reflexivity.
  destruct (afind keyC (lower k) C) as [[i [k' v']]|] eqn:E.
  - assert (Hne : afind keyL (lower k) (nodes C) <> None) by (rewrite afind_nodes, E; discriminate).
    rewrite (mbind_ok _ _ _ _ _ (on_keys_eq _ _ _ _ _ _ (os_add_present lower _ _ _ k RO Hne))).
    rewrite mkD_eta.
    apply afind_split in E. destruct E as [c1 [c2 [-> [Hk Hn]]]].
    change (lower k' = lower k) in Hk.
    exists h, (mkD (d_keys d) (t_set (lower k) v (d_vals d))), (c1 ++ (i, (k', v)) :: c2).
    split; [reflexivity|].
    assert (K' : NoDup (map keyC (c1 ++ (i, (k', v)) :: c2))).
    { rewrite map_app in *. exact K. }
    split; [|split].
    + constructor; cbn [d_keys d_vals].
      * rewrite nodes_mid in *. exact RO.
      * intros kl. rewrite t_get_set, V, !afind_its.
        rewrite (afind_mid keyC kl c1 (i, (k', v'))) by exact K.
        rewrite (afind_mid keyC kl c1 (i, (k', v))) by exact K'.
        change (keyC (i, (k', v'))) with (lower k'). change (keyC (i, (k', v))) with (lower k').
        rewrite Hk. destruct (str_eqb kl (lower k)); reflexivity.
      * now apply t_set_nodup.
      * rewrite its_mid in *. apply Forall_app in Va. destruct Va as [Va1 Va2].
        apply Forall_app. split; [exact Va1|]. inversion Va2; subst. constructor; [exact Hv|assumption].
    + rewrite !its_mid. cbn [snd]. symmetry. apply s_set_mid; [now apply afind_its_none|exact Hk].
    + split; [apply hframe_refl|]. intros j Hj. left. rewrite cids_mid in *. exact Hj.
  - pose proof (afind_nodes_none _ _ E) as En.
    destruct (os_add_absent lower h (d_keys d) (nodes C) k RO En) as [h' [os' [E1 [R1 [N1 F1]]]]].
    rewrite (mbind_ok _ _ _ _ _ (on_keys_eq _ _ _ _ _ _ E1)).
    exists h', (mkD os' (t_set (lower k) v (d_vals d))), (C ++ [(nxt h, (k, v))]).
    split; [reflexivity|]. split; [|split].
    + constructor; cbn [d_keys d_vals].
      * rewrite nodes_app. exact R1.
      * intros kl. rewrite t_get_set, V, its_app, afind_app. cbn [its map afind snd].
        change (keyI (k, v)) with (lower k).
        destruct (str_eqb kl (lower k)) eqn:E2.
        -- apply str_eqb_eq in E2. subst kl. now rewrite (afind_its_none _ _ E).
        -- destruct (afind keyI kl (its C)); reflexivity.
      * now apply t_set_nodup.
      * rewrite its_app. apply Forall_app. split; [exact Va|]. constructor; [exact Hv|constructor].
    + rewrite its_app. symmetry. apply s_set_absent. now apply afind_its_none.
    + split; [rewrite <- ids_nodes; exact F1|]. intros j Hj. rewrite cids_app in Hj.
      apply in_app_iff in Hj. destruct Hj as [Hj|[<-|[]]]; [now left|right; cbn; lia].
Qed.

(** ** deletion *)
Lemma d_delitem_missing h d C k :
  d_rep h d C -> afind keyC (lower k) C = None ->
  d_delitem lower k (h, d) = (Err KeyError, (h, d)).
Proof.
  intros R E. unfold d_delitem, os_remove.
  rewrite (mbind_err _ _ (h, d) KeyError (h, d)); [reflexivity|].
  rewrite (on_keys_eq _ h d (Err KeyError) h (d_keys d)); [now rewrite mkD_eta|].
  apply mbind_err. apply (os_lookup_missing lower _ _ _ _ (dr_os _ _ _ R)). now apply afind_nodes_none.
Qed.

Lemma d_delitem_found h d (c1 : list cell) i k' v' (c2 : list cell) k :
  d_rep h d (c1 ++ (i, (k', v')) :: c2) -> lower k' = lower k ->
  exists h' d',
    d_delitem lower k (h, d) = (Ok tt, (h', d'))
    /\ d_rep h' d' (c1 ++ c2) /\ d_post h (c1 ++ (i, (k', v')) :: c2) h' (c1 ++ c2).
Proof.
  intros R Hk. pose proof (d_rep_keys _ _ _ R) as K. pose proof R as [RO V N Va].
  rewrite nodes_mid in RO.
  destruct (os_remove_found lower h (d_keys d) (nodes c1) i k' (nodes c2) k RO Hk)
    as [h' [os' [E1 [R1 [N1 F1]]]]].
  unfold d_delitem. rewrite (mbind_ok _ _ _ _ _ (on_keys_eq _ _ _ _ _ _ E1)).
  exists h', (mkD os' (t_del (lower k) (d_vals d))). split; [reflexivity|]. split.
  - constructor; cbn [d_keys d_vals].
    + rewrite nodes_app. exact R1.
    + intros kl. rewrite t_get_del by exact N. rewrite V, !afind_its.
      rewrite (afind_mid keyC kl c1) by exact K. change (keyC (i, (k', v'))) with (lower k'). rewrite Hk.
      destruct (str_eqb kl (lower k)) eqn:E2; [|reflexivity].
      apply str_eqb_eq in E2. subst kl.
      assert (Hn : afind keyC (lower k) (c1 ++ c2) = None); [|now rewrite Hn].
      apply afind_none. rewrite map_app in *. cbn [map] in K. apply NoDup_remove_2 in K.
      change (keyC (i, (k', v'))) with (lower k') in K. now rewrite Hk in K.
    + now apply t_del_nodup.
    + rewrite its_mid in Va. rewrite its_app. apply Forall_app in Va. destruct Va as [Va1 Va2].
      apply Forall_app. split; [exact Va1|]. now inversion Va2.
  - split; [rewrite <- ids_nodes, nodes_mid; exact F1|].
    intros j Hj. left. rewrite cids_app in Hj. rewrite cids_mid. apply in_app_iff in Hj.
    apply in_app_iff. cbn [In]. tauto.
Qed.

(** ** re-ordering *)
Lemma d_move h d (c1 : list cell) i kv (c2 a b : list cell) item reins :
  d_rep h d (c1 ++ (i, kv) :: c2) -> lower (fst kv) = lower item ->
  a ++ b = c1 ++ c2 -> reins_ok reins (nodes a) (nodes b) ->
  exists h' d',
    on_keys (os_reorder lower item reins) (h, d) = (Ok tt, (h', d'))
    /\ d_rep h' d' (a ++ (nxt h, kv) :: b)
    /\ d_post h (c1 ++ (i, kv) :: c2) h' (a ++ (nxt h, kv) :: b).
Proof.
  intros R Hk Hab Hre. pose proof (d_rep_keys _ _ _ R) as K. pose proof R as [RO V N Va].
  rewrite nodes_mid in RO.
  assert (Hab' : nodes a ++ nodes b = nodes c1 ++ nodes c2) by (rewrite <- !nodes_app; now f_equal).
  destruct (os_reorder_spec lower h (d_keys d) (nodes c1) i (fst kv) (nodes c2) item reins
              (nodes a) (nodes b) RO Hk Hab' Hre) as [h' [os' [E1 [R1 [N1 F1]]]]].
  rewrite (on_keys_eq _ _ _ _ _ _ E1).
  exists h', (mkD os' (d_vals d)). split; [reflexivity|].
  assert (K' : NoDup (map keyC (a ++ (nxt h, kv) :: b))).
  { rewrite map_app in *. cbn [map] in *.
    pose proof (NoDup_remove_1 _ _ _ K) as K1. pose proof (NoDup_remove_2 _ _ _ K) as K2.
    rewrite <- map_app, <- Hab, map_app in K1, K2.
    apply NoDup_Add with (a := keyC (nxt h, kv)) (l := map keyC a ++ map keyC b); [apply Add_app|].
    split; [exact K1|exact K2]. }
  split.
  - constructor; cbn [d_keys d_vals].
    + rewrite nodes_mid. exact R1.
    + intros kl. rewrite V, !afind_its.
      rewrite (afind_mid keyC kl c1) by exact K. rewrite (afind_mid keyC kl a) by exact K'.
      change (keyC (i, kv)) with (lower (fst kv)). change (keyC (nxt h, kv)) with (lower (fst kv)).
      rewrite Hab. destruct (str_eqb kl (lower (fst kv))); reflexivity.
    + exact N.
    + rewrite its_mid in *. apply Forall_app in Va. destruct Va as [Va1 Va2]. inversion Va2; subst.
      assert (Hall : Forall valid_kv (its (a ++ b))).
      { rewrite Hab, its_app. apply Forall_app. split; assumption. }
      rewrite its_app in Hall. apply Forall_app in Hall. destruct Hall.
      apply Forall_app. split; [assumption|]. constructor; assumption.
  - split; [rewrite <- ids_nodes, nodes_mid; exact F1|].
    intros j Hj. rewrite cids_mid in *. apply in_app_iff in Hj. cbn [fst In] in Hj.
    assert (Hc : cids a ++ cids b = cids c1 ++ cids c2) by (rewrite <- !cids_app; now f_equal).
    destruct Hj as [Hj|[<-|Hj]]; [|right; lia|].
    + left. assert (In j (cids a ++ cids b)) as Hx by (apply in_app_iff; now left).
      rewrite Hc in Hx. apply in_app_iff in Hx. apply in_app_iff. cbn [In]. tauto.
    + left. assert (In j (cids a ++ cids b)) as Hx by (apply in_app_iff; now right).
      rewrite Hc in Hx. apply in_app_iff in Hx. apply in_app_iff. cbn [In]. tauto.
Qed.

Lemma d_reorder_missing h d C k reins :
  d_rep h d C -> afind keyC (lower k) C = None ->
  on_keys (os_reorder lower k reins) (h, d) = (Err KeyError, (h, d)).
Proof.
  intros R E. unfold os_reorder.
  rewrite (on_keys_eq _ h d (Err KeyError) h (d_keys d)); [now rewrite mkD_eta|].
  apply mbind_err. apply (os_lookup_missing lower _ _ _ _ (dr_os _ _ _ R)). now apply afind_nodes_none.
Qed.

(** ** simulation of one reference step by one method call *)
Definition d_sim {A} (h : heap) (d : dobj) (C : list cell) (m : M dst A) (f : A -> out) (x : op) : Prop :=
  exists r h' d' C',
    m (h, d) = (r, (h', d')) /\ d_rep h' d' C' /\ d_post h C h' C'
    /\ s_step1 lower (its C) x = (out_of f r, its C').

Lemma d_sim_pure {A} h d C (m : M dst A) f x (a : A) :
  d_rep h d C -> m (h, d) = (Ok a, (h, d)) -> s_step1 lower (its C) x = (f a, its C) ->
  d_sim h d C m f x.
Proof. intros R E S. exists (Ok a), h, d, C. auto using d_post_refl. Qed.

Lemma d_sim_fail {A} h d C (m : M dst A) f x e :
  d_rep h d C -> m (h, d) = (Err e, (h, d)) -> s_step1 lower (its C) x = (RErr e, its C) ->
  d_sim h d C m f x.
Proof. intros R E S. exists (Err e), h, d, C. auto using d_post_refl. Qed.

Lemma sim_get h d C o k : d_rep h d C -> d_sim h d C (d_getitem lower k) RStr (OGet o k).
Proof.
  intros R. pose proof (d_getitem_spec _ _ _ k R) as G. cbn [s_step1].
  destruct (afind keyI (lower k) (its C)) as [[k' v]|] eqn:E.
  - eapply d_sim_pure; eauto. cbn [s_step1]. now rewrite s_find_afind, E.
  - eapply d_sim_fail; eauto. cbn [s_step1]. now rewrite s_find_afind, E.
Qed.

Lemma sim_contains h d C o k : d_rep h d C -> d_sim h d C (d_contains lower k) RBool (OContains o k).
Proof.
  intros R. eapply d_sim_pure; [exact R|apply (d_contains_spec _ _ _ k R)|].
  cbn [s_step1]. now rewrite s_has_afind.
Qed.

Lemma sim_len h d C o : d_rep h d C -> d_sim h d C d_len RNat (OLen o).
Proof. intros R. eapply d_sim_pure; [exact R|apply (d_len_spec _ _ _ R)|reflexivity]. Qed.

Lemma sim_iter h d C o : d_rep h d C -> d_sim h d C d_iter RKeys (OIter o).
Proof. intros R. eapply d_sim_pure; [exact R|apply (d_iter_spec _ _ _ R)|reflexivity]. Qed.

Lemma sim_dump h d C o : d_rep h d C -> d_sim h d C (d_dump lower) RStr (ODump o).
Proof. intros R. eapply d_sim_pure; [exact R|apply (d_dump_spec _ _ _ R)|reflexivity]. Qed.

Lemma sim_set h d C o k v :
  d_rep h d C -> validate_input v = Ok tt ->
  d_sim h d C (d_setitem lower k v) (fun _ => RNone) (OSet o k v).
Proof.
  intros R Hv. destruct (d_setitem_ok _ _ _ k v R Hv) as [h' [d' [C' [E [R' [S P]]]]]].
  exists (Ok tt), h', d', C'. split; [exact E|]. split; [exact R'|]. split; [exact P|].
  cbn [s_step1 out_of]. now rewrite S.
Qed.

Lemma sim_del h d C o k : d_rep h d C -> d_sim h d C (d_delitem lower k) (fun _ => RNone) (ODel o k).
Proof.
  intros R. destruct (afind keyC (lower k) C) as [[i [k' v']]|] eqn:E.
  - pose proof E as E0. apply afind_split in E. destruct E as [c1 [c2 [-> [Hk Hn]]]].
    change (lower k' = lower k) in Hk.
    destruct (d_delitem_found _ _ _ _ _ _ _ k R Hk) as [h' [d' [E1 [R1 P1]]]].
    exists (Ok tt), h', d', (c1 ++ c2). split; [exact E1|]. split; [exact R1|]. split; [exact P1|].
    cbn [s_step1 out_of]. rewrite s_has_afind, afind_its, E0. cbn [option_map is_some].
    rewrite its_mid, its_app. cbn [snd]. rewrite s_remove_mid; [reflexivity|now apply afind_its_none|exact Hk].
  - eapply d_sim_fail; [exact R|now apply (d_delitem_missing _ _ C)|].
    cbn [s_step1]. now rewrite s_has_afind, (afind_its_none _ _ E).
Qed.

Lemma sim_first h d C o k : d_rep h d C -> d_sim h d C (d_order_first lower k) (fun _ => RNone) (OFirst o k).
Proof.
  intros R. destruct (afind keyC (lower k) C) as [[i [k' v']]|] eqn:E.
  - pose proof E as E0. apply afind_split in E. destruct E as [c1 [c2 [-> [Hk Hn]]]].
    change (lower k' = lower k) in Hk.
    destruct (d_move _ _ _ _ _ _ [] (c1 ++ c2) k ll_insert_at_head R Hk eq_refl (reins_head _))
      as [h' [d' [E1 [R1 P1]]]].
    exists (Ok tt), h', d', ([] ++ (nxt h, (k', v')) :: c1 ++ c2).
    split; [exact E1|]. split; [exact R1|]. split; [exact P1|].
    cbn [s_step1 out_of]. rewrite s_find_afind, afind_its, E0. cbn [option_map app its map snd].
    rewrite its_mid. cbn [snd]. rewrite s_remove_mid; [|now apply afind_its_none|exact Hk].
    fold (its (c1 ++ c2)). now rewrite its_app.
  - eapply d_sim_fail; [exact R|now apply (d_reorder_missing _ _ C)|].
    cbn [s_step1]. now rewrite s_find_afind, (afind_its_none _ _ E).
Qed.

Lemma sim_last h d C o k : d_rep h d C -> d_sim h d C (d_order_last lower k) (fun _ => RNone) (OLast o k).
Proof.
  intros R. destruct (afind keyC (lower k) C) as [[i [k' v']]|] eqn:E.
  - pose proof E as E0. apply afind_split in E. destruct E as [c1 [c2 [-> [Hk Hn]]]].
    change (lower k' = lower k) in Hk.
    destruct (d_move _ _ _ _ _ _ (c1 ++ c2) [] k ll_append R Hk (app_nil_r _) (reins_append _))
      as [h' [d' [E1 [R1 P1]]]].
    exists (Ok tt), h', d', ((c1 ++ c2) ++ [(nxt h, (k', v'))]).
    split; [exact E1|]. split; [exact R1|]. split; [exact P1|].
    cbn [s_step1 out_of]. rewrite s_find_afind, afind_its, E0. cbn [option_map snd].
    rewrite its_mid. cbn [snd]. rewrite s_remove_mid; [|now apply afind_its_none|exact Hk].
    now rewrite !its_app.
  - eapply d_sim_fail; [exact R|now apply (d_reorder_missing _ _ C)|].
    cbn [s_step1]. now rewrite s_find_afind, (afind_its_none _ _ E).
Qed.

Lemma os_lookup_spec h os L item :
  os_rep lower h os L ->
  os_lookup lower item (h, os)
  = (match afind keyL (lower item) L with Some p => Ok (fst p) | None => Err KeyError end, (h, os)).
Proof.
  intros R. unfold os_lookup, mbind, get_table. cbn. rewrite (or_tbl _ _ _ _ R).
  destruct (afind keyL (lower item) L); reflexivity.
Qed.

Lemma on_keys_ext {A} (m1 m2 : M sst A) h d :
  m1 (h, d_keys d) = m2 (h, d_keys d) -> on_keys m1 (h, d) = on_keys m2 (h, d).
Proof. intros E. unfold on_keys, zoom. cbn [fst snd]. now rewrite E. Qed.

Lemma on_keys_err {A} (m : M sst A) h d e :
  m (h, d_keys d) = (Err e, (h, d_keys d)) -> on_keys m (h, d) = (Err e, (h, d)).
Proof. intros E. rewrite (on_keys_eq _ _ _ _ _ _ E). now rewrite mkD_eta. Qed.

(** order_before / order_after share everything but the re-inserter and the
    reference's insertion function *)
Lemma sim_relative h d C k r (before : bool) :
  d_rep h d C ->
  let m := if before then d_order_before lower k r else d_order_after lower k r in
  let ins := if before then s_insert_before lower else s_insert_after lower in
  exists res h' d' C',
    m (h, d) = (res, (h', d')) /\ d_rep h' d' C' /\ d_post h C h' C'
    /\ (if same lower k r then (RErr ValueError, its C)
        else match s_find lower k (its C), s_find lower r (its C) with
             | Some p, Some _ => (RNone, ins p r (s_remove lower k (its C)))
             | _, _ => (RErr KeyError, its C)
             end) = (out_of (fun _ => RNone) res, its C').
Proof.
  intros R m ins. pose proof (d_rep_keys _ _ _ R) as K. pose proof (dr_os _ _ _ R) as RO.
  unfold same. destruct (str_eqb (lower k) (lower r)) eqn:Esame.
  - exists (Err ValueError), h, d, C. split.
    { subst m. destruct before; unfold d_order_before, d_order_after, os_order_before, os_order_after;
        rewrite Esame; now apply on_keys_err. }
    auto using d_post_refl.
  - rewrite !s_find_afind, !afind_its.
    destruct (afind keyC (lower r) C) as [[ri [rk rv]]|] eqn:Er.
    2:{ exists (Err KeyError), h, d, C. split.
        { subst m. destruct before; unfold d_order_before, d_order_after, os_order_before, os_order_after;
            rewrite Esame; apply on_keys_err; apply mbind_err;
            rewrite (os_lookup_spec _ _ _ r RO), afind_nodes, Er; reflexivity. }
        split; [exact R|]. split; [apply d_post_refl|].
        destruct (afind keyC (lower k) C) as [[? [? ?]]|]; reflexivity. }
    destruct (afind keyC (lower k) C) as [[i [k' v']]|] eqn:Ek.
    2:{ exists (Err KeyError), h, d, C. split.
        { subst m. destruct before; unfold d_order_before, d_order_after, os_order_before, os_order_after;
            rewrite Esame; apply on_keys_err;
            (rewrite (mbind_ok _ _ (h, d_keys d) ri (h, d_keys d));
             [|rewrite (os_lookup_spec _ _ _ r RO), afind_nodes, Er; reflexivity]);
            unfold os_reorder; apply mbind_err;
            rewrite (os_lookup_spec _ _ _ k RO), afind_nodes, Ek; reflexivity. }
        split; [exact R|]. split; [apply d_post_refl|reflexivity]. }
    cbn [option_map snd].
    apply afind_split in Ek. destruct Ek as [c1 [c2 [-> [Hk Hn]]]]. change (lower k' = lower k) in Hk.
    rewrite (afind_mid keyC) in Er by exact K. change (keyC (i, (k', v'))) with (lower k') in Er.
    rewrite Hk, str_eqb_sym, Esame in Er.
    apply afind_split in Er. destruct Er as [a [b [Hab [Hr Hna]]]]. change (lower rk = lower r) in Hr.
    assert (Elook : os_lookup lower r (h, d_keys d) = (Ok ri, (h, d_keys d))).
    { rewrite (os_lookup_spec _ _ _ r RO), afind_nodes, (afind_mid keyC) by exact K.
      change (keyC (i, (k', v'))) with (lower k'). rewrite Hk, str_eqb_sym, Esame, Hab.
      rewrite (afind_mid keyC).
      2:{ rewrite <- Hab. rewrite map_app in *. cbn [map] in K. now apply NoDup_remove_1 in K. }
      change (keyC (ri, (rk, rv))) with (lower rk). rewrite Hr, str_eqb_refl. reflexivity. }
    rewrite its_mid. cbn [snd]. rewrite s_remove_mid; [|now apply afind_its_none|exact Hk].
    rewrite <- its_app, Hab, its_mid. cbn [snd].
    destruct before; subst m ins; cbn iota.
    + destruct (d_move _ _ _ _ _ _ a ((ri, (rk, rv)) :: b) k (fun x => ll_insert_before x ri) R Hk
                  (eq_sym Hab) (reins_before _ _ _ _)) as [h' [d' [E1 [R1 P1]]]].
      exists (Ok tt), h', d', (a ++ (nxt h, (k', v')) :: (ri, (rk, rv)) :: b).
      split.
      { rewrite <- E1. unfold d_order_before. apply on_keys_ext. unfold os_order_before.
        rewrite Esame. now rewrite (mbind_ok _ _ _ _ _ Elook). }
      split; [exact R1|]. split; [exact P1|].
      rewrite s_insert_before_mid; [|now apply afind_its_none|exact Hr].
      cbn [out_of]. now rewrite its_mid.
    + destruct (d_move _ _ _ _ _ _ (a ++ [(ri, (rk, rv))]) b k (fun x => ll_insert_after x ri) R Hk)
        as [h' [d' [E1 [R1 P1]]]].
      { rewrite <- app_assoc. now symmetry. }
      { rewrite nodes_app. apply reins_after. }
      exists (Ok tt), h', d', ((a ++ [(ri, (rk, rv))]) ++ (nxt h, (k', v')) :: b).
      split.
      { rewrite <- E1. unfold d_order_after. apply on_keys_ext. unfold os_order_after.
        rewrite Esame. now rewrite (mbind_ok _ _ _ _ _ Elook). }
      split; [exact R1|]. split; [exact P1|].
      rewrite s_insert_after_mid; [|now apply afind_its_none|exact Hr].
      cbn [out_of]. rewrite its_mid, its_app, <- app_assoc. reflexivity.
Qed.

Lemma sim_before h d C o k r :
  d_rep h d C -> d_sim h d C (d_order_before lower k r) (fun _ => RNone) (OBefore o k r).
Proof.
  intros R. destruct (sim_relative h d C k r true R) as [res [h' [d' [C' [E [R' [P S]]]]]]].
  exists res, h', d', C'. auto.
Qed.

Lemma sim_after h d C o k r :
  d_rep h d C -> d_sim h d C (d_order_after lower k r) (fun _ => RNone) (OAfter o k r).
Proof.
  intros R. destruct (sim_relative h d C k r false R) as [res [h' [d' [C' [E [R' [P S]]]]]]].
  exists res, h', d', C'. auto.
Qed.

(** ** sort_fields *)
Lemma combine_fst_snd {X Y} (l : list (X * Y)) : combine (map fst l) (map snd l) = l.
Proof. induction l as [|[x y] l IH]; cbn; [reflexivity|]. now rewrite IH. Qed.

Lemma nodes_combine (is : list id) (vs : items) :
  nodes (combine is vs) = combine is (map fst vs).
Proof.
  revert vs. induction is as [|i is IH]; intros [|v vs]; cbn; try reflexivity. now rewrite <- IH.
Qed.

Lemma its_combine (is : list id) (vs : items) :
  length is = length vs -> its (combine is vs) = vs.
Proof.
  revert vs. induction is as [|i is IH]; intros [|v vs]; cbn; intros H; try reflexivity; try discriminate.
  f_equal. apply IH. lia.
Qed.

Lemma cids_combine (is : list id) (vs : items) :
  length is = length vs -> cids (combine is vs) = is.
Proof.
  revert vs. induction is as [|i is IH]; intros [|v vs]; cbn; intros H; try reflexivity; try discriminate.
  f_equal. apply IH. lia.
Qed.

Definition skI (sk : sortkey) (p : str * str) : list Z := sort_key lower sk (fst p).

Lemma d_sort_spec h d C sk :
  d_rep h d C ->
  exists h' d' C',
    d_sort_fields lower sk (h, d) = (Ok tt, (h', d'))
    /\ d_rep h' d' C' /\ d_post h C h' C' /\ its C' = sort_by (skI sk) (its C).
Proof.
  intros R. pose proof (d_rep_keys _ _ _ R) as K. rewrite <- keys_its in K. pose proof R as [RO V N Va].
  set (ks := map fst (its C)).
  assert (Hsorted : sort_by (sort_key lower sk) ks = map fst (sort_by (skI sk) (its C))).
  { unfold ks. now rewrite sort_by_map. }
  assert (Hnd : NoDup (map keyL [] ++ map lower (sort_by (sort_key lower sk) ks))).
  { cbn [map app]. eapply Permutation_NoDup; [|exact K].
    replace (map keyI (its C)) with (map lower ks) by (unfold ks; rewrite map_map; reflexivity).
    apply Permutation_map. symmetry. apply sort_by_perm. }
  destruct (os_extend_spec lower (sort_by (sort_key lower sk) ks) h os_empty [] (os_rep_empty lower h) Hnd)
    as [h' [set' [L2 [E [R2 [M2 [F2 B2]]]]]]].
  cbn [app] in R2.
  assert (Hlen : length (map fst L2) = length (sort_by (skI sk) (its C))).
  { rewrite map_length. rewrite <- (map_length snd L2), M2, Hsorted. now rewrite map_length. }
  exists h', (mkD set' (d_vals d)), (combine (map fst L2) (sort_by (skI sk) (its C))).
  split.
  { unfold d_sort_fields. rewrite (mbind_ok _ _ _ _ _ (d_iter_spec _ _ _ R)). cbn [fst snd].
    fold ks. rewrite E. reflexivity. }
  split; [|split].
  - constructor; cbn [d_keys d_vals].
    + rewrite nodes_combine, <- Hsorted, <- M2, combine_fst_snd. exact R2.
    + intros kl. rewrite V, its_combine by exact Hlen. f_equal.
      apply afind_perm; [exact K|]. symmetry. apply sort_by_perm.
    + exact N.
    + rewrite its_combine by exact Hlen. eapply Permutation_Forall; [|exact Va]. symmetry. apply sort_by_perm.
  - split.
    + eapply hframe_weaken; [exact F2|]. intros j [].
    + intros j Hj. right. rewrite cids_combine in Hj by exact Hlen. now apply B2.
  - now apply its_combine.
Qed.

Lemma sim_sort h d C o sk :
  d_rep h d C -> d_sim h d C (d_sort_fields lower sk) (fun _ => RNone) (OSort o sk).
Proof.
  intros R. destruct (d_sort_spec _ _ _ sk R) as [h' [d' [C' [E [R' [P S]]]]]].
  exists (Ok tt), h', d', C'. split; [exact E|]. split; [exact R'|]. split; [exact P|].
  cbn [s_step1 out_of]. now rewrite S.
Qed.

(** ** update from a list of pairs (constructor from a dict, parser) *)
Lemma d_update_spec l : forall h d C,
  d_rep h d C -> Forall valid_kv l ->
  exists h' d' C',
    d_update lower l (h, d) = (Ok tt, (h', d'))
    /\ d_rep h' d' C' /\ d_post h C h' C'
    /\ its C' = fold_left (fun d kv => s_set lower (fst kv) (snd kv) d) l (its C).
Proof.
  induction l as [|[k v] l IH]; intros h d C R Hv.
  - exists h, d, C. split; [reflexivity|]. auto using d_post_refl.
  - inversion Hv as [|? ? Hv1 Hv2]; subst.
    destruct (d_setitem_ok _ _ _ k v R Hv1) as [h1 [d1 [C1 [E1 [R1 [S1 P1]]]]]].
    destruct (IH _ _ _ R1 Hv2) as [h2 [d2 [C2 [E2 [R2 [P2 S2]]]]]].
    exists h2, d2, C2. split.
    { cbn [d_update]. rewrite (mbind_ok _ _ _ _ _ E1). exact E2. }
    split; [exact R2|]. split.
    + destruct P1 as [F1 I1], P2 as [F2 I2]. split.
      * eapply hframe_trans; [exact F1|exact F2|]. intros j Hj Hin.
        destruct (I1 j Hin) as [H|H]; [exact H|lia].
      * intros j Hj. destruct (I2 j Hj) as [H|H].
        -- destruct (I1 j H) as [H'|H']; [now left|now right].
        -- right. destruct F1 as [N1 _]. lia.
    + cbn [fold_left fst snd]. now rewrite S2, S1.
Qed.

(** ** copy(): the source list is walked in the shared heap while the copy grows *)
Lemma first_id_nodes_cons i kv (rest : list cell) :
  first_id (nodes ((i, kv) :: rest)) None = Some i.
Proof. reflexivity. Qed.

Lemma copy_loop_spec src (Cs : list cell) (b0 : positive) : forall (rest p : list cell) fuel h d Cd,
  Cs = p ++ rest -> d_rep h src Cs -> d_rep h d Cd -> its Cd = its p ->
  (forall j, In j (cids Cd) -> (b0 <= j)%positive) ->
  (forall j, In j (cids Cs) -> (j < b0)%positive) ->
  (b0 <= nxt h)%positive ->
  length rest <= fuel ->
  exists h' d' Cd',
    copy_loop lower fuel src (first_id (nodes rest) None) (h, d) = (Ok tt, (h', d'))
    /\ d_rep h' d' Cd' /\ its Cd' = its Cs
    /\ hframe h (cids Cd) h'
    /\ (forall j, In j (cids Cd') -> (b0 <= j)%positive).
Proof.
  induction rest as [|[i [k v]] rest IH]; intros p fuel h d Cd HCs Rs Rd Hits Hnew Hold Hb0 Hfuel.
  - exists h, d, Cd. rewrite app_nil_r in HCs. subst p.
    split; [destruct fuel; reflexivity|]. split; [exact Rd|]. split; [exact Hits|].
    split; [apply hframe_refl|exact Hnew].
  - destruct fuel as [|f]; [cbn in Hfuel; lia|].
    rewrite first_id_nodes_cons. cbn [copy_loop].
    pose proof (d_rep_keys _ _ _ Rs) as K.
    assert (Hin : In i (cids Cs)).
    { rewrite HCs, cids_mid. apply in_app_iff. right. now left. }
    (* the source node *)
    assert (Hi : hget h i = Some (mkNode (last_id (nodes p) None) (first_id (nodes rest) None) k)).
    { pose proof (lr_seg _ _ _ (or_ll _ _ _ _ (dr_os _ _ _ Rs))) as Sg.
      rewrite HCs, nodes_mid in Sg. apply seg_mid in Sg. exact Sg. }
    rewrite (mbind_ok _ _ (h, d) (mkNode (last_id (nodes p) None) (first_id (nodes rest) None) k) (h, d)).
    2:{ unfold zoom. cbn [fst snd]. now rewrite (load_ok _ _ _ Hi). }
    cbn [n_value].
    (* its value in the source *)
    assert (Ev : afind keyI (lower k) (its Cs) = Some (k, v)).
    { apply afind_iff; [rewrite keys_its; exact K|]. split; [|reflexivity].
      rewrite HCs, its_mid. apply in_app_iff. right. now left. }
    rewrite (mbind_ok _ _ (h, d) v (h, d)).
    2:{ cbn [fst]. rewrite (d_getitem_spec _ _ _ k Rs), Ev. reflexivity. }
    (* copy[k] = v *)
    assert (Hv : validate_input v = Ok tt).
    { pose proof (dr_valid _ _ _ Rs) as Va. rewrite HCs, its_mid in Va.
      apply Forall_app in Va. destruct Va as [_ Va]. now inversion Va. }
    destruct (d_setitem_ok _ _ _ k v Rd Hv) as [h1 [d1 [C1 [E1 [R1 [S1 [F1 I1]]]]]]].
    rewrite (mbind_ok _ _ _ _ _ E1).
    assert (Hdisj : forall j, In j (cids Cs) -> ~ In j (cids Cd)).
    { intros j Hj Hjn. apply Hold in Hj. apply Hnew in Hjn. lia. }
    assert (Rs1 : d_rep h1 src Cs) by (eapply d_rep_hframe; eauto).
    assert (Hi1 : hget h1 i = hget h i).
    { destruct F1 as [_ F1]. apply F1; [now apply (d_rep_bound _ _ _ Rs)|now apply Hdisj]. }
    rewrite (mbind_ok _ _ (h1, d1) (mkNode (last_id (nodes p) None) (first_id (nodes rest) None) k) (h1, d1)).
    2:{ unfold zoom. cbn [fst snd]. rewrite Hi in Hi1. now rewrite (load_ok _ _ _ Hi1). }
    cbn [n_next].
    assert (S1' : its C1 = its (p ++ [(i, (k, v))])).
    { rewrite S1, Hits, its_app. apply s_set_absent.
      rewrite HCs, <- keys_its, its_mid in K. now apply (nodup_none_left keyI) in K. }
    assert (Hnew1 : forall j, In j (cids C1) -> (b0 <= j)%positive).
    { intros j Hj. destruct (I1 j Hj) as [H|H]; [now apply Hnew|lia]. }
    assert (Hb1 : (b0 <= nxt h1)%positive) by (destruct F1 as [N1 _]; lia).
    destruct (IH (p ++ [(i, (k, v))]) f h1 d1 C1) as [h2 [d2 [C2 [E2 [R2 [S2 [F2 I2]]]]]]]; auto.
    { rewrite <- app_assoc. exact HCs. }
    { cbn in Hfuel. lia. }
    exists h2, d2, C2. split; [exact E2|]. split; [exact R2|]. split; [exact S2|]. split; [|exact I2].
    eapply hframe_trans; [exact F1|exact F2|]. intros j Hj Hjn.
    destruct (I1 j Hjn) as [H|H]; [exact H|lia].
Qed.

Lemma d_copy_spec h src (Cs : list cell) :
  d_rep h src Cs ->
  exists h' d' C',
    d_copy_into lower src (h, d_empty) = (Ok tt, (h', d'))
    /\ d_rep h' d' C' /\ its C' = its Cs
    /\ hframe h [] h' /\ (forall j, In j (cids C') -> (nxt h <= j)%positive).
Proof.
  intros Rs.
  destruct (copy_loop_spec src Cs (nxt h) Cs [] (walk_fuel h) h d_empty []) as [h' [d' [C' [E [R' [S [F I]]]]]]];
    auto using d_rep_empty.
  - intros j [].
  - apply (d_rep_bound _ _ _ Rs).
  - lia.
  - unfold walk_fuel. pose proof (pigeon (cids Cs) (nxt h) (d_rep_nodup _ _ _ Rs) (d_rep_bound _ _ _ Rs)) as Hp.
    unfold cids in Hp. rewrite map_length in Hp. apply Nat.lt_le_incl. exact Hp.
  - exists h', d', C'. split; [|auto].
    unfold d_copy_into. cbn [fst].
    rewrite (lr_head _ _ _ (or_ll _ _ _ _ (dr_os _ _ _ Rs))). rewrite E. reflexivity.
Qed.

(** ** the full view recorded by the harness *)
Lemma obj_view_spec alphabet w d C :
  d_rep (w_heap w) d C -> obj_view lower alphabet w d = Ok (s_view lower alphabet (its C)).
Proof.
  intros R. unfold obj_view.
  rewrite (d_items_spec _ _ _ R), (d_len_spec _ _ _ R), (d_dump_spec _ _ _ R). cbn [fst bind].
  unfold s_view. do 2 f_equal. apply map_ext. intros k.
  unfold t_mem. rewrite (or_tbl _ _ _ _ (dr_os _ _ _ R)), afind_nodes, s_has_afind, afind_its.
  destruct (afind keyC (lower k) C); reflexivity.
Qed.

Lemma obj_items_spec w d C : d_rep (w_heap w) d C -> obj_items lower w d = Ok (its C).
Proof. intros R. unfold obj_items. now rewrite (d_items_spec _ _ _ R). Qed.

End WithLower.
