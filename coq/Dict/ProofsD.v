(** C09 proofs, layer 3: one Deb822Dict object against the association-list
    reference (Spec.v). *)
From Coq Require Import FMapPositive Permutation.
From Verif Require Import Lib.Base Lib.PyStr Gen.PyChars Dict.Common Dict.Heap Dict.Spec
  Dict.ProofsLL Dict.ProofsOS.

(** * Pure facts about the reference *)
Section SpecFacts.
Variable lower : str -> str.

Definition keyI (p : str * str) : str := lower (fst p).

Lemma afind_cons_none {B} (key : B -> str) kl x a :
  afind key kl (x :: a) = None -> str_eqb kl (key x) = false /\ afind key kl a = None.
Proof. cbn. destruct (str_eqb kl (key x)); [discriminate|auto]. Qed.

Lemma nodup_none_left {B} (key : B -> str) a x b :
  NoDup (map key (a ++ x :: b)) -> afind key (key x) a = None.
Proof.
  intros Hnd. apply afind_none. rewrite map_app in Hnd. cbn in Hnd.
  apply NoDup_remove_2 in Hnd. intros Hin. apply Hnd. apply in_app_iff. now left.
Qed.

Lemma s_find_afind k d : s_find lower k d = afind keyI (lower k) d.
Proof.
  induction d as [|[k' v] d IH]; cbn; [reflexivity|]. unfold same, keyI at 1. cbn [fst].
  destruct (str_eqb (lower k) (lower k')); auto.
Qed.

Lemma s_has_afind k d : s_has lower k d = is_some (afind keyI (lower k) d).
Proof. unfold s_has. now rewrite s_find_afind. Qed.

Lemma s_remove_mid k a k' v' b :
  afind keyI (lower k) a = None -> lower k' = lower k ->
  s_remove lower k (a ++ (k', v') :: b) = a ++ b.
Proof.
  intros Hn Hk. induction a as [|[k0 v0] a IH]; cbn.
  - unfold same. now rewrite Hk, str_eqb_refl.
  - apply afind_cons_none in Hn. destruct Hn as [E Hn]. unfold same. unfold keyI in E. cbn [fst] in E.
    rewrite E. now rewrite IH.
Qed.

Lemma s_set_mid k v a k' v' b :
  afind keyI (lower k) a = None -> lower k' = lower k ->
  s_set lower k v (a ++ (k', v') :: b) = a ++ (k', v) :: b.
Proof.
  intros Hn Hk. induction a as [|[k0 v0] a IH]; cbn.
  - unfold same. now rewrite Hk, str_eqb_refl.
  - apply afind_cons_none in Hn. destruct Hn as [E Hn]. unfold same. unfold keyI in E. cbn [fst] in E.
    rewrite E. now rewrite IH.
Qed.

Lemma s_set_absent k v d :
  afind keyI (lower k) d = None -> s_set lower k v d = d ++ [(k, v)].
Proof.
  intros Hn. induction d as [|[k0 v0] d IH]; cbn; [reflexivity|].
  apply afind_cons_none in Hn. destruct Hn as [E Hn]. unfold same. unfold keyI in E. cbn [fst] in E.
  rewrite E. now rewrite IH.
Qed.

Lemma s_insert_before_mid p r a k' v' b :
  afind keyI (lower r) a = None -> lower k' = lower r ->
  s_insert_before lower p r (a ++ (k', v') :: b) = a ++ p :: (k', v') :: b.
Proof.
  intros Hn Hk. induction a as [|[k0 v0] a IH]; cbn.
  - unfold same. now rewrite Hk, str_eqb_refl.
  - apply afind_cons_none in Hn. destruct Hn as [E Hn]. unfold same. unfold keyI in E. cbn [fst] in E.
    rewrite E. now rewrite IH.
Qed.

Lemma s_insert_after_mid p r a k' v' b :
  afind keyI (lower r) a = None -> lower k' = lower r ->
  s_insert_after lower p r (a ++ (k', v') :: b) = a ++ (k', v') :: p :: b.
Proof.
  intros Hn Hk. induction a as [|[k0 v0] a IH]; cbn.
  - unfold same. now rewrite Hk, str_eqb_refl.
  - apply afind_cons_none in Hn. destruct Hn as [E Hn]. unfold same. unfold keyI in E. cbn [fst] in E.
    rewrite E. now rewrite IH.
Qed.

(** the reference keeps keys distinct *)
Lemma s_set_keys k v d :
  map keyI (s_set lower k v d)
  = if is_some (afind keyI (lower k) d) then map keyI d else map keyI d ++ [lower k].
Proof.
  induction d as [|[k0 v0] d IH]; cbn; [reflexivity|].
  unfold same. change (keyI (k0, v0)) with (lower k0).
  destruct (str_eqb (lower k) (lower k0)); cbn; [reflexivity|].
  rewrite IH. destruct (afind keyI (lower k) d); reflexivity.
Qed.
End SpecFacts.

(** * Stable sort *)
Section SortFacts.
Context {A : Type} (key : A -> str).

Lemma insert_by_perm x l : Permutation (insert_by key x l) (x :: l).
Proof.
  induction l as [|y l IH]; cbn; [reflexivity|].
  destruct (str_leb (key x) (key y)); [reflexivity|].
  rewrite IH. apply perm_swap.
Qed.

Lemma sort_by_perm l : Permutation (sort_by key l) l.
Proof.
  induction l as [|x l IH]; cbn; [reflexivity|]. rewrite insert_by_perm. now constructor.
Qed.
End SortFacts.

Lemma insert_by_map {A B} (f : A -> B) (key : B -> str) x l :
  insert_by key (f x) (map f l) = map f (insert_by (fun a => key (f a)) x l).
Proof.
  induction l as [|y l IH]; cbn; [reflexivity|].
  destruct (str_leb (key (f x)) (key (f y))); cbn; [reflexivity|]. now rewrite IH.
Qed.

Lemma sort_by_map {A B} (f : A -> B) (key : B -> str) l :
  sort_by key (map f l) = map f (sort_by (fun a => key (f a)) l).
Proof. induction l as [|x l IH]; cbn; [reflexivity|]. now rewrite IH, insert_by_map. Qed.

(** * validate_input *)
Lemma splitlines_aux_nolb islb keep s : forall cur,
  forallb (fun c => negb (islb c)) s = true ->
  splitlines_aux islb keep s cur = match cur, s with [], [] => [] | _, _ => [rev cur ++ s] end.
Proof.
  induction s as [|x s IH]; intros cur H; cbn.
  - destruct cur; [reflexivity|]. now rewrite app_nil_r.
  - cbn in H. apply andb_true_iff in H. destruct H as [Hx Hs].
    destruct (islb x); [discriminate|]. rewrite IH by exact Hs. cbn.
    rewrite <- app_assoc. cbn. destruct cur; reflexivity.
Qed.

Definition has_lb (v : str) : bool := existsb py_islinebreak v.

Lemma validate_no_linebreak v : has_lb v = false -> validate_input v = Ok tt.
Proof.
  intros H. unfold validate_input.
  assert (Hall : forallb (fun c => negb (py_islinebreak c)) v = true).
  { unfold has_lb in H. induction v as [|c v IH]; cbn in *; [reflexivity|].
    apply orb_false_iff in H. destruct H as [-> H]. cbn. now apply IH. }
  assert (He : endswith [LF] v = false).
  { unfold endswith. cbn [rev app]. destruct (rev v) as [|c r] eqn:Er; [reflexivity|].
    cbn [startswith]. assert (Hin : In c v) by (apply in_rev; rewrite Er; now left).
    rewrite forallb_forall in Hall. apply Hall in Hin.
    destruct (LF =? c)%N eqn:E; [|reflexivity]. apply N.eqb_eq in E. subst c.
    vm_compute in Hin. discriminate. }
  rewrite He. unfold splitlines. rewrite splitlines_aux_nolb by exact Hall.
  destruct v; reflexivity.
Qed.

Lemma validate_err v e : validate_input v = Err e -> e = ValueError.
Proof.
  unfold validate_input. destruct (endswith [LF] v); [congruence|].
  destruct (splitlines py_islinebreak false v); [discriminate|].
  destruct (forallb _ _); [discriminate|congruence].
Qed.

(** * One Deb822Dict object *)
Section WithLower.
Variable lower : str -> str.

Notation keyI := (keyI lower).
Notation keyL := (keyL lower).

(** abstract content: node id, key as first spelled, value -- in list order *)
Definition cell := (id * (str * str))%type.
Definition node_of (c : cell) : id * str := (fst c, fst (snd c)).
Definition nodes (C : list cell) : list (id * str) := map node_of C.
Definition its (C : list cell) : items := map snd C.
Definition cids (C : list cell) : list id := map fst C.
Definition keyC (c : cell) : str := lower (fst (snd c)).

Lemma ids_nodes C : ids (nodes C) = cids C.
Proof. unfold ids, nodes, cids. rewrite map_map. reflexivity. Qed.
Lemma keys_nodes C : map keyL (nodes C) = map keyC C.
Proof. unfold nodes. rewrite map_map. reflexivity. Qed.
Lemma keys_its C : map keyI (its C) = map keyC C.
Proof. unfold its. rewrite map_map. reflexivity. Qed.
Lemma afind_nodes kl C : afind keyL kl (nodes C) = option_map node_of (afind keyC kl C).
Proof. unfold nodes. now rewrite afind_map. Qed.
Lemma afind_its kl C : afind keyI kl (its C) = option_map snd (afind keyC kl C).
Proof. unfold its. now rewrite afind_map. Qed.
Lemma nodes_app a b : nodes (a ++ b) = nodes a ++ nodes b.
Proof. apply map_app. Qed.
Lemma its_app a b : its (a ++ b) = its a ++ its b.
Proof. apply map_app. Qed.
Lemma cids_app a b : cids (a ++ b) = cids a ++ cids b.
Proof. apply map_app. Qed.

Definition valid_kv (kv : str * str) : Prop := validate_input (snd kv) = Ok tt.

Record d_rep (h : heap) (d : dobj) (C : list cell) : Prop := mkDRep {
  dr_os : os_rep lower h (d_keys d) (nodes C);
  dr_vals : forall kl, t_get kl (d_vals d) = option_map snd (afind keyI kl (its C));
  dr_vnd : NoDup (map fst (d_vals d));
  dr_valid : Forall valid_kv (its C);
}.

Lemma d_rep_empty h : d_rep h d_empty [].
Proof. constructor; cbn; auto using os_rep_empty; constructor. Qed.

Lemma d_rep_keys h d C : d_rep h d C -> NoDup (map keyC C).
Proof. intros R. rewrite <- keys_nodes. exact (or_keys _ _ _ _ (dr_os _ _ _ R)). Qed.

Lemma d_rep_bound h d C : d_rep h d C -> forall i, In i (cids C) -> (i < nxt h)%positive.
Proof. intros R i Hi. rewrite <- ids_nodes in Hi. exact (lr_bound _ _ _ (or_ll _ _ _ _ (dr_os _ _ _ R)) i Hi). Qed.

Lemma d_rep_nodup h d C : d_rep h d C -> NoDup (cids C).
Proof. intros R. rewrite <- ids_nodes. exact (lr_nodup _ _ _ (or_ll _ _ _ _ (dr_os _ _ _ R))). Qed.

Lemma d_rep_hframe h own h' d C :
  hframe h own h' -> (forall i, In i (cids C) -> ~ In i own) -> d_rep h d C -> d_rep h' d C.
Proof.
  intros Hf Hd [R V N Va]. constructor; auto. eapply os_rep_hframe; eauto.
  intros i Hi. apply Hd. now rewrite <- ids_nodes.
Qed.

(** what an operation on this object may do to the shared heap *)
Definition d_post (h : heap) (C : list cell) (h' : heap) (C' : list cell) : Prop :=
  hframe h (cids C) h' /\
  forall j, In j (cids C') -> In j (cids C) \/ (nxt h <= j)%positive.

Lemma d_post_refl h C : d_post h C h C.
Proof. split; [apply hframe_refl|auto]. Qed.

Lemma on_keys_eq {A} (m : M sst A) h d r h' os' :
  m (h, d_keys d) = (r, (h', os')) ->
  on_keys m (h, d) = (r, (h', mkD os' (d_vals d))).
Proof. intros E. unfold on_keys, zoom. cbn. now rewrite E. Qed.

Lemma mkD_eta d : mkD (d_keys d) (d_vals d) = d.
Proof. destruct d; reflexivity. Qed.

(** ** lookups *)
Lemma d_getitem_spec h d C k :
  d_rep h d C ->
  d_getitem lower k (h, d)
  = (match afind keyI (lower k) (its C) with Some (_, v) => Ok v | None => Err KeyError end, (h, d)).
Proof.
  intros R. unfold d_getitem, mbind, get_vals. cbn. rewrite (dr_vals _ _ _ R).
  destruct (afind keyI (lower k) (its C)) as [[k' v]|]; reflexivity.
Qed.

Lemma d_contains_spec h d C k :
  d_rep h d C ->
  d_contains lower k (h, d) = (Ok (is_some (afind keyI (lower k) (its C))), (h, d)).
Proof.
  intros R. unfold d_contains.
  rewrite (on_keys_eq _ _ _ _ _ _ (os_contains_spec lower _ _ _ k (dr_os _ _ _ R))), mkD_eta.
  rewrite afind_nodes, afind_its. destruct (afind keyC (lower k) C); reflexivity.
Qed.

Lemma d_len_spec h d C : d_rep h d C -> d_len (h, d) = (Ok (length (its C)), (h, d)).
Proof.
  intros R. unfold d_len.
  rewrite (on_keys_eq _ _ _ _ _ _ (os_len_spec lower _ _ _ (dr_os _ _ _ R))), mkD_eta.
  unfold nodes, its. now rewrite !map_length.
Qed.

Lemma d_iter_spec h d C : d_rep h d C -> d_iter (h, d) = (Ok (map fst (its C)), (h, d)).
Proof.
  intros R. unfold d_iter.
  rewrite (on_keys_eq _ _ _ _ _ _ (os_values_spec lower _ _ _ (dr_os _ _ _ R))), mkD_eta.
  unfold nodes, its. now rewrite !map_map.
Qed.

Lemma d_items_of_spec h d C : d_rep h d C ->
  forall sub, incl sub (its C) -> d_items_of lower (map fst sub) (h, d) = (Ok sub, (h, d)).
Proof.
  intros R. pose proof (d_rep_keys _ _ _ R) as K. rewrite <- keys_its in K.
  induction sub as [|[k v] sub IH]; intros Hin; [reflexivity|].
  cbn [map fst d_items_of].
  assert (E : afind keyI (lower k) (its C) = Some (k, v)).
  { apply afind_iff; [exact K|]. split; [apply Hin; now left|reflexivity]. }
  pose proof (d_getitem_spec _ _ _ k R) as G. rewrite E in G.
  rewrite (mbind_ok _ _ _ _ _ G).
  rewrite (mbind_ok _ _ _ _ _ (IH (fun x Hx => Hin x (or_intror Hx)))). reflexivity.
Qed.

Lemma d_items_spec h d C : d_rep h d C -> d_items lower (h, d) = (Ok (its C), (h, d)).
Proof.
  intros R. unfold d_items. rewrite (mbind_ok _ _ _ _ _ (d_iter_spec _ _ _ R)).
  apply (d_items_of_spec _ _ _ R). apply incl_refl.
Qed.

Lemma dump_entry_spec kv : dump_entry (fst kv) (snd kv) = s_dump_entry kv.
Proof.
  destruct kv as [k v]. cbn [fst snd]. unfold dump_entry, s_dump_entry.
  destruct v as [|c v]; [reflexivity|]. destruct (c =? LF)%N eqn:E.
  - change (c =? 10)%N with (c =? LF)%N. rewrite E. reflexivity.
  - change (c =? 10)%N with (c =? LF)%N. rewrite E. reflexivity.
Qed.

Lemma d_dump_spec h d C : d_rep h d C -> d_dump lower (h, d) = (Ok (s_dump (its C)), (h, d)).
Proof.
  intros R. unfold d_dump. rewrite (mbind_ok _ _ _ _ _ (d_items_spec _ _ _ R)).
  unfold ret, s_dump. do 3 f_equal. apply map_ext. intros kv. apply dump_entry_spec.
Qed.

(** ** assignment *)
Lemma its_mid c1 c c2 : its (c1 ++ c :: c2) = its c1 ++ snd c :: its c2.
Proof. unfold its. now rewrite map_app. Qed.
Lemma nodes_mid c1 c c2 : nodes (c1 ++ c :: c2) = nodes c1 ++ node_of c :: nodes c2.
Proof. unfold nodes. now rewrite map_app. Qed.
Lemma cids_mid c1 c c2 : cids (c1 ++ c :: c2) = cids c1 ++ fst c :: cids c2.
Proof. unfold cids. now rewrite map_app. Qed.

Lemma afind_its_none kl C : afind keyC kl C = None -> afind keyI kl (its C) = None.
Proof. intros H. now rewrite afind_its, H. Qed.
Lemma afind_nodes_none kl C : afind keyC kl C = None -> afind keyL kl (nodes C) = None.
Proof. intros H. now rewrite afind_nodes, H. Qed.

Lemma d_setitem_err h d k v e :
  validate_input v = Err e -> d_setitem lower k v (h, d) = (Err e, (h, d)).
Proof. intros Hv. unfold d_setitem. now rewrite Hv. Qed.

Lemma d_setitem_ok h d C k v :
  d_rep h d C -> validate_input v = Ok tt ->
  exists h' d' C',
    d_setitem lower k v (h, d) = (Ok tt, (h', d'))
    /\ d_rep h' d' C' /\ its C' = s_set lower k v (its C) /\ d_post h C h' C'.
Proof.
  intros R Hv. pose proof (d_rep_keys _ _ _ R) as K. pose proof R as [RO V N Va].
  unfold d_setitem. rewrite Hv. rewrite (mbind_ok _ _ (h, d) tt (h, d)) by reflexivity.
  destruct (afind keyC (lower k) C) as [[i [k' v']]|] eqn:E.
  - assert (Hne : afind keyL (lower k) (nodes C) <> None) by (rewrite afind_nodes, E; discriminate).
    rewrite (mbind_ok _ _ _ _ _ (on_keys_eq _ _ _ _ _ _ (os_add_present lower _ _ _ k RO Hne))).
    rewrite mkD_eta.
    apply afind_split in E. destruct E as [c1 [c2 [-> [Hk Hn]]]].
    change (lower k' = lower k) in Hk.
    exists h, (mkD (d_keys d) (t_set (lower k) v (d_vals d))), (c1 ++ (i, (k', v)) :: c2).
    split; [reflexivity|].
    assert (K' : NoDup (map keyC (c1 ++ (i, (k', v)) :: c2))).
    { rewrite map_app in *. exact K. }
    split; [|split].
    + constructor; cbn [d_keys d_vals].
      * rewrite nodes_mid in *. exact RO.
      * intros kl. rewrite t_get_set, V, !afind_its.
        rewrite (afind_mid keyC kl c1 (i, (k', v'))) by exact K.
        rewrite (afind_mid keyC kl c1 (i, (k', v))) by exact K'.
        change (keyC (i, (k', v'))) with (lower k'). change (keyC (i, (k', v))) with (lower k').
        rewrite Hk. destruct (str_eqb kl (lower k)); reflexivity.
      * now apply t_set_nodup.
      * rewrite its_mid in *. apply Forall_app in Va. destruct Va as [Va1 Va2].
        apply Forall_app. split; [exact Va1|]. inversion Va2; subst. constructor; [exact Hv|assumption].
    + rewrite !its_mid. cbn [snd]. symmetry. apply s_set_mid; [now apply afind_its_none|exact Hk].
    + split; [apply hframe_refl|]. intros j Hj. left. rewrite cids_mid in *. exact Hj.
  - pose proof (afind_nodes_none _ _ E) as En.
    destruct (os_add_absent lower h (d_keys d) (nodes C) k RO En) as [h' [os' [E1 [R1 [N1 F1]]]]].
    rewrite (mbind_ok _ _ _ _ _ (on_keys_eq _ _ _ _ _ _ E1)).
    exists h', (mkD os' (t_set (lower k) v (d_vals d))), (C ++ [(nxt h, (k, v))]).
    split; [reflexivity|]. split; [|split].
    + constructor; cbn [d_keys d_vals].
      * rewrite nodes_app. exact R1.
      * intros kl. rewrite t_get_set, V, its_app, afind_app. cbn [its map afind snd].
        change (keyI (k, v)) with (lower k).
        destruct (str_eqb kl (lower k)) eqn:E2.
        -- apply str_eqb_eq in E2. subst kl. now rewrite (afind_its_none _ _ E).
        -- destruct (afind keyI kl (its C)); reflexivity.
      * now apply t_set_nodup.
      * rewrite its_app. apply Forall_app. split; [exact Va|]. constructor; [exact Hv|constructor].
    + rewrite its_app. symmetry. apply s_set_absent. now apply afind_its_none.
    + split; [rewrite <- ids_nodes; exact F1|]. intros j Hj. rewrite cids_app in Hj.
      apply in_app_iff in Hj. destruct Hj as [Hj|[<-|[]]]; [now left|right; cbn; lia].
Qed.

(** ** deletion *)
Lemma d_delitem_missing h d C k :
  d_rep h d C -> afind keyC (lower k) C = None ->
  d_delitem lower k (h, d) = (Err KeyError, (h, d)).
Proof.
  intros R E. unfold d_delitem, os_remove.
  rewrite (mbind_err _ _ (h, d) KeyError (h, d)); [reflexivity|].
  rewrite (on_keys_eq _ h d (Err KeyError) h (d_keys d)); [now rewrite mkD_eta|].
  apply mbind_err. apply (os_lookup_missing lower _ _ _ _ (dr_os _ _ _ R)). now apply afind_nodes_none.
Qed.

Lemma d_delitem_found h d (c1 : list cell) i k' v' (c2 : list cell) k :
  d_rep h d (c1 ++ (i, (k', v')) :: c2) -> lower k' = lower k ->
  exists h' d',
    d_delitem lower k (h, d) = (Ok tt, (h', d'))
    /\ d_rep h' d' (c1 ++ c2) /\ d_post h (c1 ++ (i, (k', v')) :: c2) h' (c1 ++ c2).
Proof.
  intros R Hk. pose proof (d_rep_keys _ _ _ R) as K. pose proof R as [RO V N Va].
  rewrite nodes_mid in RO.
  destruct (os_remove_found lower h (d_keys d) (nodes c1) i k' (nodes c2) k RO Hk)
    as [h' [os' [E1 [R1 [N1 F1]]]]].
  unfold d_delitem. rewrite (mbind_ok _ _ _ _ _ (on_keys_eq _ _ _ _ _ _ E1)).
  exists h', (mkD os' (t_del (lower k) (d_vals d))). split; [reflexivity|]. split.
  - constructor; cbn [d_keys d_vals].
    + rewrite nodes_app. exact R1.
    + intros kl. rewrite t_get_del by exact N. rewrite V, !afind_its.
      rewrite (afind_mid keyC kl c1) by exact K. change (keyC (i, (k', v'))) with (lower k'). rewrite Hk.
      destruct (str_eqb kl (lower k)) eqn:E2; [|reflexivity].
      apply str_eqb_eq in E2. subst kl.
      assert (Hn : afind keyC (lower k) (c1 ++ c2) = None); [|now rewrite Hn].
      apply afind_none. rewrite map_app in *. cbn [map] in K. apply NoDup_remove_2 in K.
      change (keyC (i, (k', v'))) with (lower k') in K. now rewrite Hk in K.
    + now apply t_del_nodup.
    + rewrite its_mid in Va. rewrite its_app. apply Forall_app in Va. destruct Va as [Va1 Va2].
      apply Forall_app. split; [exact Va1|]. now inversion Va2.
  - split; [rewrite <- ids_nodes, nodes_mid; exact F1|].
    intros j Hj. left. rewrite cids_app in Hj. rewrite cids_mid. apply in_app_iff in Hj.
    apply in_app_iff. cbn [In]. tauto.
Qed.

(** ** re-ordering *)
Lemma d_move h d (c1 : list cell) i kv (c2 a b : list cell) item reins :
  d_rep h d (c1 ++ (i, kv) :: c2) -> lower (fst kv) = lower item ->
  a ++ b = c1 ++ c2 -> reins_ok reins (nodes a) (nodes b) ->
  exists h' d',
    on_keys (os_reorder lower item reins) (h, d) = (Ok tt, (h', d'))
    /\ d_rep h' d' (a ++ (nxt h, kv) :: b)
    /\ d_post h (c1 ++ (i, kv) :: c2) h' (a ++ (nxt h, kv) :: b).
Proof.
  intros R Hk Hab Hre. pose proof (d_rep_keys _ _ _ R) as K. pose proof R as [RO V N Va].
  rewrite nodes_mid in RO.
  assert (Hab' : nodes a ++ nodes b = nodes c1 ++ nodes c2) by (rewrite <- !nodes_app; now f_equal).
  destruct (os_reorder_spec lower h (d_keys d) (nodes c1) i (fst kv) (nodes c2) item reins
              (nodes a) (nodes b) RO Hk Hab' Hre) as [h' [os' [E1 [R1 [N1 F1]]]]].
  rewrite (on_keys_eq _ _ _ _ _ _ E1).
  exists h', (mkD os' (d_vals d)). split; [reflexivity|].
  assert (K' : NoDup (map keyC (a ++ (nxt h, kv) :: b))).
  { rewrite map_app in *. cbn [map] in *.
    pose proof (NoDup_remove_1 _ _ _ K) as K1. pose proof (NoDup_remove_2 _ _ _ K) as K2.
    rewrite <- map_app, <- Hab, map_app in K1, K2.
    apply NoDup_Add with (a := keyC (nxt h, kv)) (l := map keyC a ++ map keyC b); [apply Add_app|].
    split; [exact K1|exact K2]. }
  split.
  - constructor; cbn [d_keys d_vals].
    + rewrite nodes_mid. exact R1.
    + intros kl. rewrite V, !afind_its.
      rewrite (afind_mid keyC kl c1) by exact K. rewrite (afind_mid keyC kl a) by exact K'.
      change (keyC (i, kv)) with (lower (fst kv)). change (keyC (nxt h, kv)) with (lower (fst kv)).
      rewrite Hab. destruct (str_eqb kl (lower (fst kv))); reflexivity.
    + exact N.
    + rewrite its_mid in *. apply Forall_app in Va. destruct Va as [Va1 Va2]. inversion Va2; subst.
      assert (Hall : Forall valid_kv (its (a ++ b))).
      { rewrite Hab, its_app. apply Forall_app. split; assumption. }
      rewrite its_app in Hall. apply Forall_app in Hall. destruct Hall.
      apply Forall_app. split; [assumption|]. constructor; assumption.
  - split; [rewrite <- ids_nodes, nodes_mid; exact F1|].
    intros j Hj. rewrite cids_mid in *. apply in_app_iff in Hj. cbn [fst In] in Hj.
    assert (Hc : cids a ++ cids b = cids c1 ++ cids c2) by (rewrite <- !cids_app; now f_equal).
    destruct Hj as [Hj|[<-|Hj]]; [|right; lia|].
    + left. assert (In j (cids a ++ cids b)) as Hx by (apply in_app_iff; now left).
      rewrite Hc in Hx. apply in_app_iff in Hx. apply in_app_iff. cbn [In]. tauto.
    + left. assert (In j (cids a ++ cids b)) as Hx by (apply in_app_iff; now right).
      rewrite Hc in Hx. apply in_app_iff in Hx. apply in_app_iff. cbn [In]. tauto.
Qed.

Lemma d_reorder_missing h d C k reins :
  d_rep h d C -> afind keyC (lower k) C = None ->
  on_keys (os_reorder lower k reins) (h, d) = (Err KeyError, (h, d)).
Proof.
  intros R E. unfold os_reorder.
  rewrite (on_keys_eq _ h d (Err KeyError) h (d_keys d)); [now rewrite mkD_eta|].
  apply mbind_err. apply (os_lookup_missing lower _ _ _ _ (dr_os _ _ _ R)). now apply afind_nodes_none.
Qed.
