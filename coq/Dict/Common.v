(** Neutral vocabulary shared by the C09 model (Heap.v) and its reference
    (Spec.v): operation and result types, Python-dict-as-association-list,
    code-point order on strings, a generic stable insertion sort.
    Definitions only. *)
From Verif Require Import Lib.Base.

Definition is_some {A} (x : option A) : bool := match x with Some _ => true | None => false end.

(** [l[n] = x] for an index in range (no effect otherwise: the caller tests). *)
Definition set_nth {A} (n : nat) (x : A) (l : list A) : list A :=
  firstn n l ++ match skipn n l with [] => [] | _ :: r => x :: r end.

(** * A Python [dict] whose keys are already normalised strings.
    Iteration order of these dicts is never observed by the modelled code, only
    [d[k]], [d[k] = v], [del d[k]] and [k in d]. *)
Section Tbl.
Context {V : Type}.
Definition tbl := list (str * V).

Fixpoint t_get (k : str) (t : tbl) : option V :=
  match t with
  | [] => None
  | (k', v) :: t' => if str_eqb k k' then Some v else t_get k t'
  end.

(** [d[k] = v]: an existing entry keeps its position (and its key object). *)
Fixpoint t_set (k : str) (v : V) (t : tbl) : tbl :=
  match t with
  | [] => [(k, v)]
  | (k', v') :: t' => if str_eqb k k' then (k', v) :: t' else (k', v') :: t_set k v t'
  end.

(** [del d[k]] on a present key (absence is tested by the caller). *)
Fixpoint t_del (k : str) (t : tbl) : tbl :=
  match t with
  | [] => []
  | (k', v') :: t' => if str_eqb k k' then t' else (k', v') :: t_del k t'
  end.

Definition t_mem (k : str) (t : tbl) : bool :=
  match t_get k t with Some _ => true | None => false end.
End Tbl.
Arguments tbl V : clear implicits.

(** * Sort keys.  The value a key function returns is modelled as a list of
    integers compared lexicographically (Python's [<=] on [str] = on the list of
    code points; on a list of ints; an int is a one-element list, a constant
    the empty list). *)
Fixpoint zs_leb (a b : list Z) : bool :=
  match a, b with
  | [], _ => true
  | _ :: _, [] => false
  | x :: a', y :: b' => if (x <? y)%Z then true else if (y <? x)%Z then false else zs_leb a' b'
  end.

Definition zs_eqb : list Z -> list Z -> bool := list_eqb Z.eqb.

(** * Stable sort ([sorted(xs, key=key)]): insertion sort; an element is placed
    before the already sorted elements with an equal key that followed it. *)
Section Sort.
Context {A : Type} (key : A -> list Z).
Fixpoint insert_by (x : A) (l : list A) : list A :=
  match l with
  | [] => [x]
  | y :: l' => if zs_leb (key x) (key y) then x :: l else y :: insert_by x l'
  end.
Fixpoint sort_by (l : list A) : list A :=
  match l with
  | [] => []
  | x :: l' => insert_by x (sort_by l')
  end.
End Sort.

(** The key functions [sort_fields(key=...)] is exercised with.  [lower] is [str.lower]. *)
Inductive sortkey :=
| KDefault      (* key=None: default_field_sort_key = name.lower() *)
| KLen          (* key=len *)
| KConst        (* key=lambda f: 0 *)
| KRank         (* key=lambda f: {'package': 0, 'b': 0, 'description': 2, 'd': 2}.get(f.lower(), 1) *)
| KRevLex.      (* key=lambda f: [-ord(c) for c in f.lower()] *)

Definition s_package : str := [112; 97; 99; 107; 97; 103; 101]%N.
Definition s_description : str := [100; 101; 115; 99; 114; 105; 112; 116; 105; 111; 110]%N.

Definition rank_of (l : str) : Z :=
  if str_eqb l s_package || str_eqb l [98%N] then 0%Z
  else if str_eqb l s_description || str_eqb l [100%N] then 2%Z
  else 1%Z.

Definition sort_key (lower : str -> str) (sk : sortkey) (name : str) : list Z :=
  match sk with
  | KDefault => map Z.of_N (lower name)
  | KLen => [Z.of_nat (length name)]
  | KConst => []
  | KRank => [rank_of (lower name)]
  | KRevLex => map (fun c => (- Z.of_N c)%Z) (lower name)
  end.

Definition sortkey_eqb (a b : sortkey) : bool :=
  match a, b with
  | KDefault, KDefault | KLen, KLen | KConst, KConst | KRank, KRank | KRevLex, KRevLex => true
  | _, _ => false
  end.

(** * Operations of a history.  [o] is the index of the paragraph object the
    operation is applied to; [OCopy] and [OReparse] append a new object. *)
Inductive op :=
| OSet (o : nat) (k v : str)        (* d[k] = v *)
| OGet (o : nat) (k : str)          (* d[k] *)
| ODel (o : nat) (k : str)          (* del d[k] *)
| OContains (o : nat) (k : str)     (* k in d *)
| OLen (o : nat)                    (* len(d) *)
| OIter (o : nat)                   (* list(d) *)
| OFirst (o : nat) (k : str)        (* d.order_first(k) *)
| OLast (o : nat) (k : str)         (* d.order_last(k) *)
| OBefore (o : nat) (k r : str)     (* d.order_before(k, r) *)
| OAfter (o : nat) (k r : str)      (* d.order_after(k, r) *)
| OSort (o : nat) (sk : sortkey)    (* d.sort_fields(key=...) *)
| OCopy (o : nat)                   (* objs.append(d.copy()) *)
| OReparse (o : nat)                (* objs.append(Deb822(d.dump())) *)
| ODump (o : nat).                  (* d.dump() *)

Definition op_target (x : op) : nat :=
  match x with
  | OSet o _ _ | OGet o _ | ODel o _ | OContains o _ | OLen o | OIter o
  | OFirst o _ | OLast o _ | OBefore o _ _ | OAfter o _ _ | OSort o _
  | OCopy o | OReparse o | ODump o => o
  end.

(** What an operation returned (or the kind of exception it raised). *)
Inductive out :=
| RNone
| RStr (s : str)
| RBool (b : bool)
| RNat (n : nat)
| RKeys (ks : list str)
| RErr (e : err).

Definition out_eqb (a b : out) : bool :=
  match a, b with
  | RNone, RNone => true
  | RStr s, RStr t => str_eqb s t
  | RBool x, RBool y => Bool.eqb x y
  | RNat n, RNat m => Nat.eqb n m
  | RKeys k, RKeys l => strs_eqb k l
  | RErr e, RErr f => err_eqb e f
  | _, _ => false
  end.

(** How the initial paragraph (object 0) is made. *)
Inductive start :=
| SEmpty                                   (* Deb822() *)
| SDict (items : list (str * str))         (* Deb822({k: v, ...}) *)
| SParsed (text : str) (items : list (str * str)).
    (* Deb822(text); [items] are the (key, value) fields the text was written from *)

(** The observable content of one paragraph: [list(d.items())]. *)
Definition items := list (str * str).
Definition items_eqb : items -> items -> bool := list_eqb (pair_eqb str_eqb str_eqb).

(** Full view of one paragraph after an operation. *)
Record view := mkView {
  v_items : items;          (* list(d), [d[k] for k in d] *)
  v_len : nat;              (* len(d) *)
  v_in : list bool;         (* [k in d for k in alphabet] *)
  v_dump : str;             (* d.dump() *)
}.

Definition view_eqb (a b : view) : bool :=
  items_eqb (v_items a) (v_items b) && Nat.eqb (v_len a) (v_len b)
  && list_eqb Bool.eqb (v_in a) (v_in b) && str_eqb (v_dump a) (v_dump b).

(** One step of a trace: the result, the full view of the object operated on
    (for [OCopy]/[OReparse]: of the new object), and the items of every object. *)
Record frame := mkFrame {
  f_out : out;
  f_view : result view;
  f_all : list (result items);
}.

Definition frame_eqb (a b : frame) : bool :=
  out_eqb (f_out a) (f_out b) && result_eqb view_eqb (f_view a) (f_view b)
  && list_eqb (result_eqb items_eqb) (f_all a) (f_all b).
