(** Case format evaluated by the correspondence check of C09.
    [agree]: the pointer-level model (Heap.v) reproduces, frame by frame, what
             the implementation did.
    [holds]: the property itself, judged on what the implementation did, against
             the association-list reference (Spec.v). *)
From Coq Require Import String Strings.Byte Init.Byte.
From Verif Require Import Lib.Base Lib.Dec Lib.PyStr Gen.PyChars Dict.Common Dict.Heap Dict.Spec.

(** Text literals of a case file are byte strings (several times cheaper for coqc to
    elaborate than [string] literals); they carry the escaped form that [Lib.Dec.dec]
    decodes, except that a line feed is written raw ([dec] maps every byte other than a
    backslash to itself). *)
Inductive bstr := BS (l : list byte).
Definition bs_parse (l : list byte) : bstr := BS l.
Definition bs_print (b : bstr) : list byte := match b with BS l => l end.
Declare Scope bs_scope.
Delimit Scope bs_scope with bs.
Bind Scope bs_scope with bstr.
String Notation bstr bs_parse bs_print : bs_scope.
Definition bdec (b : bstr) : str := dec (string_of_list_byte (bs_print b)).

(** raw (literal) forms written by the harness *)
Inductive rop :=
| XSet (o : nat) (k v : bstr)
| XGet (o : nat) (k : bstr)
| XDel (o : nat) (k : bstr)
| XIn (o : nat) (k : bstr)
| XLen (o : nat)
| XIter (o : nat)
| XFirst (o : nat) (k : bstr)
| XLast (o : nat) (k : bstr)
| XBefore (o : nat) (k r : bstr)
| XAfter (o : nat) (k r : bstr)
| XSort (o : nat) (sk : sortkey)
| XCopy (o : nat)
| XReparse (o : nat)
| XDump (o : nat).

Inductive rout :=
| YNone | YStr (s : bstr) | YBool (b : bool) | YNat (n : nat) | YKeys (l : list bstr)
| YErr (e : err).

Inductive rstart :=
| ZEmpty | ZDict (its : list (bstr * bstr)) | ZParsed (text : bstr) (its : list (bstr * bstr)).

(** Observations are written compactly (elaborating the literals is what a run
    costs): a view equal to the previous frame's is omitted, the items of a view
    may refer to those of a paragraph listed for the same frame, and only the
    paragraphs whose items differ from the previous frame are listed.
    [decode_frames] below restores the full frames. *)
Inductive ritems :=
| ISame (j : nat)                          (* = the items of paragraph j in this frame *)
| IList (l : list (bstr * bstr)).

Record rview := mkV {
  rv_items : ritems; rv_len : nat;
  rv_in : N;                                (* bit i: alphabet[i] in d *)
  rv_dump : bstr }.

Record rframe := mkF {
  rf_out : rout;
  rf_view : option (result rview);          (* None: the same view as in the previous frame *)
  rf_n : nat;                               (* number of paragraphs *)
  rf_upd : list (nat * result (list (bstr * bstr))) }.
    (* the items of the paragraphs that differ from the previous frame (or are new) *)

Record case := mk {
  c_lower : list (bstr * bstr);   (* (k, k.lower()) wherever str.lower differs from ASCII lower-casing *)
  c_alpha : list bstr;              (* the keys probed with [k in d] in every view *)
  c_start : rstart;
  c_ops : list rop;
  c_obs : list rframe;                (* frame 0: after construction; frame i: after operation i *)
}.

Definition dpairs (l : list (bstr * bstr)) : list (str * str) :=
  map (fun p => (bdec (fst p), bdec (snd p))) l.

Definition op_of (x : rop) : op :=
  match x with
  | XSet o k v => OSet o (bdec k) (bdec v)
  | XGet o k => OGet o (bdec k)
  | XDel o k => ODel o (bdec k)
  | XIn o k => OContains o (bdec k)
  | XLen o => OLen o
  | XIter o => OIter o
  | XFirst o k => OFirst o (bdec k)
  | XLast o k => OLast o (bdec k)
  | XBefore o k r => OBefore o (bdec k) (bdec r)
  | XAfter o k r => OAfter o (bdec k) (bdec r)
  | XSort o sk => OSort o sk
  | XCopy o => OCopy o
  | XReparse o => OReparse o
  | XDump o => ODump o
  end.

Definition out_of_raw (y : rout) : out :=
  match y with
  | YNone => RNone | YStr s => RStr (bdec s) | YBool b => RBool b | YNat n => RNat n
  | YKeys l => RKeys (map bdec l) | YErr e => RErr e
  end.

Definition start_of (z : rstart) : start :=
  match z with
  | ZEmpty => SEmpty
  | ZDict its => SDict (dpairs its)
  | ZParsed t its => SParsed (bdec t) (dpairs its)
  end.

Definition map_result {A B} (f : A -> B) (r : result A) : result B :=
  match r with Ok a => Ok (f a) | Err e => Err e end.

Fixpoint assoc_nat {A} (j : nat) (l : list (nat * A)) : option A :=
  match l with
  | [] => None
  | (i, a) :: l' => if Nat.eqb i j then Some a else assoc_nat j l'
  end.

Definition expand_all (prev : list (result items)) (n : nat)
    (upd : list (nat * result (list (bstr * bstr)))) : list (result items) :=
  map (fun j => match assoc_nat j upd with
                | Some r => map_result dpairs r
                | None => match nth_error prev j with Some p => p | None => Err OtherError end
                end) (seq 0 n).

Definition view_of_raw (nalpha : nat) (all : list (result items)) (v : rview) : view :=
  mkView
    (match rv_items v with
     | IList l => dpairs l
     | ISame j => match nth_error all j with Some (Ok its) => its | _ => [] end
     end)
    (rv_len v)
    (map (fun i => N.testbit (rv_in v) (N.of_nat i)) (seq 0 nalpha))
    (bdec (rv_dump v)).

(** the observed frames, decoded; [prev] = the items of every paragraph in the previous
    frame, [pview] = the view of the previous frame *)
Fixpoint decode_frames (nalpha : nat) (prev : list (result items)) (pview : result view)
    (fs : list rframe) : list frame :=
  match fs with
  | [] => []
  | f :: fs' =>
      let all := expand_all prev (rf_n f) (rf_upd f) in
      let v := match rf_view f with
               | Some rv => map_result (view_of_raw nalpha all) rv
               | None => pview
               end in
      mkFrame (out_of_raw (rf_out f)) v all :: decode_frames nalpha all v fs'
  end.

Definition case_obs (c : case) : list frame := decode_frames (length (c_alpha c)) [] (Err OtherError) (c_obs c).

(** [str.lower]: ASCII lower-casing, overridden by the interpreter's answers
    carried in the case for keys with non-ASCII cased letters. *)
Definition lower_of (t : list (str * str)) (k : str) : str :=
  match t_get k t with Some l => l | None => ascii_lower k end.

Definition case_lower (c : case) : str -> str := lower_of (dpairs (c_lower c)).

(** ** the declared domain (a condition on the INPUTS of a case only)
    [start_ok]: the initial values pass Deb822.validate_input and, for a parsed
    start, the text parses to the listed fields -- otherwise the constructor
    raises and there is no paragraph to talk about.
    [hist_ok]: every dump+reparse of the history is applied to a paragraph on
    which dump-then-parse is the identity, evaluated along the REFERENCE run
    (for single-line values and plain field names this is a theorem,
    Props/C09.v no. 5).  Keys, values, object indices and lengths are otherwise
    unrestricted. *)
Definition has_linebreak (v : str) : bool := existsb py_islinebreak v.

(** The reference step.  Values containing a line boundary are outside the
    property's domain (single-line values): for them the implementation may
    either perform the assignment or refuse it with ValueError — in which case
    the mapping must be unchanged. *)
Definition ref_step (lower : str -> str) (w : list items) (x : op) (seen : out) : out * list items :=
  match x, seen with
  | OSet _ _ v, RErr ValueError =>
      if has_linebreak v then (RErr ValueError, w) else s_step lower w x
  | _, _ => s_step lower w x
  end.

Definition valid_b (kv : str * str) : bool := is_ok (validate_input (snd kv)).

Definition start_ok (s : start) : bool :=
  match s with
  | SEmpty => true
  | SDict its => forallb valid_b its
  | SParsed text its => items_eqb (parse_text text) its && forallb valid_b its
  end.

Definition reparse_ok (W : list items) (x : op) : bool :=
  match x with
  | OReparse o =>
      match nth_error W o with
      | Some d => items_eqb (parse_text (s_dump d)) d
      | None => true
      end
  | _ => true
  end.

(** whether an assignment is refused is decided by validate_input alone *)
Definition hint (x : op) : out :=
  match x with
  | OSet _ _ v => if is_ok (validate_input v) then RNone else RErr ValueError
  | _ => RNone
  end.

Definition spec_next (lower : str -> str) (W : list items) (x : op) : list items :=
  snd (ref_step lower W x (hint x)).

Fixpoint hist_ok (lower : str -> str) (W : list items) (xs : list op) : bool :=
  match xs with
  | [] => true
  | x :: xs' => reparse_ok W x && hist_ok lower (spec_next lower W x) xs'
  end.

Definition case_in_domain (c : case) : bool :=
  start_ok (start_of (c_start c))
  && hist_ok (case_lower c) (s_start (case_lower c) (start_of (c_start c))) (map op_of (c_ops c)).

(** ** the model's trace *)
Definition model_frames (lower : str -> str) (alpha : list str) (s : start) (xs : list op) : list frame :=
  let (r, w) := start_world lower s in
  mkFrame r
    (match nth_error (w_objs w) 0 with
     | Some d => obj_view lower alpha w d
     | None => Err IndexError
     end)
    (map (obj_items lower w) (w_objs w))
  :: trace lower alpha w xs.

Definition model_trace (c : case) : list frame :=
  model_frames (case_lower c) (map bdec (c_alpha c)) (start_of (c_start c)) (map op_of (c_ops c)).

(** A case outside the declared domain counts as a correspondence failure: the
    generator has to stay inside, so that [agree c = true -> holds c = true]
    (Props/C09.v no. 4) applies to every case of a passing run. *)
Definition agree (c : case) : bool :=
  case_in_domain c && list_eqb frame_eqb (model_trace c) (case_obs c).

(** ** the property *)
Definition ref_frame (lower : str -> str) (alpha : list str) (nb : nat) (x : op) (r : out)
    (w : list items) : frame :=
  mkFrame r
    (match nth_error w (viewed nb (length w) x) with
     | Some d => Ok (s_view lower alpha d)
     | None => Err IndexError
     end)
    (map (fun d => Ok d) w).

Fixpoint holds_loop (lower : str -> str) (alpha : list str) (w : list items)
    (xs : list op) (obs : list frame) : bool :=
  match xs, obs with
  | [], [] => true
  | x :: xs', f :: obs' =>
      let (r, w') := ref_step lower w x (f_out f) in
      frame_eqb (ref_frame lower alpha (length w) x r w') f
      && holds_loop lower alpha w' xs' obs'
  | _, _ => false
  end.

(** the property on decoded data: [obs] = frame 0 (after construction) followed by
    one frame per operation *)
Definition holds_frames (lower : str -> str) (alpha : list str) (s : start) (xs : list op)
    (obs : list frame) : bool :=
  let w := s_start lower s in
  match obs with
  | [] => false
  | f0 :: obs =>
      frame_eqb
        (mkFrame RNone
           (match w with d :: _ => Ok (s_view lower alpha d) | [] => Err IndexError end)
           (map (fun d => Ok d) w))
        f0
      && holds_loop lower alpha w xs obs
  end.

Definition holds (c : case) : bool :=
  holds_frames (case_lower c) (map bdec (c_alpha c)) (start_of (c_start c)) (map op_of (c_ops c))
    (case_obs c).

Definition bad_agree (cs : list case) : list N := bad agree cs.
Definition bad_holds (cs : list case) : list N := bad holds cs.
