(** Case format evaluated by the correspondence check of C09.
    [agree]: the pointer-level model (Heap.v) reproduces, frame by frame, what
             the implementation did.
    [holds]: the property itself, judged on what the implementation did, against
             the association-list reference (Spec.v). *)
From Coq Require Import String.
From Verif Require Import Lib.Base Lib.Dec Lib.PyStr Gen.PyChars Dict.Common Dict.Heap Dict.Spec.

(** raw (literal) forms written by the harness *)
Inductive rop :=
| XSet (o : nat) (k v : string)
| XGet (o : nat) (k : string)
| XDel (o : nat) (k : string)
| XIn (o : nat) (k : string)
| XLen (o : nat)
| XIter (o : nat)
| XFirst (o : nat) (k : string)
| XLast (o : nat) (k : string)
| XBefore (o : nat) (k r : string)
| XAfter (o : nat) (k r : string)
| XSort (o : nat)
| XCopy (o : nat)
| XReparse (o : nat)
| XDump (o : nat).

Inductive rout :=
| YNone | YStr (s : string) | YBool (b : bool) | YNat (n : nat) | YKeys (l : list string)
| YErr (e : err).

Inductive rstart :=
| ZEmpty | ZDict (its : list (string * string)) | ZParsed (text : string) (its : list (string * string)).

Record rview := mkV {
  rv_items : list (string * string); rv_len : nat; rv_in : list bool; rv_dump : string }.

Record rframe := mkF {
  rf_out : rout; rf_view : result rview; rf_all : list (result (list (string * string))) }.

Record case := mk {
  c_lower : list (string * string);   (* (k, k.lower()) wherever str.lower differs from ASCII lower-casing *)
  c_alpha : list string;              (* the keys probed with [k in d] in every view *)
  c_start : rstart;
  c_ops : list rop;
  c_obs : list rframe;                (* frame 0: after construction; frame i: after operation i *)
}.

Definition dpairs (l : list (string * string)) : list (str * str) :=
  map (fun p => (dec (fst p), dec (snd p))) l.

Definition op_of (x : rop) : op :=
  match x with
  | XSet o k v => OSet o (dec k) (dec v)
  | XGet o k => OGet o (dec k)
  | XDel o k => ODel o (dec k)
  | XIn o k => OContains o (dec k)
  | XLen o => OLen o
  | XIter o => OIter o
  | XFirst o k => OFirst o (dec k)
  | XLast o k => OLast o (dec k)
  | XBefore o k r => OBefore o (dec k) (dec r)
  | XAfter o k r => OAfter o (dec k) (dec r)
  | XSort o => OSort o
  | XCopy o => OCopy o
  | XReparse o => OReparse o
  | XDump o => ODump o
  end.

Definition out_of_raw (y : rout) : out :=
  match y with
  | YNone => RNone | YStr s => RStr (dec s) | YBool b => RBool b | YNat n => RNat n
  | YKeys l => RKeys (map dec l) | YErr e => RErr e
  end.

Definition start_of (z : rstart) : start :=
  match z with
  | ZEmpty => SEmpty
  | ZDict its => SDict (dpairs its)
  | ZParsed t its => SParsed (dec t) (dpairs its)
  end.

Definition map_result {A B} (f : A -> B) (r : result A) : result B :=
  match r with Ok a => Ok (f a) | Err e => Err e end.

Definition frame_of_raw (f : rframe) : frame :=
  mkFrame (out_of_raw (rf_out f))
    (map_result (fun v => mkView (dpairs (rv_items v)) (rv_len v) (rv_in v) (dec (rv_dump v)))
       (rf_view f))
    (map (map_result dpairs) (rf_all f)).

(** [str.lower]: ASCII lower-casing, overridden by the interpreter's answers
    carried in the case for keys with non-ASCII cased letters. *)
Definition lower_of (t : list (str * str)) (k : str) : str :=
  match t_get k t with Some l => l | None => ascii_lower k end.

Definition case_lower (c : case) : str -> str := lower_of (dpairs (c_lower c)).

(** ** the declared domain (a condition on the INPUTS of a case only)
    [start_ok]: the initial values pass Deb822.validate_input and, for a parsed
    start, the text parses to the listed fields -- otherwise the constructor
    raises and there is no paragraph to talk about.
    [hist_ok]: every dump+reparse of the history is applied to a paragraph on
    which dump-then-parse is the identity, evaluated along the REFERENCE run
    (for single-line values and plain field names this is a theorem,
    Props/C09.v no. 5).  Keys, values, object indices and lengths are otherwise
    unrestricted. *)
Definition has_linebreak (v : str) : bool := existsb py_islinebreak v.

(** The reference step.  Values containing a line boundary are outside the
    property's domain (single-line values): for them the implementation may
    either perform the assignment or refuse it with ValueError — in which case
    the mapping must be unchanged. *)
Definition ref_step (lower : str -> str) (w : list items) (x : op) (seen : out) : out * list items :=
  match x, seen with
  | OSet _ _ v, RErr ValueError =>
      if has_linebreak v then (RErr ValueError, w) else s_step lower w x
  | _, _ => s_step lower w x
  end.

Definition valid_b (kv : str * str) : bool := is_ok (validate_input (snd kv)).

Definition start_ok (s : start) : bool :=
  match s with
  | SEmpty => true
  | SDict its => forallb valid_b its
  | SParsed text its => items_eqb (parse_text text) its && forallb valid_b its
  end.

Definition reparse_ok (W : list items) (x : op) : bool :=
  match x with
  | OReparse o =>
      match nth_error W o with
      | Some d => items_eqb (parse_text (s_dump d)) d
      | None => true
      end
  | _ => true
  end.

(** whether an assignment is refused is decided by validate_input alone *)
Definition hint (x : op) : out :=
  match x with
  | OSet _ _ v => if is_ok (validate_input v) then RNone else RErr ValueError
  | _ => RNone
  end.

Definition spec_next (lower : str -> str) (W : list items) (x : op) : list items :=
  snd (ref_step lower W x (hint x)).

Fixpoint hist_ok (lower : str -> str) (W : list items) (xs : list op) : bool :=
  match xs with
  | [] => true
  | x :: xs' => reparse_ok W x && hist_ok lower (spec_next lower W x) xs'
  end.

Definition case_in_domain (c : case) : bool :=
  start_ok (start_of (c_start c))
  && hist_ok (case_lower c) (s_start (case_lower c) (start_of (c_start c))) (map op_of (c_ops c)).

(** ** the model's trace *)
Definition model_frames (lower : str -> str) (alpha : list str) (s : start) (xs : list op) : list frame :=
  let (r, w) := start_world lower s in
  mkFrame r
    (match nth_error (w_objs w) 0 with
     | Some d => obj_view lower alpha w d
     | None => Err IndexError
     end)
    (map (obj_items lower w) (w_objs w))
  :: trace lower alpha w xs.

Definition model_trace (c : case) : list frame :=
  model_frames (case_lower c) (map dec (c_alpha c)) (start_of (c_start c)) (map op_of (c_ops c)).

(** A case outside the declared domain counts as a correspondence failure: the
    generator has to stay inside, so that [agree c = true -> holds c = true]
    (Props/C09.v no. 4) applies to every case of a passing run. *)
Definition agree (c : case) : bool :=
  case_in_domain c && list_eqb frame_eqb (model_trace c) (map frame_of_raw (c_obs c)).

(** ** the property *)
Definition ref_frame (lower : str -> str) (alpha : list str) (nb : nat) (x : op) (r : out)
    (w : list items) : frame :=
  mkFrame r
    (match nth_error w (viewed nb (length w) x) with
     | Some d => Ok (s_view lower alpha d)
     | None => Err IndexError
     end)
    (map (fun d => Ok d) w).

Fixpoint holds_loop (lower : str -> str) (alpha : list str) (w : list items)
    (xs : list op) (obs : list frame) : bool :=
  match xs, obs with
  | [], [] => true
  | x :: xs', f :: obs' =>
      let (r, w') := ref_step lower w x (f_out f) in
      frame_eqb (ref_frame lower alpha (length w) x r w') f
      && holds_loop lower alpha w' xs' obs'
  | _, _ => false
  end.

(** the property on decoded data: [obs] = frame 0 (after construction) followed by
    one frame per operation *)
Definition holds_frames (lower : str -> str) (alpha : list str) (s : start) (xs : list op)
    (obs : list frame) : bool :=
  let w := s_start lower s in
  match obs with
  | [] => false
  | f0 :: obs =>
      frame_eqb
        (mkFrame RNone
           (match w with d :: _ => Ok (s_view lower alpha d) | [] => Err IndexError end)
           (map (fun d => Ok d) w))
        f0
      && holds_loop lower alpha w xs obs
  end.

Definition holds (c : case) : bool :=
  holds_frames (case_lower c) (map dec (c_alpha c)) (start_of (c_start c)) (map op_of (c_ops c))
    (map frame_of_raw (c_obs c)).

Definition bad_agree (cs : list case) : list N := bad agree cs.
Definition bad_holds (cs : list case) : list N := bad holds cs.
