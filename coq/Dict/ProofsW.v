(** C09 proofs, layer 4: a world of paragraph objects in one heap; histories. *)
From Coq Require Import FMapPositive Permutation.
From Verif Require Import Lib.Base Lib.PyStr Gen.PyChars Dict.Common Dict.Heap Dict.Spec
  Dict.ProofsLL Dict.ProofsOS Dict.ProofsD Dict.Check.

(** * set_nth *)
Lemma set_nth_length {A} n (x : A) l : length (set_nth n x l) = length l.
Proof.
  revert l. induction n as [|n IH]; intros [|y l]; cbn; try reflexivity.
  unfold set_nth in IH. cbn. now rewrite IH.
Qed.

Lemma set_nth_eq {A} n (x : A) l : n < length l -> nth_error (set_nth n x l) n = Some x.
Proof.
  revert l. induction n as [|n IH]; intros [|y l] H; cbn in *; try lia; [reflexivity|].
  apply IH. lia.
Qed.

Lemma set_nth_neq {A} n (x : A) l i : i <> n -> nth_error (set_nth n x l) i = nth_error l i.
Proof.
  revert l i. induction n as [|n IH]; intros [|y l] [|i] H; cbn; try reflexivity; try congruence.
  apply IH. congruence.
Qed.

Lemma set_nth_same {A} n (x : A) l : nth_error l n = Some x -> set_nth n x l = l.
Proof.
  revert l. induction n as [|n IH]; intros [|y l] H; cbn in *; try discriminate.
  - now inversion H.
  - unfold set_nth in IH. f_equal. now apply IH.
Qed.

Lemma set_nth_map {A B} (f : A -> B) n x l : map f (set_nth n x l) = set_nth n (f x) (map f l).
Proof.
  revert l. induction n as [|n IH]; intros [|y l]; cbn; try reflexivity.
  unfold set_nth in IH. f_equal. apply IH.
Qed.

Lemma nth_error_some_lt {A} (l : list A) n x : nth_error l n = Some x -> n < length l.
Proof. intros H. apply nth_error_Some. congruence. Qed.

(** * boolean equalities reflect equality *)
Lemma pair_eqb_eq {A B} (ea : A -> A -> bool) (eb : B -> B -> bool)
  (Ha : forall a b, ea a b = true <-> a = b) (Hb : forall a b, eb a b = true <-> a = b) x y :
  pair_eqb ea eb x y = true <-> x = y.
Proof.
  destruct x as [a b], y as [c d]. unfold pair_eqb. cbn. rewrite andb_true_iff, Ha, Hb.
  split; [intros [-> ->]; reflexivity|intros H; inversion H; auto].
Qed.

Lemma items_eqb_eq a b : items_eqb a b = true <-> a = b.
Proof. apply list_eqb_eq. intros x y. apply pair_eqb_eq; apply str_eqb_eq. Qed.

Lemma result_eqb_eq {A} (eqb : A -> A -> bool) (H : forall a b, eqb a b = true <-> a = b) x y :
  result_eqb eqb x y = true <-> x = y.
Proof.
  destruct x as [a|e], y as [b|f]; cbn; try (split; [discriminate|congruence]).
  - rewrite H. split; [now intros ->|now intros [= ->]].
  - rewrite err_eqb_eq. split; [now intros ->|now intros [= ->]].
Qed.

Lemma out_eqb_eq a b : out_eqb a b = true <-> a = b.
Proof.
  destruct a, b; cbn; try (split; [discriminate|congruence]); try tauto.
  - rewrite str_eqb_eq. split; [now intros ->|now intros [= ->]].
  - rewrite Bool.eqb_true_iff. split; [now intros ->|now intros [= ->]].
  - rewrite Nat.eqb_eq. split; [now intros ->|now intros [= ->]].
  - rewrite strs_eqb_eq. split; [now intros ->|now intros [= ->]].
  - rewrite err_eqb_eq. split; [now intros ->|now intros [= ->]].
Qed.

Lemma view_eqb_eq a b : view_eqb a b = true <-> a = b.
Proof.
  destruct a as [a1 a2 a3 a4], b as [b1 b2 b3 b4]. unfold view_eqb. cbn.
  rewrite !andb_true_iff, items_eqb_eq, Nat.eqb_eq, str_eqb_eq.
  rewrite (list_eqb_eq Bool.eqb Bool.eqb_true_iff).
  split; [intros [[[-> ->] ->] ->]; reflexivity|intros [= -> -> -> ->]; auto].
Qed.

Lemma frame_eqb_eq a b : frame_eqb a b = true <-> a = b.
Proof.
  destruct a as [a1 a2 a3], b as [b1 b2 b3]. unfold frame_eqb. cbn.
  rewrite !andb_true_iff, out_eqb_eq, (result_eqb_eq view_eqb view_eqb_eq).
  rewrite (list_eqb_eq _ (result_eqb_eq items_eqb items_eqb_eq)).
  split; [intros [[-> ->] ->]; reflexivity|intros [= -> -> ->]; auto].
Qed.

Section WithLower.
Variable lower : str -> str.

Notation d_rep := (d_rep lower).

(** * The invariant of a world *)
Record W_rep (w : world) (Cs : list (list cell)) : Prop := mkWRep {
  wr_len : length (w_objs w) = length Cs;
  wr_obj : forall i d C,
      nth_error (w_objs w) i = Some d -> nth_error Cs i = Some C -> d_rep (w_heap w) d C;
  wr_disj : forall i j Ci Cj,
      i <> j -> nth_error Cs i = Some Ci -> nth_error Cs j = Some Cj ->
      forall x, In x (cids Ci) -> ~ In x (cids Cj);
}.

Lemma W_rep_nth w Cs o d :
  W_rep w Cs -> nth_error (w_objs w) o = Some d -> exists C, nth_error Cs o = Some C /\ d_rep (w_heap w) d C.
Proof.
  intros R Hd. destruct (nth_error Cs o) as [C|] eqn:E.
  - exists C. split; [reflexivity|]. eapply wr_obj; eauto.
  - apply nth_error_None in E. apply nth_error_some_lt in Hd. rewrite (wr_len _ _ R) in Hd. lia.
Qed.

Lemma W_rep_none w Cs o :
  W_rep w Cs -> nth_error (w_objs w) o = None -> nth_error Cs o = None.
Proof.
  intros R Hd. apply nth_error_None. apply nth_error_None in Hd. rewrite <- (wr_len _ _ R). exact Hd.
Qed.

Lemma W_update w Cs o d C h' d' C' :
  W_rep w Cs -> nth_error (w_objs w) o = Some d -> nth_error Cs o = Some C ->
  d_rep h' d' C' -> d_post (w_heap w) C h' C' ->
  W_rep (mkW h' (set_nth o d' (w_objs w))) (set_nth o C' Cs).
Proof.
  intros R Hd HC R' [F I].
  pose proof (nth_error_some_lt _ _ _ Hd) as Lo. pose proof (nth_error_some_lt _ _ _ HC) as Lc.
  constructor; cbn [w_heap w_objs].
  - rewrite !set_nth_length. apply (wr_len _ _ R).
  - intros i di Ci Hi HCi. destruct (Nat.eq_dec i o) as [->|Hne].
    + rewrite set_nth_eq in Hi by assumption. rewrite set_nth_eq in HCi by assumption.
      inversion Hi; inversion HCi; subst. exact R'.
    + rewrite set_nth_neq in Hi by assumption. rewrite set_nth_neq in HCi by assumption.
      eapply d_rep_hframe; [exact F| |eapply wr_obj; eauto].
      intros x Hx. eapply (wr_disj _ _ R i o); eauto.
  - intros i j Ci Cj Hne Hi Hj x Hx.
    assert (Hbound : forall k Ck, nth_error Cs k = Some Ck -> forall y, In y (cids Ck) -> (y < nxt (w_heap w))%positive).
    { intros k Ck Hk y Hy. destruct (nth_error (w_objs w) k) as [dk|] eqn:Ek.
      - eapply d_rep_bound; [eapply wr_obj; eauto|exact Hy].
      - apply nth_error_None in Ek. apply nth_error_some_lt in Hk. rewrite (wr_len _ _ R) in Ek. lia. }
    destruct (Nat.eq_dec i o) as [->|Hio]; destruct (Nat.eq_dec j o) as [->|Hjo]; try congruence.
    + rewrite set_nth_eq in Hi by assumption. rewrite set_nth_neq in Hj by assumption.
      inversion Hi; subst Ci. destruct (I x Hx) as [Hx'|Hx'].
      * eapply (wr_disj _ _ R o j); eauto.
      * intros Hxj. apply (Hbound j Cj Hj) in Hxj. lia.
    + rewrite set_nth_neq in Hi by assumption. rewrite set_nth_eq in Hj by assumption.
      inversion Hj; subst Cj. intros Hxj. destruct (I x Hxj) as [Hx'|Hx'].
      * eapply (wr_disj _ _ R i o); eauto.
      * apply (Hbound i Ci Hi) in Hx. lia.
    + rewrite set_nth_neq in Hi by assumption. rewrite set_nth_neq in Hj by assumption.
      eapply (wr_disj _ _ R i j); eauto.
Qed.

Lemma nth_error_snoc {A} (l : list A) x i y :
  nth_error (l ++ [x]) i = Some y -> nth_error l i = Some y \/ (i = length l /\ y = x).
Proof.
  intros H. destruct (Nat.lt_ge_cases i (length l)) as [Hl|Hl].
  - left. now rewrite nth_error_app1 in H.
  - right. rewrite nth_error_app2 in H by exact Hl.
    destruct (i - length l) as [|n] eqn:E; cbn in H; [|destruct n; discriminate].
    inversion H. split; [lia|reflexivity].
Qed.

Lemma W_append w Cs h' d' C' :
  W_rep w Cs -> d_rep h' d' C' -> hframe (w_heap w) [] h' ->
  (forall j, In j (cids C') -> (nxt (w_heap w) <= j)%positive) ->
  W_rep (mkW h' (w_objs w ++ [d'])) (Cs ++ [C']).
Proof.
  intros R R' F I.
  assert (Hbound : forall k Ck, nth_error Cs k = Some Ck -> forall y, In y (cids Ck) -> (y < nxt (w_heap w))%positive).
  { intros k Ck Hk y Hy. destruct (nth_error (w_objs w) k) as [dk|] eqn:Ek.
    - eapply d_rep_bound; [eapply wr_obj; eauto|exact Hy].
    - apply nth_error_None in Ek. apply nth_error_some_lt in Hk. rewrite (wr_len _ _ R) in Ek. lia. }
  constructor; cbn [w_heap w_objs].
  - rewrite !app_length. cbn. now rewrite (wr_len _ _ R).
  - intros i di Ci Hi HCi. apply nth_error_snoc in Hi, HCi.
    destruct Hi as [Hi|[Hi ->]], HCi as [HCi|[HCi ->]].
    + eapply d_rep_hframe; [exact F|intros ? ? []|eapply wr_obj; eauto].
    + apply nth_error_some_lt in Hi. rewrite (wr_len _ _ R) in Hi. lia.
    + apply nth_error_some_lt in HCi. rewrite <- (wr_len _ _ R) in HCi. lia.
    + exact R'.
  - intros i j Ci Cj Hne Hi Hj x Hx. apply nth_error_snoc in Hi, Hj.
    destruct Hi as [Hi|[Hi ->]], Hj as [Hj|[Hj ->]].
    + eapply (wr_disj _ _ R i j); eauto.
    + intros Hxj. apply I in Hxj. apply (Hbound i Ci Hi) in Hx. lia.
    + intros Hxj. apply I in Hx. apply (Hbound j Cj Hj) in Hxj. lia.
    + lia.
Qed.

Lemma W_rep_items w Cs :
  W_rep w Cs -> map (obj_items lower w) (w_objs w) = map (fun d => Ok d) (map its Cs).
Proof.
  intros [L O _]. revert O L. generalize (w_objs w) as ds. intros ds. revert Cs.
  induction ds as [|d ds IH]; intros [|C Cs] O L; cbn in L; try discriminate; [reflexivity|].
  cbn [map]. f_equal.
  - apply obj_items_spec. apply (O 0); reflexivity.
  - apply IH; [|lia]. intros i di Ci Hi HCi. apply (O (S i)); assumption.
Qed.

(** * One step *)
Definition simple_op (x : op) : bool :=
  match x with OCopy _ | OReparse _ => false | _ => true end.

Lemma mkW_eta w : mkW (w_heap w) (w_objs w) = w.
Proof. destruct w; reflexivity. Qed.

Lemma run_on_sim {A} w Cs d C (m : M dst A) f x :
  W_rep w Cs -> nth_error (w_objs w) (op_target x) = Some d -> nth_error Cs (op_target x) = Some C ->
  simple_op x = true ->
  d_sim lower (w_heap w) d C m f x ->
  exists Cs', W_rep (snd (run_on (op_target x) m f w)) Cs'
    /\ s_step lower (map its Cs) x = (fst (run_on (op_target x) m f w), map its Cs').
Proof.
  intros R Hd HC Hs [r [h' [d' [C' [E [R' [P S]]]]]]].
  unfold run_on, on_obj. rewrite Hd, E. cbn [fst snd].
  exists (set_nth (op_target x) C' Cs). split; [eapply W_update; eauto|].
  unfold s_step. rewrite (map_nth_error its _ _ HC).
  destruct x; try discriminate; cbn [op_target] in *; rewrite S; now rewrite set_nth_map.
Qed.

Lemma step_missing w x :
  nth_error (w_objs w) (op_target x) = None -> step lower w x = (RErr IndexError, w).
Proof.
  intros H. destruct x; cbn [op_target] in H; cbn [step]; unfold run_on, on_obj; rewrite H; reflexivity.
Qed.

Lemma ref_step_not_set W x seen :
  (forall o k v, x <> OSet o k v) -> ref_step lower W x seen = s_step lower W x.
Proof. intros H. destruct x; try reflexivity. exfalso. eapply H; reflexivity. Qed.

Lemma ref_step_not_valueerror W x seen :
  seen <> RErr ValueError -> ref_step lower W x seen = s_step lower W x.
Proof.
  intros H. destruct x; try reflexivity. destruct seen as [| | | | |e]; try reflexivity.
  destruct e; try reflexivity. congruence.
Qed.

Lemma fold_s_set_fresh l : forall acc,
  NoDup (map (keyI lower) (acc ++ l)) ->
  fold_left (fun d kv => s_set lower (fst kv) (snd kv) d) l acc = acc ++ l.
Proof.
  induction l as [|[k v] l IH]; intros acc Hnd; cbn [fold_left fst snd]; [now rewrite app_nil_r|].
  rewrite s_set_absent.
  - rewrite IH; rewrite <- app_assoc; [reflexivity|exact Hnd].
  - change (lower k) with (keyI lower (k, v)). eapply nodup_none_left. exact Hnd.
Qed.

Lemma valid_b_forall l : forallb valid_b l = true -> Forall valid_kv l.
Proof.
  intros H. apply Forall_forall. intros kv Hin. rewrite forallb_forall in H. apply H in Hin.
  unfold valid_b, valid_kv in *. destruct (validate_input (snd kv)) as [[]|]; [reflexivity|discriminate].
Qed.

Lemma step_sim w Cs x :
  W_rep w Cs -> reparse_ok (map its Cs) x = true ->
  exists Cs',
    W_rep (snd (step lower w x)) Cs'
    /\ ref_step lower (map its Cs) x (fst (step lower w x)) = (fst (step lower w x), map its Cs').
Proof.
  intros R Hrp.
  destruct (nth_error (w_objs w) (op_target x)) as [d|] eqn:Hd.
  2:{ rewrite (step_missing _ _ Hd). cbn [fst snd]. exists Cs. split; [exact R|].
      rewrite ref_step_not_valueerror by discriminate. unfold s_step.
      rewrite nth_error_map, (W_rep_none _ _ _ R Hd). reflexivity. }
  destruct (W_rep_nth _ _ _ _ R Hd) as [C [HC RC]].
  assert (Hsimple : forall {A} (m : M dst A) f,
             simple_op x = true -> (forall o k v, x <> OSet o k v) ->
             step lower w x = run_on (op_target x) m f w ->
             d_sim lower (w_heap w) d C m f x ->
             exists Cs', W_rep (snd (step lower w x)) Cs'
               /\ ref_step lower (map its Cs) x (fst (step lower w x)) = (fst (step lower w x), map its Cs')).
  { intros A m f Hs Hns Est Hsim. rewrite Est. rewrite ref_step_not_set by exact Hns.
    eapply run_on_sim; eauto. }
  destruct x as [o k v|o k|o k|o k|o|o|o k|o k|o k r|o k r|o sk|o|o|o]; cbn [op_target] in Hd, HC.
  - (* OSet *)
    destruct (validate_input v) as [[]|e] eqn:Ev.
    + destruct (d_setitem_ok lower _ _ _ k v RC Ev) as [h' [d' [C' [E [R' [S P]]]]]].
      cbn [step]. unfold run_on, on_obj. rewrite Hd, E. cbn [fst snd out_of].
      exists (set_nth o C' Cs). split; [eapply W_update; eauto|].
      cbn [ref_step]. unfold s_step. cbn [op_target]. rewrite (map_nth_error its _ _ HC).
      cbn [s_step1]. now rewrite set_nth_map, S.
    + pose proof (validate_err _ _ Ev) as ->.
      cbn [step]. unfold run_on, on_obj. rewrite Hd, (d_setitem_err lower _ _ k v _ Ev).
      cbn [fst snd out_of]. rewrite (set_nth_same _ _ _ Hd), mkW_eta.
      exists Cs. split; [exact R|]. cbn [ref_step].
      change (has_linebreak v) with (has_lb v). destruct (has_lb v) eqn:El; [reflexivity|].
      rewrite (validate_no_linebreak _ El) in Ev. discriminate.
  - apply (Hsimple _ (d_getitem lower k) RStr); try reflexivity; try discriminate. now apply sim_get.
  - apply (Hsimple _ (d_delitem lower k) (fun _ => RNone)); try reflexivity; try discriminate. now apply sim_del.
  - apply (Hsimple _ (d_contains lower k) RBool); try reflexivity; try discriminate. now apply sim_contains.
  - apply (Hsimple _ d_len RNat); try reflexivity; try discriminate. now apply sim_len.
  - apply (Hsimple _ d_iter RKeys); try reflexivity; try discriminate. now apply sim_iter.
  - apply (Hsimple _ (d_order_first lower k) (fun _ => RNone)); try reflexivity; try discriminate. now apply sim_first.
  - apply (Hsimple _ (d_order_last lower k) (fun _ => RNone)); try reflexivity; try discriminate. now apply sim_last.
  - apply (Hsimple _ (d_order_before lower k r) (fun _ => RNone)); try reflexivity; try discriminate. now apply sim_before.
  - apply (Hsimple _ (d_order_after lower k r) (fun _ => RNone)); try reflexivity; try discriminate. now apply sim_after.
  - apply (Hsimple _ (d_sort_fields lower sk) (fun _ => RNone)); try reflexivity; try discriminate. now apply sim_sort.
  - (* OCopy *)
    destruct (d_copy_spec lower _ _ _ RC) as [h' [d' [C' [E [R' [S [F I]]]]]]].
    cbn [step]. rewrite Hd. unfold new_obj. rewrite E. cbn [fst snd].
    exists (Cs ++ [C']). split; [now apply W_append|].
    cbn [ref_step]. unfold s_step. cbn [op_target]. rewrite (map_nth_error its _ _ HC).
    now rewrite map_app, <- S.
  - (* OReparse *)
    cbn [reparse_ok] in Hrp. rewrite (map_nth_error its _ _ HC) in Hrp. apply items_eqb_eq in Hrp.
    cbn [step]. unfold on_obj. rewrite Hd, (d_dump_spec lower _ _ _ RC).
    rewrite (set_nth_same _ _ _ Hd), mkW_eta, Hrp.
    destruct (d_update_spec lower (its C) (w_heap w) d_empty [] (d_rep_empty lower _) (dr_valid _ _ _ _ RC))
      as [h' [d' [C' [E [R' [[F I] S]]]]]].
    unfold new_obj. rewrite E. cbn [fst snd].
    exists (Cs ++ [C']). split.
    { apply W_append; auto. intros j Hj. destruct (I j Hj) as [[]|H]; exact H. }
    cbn [ref_step]. unfold s_step. cbn [op_target]. rewrite (map_nth_error its _ _ HC).
    rewrite map_app. cbn [map]. rewrite S. cbn [its map]. rewrite fold_s_set_fresh; [reflexivity|].
    cbn [app]. rewrite keys_its. apply (d_rep_keys _ _ _ _ RC).
  - apply (Hsimple _ (d_dump lower) RStr); try reflexivity; try discriminate. now apply sim_dump.
Qed.

(** * Histories *)
Notation spec_next := (spec_next lower).
Notation hist_ok := (hist_ok lower).

Lemma ref_step_hint w Cs x :
  W_rep w Cs ->
  snd (ref_step lower (map its Cs) x (fst (step lower w x))) = spec_next (map its Cs) x.
Proof.
  intros R. unfold spec_next. destruct x as [o k v|o k|o k|o k|o|o|o k|o k|o k r|o k r|o sk|o|o|o];
    try reflexivity.
  destruct (nth_error (w_objs w) o) as [d|] eqn:Hd.
  - destruct (W_rep_nth _ _ _ _ R Hd) as [C [HC RC]].
    cbn [step hint]. unfold run_on, on_obj. rewrite Hd.
    destruct (validate_input v) as [[]|e] eqn:Ev.
    + destruct (d_setitem_ok lower _ _ _ k v RC Ev) as [h' [d' [C' [E _]]]]. rewrite E. reflexivity.
    + pose proof (validate_err _ _ Ev) as ->. rewrite (d_setitem_err lower _ _ k v _ Ev). reflexivity.
  - rewrite (step_missing w (OSet o k v)) by exact Hd. cbn [fst].
    assert (Hs : s_step lower (map its Cs) (OSet o k v) = (RErr IndexError, map its Cs)).
    { unfold s_step. cbn [op_target]. now rewrite nth_error_map, (W_rep_none _ _ _ R Hd). }
    cbn [ref_step hint]. rewrite Hs. cbn [snd].
    destruct (is_ok (validate_input v)); [reflexivity|].
    destruct (has_linebreak v); reflexivity.
Qed.

Lemma frame_match alpha nb x r w Cs :
  W_rep w Cs -> frame_of lower alpha nb x r w = ref_frame lower alpha nb x r (map its Cs).
Proof.
  intros R. unfold frame_of, ref_frame. rewrite map_length, <- (wr_len _ _ R).
  f_equal; [|apply (W_rep_items _ _ R)].
  set (n := viewed nb (length (w_objs w)) x).
  destruct (nth_error (w_objs w) n) as [d|] eqn:Hd.
  - destruct (W_rep_nth _ _ _ _ R Hd) as [C [HC RC]].
    rewrite (map_nth_error its _ _ HC). now apply obj_view_spec.
  - now rewrite nth_error_map, (W_rep_none _ _ _ R Hd).
Qed.

Lemma trace_holds alpha : forall xs w Cs,
  W_rep w Cs -> hist_ok (map its Cs) xs = true ->
  holds_loop lower alpha (map its Cs) xs (trace lower alpha w xs) = true.
Proof.
  induction xs as [|x xs IH]; intros w Cs R Hok; [reflexivity|].
  cbn [hist_ok] in Hok. apply andb_true_iff in Hok. destruct Hok as [Hrp Hok].
  destruct (step_sim w Cs x R Hrp) as [Cs' [R' S']].
  rewrite <- (ref_step_hint w Cs x R), S' in Hok. cbn [snd] in Hok.
  cbn [trace]. destruct (step lower w x) as [r w'] eqn:Est. cbn [fst snd] in *.
  cbn [holds_loop]. change (f_out (frame_of lower alpha (length (w_objs w)) x r w')) with r.
  rewrite S'. apply andb_true_iff. split; [|now apply IH].
  apply frame_eqb_eq. rewrite map_length, <- (wr_len _ _ R). symmetry. now apply frame_match.
Qed.

Lemma run_sim : forall xs w Cs,
  W_rep w Cs -> hist_ok (map its Cs) xs = true ->
  exists Cs', W_rep (run lower w xs) Cs' /\ map its Cs' = fold_left spec_next xs (map its Cs).
Proof.
  induction xs as [|x xs IH]; intros w Cs R Hok; [exists Cs; auto|].
  cbn [hist_ok] in Hok. apply andb_true_iff in Hok. destruct Hok as [Hrp Hok].
  destruct (step_sim w Cs x R Hrp) as [Cs' [R' S']].
  pose proof (ref_step_hint w Cs x R) as Hh. rewrite S' in Hh. cbn [snd] in Hh.
  rewrite <- Hh in Hok. destruct (IH _ _ R' Hok) as [Cs2 [R2 S2]].
  exists Cs2. cbn [run fold_left]. split; [exact R2|]. now rewrite <- Hh.
Qed.

(** * Starts *)
Lemma W_rep_world0 : W_rep world0 [].
Proof.
  constructor; cbn; [reflexivity| |]; intros [|?]; intros; discriminate.
Qed.

Lemma start_sim s :
  start_ok s = true ->
  exists w Cs, start_world lower s = (RNone, w) /\ W_rep w Cs /\ map its Cs = s_start lower s.
Proof.
  intros Hok.
  assert (Hupd : forall l, Forall valid_kv l ->
            exists w Cs, new_obj (d_update lower l) world0 = (RNone, w) /\ W_rep w Cs
                         /\ map its Cs = [s_of_items lower l]).
  { intros l Hv.
    destruct (d_update_spec lower l heap0 d_empty [] (d_rep_empty lower _) Hv)
      as [h' [d' [C' [E [R' [[F I] S]]]]]].
    exists (mkW h' ([] ++ [d'])), ([] ++ [C']). unfold new_obj. cbn [w_heap w_objs world0]. rewrite E.
    split; [reflexivity|]. split.
    - apply (W_append world0 [] h' d' C' W_rep_world0 R' F).
      intros j Hj. destruct (I j Hj) as [[]|H]; exact H.
    - cbn. now rewrite S. }
  destruct s as [|l|text l]; cbn [start_ok] in Hok.
  - exists (mkW heap0 ([] ++ [d_empty])), ([] ++ [[]]). split; [reflexivity|]. split; [|reflexivity].
    apply (W_append world0 [] heap0 d_empty [] W_rep_world0 (d_rep_empty lower _) (hframe_refl _ _)).
    intros j [].
  - apply valid_b_forall in Hok. destruct (Hupd l Hok) as [w [Cs [E [R S]]]].
    exists w, Cs. split; [|auto]. cbn [start_world]. unfold new_obj, d_init_from in *.
    cbn [w_heap world0] in *. destruct (d_update lower l (heap0, d_empty)) as [[[]|e] [h' d']]; [exact E|discriminate].
  - apply andb_true_iff in Hok. destruct Hok as [Hp Hv]. apply items_eqb_eq in Hp.
    apply valid_b_forall in Hv. destruct (Hupd l Hv) as [w [Cs [E [R S]]]].
    exists w, Cs. cbn [start_world s_start]. rewrite Hp. auto.
Qed.

(** * The theorems *)
Definition wf_world (w : world) : Prop := exists Cs, W_rep w Cs.

(** the model's own trace satisfies the property, as [holds] judges it *)
Theorem model_refines alpha s xs :
  start_ok s = true -> hist_ok (s_start lower s) xs = true ->
  holds_frames lower alpha s xs (model_frames lower alpha s xs) = true.
Proof.
  intros Hs Hh. destruct (start_sim s Hs) as [w [Cs [E [R S]]]].
  unfold model_frames, holds_frames. rewrite E, <- S.
  apply andb_true_iff. split; [|now apply trace_holds; [|rewrite S]].
  apply frame_eqb_eq. f_equal; [|symmetry; apply (W_rep_items _ _ R)].
  destruct (nth_error (w_objs w) 0) as [d|] eqn:Hd.
  - destruct (W_rep_nth _ _ _ _ R Hd) as [C [HC RC]]. destruct Cs as [|C0 Cs]; [discriminate|].
    cbn in HC. inversion HC; subst. cbn [map]. symmetry. now apply obj_view_spec.
  - pose proof (W_rep_none _ _ _ R Hd) as Hn. destruct Cs; [reflexivity|discriminate].
Qed.

Theorem wf_preserved s xs :
  start_ok s = true -> hist_ok (s_start lower s) xs = true ->
  wf_world (run lower (snd (start_world lower s)) xs).
Proof.
  intros Hs Hh. destruct (start_sim s Hs) as [w [Cs [E [R S]]]]. rewrite E. cbn [snd].
  rewrite <- S in Hh. destruct (run_sim xs w Cs R Hh) as [Cs' [R' _]]. now exists Cs'.
Qed.

(** the contents of every paragraph after any history are those of the reference run *)
Theorem run_refines s xs :
  start_ok s = true -> hist_ok (s_start lower s) xs = true ->
  let w := run lower (snd (start_world lower s)) xs in
  map (obj_items lower w) (w_objs w)
  = map (fun d => Ok d) (fold_left spec_next xs (s_start lower s)).
Proof.
  intros Hs Hh. destruct (start_sim s Hs) as [w0 [Cs [E [R S]]]]. rewrite E. cbn [snd].
  rewrite <- S in *. destruct (run_sim xs w0 Cs R Hh) as [Cs' [R' S']].
  cbv zeta. rewrite (W_rep_items _ _ R'). now rewrite S'.
Qed.

(** when every assigned value passes validate_input the reference run is [Spec.s_run] itself *)
Definition sets_valid (x : op) : bool :=
  match x with OSet _ _ v => is_ok (validate_input v) | _ => true end.

Lemma spec_run_s_run xs : forall W,
  forallb sets_valid xs = true -> fold_left spec_next xs W = s_run lower W xs.
Proof.
  induction xs as [|x xs IH]; intros W H; [reflexivity|].
  cbn [forallb] in H. apply andb_true_iff in H. destruct H as [Hx Hxs].
  cbn [fold_left s_run]. rewrite <- IH by exact Hxs. f_equal.
  unfold Check.spec_next. destruct x; try reflexivity. cbn [sets_valid] in Hx. cbn [hint]. now rewrite Hx.
Qed.

(** every observation of a well-formed world succeeds: no dangling id, no cycle *)
Theorem wf_observable w :
  wf_world w -> exists W, map (obj_items lower w) (w_objs w) = map (fun d => Ok d) W.
Proof. intros [Cs R]. exists (map its Cs). apply (W_rep_items _ _ R). Qed.

Lemma s_step1_err d x e d' : s_step1 lower d x = (RErr e, d') -> d' = d.
Proof.
  destruct x; cbn [s_step1];
    repeat match goal with
      | |- context [if ?b then _ else _] => destruct b
      | |- context [match ?t with _ => _ end] => destruct t
      end; intros H; inversion H; reflexivity.
Qed.

Lemma s_step_err W x e W' : s_step lower W x = (RErr e, W') -> W' = W.
Proof.
  unfold s_step. destruct (nth_error W (op_target x)) as [d|] eqn:Hd; [|now intros [= <-]].
  destruct x; try discriminate;
    (destruct (s_step1 lower d _) as [r1 d'] eqn:E1; intros [= -> <-];
     apply s_step1_err in E1; subst d'; now apply set_nth_same).
Qed.

Lemma ref_step_err W x e W' : ref_step lower W x (RErr e) = (RErr e, W') -> W' = W.
Proof.
  destruct x; try apply s_step_err. cbn [ref_step]. destruct e; try apply s_step_err.
  destruct (has_linebreak v); [now intros [= <-]|apply s_step_err].
Qed.

Theorem failed_step_unchanged w x Cs :
  W_rep w Cs -> reparse_ok (map its Cs) x = true ->
  forall e, fst (step lower w x) = RErr e ->
  map (obj_items lower (snd (step lower w x))) (w_objs (snd (step lower w x)))
  = map (obj_items lower w) (w_objs w).
Proof.
  intros R Hrp e He. destruct (step_sim w Cs x R Hrp) as [Cs' [R' S']].
  rewrite He in S'. apply ref_step_err in S'.
  rewrite (W_rep_items _ _ R'), (W_rep_items _ _ R). now rewrite S'.
Qed.

(** over histories: a failing operation, after any history, changes no paragraph *)
Theorem failed_op_unchanged s xs x e :
  start_ok s = true -> hist_ok (s_start lower s) (xs ++ [x]) = true ->
  let w := run lower (snd (start_world lower s)) xs in
  fst (step lower w x) = RErr e ->
  map (obj_items lower (snd (step lower w x))) (w_objs (snd (step lower w x)))
  = map (obj_items lower w) (w_objs w).
Proof.
  intros Hs Hh w He. destruct (start_sim s Hs) as [w0 [Cs [E [R S]]]].
  subst w. rewrite E in *. cbn [snd] in *. rewrite <- S in Hh.
  assert (Hsplit : forall xs W, hist_ok W (xs ++ [x]) = true ->
            hist_ok W xs = true /\ reparse_ok (fold_left spec_next xs W) x = true).
  { clear. induction xs as [|y xs IH]; intros W H; cbn [app hist_ok fold_left] in *.
    - apply andb_true_iff in H. tauto.
    - apply andb_true_iff in H. destruct H as [H1 H2]. apply IH in H2. rewrite H1. tauto. }
  destruct (Hsplit _ _ Hh) as [Hh1 Hrp].
  destruct (run_sim xs w0 Cs R Hh1) as [Cs' [R' S']]. rewrite <- S' in Hrp.
  eapply failed_step_unchanged; eauto.
Qed.

(** what the reference does for sort_fields(key): the stable sort by key value *)
Theorem sort_reference_stable o sk (d : items) :
  let key := fun p : str * str => sort_key lower sk (fst p) in
  let d' := snd (s_step1 lower d (OSort o sk)) in
  Permutation d' d
  /\ Sorted.StronglySorted (fun x y => zs_leb (key x) (key y) = true) d'
  /\ forall k, filter (fun y => zs_eqb (key y) k) d' = filter (fun y => zs_eqb (key y) k) d.
Proof.
  cbn [s_step1 snd]. split; [apply sort_by_perm|]. split; [apply sort_by_sorted|].
  intros k. apply sort_by_stable.
Qed.

End WithLower.

(** * The bridge to the correspondence check: whenever the model reproduces what
    the implementation did on a case of the domain ([agree]), the property holds
    of what the implementation did ([holds]). *)
Theorem agree_implies_holds c : agree c = true -> holds c = true.
Proof.
  unfold agree, case_in_domain, holds, model_trace. intros H.
  apply andb_true_iff in H. destruct H as [Hd Ha].
  apply andb_true_iff in Hd. destruct Hd as [Hs Hh].
  apply (list_eqb_eq frame_eqb frame_eqb_eq) in Ha. rewrite <- Ha.
  now apply model_refines.
Qed.
