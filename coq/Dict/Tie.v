(** C09 — tie by regeneration, pointer level: the regenerated LinkedListNode / LinkedList / OrderedSet code
    (Gen/TrLinkedList.v, HEAP MODE of harness/py2coq.py) equals the model's pointer-level operations of Dict/Heap.v
    — the constants that [Dict.Check.agree] runs (through [step]) and that the theorems of Props/C09.v are about.

    Shape of every lemma: [tr_f <heap> <attributes> <args> = lift (model_f <args> <state>)], where [lift_h] / [lift_ll] /
    [lift_os] read the model's [(result, state)] in the shape of a translated result ([MOk v st] / [MErr kind st]: the state
    reached is part of both, on exceptions too).  [_size] is a natural number in the model and a Python int in the code:
    the lemmas are about [Z.of_nat sz].  No well-formedness hypothesis is needed for the list and set operations (the
    model transcribes the code closely enough for the equations to hold on EVERY heap, dangling and cyclic ones
    included); two node methods need "self is live or self is not new_node" (see there), which their callers establish
    on every heap; only the iteration needs the model's walk to succeed, which the representation invariant gives. *)
From Coq Require Import FMapPositive Lia ZArith.
From Verif Require Import Lib.Base Lib.PyStr Lib.Tr Dict.Common Dict.Heap Dict.TrPrims Dict.ProofsLL Dict.ProofsOS
  Gen.TrLinkedList.

Local Open Scope Z_scope.

(** * Reading a model computation in the shape of a translated result *)
Definition lift_h {A} (r : result A * heap) : mres A heap :=
  match r with (Ok a, h) => MOk a h | (Err e, h) => MErr e h end.

Definition ll_st (s : lst) : heap * option id * option id * Z :=
  (fst s, ll_head (snd s), ll_tail (snd s), Z.of_nat (ll_size (snd s))).
Definition lift_ll {A} (r : result A * lst) : mres A (heap * option id * option id * Z) :=
  match r with (Ok a, s) => MOk a (ll_st s) | (Err e, s) => MErr e (ll_st s) end.

(** * The heap primitives, computed *)
Lemma load_eq h i : load i h = match hget h i with Some n => (Ok n, h) | None => (Err OtherError, h) end.
Proof. reflexivity. Qed.

Lemma trp_get_prev_eq h i :
  trp_get_prev h i = match hget h i with Some n => Ok (n_prev n) | None => Err OtherError end.
Proof. unfold trp_get_prev, trp_read, mbind, load. destruct (hget h i); reflexivity. Qed.
Lemma trp_get_next_eq h i :
  trp_get_next h i = match hget h i with Some n => Ok (n_next n) | None => Err OtherError end.
Proof. unfold trp_get_next, trp_read, mbind, load. destruct (hget h i); reflexivity. Qed.
Lemma trp_get_value_eq h i :
  trp_get_value h i = match hget h i with Some n => Ok (n_value n) | None => Err OtherError end.
Proof. unfold trp_get_value, trp_read, mbind, load. destruct (hget h i); reflexivity. Qed.

Lemma set_prev_eq h i p :
  set_prev i p h = match hget h i with
                   | Some n => (Ok tt, hput i (mkNode p (n_next n) (n_value n)) h)
                   | None => (Err OtherError, h) end.
Proof. unfold set_prev, mbind, load, store. destruct (hget h i); reflexivity. Qed.
Lemma set_next_eq h i x :
  set_next i x h = match hget h i with
                   | Some n => (Ok tt, hput i (mkNode (n_prev n) x (n_value n)) h)
                   | None => (Err OtherError, h) end.
Proof. unfold set_next, mbind, load, store. destruct (hget h i); reflexivity. Qed.
Lemma set_value_eq h i v :
  set_value i v h = match hget h i with
                    | Some n => (Ok tt, hput i (mkNode (n_prev n) (n_next n) v) h)
                    | None => (Err OtherError, h) end.
Proof. unfold set_value, mbind, load, store. destruct (hget h i); reflexivity. Qed.

Lemma trp_set_prev_eq h i p :
  trp_set_prev h i p = match hget h i with
                       | Some n => Ok (hput i (mkNode p (n_next n) (n_value n)) h)
                       | None => Err OtherError end.
Proof. unfold trp_set_prev, trp_write. rewrite set_prev_eq. destruct (hget h i); reflexivity. Qed.
Lemma trp_set_next_eq h i x :
  trp_set_next h i x = match hget h i with
                       | Some n => Ok (hput i (mkNode (n_prev n) x (n_value n)) h)
                       | None => Err OtherError end.
Proof. unfold trp_set_next, trp_write. rewrite set_next_eq. destruct (hget h i); reflexivity. Qed.
Lemma trp_set_value_eq h i v :
  trp_set_value h i v = match hget h i with
                        | Some n => Ok (hput i (mkNode (n_prev n) (n_next n) v) h)
                        | None => Err OtherError end.
Proof. unfold trp_set_value, trp_write. rewrite set_value_eq. destruct (hget h i); reflexivity. Qed.

(** writing the same cell twice *)
Lemma padd_add {A} i (v v' : A) m : PositiveMap.add i v (PositiveMap.add i v' m) = PositiveMap.add i v m.
Proof.
  revert m. induction i as [i IH|i IH|]; intros [|l o r]; cbn; try reflexivity; f_equal; apply IH.
Qed.
Local Transparent hput halloc.
Lemma hput_hput i n n' h : hput i n (hput i n' h) = hput i n h.
Proof. unfold hput. cbn. now rewrite padd_add. Qed.
Lemma hput_halloc v n h : hput (nxt h) n (halloc v h) = mkHeap (PositiveMap.add (nxt h) n (cells h)) (Pos.succ (nxt h)).
Proof. unfold hput, halloc. cbn. now rewrite padd_add. Qed.
Lemma halloc_eq v h : halloc v h = mkHeap (PositiveMap.add (nxt h) (mkNode None None v) (cells h)) (Pos.succ (nxt h)).
Proof. reflexivity. Qed.
Local Opaque hput halloc.

(** * resolve_ref, the previous_node property *)
Lemma tr_node_get_prev_eq h i :
  tr_node_get_prev h i = match hget h i with Some n => Ok (n_prev n) | None => Err OtherError end.
Proof.
  unfold tr_node_get_prev. rewrite trp_get_prev_eq. destruct (hget h i) as [n|]; [|reflexivity].
  cbn. unfold tr_resolve_ref, trp_deref. destruct (n_prev n); reflexivity.
Qed.

Lemma tr_node_get_prev_load h i :
  tr_node_get_prev h i = match fst (load i h) with Ok n => Ok (n_prev n) | Err e => Err e end.
Proof. rewrite tr_node_get_prev_eq, load_eq. destruct (hget h i); reflexivity. Qed.

Lemma tr_node_set_prev_eq h i p : tr_node_set_prev h i p = lift_h (set_prev i p h).
Proof.
  unfold tr_node_set_prev. rewrite set_prev_eq.
  replace (match p with None => None | Some node => Some (trp_weakref node) end) with p by (destruct p; reflexivity).
  rewrite trp_set_prev_eq. destruct (hget h i); reflexivity.
Qed.

(** * LinkedListNode(value) *)
Lemma tr_node_new_eq h v : tr_node_new h v = lift_h (new_node v h).
Proof.
  unfold tr_node_new, trp_alloc, tr_node_init, new_node. cbn [lift_h].
  rewrite trp_set_prev_eq, hget_halloc_eq. cbn [n_next n_value].
  rewrite trp_set_next_eq, hget_hput_eq. cbn [n_prev n_next n_value]. rewrite hput_hput.
  rewrite trp_set_value_eq, hget_hput_eq. cbn [n_prev n_next n_value]. rewrite hput_hput.
  now rewrite hput_halloc, halloc_eq.
Qed.

(** * LinkedListNode: link_nodes, _insert_link, insert_before, insert_after, remove — on ALL heaps *)
Lemma tr_link_nodes_eq h p n : tr_link_nodes h p n = lift_h (link_nodes p n h).
Proof.
  unfold tr_link_nodes, link_nodes, mbind.
  destruct n as [j|].
  - rewrite tr_node_set_prev_eq. destruct (set_prev j p h) as [[[]|e] h1]; cbn [lift_h]; [|reflexivity].
    destruct p as [i|]; [|reflexivity].
    rewrite trp_set_next_eq, set_next_eq. destruct (hget h1 i); reflexivity.
  - cbn [ret]. destruct p as [i|]; [|reflexivity].
    rewrite trp_set_next_eq, set_next_eq. destruct (hget h i); reflexivity.
Qed.

Lemma tr_insert_link_eq h a b c : tr_insert_link h a b c = lift_h (insert_link a b c h).
Proof.
  unfold tr_insert_link, insert_link, mbind. rewrite tr_link_nodes_eq.
  destruct (link_nodes a (Some b) h) as [[[]|e] h1]; cbn [lift_h]; [|reflexivity].
  rewrite tr_link_nodes_eq. destruct (link_nodes (Some b) c h1) as [[[]|e] h2]; reflexivity.
Qed.

(** [self] dangling AND [self is new_node]: the code fails its assertion before it touches [self]; the model loads
    [self] first (its dangling-reference result, no Python exception).  Everywhere else: equal. *)
Lemma tr_node_insert_before_eq h self new :
  hlive h self = true \/ self <> new ->
  tr_node_insert_before h self new = lift_h (node_insert_before self new h).
Proof.
  intros G. unfold tr_node_insert_before, node_insert_before, mbind. rewrite load_eq, tr_node_get_prev_eq.
  unfold hlive in G. destruct (hget h self) as [n|] eqn:E.
  - destruct (Pos.eqb self new) eqn:Es; cbn [negb orb bind]; [reflexivity|].
    destruct (oid_eqb (Some new) (n_prev n)); cbn [negb]; [reflexivity|].
    rewrite tr_insert_link_eq. destruct (insert_link (n_prev n) new (Some self) h) as [[[]|e] h1]; reflexivity.
  - destruct G as [G|G]; [discriminate|]. apply Pos.eqb_neq in G. rewrite G. reflexivity.
Qed.

Lemma tr_node_insert_after_eq h self new :
  hlive h self = true \/ self <> new ->
  tr_node_insert_after h self new = lift_h (node_insert_after self new h).
Proof.
  intros G. unfold tr_node_insert_after, node_insert_after, mbind. rewrite load_eq, trp_get_next_eq.
  unfold hlive in G. destruct (hget h self) as [n|] eqn:E.
  - destruct (Pos.eqb self new) eqn:Es; cbn [negb orb bind]; [reflexivity|].
    destruct (oid_eqb (Some new) (n_next n)); cbn [negb]; [reflexivity|].
    rewrite tr_insert_link_eq. destruct (insert_link (Some self) new (n_next n) h) as [[[]|e] h1]; reflexivity.
  - destruct G as [G|G]; [discriminate|]. apply Pos.eqb_neq in G. rewrite G. reflexivity.
Qed.

(** the guard as a boolean *)
Definition live_or_other (h : heap) (self new : id) : bool := hlive h self || negb (Pos.eqb self new).
Lemma live_or_other_prop h self new : live_or_other h self new = true -> hlive h self = true \/ self <> new.
Proof.
  unfold live_or_other. intros G. apply Bool.orb_true_iff in G. destruct G as [G|G]; [now left|right].
  apply Bool.negb_true_iff in G. now apply Pos.eqb_neq.
Qed.
Lemma tr_node_insert_before_eqb h self new :
  live_or_other h self new = true -> tr_node_insert_before h self new = lift_h (node_insert_before self new h).
Proof. intros G. apply tr_node_insert_before_eq. now apply live_or_other_prop. Qed.
Lemma tr_node_insert_after_eqb h self new :
  live_or_other h self new = true -> tr_node_insert_after h self new = lift_h (node_insert_after self new h).
Proof. intros G. apply tr_node_insert_after_eq. now apply live_or_other_prop. Qed.

Lemma tr_node_remove_eq h i : tr_node_remove h i = lift_h (node_remove i h).
Proof.
  unfold tr_node_remove, node_remove, mbind. rewrite load_eq, tr_node_get_prev_eq, trp_get_next_eq.
  destruct (hget h i) as [n|]; [|reflexivity].
  rewrite tr_link_nodes_eq. destruct (link_nodes (n_prev n) (n_next n) h) as [[[]|e] h1]; cbn [lift_h]; [|reflexivity].
  rewrite tr_node_set_prev_eq. destruct (set_prev i None h1) as [[[]|e] h2]; cbn [lift_h]; [|reflexivity].
  rewrite trp_set_next_eq, set_next_eq. destruct (hget h2 i) as [n2|]; [|reflexivity].
  rewrite trp_get_value_eq, load_eq. destruct (hget _ i); reflexivity.
Qed.

(** * LinkedList — on ALL heaps and ALL values of head_node / tail_node; [_size] a natural number *)
Lemma of_nat_S_gt k : (Z.of_nat (S k) >? 0) = true.
Proof. apply Z.gtb_lt. lia. Qed.
Lemma of_nat_S_pred k : Z.of_nat (S k) - 1 = Z.of_nat k.
Proof. lia. Qed.
Lemma of_nat_succ k : Z.of_nat k + 1 = Z.of_nat (S k).
Proof. lia. Qed.

Lemma tr_ll_remove_node_eq h hd tl sz i :
  tr_ll_remove_node h hd tl (Z.of_nat sz) i = lift_ll (ll_remove_node i (h, mkLL hd tl sz)).
Proof.
  unfold tr_ll_remove_node, ll_remove_node, ll_fix_ends, mbind, get_ll, set_head, set_tail, set_size, on_heap, zoom, ret, raise.
  cbn [fst snd ll_head ll_tail ll_size].
  assert (FIN : forall a b,
    (if negb (Z.of_nat sz >? 0) then MErr AssertionError (h, a, b, Z.of_nat sz)
     else match match tr_node_remove h i with
                | MOk x s => MOk x (s, a, b, Z.of_nat sz - 1)
                | MErr e s => MErr e (s, a, b, Z.of_nat sz - 1) end with
          | MOk _ (hp, s_head, s_tail, s_size) => MOk tt (hp, s_head, s_tail, s_size)
          | MErr e s => MErr e s end)
    = lift_ll (match sz with
               | O => fun s : lst => (Err AssertionError, s)
               | S k => fun s : lst =>
                   let (r, s') := let (r, t) := node_remove i (fst s) in
                                  (r, (t, mkLL (ll_head (snd s)) (ll_tail (snd s)) k)) in
                   match r with Ok _ => (Ok tt, s') | Err e => (Err e, s') end
               end (h, mkLL a b sz))).
  { intros a b. destruct sz as [|k]; [reflexivity|]. rewrite of_nat_S_gt, of_nat_S_pred. cbn [negb].
    rewrite tr_node_remove_eq. cbn [fst snd ll_head ll_tail]. destruct (node_remove i h) as [[x|e] h1]; reflexivity. }
  destruct (oid_eqb (Some i) hd).
  - rewrite trp_get_next_eq, load_eq. cbn [fst snd ll_head ll_tail ll_size]. destruct (hget h i) as [n|]; [|reflexivity].
    cbn [fst snd ll_head ll_tail ll_size]. destruct (n_next n); cbn [tr_is_none fst snd ll_head ll_tail ll_size]; apply FIN.
  - destruct (oid_eqb (Some i) tl).
    + rewrite tr_node_get_prev_eq, load_eq. cbn [fst snd ll_head ll_tail ll_size]. destruct (hget h i) as [n|]; [|reflexivity].
      cbn [fst snd ll_head ll_tail ll_size]. destruct (n_prev n); cbn [tr_is_some negb fst snd ll_head ll_tail ll_size]; [apply FIN|reflexivity].
    + cbn [fst snd ll_head ll_tail ll_size]. apply FIN.
Qed.

Lemma hlive_halloc v h : hlive (halloc v h) (nxt h) = true.
Proof. unfold hlive. now rewrite hget_halloc_eq. Qed.

Lemma tr_ll_append_eq h hd tl sz v :
  tr_ll_append h hd tl (Z.of_nat sz) v = lift_ll (ll_append v (h, mkLL hd tl sz)).
Proof.
  unfold tr_ll_append, ll_append, mbind, get_ll, set_head, set_tail, set_size, on_heap, zoom, ret, raise.
  rewrite tr_node_new_eq. unfold new_node. cbn [lift_h fst snd ll_head ll_tail ll_size].
  destruct hd as [hd|]; cbn [tr_is_none fst snd ll_head ll_tail ll_size lift_ll ll_st].
  2: { now rewrite of_nat_succ. }
  destruct tl as [t|]; cbn [tr_is_some negb tr_unwrap fst snd ll_head ll_tail ll_size lift_ll ll_st]; [|reflexivity].
  rewrite tr_node_insert_after_eq.
  2: { destruct (Pos.eq_dec t (nxt h)) as [->|Hne]; [left; apply hlive_halloc|right; exact Hne]. }
  destruct (node_insert_after t (nxt h) (halloc v h)) as [[[]|e] h1]; cbn [lift_h fst snd ll_head ll_tail ll_size lift_ll ll_st]; [|reflexivity].
  now rewrite of_nat_succ.
Qed.

Lemma tr_ll_insert_node_before_eq h hd tl sz new ex :
  tr_ll_insert_node_before h hd tl (Z.of_nat sz) new ex = lift_ll (ll_insert_node_before new ex (h, mkLL hd tl sz)).
Proof.
  unfold tr_ll_insert_node_before, ll_insert_node_before, mbind, get_ll, set_head, set_tail, set_size, on_heap, zoom, ret, raise.
  cbn [fst snd ll_head ll_tail ll_size].
  destruct hd as [hd|]; cbn [tr_is_none fst snd ll_head ll_tail ll_size lift_ll ll_st]; [|reflexivity].
  rewrite trp_get_next_eq, tr_node_get_prev_eq, load_eq. cbn [fst snd].
  destruct (hget h new) as [n|] eqn:En; [|reflexivity]. cbn [bind fst snd ll_head ll_tail ll_size].
  destruct (n_next n) as [x|]; cbn [tr_is_some is_some orb]; [reflexivity|].
  destruct (n_prev n) as [y|]; cbn [tr_is_some is_some orb]; [reflexivity|].
  rewrite tr_node_insert_before_eq.
  2: { destruct (Pos.eq_dec ex new) as [->|Hne]; [left; unfold hlive; now rewrite En|right; exact Hne]. }
  cbn [fst snd ll_head ll_tail ll_size].
  destruct (node_insert_before ex new h) as [[[]|e] h1]; cbn [lift_h fst snd ll_head ll_tail ll_size lift_ll ll_st]; [|reflexivity].
  destruct (oid_eqb (Some ex) (Some hd)); cbn [fst snd ll_head ll_tail ll_size lift_ll ll_st]; now rewrite of_nat_succ.
Qed.

Lemma tr_ll_insert_node_after_eq h hd tl sz new ex :
  tr_ll_insert_node_after h hd tl (Z.of_nat sz) new ex = lift_ll (ll_insert_node_after new ex (h, mkLL hd tl sz)).
Proof.
  unfold tr_ll_insert_node_after, ll_insert_node_after, mbind, get_ll, set_head, set_tail, set_size, on_heap, zoom, ret, raise.
  cbn [fst snd ll_head ll_tail ll_size].
  destruct tl as [tl|]; cbn [tr_is_none fst snd ll_head ll_tail ll_size lift_ll ll_st]; [|reflexivity].
  rewrite trp_get_next_eq, tr_node_get_prev_eq, load_eq. cbn [fst snd].
  destruct (hget h new) as [n|] eqn:En; [|reflexivity]. cbn [bind fst snd ll_head ll_tail ll_size].
  destruct (n_next n) as [x|]; cbn [tr_is_some is_some orb]; [reflexivity|].
  destruct (n_prev n) as [y|]; cbn [tr_is_some is_some orb]; [reflexivity|].
  rewrite tr_node_insert_after_eq.
  2: { destruct (Pos.eq_dec ex new) as [->|Hne]; [left; unfold hlive; now rewrite En|right; exact Hne]. }
  cbn [fst snd ll_head ll_tail ll_size].
  destruct (node_insert_after ex new h) as [[[]|e] h1]; cbn [lift_h fst snd ll_head ll_tail ll_size lift_ll ll_st]; [|reflexivity].
  destruct (oid_eqb (Some ex) (Some tl)); cbn [fst snd ll_head ll_tail ll_size lift_ll ll_st]; now rewrite of_nat_succ.
Qed.

Lemma lift_ll_eta {A} (r : result A * lst) :
  match lift_ll r with
  | MOk a (hp, s_head, s_tail, s_size) => MOk a (hp, s_head, s_tail, s_size)
  | MErr e st => MErr e st
  end = lift_ll r.
Proof. destruct r as [[a|e] [h l]]; reflexivity. Qed.

Lemma tr_ll_insert_before_eq h hd tl sz v ex :
  tr_ll_insert_before h hd tl (Z.of_nat sz) v ex = lift_ll (ll_insert_before v ex (h, mkLL hd tl sz)).
Proof.
  unfold tr_ll_insert_before, ll_insert_before, mbind, on_heap, zoom.
  rewrite tr_node_new_eq. unfold new_node. cbn [lift_h fst snd].
  rewrite tr_ll_insert_node_before_eq. apply lift_ll_eta.
Qed.

Lemma tr_ll_insert_after_eq h hd tl sz v ex :
  tr_ll_insert_after h hd tl (Z.of_nat sz) v ex = lift_ll (ll_insert_after v ex (h, mkLL hd tl sz)).
Proof.
  unfold tr_ll_insert_after, ll_insert_after, mbind, on_heap, zoom.
  rewrite tr_node_new_eq. unfold new_node. cbn [lift_h fst snd].
  rewrite tr_ll_insert_node_after_eq. apply lift_ll_eta.
Qed.

(** the None that [trp_assume_some] would turn into OutOfFuel never reaches it *)
Lemma tr_ll_insert_at_head_eq h hd tl sz v :
  tr_ll_insert_at_head h hd tl (Z.of_nat sz) v = lift_ll (ll_insert_at_head v (h, mkLL hd tl sz)).
Proof.
  unfold tr_ll_insert_at_head, ll_insert_at_head, mbind, get_ll. cbn [fst snd ll_head].
  destruct hd as [hd|]; cbn [tr_is_none trp_assume_some].
  - rewrite tr_ll_insert_before_eq. apply lift_ll_eta.
  - rewrite tr_ll_append_eq. apply lift_ll_eta.
Qed.

(** * Methods of LinkedList that the model has no function of its own for: stated against the model's building blocks *)
Lemma tr_ll_init_eq h hd tl z : tr_ll_init h hd tl z = lift_ll (Ok tt, (h, ll_empty)).
Proof. reflexivity. Qed.
Lemma tr_ll_clear_eq h hd tl z : tr_ll_clear h hd tl z = lift_ll (Ok tt, (h, ll_empty)).
Proof. reflexivity. Qed.
Lemma tr_ll_bool_eq h hd tl z : tr_ll_bool h hd tl z = Ok (is_some hd).
Proof. destruct hd; reflexivity. Qed.
Lemma tr_ll_len_eq h hd tl sz : tr_ll_len h hd tl (Z.of_nat sz) = Ok (Z.of_nat (ll_size (mkLL hd tl sz))).
Proof. reflexivity. Qed.

(** [LinkedList.pop]: IndexError on the empty list, else remove_node(tail_node) *)
Definition ll_pop : M lst unit :=
  mdo l <- get_ll;
  match ll_tail l with None => raise IndexError | Some t => ll_remove_node t end.
Lemma tr_ll_pop_eq h hd tl sz : tr_ll_pop h hd tl (Z.of_nat sz) = lift_ll (ll_pop (h, mkLL hd tl sz)).
Proof.
  unfold tr_ll_pop, ll_pop, mbind, get_ll, raise. cbn [fst snd ll_tail].
  destruct tl as [t|]; cbn [tr_is_none trp_assume_some]; [|reflexivity].
  rewrite tr_ll_remove_node_eq.
  destruct (ll_remove_node t (h, mkLL hd (Some t) sz)) as [[[]|e] [h1 l1]]; reflexivity.
Qed.

(** [LinkedList.tail]: the value of the tail node *)
Lemma tr_ll_tail_eq h hd tl z :
  tr_ll_tail h hd tl z = match tl with
                         | None => Ok None
                         | Some t => match fst (load t h) with Ok n => Ok (Some (n_value n)) | Err e => Err e end
                         end.
Proof.
  unfold tr_ll_tail. destruct tl as [t|]; cbn [tr_is_some tr_unwrap bind]; [|reflexivity].
  rewrite trp_get_value_eq, load_eq. destruct (hget h t); reflexivity.
Qed.

(** [LinkedList.extend(values)]: append one after the other; the first exception ends it *)
Fixpoint ll_extend (vs : list str) : M lst unit :=
  match vs with
  | [] => ret tt
  | v :: vs' => mdo _ <- ll_append v; ll_extend vs'
  end.
Lemma tr_ll_extend_loop1_eq vs vs0 h hd tl sz :
  tr_ll_extend_loop1 vs vs0 h hd tl (Z.of_nat sz) = lift_ll (ll_extend vs (h, mkLL hd tl sz)).
Proof.
  revert h hd tl sz. induction vs as [|v vs IH]; intros h hd tl sz; [reflexivity|].
  cbn [tr_ll_extend_loop1 ll_extend]. unfold mbind. rewrite tr_ll_append_eq.
  destruct (ll_append v (h, mkLL hd tl sz)) as [[i|e] [h1 [hd1 tl1 sz1]]]; cbn [lift_ll ll_st fst snd ll_head ll_tail ll_size]; [|reflexivity].
  apply IH.
Qed.
Lemma tr_ll_extend_eq vs h hd tl sz :
  tr_ll_extend h hd tl (Z.of_nat sz) vs = lift_ll (ll_extend vs (h, mkLL hd tl sz)).
Proof. apply tr_ll_extend_loop1_eq. Qed.

(** * Iteration: iter_next / iter_nodes / __iter__ against the model's [walk] *)
Definition get_values (h : heap) (l : list id) : result (list str) :=
  tr_mapM (fun node => do v <- trp_get_value h node; Ok v) l.

Lemma iter_next_loop_walk h self skip f :
  forall out cur vs,
    walk h f cur = Ok vs ->
    exists l, tr_node_iter_next_loop1 (S f) h self out cur skip = Ok (out ++ l) /\ get_values h l = Ok vs.
Proof.
  induction f as [|f IH]; intros out cur vs W.
  - destruct cur as [i|]; [discriminate|]. cbn in W. injection W as <-. exists []. split; [cbn; now rewrite app_nil_r|reflexivity].
  - destruct cur as [i|].
    + cbn [walk] in W. destruct (hget h i) as [n|] eqn:E; [|discriminate].
      destruct (walk h f (n_next n)) as [r|] eqn:W'; [|discriminate]. injection W as <-.
      destruct (IH (out ++ [i]) (n_next n) r W') as [l [L1 L2]].
      exists (i :: l). split.
      * change (tr_node_iter_next_loop1 (S (S f)) h self out (Some i) skip)
          with (do t <- trp_get_next h i; tr_node_iter_next_loop1 (S f) h self (out ++ [i]) t skip).
        rewrite trp_get_next_eq, E. cbn [bind]. rewrite L1. now rewrite <- app_assoc.
      * unfold get_values in *. cbn [tr_mapM]. rewrite trp_get_value_eq, E. cbn [bind]. now rewrite L2.
    + cbn in W. injection W as <-. exists []. split; [cbn; now rewrite app_nil_r|reflexivity].
Qed.

(** whenever the model's walk from [head_node] succeeds — in particular under the representation invariant, where it
    never runs out of fuel and never meets a dangling id — the regenerated [list(self)] is the same list *)
Lemma tr_ll_iter_walk h hd tl z vs :
  fst (ll_values (h, mkLL hd tl z)) = Ok vs -> forall z', tr_ll_iter h hd tl z' = Ok vs.
Proof.
  unfold ll_values. cbn [fst snd ll_head]. intros W z'.
  unfold tr_ll_iter, tr_ll_iter_nodes. destruct hd as [i|].
  - unfold tr_node_iter_next.
    destruct (iter_next_loop_walk h i false (walk_fuel h) [] (Some i) vs W) as [l [L1 L2]].
    cbn [bind]. rewrite L1. cbn [bind app]. unfold get_values in L2. rewrite L2. reflexivity.
  - destruct (walk_fuel h) in W; cbn in W; injection W as <-; reflexivity.
Qed.

Lemma tr_ll_iter_rep h ll L z :
  ll_rep h ll L -> tr_ll_iter h (ll_head ll) (ll_tail ll) z = Ok (map snd L).
Proof.
  intros R. destruct ll as [hd tl sz]. cbn [ll_head ll_tail].
  apply (tr_ll_iter_walk h hd tl sz). now rewrite (ll_values_spec h _ L R).
Qed.

Lemma tr_node_iter_next_walk h i vs :
  walk h (walk_fuel h) (Some i) = Ok vs ->
  exists l, tr_node_iter_next h i = Ok l /\ get_values h l = Ok vs.
Proof.
  intros W. destruct (iter_next_loop_walk h i false (walk_fuel h) [] (Some i) vs W) as [l [L1 L2]].
  exists l. split; [exact L1|exact L2].
Qed.

(** the same with the boolean guard "the model's walk succeeds" ... *)
Lemma tr_ll_iter_eq h hd tl sz z :
  is_ok (fst (ll_values (h, mkLL hd tl sz))) = true ->
  tr_ll_iter h hd tl z = fst (ll_values (h, mkLL hd tl sz)).
Proof.
  destruct (fst (ll_values (h, mkLL hd tl sz))) as [vs|e] eqn:W; [|discriminate]. intros _.
  now apply (tr_ll_iter_walk h hd tl sz vs).
Qed.
(** ... which the representation invariant of the model's theorems establishes *)
Lemma ll_rep_walk_ok h ll L : ll_rep h ll L -> is_ok (fst (ll_values (h, ll))) = true.
Proof. intros R. now rewrite (ll_values_spec h ll L R). Qed.

(** ... as it does the guard of insert_before / insert_after for every node of the list *)
Lemma ll_rep_live h ll L i : ll_rep h ll L -> In i (ids L) -> hlive h i = true.
Proof.
  intros R Hin. unfold ids in Hin. apply in_map_iff in Hin. destruct Hin as [[j k] [<- Hin]].
  destruct (seg_get h None L None j k (lr_seg _ _ _ R) Hin) as [n [Hn _]]. unfold hlive. cbn [fst]. now rewrite Hn.
Qed.

Lemma ll_rep_live_or_other h ll L i new : ll_rep h ll L -> In i (ids L) -> live_or_other h i new = true.
Proof. intros R Hin. unfold live_or_other. now rewrite (ll_rep_live h ll L i R Hin). Qed.

(** iter_nodes: the nodes themselves, under the invariant *)
Lemma iter_next_loop_seg h self skip :
  forall l p f out,
    seg h p l None -> (length l <= f)%nat ->
    tr_node_iter_next_loop1 (S f) h self out (first_id l None) skip = Ok (out ++ ids l).
Proof.
  induction l as [|[i k] l IH]; intros p f out Hs Hlen.
  - cbn. now rewrite app_nil_r.
  - destruct f as [|f]; [cbn in Hlen; lia|]. destruct Hs as [Hi Hs].
    cbn [first_id].
    change (tr_node_iter_next_loop1 (S (S f)) h self out (Some i) skip)
      with (do t <- trp_get_next h i; tr_node_iter_next_loop1 (S f) h self (out ++ [i]) t skip).
    rewrite trp_get_next_eq, Hi. cbn [bind n_next].
    rewrite (IH (Some i) f (out ++ [i]) Hs); [|cbn in Hlen; lia].
    rewrite ids_cons. now rewrite <- app_assoc.
Qed.

Lemma tr_ll_iter_nodes_rep h ll L z :
  ll_rep h ll L -> tr_ll_iter_nodes h (ll_head ll) (ll_tail ll) z = Ok (ids L).
Proof.
  intros [Hs Hnd Hh Ht Hz Hb]. unfold tr_ll_iter_nodes. rewrite Hh.
  destruct L as [|[i k] L]; [reflexivity|]. cbn [first_id]. unfold tr_node_iter_next.
  pose proof (pigeon (ids ((i, k) :: L)) (nxt h) Hnd Hb) as Hp. unfold ids in Hp. rewrite map_length in Hp.
  cbn [bind]. change (Some i) with (first_id ((i, k) :: L) None).
  rewrite (iter_next_loop_seg h i false ((i, k) :: L) None (walk_fuel h) [] Hs); [reflexivity|].
  unfold walk_fuel. lia.
Qed.

(** * OrderedSet — on ALL heaps, tables and list states; [lower] (str.lower) arbitrary *)
Definition os_st (s : sst) : heap * ostable * option id * option id * Z :=
  (fst s, os_table (snd s), ll_head (os_order (snd s)), ll_tail (os_order (snd s)),
   Z.of_nat (ll_size (os_order (snd s)))).
Definition lift_os {A} (r : result A * sst) : mres A (heap * ostable * option id * option id * Z) :=
  match r with (Ok a, s) => MOk a (os_st s) | (Err e, s) => MErr e (os_st s) end.

(** a LinkedList method run on the [__order] component *)
Lemma sub_order_eq {A} (m : M lst A) h tb hd tl sz :
  match lift_ll (m (h, mkLL hd tl sz)) with
  | MOk a (hp, s_head, s_tail, s_size) => MOk a (hp, tb, s_head, s_tail, s_size)
  | MErr e (hp, s_head, s_tail, s_size) => MErr e (hp, tb, s_head, s_tail, s_size)
  end = lift_os (on_order m (h, mkOS tb (mkLL hd tl sz))).
Proof.
  unfold on_order, zoom. cbn [fst snd os_table os_order].
  destruct (m (h, mkLL hd tl sz)) as [[a|e] [h1 [hd1 tl1 sz1]]]; reflexivity.
Qed.

Lemma lift_os_eta {A} (r : result A * sst) :
  match lift_os r with
  | MOk a (hp, s_table, s_head, s_tail, s_size) => MOk a (hp, s_table, s_head, s_tail, s_size)
  | MErr e st => MErr e st
  end = lift_os r.
Proof. destruct r as [[a|e] [h [tb [hd tl sz]]]]; reflexivity. Qed.

Lemma lift_os_eta_tt (r : result unit * sst) :
  match lift_os r with
  | MOk _ (hp, s_table, s_head, s_tail, s_size) => MOk tt (hp, s_table, s_head, s_tail, s_size)
  | MErr e st => MErr e st
  end = lift_os r.
Proof. destruct r as [[[]|e] [h [tb [hd tl sz]]]]; reflexivity. Qed.

Section OS.
Variable lower : str -> str.

Lemma tr_os_contains_eq h tb hd tl sz z item :
  tr_os_contains lower h tb hd tl z item = fst (os_contains lower item (h, mkOS tb (mkLL hd tl sz))).
Proof. reflexivity. Qed.

Lemma tr_os_len_eq h tb hd tl sz :
  tr_os_len lower h tb hd tl (Z.of_nat sz)
  = match fst (os_len (h, mkOS tb (mkLL hd tl sz))) with Ok n => Ok (Z.of_nat n) | Err e => Err e end.
Proof. reflexivity. Qed.

Lemma tr_os_iter_walk h tb hd tl sz vs :
  fst (os_values (h, mkOS tb (mkLL hd tl sz))) = Ok vs -> forall z, tr_os_iter lower h tb hd tl z = Ok vs.
Proof.
  intros W z. unfold tr_os_iter. rewrite (tr_ll_iter_walk h hd tl sz vs); [reflexivity|].
  unfold os_values, on_order, zoom, ll_values in *. cbn [fst snd os_order] in *. exact W.
Qed.

Lemma tr_os_iter_eq h tb hd tl sz z :
  is_ok (fst (os_values (h, mkOS tb (mkLL hd tl sz)))) = true ->
  tr_os_iter lower h tb hd tl z = fst (os_values (h, mkOS tb (mkLL hd tl sz))).
Proof.
  destruct (fst (os_values (h, mkOS tb (mkLL hd tl sz)))) as [vs|e] eqn:W; [|discriminate]. intros _.
  now apply (tr_os_iter_walk h tb hd tl sz vs).
Qed.

Lemma os_rep_walk_ok h os L : os_rep lower h os L -> is_ok (fst (os_values (h, os))) = true.
Proof. intros R. now rewrite (os_values_spec lower h os L R). Qed.

Lemma tr_os_add_eq h tb hd tl sz item :
  tr_os_add lower h tb hd tl (Z.of_nat sz) item = lift_os (os_add lower item (h, mkOS tb (mkLL hd tl sz))).
Proof.
  unfold tr_os_add, os_add, os_contains, get_table, put_table, ret, tr_os_contains, trp_tbl_mem. unfold mbind.
  cbn [fst snd os_table os_order]. destruct (t_mem (lower item) tb); cbn [negb]; [reflexivity|].
  rewrite tr_ll_append_eq, sub_order_eq.
  destruct (on_order (ll_append item) (h, mkOS tb (mkLL hd tl sz))) as [[i|e] [h1 [tb1 [hd1 tl1 sz1]]]] eqn:E; [|reflexivity].
  reflexivity.
Qed.

Lemma tr_os_remove_eq h tb hd tl sz item :
  tr_os_remove lower h tb hd tl (Z.of_nat sz) item = lift_os (os_remove lower item (h, mkOS tb (mkLL hd tl sz))).
Proof.
  unfold tr_os_remove, os_remove, os_lookup, get_table, put_table, ret, raise, trp_tbl_get, trp_tbl_del, t_mem. unfold mbind.
  cbn [fst snd os_table os_order]. destruct (t_get (lower item) tb) as [i|]; [|reflexivity].
  rewrite tr_ll_remove_node_eq, sub_order_eq. apply lift_os_eta_tt.
Qed.

Lemma tr_os_extend_loop1_eq its its0 h tb hd tl sz :
  tr_os_extend_loop1 its lower its0 h tb hd tl (Z.of_nat sz) = lift_os (os_extend lower its (h, mkOS tb (mkLL hd tl sz))).
Proof.
  revert h tb hd tl sz. induction its as [|x its IH]; intros h tb hd tl sz; [reflexivity|].
  cbn [tr_os_extend_loop1 os_extend]. unfold mbind. rewrite tr_os_add_eq.
  destruct (os_add lower x (h, mkOS tb (mkLL hd tl sz))) as [[[]|e] [h1 [tb1 [hd1 tl1 sz1]]]];
    cbn [lift_os os_st fst snd os_table os_order ll_head ll_tail ll_size]; [|reflexivity].
  apply IH.
Qed.
Lemma tr_os_extend_eq its h tb hd tl sz :
  tr_os_extend lower h tb hd tl (Z.of_nat sz) its = lift_os (os_extend lower its (h, mkOS tb (mkLL hd tl sz))).
Proof. apply tr_os_extend_loop1_eq. Qed.

(** a translated callable value [R] implements the model's reinserter [r] *)
Definition implements (R : heap -> ostable -> option id -> option id -> Z -> str -> mres id (heap * ostable * option id * option id * Z))
                      (r : str -> M lst id) : Prop :=
  forall h tb hd tl sz x, R h tb hd tl (Z.of_nat sz) x = lift_os (on_order (r x) (h, mkOS tb (mkLL hd tl sz))).

Lemma tr_os_reorder_eq R r h tb hd tl sz item :
  implements R r ->
  tr_os_reorder lower h tb hd tl (Z.of_nat sz) item R = lift_os (os_reorder lower item r (h, mkOS tb (mkLL hd tl sz))).
Proof.
  intros HR.
  unfold tr_os_reorder, os_reorder, os_lookup, get_table, put_table, ret, raise, trp_tbl_get, trp_tbl_set, on_heap_s. unfold mbind.
  cbn [fst snd os_table os_order]. destruct (t_get (lower item) tb) as [i|]; [|reflexivity].
  rewrite tr_ll_remove_node_eq, sub_order_eq.
  destruct (on_order (ll_remove_node i) (h, mkOS tb (mkLL hd tl sz))) as [[[]|e] [h1 [tb1 [hd1 tl1 sz1]]]];
    cbn [lift_os os_st fst snd os_table os_order ll_head ll_tail ll_size]; [|reflexivity].
  rewrite trp_get_value_eq. unfold zoom. rewrite load_eq. cbn [fst snd].
  destruct (hget h1 i) as [n|]; [|reflexivity]. cbn [fst snd os_table os_order].
  rewrite HR.
  destruct (on_order (r (n_value n)) (h1, mkOS tb1 (mkLL hd1 tl1 sz1))) as [[j|e] [h2 [tb2 [hd2 tl2 sz2]]]]; reflexivity.
Qed.

Lemma implements_sub (m : str -> M lst id) (F : heap -> option id -> option id -> Z -> str -> mres id (heap * option id * option id * Z)) :
  (forall h hd tl sz x, F h hd tl (Z.of_nat sz) x = lift_ll (m x (h, mkLL hd tl sz))) ->
  implements (fun hp s_table s_head s_tail s_size x =>
                match F hp s_head s_tail s_size x with
                | MOk a (hp, s_head, s_tail, s_size) => MOk a (hp, s_table, s_head, s_tail, s_size)
                | MErr e (hp, s_head, s_tail, s_size) => MErr e (hp, s_table, s_head, s_tail, s_size)
                end) m.
Proof. intros HF h tb hd tl sz x. rewrite HF. apply sub_order_eq. Qed.

Lemma tr_os_order_last_eq h tb hd tl sz item :
  tr_os_order_last lower h tb hd tl (Z.of_nat sz) item = lift_os (os_order_last lower item (h, mkOS tb (mkLL hd tl sz))).
Proof.
  unfold tr_os_order_last, os_order_last.
  rewrite (tr_os_reorder_eq _ ll_append); [apply lift_os_eta_tt|].
  apply (implements_sub ll_append (fun h hd tl z x => tr_ll_append h hd tl z x)). intros; apply tr_ll_append_eq.
Qed.

Lemma tr_os_order_first_eq h tb hd tl sz item :
  tr_os_order_first lower h tb hd tl (Z.of_nat sz) item = lift_os (os_order_first lower item (h, mkOS tb (mkLL hd tl sz))).
Proof.
  unfold tr_os_order_first, os_order_first.
  rewrite (tr_os_reorder_eq _ ll_insert_at_head); [apply lift_os_eta_tt|].
  apply (implements_sub ll_insert_at_head (fun h hd tl z x => tr_ll_insert_at_head h hd tl z x)). intros; apply tr_ll_insert_at_head_eq.
Qed.

Lemma tr_os_order_before_eq h tb hd tl sz item ref :
  tr_os_order_before lower h tb hd tl (Z.of_nat sz) item ref
  = lift_os (os_order_before lower item ref (h, mkOS tb (mkLL hd tl sz))).
Proof.
  unfold tr_os_order_before, os_order_before, trp_stri_eqb.
  destruct (str_eqb (lower item) (lower ref)); [reflexivity|].
  unfold os_lookup, get_table, raise, ret, trp_tbl_get. unfold mbind. cbn [fst snd os_table].
  destruct (t_get (lower ref) tb) as [rn|]; [|reflexivity].
  rewrite (tr_os_reorder_eq _ (fun x => ll_insert_before x rn)); [apply lift_os_eta_tt|].
  intros h' tb' hd' tl' sz' x. rewrite tr_ll_insert_before_eq, sub_order_eq. apply lift_os_eta.
Qed.

Lemma tr_os_order_after_eq h tb hd tl sz item ref :
  tr_os_order_after lower h tb hd tl (Z.of_nat sz) item ref
  = lift_os (os_order_after lower item ref (h, mkOS tb (mkLL hd tl sz))).
Proof.
  unfold tr_os_order_after, os_order_after, trp_stri_eqb.
  destruct (str_eqb (lower item) (lower ref)); [reflexivity|].
  unfold os_lookup, get_table, raise, ret, trp_tbl_get. unfold mbind. cbn [fst snd os_table].
  destruct (t_get (lower ref) tb) as [rn|]; [|reflexivity].
  rewrite (tr_os_reorder_eq _ (fun x => ll_insert_after x rn)); [apply lift_os_eta_tt|].
  intros h' tb' hd' tl' sz' x. rewrite tr_ll_insert_after_eq, sub_order_eq. apply lift_os_eta.
Qed.
End OS.

(** * Chaining translated OrderedSet methods (for the example of Props/C09Tie.v) *)
Definition os_then {A B} (r : mres A (heap * ostable * option id * option id * Z))
    (f : A -> heap -> ostable -> option id -> option id -> Z -> B) (d : err -> B) : B :=
  match r with MOk a (h, tb, hd, tl, z) => f a h tb hd tl z | MErr e _ => d e end.
