(** C09 proofs, layer 1: the doubly linked list in the heap.
    [seg h p l q]: the cells named by [l : list (id * value)] form a doubly
    linked segment whose first [prev] is [p] and whose last [next] is [q]. *)
From Coq Require Import FMapPositive.
From Verif Require Import Lib.Base Dict.Common Dict.Heap.

(** * Heap primitives *)
Lemma hget_hput_eq i n h : hget (hput i n h) i = Some n.
Proof. unfold hget, hput; cbn. apply PositiveMap.gss. Qed.
Lemma hget_hput_neq i j n h : i <> j -> hget (hput j n h) i = hget h i.
Proof. intros Hne. unfold hget, hput; cbn. now apply PositiveMap.gso. Qed.
Lemma nxt_hput i n h : nxt (hput i n h) = nxt h.
Proof. reflexivity. Qed.
Lemma hget_halloc_eq v h : hget (halloc v h) (nxt h) = Some (mkNode None None v).
Proof. unfold hget, halloc; cbn. apply PositiveMap.gss. Qed.
Lemma hget_halloc_neq v h i : i <> nxt h -> hget (halloc v h) i = hget h i.
Proof. intros Hne. unfold hget, halloc; cbn. now apply PositiveMap.gso. Qed.
Lemma nxt_halloc v h : nxt (halloc v h) = Pos.succ (nxt h).
Proof. reflexivity. Qed.

Global Opaque hget hput halloc.

Lemma oid_eqb_eq a b : oid_eqb a b = true <-> a = b.
Proof.
  destruct a as [a|], b as [b|]; cbn; split; intro H; try discriminate; try reflexivity.
  - apply Pos.eqb_eq in H. now subst.
  - inversion H; subst. apply Pos.eqb_refl.
Qed.
Lemma oid_eqb_refl a : oid_eqb a a = true.
Proof. now apply oid_eqb_eq. Qed.
Lemma oid_eqb_neq a b : a <> b -> oid_eqb a b = false.
Proof.
  intros Hne. destruct (oid_eqb a b) eqn:E; [|reflexivity].
  apply oid_eqb_eq in E. contradiction.
Qed.

(** * Segments *)
Definition ids {B} (l : list (id * B)) : list id := map fst l.

Definition first_id (l : list (id * str)) (q : option id) : option id :=
  match l with [] => q | (i, _) :: _ => Some i end.
Fixpoint last_id (l : list (id * str)) (p : option id) : option id :=
  match l with [] => p | (i, _) :: l' => last_id l' (Some i) end.

Fixpoint seg (h : heap) (p : option id) (l : list (id * str)) (q : option id) : Prop :=
  match l with
  | [] => True
  | (i, k) :: l' => hget h i = Some (mkNode p (first_id l' q) k) /\ seg h (Some i) l' q
  end.

Lemma first_id_app l1 l2 q : first_id (l1 ++ l2) q = first_id l1 (first_id l2 q).
Proof. destruct l1 as [|[i k] l1]; reflexivity. Qed.
Lemma last_id_app l1 l2 p : last_id (l1 ++ l2) p = last_id l2 (last_id l1 p).
Proof. revert p. induction l1 as [|[i k] l1 IH]; intro p; cbn; [reflexivity|apply IH]. Qed.
Lemma last_id_cons_indep i k l p p' : last_id ((i, k) :: l) p = last_id ((i, k) :: l) p'.
Proof. reflexivity. Qed.
Lemma last_id_snoc l i k p : last_id (l ++ [(i, k)]) p = Some i.
Proof. now rewrite last_id_app. Qed.
Lemma last_id_in l p i : last_id l p = Some i -> p = Some i \/ In i (ids l).
Proof.
  revert p. induction l as [|[j k] l IH]; intros p H; cbn in *; [now left|].
  apply IH in H. destruct H as [H|H]; [inversion H; subst; right; now left|right; now right].
Qed.
Lemma first_id_in l i : first_id l None = Some i -> In i (ids l).
Proof. destruct l as [|[j k] l]; cbn; [discriminate|]. intros H; inversion H; now left. Qed.

Lemma seg_frame h h' p l q :
  (forall i, In i (ids l) -> hget h' i = hget h i) -> seg h p l q -> seg h' p l q.
Proof.
  revert p. induction l as [|[i k] l IH]; intros p Hf Hs; cbn in *; [exact I|].
  destruct Hs as [Hi Hs]. split.
  - rewrite Hf; [exact Hi|now left].
  - apply IH; [|exact Hs]. intros j Hj. apply Hf. now right.
Qed.

Lemma seg_app h p l1 l2 q :
  seg h p (l1 ++ l2) q <-> seg h p l1 (first_id l2 q) /\ seg h (last_id l1 p) l2 q.
Proof.
  revert p. induction l1 as [|[i k] l1 IH]; intro p; cbn.
  - tauto.
  - rewrite first_id_app, IH. tauto.
Qed.

Lemma seg_get h p l q i k :
  seg h p l q -> In (i, k) l -> exists n, hget h i = Some n /\ n_value n = k.
Proof.
  revert p. induction l as [|[j kj] l IH]; intros p Hs Hin; cbn in *; [contradiction|].
  destruct Hs as [Hj Hs]. destruct Hin as [Hin|Hin].
  - inversion Hin; subst. eexists; split; [exact Hj|reflexivity].
  - eapply IH; eauto.
Qed.

(** the cell in the middle of a segment *)
Lemma seg_mid h p l1 i k l2 q :
  seg h p (l1 ++ (i, k) :: l2) q ->
  hget h i = Some (mkNode (last_id l1 p) (first_id l2 q) k).
Proof. intros Hs. apply seg_app in Hs. destruct Hs as [_ Hs]. cbn in Hs. tauto. Qed.

Lemma seg_set_prev_first h p0 p' j kj l q :
  seg h p0 ((j, kj) :: l) q -> ~ In j (ids l) ->
  seg (hput j (mkNode p' (first_id l q) kj) h) p' ((j, kj) :: l) q.
Proof.
  intros [_ Hs] Hni. cbn. split; [apply hget_hput_eq|].
  eapply seg_frame; [|exact Hs]. intros i Hi. apply hget_hput_neq. congruence.
Qed.

Lemma seg_set_next_last h p l m km q q' :
  seg h p (l ++ [(m, km)]) q -> ~ In m (ids l) ->
  seg (hput m (mkNode (last_id l p) q' km) h) p (l ++ [(m, km)]) q'.
Proof.
  intros Hs Hni. apply seg_app in Hs. destruct Hs as [H1 H2]. apply seg_app. split.
  - eapply seg_frame; [|exact H1]. intros i Hi. apply hget_hput_neq. congruence.
  - cbn. split; [apply hget_hput_eq|exact I].
Qed.

Lemma in_ids_app {B} (l1 l2 : list (id * B)) i : In i (ids (l1 ++ l2)) <-> In i (ids l1) \/ In i (ids l2).
Proof. unfold ids. rewrite map_app. apply in_app_iff. Qed.

Lemma ids_app {B} (l1 l2 : list (id * B)) : ids (l1 ++ l2) = ids l1 ++ ids l2.
Proof. apply map_app. Qed.
Lemma ids_cons {B} i (k : B) l : ids ((i, k) :: l) = i :: ids l.
Proof. reflexivity. Qed.

Lemma nodup_mid {B} (l1 : list (id * B)) i k l2 :
  NoDup (ids (l1 ++ (i, k) :: l2)) ->
  ~ In i (ids l1) /\ ~ In i (ids l2) /\ NoDup (ids (l1 ++ l2)).
Proof.
  rewrite !ids_app, ids_cons. intros Hnd.
  pose proof (NoDup_remove_1 _ _ _ Hnd) as H1.
  pose proof (NoDup_remove_2 _ _ _ Hnd) as H2.
  rewrite in_app_iff in H2. tauto.
Qed.

Lemma last_cases {A} (l : list A) : l = [] \/ exists l' a, l = l' ++ [a].
Proof.
  destruct l as [|x l]; [now left|right].
  destruct (@exists_last _ (x :: l)) as [l' [a E]]; [discriminate|]. eauto.
Qed.

Lemma NoDup_app_disj {A} (a b : list A) :
  NoDup (a ++ b) -> forall x, In x a -> In x b -> False.
Proof.
  induction a as [|z a IH]; intros Hnd x Ha Hb; [contradiction|].
  inversion Hnd as [|? ? Hz Hnd']; subst. destruct Ha as [->|Ha].
  - apply Hz. apply in_app_iff. now right.
  - now apply (IH Hnd' x).
Qed.

Lemma NoDup_app_l {A} (a b : list A) : NoDup (a ++ b) -> NoDup a.
Proof.
  induction a as [|z a IH]; intros Hnd; [constructor|].
  inversion Hnd as [|? ? Hz Hnd']; subst. constructor; [|now apply IH].
  intros Hin. apply Hz. apply in_app_iff. now left.
Qed.
Lemma NoDup_app_r {A} (a b : list A) : NoDup (a ++ b) -> NoDup b.
Proof.
  induction a as [|z a IH]; intros Hnd; [exact Hnd|].
  inversion Hnd; subst. now apply IH.
Qed.

(** * Running monadic code *)
Lemma load_ok h i n : hget h i = Some n -> load i h = (Ok n, h).
Proof. intros H. unfold load. now rewrite H. Qed.
Lemma set_prev_ok h i n p :
  hget h i = Some n -> set_prev i p h = (Ok tt, hput i (mkNode p (n_next n) (n_value n)) h).
Proof. intros H. unfold set_prev, mbind. now rewrite (load_ok _ _ _ H). Qed.
Lemma set_next_ok h i n x :
  hget h i = Some n -> set_next i x h = (Ok tt, hput i (mkNode (n_prev n) x (n_value n)) h).
Proof. intros H. unfold set_next, mbind. now rewrite (load_ok _ _ _ H). Qed.

(** what may change between two heaps: nothing outside [own] among the cells
    allocated so far *)
Definition frame_ok (h : heap) (own : list id) (h' : heap) : Prop :=
  forall j, ~ In j own -> hget h' j = hget h j.

(** link_nodes joins two segments.  Workhorse of every list operation. *)
Lemma link_nodes_spec h l1 x y l2 :
  seg h None l1 x -> seg h y l2 None -> NoDup (ids (l1 ++ l2)) ->
  exists h',
    link_nodes (last_id l1 None) (first_id l2 None) h = (Ok tt, h')
    /\ seg h' None (l1 ++ l2) None
    /\ nxt h' = nxt h
    /\ frame_ok h (ids (l1 ++ l2)) h'.
Proof.
  intros H1 H2 Hnd.
  assert (Hdisj : forall i, In i (ids l1) -> In i (ids l2) -> False).
  { unfold ids in *. rewrite map_app in Hnd. now apply NoDup_app_disj. }
  unfold link_nodes, mbind.
  (* first half: next_node.previous_node = previous_node *)
  assert (Hstep1 : exists h1,
    (match first_id l2 None with Some j => set_prev j (last_id l1 None) | None => ret tt end) h
      = (Ok tt, h1)
    /\ seg h1 (last_id l1 None) l2 None /\ seg h1 None l1 x /\ nxt h1 = nxt h
    /\ frame_ok h (ids (l1 ++ l2)) h1).
  { destruct l2 as [|[j kj] l2'].
    - cbn. exists h. split; [reflexivity|]. split; [exact I|]. split; [exact H1|].
      split; [reflexivity|]. intros ? ?; reflexivity.
    - cbn [first_id]. pose proof H2 as [Hj _].
      rewrite (set_prev_ok _ _ _ _ Hj). cbn [n_next n_value].
      eexists; split; [reflexivity|].
      assert (Hnj : ~ In j (ids l2')) by (apply nodup_mid in Hnd; tauto).
      split; [now apply (seg_set_prev_first _ y)|].
      split.
      { eapply seg_frame; [|exact H1]. intros i Hi. apply hget_hput_neq.
        intros ->. apply (Hdisj j Hi). now left. }
      split; [apply nxt_hput|].
      intros i Hi. apply hget_hput_neq. intros ->. apply Hi. apply in_ids_app. right. now left. }
  destruct Hstep1 as [h1 [E1 [S2 [S1 [N1 F1]]]]]. rewrite E1.
  destruct (last_cases l1) as [->|[l1' [[m km] ->]]].
  - cbn. exists h1. split; [reflexivity|]. split; [exact S2|]. split; [exact N1|exact F1].
  - rewrite last_id_snoc.
    pose proof (seg_mid _ _ _ _ _ _ _ S1) as Hm. cbn [first_id] in Hm.
    rewrite (set_next_ok _ _ _ _ Hm). cbn [n_prev n_value].
    eexists; split; [reflexivity|].
    assert (Hnm : ~ In m (ids l1')).
    { rewrite <- app_assoc in Hnd. cbn [app] in Hnd. apply nodup_mid in Hnd. tauto. }
    split.
    { apply seg_app. split.
      * eapply seg_set_next_last; [exact S1|exact Hnm].
      * rewrite last_id_snoc. rewrite last_id_snoc in S2.
        eapply seg_frame; [|exact S2]. intros i Hi. apply hget_hput_neq.
        intros ->. apply (Hdisj m); [apply in_ids_app; right; now left|exact Hi]. }
    split; [rewrite nxt_hput; exact N1|].
    intros i Hi. rewrite hget_hput_neq; [now apply F1|].
    intros ->. apply Hi. apply in_ids_app. left. apply in_ids_app. right. now left.
Qed.

(** * Monad plumbing *)
Lemma mbind_ok {S A B} (m : M S A) (f : A -> M S B) s a s1 :
  m s = (Ok a, s1) -> mbind m f s = f a s1.
Proof. intros E. unfold mbind. now rewrite E. Qed.
Lemma mbind_err {S A B} (m : M S A) (f : A -> M S B) s e s1 :
  m s = (Err e, s1) -> mbind m f s = (Err e, s1).
Proof. intros E. unfold mbind. now rewrite E. Qed.
Lemma on_heap_eq {A} (m : M heap A) h ll r h' :
  m h = (r, h') -> on_heap m (h, ll) = (r, (h', ll)).
Proof. intros E. unfold on_heap, zoom. cbn. now rewrite E. Qed.

(** * node.remove() *)
Lemma node_remove_spec h l1 i k l2 :
  seg h None (l1 ++ (i, k) :: l2) None -> NoDup (ids (l1 ++ (i, k) :: l2)) ->
  exists h',
    node_remove i h = (Ok k, h')
    /\ seg h' None (l1 ++ l2) None
    /\ hget h' i = Some (mkNode None None k)
    /\ nxt h' = nxt h
    /\ frame_ok h (ids (l1 ++ (i, k) :: l2)) h'.
Proof.
  intros Hs Hnd.
  pose proof (seg_mid _ _ _ _ _ _ _ Hs) as Hi.
  destruct (nodup_mid _ _ _ _ Hnd) as [Hn1 [Hn2 Hnd']].
  apply seg_app in Hs. destruct Hs as [S1 S2]. cbn [first_id] in S1.
  destruct S2 as [_ S2].
  destruct (link_nodes_spec h l1 (Some i) (Some i) l2 S1 S2 Hnd') as [h1 [E1 [Sg [N1 F1]]]].
  assert (Hi1 : hget h1 i = hget h i).
  { apply F1. rewrite in_ids_app. tauto. }
  unfold node_remove.
  rewrite (mbind_ok _ _ _ _ _ (load_ok _ _ _ Hi)). cbn [n_prev n_next n_value].
  rewrite (mbind_ok _ _ _ _ _ E1).
  rewrite Hi in Hi1.
  rewrite (mbind_ok _ _ _ _ _ (set_prev_ok _ _ _ None Hi1)). cbn [n_prev n_next n_value].
  rewrite (mbind_ok _ _ _ _ _ (set_next_ok _ _ _ None (hget_hput_eq _ _ _))).
  cbn [n_prev n_next n_value].
  rewrite (mbind_ok _ _ _ _ _ (load_ok _ _ _ (hget_hput_eq _ _ _))). cbn [n_value ret].
  eexists. split; [reflexivity|].
  split.
  { eapply seg_frame; [|exact Sg]. intros j Hj.
    rewrite !hget_hput_neq; [reflexivity| |]; intros ->; apply in_ids_app in Hj; tauto. }
  split; [apply hget_hput_eq|].
  split; [rewrite !nxt_hput; exact N1|].
  intros j Hj. rewrite in_ids_app, ids_cons in Hj. cbn [In] in Hj.
  rewrite !hget_hput_neq; [|intros ->; tauto|intros ->; tauto].
  apply F1. rewrite in_ids_app. tauto.
Qed.

(** * LinkedList *)
Record ll_rep (h : heap) (ll : llist) (l : list (id * str)) : Prop := mkLLRep {
  lr_seg : seg h None l None;
  lr_nodup : NoDup (ids l);
  lr_head : ll_head ll = first_id l None;
  lr_tail : ll_tail ll = last_id l None;
  lr_size : ll_size ll = length l;
  lr_bound : forall i, In i (ids l) -> (i < nxt h)%positive;
}.

Lemma ll_rep_empty h : ll_rep h ll_empty [].
Proof. constructor; cbn; auto; [constructor|contradiction]. Qed.

Lemma last_id_nonempty l p p' : l <> [] -> last_id l p = last_id l p'.
Proof. destruct l as [|[i k] l]; [congruence|reflexivity]. Qed.

Lemma ll_fix_ends_spec h ll l1 i k l2 :
  ll_rep h ll (l1 ++ (i, k) :: l2) ->
  ll_fix_ends i (h, ll)
  = (Ok tt, (h, mkLL (first_id (l1 ++ l2) None) (last_id (l1 ++ l2) None) (ll_size ll))).
Proof.
  intros [Hs Hnd Hh Ht Hz Hb]. destruct ll as [hd tl sz]. cbn in Hh, Ht, Hz. subst hd tl.
  pose proof (seg_mid _ _ _ _ _ _ _ Hs) as Hi.
  destruct (nodup_mid _ _ _ _ Hnd) as [Hn1 [Hn2 Hnd']].
  unfold ll_fix_ends.
  rewrite (mbind_ok _ _ _ _ _ (eq_refl : get_ll _ = (Ok _, _))). cbn [ll_head ll_tail].
  destruct l1 as [|[i1 k1] l1'].
  - (* node is head *)
    cbn [app first_id]. rewrite oid_eqb_refl.
    rewrite (mbind_ok _ _ _ _ _ (on_heap_eq _ _ _ _ _ (load_ok _ _ _ Hi))).
    cbn [n_next n_prev last_id].
    destruct l2 as [|[j kj] l2']; reflexivity.
  - cbn [app first_id]. rewrite oid_eqb_neq.
    2:{ intros E. inversion E; subst. apply Hn1. now left. }
    cbn [last_id]. rewrite last_id_app. cbn [last_id].
    destruct l2 as [|[j kj] l2'].
    + (* node is tail, not head *)
      cbn [last_id]. rewrite oid_eqb_refl.
      rewrite (mbind_ok _ _ _ _ _ (on_heap_eq _ _ _ _ _ (load_ok _ _ _ Hi))).
      cbn [n_next n_prev]. rewrite app_nil_r. cbn [last_id first_id].
      destruct (last_cases l1') as [->|[l1'' [[m km] ->]]]; [reflexivity|].
      rewrite !last_id_snoc. reflexivity.
    + (* node in the middle *)
      rewrite oid_eqb_neq.
      2:{ intros E. symmetry in E. cbn [last_id] in E. apply last_id_in in E. destruct E as [E|E].
          - inversion E; subst. apply Hn2. now left.
          - apply Hn2. now right. }
      cbn [ret]. rewrite !last_id_app. reflexivity.
Qed.

Lemma ll_remove_node_spec h ll l1 i k l2 :
  ll_rep h ll (l1 ++ (i, k) :: l2) ->
  exists h' ll',
    ll_remove_node i (h, ll) = (Ok tt, (h', ll'))
    /\ ll_rep h' ll' (l1 ++ l2)
    /\ hget h' i = Some (mkNode None None k)
    /\ nxt h' = nxt h
    /\ frame_ok h (ids (l1 ++ (i, k) :: l2)) h'.
Proof.
  intros Hrep. pose proof Hrep as [Hs Hnd Hh Ht Hz Hb].
  destruct (node_remove_spec _ _ _ _ _ Hs Hnd) as [h' [E [Sg [Hi [N F]]]]].
  unfold ll_remove_node.
  rewrite (mbind_ok _ _ _ _ _ (ll_fix_ends_spec _ _ _ _ _ _ Hrep)).
  rewrite (mbind_ok _ _ _ _ _ (eq_refl : get_ll _ = (Ok _, _))). cbn [ll_size snd].
  rewrite Hz, app_length. cbn [length]. rewrite Nat.add_succ_r.
  rewrite (mbind_ok _ _ _ _ _ (eq_refl : set_size _ _ = (Ok _, _))).
  cbn [fst snd ll_head ll_tail].
  rewrite (mbind_ok _ _ _ _ _ (on_heap_eq _ _ _ _ _ E)). cbn [ret].
  eexists _, _. split; [reflexivity|].
  split; [|split; [exact Hi|split; [exact N|exact F]]].
  destruct (nodup_mid _ _ _ _ Hnd) as [Hn1 [Hn2 Hnd']].
  constructor; cbn; auto.
  - now rewrite app_length.
  - intros j Hj. rewrite N. apply Hb. rewrite in_ids_app, ids_cons.
    apply in_ids_app in Hj. cbn [In]. tauto.
Qed.

(** * Heap frames with allocation: cells allocated so far and outside [own] are
    untouched; the allocation pointer only grows. *)
Definition hframe (h : heap) (own : list id) (h' : heap) : Prop :=
  (nxt h <= nxt h')%positive /\
  forall j, (j < nxt h)%positive -> ~ In j own -> hget h' j = hget h j.

Lemma hframe_refl h own : hframe h own h.
Proof. split; [lia|reflexivity]. Qed.

Lemma hframe_trans h A h1 B h2 :
  hframe h A h1 -> hframe h1 B h2 ->
  (forall j, (j < nxt h)%positive -> In j B -> In j A) -> hframe h A h2.
Proof.
  intros [N1 F1] [N2 F2] Hsub. split; [lia|].
  intros j Hj Hn. rewrite F2; [now apply F1|lia|]. intros Hb. apply Hn. now apply Hsub.
Qed.

Lemma hframe_weaken h A B h' : hframe h A h' -> incl A B -> hframe h B h'.
Proof. intros [N F] Hi. split; [exact N|]. intros j Hj Hn. apply F; [exact Hj|]. intros Ha. apply Hn, Hi, Ha. Qed.

Lemma frame_ok_hframe h own h' : frame_ok h own h' -> nxt h' = nxt h -> hframe h own h'.
Proof. intros F N. split; [lia|]. intros j _ Hn. now apply F. Qed.

Lemma hframe_halloc v h own : hframe h own (halloc v h).
Proof.
  split; [rewrite nxt_halloc; lia|]. intros j Hj _. apply hget_halloc_neq. lia.
Qed.

Lemma seg_hframe h own h' p l q :
  hframe h own h' -> (forall i, In i (ids l) -> (i < nxt h)%positive /\ ~ In i own) ->
  seg h p l q -> seg h' p l q.
Proof.
  intros [_ F] Hl. apply seg_frame. intros i Hi. destruct (Hl i Hi). now apply F.
Qed.

Lemma frame_ok_trans h A h1 B h2 C :
  frame_ok h A h1 -> frame_ok h1 B h2 -> incl A C -> incl B C -> frame_ok h C h2.
Proof.
  intros F1 F2 HA HB j Hj. rewrite F2; [apply F1|]; intros Hin; apply Hj; auto.
Qed.

(** * _insert_link *)
Lemma insert_link_spec h l1 x y l2 new v :
  seg h None l1 x -> seg h y l2 None ->
  hget h new = Some (mkNode None None v) ->
  NoDup (ids (l1 ++ (new, v) :: l2)) ->
  exists h',
    insert_link (last_id l1 None) new (first_id l2 None) h = (Ok tt, h')
    /\ seg h' None (l1 ++ (new, v) :: l2) None
    /\ nxt h' = nxt h
    /\ frame_ok h (ids (l1 ++ (new, v) :: l2)) h'.
Proof.
  intros S1 S2 Hnew Hnd.
  destruct (nodup_mid _ _ _ _ Hnd) as [Hn1 [Hn2 Hnd12]].
  assert (Hnd1 : NoDup (ids (l1 ++ [(new, v)]))).
  { rewrite ids_app in *. cbn [ids map fst] in *. 
    replace (ids l1 ++ new :: map fst l2) with ((ids l1 ++ [new]) ++ map fst l2) in Hnd
      by (rewrite <- app_assoc; reflexivity).
    now apply NoDup_app_l in Hnd. }
  destruct (link_nodes_spec h l1 x None [(new, v)] S1) as [h1 [E1 [Sg1 [N1 F1]]]].
  { cbn. split; [|exact I]. exact Hnew. }
  { exact Hnd1. }
  assert (S2' : seg h1 y l2 None).
  { eapply seg_frame; [|exact S2]. intros i Hi. apply F1. rewrite in_ids_app. cbn.
    intros [Hin|[->|[]]]; [|contradiction].
    rewrite ids_app in Hnd12. eapply NoDup_app_disj; eauto. }
  destruct (link_nodes_spec h1 (l1 ++ [(new, v)]) None y l2 Sg1 S2') as [h2 [E2 [Sg2 [N2 F2]]]].
  { rewrite <- app_assoc. exact Hnd. }
  rewrite last_id_snoc in E2. cbn [first_id] in E1.
  unfold insert_link. rewrite (mbind_ok _ _ _ _ _ E1). rewrite E2.
  exists h2. split; [reflexivity|]. rewrite <- app_assoc in Sg2, F2. cbn [app] in Sg2, F2.
  split; [exact Sg2|]. split; [congruence|].
  eapply frame_ok_trans; [exact F1|exact F2| |apply incl_refl].
  intros j Hj. rewrite in_ids_app in *. cbn in *. tauto.
Qed.

Lemma node_insert_before_spec h l1 e ke l2 new v :
  seg h None (l1 ++ (e, ke) :: l2) None ->
  hget h new = Some (mkNode None None v) ->
  NoDup (ids (l1 ++ (new, v) :: (e, ke) :: l2)) ->
  exists h',
    node_insert_before e new h = (Ok tt, h')
    /\ seg h' None (l1 ++ (new, v) :: (e, ke) :: l2) None
    /\ nxt h' = nxt h
    /\ frame_ok h (ids (l1 ++ (new, v) :: (e, ke) :: l2)) h'.
Proof.
  intros Hs Hnew Hnd.
  pose proof (seg_mid _ _ _ _ _ _ _ Hs) as He.
  destruct (nodup_mid _ _ _ _ Hnd) as [Hn1 [Hn2 _]].
  apply seg_app in Hs. destruct Hs as [S1 S2]. cbn [first_id] in S1.
  destruct (insert_link_spec h l1 _ _ ((e, ke) :: l2) new v S1 S2 Hnew Hnd)
    as [h' [E [Sg [N F]]]].
  unfold node_insert_before. rewrite (mbind_ok _ _ _ _ _ (load_ok _ _ _ He)). cbn [n_prev].
  replace (Pos.eqb e new) with false.
  2:{ symmetry. apply Pos.eqb_neq. intros ->. apply Hn2. now left. }
  rewrite oid_eqb_neq.
  2:{ intros Eq. symmetry in Eq. apply last_id_in in Eq. destruct Eq as [Eq|Eq]; [discriminate|contradiction]. }
  cbn [orb]. cbn [first_id] in E. rewrite E. eauto.
Qed.

Lemma node_insert_after_spec h l1 e ke l2 new v :
  seg h None (l1 ++ (e, ke) :: l2) None ->
  hget h new = Some (mkNode None None v) ->
  NoDup (ids (l1 ++ (e, ke) :: (new, v) :: l2)) ->
  exists h',
    node_insert_after e new h = (Ok tt, h')
    /\ seg h' None (l1 ++ (e, ke) :: (new, v) :: l2) None
    /\ nxt h' = nxt h
    /\ frame_ok h (ids (l1 ++ (e, ke) :: (new, v) :: l2)) h'.
Proof.
  intros Hs Hnew Hnd.
  pose proof (seg_mid _ _ _ _ _ _ _ Hs) as He.
  replace (l1 ++ (e, ke) :: (new, v) :: l2) with ((l1 ++ [(e, ke)]) ++ (new, v) :: l2) in *
    by (rewrite <- app_assoc; reflexivity).
  destruct (nodup_mid _ _ _ _ Hnd) as [Hn1 [Hn2 _]].
  replace (l1 ++ (e, ke) :: l2) with ((l1 ++ [(e, ke)]) ++ l2) in Hs
    by (rewrite <- app_assoc; reflexivity).
  apply seg_app in Hs. destruct Hs as [S1 S2].
  destruct (insert_link_spec h (l1 ++ [(e, ke)]) _ _ l2 new v S1 S2 Hnew Hnd)
    as [h' [E [Sg [N F]]]].
  rewrite last_id_snoc in E.
  unfold node_insert_after. rewrite (mbind_ok _ _ _ _ _ (load_ok _ _ _ He)). cbn [n_next].
  replace (Pos.eqb e new) with false.
  2:{ symmetry. apply Pos.eqb_neq. intros ->. apply Hn1. rewrite in_ids_app. right. now left. }
  rewrite oid_eqb_neq.
  2:{ intros Eq. symmetry in Eq. apply first_id_in in Eq. contradiction. }
  cbn [orb]. rewrite E. eauto.
Qed.

(** * LinkedList operations *)
Lemma first_id_nonempty_some l q : l <> [] -> exists a, first_id l q = Some a.
Proof. destruct l as [|[a ka] l]; [congruence|]. intros _. now exists a. Qed.

Lemma on_heap_new_node v h ll :
  on_heap (new_node v) (h, ll) = (Ok (nxt h), (halloc v h, ll)).
Proof. reflexivity. Qed.

Lemma ll_rep_fresh h ll L : ll_rep h ll L -> ~ In (nxt h) (ids L).
Proof. intros R Hin. apply (lr_bound _ _ _ R) in Hin. lia. Qed.

Lemma ll_rep_halloc h ll L v : ll_rep h ll L -> ll_rep (halloc v h) ll L.
Proof.
  intros R. pose proof (ll_rep_fresh _ _ _ R) as Hf. destruct R as [Hs Hnd Hh Ht Hz Hb].
  constructor; auto.
  - eapply seg_frame; [|exact Hs]. intros i Hi. apply hget_halloc_neq. intros ->. contradiction.
  - intros i Hi. rewrite nxt_halloc. apply Hb in Hi. lia.
Qed.

Lemma ll_append_spec h ll L v :
  ll_rep h ll L ->
  exists h' ll',
    ll_append v (h, ll) = (Ok (nxt h), (h', ll'))
    /\ ll_rep h' ll' (L ++ [(nxt h, v)])
    /\ nxt h' = Pos.succ (nxt h)
    /\ hframe h (ids L) h'.
Proof.
  intros R. pose proof (ll_rep_fresh _ _ _ R) as Hfresh.
  pose proof (ll_rep_halloc _ _ _ v R) as R1.
  destruct R1 as [Hs Hnd Hh Ht Hz Hb]. destruct ll as [hd tl sz]; cbn in Hh, Ht, Hz; subst.
  set (new := nxt h) in *. set (h1 := halloc v h) in *.
  assert (Hnew : hget h1 new = Some (mkNode None None v)) by apply hget_halloc_eq.
  assert (Hnd' : NoDup (ids (L ++ [(new, v)]))).
  { rewrite ids_app. cbn. apply NoDup_rev in Hnd. rewrite <- (rev_involutive (ids L ++ [new])).
    apply NoDup_rev. rewrite rev_app_distr. cbn. constructor; [|exact Hnd].
    rewrite <- in_rev. exact Hfresh. }
  unfold ll_append. rewrite (mbind_ok _ _ _ _ _ (on_heap_new_node _ _ _)). fold new h1.
  rewrite (mbind_ok _ _ _ _ _ (eq_refl : get_ll _ = (Ok _, _))). cbn [snd ll_head ll_tail].
  destruct (last_cases L) as [->|[l' [[t kt] ->]]].
  - cbn. eexists _, _. split; [reflexivity|]. split.
    + constructor; cbn; auto. intros i [<-|[]]. unfold h1. rewrite nxt_halloc. unfold new. lia.
    + split; [reflexivity|apply hframe_halloc].
  - destruct (first_id_nonempty_some (l' ++ [(t, kt)]) None) as [a Ha].
    { destruct l'; discriminate. }
    rewrite Ha, last_id_snoc.
    destruct (node_insert_after_spec h1 l' t kt [] new v Hs Hnew) as [h2 [E [Sg [N F]]]].
    { rewrite <- app_assoc in Hnd'. exact Hnd'. }
    rewrite (mbind_ok _ _ (h1, _) tt
               (h2, mkLL (Some a) (Some new) (length (l' ++ [(t, kt)])))).
    2:{ rewrite (mbind_ok _ _ _ _ _ (on_heap_eq _ _ _ _ _ E)). reflexivity. }
    cbn. eexists _, _. split; [reflexivity|]. split.
    + rewrite <- app_assoc. cbn [app]. constructor; cbn [ll_head ll_tail ll_size].
      * exact Sg.
      * rewrite <- app_assoc in Hnd'. exact Hnd'.
      * rewrite first_id_app in *. destruct l'; cbn in *; congruence.
      * now rewrite last_id_app.
      * rewrite !app_length. cbn. lia.
      * intros i Hi. rewrite N. unfold h1. rewrite nxt_halloc.
        rewrite in_ids_app in Hi. cbn in Hi.
        assert (In i (ids (l' ++ [(t, kt)])) \/ i = new) as [Hi'| ->].
        { rewrite in_ids_app. cbn. intuition. }
        -- apply Hb in Hi'. unfold h1 in Hi'. rewrite nxt_halloc in Hi'. exact Hi'.
        -- unfold new. lia.
    + split; [rewrite N; reflexivity|].
      eapply hframe_trans; [apply (hframe_halloc v h)| |].
      * apply frame_ok_hframe; [exact F|exact N].
      * intros j Hj Hin. rewrite in_ids_app in *. cbn in *.
        destruct Hin as [Hin|[Hin|[Hin|[]]]]; auto. exfalso. unfold new in Hin. lia.
Qed.

(** the new node is allocated, unlinked, and not in the list *)
Definition is_new (h : heap) (L : list (id * str)) (new : id) (v : str) : Prop :=
  hget h new = Some (mkNode None None v) /\ ~ In new (ids L) /\ (new < nxt h)%positive.

Lemma ll_insert_node_before_spec h ll l1 e ke l2 new v :
  ll_rep h ll (l1 ++ (e, ke) :: l2) -> is_new h (l1 ++ (e, ke) :: l2) new v ->
  exists h' ll',
    ll_insert_node_before new e (h, ll) = (Ok new, (h', ll'))
    /\ ll_rep h' ll' (l1 ++ (new, v) :: (e, ke) :: l2)
    /\ nxt h' = nxt h
    /\ frame_ok h (ids (l1 ++ (new, v) :: (e, ke) :: l2)) h'.
Proof.
  intros [Hs Hnd Hh Ht Hz Hb] [Hnew [Hfresh Hlt]].
  destruct ll as [hd tl sz]; cbn in Hh, Ht, Hz; subst.
  assert (Hnd' : NoDup (ids (l1 ++ (new, v) :: (e, ke) :: l2))).
  { rewrite ids_app in *. cbn [ids map fst] in *. apply NoDup_Add with (a := new) (l := ids l1 ++ e :: map fst l2);
      [apply Add_app|]. split; assumption. }
  destruct (node_insert_before_spec h l1 e ke l2 new v Hs Hnew Hnd') as [h' [E [Sg [N F]]]].
  unfold ll_insert_node_before.
  rewrite (mbind_ok _ _ _ _ _ (eq_refl : get_ll _ = (Ok _, _))). cbn [snd ll_head].
  destruct (first_id_nonempty_some (l1 ++ (e, ke) :: l2) None) as [a Ha].
  { destruct l1; discriminate. }
  rewrite Ha.
  rewrite (mbind_ok _ _ _ _ _ (on_heap_eq _ _ _ _ _ (load_ok _ _ _ Hnew))). cbn [n_next n_prev is_some orb].
  rewrite (mbind_ok _ _ _ _ _ (on_heap_eq _ _ _ _ _ E)).
  rewrite (mbind_ok _ _ _ _ _ (eq_refl : get_ll _ = (Ok _, _))). cbn [snd ll_head].
  destruct l1 as [|[i1 k1] l1'].
  - cbn [app first_id] in *. inversion Ha; subst a. rewrite oid_eqb_refl.
    cbn. eexists _, _. split; [reflexivity|]. split; [|split; [exact N|exact F]].
    constructor; cbn [ll_head ll_tail ll_size first_id last_id length]; auto.
    intros i Hi. rewrite N. cbn in Hi. destruct Hi as [<-|Hi]; [exact Hlt|]. apply Hb. exact Hi.
  - cbn [app first_id] in *. inversion Ha; subst a. rewrite oid_eqb_neq.
    2:{ intros Eq. inversion Eq; subst. apply (nodup_mid ((i1, k1) :: l1')) in Hnd. cbn in Hnd. tauto. }
    cbn. eexists _, _. split; [reflexivity|]. split; [|split; [exact N|exact F]].
    constructor; cbn [ll_head ll_tail ll_size first_id last_id length]; auto.
    + rewrite !last_id_app. reflexivity.
    + rewrite !app_length. cbn. lia.
    + intros i Hi. rewrite N. change (In i (ids (((i1, k1) :: l1') ++ (new, v) :: (e, ke) :: l2))) in Hi.
      rewrite in_ids_app in Hi. cbn [ids map fst In] in Hi.
      destruct Hi as [Hi|[<-|Hi]]; [|exact Hlt|]; apply Hb;
        change (In i (ids (((i1, k1) :: l1') ++ (e, ke) :: l2))); rewrite in_ids_app; cbn [ids map fst In]; tauto.
Qed.

Lemma ll_insert_node_after_spec h ll l1 e ke l2 new v :
  ll_rep h ll (l1 ++ (e, ke) :: l2) -> is_new h (l1 ++ (e, ke) :: l2) new v ->
  exists h' ll',
    ll_insert_node_after new e (h, ll) = (Ok new, (h', ll'))
    /\ ll_rep h' ll' (l1 ++ (e, ke) :: (new, v) :: l2)
    /\ nxt h' = nxt h
    /\ frame_ok h (ids (l1 ++ (e, ke) :: (new, v) :: l2)) h'.
Proof.
  intros [Hs Hnd Hh Ht Hz Hb] [Hnew [Hfresh Hlt]].
  destruct ll as [hd tl sz]; cbn in Hh, Ht, Hz; subst.
  assert (Hnd' : NoDup (ids (l1 ++ (e, ke) :: (new, v) :: l2))).
  { replace (l1 ++ (e, ke) :: (new, v) :: l2) with ((l1 ++ [(e, ke)]) ++ (new, v) :: l2)
      by (rewrite <- app_assoc; reflexivity).
    replace (l1 ++ (e, ke) :: l2) with ((l1 ++ [(e, ke)]) ++ l2) in Hnd, Hfresh
      by (rewrite <- app_assoc; reflexivity).
    rewrite ids_app in *. cbn [ids map fst] in *.
    apply NoDup_Add with (a := new) (l := ids (l1 ++ [(e, ke)]) ++ map fst l2); [apply Add_app|].
    split; assumption. }
  destruct (node_insert_after_spec h l1 e ke l2 new v Hs Hnew Hnd') as [h' [E [Sg [N F]]]].
  unfold ll_insert_node_after.
  rewrite (mbind_ok _ _ _ _ _ (eq_refl : get_ll _ = (Ok _, _))). cbn [snd ll_tail].
  rewrite last_id_app. cbn [last_id].
  assert (exists t, last_id l2 (Some e) = Some t) as [t Ht].
  { destruct (last_cases l2) as [->|[l2' [[t kt] ->]]]; [now exists e|exists t; apply last_id_snoc]. }
  rewrite Ht.
  rewrite (mbind_ok _ _ _ _ _ (on_heap_eq _ _ _ _ _ (load_ok _ _ _ Hnew))). cbn [n_next n_prev is_some orb].
  rewrite (mbind_ok _ _ _ _ _ (on_heap_eq _ _ _ _ _ E)).
  rewrite (mbind_ok _ _ _ _ _ (eq_refl : get_ll _ = (Ok _, _))). cbn [snd ll_tail].
  assert (Hbound : forall i, In i (ids (l1 ++ (e, ke) :: (new, v) :: l2)) -> (i < nxt h')%positive).
  { intros i Hi. rewrite N. rewrite in_ids_app in Hi. cbn [ids map fst In] in Hi.
    destruct Hi as [Hi|[<-|[<-|Hi]]]; [| |exact Hlt|]; apply Hb; rewrite in_ids_app; cbn [ids map fst In]; tauto. }
  destruct l2 as [|[j kj] l2'].
  - cbn [last_id] in Ht. inversion Ht; subst t. rewrite oid_eqb_refl.
    cbn. eexists _, _. split; [reflexivity|]. split; [|split; [exact N|exact F]].
    constructor; cbn [ll_head ll_tail ll_size]; auto.
    + rewrite !first_id_app. reflexivity.
    + rewrite !last_id_app. reflexivity.
    + rewrite !app_length. cbn. lia.
  - rewrite oid_eqb_neq.
    2:{ intros Eq. rewrite <- Eq in Ht. cbn [last_id] in Ht. apply last_id_in in Ht.
        apply nodup_mid in Hnd. cbn [ids map fst In] in Hnd.
        destruct Ht as [Ht|Ht]; [inversion Ht; subst; tauto|tauto]. }
    cbn. eexists _, _. split; [reflexivity|]. split; [|split; [exact N|exact F]].
    constructor; cbn [ll_head ll_tail ll_size]; auto.
    + rewrite !first_id_app. reflexivity.
    + rewrite !last_id_app. cbn [last_id]. cbn [last_id] in Ht. symmetry. exact Ht.
    + rewrite !app_length. cbn. lia.
Qed.

Lemma is_new_halloc h ll L v : ll_rep h ll L -> is_new (halloc v h) L (nxt h) v.
Proof.
  intros R. split; [apply hget_halloc_eq|]. split; [now apply (ll_rep_fresh _ _ _ R)|].
  rewrite nxt_halloc. lia.
Qed.

Lemma hframe_alloc_then h v (L L' : list (id * str)) h' :
  frame_ok (halloc v h) (ids L') h' -> nxt h' = nxt (halloc v h) ->
  (forall j, In j (ids L') -> In j (ids L) \/ j = nxt h) ->
  hframe h (ids L) h'.
Proof.
  intros F N Hsub.
  eapply hframe_trans; [apply (hframe_halloc v h)|apply frame_ok_hframe; [exact F|exact N]|].
  intros j Hj Hin. destruct (Hsub j Hin) as [H| ->]; [exact H|lia].
Qed.

Lemma ll_insert_before_spec h ll l1 e ke l2 v :
  ll_rep h ll (l1 ++ (e, ke) :: l2) ->
  exists h' ll',
    ll_insert_before v e (h, ll) = (Ok (nxt h), (h', ll'))
    /\ ll_rep h' ll' (l1 ++ (nxt h, v) :: (e, ke) :: l2)
    /\ nxt h' = Pos.succ (nxt h)
    /\ hframe h (ids (l1 ++ (e, ke) :: l2)) h'.
Proof.
  intros R.
  destruct (ll_insert_node_before_spec (halloc v h) ll l1 e ke l2 (nxt h) v
              (ll_rep_halloc _ _ _ v R) (is_new_halloc _ _ _ v R)) as [h' [ll' [E [R' [N F]]]]].
  unfold ll_insert_before. rewrite (mbind_ok _ _ _ _ _ (on_heap_new_node _ _ _)). rewrite E.
  eexists _, _. split; [reflexivity|]. split; [exact R'|]. split; [rewrite N; apply nxt_halloc|].
  eapply hframe_alloc_then; [exact F|exact N|].
  intros j Hj. rewrite in_ids_app in *. cbn [ids map fst In] in *. intuition.
Qed.

Lemma ll_insert_after_spec h ll l1 e ke l2 v :
  ll_rep h ll (l1 ++ (e, ke) :: l2) ->
  exists h' ll',
    ll_insert_after v e (h, ll) = (Ok (nxt h), (h', ll'))
    /\ ll_rep h' ll' (l1 ++ (e, ke) :: (nxt h, v) :: l2)
    /\ nxt h' = Pos.succ (nxt h)
    /\ hframe h (ids (l1 ++ (e, ke) :: l2)) h'.
Proof.
  intros R.
  destruct (ll_insert_node_after_spec (halloc v h) ll l1 e ke l2 (nxt h) v
              (ll_rep_halloc _ _ _ v R) (is_new_halloc _ _ _ v R)) as [h' [ll' [E [R' [N F]]]]].
  unfold ll_insert_after. rewrite (mbind_ok _ _ _ _ _ (on_heap_new_node _ _ _)). rewrite E.
  eexists _, _. split; [reflexivity|]. split; [exact R'|]. split; [rewrite N; apply nxt_halloc|].
  eapply hframe_alloc_then; [exact F|exact N|].
  intros j Hj. rewrite in_ids_app in *. cbn [ids map fst In] in *. intuition.
Qed.

Lemma ll_insert_at_head_spec h ll L v :
  ll_rep h ll L ->
  exists h' ll',
    ll_insert_at_head v (h, ll) = (Ok (nxt h), (h', ll'))
    /\ ll_rep h' ll' ((nxt h, v) :: L)
    /\ nxt h' = Pos.succ (nxt h)
    /\ hframe h (ids L) h'.
Proof.
  intros R. unfold ll_insert_at_head.
  rewrite (mbind_ok _ _ _ _ _ (eq_refl : get_ll _ = (Ok _, _))). cbn [snd].
  rewrite (lr_head _ _ _ R).
  destruct L as [|[e ke] L'].
  - cbn [first_id]. apply (ll_append_spec h ll [] v R).
  - cbn [first_id]. apply (ll_insert_before_spec h ll [] e ke L' v R).
Qed.

Lemma ll_remove_node_hframe h ll l1 i k l2 :
  ll_rep h ll (l1 ++ (i, k) :: l2) ->
  exists h' ll',
    ll_remove_node i (h, ll) = (Ok tt, (h', ll'))
    /\ ll_rep h' ll' (l1 ++ l2)
    /\ hget h' i = Some (mkNode None None k)
    /\ nxt h' = nxt h
    /\ hframe h (ids (l1 ++ (i, k) :: l2)) h'.
Proof.
  intros R. destruct (ll_remove_node_spec _ _ _ _ _ _ R) as [h' [ll' [E [R' [Hi [N F]]]]]].
  exists h', ll'. split; [exact E|]. split; [exact R'|]. split; [exact Hi|]. split; [exact N|].
  now apply frame_ok_hframe.
Qed.

(** * Walking the list *)
Lemma walk_seg h p l fuel :
  seg h p l None -> length l <= fuel -> walk h fuel (first_id l None) = Ok (map snd l).
Proof.
  revert p fuel. induction l as [|[i k] l IH]; intros p fuel Hs Hlen; [destruct fuel; reflexivity|].
  cbn [first_id]. destruct fuel as [|f]; [cbn in Hlen; lia|].
  destruct Hs as [Hi Hs]. cbn [walk]. rewrite Hi. cbn [n_next n_value].
  rewrite (IH (Some i) f Hs); [reflexivity|cbn in Hlen; lia].
Qed.

Lemma pigeon (l : list positive) (n : positive) :
  NoDup l -> (forall i, In i l -> (i < n)%positive) -> length l < Pos.to_nat n.
Proof.
  intros Hnd Hb.
  assert (Hnd' : NoDup (map Pos.to_nat l)).
  { clear Hb. induction Hnd as [|a l Ha Hnd IH]; cbn; constructor; [|exact IH].
    intros Hin. apply in_map_iff in Hin. destruct Hin as [b [Eb Hb]].
    apply Pos2Nat.inj in Eb. now subst. }
  assert (Hincl : incl (map Pos.to_nat l) (seq 1 (Pos.to_nat n - 1))).
  { intros x Hx. apply in_map_iff in Hx. destruct Hx as [i [<- Hi]]. apply Hb in Hi.
    apply in_seq. lia. }
  pose proof (NoDup_incl_length Hnd' Hincl) as Hlen. rewrite map_length, seq_length in Hlen. lia.
Qed.

Lemma ll_values_spec h ll L :
  ll_rep h ll L -> ll_values (h, ll) = (Ok (map snd L), (h, ll)).
Proof.
  intros [Hs Hnd Hh Ht Hz Hb]. unfold ll_values. cbn [fst snd]. rewrite Hh.
  rewrite (walk_seg h None L); [reflexivity|exact Hs|].
  unfold walk_fuel. pose proof (pigeon (ids L) (nxt h) Hnd Hb) as Hp.
  unfold ids in Hp. rewrite map_length in Hp. lia.
Qed.

(** a list representation survives changes elsewhere in the heap *)
Lemma ll_rep_hframe h own h' ll L :
  hframe h own h' -> (forall i, In i (ids L) -> ~ In i own) -> ll_rep h ll L -> ll_rep h' ll L.
Proof.
  intros Hf Hd [Hs Hnd Hh Ht Hz Hb]. constructor; auto.
  - eapply seg_hframe; [exact Hf| |exact Hs]. intros i Hi. split; [now apply Hb|now apply Hd].
  - intros i Hi. apply Hb in Hi. destruct Hf as [Hn _]. lia.
Qed.
