(** C09 proofs: dump-then-parse is the identity on paragraphs with simple keys
    and single-line values, so that histories over such keys and values are in
    the domain [hist_ok] of the history theorems, whatever they do. *)
From Coq Require Import Permutation.
From Verif Require Import Lib.Base Lib.PyStr Gen.PyChars Dict.Common Dict.Heap Dict.Spec
  Dict.ProofsLL Dict.ProofsOS Dict.ProofsD Dict.Check Dict.ProofsW.

(** a field name: non-empty, no ':' or white space or line boundary, not starting with '#' *)
Definition key_char (c : N) : bool := negb (is_key_stop c) && negb (py_islinebreak c).
Definition simple_key (k : str) : bool :=
  match k with [] => false | c :: _ => negb (c =? 35)%N end && forallb key_char k.
(** a value: one line, no surrounding white space (may be empty) *)
Definition simple_val (v : str) : bool :=
  str_eqb (strip_by py_isspace v) v && negb (has_lb v).
Definition simple_kv (kv : str * str) : bool := simple_key (fst kv) && simple_val (snd kv).

Definition line_of (kv : str * str) : str :=
  fst kv ++ 58%N :: match snd kv with [] => [] | _ :: _ => 32%N :: snd kv end.

Definition nolb (l : str) : bool := forallb (fun c => negb (py_islinebreak c)) l.

Lemma has_lb_nolb v : has_lb v = false -> nolb v = true.
Proof.
  unfold has_lb, nolb. induction v as [|c v IH]; cbn [existsb forallb]; [reflexivity|].
  intros H. apply orb_false_iff in H. destruct H as [-> H]. cbn [negb andb]. now apply IH.
Qed.

Lemma simple_val_facts v :
  simple_val v = true -> strip_by py_isspace v = v /\ nolb v = true.
Proof.
  unfold simple_val. intros H. apply andb_true_iff in H. destruct H as [H1 H2].
  apply str_eqb_eq in H1. apply negb_true_iff in H2. split; [exact H1|now apply has_lb_nolb].
Qed.

Lemma simple_key_facts k :
  simple_key k = true ->
  exists c k', k = c :: k' /\ c <> 35%N /\ forallb key_char k = true.
Proof.
  unfold simple_key. destruct k as [|c k']; [discriminate|]. intros H.
  apply andb_true_iff in H. destruct H as [H1 H2]. exists c, k'. split; [reflexivity|]. split; [|exact H2].
  apply negb_true_iff in H1. now apply N.eqb_neq.
Qed.

Lemma key_chars_nostop k : forallb key_char k = true -> forallb (fun c => negb (is_key_stop c)) k = true.
Proof.
  induction k as [|c k IH]; cbn [forallb]; [reflexivity|]. intros H. apply andb_true_iff in H. destruct H as [H1 H2].
  unfold key_char in H1. apply andb_true_iff in H1. destruct H1 as [-> _]. now apply IH.
Qed.
Lemma key_chars_nolb k : forallb key_char k = true -> nolb k = true.
Proof.
  unfold nolb. induction k as [|c k IH]; cbn [forallb]; [reflexivity|]. intros H. apply andb_true_iff in H. destruct H as [H1 H2].
  unfold key_char in H1. apply andb_true_iff in H1. destruct H1 as [_ ->]. now apply IH.
Qed.

Lemma nolb_app a b : nolb (a ++ b) = nolb a && nolb b.
Proof. apply forallb_app. Qed.

Lemma dump_line kv : simple_kv kv = true -> s_dump_entry kv = line_of kv ++ [LF].
Proof.
  destruct kv as [k v]. unfold simple_kv. cbn [fst snd]. intros H. apply andb_true_iff in H. destruct H as [_ Hv].
  apply simple_val_facts in Hv. destruct Hv as [_ Hv]. unfold s_dump_entry, line_of. cbn [fst snd].
  destruct v as [|c v]; [now rewrite <- app_assoc|].
  cbn in Hv. apply andb_true_iff in Hv. destruct Hv as [Hc _].
  destruct (c =? 10)%N eqn:E.
  - apply N.eqb_eq in E. subst c. vm_compute in Hc. discriminate.
  - rewrite <- !app_assoc. reflexivity.
Qed.

Lemma line_nolb kv : simple_kv kv = true -> nolb (line_of kv) = true.
Proof.
  destruct kv as [k v]. unfold simple_kv. cbn [fst snd]. intros H. apply andb_true_iff in H. destruct H as [Hk Hv].
  apply simple_val_facts in Hv. destruct Hv as [_ Hv].
  apply simple_key_facts in Hk. destruct Hk as [c [k' [-> [_ Hk]]]]. apply key_chars_nolb in Hk.
  unfold line_of. cbn [fst snd]. rewrite nolb_app, Hk. cbn [andb].
  destruct v as [|c' v']; [reflexivity|]. change (nolb (58%N :: 32%N :: c' :: v') = true).
  unfold nolb in *. cbn [forallb] in *. rewrite Hv. reflexivity.
Qed.

(** * splitlines on LF-terminated lines *)
Lemma splitlines_aux_line islb (Hlf : islb LF = true) l : forall cur rest,
  forallb (fun c => negb (islb c)) l = true ->
  splitlines_aux islb false (l ++ LF :: rest) cur
  = (rev cur ++ l) :: splitlines_aux islb false rest [].
Proof.
  induction l as [|c l IH]; intros cur rest H.
  - cbn [app splitlines_aux]. rewrite Hlf. rewrite !app_nil_r.
    destruct rest as [|y rest']; [reflexivity|]. reflexivity.
  - cbn [forallb] in H. apply andb_true_iff in H. destruct H as [Hc Hl].
    cbn [app splitlines_aux]. apply negb_true_iff in Hc. rewrite Hc.
    rewrite IH by exact Hl. cbn [rev]. now rewrite <- app_assoc.
Qed.

Lemma splitlines_lines (ls : list str) :
  forallb nolb ls = true ->
  splitlines py_islinebreak false (concat (map (fun l => l ++ [LF]) ls)) = ls.
Proof.
  unfold splitlines. induction ls as [|l ls IH]; cbn [map concat forallb]; intros H; [reflexivity|].
  apply andb_true_iff in H. destruct H as [Hl Hls].
  rewrite <- app_assoc. cbn [app]. rewrite splitlines_aux_line; [|reflexivity|exact Hl].
  cbn [rev app]. f_equal. now apply IH.
Qed.

(** * the line loop *)
Definition good_line (l : str) : bool :=
  negb (startswith [35%N] l) && negb (is_nil l) && negb (is_blank_bytes l).

Lemma key_stop_space c : is_key_stop c = false -> bytes_isspace c = false.
Proof.
  unfold is_key_stop, bytes_isspace. intros H. apply orb_false_iff in H. destruct H as [H H3].
  apply orb_false_iff in H. destruct H as [_ H2]. now rewrite H2, H3.
Qed.

Lemma line_good kv : simple_kv kv = true -> good_line (line_of kv) = true.
Proof.
  destruct kv as [k v]. unfold simple_kv. cbn [fst snd]. intros H. apply andb_true_iff in H. destruct H as [Hk _].
  apply simple_key_facts in Hk. destruct Hk as [c [k' [-> [Hc Hk]]]].
  unfold good_line, line_of. cbn [fst snd app startswith is_nil is_blank_bytes forallb].
  cbn [forallb] in Hk. apply andb_true_iff in Hk. destruct Hk as [Hkc _].
  unfold key_char in Hkc. apply andb_true_iff in Hkc. destruct Hkc as [Hs _]. apply negb_true_iff in Hs.
  rewrite (key_stop_space _ Hs). cbn [andb negb].
  replace (35 =? c)%N with false; [reflexivity|]. symmetry. apply N.eqb_neq. congruence.
Qed.

Lemma filter_all {A} (p : A -> bool) l : forallb p l = true -> filter p l = l.
Proof.
  induction l as [|x l IH]; cbn; [reflexivity|]. intros H. apply andb_true_iff in H. destruct H as [-> H].
  now rewrite IH.
Qed.

Lemma payload_good ls : forallb good_line ls = true -> payload ls = ls.
Proof.
  intros H. unfold payload.
  assert (H1 : forallb (fun l => negb (startswith [35%N] l)) ls = true
               /\ forallb (fun l => negb (is_blank_bytes l)) ls = true
               /\ match ls with [] => True | l :: _ => is_nil l = false /\ is_blank_bytes l = false end).
  { induction ls as [|l ls IH]; cbn [forallb]; [auto|].
    cbn [forallb] in H. apply andb_true_iff in H. destruct H as [Hl Hls].
    unfold good_line in Hl. apply andb_true_iff in Hl. destruct Hl as [Hl Hl3].
    apply andb_true_iff in Hl. destruct Hl as [Hl1 Hl2].
    destruct (IH Hls) as [I1 [I2 _]]. rewrite Hl1, Hl3, I1, I2.
    apply negb_true_iff in Hl2, Hl3. auto. }
  destruct H1 as [F1 [F2 F3]]. rewrite (filter_all _ _ F1).
  destruct ls as [|l ls]; [reflexivity|]. destruct F3 as [N1 N2].
  rewrite dropwhile_head_false by exact N1. rewrite dropwhile_head_false by exact N2.
  unfold takewhile. now rewrite span_forall_nil.
Qed.

Lemma parse_line_of kv : simple_kv kv = true -> parse_line (line_of kv) = Some kv.
Proof.
  destruct kv as [k v]. unfold simple_kv. cbn [fst snd]. intros H. apply andb_true_iff in H. destruct H as [Hk Hv].
  apply simple_val_facts in Hv. destruct Hv as [Hv _].
  apply simple_key_facts in Hk. destruct Hk as [c [k' [-> [_ Hk]]]]. apply key_chars_nostop in Hk.
  unfold parse_line, line_of. cbn [fst snd].
  rewrite span_forall_app; [|exact Hk|reflexivity].
  unfold lstrip_by. rewrite dropwhile_head_false by reflexivity.
  destruct v as [|c' v']; [reflexivity|].
  f_equal. f_equal. rewrite <- Hv at 2. unfold strip_by, lstrip_by.
  change (dropwhile py_isspace (32%N :: c' :: v')) with (dropwhile py_isspace (c' :: v')). reflexivity.
Qed.

Lemma parse_fields_lines d : forall cur,
  forallb simple_kv d = true -> parse_fields (map line_of d) cur = flush cur ++ d.
Proof.
  induction d as [|kv d IH]; intros cur H; cbn [map parse_fields]; [now rewrite app_nil_r|].
  cbn [forallb] in H. apply andb_true_iff in H. destruct H as [Hkv Hd].
  rewrite (parse_line_of _ Hkv). rewrite IH by exact Hd. reflexivity.
Qed.

(** dump-then-parse is the identity *)
Theorem parse_dump_simple d : forallb simple_kv d = true -> parse_text (s_dump d) = d.
Proof.
  intros H. unfold parse_text, s_dump.
  assert (E : map s_dump_entry d = map (fun l => l ++ [LF]) (map line_of d)).
  { rewrite map_map. apply map_ext_in. intros kv Hin. apply dump_line.
    rewrite forallb_forall in H. now apply H. }
  rewrite E, splitlines_lines.
  2:{ rewrite forallb_forall. intros l Hl. apply in_map_iff in Hl. destruct Hl as [kv [<- Hin]].
      apply line_nolb. rewrite forallb_forall in H. now apply H. }
  rewrite payload_good.
  2:{ rewrite forallb_forall. intros l Hl. apply in_map_iff in Hl. destruct Hl as [kv [<- Hin]].
      apply line_good. rewrite forallb_forall in H. now apply H. }
  now rewrite parse_fields_lines.
Qed.

(** * Simple keys and values stay simple along the reference run *)
Section WithLower.
Variable lower : str -> str.

Definition S_kv (kv : str * str) : Prop := simple_kv kv = true.

Lemma S_kv_pair k v : S_kv (k, v) <-> simple_key k = true /\ simple_val v = true.
Proof. unfold S_kv, simple_kv. cbn [fst snd]. apply andb_true_iff. Qed.

Lemma S_set k v d : Forall S_kv d -> S_kv (k, v) -> Forall S_kv (s_set lower k v d).
Proof.
  intros Hd Hkv. induction d as [|[k' v'] d IH]; cbn [s_set]; [now constructor|].
  inversion Hd as [|? ? H1 H2]; subst. destruct (same lower k k').
  - constructor; [|exact H2]. apply S_kv_pair. apply S_kv_pair in H1. apply S_kv_pair in Hkv. tauto.
  - constructor; [exact H1|now apply IH].
Qed.

Lemma S_remove k d : Forall S_kv d -> Forall S_kv (s_remove lower k d).
Proof.
  intros Hd. induction d as [|[k' v'] d IH]; cbn [s_remove]; [constructor|].
  inversion Hd; subst. destruct (same lower k k'); [assumption|]. constructor; [assumption|now apply IH].
Qed.

Lemma S_find k d p : Forall S_kv d -> s_find lower k d = Some p -> S_kv p.
Proof.
  intros Hd. induction d as [|[k' v'] d IH]; cbn [s_find]; [discriminate|].
  inversion Hd; subst. destruct (same lower k k'); [now intros [= <-]|now apply IH].
Qed.

Lemma S_insert_before p r d : Forall S_kv d -> S_kv p -> Forall S_kv (s_insert_before lower p r d).
Proof.
  intros Hd Hp. induction d as [|[k' v'] d IH]; cbn [s_insert_before]; [constructor|].
  inversion Hd; subst. destruct (same lower r k'); repeat constructor; auto.
Qed.

Lemma S_insert_after p r d : Forall S_kv d -> S_kv p -> Forall S_kv (s_insert_after lower p r d).
Proof.
  intros Hd Hp. induction d as [|[k' v'] d IH]; cbn [s_insert_after]; [constructor|].
  inversion Hd; subst. destruct (same lower r k'); repeat constructor; auto.
Qed.

Definition op_simple (x : op) : bool :=
  match x with OSet _ k v => simple_key k && simple_val v | _ => true end.

Lemma S_step1 (d : items) x : Forall S_kv d -> op_simple x = true -> Forall S_kv (snd (s_step1 lower d x)).
Proof.
  intros Hd Hx. destruct x; cbn [s_step1 snd]; try exact Hd.
  - apply S_set; [exact Hd|]. now apply S_kv_pair, andb_true_iff.
  - destruct (s_has lower k d); cbn [snd]; [now apply S_remove|exact Hd].
  - destruct (s_find lower k d) as [p|] eqn:E; cbn [snd]; [|exact Hd].
    constructor; [eapply S_find; eauto|now apply S_remove].
  - destruct (s_find lower k d) as [p|] eqn:E; cbn [snd]; [|exact Hd].
    apply Forall_app. split; [now apply S_remove|]. constructor; [eapply S_find; eauto|constructor].
  - destruct (same lower k r); [exact Hd|].
    destruct (s_find lower k d) as [p|] eqn:E; [|exact Hd].
    destruct (s_find lower r d); cbn [snd]; [|exact Hd].
    apply S_insert_before; [now apply S_remove|eapply S_find; eauto].
  - destruct (same lower k r); [exact Hd|].
    destruct (s_find lower k d) as [p|] eqn:E; [|exact Hd].
    destruct (s_find lower r d); cbn [snd]; [|exact Hd].
    apply S_insert_after; [now apply S_remove|eapply S_find; eauto].
  - eapply Permutation_Forall; [|exact Hd]. symmetry. apply sort_by_perm.
Qed.

Lemma Forall_set_nth {A} (P : A -> Prop) n x l : Forall P l -> P x -> Forall P (set_nth n x l).
Proof.
  intros Hl Hx. unfold set_nth. apply Forall_app. split.
  - apply Forall_forall. intros y Hy. rewrite Forall_forall in Hl. apply Hl.
    rewrite <- (firstn_skipn n l). apply in_app_iff. now left.
  - destruct (skipn n l) as [|y r] eqn:E; [constructor|]. constructor; [exact Hx|].
    apply Forall_forall. intros z Hz. rewrite Forall_forall in Hl. apply Hl.
    rewrite <- (firstn_skipn n l), E. apply in_app_iff. right. now right.
Qed.

Lemma S_step (W : list items) x :
  Forall (Forall S_kv) W -> op_simple x = true -> Forall (Forall S_kv) (snd (s_step lower W x)).
Proof.
  intros HW Hx. unfold s_step. destruct (nth_error W (op_target x)) as [d|] eqn:Hd; [|exact HW].
  assert (Hdd : Forall S_kv d).
  { rewrite Forall_forall in HW. apply HW. eapply nth_error_In; eauto. }
  assert (Hstep : Forall (Forall S_kv)
            (snd (let (r, d') := s_step1 lower d x in (r, set_nth (op_target x) d' W)))).
  { pose proof (S_step1 d x Hdd Hx) as H1. destruct (s_step1 lower d x) as [r d']. cbn [snd] in *.
    now apply Forall_set_nth. }
  destruct x; try exact Hstep; cbn [snd]; apply Forall_app; split; auto.
Qed.

Lemma S_next (W : list items) x :
  Forall (Forall S_kv) W -> op_simple x = true -> Forall (Forall S_kv) (spec_next lower W x).
Proof.
  intros HW Hx. unfold spec_next.
  assert (H : snd (ref_step lower W x (hint x)) = W \/ snd (ref_step lower W x (hint x)) = snd (s_step lower W x)).
  { destruct x; try (right; reflexivity). cbn [hint ref_step].
    destruct (is_ok (validate_input v)); [right; reflexivity|].
    destruct (has_linebreak v); [left|right]; reflexivity. }
  destruct H as [-> | ->]; [exact HW|now apply S_step].
Qed.

Lemma hist_ok_simple_gen xs : forall W : list items,
  Forall (Forall S_kv) W -> forallb op_simple xs = true -> hist_ok lower W xs = true.
Proof.
  induction xs as [|x xs IH]; intros W HW Hxs; [reflexivity|].
  cbn [forallb] in Hxs. apply andb_true_iff in Hxs. destruct Hxs as [Hx Hxs].
  cbn [hist_ok]. apply andb_true_iff. split; [|apply IH; [now apply S_next|exact Hxs]].
  destruct x; try reflexivity. cbn [reparse_ok].
  destruct (nth_error W o) as [d|] eqn:Hd; [|reflexivity].
  apply items_eqb_eq. apply parse_dump_simple. apply forallb_forall. intros kv Hin.
  rewrite Forall_forall in HW. apply nth_error_In in Hd. apply HW in Hd.
  rewrite Forall_forall in Hd. now apply Hd.
Qed.

Definition start_simple (s : start) : bool :=
  match s with
  | SEmpty => true
  | SDict its => forallb simple_kv its
  | SParsed _ its => forallb simple_kv its
  end.

Lemma S_of_items l : forallb simple_kv l = true -> Forall S_kv (s_of_items lower l).
Proof.
  intros H. unfold s_of_items.
  assert (G : forall acc, Forall S_kv acc ->
            Forall S_kv (fold_left (fun d kv => s_set lower (fst kv) (snd kv) d) l acc)).
  { induction l as [|[k v] l IH]; intros acc Ha; cbn [fold_left]; [exact Ha|].
    cbn [forallb] in H. apply andb_true_iff in H. destruct H as [Hkv Hl].
    apply IH; [exact Hl|]. now apply S_set. }
  apply G. constructor.
Qed.

(** every history over simple keys and values is in the domain *)
Theorem hist_ok_simple s xs :
  start_simple s = true -> forallb op_simple xs = true -> hist_ok lower (s_start lower s) xs = true.
Proof.
  intros Hs Hxs. apply hist_ok_simple_gen; [|exact Hxs].
  destruct s as [|l|t l]; cbn [s_start start_simple] in *; repeat constructor; now apply S_of_items.
Qed.

(** a simple value passes validate_input *)
Lemma simple_valid kv : simple_kv kv = true -> valid_b kv = true.
Proof.
  unfold simple_kv, valid_b. intros H. apply andb_true_iff in H. destruct H as [_ Hv].
  unfold simple_val in Hv. apply andb_true_iff in Hv. destruct Hv as [_ Hv]. apply negb_true_iff in Hv.
  now rewrite (validate_no_linebreak _ Hv).
Qed.

Theorem model_refines_simple alpha s xs :
  start_ok s = true -> start_simple s = true -> forallb op_simple xs = true ->
  holds_frames lower alpha s xs (model_frames lower alpha s xs) = true.
Proof. intros H1 H2 H3. apply model_refines; [exact H1|now apply hist_ok_simple]. Qed.

End WithLower.
