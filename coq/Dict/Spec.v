(** C09 SPEC — the simple reference list model: a paragraph is an association
    list [(key as first spelled, value)], in order; two keys name the same field
    iff their lower-case forms are equal.  Independent of Heap.v (no heap, no
    table, no nodes).  [lower] is [str.lower], a parameter. *)
From Verif Require Import Lib.Base Dict.Common.

Section Spec.
Variable lower : str -> str.

Definition same (a b : str) : bool := str_eqb (lower a) (lower b).

Fixpoint s_find (k : str) (d : items) : option (str * str) :=
  match d with
  | [] => None
  | (k', v) :: d' => if same k k' then Some (k', v) else s_find k d'
  end.
Definition s_has (k : str) (d : items) : bool := is_some (s_find k d).

(** assignment: an existing field keeps its place and its spelling *)
Fixpoint s_set (k v : str) (d : items) : items :=
  match d with
  | [] => [(k, v)]
  | (k', v') :: d' => if same k k' then (k', v) :: d' else (k', v') :: s_set k v d'
  end.

Fixpoint s_remove (k : str) (d : items) : items :=
  match d with
  | [] => []
  | (k', v') :: d' => if same k k' then d' else (k', v') :: s_remove k d'
  end.

Fixpoint s_insert_before (p : str * str) (r : str) (d : items) : items :=
  match d with
  | [] => []
  | (k', v') :: d' =>
      if same r k' then p :: (k', v') :: d' else (k', v') :: s_insert_before p r d'
  end.

Fixpoint s_insert_after (p : str * str) (r : str) (d : items) : items :=
  match d with
  | [] => []
  | (k', v') :: d' =>
      if same r k' then (k', v') :: p :: d' else (k', v') :: s_insert_after p r d'
  end.

(** "Field: value", no trailing blank after the colon when the value is empty
    or starts on the next line. *)
Definition s_dump_entry (kv : str * str) : str :=
  let (k, v) := kv in
  k ++ [58%N] ++
  (match v with [] => [] | c :: _ => if (c =? 10)%N then [] else [32%N] end) ++ v ++ [10%N].
Definition s_dump (d : items) : str := concat (map s_dump_entry d).

(** one operation on one paragraph *)
Definition s_step1 (d : items) (x : op) : out * items :=
  match x with
  | OSet _ k v => (RNone, s_set k v d)
  | OGet _ k => (match s_find k d with Some (_, v) => RStr v | None => RErr KeyError end, d)
  | ODel _ k => if s_has k d then (RNone, s_remove k d) else (RErr KeyError, d)
  | OContains _ k => (RBool (s_has k d), d)
  | OLen _ => (RNat (length d), d)
  | OIter _ => (RKeys (map fst d), d)
  | OFirst _ k =>
      match s_find k d with
      | Some p => (RNone, p :: s_remove k d)
      | None => (RErr KeyError, d)
      end
  | OLast _ k =>
      match s_find k d with
      | Some p => (RNone, s_remove k d ++ [p])
      | None => (RErr KeyError, d)
      end
  | OBefore _ k r =>
      if same k r then (RErr ValueError, d)
      else match s_find k d, s_find r d with
           | Some p, Some _ => (RNone, s_insert_before p r (s_remove k d))
           | _, _ => (RErr KeyError, d)
           end
  | OAfter _ k r =>
      if same k r then (RErr ValueError, d)
      else match s_find k d, s_find r d with
           | Some p, Some _ => (RNone, s_insert_after p r (s_remove k d))
           | _, _ => (RErr KeyError, d)
           end
  | OSort _ sk => (RNone, sort_by (fun p => sort_key lower sk (fst p)) d)
  | ODump _ => (RStr (s_dump d), d)
  | OCopy _ | OReparse _ => (RNone, d)
  end.

(** a history acts on a list of paragraphs; copy and dump+reparse append an
    equal, independent paragraph *)
Definition s_step (w : list items) (x : op) : out * list items :=
  match nth_error w (op_target x) with
  | None => (RErr IndexError, w)
  | Some d =>
      match x with
      | OCopy _ | OReparse _ => (RNone, w ++ [d])
      | _ => let (r, d') := s_step1 d x in (r, set_nth (op_target x) d' w)
      end
  end.

Definition s_of_items (its : list (str * str)) : items :=
  fold_left (fun d kv => s_set (fst kv) (snd kv) d) its [].

Definition s_start (s : start) : list items :=
  match s with
  | SEmpty => [[]]
  | SDict its => [s_of_items its]
  | SParsed _ its => [s_of_items its]
  end.

Fixpoint s_run (w : list items) (xs : list op) : list items :=
  match xs with
  | [] => w
  | x :: xs' => s_run (snd (s_step w x)) xs'
  end.

Definition s_view (alphabet : list str) (d : items) : view :=
  mkView d (length d) (map (fun k => s_has k d) alphabet) (s_dump d).

End Spec.
