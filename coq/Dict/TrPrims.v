(** C09 — primitives of the regenerated pointer-level code (Gen/TrLinkedList.v, HEAP MODE of harness/py2coq.py).

    The translator renders a value of class LinkedListNode as a reference [id] into the model's heap
    (Dict/Heap.v), which is threaded as hidden state; [x.attr] / [x.attr = v] on a reference become the heap
    lookups / updates below.  Each one is DEFINED from the model's own heap functions ([load], [store],
    [set_prev], [set_next], [halloc]): a read or a write through a dangling reference is the model's
    [Err OtherError] (Python has no dangling references; the representation invariant excludes them).
    Definitions only. *)
From Coq Require Import FMapPositive.
From Verif Require Import Lib.Base Lib.PyStr Lib.Tr Dict.Common Dict.Heap.

(** [weakref.ref(node)] / calling the weak reference: the model's plain id (Heap.v: every node of a list is strongly
    reachable from head_node, so the weak reference is never dead while it can be followed). *)
Definition wref := id.
Definition trp_weakref (i : id) : wref := i.
Definition trp_deref (r : wref) : option id := Some r.

(** a model heap computation that only reads / that only writes *)
Definition trp_read {A} (m : M heap A) (h : heap) : result A := fst (m h).
Definition trp_write (m : M heap unit) (h : heap) : result heap :=
  match m h with (Ok _, h') => Ok h' | (Err e, _) => Err e end.

(** slots of a LinkedListNode: [_previous_node], [next_node], [value] *)
Definition trp_get_prev (h : heap) (i : id) : result (option wref) := trp_read (mdo n <- load i; ret (n_prev n)) h.
Definition trp_get_next (h : heap) (i : id) : result (option id) := trp_read (mdo n <- load i; ret (n_next n)) h.
Definition trp_get_value (h : heap) (i : id) : result str := trp_read (mdo n <- load i; ret (n_value n)) h.

Definition set_value (i : id) (v : str) : M heap unit :=
  mdo n <- load i; store i (mkNode (n_prev n) (n_next n) v).

Definition trp_set_prev (h : heap) (i : id) (p : option wref) : result heap := trp_write (set_prev i p) h.
Definition trp_set_next (h : heap) (i : id) (x : option id) : result heap := trp_write (set_next i x) h.
Definition trp_set_value (h : heap) (i : id) (v : str) : result heap := trp_write (set_value i v) h.

(** [object.__new__(LinkedListNode)]: the model's fresh allocation (of a blank cell; the translated __init__ then
    assigns every slot) *)
Definition trp_alloc (h : heap) : id * heap := (nxt h, halloc [] h).

(** the reference is live: a boolean guard of some tie theorems (implied by the model's invariant for every node
    of a list, ProofsLL.seg_get) *)
Definition hlive (h : heap) (i : id) : bool := is_some (hget h i).

(** an Optional reference passed where the callee's parameter is a reference (flow typing that the translator does
    not do: [self.remove_node(self.tail_node)] after [if self.tail_node is None: raise]): None is OUTSIDE what is
    rendered faithfully — OutOfFuel; the tie lemmas prove that it never happens. *)
Definition trp_assume_some {A} (o : option A) : result A :=
  match o with Some a => Ok a | None => Err OutOfFuel end.

(** * OrderedSet.  An item is a [_strI] object: a str whose [__hash__] / [__eq__] are those of its lower-cased text
    (the model keys [__table] by [lower item], Heap.v); [__table] is the model's own association list. *)
Definition stri := str.
Definition ostable := tbl id.
Definition trp_stri_eqb (lower : str -> str) (a b : stri) : bool := str_eqb (lower a) (lower b).

(** [item in self.__table], [self.__table[item]] (KeyError), [self.__table[item] = node], [del self.__table[item]] (KeyError) *)
Definition trp_tbl_mem (lower : str -> str) (t : ostable) (k : stri) : bool := t_mem (lower k) t.
Definition trp_tbl_get (lower : str -> str) (t : ostable) (k : stri) : result id :=
  match t_get (lower k) t with Some i => Ok i | None => Err KeyError end.
Definition trp_tbl_set (lower : str -> str) (t : ostable) (k : stri) (v : id) : unit * ostable :=
  (tt, t_set (lower k) v t).
Definition trp_tbl_del (lower : str -> str) (t : ostable) (k : stri) : result (unit * ostable) :=
  if t_mem (lower k) t then Ok (tt, t_del (lower k) t) else Err KeyError.
