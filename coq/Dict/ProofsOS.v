(** C09 proofs, layer 2: association-list vocabulary, the Python dict used as
    [__table], and OrderedSet over the linked list. *)
From Coq Require Import FMapPositive Permutation.
From Verif Require Import Lib.Base Dict.Common Dict.Heap Dict.ProofsLL.

(** * First element with a given key *)
Section Assoc.
Context {B : Type} (key : B -> str).

Fixpoint afind (kl : str) (l : list B) : option B :=
  match l with
  | [] => None
  | x :: l' => if str_eqb kl (key x) then Some x else afind kl l'
  end.

Lemma str_eqb_neq a b : a <> b -> str_eqb a b = false.
Proof. intros H. destruct (str_eqb a b) eqn:E; [|reflexivity]. apply str_eqb_eq in E. contradiction. Qed.

Lemma str_eqb_sym a b : str_eqb a b = str_eqb b a.
Proof.
  destruct (str_eqb a b) eqn:E.
  - apply str_eqb_eq in E. subst. symmetry. apply str_eqb_refl.
  - symmetry. apply str_eqb_neq. intros ->. rewrite str_eqb_refl in E. discriminate.
Qed.

Lemma afind_some kl l x : afind kl l = Some x -> In x l /\ key x = kl.
Proof.
  induction l as [|y l IH]; cbn; [discriminate|].
  destruct (str_eqb kl (key y)) eqn:E.
  - intros H; inversion H; subst. apply str_eqb_eq in E. split; [now left|now symmetry].
  - intros H. destruct (IH H). split; [now right|assumption].
Qed.

Lemma afind_none kl l : afind kl l = None <-> ~ In kl (map key l).
Proof.
  induction l as [|y l IH]; cbn; [tauto|].
  destruct (str_eqb kl (key y)) eqn:E.
  - apply str_eqb_eq in E. split; [discriminate|]. intros H. exfalso. apply H. left. now symmetry.
  - rewrite IH. split; [|tauto]. intros H [H1|H1]; [|tauto].
    subst. rewrite str_eqb_refl in E. discriminate.
Qed.

Lemma afind_split kl l x :
  afind kl l = Some x -> exists a b, l = a ++ x :: b /\ key x = kl /\ afind kl a = None.
Proof.
  induction l as [|y l IH]; cbn; [discriminate|].
  destruct (str_eqb kl (key y)) eqn:E.
  - intros H; inversion H; subst. apply str_eqb_eq in E. exists [], l. auto.
  - intros H. destruct (IH H) as [a [b [-> [Hk Hn]]]]. exists (y :: a), b.
    split; [reflexivity|]. split; [exact Hk|]. cbn. now rewrite E.
Qed.

Lemma afind_app kl a b :
  afind kl (a ++ b) = match afind kl a with Some x => Some x | None => afind kl b end.
Proof. induction a as [|y a IH]; cbn; [reflexivity|]. destruct (str_eqb kl (key y)); auto. Qed.

Lemma afind_mid kl a x b :
  NoDup (map key (a ++ x :: b)) ->
  afind kl (a ++ x :: b) = if str_eqb kl (key x) then Some x else afind kl (a ++ b).
Proof.
  intros Hnd. rewrite !afind_app. cbn [afind].
  destruct (afind kl a) as [y|] eqn:Ea; [|reflexivity].
  destruct (str_eqb kl (key x)) eqn:E; [|reflexivity].
  exfalso. apply str_eqb_eq in E. apply afind_some in Ea. destruct Ea as [Hin Hk].
  rewrite map_app in Hnd. cbn in Hnd. apply NoDup_remove_2 in Hnd. apply Hnd.
  apply in_app_iff. left. rewrite <- E, <- Hk. now apply in_map.
Qed.

Lemma afind_iff kl l x :
  NoDup (map key l) -> (afind kl l = Some x <-> In x l /\ key x = kl).
Proof.
  intros Hnd. split; [apply afind_some|]. intros [Hin Hk].
  apply in_split in Hin. destruct Hin as [a [b ->]].
  rewrite afind_mid by exact Hnd. subst kl. now rewrite str_eqb_refl.
Qed.

Lemma afind_perm kl l l' :
  NoDup (map key l) -> Permutation l l' -> afind kl l = afind kl l'.
Proof.
  intros Hnd Hp.
  assert (Hnd' : NoDup (map key l')).
  { eapply Permutation_NoDup; [|exact Hnd]. now apply Permutation_map. }
  destruct (afind kl l) as [x|] eqn:E.
  - symmetry. apply afind_iff; [exact Hnd'|]. apply afind_some in E. destruct E as [Hin Hk].
    split; [|exact Hk]. eapply Permutation_in; eauto.
  - destruct (afind kl l') as [y|] eqn:E'; [|reflexivity].
    apply afind_some in E'. destruct E' as [Hin Hk].
    assert (afind kl l = Some y) as Hy; [|congruence].
    apply afind_iff; [exact Hnd|]. split; [|exact Hk]. eapply Permutation_in; [symmetry|]; eauto.
Qed.
End Assoc.

Lemma afind_map {A B} (f : A -> B) (key : B -> str) kl l :
  afind key kl (map f l) = option_map f (afind (fun a => key (f a)) kl l).
Proof. induction l as [|y l IH]; cbn; [reflexivity|]. destruct (str_eqb kl (key (f y))); auto. Qed.

Lemma afind_ext {B} (k1 k2 : B -> str) kl l :
  (forall x, k1 x = k2 x) -> afind k1 kl l = afind k2 kl l.
Proof. intros H. induction l as [|y l IH]; cbn; [reflexivity|]. now rewrite H, IH. Qed.

(** * The Python dict *)
Section Tbl.
Context {V : Type}.
Implicit Types t : tbl V.

Lemma t_get_set k k' v t :
  t_get k (t_set k' v t) = if str_eqb k k' then Some v else t_get k t.
Proof.
  induction t as [|[k0 v0] t IH]; cbn.
  - destruct (str_eqb k k'); reflexivity.
  - destruct (str_eqb k' k0) eqn:E0; cbn.
    + apply str_eqb_eq in E0. subst k0. destruct (str_eqb k k'); reflexivity.
    + rewrite IH. destruct (str_eqb k k0) eqn:E1; [|reflexivity].
      apply str_eqb_eq in E1. subst k0. rewrite str_eqb_sym, E0. reflexivity.
Qed.

Lemma t_get_none k t : t_get k t = None <-> ~ In k (map fst t).
Proof.
  induction t as [|[k0 v0] t IH]; cbn; [tauto|].
  destruct (str_eqb k k0) eqn:E.
  - apply str_eqb_eq in E. split; [discriminate|]. intros H. exfalso. apply H. now left.
  - rewrite IH. split; [|tauto]. intros H [H1|H1]; [|tauto]. subst. rewrite str_eqb_refl in E. discriminate.
Qed.

Lemma t_get_del k k' t :
  NoDup (map fst t) ->
  t_get k (t_del k' t) = if str_eqb k k' then None else t_get k t.
Proof.
  induction t as [|[k0 v0] t IH]; cbn; intros Hnd.
  - destruct (str_eqb k k'); reflexivity.
  - inversion Hnd as [|? ? Hn0 Hnd']; subst.
    destruct (str_eqb k' k0) eqn:E0; cbn.
    + apply str_eqb_eq in E0. subst k0. destruct (str_eqb k k') eqn:E1; [|reflexivity].
      apply str_eqb_eq in E1. subst k'. now apply t_get_none.
    + rewrite IH by exact Hnd'. destruct (str_eqb k k0) eqn:E1; [|reflexivity].
      apply str_eqb_eq in E1. subst k0. rewrite str_eqb_sym, E0. reflexivity.
Qed.

Lemma t_set_keys k v t :
  map fst (t_set k v t) = if t_mem k t then map fst t else map fst t ++ [k].
Proof.
  unfold t_mem. induction t as [|[k0 v0] t IH]; cbn; [reflexivity|].
  destruct (str_eqb k k0) eqn:E; cbn; [reflexivity|]. rewrite IH.
  destruct (t_get k t); reflexivity.
Qed.

Lemma t_set_nodup k v t : NoDup (map fst t) -> NoDup (map fst (t_set k v t)).
Proof.
  intros Hnd. rewrite t_set_keys. unfold t_mem. destruct (t_get k t) eqn:E; [exact Hnd|].
  apply t_get_none in E. apply NoDup_rev in Hnd.
  rewrite <- (rev_involutive (map fst t ++ [k])). apply NoDup_rev. rewrite rev_app_distr. cbn.
  constructor; [|exact Hnd]. now rewrite <- in_rev.
Qed.

Lemma t_del_incl k t x : In x (map fst (t_del k t)) -> In x (map fst t).
Proof.
  induction t as [|[k0 v0] t IH]; cbn; [tauto|].
  destruct (str_eqb k k0); cbn; [tauto|]. intros [H|H]; [now left|right; now apply IH].
Qed.

Lemma t_del_nodup k t : NoDup (map fst t) -> NoDup (map fst (t_del k t)).
Proof.
  induction t as [|[k0 v0] t IH]; cbn; intros Hnd; [constructor|].
  inversion Hnd as [|? ? Hn0 Hnd']; subst.
  destruct (str_eqb k k0); cbn; [exact Hnd'|]. constructor; [|now apply IH].
  intros Hin. apply Hn0. eapply t_del_incl; eauto.
Qed.
End Tbl.

(** * OrderedSet *)
Section WithLower.
Variable lower : str -> str.

Definition keyL (p : id * str) : str := lower (snd p).

Record os_rep (h : heap) (os : oset) (L : list (id * str)) : Prop := mkOSRep {
  or_ll : ll_rep h (os_order os) L;
  or_keys : NoDup (map keyL L);
  or_tbl : forall kl, t_get kl (os_table os) = option_map fst (afind keyL kl L);
  or_tnd : NoDup (map fst (os_table os));
}.

Lemma os_rep_empty h : os_rep h os_empty [].
Proof. constructor; cbn; auto using ll_rep_empty; constructor. Qed.

Lemma on_order_eq {A} (m : M lst A) h os r h' ll' :
  m (h, os_order os) = (r, (h', ll')) ->
  on_order m (h, os) = (r, (h', mkOS (os_table os) ll')).
Proof. intros E. unfold on_order, zoom. cbn. now rewrite E. Qed.

Lemma os_rep_hframe h own h' os L :
  hframe h own h' -> (forall i, In i (ids L) -> ~ In i own) -> os_rep h os L -> os_rep h' os L.
Proof.
  intros Hf Hd [R K T N]. constructor; auto. eapply ll_rep_hframe; eauto.
Qed.

Lemma os_contains_spec h os L item :
  os_rep h os L ->
  os_contains lower item (h, os) = (Ok (is_some (afind keyL (lower item) L)), (h, os)).
Proof.
  intros R. unfold os_contains, mbind, get_table, ret, t_mem. cbn.
  rewrite (or_tbl _ _ _ R). destruct (afind keyL (lower item) L); reflexivity.
Qed.

Lemma os_lookup_found h os l1 i s l2 item :
  os_rep h os (l1 ++ (i, s) :: l2) -> lower s = lower item ->
  os_lookup lower item (h, os) = (Ok i, (h, os)).
Proof.
  intros R Hk. unfold os_lookup, mbind, get_table. cbn.
  rewrite (or_tbl _ _ _ R), (afind_mid keyL) by exact (or_keys _ _ _ R).
  change (keyL (i, s)) with (lower s). rewrite Hk, str_eqb_refl. reflexivity.
Qed.

Lemma os_lookup_missing h os L item :
  os_rep h os L -> afind keyL (lower item) L = None ->
  os_lookup lower item (h, os) = (Err KeyError, (h, os)).
Proof.
  intros R Hn. unfold os_lookup, mbind, get_table. cbn.
  rewrite (or_tbl _ _ _ R), Hn. reflexivity.
Qed.

Lemma os_add_present h os L item :
  os_rep h os L -> afind keyL (lower item) L <> None ->
  os_add lower item (h, os) = (Ok tt, (h, os)).
Proof.
  intros R Hn. unfold os_add. rewrite (mbind_ok _ _ _ _ _ (os_contains_spec _ _ _ item R)).
  destruct (afind keyL (lower item) L); [reflexivity|congruence].
Qed.

Lemma nodup_snoc {A} (l : list A) x : NoDup l -> ~ In x l -> NoDup (l ++ [x]).
Proof.
  intros Hnd Hn. apply NoDup_rev in Hnd.
  rewrite <- (rev_involutive (l ++ [x])). apply NoDup_rev. rewrite rev_app_distr. cbn.
  constructor; [|exact Hnd]. now rewrite <- in_rev.
Qed.

Lemma os_add_absent h os L item :
  os_rep h os L -> afind keyL (lower item) L = None ->
  exists h' os',
    os_add lower item (h, os) = (Ok tt, (h', os'))
    /\ os_rep h' os' (L ++ [(nxt h, item)])
    /\ nxt h' = Pos.succ (nxt h)
    /\ hframe h (ids L) h'.
Proof.
  intros R Hn. pose proof R as [RL K T N].
  destruct (ll_append_spec h (os_order os) L item RL) as [h' [ll' [E [R' [Nx F]]]]].
  unfold os_add. rewrite (mbind_ok _ _ _ _ _ (os_contains_spec _ _ _ item R)). rewrite Hn. cbn [is_some].
  rewrite (mbind_ok _ _ _ _ _ (on_order_eq _ _ _ _ _ _ E)).
  cbn. eexists _, _. split; [reflexivity|]. split; [|split; [exact Nx|exact F]].
  constructor; cbn [os_order os_table].
  - exact R'.
  - rewrite map_app. cbn. apply nodup_snoc; [exact K|]. now apply afind_none in Hn.
  - intros kl. rewrite t_get_set, T, afind_app. cbn [afind]. change (keyL (nxt h, item)) with (lower item).
    destruct (str_eqb kl (lower item)) eqn:E1.
    + apply str_eqb_eq in E1. subst kl. rewrite Hn. reflexivity.
    + destruct (afind keyL kl L); reflexivity.
  - now apply t_set_nodup.
Qed.

Lemma os_remove_found h os l1 i s l2 item :
  os_rep h os (l1 ++ (i, s) :: l2) -> lower s = lower item ->
  exists h' os',
    os_remove lower item (h, os) = (Ok tt, (h', os'))
    /\ os_rep h' os' (l1 ++ l2)
    /\ nxt h' = nxt h
    /\ hframe h (ids (l1 ++ (i, s) :: l2)) h'.
Proof.
  intros R Hk. pose proof R as [RL K T N].
  destruct (ll_remove_node_hframe h (os_order os) l1 i s l2 RL) as [h' [ll' [E [R' [Hi [Nx F]]]]]].
  unfold os_remove. rewrite (mbind_ok _ _ _ _ _ (os_lookup_found _ _ _ _ _ _ _ R Hk)).
  rewrite (mbind_ok _ _ _ _ _ (eq_refl : get_table _ = (Ok _, _))). cbn [snd].
  rewrite (mbind_ok _ _ _ _ _ (eq_refl : put_table _ _ = (Ok _, _))). cbn [fst snd os_order].
  rewrite (on_order_eq _ h (mkOS _ (os_order os)) _ _ _ E). cbn [os_table].
  eexists _, _. split; [reflexivity|]. split; [|split; [exact Nx|exact F]].
  constructor; cbn [os_order os_table].
  - exact R'.
  - rewrite map_app in *. cbn in K. now apply NoDup_remove_1 in K.
  - intros kl. rewrite t_get_del by exact N. rewrite T, (afind_mid keyL) by exact K.
    change (keyL (i, s)) with (lower s). rewrite Hk. destruct (str_eqb kl (lower item)) eqn:E1; [|reflexivity].
    apply str_eqb_eq in E1. subst kl.
    assert (Hn : afind keyL (lower item) (l1 ++ l2) = None); [|now rewrite Hn].
    apply afind_none. rewrite map_app in *. cbn [map] in K. apply NoDup_remove_2 in K.
    change (keyL (i, s)) with (lower s) in K. now rewrite Hk in K.
  - now apply t_del_nodup.
Qed.

(** what a re-inserter does to the list [a ++ b] *)
Definition reins_ok (reins : str -> M lst id) (a b : list (id * str)) : Prop :=
  forall h ll s, ll_rep h ll (a ++ b) ->
    exists h' ll',
      reins s (h, ll) = (Ok (nxt h), (h', ll'))
      /\ ll_rep h' ll' (a ++ (nxt h, s) :: b)
      /\ nxt h' = Pos.succ (nxt h)
      /\ hframe h (ids (a ++ b)) h'.

Lemma os_reorder_spec h os l1 i s l2 item reins a b :
  os_rep h os (l1 ++ (i, s) :: l2) -> lower s = lower item ->
  a ++ b = l1 ++ l2 -> reins_ok reins a b ->
  exists h' os',
    os_reorder lower item reins (h, os) = (Ok tt, (h', os'))
    /\ os_rep h' os' (a ++ (nxt h, s) :: b)
    /\ nxt h' = Pos.succ (nxt h)
    /\ hframe h (ids (l1 ++ (i, s) :: l2)) h'.
Proof.
  intros R Hk Hab Hre. pose proof R as [RL K T N].
  destruct (ll_remove_node_hframe h (os_order os) l1 i s l2 RL) as [h1 [ll1 [E1 [R1 [Hi [N1 F1]]]]]].
  rewrite <- Hab in R1.
  destruct (Hre h1 ll1 s R1) as [h2 [ll2 [E2 [R2 [N2 F2]]]]].
  unfold os_reorder. rewrite (mbind_ok _ _ _ _ _ (os_lookup_found _ _ _ _ _ _ _ R Hk)).
  rewrite (mbind_ok _ _ _ _ _ (on_order_eq _ _ _ _ _ _ E1)).
  rewrite (mbind_ok _ _ (h1, _) (mkNode None None s) (h1, mkOS (os_table os) ll1)).
  2:{ unfold on_heap_s, zoom. cbn [fst snd]. rewrite (load_ok _ _ _ Hi). reflexivity. }
  cbn [n_value].
  rewrite (mbind_ok _ _ _ _ _ (on_order_eq _ h1 (mkOS _ ll1) _ _ _ E2)). cbn [os_table].
  cbn. rewrite N1 in *. eexists _, _. split; [reflexivity|].
  split; [|split; [exact N2|]].
  - constructor; cbn [os_order os_table].
    + exact R2.
    + rewrite map_app in K. cbn [map] in K.
      pose proof (NoDup_remove_1 _ _ _ K) as K1. pose proof (NoDup_remove_2 _ _ _ K) as K2.
      rewrite <- map_app, <- Hab, map_app in K1, K2.
      rewrite map_app. cbn [map].
      apply NoDup_Add with (a := keyL (nxt h, s)) (l := map keyL a ++ map keyL b); [apply Add_app|].
      split; [exact K1|exact K2].
    + intros kl. rewrite t_get_set, T.
      rewrite map_app in K. cbn [map] in K.
      assert (K' : NoDup (map keyL (a ++ (nxt h, s) :: b))).
      { pose proof (NoDup_remove_1 _ _ _ K) as K1. pose proof (NoDup_remove_2 _ _ _ K) as K2.
        rewrite <- map_app, <- Hab, map_app in K1, K2. rewrite map_app. cbn [map].
        apply NoDup_Add with (a := keyL (nxt h, s)) (l := map keyL a ++ map keyL b); [apply Add_app|].
        split; [exact K1|exact K2]. }
      rewrite (afind_mid keyL kl l1) by (rewrite map_app; exact K).
      rewrite (afind_mid keyL kl a) by exact K'.
      change (keyL (i, s)) with (lower s). change (keyL (nxt h, s)) with (lower s). rewrite Hk, Hab.
      destruct (str_eqb kl (lower item)); reflexivity.
    + now apply t_set_nodup.
  - eapply hframe_trans; [exact F1|exact F2|].
    intros j _ Hin. rewrite Hab in Hin. rewrite in_ids_app in *. cbn [ids map fst In]. tauto.
Qed.

Lemma reins_append L : reins_ok ll_append L [].
Proof.
  intros h ll s R. rewrite app_nil_r in *. apply ll_append_spec. exact R.
Qed.
Lemma reins_head L : reins_ok ll_insert_at_head [] L.
Proof. intros h ll s R. apply (ll_insert_at_head_spec h ll L s R). Qed.
Lemma reins_before a r sr b : reins_ok (fun x => ll_insert_before x r) a ((r, sr) :: b).
Proof. intros h ll s R. apply (ll_insert_before_spec h ll a r sr b s R). Qed.
Lemma reins_after a r sr b : reins_ok (fun x => ll_insert_after x r) (a ++ [(r, sr)]) b.
Proof.
  intros h ll s R. rewrite <- !app_assoc in *. cbn [app] in *.
  apply (ll_insert_after_spec h ll a r sr b s R).
Qed.

Lemma os_values_spec h os L :
  os_rep h os L -> os_values (h, os) = (Ok (map snd L), (h, os)).
Proof.
  intros R. unfold os_values. rewrite (on_order_eq _ _ _ _ _ _ (ll_values_spec _ _ _ (or_ll _ _ _ R))).
  destruct os; reflexivity.
Qed.

Lemma os_len_spec h os L : os_rep h os L -> os_len (h, os) = (Ok (length L), (h, os)).
Proof. intros R. unfold os_len. cbn. now rewrite (lr_size _ _ _ (or_ll _ _ _ R)). Qed.

(** OrderedSet(iterable) for an iterable without repeated (lowered) keys *)
Lemma os_extend_spec ks : forall h os L,
  os_rep h os L -> NoDup (map keyL L ++ map lower ks) ->
  exists h' os' L2,
    os_extend lower ks (h, os) = (Ok tt, (h', os'))
    /\ os_rep h' os' (L ++ L2)
    /\ map snd L2 = ks
    /\ hframe h (ids L) h'
    /\ (forall j, In j (ids L2) -> (nxt h <= j)%positive).
Proof.
  induction ks as [|k ks IH]; intros h os L R Hnd.
  - exists h, os, []. cbn. rewrite app_nil_r. split; [reflexivity|]. split; [exact R|]. split; [reflexivity|].
    split; [apply hframe_refl|]. intros j [].
  - assert (Hn : afind keyL (lower k) L = None).
    { apply afind_none. intros Hin. cbn in Hnd. apply NoDup_remove_2 in Hnd. apply Hnd.
      apply in_app_iff. now left. }
    destruct (os_add_absent h os L k R Hn) as [h1 [os1 [E1 [R1 [N1 F1]]]]].
    destruct (IH h1 os1 (L ++ [(nxt h, k)]) R1) as [h2 [os2 [L2 [E2 [R2 [M2 [F2 B2]]]]]]].
    { rewrite map_app. cbn [map]. change (keyL (nxt h, k)) with (lower k). rewrite <- app_assoc. exact Hnd. }
    exists h2, os2, ((nxt h, k) :: L2).
    cbn [os_extend]. rewrite (mbind_ok _ _ _ _ _ E1). rewrite E2.
    split; [reflexivity|]. split; [rewrite <- app_assoc in R2; exact R2|].
    split; [cbn; now rewrite M2|]. split.
    + eapply hframe_trans; [exact F1|exact F2|]. intros j Hj Hin. rewrite in_ids_app in Hin.
      cbn in Hin. destruct Hin as [Hin|[<-|[]]]; [exact Hin|lia].
    + intros j [<-|Hin]; [cbn [fst]; lia|]. apply B2 in Hin. lia.
Qed.

End WithLower.
