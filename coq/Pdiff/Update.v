(** Model of debian_support.update_file and what it calls:
    download_file, replace_file, read_lines_sha1/sha256, PackageFile.__iter__
    (the index parser), and — imported from Pdiff/Ed.v — patches_from_ed_script /
    patch_lines.  No proofs here: the model must still run when a proof breaks.

    What is a parameter and what is transcribed
    -------------------------------------------
    * The world outside the function is an environment [env]: what
      [urlopen(remote.diff/Index)] yields (absent, or the lines [readline()]
      returns, each decodable or not), what [download_gunzip_lines] yields for
      every patch name and for the full file (lines, or the exception kind of
      the download layer), and which of the private hash modules exist.
      urllib and gzip are NOT modelled.
    * The file system is the two-slot state [{f_local; f_new}] (local and
      local + '.new').  Every effect of replace_file consumes one slot of the
      fault schedule [s_eff] ([true] = this effect raises OSError); the unlink
      of the finally block fails iff [s_unlink].
    * The hash is the Section variable [H] (one function per index flavour),
      uninterpreted.  In Python it is sha(b"".join(lines)).
    * Every unpack / lookup of the code is an explicit [Err] branch or the
      download fallback, exactly as the code has it now (after the fix: commit
      "unusable index -> full download"). *)
From Coq Require Import String.
From Verif Require Import Lib.Base Lib.PyStr Lib.Dec Lib.PySlice Pdiff.Ed.

Inductive hkind := SHA1 | SHA256.

Definition field := (str * str)%type.          (* (name, contents) *)
Definition para := list field.

(** The index as update_file sees it after [list(PackageFile(...))]. *)
Inductive index :=
| IndexAbsent                         (* urlopen raised IOError *)
| IndexUnparseable                    (* PackageFile raised ParseError *)
| IndexFields (ps : list para).

(** The index as the network delivers it: nothing, or the byte lines that
    [readline()] returns, [None] standing for a line that is not valid UTF-8. *)
Inductive index_src :=
| IdxAbsent
| IdxLines (ls : list (option str)).

Record fsstate := mkfs {
  f_local : option (list str);          (* content of [local], as written/read lines *)
  f_new : option (list str) }.          (* content of [local + '.new'] *)

Record sched := mksched {
  s_eff : list bool;                    (* open, write_1 .. write_n, close, rename — in execution order *)
  s_unlink : bool }.                    (* os.unlink in the finally block fails *)

Record env := mkenv {
  e_has_sha1 : bool;                    (* import _sha1 succeeds *)
  e_has_sha256 : bool;                  (* import _sha256 succeeds *)
  e_has_sha2 : bool;                    (* import _sha2 succeeds (Python >= 3.12) *)
  e_index : index_src;
  e_patch : str -> result (list str);   (* download_gunzip_lines(remote + '.diff/' + name + '.gz') *)
  e_full : result (list str) }.         (* download_gunzip_lines(remote + '.gz') *)

(** Field names. *)
Definition prefix_of (k : hkind) : str :=
  match k with SHA1 => dec "SHA1"%string | SHA256 => dec "SHA256"%string end.
Definition f_current (k : hkind) : str := prefix_of k ++ dec "-Current"%string.
Definition f_history (k : hkind) : str := prefix_of k ++ dec "-History"%string.
Definition f_patches (k : hkind) : str := prefix_of k ++ dec "-Patches"%string.

(** * PackageFile *)

Definition is_alpha (c : N) : bool :=
  ((65 <=? c)%N && (c <=? 90)%N) || ((97 <=? c)%N && (c <=? 122)%N).
(** [A-Za-z0-9-_] *)
Definition is_name_char (c : N) : bool :=
  is_alpha c || is_ascii_digit c || (c =? 45)%N || (c =? 95)%N.

(** [line.strip(' \t') == '\n'] *)
Definition is_blank_line (line : str) : bool :=
  str_eqb (strip_by (in_chars [32; 9]%N) line) [10%N].

Section Update.
Variable is_space : N -> bool.        (* \s of a str pattern (= str.isspace) *)
Variable is_linebreak : N -> bool.    (* str.splitlines() boundaries *)
Variable is_digit : N -> bool.        (* \d of the str pattern _patch_re *)
Variable digit_val : N -> N.
Variable H : hkind -> list str -> str.   (* read_lines_sha1 / read_lines_sha256 *)

(** re_field = ^([A-Za-z][A-Za-z0-9-_]+):(?:\s*(.*?))?\s*$ on one line (a line
    has LF only at its end).  The name is the maximal run of name characters
    (no shorter run can be followed by ':'); group 2 is the rest with
    whitespace stripped on both sides: greedy \s* eats the leading run, the
    lazy group stops at the last non-space character, \s*$ takes the tail
    including the final LF.  Group 2 is never None once "name:" matched. *)
Definition match_field (line : str) : option field :=
  match line with
  | c :: r =>
      if is_alpha c then
        let (nm, rest) := span is_name_char r in
        match nm, rest with
        | _ :: _, 58%N :: v => Some (c :: nm, strip_by is_space v)
        | _, _ => None
        end
      else None
  | [] => None
  end.

(** re_continuation = ^\s+(?:\.|(\S.*?)\s* )$  (blank before the last parenthesis added: Coq comment syntax); result = [ncontents]
    ("" when the group is None). *)
Definition match_cont (line : str) : option str :=
  let (w, body) := span is_space line in
  match w, body with
  | _ :: _, _ :: _ =>
      if str_eqb body [46%N] || str_eqb body [46; 10]%N then Some []
      else Some (rstrip_by is_space body)
  | _, _ => None
  end.

(** PackageFile.__iter__ consumed by list(): one pass over the lines.
    [paras]: paragraphs yielded so far (reversed); [pkg]: fields of the current
    paragraph (reversed); [cur]: the field whose continuation lines are being
    read (the inner [while True]). *)
Fixpoint pf_loop (ls : list (option str)) (paras : list para) (pkg : para)
    (cur : option field) : result (list para) :=
  let eof :=
    let pkg' := match cur with Some f => f :: pkg | None => pkg end in
    Ok (rev (match pkg' with [] => paras | _ => rev pkg' :: paras end)) in
  match ls with
  | [] => eof
  | None :: _ => Err ValueError                  (* UnicodeDecodeError in _aux_read_line *)
  | Some [] :: _ => eof                          (* readline() returned '' *)
  | Some line :: ls' =>
      let top (pkg : para) :=
        if is_blank_line line then
          match pkg with
          | [] => Err ParseError                 (* expected package record *)
          | _ => pf_loop ls' (rev pkg :: paras) [] None
          end
        else
          match match_field line with
          | None => Err ParseError               (* expected package field *)
          | Some f => pf_loop ls' paras pkg (Some f)
          end in
      match cur with
      | Some (nm, ct) =>
          match match_cont line with
          | Some nc => pf_loop ls' paras pkg (Some (nm, ct ++ 10%N :: nc))
          | None => top ((nm, ct) :: pkg)
          end
      | None => top pkg
      end
  end.

Definition parse_pf (ls : list (option str)) : result (list para) := pf_loop ls [] [] None.

(** try: index_fields = list(PackageFile(urlopen(...)))
    except ParseError / except IOError -> download_file; anything else propagates. *)
Definition read_index (src : index_src) : result index :=
  match src with
  | IdxAbsent => Ok IndexAbsent
  | IdxLines ls =>
      match parse_pf ls with
      | Ok ps => Ok (IndexFields ps)
      | Err ParseError => Ok IndexUnparseable
      | Err e => Err e
      end
  end.

(** * re.compile(r'\s+').split(s) : pieces between maximal whitespace runs,
    empty pieces at the ends included. *)
Fixpoint resplit_aux (s : str) (cur : str) (skipping : bool) : list str :=
  match s with
  | [] => [rev cur]
  | c :: s' =>
      if is_space c then
        if skipping then resplit_aux s' [] true
        else rev cur :: resplit_aux s' [] true
      else resplit_aux s' (c :: cur) false
  end.
Definition resplit (s : str) : list str := resplit_aux s [] false.

(** * replace_file *)

Definition next (s : list bool) : bool * list bool :=
  match s with [] => (false, []) | b :: s' => (b, s') end.

(** for l in lines: new_file.write(l) — (all written?, what '.new' holds, rest of the schedule) *)
Fixpoint write_all (ls buf : list str) (s : list bool) : bool * list str * list bool :=
  match ls with
  | [] => (true, buf, s)
  | l :: ls' =>
      let (fail, s') := next s in
      if fail then (false, buf, s') else write_all ls' (buf ++ [l]) s'
  end.

(** finally: if os.path.exists(local_new): os.unlink(local_new)
    (an exception raised here replaces the pending one) *)
Definition finally_unlink (r : result unit) (fs : fsstate) (sc : sched) : result unit * fsstate :=
  match f_new fs with
  | None => (r, fs)
  | Some _ => if s_unlink sc then (Err IOError, fs) else (r, mkfs (f_local fs) None)
  end.

Definition replace_file (lines : list str) (fs : fsstate) (sc : sched) : result unit * fsstate :=
  let (f_open, s1) := next (s_eff sc) in
  if f_open then finally_unlink (Err IOError) fs sc          (* open(local_new, 'w+') failed *)
  else
    let '(ok, buf, s2) := write_all lines [] s1 in
    let fs2 := mkfs (f_local fs) (Some buf) in
    let (f_close, s3) := next s2 in                           (* with-exit closes in every case *)
    if negb ok || f_close then finally_unlink (Err IOError) fs2 sc
    else
      let (f_ren, _) := next s3 in
      if f_ren then finally_unlink (Err IOError) fs2 sc       (* os.rename failed *)
      else finally_unlink (Ok tt) (mkfs (Some buf) None) sc.

Definition download_file (e : env) (fs : fsstate) (sc : sched) : result (list str) * fsstate :=
  match e_full e with
  | Err x => (Err x, fs)
  | Ok lines =>
      let (r, fs') := replace_file lines fs sc in
      (match r with Ok _ => Ok lines | Err x => Err x end, fs')
  end.

(** * The field loop *)

Record lstate := mkst {
  st_remote : option str;               (* remote_hash *)
  st_apply : list str;                  (* patches_to_apply, in order *)
  st_hashes : list (str * str) }.       (* patch_hashes: newest binding first *)

Inductive loop_out :=
| Cont (st : lstate)
| UpToDate                              (* return lines *)
| Unusable.                             (* return download_file(remote, local) *)

Definition dict_get (name : str) (d : list (str * str)) : option str :=
  match List.find (fun kv => str_eqb (fst kv) name) d with
  | Some kv => Some (snd kv)
  | None => None
  end.
Definition dict_has (name : str) (d : list (str * str)) : bool :=
  match dict_get name d with Some _ => true | None => false end.

Definition is_nil {A} (l : list A) : bool := match l with [] => true | _ => false end.

(** the -History entries *)
Fixpoint hist_entries (local_hash : str) (es : list str) (acc : list str) : option (list str) :=
  match es with
  | [] => Some acc
  | e :: es' =>
      if is_nil e then hist_entries local_hash es' acc
      else match resplit e with
           | [hist_hash; _; patch_name] =>
               if negb (is_nil acc) || str_eqb hist_hash local_hash
               then hist_entries local_hash es' (acc ++ [patch_name])
               else hist_entries local_hash es' acc
           | _ => None
           end
  end.

(** the -Patches entries *)
Fixpoint patch_entries (es : list str) (d : list (str * str)) : option (list (str * str)) :=
  match es with
  | [] => Some d
  | e :: es' =>
      if is_nil e then patch_entries es' d
      else match resplit e with
           | [patch_hash; _; patch_name] => patch_entries es' ((patch_name, patch_hash) :: d)
           | _ => None
           end
  end.

Definition step_field (k : hkind) (local_hash : str) (st : lstate) (f : field) : loop_out :=
  let (name, value) := f in
  if str_eqb name (f_current k) then
    match resplit value with
    | [rh; _] =>
        if str_eqb local_hash rh then UpToDate
        else Cont (mkst (Some rh) (st_apply st) (st_hashes st))
    | _ => Unusable
    end
  else if str_eqb name (f_history k) then
    match hist_entries local_hash (splitlines is_linebreak false value) (st_apply st) with
    | Some acc => Cont (mkst (st_remote st) acc (st_hashes st))
    | None => Unusable
    end
  else if str_eqb name (f_patches k) then
    match patch_entries (splitlines is_linebreak false value) (st_hashes st) with
    | Some d => Cont (mkst (st_remote st) (st_apply st) d)
    | None => Unusable
    end
  else Cont st.

Fixpoint run_fields (k : hkind) (local_hash : str) (fs : list field) (st : lstate) : loop_out :=
  match fs with
  | [] => Cont st
  | f :: fs' =>
      match step_field k local_hash st f with
      | Cont st' => run_fields k local_hash fs' st'
      | out => out
      end
  end.

(** * The patch loop *)
Fixpoint apply_patches (k : hkind) (e : env) (d : list (str * str)) (names : list str)
    (lines : list str) : result (list str) :=
  match names with
  | [] => Ok lines
  | name :: names' =>
      match e_patch e name with
      | Err x => Err x
      | Ok contents =>
          match dict_get name d with
          | None => Err KeyError           (* excluded by the all(name in patch_hashes) test *)
          | Some h =>
              if negb (str_eqb (H k contents) h) then Err ValueError      (* patch was garbled *)
              else
                match apply_script is_digit digit_val lines contents with
                | Err x => Err x
                | Ok lines' => apply_patches k e d names' lines'
                end
          end
      end
  end.

(** new_sha1 / new_sha256 exist or are the NotImplementedError stubs *)
Definition hash_avail (e : env) (k : hkind) : bool :=
  match k with
  | SHA1 => e_has_sha1 e
  | SHA256 => e_has_sha256 e || e_has_sha2 e
  end.

Definition choose_kind (fields : list field) : hkind :=
  if existsb (fun f => str_eqb (fst f) (f_current SHA256)) fields then SHA256 else SHA1.

(** update_file once the index has been read *)
Definition update_with_index (e : env) (idx : index) (lines : list str)
    (fs : fsstate) (sc : sched) : result (list str) * fsstate :=
  match idx with
  | IndexAbsent | IndexUnparseable => download_file e fs sc
  | IndexFields paras =>
      let fields := concat paras in
      let k := choose_kind fields in
      if negb (hash_avail e k) then (Err NotImplementedError, fs) else
      let local_hash := H k lines in
      match run_fields k local_hash fields (mkst None [] []) with
      | UpToDate => (Ok lines, fs)
      | Unusable => download_file e fs sc
      | Cont st =>
          match st_remote st with
          | None => download_file e fs sc
          | Some remote_hash =>
              if is_nil (st_apply st)
                 || negb (forallb (fun n => dict_has n (st_hashes st)) (st_apply st))
              then download_file e fs sc
              else
                match apply_patches k e (st_hashes st) (st_apply st) lines with
                | Err x => (Err x, fs)
                | Ok lines' =>
                    if negb (str_eqb (H k lines') remote_hash) then (Err ValueError, fs)
                    else
                      let (r, fs') := replace_file lines' fs sc in
                      (match r with Ok _ => Ok lines' | Err x => Err x end, fs')
                end
          end
      end
  end.

Definition update_file (e : env) (fs : fsstate) (sc : sched) : result (list str) * fsstate :=
  match f_local fs with
  | None => download_file e fs sc                 (* open(local) raised IOError *)
  | Some lines =>
      match read_index (e_index e) with
      | Err x => (Err x, fs)
      | Ok idx => update_with_index e idx lines fs sc
      end
  end.

End Update.
