From Verif Require Import Lib.Base Lib.Dec Lib.PySlice Pdiff.Ed Pdiff.EdSpec.

Section Proofs.
Variable is_digit : N -> bool.
Variable digit_val : N -> N.

(** What the theorems need to know about the digit class of the pattern. *)
Definition digit_class_ok : Prop :=
  (forall c, is_ascii_digit c = true -> is_digit c = true /\ digit_val c = (c - 48)%N)
  /\ is_digit 44 = false /\ is_digit 97 = false /\ is_digit 99 = false
  /\ is_digit 100 = false.

Hypothesis Hdc : digit_class_ok.

Notation span_digits := (span_digits is_digit).
Notation match_cmd := (match_cmd is_digit digit_val).
Notation parse := (parse is_digit digit_val).
Notation apply_script := (apply_script is_digit digit_val).

Lemma span_digits_app ds x r :
  forallb is_ascii_digit ds = true -> is_digit x = false ->
  span_digits (ds ++ x :: r) = (ds, x :: r).
Proof.
  destruct Hdc as [Hd _].
  induction ds as [|d ds IH]; simpl; intros Hall Hx.
  - now rewrite Hx.
  - apply andb_true_iff in Hall. destruct Hall as [H1 H2].
    destruct (Hd d H1) as [-> _]. now rewrite IH.
Qed.

Lemma horner_ascii acc ds :
  forallb is_ascii_digit ds = true ->
  horner digit_val acc ds = horner ascii_digit_val acc ds.
Proof.
  destruct Hdc as [Hd _].
  revert acc. induction ds as [|d ds IH]; simpl; intros acc Hall; [reflexivity|].
  apply andb_true_iff in Hall. destruct Hall as [H1 H2].
  destruct (Hd d H1) as [_ ->]. unfold ascii_digit_val at 2. now apply IH.
Qed.

Lemma horner_print n : horner digit_val 0 (print_dec n) = n.
Proof.
  rewrite horner_ascii by apply is_digit_print_dec. apply parse_print_dec.
Qed.

Definition cmd_char_ok (c : N) : Prop := c = 97%N \/ c = 99%N \/ c = 100%N.

Lemma cmd_char_not_digit c : cmd_char_ok c -> is_digit c = false.
Proof.
  destruct Hdc as (_ & _ & Ha & Hc & Hd). intros [->|[->| ->]]; assumption.
Qed.

Lemma cmd_char_is c : cmd_char_ok c -> is_cmd_char c = true.
Proof. intros [->|[->| ->]]; reflexivity. Qed.

Lemma match_cmd_single n c :
  cmd_char_ok c ->
  match_cmd (print_dec n ++ [c; LF]) = Some (n, None, c).
Proof.
  intros Hc. unfold match_cmd.
  rewrite span_digits_app by (try apply is_digit_print_dec; now apply cmd_char_not_digit).
  pose proof (print_dec_nonempty n) as Hne.
  destruct (print_dec n) as [|d ds] eqn:E; [congruence|]. rewrite <- E.
  assert (c <> 44%N) as Hc44 by (destruct Hc as [->|[->| ->]]; discriminate).
  destruct c as [|p]; [destruct Hc as [?|[?|?]]; discriminate|].
  rewrite cmd_char_is by assumption. cbn [at_dollar LF andb].
  rewrite horner_print.
  destruct Hc as [E1|[E1|E1]]; inversion E1; subst; reflexivity.
Qed.

Lemma match_cmd_range n m c :
  cmd_char_ok c ->
  match_cmd (print_dec n ++ [44%N] ++ print_dec m ++ [c; LF]) = Some (n, Some m, c).
Proof.
  intros Hc. unfold match_cmd. cbn [app].
  destruct Hdc as (_ & H44 & _).
  rewrite span_digits_app by (try apply is_digit_print_dec; assumption).
  pose proof (print_dec_nonempty n) as Hne.
  destruct (print_dec n) as [|d ds] eqn:E; [congruence|]. rewrite <- E.
  rewrite span_digits_app by (try apply is_digit_print_dec; now apply cmd_char_not_digit).
  pose proof (print_dec_nonempty m) as Hne2.
  destruct (print_dec m) as [|d2 ds2] eqn:E2; [congruence|]. rewrite <- E2.
  rewrite cmd_char_is by assumption. cbn [at_dollar LF andb].
  now rewrite !horner_print.
Qed.

Lemma match_cmd_addr wide n m c :
  cmd_char_ok c ->
  match_cmd (render_addr wide n m ++ [c; LF]) =
    Some (N.of_nat n,
          (if (n =? m)%nat && negb wide then None else Some (N.of_nat m)), c).
Proof.
  intros Hc. unfold render_addr.
  destruct ((n =? m)%nat && negb wide).
  - now apply match_cmd_single.
  - rewrite <- !app_assoc. now apply match_cmd_range.
Qed.

(** * Reading a text block *)

Lemma text_line_ok_spec l :
  text_line_ok l = true -> l <> [] /\ is_terminator l = false.
Proof.
  unfold text_line_ok, is_terminator. intros H.
  apply andb_true_iff in H. destruct H as [H H3].
  apply andb_true_iff in H. destruct H as [H1 H2].
  split.
  - intros ->. discriminate.
  - apply negb_true_iff in H2, H3. now rewrite H2, H3.
Qed.

Lemma parse_block f l racc txt rest :
  forallb text_line_ok txt = true ->
  parse (InBlk f l racc) (txt ++ [46; LF]%N :: rest) =
    (do ps <- parse Top rest; Ok ((f, l, rev racc ++ txt) :: ps)).
Proof.
  revert racc. induction txt as [|t txt IH]; intros racc Hall.
  - cbn [app]. cbn [Ed.parse]. cbn [is_terminator str_eqb list_eqb LF N.eqb Pos.eqb andb orb].
    now rewrite app_nil_r.
  - cbn [forallb] in Hall. apply andb_true_iff in Hall. destruct Hall as [H1 H2].
    apply text_line_ok_spec in H1. destruct H1 as [Hne Hterm].
    cbn [app Ed.parse]. destruct t as [|c t]; [congruence|].
    rewrite Hterm. rewrite IH by assumption.
    cbn [rev]. now rewrite <- app_assoc.
Qed.

(** * A rendered command parses to the patch it denotes *)

Definition patch_of (c : edcmd) : patch :=
  match c with
  | EdA n txt => (Z.of_nat n, Z.of_nat n, txt)
  | EdD n m => (Z.of_nat n - 1, Z.of_nat m, [])
  | EdC n m txt => (Z.of_nat n - 1, Z.of_nat m, txt)
  end%Z.

Lemma Z_of_N_of_nat n : Z.of_N (N.of_nat n) = Z.of_nat n.
Proof. lia. Qed.

Lemma parse_render_cmd wide c rest :
  cmd_text_ok c = true ->
  (match c with EdD n m | EdC n m _ => n <= m | _ => True end) ->
  parse Top (render_cmd wide c ++ rest) =
    (do ps <- parse Top rest; Ok (patch_of c :: ps)).
Proof.
  intros Htxt Hnm. destruct c as [n txt|n m|n m txt]; cbn [render_cmd].
  - cbn [app Ed.parse]. rewrite match_cmd_single by (left; reflexivity).
    cbn [N.eqb Pos.eqb]. rewrite <- app_assoc. cbn [app].
    rewrite parse_block by assumption. cbn [rev app patch_of].
    now rewrite Z_of_N_of_nat.
  - cbn [app Ed.parse]. rewrite match_cmd_addr by (right; right; reflexivity).
    cbn [N.eqb Pos.eqb patch_of]. rewrite !Z_of_N_of_nat.
    destruct ((n =? m)%nat && negb wide) eqn:E; [|now rewrite ?Z_of_N_of_nat].
    apply andb_true_iff in E. destruct E as [E _]. apply Nat.eqb_eq in E. subst m.
    replace (Z.of_nat n - 1 + 1)%Z with (Z.of_nat n) by lia. reflexivity.
  - cbn [app Ed.parse]. rewrite match_cmd_addr by (right; left; reflexivity).
    cbn [N.eqb Pos.eqb patch_of]. rewrite !Z_of_N_of_nat.
    rewrite <- app_assoc. cbn [app].
    destruct ((n =? m)%nat && negb wide) eqn:E.
    + apply andb_true_iff in E. destruct E as [E _]. apply Nat.eqb_eq in E. subst m.
      rewrite parse_block by assumption. cbn [rev app].
      replace (Z.of_nat n - 1 + 1)%Z with (Z.of_nat n) by lia. reflexivity.
    + rewrite parse_block by assumption. now rewrite ?Z_of_N_of_nat.
Qed.

Definition cmd_addr_ordered (c : edcmd) : bool :=
  match c with EdD n m | EdC n m _ => (n <=? m)%nat | _ => true end.

Lemma parse_render wide cs rest :
  forallb cmd_text_ok cs = true ->
  forallb cmd_addr_ordered cs = true ->
  parse Top (render wide cs ++ rest) =
    (do ps <- parse Top rest; Ok (map patch_of cs ++ ps)).
Proof.
  induction cs as [|c cs IH]; intros H1 H2.
  - cbn. destruct (parse Top rest); reflexivity.
  - cbn [forallb] in H1, H2.
    apply andb_true_iff in H1. destruct H1 as [H1a H1b].
    apply andb_true_iff in H2. destruct H2 as [H2a H2b].
    unfold render. cbn [flat_map]. rewrite <- app_assoc.
    rewrite parse_render_cmd; [|assumption|].
    + fold (render wide cs). rewrite IH by assumption.
      destruct (parse Top rest); reflexivity.
    + destruct c; cbn in H2a; try exact I; now apply Nat.leb_le.
Qed.

(** * One patch = one ed step *)

Lemma patch_step buf c b :
  ed_step buf c = Some b ->
  (let '(f, l, args) := patch_of c in slice_assign buf f l args) = b.
Proof.
  destruct c as [n txt|n m|n m txt]; cbn [ed_step patch_of].
  - destruct (Nat.leb_spec n (length buf)); [|discriminate]. intros [= <-].
    now rewrite slice_assign_in_range by lia.
  - destruct (Nat.leb_spec 1 n); [|discriminate].
    destruct (Nat.leb_spec n m); [|discriminate].
    destruct (Nat.leb_spec m (length buf)); [|discriminate]. cbn [andb]. intros [= <-].
    replace (Z.of_nat n - 1)%Z with (Z.of_nat (n - 1)) by lia.
    now rewrite slice_assign_in_range by lia.
  - destruct (Nat.leb_spec 1 n); [|discriminate].
    destruct (Nat.leb_spec n m); [|discriminate].
    destruct (Nat.leb_spec m (length buf)); [|discriminate]. cbn [andb]. intros [= <-].
    replace (Z.of_nat n - 1)%Z with (Z.of_nat (n - 1)) by lia.
    now rewrite slice_assign_in_range by lia.
Qed.

Lemma ed_step_ordered buf c b : ed_step buf c = Some b -> cmd_addr_ordered c = true.
Proof.
  destruct c as [n txt|n m|n m txt]; cbn [ed_step cmd_addr_ordered]; auto.
  - destruct (1 <=? n)%nat, (n <=? m)%nat; cbn; auto; discriminate.
  - destruct (1 <=? n)%nat, (n <=? m)%nat; cbn; auto; discriminate.
Qed.

Lemma ed_run_ordered cs : forall buf b,
  ed_run buf cs = Some b -> forallb cmd_addr_ordered cs = true.
Proof.
  induction cs as [|c cs IH]; intros buf b H; [reflexivity|].
  cbn [ed_run] in H. destruct (ed_step buf c) as [b1|] eqn:E; [|discriminate].
  cbn [forallb]. rewrite (ed_step_ordered _ _ _ E). cbn. eapply IH; eassumption.
Qed.

Lemma patch_lines_ed_run cs : forall buf b,
  ed_run buf cs = Some b -> patch_lines buf (map patch_of cs) = b.
Proof.
  induction cs as [|c cs IH]; intros buf b H.
  - cbn in *. congruence.
  - cbn [ed_run] in H. destruct (ed_step buf c) as [b1|] eqn:E; [|discriminate].
    cbn [map]. unfold patch_lines. cbn [fold_left].
    pose proof (patch_step _ _ _ E) as Hp.
    destruct (patch_of c) as [[f l] args]. rewrite Hp. now apply IH.
Qed.

Theorem script_matches_ed wide cs buf b :
  forallb cmd_text_ok cs = true ->
  ed_run buf cs = Some b ->
  apply_script buf (render wide cs) = Ok b.
Proof.
  intros Htxt Hrun. unfold Ed.apply_script.
  rewrite <- (app_nil_r (render wide cs)).
  rewrite parse_render; [|assumption|eapply ed_run_ordered; eassumption].
  cbn [Ed.parse bind]. rewrite app_nil_r.
  f_equal. now apply patch_lines_ed_run.
Qed.

(** * Malformed scripts *)

Theorem bad_command_rejected wide cs bad rest buf :
  forallb cmd_text_ok cs = true ->
  forallb cmd_addr_ordered cs = true ->
  match_cmd bad = None ->
  apply_script buf (render wide cs ++ bad :: rest) = Err ValueError.
Proof.
  intros H1 H2 Hbad. unfold Ed.apply_script.
  rewrite parse_render by assumption.
  cbn [Ed.parse]. now rewrite Hbad.
Qed.

Theorem append_with_range_rejected wide cs n m rest buf :
  forallb cmd_text_ok cs = true ->
  forallb cmd_addr_ordered cs = true ->
  apply_script buf
    (render wide cs ++ (print_dec n ++ [44%N] ++ print_dec m ++ [97; LF]%N) :: rest)
  = Err ValueError.
Proof.
  intros H1 H2. unfold Ed.apply_script.
  rewrite parse_render by assumption.
  cbn [Ed.parse]. rewrite match_cmd_range by (left; reflexivity). reflexivity.
Qed.

Lemma parse_block_unterminated f l racc txt :
  forallb (fun t => negb (is_terminator t)) txt = true ->
  parse (InBlk f l racc) txt = Err ValueError.
Proof.
  revert racc. induction txt as [|t txt IH]; intros racc Hall; [reflexivity|].
  cbn [forallb] in Hall. apply andb_true_iff in Hall. destruct Hall as [H1 H2].
  apply negb_true_iff in H1. cbn [Ed.parse]. destruct t; [reflexivity|].
  rewrite H1. now apply IH.
Qed.

(** A text block (of an append or change command) that never reaches its
    terminating "." is an error, whatever precedes it. *)
Theorem unterminated_block_rejected wide cs n m c txt buf :
  forallb cmd_text_ok cs = true ->
  forallb cmd_addr_ordered cs = true ->
  forallb (fun t => negb (is_terminator t)) txt = true ->
  (c = 97%N /\ n = m /\ wide = false) \/ c = 99%N ->
  apply_script buf (render wide cs ++ (render_addr wide n m ++ [c; LF]) :: txt)
  = Err ValueError.
Proof.
  intros H1 H2 Htxt Hc. unfold Ed.apply_script.
  rewrite parse_render by assumption.
  cbn [Ed.parse].
  destruct Hc as [(Hc & Hnm & Hw)|Hc]; subst.
  - rewrite match_cmd_addr by (left; reflexivity).
    rewrite Nat.eqb_refl. cbn [negb andb N.eqb Pos.eqb].
    now rewrite parse_block_unterminated.
  - rewrite match_cmd_addr by (right; left; reflexivity).
    cbn [N.eqb Pos.eqb].
    now rewrite parse_block_unterminated.
Qed.

End Proofs.

(** * Alignments: the descending script of any alignment maps old to new *)

Lemma ed_step_hunk P d i S :
  seg_ok (Hunk d i) = true ->
  ed_step (P ++ d ++ S)
    (match d, i with
     | [], _ => EdA (length P) i
     | _, [] => EdD (length P + 1) (length P + length d)
     | _, _ => EdC (length P + 1) (length P + length d) i
     end) = Some (P ++ i ++ S).
Proof.
  intros Hok.
  assert (Hf : firstn (length P) (P ++ d ++ S) = P) by apply firstn_length_app.
  assert (Hs : skipn (length P + length d) (P ++ d ++ S) = S).
  { rewrite app_assoc, <- app_length. apply skipn_length_app. }
  destruct d as [|d0 d].
  - cbn [ed_step]. cbn [app length] in *. rewrite Nat.add_0_r in Hs.
    rewrite app_length. destruct (Nat.leb_spec (length P) (length P + length S)); [|lia].
    now rewrite Hf, Hs.
  - destruct i as [|i0 i].
    + cbn [ed_step]. rewrite !app_length.
      destruct (Nat.leb_spec 1 (length P + 1)); [|lia].
      destruct (Nat.leb_spec (length P + 1) (length P + length (d0 :: d))); [|cbn [length] in *; lia].
      destruct (Nat.leb_spec (length P + length (d0 :: d)) (length P + (length (d0 :: d) + length S))); [|lia].
      cbn [andb]. replace (length P + 1 - 1) with (length P) by lia.
      now rewrite Hf, Hs.
    + cbn [ed_step]. rewrite !app_length.
      destruct (Nat.leb_spec 1 (length P + 1)); [|lia].
      destruct (Nat.leb_spec (length P + 1) (length P + length (d0 :: d))); [|cbn [length] in *; lia].
      destruct (Nat.leb_spec (length P + length (d0 :: d)) (length P + (length (d0 :: d) + length S))); [|lia].
      cbn [andb]. replace (length P + 1 - 1) with (length P) by lia.
      now rewrite Hf, Hs.
Qed.

Lemma script_of_from_run al : forall P S acc,
  forallb seg_ok al = true ->
  ed_run (P ++ old_of al ++ S) (script_of_from (length P) al acc)
  = ed_run (P ++ new_of al ++ S) acc.
Proof.
  induction al as [|s al IH]; intros P S acc Hok; [reflexivity|].
  cbn [forallb] in Hok. apply andb_true_iff in Hok. destruct Hok as [Hs Hal].
  destruct s as [ls|d i]; cbn [old_of new_of script_of_from].
  - rewrite <- !app_assoc. rewrite !(app_assoc P ls). rewrite <- app_length.
    now apply IH.
  - match goal with
    | |- ed_run _ (script_of_from _ _ (?c :: _)) = _ =>
        pose proof (IH (P ++ d) S (c :: acc) Hal) as IH'
    end.
    rewrite app_length in IH'. rewrite <- !app_assoc in *. rewrite IH'.
    cbn [ed_run]. rewrite ed_step_hunk by assumption. reflexivity.
Qed.

Theorem alignment_script_exact al :
  forallb seg_ok al = true ->
  ed_run (old_of al) (script_of al) = Some (new_of al).
Proof.
  intros Hok. unfold script_of.
  pose proof (script_of_from_run al [] [] [] Hok) as H.
  cbn [app length] in H. rewrite !app_nil_r in H. exact H.
Qed.

Lemma script_of_from_text_ok al : forall pos acc,
  forallb seg_ok al = true -> forallb cmd_text_ok acc = true ->
  forallb cmd_text_ok (script_of_from pos al acc) = true.
Proof.
  induction al as [|s al IH]; intros pos acc Hok Hacc; [exact Hacc|].
  cbn [forallb] in Hok. apply andb_true_iff in Hok. destruct Hok as [Hs Hal].
  destruct s as [ls|d i]; cbn [script_of_from]; [now apply IH|].
  apply IH; [assumption|]. cbn [forallb]. rewrite Hacc, andb_true_r.
  cbn [seg_ok] in Hs. apply andb_true_iff in Hs. destruct Hs as [_ Hi].
  destruct d, i; cbn [cmd_text_ok]; auto.
Qed.
