(** Independent reference: ed(1) semantics of the a/c/d commands on 1-based
    addresses, and alignments (edit scripts) between two files. *)
From Verif Require Import Lib.Base Lib.Dec.

Inductive edcmd :=
| EdA (n : nat) (txt : list str)          (* na : insert txt after line n (0 = top) *)
| EdD (n m : nat)                         (* n,md *)
| EdC (n m : nat) (txt : list str).       (* n,mc *)

Definition ed_step (buf : list str) (c : edcmd) : option (list str) :=
  match c with
  | EdA n txt =>
      if n <=? length buf then Some (firstn n buf ++ txt ++ skipn n buf) else None
  | EdD n m =>
      if (1 <=? n) && (n <=? m) && (m <=? length buf)
      then Some (firstn (n - 1) buf ++ skipn m buf) else None
  | EdC n m txt =>
      if (1 <=? n) && (n <=? m) && (m <=? length buf)
      then Some (firstn (n - 1) buf ++ txt ++ skipn m buf) else None
  end.

Fixpoint ed_run (buf : list str) (cs : list edcmd) : option (list str) :=
  match cs with
  | [] => Some buf
  | c :: cs => match ed_step buf c with Some b => ed_run b cs | None => None end
  end.

(** A text line that an ed text block can carry: non-empty and not the terminator. *)
Definition text_line_ok (l : str) : bool :=
  negb (str_eqb l []) && negb (str_eqb l [46; 10]%N) && negb (str_eqb l [46]%N).

Definition cmd_text_ok (c : edcmd) : bool :=
  match c with
  | EdA _ txt | EdC _ _ txt => forallb text_line_ok txt
  | EdD _ _ => true
  end.

(** Concrete syntax.  [wide] forces the two-address form even when n = m;
    diff -e never does, ed accepts both. *)
Definition LF : N := 10.
Definition render_addr (wide : bool) (n m : nat) : str :=
  if (n =? m)%nat && negb wide then print_dec (N.of_nat n)
  else print_dec (N.of_nat n) ++ [44%N] ++ print_dec (N.of_nat m).

Definition render_cmd (wide : bool) (c : edcmd) : list str :=
  match c with
  | EdA n txt => (print_dec (N.of_nat n) ++ [97; LF]%N) :: txt ++ [[46; LF]%N]
  | EdD n m => [render_addr wide n m ++ [100; LF]%N]
  | EdC n m txt => (render_addr wide n m ++ [99; LF]%N) :: txt ++ [[46; LF]%N]
  end.

Definition render (wide : bool) (cs : list edcmd) : list str :=
  flat_map (render_cmd wide) cs.

(** * Alignments *)

(** An alignment of [old] with [new]: runs of kept lines and hunks replacing
    [dels] by [ins] (not both empty). *)
Inductive seg :=
| Keep (ls : list str)
| Hunk (dels ins : list str).

Fixpoint old_of (al : list seg) : list str :=
  match al with
  | [] => []
  | Keep ls :: al => ls ++ old_of al
  | Hunk d _ :: al => d ++ old_of al
  end.

Fixpoint new_of (al : list seg) : list str :=
  match al with
  | [] => []
  | Keep ls :: al => ls ++ new_of al
  | Hunk _ i :: al => i ++ new_of al
  end.

Definition seg_ok (s : seg) : bool :=
  match s with
  | Keep _ => true
  | Hunk d i => negb (match d, i with [], [] => true | _, _ => false end)
                && forallb text_line_ok i
  end.

(** The script for an alignment, hunks addressed in the OLD file; [pos] = number
    of old lines before the segment.  Commands are accumulated so that the
    result is in descending address order, which is what diff -e emits. *)
Fixpoint script_of_from (pos : nat) (al : list seg) (acc : list edcmd) : list edcmd :=
  match al with
  | [] => acc
  | Keep ls :: al => script_of_from (pos + length ls) al acc
  | Hunk d i :: al =>
      let c := match d, i with
               | [], _ => EdA pos i
               | _, [] => EdD (pos + 1) (pos + length d)
               | _, _ => EdC (pos + 1) (pos + length d) i
               end in
      script_of_from (pos + length d) al (c :: acc)
  end.

Definition script_of (al : list seg) : list edcmd := script_of_from 0 al [].

(** * Script grammar (independent recogniser, ASCII digits only)

    script  ::= command*
    command ::= addr 'a' LF? text* term | range 'c' LF? text* term | range 'd' LF?
    addr    ::= digit+          range ::= digit+ (',' digit+)?
    text    ::= any non-empty line other than "." / ".\n"     term ::= "." LF? *)

Fixpoint take_ascii_digits (s : str) : str * str :=
  match s with
  | c :: s' => if is_ascii_digit c then let (d, r) := take_ascii_digits s' in (c :: d, r)
               else ([], s)
  | [] => ([], [])
  end.

Definition strip_one_lf (s : str) : str :=
  match rev s with 10%N :: r => rev r | _ => s end.

Inductive cmdline := LA (n : nat) | LD (n m : nat) | LC (n m : nat).

Definition spec_cmdline (l : str) : option cmdline :=
  let l := strip_one_lf l in
  let (d1, r1) := take_ascii_digits l in
  match d1 with
  | [] => None
  | _ =>
    let n := N.to_nat (parse_dec d1) in
    match r1 with
    | [97%N] => Some (LA n)
    | [100%N] => Some (LD n n)
    | [99%N] => Some (LC n n)
    | 44%N :: r2 =>
        let (d2, r3) := take_ascii_digits r2 in
        match d2 with
        | [] => None
        | _ =>
          let m := N.to_nat (parse_dec d2) in
          match r3 with
          | [100%N] => Some (LD n m)
          | [99%N] => Some (LC n m)
          | _ => None
          end
        end
    | _ => None
    end
  end.

Definition is_term (l : str) : bool := str_eqb l [46%N] || str_eqb l [46%N; 10%N].

(** [spec_block ls] = the text lines up to the terminator, and what follows it. *)
Fixpoint spec_block (ls : list str) : option (list str * list str) :=
  match ls with
  | [] => None
  | l :: ls' =>
      if is_term l then Some ([], ls')
      else match l with
           | [] => None
           | _ => match spec_block ls' with
                  | Some (t, r) => Some (l :: t, r)
                  | None => None
                  end
           end
  end.

Fixpoint spec_parse_fuel (fuel : nat) (ls : list str) : option (list edcmd) :=
  match fuel with
  | O => None
  | S fuel =>
    match ls with
    | [] => Some []
    | l :: ls' =>
      match spec_cmdline l with
      | None => None
      | Some (LD n m) =>
          match spec_parse_fuel fuel ls' with
          | Some cs => Some (EdD n m :: cs) | None => None end
      | Some (LA n) =>
          match spec_block ls' with
          | Some (t, r) => match spec_parse_fuel fuel r with
                           | Some cs => Some (EdA n t :: cs) | None => None end
          | None => None
          end
      | Some (LC n m) =>
          match spec_block ls' with
          | Some (t, r) => match spec_parse_fuel fuel r with
                           | Some cs => Some (EdC n m t :: cs) | None => None end
          | None => None
          end
      end
    end
  end.

Definition spec_parse (ls : list str) : option (list edcmd) :=
  spec_parse_fuel (S (length ls)) ls.
