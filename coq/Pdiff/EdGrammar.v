(** The independent script grammar of EdSpec ([spec_parse], used by the
    correspondence's [holds]) recognises exactly what [render] writes:
    so "malformed" in the check and "rendered" in the theorems talk about the
    same concrete syntax. *)
From Verif Require Import Lib.Base Lib.Dec Pdiff.EdSpec Pdiff.Ed Pdiff.EdProofs.

Lemma take_ascii_digits_app ds x r :
  forallb is_ascii_digit ds = true -> is_ascii_digit x = false ->
  take_ascii_digits (ds ++ x :: r) = (ds, x :: r).
Proof.
  induction ds as [|d ds IH]; simpl; intros Hall Hx.
  - now rewrite Hx.
  - apply andb_true_iff in Hall. destruct Hall as [-> H2]. now rewrite IH.
Qed.

Lemma strip_one_lf_app s : strip_one_lf (s ++ [LF]) = s.
Proof. unfold strip_one_lf. rewrite rev_app_distr. simpl. apply rev_involutive. Qed.

Lemma parse_dec_print_nat n : N.to_nat (parse_dec (print_dec (N.of_nat n))) = n.
Proof. rewrite parse_print_dec. apply Nat2N.id. Qed.

Ltac single_tac n :=
  unfold spec_cmdline;
  match goal with |- context [print_dec (N.of_nat n) ++ [?c; LF]] =>
    replace (print_dec (N.of_nat n) ++ [c; LF]) with ((print_dec (N.of_nat n) ++ [c]) ++ [LF])
      by (now rewrite <- app_assoc)
  end;
  rewrite strip_one_lf_app;
  rewrite take_ascii_digits_app by (try apply is_digit_print_dec; reflexivity);
  let Hne := fresh in let E := fresh in
  pose proof (print_dec_nonempty (N.of_nat n)) as Hne;
  destruct (print_dec (N.of_nat n)) as [|? ?] eqn:E; [congruence|]; rewrite <- E;
  now rewrite parse_dec_print_nat.

Lemma spec_cmdline_a n : spec_cmdline (print_dec (N.of_nat n) ++ [97%N; LF]) = Some (LA n).
Proof. single_tac n. Qed.
Lemma spec_cmdline_d n : spec_cmdline (print_dec (N.of_nat n) ++ [100%N; LF]) = Some (LD n n).
Proof. single_tac n. Qed.
Lemma spec_cmdline_c n : spec_cmdline (print_dec (N.of_nat n) ++ [99%N; LF]) = Some (LC n n).
Proof. single_tac n. Qed.

Lemma spec_cmdline_range n m c :
  c = 100%N \/ c = 99%N ->
  spec_cmdline (print_dec (N.of_nat n) ++ [44%N] ++ print_dec (N.of_nat m) ++ [c; LF]) =
    Some (if (c =? 100)%N then LD n m else LC n m).
Proof.
  intros Hc. unfold spec_cmdline.
  replace (print_dec (N.of_nat n) ++ [44%N] ++ print_dec (N.of_nat m) ++ [c; LF])
    with ((print_dec (N.of_nat n) ++ [44%N] ++ print_dec (N.of_nat m) ++ [c]) ++ [LF])
    by (rewrite <- !app_assoc; reflexivity).
  rewrite strip_one_lf_app. cbn [app].
  rewrite take_ascii_digits_app by (try apply is_digit_print_dec; reflexivity).
  pose proof (print_dec_nonempty (N.of_nat n)) as Hne.
  destruct (print_dec (N.of_nat n)) as [|d ds] eqn:E; [congruence|]. rewrite <- E.
  rewrite take_ascii_digits_app
    by (try apply is_digit_print_dec; destruct Hc as [->| ->]; reflexivity).
  pose proof (print_dec_nonempty (N.of_nat m)) as Hne2.
  destruct (print_dec (N.of_nat m)) as [|d2 ds2] eqn:E2; [congruence|]. rewrite <- E2.
  rewrite !parse_dec_print_nat.
  destruct Hc as [->| ->]; reflexivity.
Qed.

Lemma spec_block_render txt rest :
  forallb text_line_ok txt = true ->
  spec_block (txt ++ [46; LF]%N :: rest) = Some (txt, rest).
Proof.
  induction txt as [|t txt IH]; intros Hall.
  - reflexivity.
  - cbn [forallb] in Hall. apply andb_true_iff in Hall. destruct Hall as [H1 H2].
    cbn [app spec_block]. unfold text_line_ok in H1.
    apply andb_true_iff in H1. destruct H1 as [H1 H1c].
    apply andb_true_iff in H1. destruct H1 as [H1a H1b].
    unfold is_term. apply negb_true_iff in H1b, H1c. rewrite H1b, H1c. cbn [orb].
    destruct t as [|c t]; [discriminate|]. now rewrite IH.
Qed.

Lemma spec_parse_fuel_render wide cs : forall fuel,
  forallb cmd_text_ok cs = true -> forallb cmd_addr_ordered cs = true ->
  length cs < fuel ->
  spec_parse_fuel fuel (render wide cs) = Some cs.
Proof.
  induction cs as [|c cs IH]; intros fuel H1 H2 Hf.
  - destruct fuel; [lia|reflexivity].
  - destruct fuel as [|fuel]; [lia|]. cbn [length] in Hf.
    cbn [forallb] in H1, H2.
    apply andb_true_iff in H1. destruct H1 as [H1a H1b].
    apply andb_true_iff in H2. destruct H2 as [H2a H2b].
    specialize (IH fuel H1b H2b ltac:(lia)).
    unfold render. cbn [flat_map]. fold (render wide cs).
    destruct c as [n txt|n m|n m txt]; cbn [render_cmd app spec_parse_fuel].
    + rewrite spec_cmdline_a.
      rewrite <- app_assoc. cbn [app]. rewrite spec_block_render by assumption.
      now rewrite IH.
    + unfold render_addr. destruct ((n =? m)%nat && negb wide) eqn:E.
      * apply andb_true_iff in E. destruct E as [E _]. apply Nat.eqb_eq in E. subst m.
        rewrite spec_cmdline_d. now rewrite IH.
      * rewrite <- !app_assoc. rewrite spec_cmdline_range by (left; reflexivity).
        cbn [N.eqb Pos.eqb]. now rewrite IH.
    + unfold render_addr. destruct ((n =? m)%nat && negb wide) eqn:E.
      * apply andb_true_iff in E. destruct E as [E _]. apply Nat.eqb_eq in E. subst m.
        rewrite spec_cmdline_c.
        rewrite <- app_assoc. cbn [app]. rewrite spec_block_render by assumption.
        now rewrite IH.
      * rewrite <- !app_assoc. rewrite spec_cmdline_range by (right; reflexivity).
        cbn [N.eqb Pos.eqb].
        rewrite <- ?app_assoc. cbn [app]. rewrite spec_block_render by assumption.
        now rewrite IH.
Qed.

Lemma render_length wide cs : length cs <= length (render wide cs).
Proof.
  induction cs as [|c cs IH]; [reflexivity|].
  unfold render. cbn [flat_map]. fold (render wide cs). rewrite app_length.
  destruct c; cbn [render_cmd length]; lia.
Qed.

Theorem spec_parse_render wide cs :
  forallb cmd_text_ok cs = true -> forallb cmd_addr_ordered cs = true ->
  spec_parse (render wide cs) = Some cs.
Proof.
  intros H1 H2. unfold spec_parse. apply spec_parse_fuel_render; try assumption.
  pose proof (render_length wide cs). lia.
Qed.
