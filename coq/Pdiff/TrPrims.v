(** Primitives that the regenerated control flow of patches_from_ed_script / patch_lines
    (Gen/TrEd.v, regenerated from lib/debian/debian_support.py on every run) calls.
    Everything here is hand-written; the regex leaf is DEFINED THROUGH the model's leaf
    [match_cmd] / [span_digits] (Pdiff/Ed.v).  The pattern texts of [_patch_re] / [_patch_re_b]
    are asserted by the translator spec (harness/props/c18.py): a changed pattern fails closed.

    str / bytes.  A line is a list of code points in both flavours, so the dynamic type of the
    elements of [source] is not visible in the data: it is the leading parameter
    [is_bytes : bool] of the translated function ("the elements of source are bytes objects").
    [isinstance(line, bytes)], [int()] and the pattern match read it. *)
From Verif Require Import Lib.Base Lib.Dec Lib.PyStr Gen.PyChars Pdiff.Ed.

(** the two compiled patterns: [_patch_re_b] (bytes, ASCII \d) and [_patch_re] (str, Unicode \d) *)
Inductive trp_pattern := PatBytes | PatStr.
(** the classes that may appear as second argument of [isinstance] *)
Inductive trp_pytype := TyBytes | TyStr.

Definition trp_is_digit (is_bytes : bool) : N -> bool := if is_bytes then is_ascii_digit else re_d.
Definition trp_digit_val (is_bytes : bool) : N -> N := if is_bytes then ascii_digit_val else nd_val.

(** [isinstance(line, bytes)] / [isinstance(line, str)] for an element of [source] *)
Definition trp_isinstance (is_bytes : bool) (line : str) (t : trp_pytype) : bool :=
  match t with TyBytes => is_bytes | TyStr => negb is_bytes end.

Definition trp_pat_is_bytes (p : trp_pattern) : bool :=
  match p with PatBytes => true | PatStr => false end.

(** The groups of a match of ^(\d+)(?:,(\d+))?([acd])$ as TEXT (what [match.groups()] returns;
    group 2 is None when the optional part did not take part), through the model's leaf:
    [match_cmd] decides whether and how the line matches, [span_digits] cuts out the digit runs. *)
Definition cmd_groups (is_digit : N -> bool) (digit_val : N -> N) (l : str)
  : option (str * option str * str) :=
  match match_cmd is_digit digit_val l with
  | None => None
  | Some (_, b, c) =>
      let (d1, r1) := span_digits is_digit l in
      Some (d1,
            match b with
            | None => None
            | Some _ => Some (fst (span_digits is_digit (tl r1)))     (* [tl]: the comma *)
            end,
            [c])
  end.

(** [patch_re.match(line)].  [patch_re] is Optional in the source ([re_cmd=None]); calling
    [.match] on None would be an AttributeError ([OtherError] here — the tie theorem shows it
    cannot happen).  A bytes pattern on a str (or the converse) is a TypeError in Python. *)
Definition trp_match (is_bytes : bool) (p : option trp_pattern) (line : str)
  : result (option (str * option str * str)) :=
  match p with
  | None => Err OtherError
  | Some p =>
      if Bool.eqb (trp_pat_is_bytes p) is_bytes
      then Ok (cmd_groups (trp_is_digit is_bytes) (trp_digit_val is_bytes) line)
      else Err TypeError
  end.

(** [match.groups()] of a match object that is represented by its groups *)
Definition trp_groups (g : str * option str * str) : str * option str * str := g.

(** [int(s)] for a str / bytes object.  Exact on non-empty digit runs of the flavour's digit
    class (ASCII for bytes, Unicode Nd for str), which is all the translated code passes (groups
    of \d+).  For any other text this primitive says ValueError; Python's int() accepts more
    (surrounding white space, a sign, underscores) — not modelled, never reached. *)
Definition trp_int (is_bytes : bool) (s : str) : result Z :=
  match s with
  | [] => Err ValueError
  | _ => if forallb (trp_is_digit is_bytes) s
         then Ok (Z.of_N (horner (trp_digit_val is_bytes) 0 s))
         else Err ValueError
  end.
