(** Case format evaluated by the correspondence check of C19.
    [agree]: the model (Pdiff/Update.v), run on the world the harness built,
             reproduces what update_file did (return value or exception kind,
             local file afterwards, presence of '.new').
    [holds]: the property itself, judged on what the implementation did against
             the HISTORY and the injected faults (UpdateSpec.property_holds) —
             the model is not consulted.
    Leaves compared on their own: PackageFile (with the live class) and
    re.split(r'\s+'). *)
From Coq Require Import String.
From Verif Require Import Lib.Base Lib.PyStr Lib.Dec Lib.PySlice Gen.PyChars
  Pdiff.Ed Pdiff.Update Pdiff.UpdateSpec.

(** To keep the case literals small (elaborating string literals is what costs),
    contents are written once, in a pool, and referred to by position; and the
    40/64-digit digests are replaced — in the index text and in the digest table
    alike — by the short alias [~1~i] / [~2~i] of "SHA-1 / SHA-256 of pool entry
    i".  The renaming is injective and token-preserving, which is all the code
    can observe of a digest. *)
Inductive lref := R (i : nat) | L (ls : list string).

Record ucase := mku {
  (* interpreter facts: import _sha1 / _sha256 / _sha2 succeed *)
  u_sha1 : bool; u_sha256 : bool; u_sha2 : bool;
  (* every content the harness knows, as line lists, pairwise distinct as contents *)
  u_pool : list (list string);
  (* the world *)
  u_local : option lref;
  u_index : option (list (option string));
  u_patches : list (string * result lref);
  u_full : result lref;
  u_eff : list bool;
  u_unlink : bool;
  (* the scenario, for [holds] *)
  u_hist : list nat;                  (* v0 .. vn as pool positions *)
  u_class : N;                        (* 0 intact, 1 unusable, 2 lying *)
  u_pfaults : list nat;
  u_full_fault : bool;
  (* what the implementation did *)
  u_obs : result lref;
  u_local_after : option lref;        (* content = concatenation of the referenced lines *)
  u_new_after : bool }.

Inductive case :=
| CU (u : ucase)
| CPf (lines : list (option string)) (obs : result (list (list (string * string))))
| CSplit (s : string) (obs : list string).

(** The hash instantiated by the pool; a content the harness does not know gets
    a digest that no whitespace-free token can equal. *)
Definition unknown_digest : str := [32%N].

Definition alias (k : hkind) (i : nat) : str :=
  [126%N; match k with SHA1 => 49%N | SHA256 => 50%N end; 126%N] ++ print_dec (N.of_nat i).

Fixpoint pool_find (c : str) (pool : list str) (i : nat) : option nat :=
  match pool with
  | [] => None
  | x :: pool' => if str_eqb x c then Some i else pool_find c pool' (S i)
  end.

Definition pool_hash (contents : list str) (k : hkind) (ls : list str) : str :=
  match pool_find (concat ls) contents 0 with
  | Some i => alias k i
  | None => unknown_digest
  end.

Definition deref (pool : list (list str)) (r : lref) : list str :=
  match r with
  | R i => nth i pool []
  | L ls => map dec ls
  end.

Definition deref_res (pool : list (list str)) (r : result lref) : result (list str) :=
  match r with Ok x => Ok (deref pool x) | Err e => Err e end.

Definition patch_fun (ps : list (str * result (list str))) (name : str) : result (list str) :=
  match List.find (fun e => str_eqb (fst e) name) ps with
  | Some (_, r) => r
  | None => Err IOError                (* no such file on the mirror: URLError *)
  end.

Definition pool_of (u : ucase) : list (list str) := map (map dec) (u_pool u).

Definition env_of (u : ucase) : env :=
  let pool := pool_of u in
  mkenv (u_sha1 u) (u_sha256 u) (u_sha2 u)
    (match u_index u with
     | None => IdxAbsent
     | Some ls => IdxLines (map (option_map dec) ls)
     end)
    (patch_fun (map (fun e => (dec (fst e), deref_res pool (snd e))) (u_patches u)))
    (deref_res pool (u_full u)).

Definition model_update (u : ucase) : result (list str) * fsstate :=
  let pool := pool_of u in
  update_file py_isspace py_islinebreak re_d nd_val (pool_hash (map (@concat N) pool))
    (env_of u) (mkfs (option_map (deref pool) (u_local u)) None) (mksched (u_eff u) (u_unlink u)).

Definition is_some {A} (o : option A) : bool := match o with Some _ => true | None => false end.

Definition observation_of (u : ucase) : observation :=
  let pool := pool_of u in
  mkobs (deref_res pool (u_obs u))
    (option_map (fun r => concat (deref pool r)) (u_local_after u)) (u_new_after u).

Definition agree_update (u : ucase) : bool :=
  let (r, fs') := model_update u in
  let o := observation_of u in
  result_eqb strs_eqb r (ob_result o)
  && option_eqb str_eqb (option_map (@concat N) (f_local fs')) (ob_local o)
  && Bool.eqb (is_some (f_new fs')) (ob_new o).

Definition scenario_of (u : ucase) : scenario :=
  let pool := pool_of u in
  mkscn (map (fun i => nth i pool []) (u_hist u)) (option_map (deref pool) (u_local u))
    (if (u_class u =? 0)%N then IdxIntact else if (u_class u =? 1)%N then IdxUnusable else IdxLying)
    (u_pfaults u) (u_full_fault u) (u_eff u) (u_unlink u).

Definition holds_update (u : ucase) : bool :=
  property_holds (scenario_of u) (observation_of u).

Definition field_eqb : field -> field -> bool := pair_eqb str_eqb str_eqb.

Definition agree (c : case) : bool :=
  match c with
  | CU u => agree_update u
  | CPf lines obs =>
      result_eqb (list_eqb (list_eqb field_eqb))
        (parse_pf py_isspace (map (option_map dec) lines))
        (match obs with
         | Ok ps => Ok (map (map (fun f => (dec (fst f), dec (snd f)))) ps)
         | Err e => Err e
         end)
  | CSplit s obs => strs_eqb (resplit py_isspace (dec s)) (map dec obs)
  end.

Definition holds (c : case) : bool :=
  match c with
  | CU u => holds_update u
  | _ => true
  end.

Definition bad_agree (cs : list case) : list N := bad agree cs.
Definition bad_holds (cs : list case) : list N := bad holds cs.
