(** C18: the bridge between the correspondence and the property.

    [agree_obs c = true -> holds c = true] for the cases of Pdiff/EdCheck.v, under the
    one side condition [judged] that the theorem needs ([agree_obs] says nothing about
    the field [c_expect]; see the end of the file).

    Route.  [agree_obs] forces both observations to be the model's output
    ([result_eqb]/[strs_eqb] are decidable equalities).  What is left is a
    statement about the model and the Spec only:

      - [model_spec_some]: every script the independent grammar [spec_parse]
        accepts (not only the rendered ones: leading zeros, a missing final LF,
        "." as well as ".\n", both address forms) is read by the model's
        [parse] as the patches [map patch_of cs]; [patch_lines_ed_run] and
        [ed_run_ordered] of EdProofs.v then give the ed result (this is
        [script_matches_ed] for arbitrary concrete syntax);
      - [model_spec_none]: every script the grammar rejects, and that contains
        none of the non-ASCII decimal digits the str pattern accepts, makes
        the model raise ValueError (the completeness companion of
        [bad_command_rejected] / [append_with_range_rejected] /
        [unterminated_block_rejected]).

    Both are proved for an arbitrary digit class satisfying [digit_class_ok]
    and instantiated by [digit_class_ok_bytes] / [digit_class_ok_str]. *)
From Verif Require Import Lib.Base Lib.Dec Lib.PySlice Gen.PyChars
  Pdiff.Ed Pdiff.EdSpec Pdiff.EdProofs Pdiff.EdInst Pdiff.EdCheck.

(** * Literal patterns on code points, turned into boolean tests *)

(** [deepN c tac]: case analysis on the binary representation of [c], as deep as
    needed for [tac] to close every branch (the literal patterns of the
    definitions compile to matches on the bits). *)
Ltac deepN c tac :=
  let p := fresh "p" in
  destruct c as [|p]; [tac|repeat (destruct p as [p|p|]; try tac)].

Lemma at_dollar_single x : at_dollar [x] = (x =? 10)%N.
Proof.
  destruct (N.eqb_spec x 10) as [->|Hne]; [reflexivity|].
  deepN x ltac:(first [reflexivity|congruence]).
Qed.

Lemma strip_match x (r s : str) :
  match x :: r with 10%N :: r' => rev r' | _ => s end = if (x =? 10)%N then rev r else s.
Proof.
  destruct (N.eqb_spec x 10) as [->|Hne]; [reflexivity|].
  deepN x ltac:(first [reflexivity|congruence]).
Qed.

Lemma strip_one_lf_snoc s z :
  strip_one_lf (s ++ [z]) = if (z =? 10)%N then s else s ++ [z].
Proof.
  unfold strip_one_lf. rewrite rev_app_distr. cbn [rev app].
  rewrite strip_match. now rewrite rev_involutive.
Qed.

Lemma strip_one_lf_cons x s :
  strip_one_lf (x :: s) =
  if (x =? 10)%N && match s with [] => true | _ => false end then []
  else x :: strip_one_lf s.
Proof.
  destruct s as [|y s].
  - change [x] with ([] ++ [x]). rewrite strip_one_lf_snoc.
    destruct (x =? 10)%N; reflexivity.
  - rewrite andb_false_r.
    destruct (@exists_last _ (y :: s)) as (s0 & z & E); [discriminate|]. rewrite E.
    change (x :: s0 ++ [z]) with ((x :: s0) ++ [z]). rewrite !strip_one_lf_snoc.
    destruct (z =? 10)%N; reflexivity.
Qed.

Lemma at_dollar_strip s :
  at_dollar s = match strip_one_lf s with [] => true | _ => false end.
Proof.
  destruct s as [|x s]; [reflexivity|]. rewrite strip_one_lf_cons.
  destruct s as [|y s].
  - rewrite at_dollar_single. destruct (x =? 10)%N; reflexivity.
  - rewrite andb_false_r. deepN x ltac:(reflexivity).
Qed.

Lemma ascii_digit_not_lf c : is_ascii_digit c = true -> (c =? 10)%N = false.
Proof.
  unfold is_ascii_digit. intro H. apply andb_true_iff in H. destruct H as [H _].
  apply N.leb_le in H. apply N.eqb_neq. lia.
Qed.

Lemma take_strip l : forall d r,
  take_ascii_digits l = (d, r) ->
  take_ascii_digits (strip_one_lf l) = (d, strip_one_lf r).
Proof.
  induction l as [|c l IH]; intros d r H.
  - cbn in H. inversion H. reflexivity.
  - cbn [take_ascii_digits] in H. destruct (is_ascii_digit c) eqn:Ec.
    + destruct (take_ascii_digits l) as [d' r'] eqn:El. inversion H; subst d r.
      rewrite strip_one_lf_cons, (ascii_digit_not_lf _ Ec). cbn [andb].
      cbn [take_ascii_digits]. rewrite Ec. now rewrite (IH _ _ eq_refl).
    + inversion H; subst d r. rewrite strip_one_lf_cons.
      destruct ((c =? 10)%N && match l with [] => true | _ => false end);
        [reflexivity|].
      cbn [take_ascii_digits]. now rewrite Ec.
Qed.

(** The model's command pattern with the literal patterns as tests. *)
Lemma match_cmd_unfold isd dv l :
  match_cmd isd dv l =
  let (d1, r1) := span_digits isd l in
  match d1, r1 with
  | _ :: _, c :: r4 =>
      if (c =? 44)%N then
        let (d2, r3) := span_digits isd r4 in
        match d2, r3 with
        | _ :: _, c' :: r5 =>
            if is_cmd_char c' && at_dollar r5
            then Some (horner dv 0 d1, Some (horner dv 0 d2), c') else None
        | _, _ => None
        end
      else if is_cmd_char c && at_dollar r4 then Some (horner dv 0 d1, None, c) else None
  | _, _ => None
  end.
Proof.
  unfold match_cmd. destruct (span_digits isd l) as [d1 r1].
  destruct d1 as [|x d1]; [reflexivity|]. destruct r1 as [|c r4]; [reflexivity|].
  destruct (N.eqb_spec c 44) as [->|Hne]; [reflexivity|].
  deepN c ltac:(first [reflexivity|congruence]).
Qed.

(** The grammar's command line with the literal patterns as tests. *)
Definition spec_cmdline_t (l : str) : option cmdline :=
  let (d1, r1) := take_ascii_digits (strip_one_lf l) in
  match d1, r1 with
  | _ :: _, c :: r =>
      let n := N.to_nat (parse_dec d1) in
      if (c =? 44)%N then
        let (d2, r3) := take_ascii_digits r in
        match d2, r3 with
        | _ :: _, [c'] =>
            let m := N.to_nat (parse_dec d2) in
            if (c' =? 100)%N then Some (LD n m)
            else if (c' =? 99)%N then Some (LC n m) else None
        | _, _ => None
        end
      else match r with
           | [] => if (c =? 97)%N then Some (LA n)
                   else if (c =? 100)%N then Some (LD n n)
                   else if (c =? 99)%N then Some (LC n n) else None
           | _ => None
           end
  | _, _ => None
  end.

Lemma spec_cmdline_unfold l : spec_cmdline l = spec_cmdline_t l.
Proof.
  unfold spec_cmdline, spec_cmdline_t.
  destruct (take_ascii_digits (strip_one_lf l)) as [d1 r1].
  destruct d1 as [|x d1]; [reflexivity|]. destruct r1 as [|c r]; [reflexivity|].
  destruct (N.eqb_spec c 44) as [->|Hne].
  - destruct (take_ascii_digits r) as [d2 r3].
    destruct d2 as [|y d2]; [reflexivity|]. destruct r3 as [|c' t]; [reflexivity|].
    deepN c' ltac:(destruct t; reflexivity).
  - deepN c ltac:(first [congruence|destruct r; reflexivity]).
Qed.

(** * The grammar's command line is the ASCII pattern's match *)

Lemma span_take l : span_digits is_ascii_digit l = take_ascii_digits l.
Proof. reflexivity. Qed.

Lemma span_split isd l : forall d r,
  span_digits isd l = (d, r) -> l = d ++ r /\ forallb isd d = true.
Proof.
  induction l as [|c l IH]; intros d r H; cbn [span_digits] in H.
  - inversion H. split; reflexivity.
  - destruct (isd c) eqn:Ec.
    + destruct (span_digits isd l) as [d' r'] eqn:El. inversion H; subst d r.
      destruct (IH _ _ eq_refl) as [-> Hd]. cbn [app forallb]. now rewrite Ec, Hd.
    + inversion H. split; reflexivity.
Qed.

(** What the grammar makes of a match of the pattern: [na] only without a
    second address. *)
Definition cmdline_of (m : option (N * option N * N)) : option cmdline :=
  match m with
  | None => None
  | Some (a, b, c) =>
      let n := N.to_nat a in
      let m := match b with None => n | Some b => N.to_nat b end in
      if (c =? 97)%N then match b with None => Some (LA n) | Some _ => None end
      else if (c =? 100)%N then Some (LD n m)
      else if (c =? 99)%N then Some (LC n m)
      else None
  end.

Definition match_ascii := match_cmd is_ascii_digit ascii_digit_val.

Lemma is_cmd_char_cases c :
  is_cmd_char c = true -> c = 97%N \/ c = 99%N \/ c = 100%N.
Proof.
  unfold is_cmd_char. intro H.
  apply orb_true_iff in H. destruct H as [H|H]; [apply orb_true_iff in H; destruct H as [H|H]|];
    apply N.eqb_eq in H; auto.
Qed.

Lemma spec_cmdline_match l : spec_cmdline l = cmdline_of (match_ascii l).
Proof.
  rewrite spec_cmdline_unfold. unfold spec_cmdline_t, match_ascii.
  rewrite (match_cmd_unfold is_ascii_digit ascii_digit_val l).
  change (span_digits is_ascii_digit) with take_ascii_digits.
  destruct (take_ascii_digits l) as [d1 r1] eqn:E1. rewrite (take_strip _ _ _ E1).
  destruct d1 as [|x d1]; [reflexivity|]. destruct r1 as [|c r4]; [reflexivity|].
  rewrite strip_one_lf_cons.
  destruct (N.eqb_spec c 10) as [->|Hlf];
    [destruct r4; [reflexivity|destruct (strip_one_lf (_ :: _)); reflexivity]|]. cbn [andb].
  destruct (N.eqb_spec c 44) as [->|H44].
  - destruct (take_ascii_digits r4) as [d2 r3] eqn:E2. rewrite (take_strip _ _ _ E2).
    destruct d2 as [|y d2]; [reflexivity|]. destruct r3 as [|c' r5]; [reflexivity|].
    rewrite strip_one_lf_cons.
    destruct (N.eqb_spec c' 10) as [->|Hlf'];
      [destruct r5; [reflexivity|destruct (strip_one_lf (_ :: _)); reflexivity]|]. cbn [andb].
    rewrite at_dollar_strip. destruct (strip_one_lf r5) as [|z t].
    + rewrite andb_true_r. unfold is_cmd_char, cmdline_of, parse_dec.
      destruct (N.eqb_spec c' 97) as [->|H97]; [reflexivity|].
      destruct (N.eqb_spec c' 99) as [->|H99]; [reflexivity|].
      destruct (N.eqb_spec c' 100) as [->|H100]; reflexivity.
    + rewrite andb_false_r. reflexivity.
  - rewrite at_dollar_strip. destruct (strip_one_lf r4) as [|z t].
    + rewrite andb_true_r. unfold is_cmd_char, cmdline_of, parse_dec.
      destruct (N.eqb_spec c 97) as [->|H97]; [reflexivity|].
      destruct (N.eqb_spec c 99) as [->|H99]; [reflexivity|].
      destruct (N.eqb_spec c 100) as [->|H100]; reflexivity.
    + rewrite andb_false_r. reflexivity.
Qed.

Lemma match_cmd_char isd dv l a b c :
  match_cmd isd dv l = Some (a, b, c) -> is_cmd_char c = true.
Proof.
  rewrite match_cmd_unfold. destruct (span_digits isd l) as [d1 r1].
  destruct d1 as [|x d1]; [discriminate|]. destruct r1 as [|c0 r4]; [discriminate|].
  destruct (c0 =? 44)%N.
  - destruct (span_digits isd r4) as [d2 r3].
    destruct d2 as [|y d2]; [discriminate|]. destruct r3 as [|c' r5]; [discriminate|].
    destruct (is_cmd_char c') eqn:Ec; [|discriminate]. destruct (at_dollar r5); [|discriminate].
    intros [= _ _ <-]. exact Ec.
  - destruct (is_cmd_char c0) eqn:Ec; [|discriminate]. destruct (at_dollar r4); [|discriminate].
    intros [= _ _ <-]. exact Ec.
Qed.

(** * Any digit class: what the ASCII pattern matches, the pattern matches *)

Section Lift.
Variable is_digit : N -> bool.
Variable digit_val : N -> N.
Hypothesis Hdc : digit_class_ok is_digit digit_val.

Notation match_cmd := (match_cmd is_digit digit_val).
Notation parse := (parse is_digit digit_val).
Notation apply_script := (apply_script is_digit digit_val).

Lemma cmd_char_nondigit c : is_cmd_char c = true -> is_digit c = false.
Proof.
  intro H. apply (cmd_char_not_digit _ _ Hdc). apply is_cmd_char_cases in H. exact H.
Qed.

Lemma lift_some l a b c :
  match_ascii l = Some (a, b, c) -> match_cmd l = Some (a, b, c).
Proof.
  unfold match_ascii. rewrite !match_cmd_unfold.
  destruct (span_digits is_ascii_digit l) as [d1 r1] eqn:E1.
  apply span_split in E1. destruct E1 as [-> Hd1].
  destruct d1 as [|x d1]; [discriminate|]. destruct r1 as [|c0 r4]; [discriminate|].
  destruct (N.eqb_spec c0 44) as [->|H44].
  - destruct (span_digits is_ascii_digit r4) as [d2 r3] eqn:E2.
    apply span_split in E2. destruct E2 as [-> Hd2].
    destruct d2 as [|y d2]; [discriminate|]. destruct r3 as [|c' r5]; [discriminate|].
    destruct (is_cmd_char c') eqn:Ec; [|discriminate]. destruct (at_dollar r5) eqn:Ed; [|discriminate].
    cbn [andb]. intros [= <- <- <-].
    rewrite (span_digits_app _ _ Hdc) by (try assumption; apply Hdc).
    rewrite N.eqb_refl.
    rewrite (span_digits_app _ _ Hdc) by (try assumption; now apply cmd_char_nondigit).
    rewrite Ec, Ed. cbn [andb].
    now rewrite !(horner_ascii _ _ Hdc) by assumption.
  - destruct (is_cmd_char c0) eqn:Ec; [|discriminate]. destruct (at_dollar r4) eqn:Ed; [|discriminate].
    cbn [andb]. intros [= <- <- <-].
    rewrite (span_digits_app _ _ Hdc) by (try assumption; now apply cmd_char_nondigit).
    destruct (N.eqb_spec c0 44) as [|_]; [contradiction|].
    rewrite Ec, Ed. cbn [andb].
    now rewrite !(horner_ascii _ _ Hdc) by assumption.
Qed.

(** A line without a digit of the class outside ASCII. *)
Definition line_ascii (l : str) : bool :=
  forallb (fun ch => negb (is_digit ch) || is_ascii_digit ch) l.

Lemma span_line_ascii l :
  line_ascii l = true -> span_digits is_digit l = span_digits is_ascii_digit l.
Proof.
  destruct Hdc as [Hd _].
  induction l as [|c l IH]; intro H; [reflexivity|].
  cbn [line_ascii forallb] in H. apply andb_true_iff in H. destruct H as [Hc Hl].
  cbn [span_digits]. rewrite (IH Hl).
  destruct (is_ascii_digit c) eqn:Ea.
  - now destruct (Hd c Ea) as [-> _].
  - rewrite orb_false_r in Hc. apply negb_true_iff in Hc. now rewrite Hc.
Qed.

Lemma line_ascii_app a b : line_ascii (a ++ b) = true -> line_ascii b = true.
Proof.
  unfold line_ascii. rewrite forallb_app. intro H. apply andb_true_iff in H. tauto.
Qed.

Lemma lift_none l : line_ascii l = true -> match_cmd l = match_ascii l.
Proof.
  intro Hl. unfold match_ascii. rewrite !match_cmd_unfold.
  rewrite (span_line_ascii _ Hl).
  destruct (span_digits is_ascii_digit l) as [d1 r1] eqn:E1.
  apply span_split in E1. destruct E1 as [-> Hd1]. apply line_ascii_app in Hl.
  destruct d1 as [|x d1]; [reflexivity|]. destruct r1 as [|c0 r4]; [reflexivity|].
  change (c0 :: r4) with ([c0] ++ r4) in Hl. apply line_ascii_app in Hl.
  rewrite (horner_ascii _ _ Hdc) by assumption.
  destruct (c0 =? 44)%N; [|reflexivity].
  rewrite (span_line_ascii _ Hl).
  destruct (span_digits is_ascii_digit r4) as [d2 r3] eqn:E2.
  apply span_split in E2. destruct E2 as [-> Hd2].
  now rewrite (horner_ascii _ _ Hdc _ d2) by assumption.
Qed.

(** * Text blocks *)

Lemma is_terminator_is_term l : is_terminator l = is_term l.
Proof. apply orb_comm. Qed.

Lemma block_some ls : forall t r f l racc,
  spec_block ls = Some (t, r) ->
  parse (InBlk f l racc) ls = (do ps <- parse Top r; Ok ((f, l, rev racc ++ t) :: ps)).
Proof.
  induction ls as [|x ls IH]; intros t r f l racc H; cbn [spec_block] in H; [discriminate|].
  destruct (is_term x) eqn:Et.
  - inversion H; subst t r. destruct x as [|c x]; [discriminate|].
    cbn [Ed.parse]. rewrite is_terminator_is_term, Et. now rewrite app_nil_r.
  - destruct x as [|c x]; [discriminate|].
    destruct (spec_block ls) as [[t' r']|] eqn:Eb; [|discriminate]. inversion H; subst t r.
    cbn [Ed.parse]. rewrite is_terminator_is_term, Et.
    rewrite (IH _ _ _ _ _ eq_refl). cbn [rev]. now rewrite <- app_assoc.
Qed.

Lemma block_none ls : forall f l racc,
  spec_block ls = None -> parse (InBlk f l racc) ls = Err ValueError.
Proof.
  induction ls as [|x ls IH]; intros f l racc H; [reflexivity|]. cbn [spec_block] in H.
  destruct (is_term x) eqn:Et; [discriminate|].
  destruct x as [|c x]; [reflexivity|].
  destruct (spec_block ls) as [[t' r']|] eqn:Eb; [discriminate|].
  cbn [Ed.parse]. rewrite is_terminator_is_term, Et. now apply IH.
Qed.

Lemma block_split ls : forall t r,
  spec_block ls = Some (t, r) -> exists x, ls = t ++ x :: r.
Proof.
  induction ls as [|x ls IH]; intros t r H; cbn [spec_block] in H; [discriminate|].
  destruct (is_term x).
  - inversion H; subst t r. now exists x.
  - destruct x as [|c x]; [discriminate|].
    destruct (spec_block ls) as [[t' r']|] eqn:Eb; [|discriminate]. inversion H; subst t r.
    destruct (IH _ _ eq_refl) as [y ->]. now exists y.
Qed.

(** * Scripts the grammar accepts *)

Lemma cmdline_some l cl :
  spec_cmdline l = Some cl ->
  exists a b c, match_cmd l = Some (a, b, c) /\ cmdline_of (Some (a, b, c)) = Some cl.
Proof.
  rewrite spec_cmdline_match. destruct (match_ascii l) as [[[a b] c]|] eqn:Em; [|discriminate].
  intro H. exists a, b, c. split; [now apply lift_some|exact H].
Qed.

Lemma Z_of_N_nat a : Z.of_nat (N.to_nat a) = Z.of_N a.
Proof. lia. Qed.

Lemma parse_spec_some : forall fuel ls cs,
  spec_parse_fuel fuel ls = Some cs -> parse Top ls = Ok (map patch_of cs).
Proof.
  induction fuel as [|fuel IH]; intros ls cs H; [discriminate|].
  destruct ls as [|line ls]; cbn [spec_parse_fuel] in H.
  - inversion H. reflexivity.
  - destruct (spec_cmdline line) as [cl|] eqn:Ecl; [|discriminate].
    destruct (cmdline_some _ _ Ecl) as (a & b & c & Hm & Hc).
    cbn [Ed.parse]. rewrite Hm. cbn [cmdline_of] in Hc.
    destruct (N.eqb_spec c 97) as [->|H97].
    { destruct b as [b|]; [discriminate|]. inversion Hc; subst cl. cbn [N.eqb Pos.eqb].
      destruct (spec_block ls) as [[t r]|] eqn:Eb; [|discriminate].
      destruct (spec_parse_fuel fuel r) as [cs'|] eqn:Er; [|discriminate]. inversion H; subst cs.
      rewrite (block_some _ _ _ _ _ _ Eb), (IH _ _ Er).
      cbn [bind rev app map patch_of]. now rewrite Z_of_N_nat. }
    destruct (N.eqb_spec c 100) as [->|H100].
    { inversion Hc; subst cl. cbn [N.eqb Pos.eqb].
      destruct (spec_parse_fuel fuel ls) as [cs'|] eqn:Er; [|discriminate]. inversion H; subst cs.
      rewrite (IH _ _ Er). cbn [bind map patch_of]. rewrite Z_of_N_nat.
      destruct b as [b|]; rewrite ?Z_of_N_nat; [reflexivity|].
      replace (Z.of_N a - 1 + 1)%Z with (Z.of_N a) by lia. reflexivity. }
    destruct (N.eqb_spec c 99) as [->|H99]; [|discriminate].
    inversion Hc; subst cl. cbn [N.eqb Pos.eqb].
    destruct (spec_block ls) as [[t r]|] eqn:Eb; [|discriminate].
    destruct (spec_parse_fuel fuel r) as [cs'|] eqn:Er; [|discriminate]. inversion H; subst cs.
    rewrite (block_some _ _ _ _ _ _ Eb), (IH _ _ Er).
    cbn [bind rev app map patch_of]. rewrite Z_of_N_nat.
    destruct b as [b|]; rewrite ?Z_of_N_nat; [reflexivity|].
    replace (Z.of_N a - 1 + 1)%Z with (Z.of_N a) by lia. reflexivity.
Qed.

Theorem apply_spec_some old script cs res :
  spec_parse script = Some cs -> ed_run old cs = Some res ->
  apply_script old script = Ok res.
Proof.
  intros Hp Hrun. unfold Ed.apply_script. rewrite (parse_spec_some _ _ _ Hp).
  cbn [bind]. f_equal. now apply patch_lines_ed_run.
Qed.

(** * Scripts the grammar rejects *)

Definition script_ascii (ls : list str) : bool := forallb line_ascii ls.

Lemma parse_spec_none : forall fuel ls,
  length ls < fuel -> script_ascii ls = true ->
  spec_parse_fuel fuel ls = None -> parse Top ls = Err ValueError.
Proof.
  induction fuel as [|fuel IH]; intros ls Hf Ha H; [lia|].
  destruct ls as [|line ls]; cbn [spec_parse_fuel] in H; [discriminate|].
  cbn [length] in Hf. cbn [script_ascii forallb] in Ha.
  apply andb_true_iff in Ha. destruct Ha as [Hline Ha].
  cbn [Ed.parse]. rewrite (lift_none _ Hline). rewrite spec_cmdline_match in H.
  destruct (match_ascii line) as [[[a b] c]|] eqn:Em; [|reflexivity].
  assert (Hblock : forall f l,
    match spec_block ls with
    | Some (t, r) => match spec_parse_fuel fuel r with Some _ => false | None => true end
    | None => true
    end = true -> parse (InBlk f l []) ls = Err ValueError).
  { intros f l Hb. destruct (spec_block ls) as [[t r]|] eqn:Eb; [|now apply block_none].
    destruct (spec_parse_fuel fuel r) as [cs'|] eqn:Er; [discriminate|].
    rewrite (block_some _ _ _ _ _ _ Eb).
    destruct (block_split _ _ _ Eb) as [x ->].
    rewrite IH; [reflexivity| |  |exact Er].
    - rewrite app_length in Hf. cbn [length] in Hf. lia.
    - unfold script_ascii in *. rewrite forallb_app in Ha. cbn [forallb] in Ha.
      apply andb_true_iff in Ha. destruct Ha as [_ Ha].
      apply andb_true_iff in Ha. tauto. }
  pose proof (match_cmd_char _ _ _ _ _ _ Em) as Hc. apply is_cmd_char_cases in Hc.
  cbn [cmdline_of] in H.
  destruct Hc as [->|[->| ->]]; cbn [N.eqb Pos.eqb] in H |- *.
  - destruct b as [b|]; [reflexivity|]. apply Hblock.
    destruct (spec_block ls) as [[t r]|]; [|reflexivity].
    destruct (spec_parse_fuel fuel r); [discriminate|reflexivity].
  - apply Hblock.
    destruct (spec_block ls) as [[t r]|]; [|reflexivity].
    destruct (spec_parse_fuel fuel r); [discriminate|reflexivity].
  - destruct (spec_parse_fuel fuel ls) as [cs'|] eqn:Er; [discriminate|].
    rewrite IH; [reflexivity|lia|exact Ha|exact Er].
Qed.

Theorem apply_spec_none old script :
  script_ascii script = true -> spec_parse script = None ->
  apply_script old script = Err ValueError.
Proof.
  intros Ha Hp. unfold Ed.apply_script.
  rewrite (parse_spec_none _ _ (Nat.lt_succ_diag_r _) Ha Hp). reflexivity.
Qed.

End Lift.

(** * The two instances: [model_run] against the Spec *)

Theorem model_spec_some b old script cs res :
  spec_parse script = Some cs -> ed_run old cs = Some res ->
  model_run b old script = Ok res.
Proof.
  destruct b; cbn [model_run];
    [exact (apply_spec_some _ _ digit_class_ok_bytes _ _ _ _)
    |exact (apply_spec_some _ _ digit_class_ok_str _ _ _ _)].
Qed.

Lemma script_ascii_bytes ls : script_ascii is_ascii_digit ls = true.
Proof.
  unfold script_ascii, line_ascii. apply forallb_forall. intros l _.
  apply forallb_forall. intros ch _. destruct (is_ascii_digit ch); reflexivity.
Qed.

Lemma script_ascii_str ls : has_foreign_digit ls = false -> script_ascii re_d ls = true.
Proof.
  unfold has_foreign_digit, script_ascii, line_ascii.
  induction ls as [|l ls IH]; cbn [existsb forallb]; intro H; [reflexivity|].
  apply orb_false_iff in H. destruct H as [Hl Hls]. rewrite (IH Hls), andb_true_r.
  clear IH Hls. induction l as [|ch l IH]; cbn [existsb forallb] in *; [reflexivity|].
  apply orb_false_iff in Hl. destruct Hl as [Hch Hl]. rewrite (IH Hl), andb_true_r.
  destruct (re_d ch), (is_ascii_digit ch); cbn in *; congruence.
Qed.

Theorem model_spec_none b old script :
  spec_parse script = None -> has_foreign_digit script = false ->
  model_run b old script = Err ValueError.
Proof.
  intros Hp Hf. destruct b; cbn [model_run].
  - apply (apply_spec_none _ _ digit_class_ok_bytes); [apply script_ascii_bytes|exact Hp].
  - apply (apply_spec_none _ _ digit_class_ok_str); [now apply script_ascii_str|exact Hp].
Qed.

(** * [agree_obs] implies [holds] *)

Lemma result_eqb_eq (x y : result (list str)) : result_eqb strs_eqb x y = true -> x = y.
Proof.
  destruct x as [a|e], y as [b|f]; cbn [result_eqb]; intro E; try discriminate.
  - apply strs_eqb_eq in E. now subst.
  - apply err_eqb_eq in E. now subst.
Qed.

Lemma result_eqb_refl (x : result (list str)) : result_eqb strs_eqb x x = true.
Proof.
  destruct x as [a|e]; cbn [result_eqb]; [now apply strs_eqb_eq|now apply err_eqb_eq].
Qed.

Definition model_of (c : case) : result (list str) :=
  model_run (c_bytes c) (map dec (c_old c)) (map dec (c_script c)).

(** The part of [holds_obs] that is about the Spec: true of the model's output
    on every input. *)
Lemma model_meets_spec c :
  (match spec_parse (map dec (c_script c)) with
   | Some cs =>
       match ed_run (map dec (c_old c)) cs with
       | Some b => result_eqb strs_eqb (model_of c) (Ok b)
       | None => true
       end
   | None =>
       if has_foreign_digit (map dec (c_script c)) then true
       else result_eqb strs_eqb (model_of c) (Err ValueError)
   end) = true.
Proof.
  unfold model_of.
  destruct (spec_parse (map dec (c_script c))) as [cs|] eqn:Ep.
  - destruct (ed_run (map dec (c_old c)) cs) as [b|] eqn:Er; [|reflexivity].
    rewrite (model_spec_some _ _ _ _ _ Ep Er). apply result_eqb_refl.
  - destruct (has_foreign_digit (map dec (c_script c))) eqn:Ef; [reflexivity|].
    rewrite (model_spec_none _ _ _ Ep Ef). reflexivity.
Qed.

(** The side condition.  [c_expect] (the file the script was derived from, when
    there is one) is an input of the case that [agree_obs] never looks at, while
    [holds] compares the observation with it.  [judged]: the expectation, when
    present, is what the model makes of the script. *)
Definition judged (c : case) : bool :=
  match c_expect c with
  | Some n => result_eqb strs_eqb (model_of c) (Ok (map dec n))
  | None => true
  end.

Lemma holds_obs_model c : holds_obs c (model_of c) = judged c.
Proof.
  unfold holds_obs, judged. fold (model_of c).
  change (model_run (c_bytes c) (map dec (c_old c)) (map dec (c_script c))) with (model_of c).
  rewrite model_meets_spec. apply andb_true_r.
Qed.

Lemma agree_obs_eq c :
  agree_obs c = true -> dec_obs (c_obs c) = model_of c /\ dec_obs (c_obs2 c) = model_of c.
Proof.
  unfold agree_obs. fold (model_of c). intro H.
  apply andb_true_iff in H. destruct H as [H1 H2].
  apply result_eqb_eq in H1, H2. now split.
Qed.

(** On a case where the implementation behaves like the model, the property
    holds exactly when the side condition does: [judged] is the weakest
    condition under which [agree_obs] implies [holds]. *)
Theorem agree_holds_iff_judged c : agree_obs c = true -> holds c = judged c.
Proof.
  intro Ha. destruct (agree_obs_eq c Ha) as [H1 H2].
  unfold holds. rewrite H1, H2, holds_obs_model. apply andb_diag.
Qed.

Theorem agree_implies_holds c : judged c = true -> agree_obs c = true -> holds c = true.
Proof. intros Hj Ha. now rewrite (agree_holds_iff_judged c Ha). Qed.

(** Without an expectation there is no side condition. *)
Theorem agree_implies_holds_no_expect c :
  c_expect c = None -> agree_obs c = true -> holds c = true.
Proof. intros He. apply agree_implies_holds. unfold judged. now rewrite He. Qed.

(** The side condition phrased against the Spec alone: the expectation is what
    ed's semantics makes of the script (which is what a generator that derives
    the script from (old, new) by a diff claims).  It implies [judged]. *)
Definition judged_spec (c : case) : bool :=
  match c_expect c with
  | Some n =>
      match spec_parse (map dec (c_script c)) with
      | Some cs =>
          match ed_run (map dec (c_old c)) cs with
          | Some b => strs_eqb b (map dec n)
          | None => false
          end
      | None => false
      end
  | None => true
  end.

Lemma judged_spec_judged c : judged_spec c = true -> judged c = true.
Proof.
  unfold judged_spec, judged, model_of. destruct (c_expect c) as [n|]; [|reflexivity].
  destruct (spec_parse (map dec (c_script c))) as [cs|] eqn:Ep; [|discriminate].
  destruct (ed_run (map dec (c_old c)) cs) as [b|] eqn:Er; [|discriminate].
  intro H. rewrite (model_spec_some _ _ _ _ _ Ep Er). exact H.
Qed.

Theorem agree_implies_holds_spec c :
  judged_spec c = true -> agree_obs c = true -> holds c = true.
Proof. intro Hj. apply agree_implies_holds. now apply judged_spec_judged. Qed.


(** With the expectation conjunct of [agree] ([agree_expect] = [judged]) the statement needs no side condition. *)
Lemma agree_expect_judged c : agree_expect c = judged c.
Proof. reflexivity. Qed.

Theorem agree_implies_holds_full c : agree c = true -> holds c = true.
Proof.
  unfold agree. intros H. apply andb_true_iff in H. destruct H as [Ho He].
  rewrite agree_expect_judged in He. exact (agree_implies_holds c He Ho).
Qed.
