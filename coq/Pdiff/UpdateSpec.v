(** Independent reference for C19: what the property promises as a function of
    the published HISTORY and of the injected FAULTS — never of the model.

    Part 1 (this section): the verdict the property gives for one run
    (used by [holds] in UpdateCheck.v on what the implementation did).
    Part 2: the description of a repository that publishes a pdiff index
    for a history (used by the theorems). *)
From Coq Require Import String.
From Verif Require Import Lib.Base Lib.PyStr Lib.Dec Pdiff.EdSpec.

(** * Part 1: the three statements of the property, judged on an observation *)

(** What the harness did to the published index. *)
Inductive idx_class :=
| IdxIntact        (* consistent with the history (any field order, extra fields, spacing) *)
| IdxUnusable      (* missing, unparseable, or structurally unusable: no -Current, wrong
                      number of columns, a patch without recorded hash *)
| IdxLying.        (* well-formed but records hashes that are not those of the history *)

Record scenario := mkscn {
  sn_hist : list (list str);         (* v0 .. vn as line lists; vn = last = the repository's current content *)
  sn_local : option (list str);      (* local copy before the call *)
  sn_index : idx_class;
  sn_pfaults : list nat;             (* j: the published patch v_j -> v_{j+1} is corrupted, truncated or missing *)
  sn_full_fault : bool;              (* the full file cannot be downloaded *)
  sn_eff : list bool;                (* fault schedule of the file-system effects *)
  sn_unlink : bool }.                (* removing the temporary file fails as well *)

Record observation := mkobs {
  ob_result : result (list str);     (* returned lines, or exception kind *)
  ob_local : option str;             (* content of the local file afterwards *)
  ob_new : bool }.                   (* local + '.new' exists afterwards *)

Definition lines_eqb : list str -> list str -> bool := strs_eqb.

Definition current (h : list (list str)) : list str := last h [].

(** positions of [l] in the history *)
Fixpoint positions (l : list str) (h : list (list str)) (i : nat) : list nat :=
  match h with
  | [] => []
  | v :: h' => (if lines_eqb v l then [i] else []) ++ positions l h' (S i)
  end.

Inductive verdict := MustConverge | MustFail | Either | SafetyOnly.

(** A fault among the effects of ONE complete replacement of the local file by
    [vn]: open, one write per line, close, rename. *)
Definition fs_fault_certain (vn : list str) (eff : list bool) : bool :=
  existsb (fun b => b) (firstn (List.length vn + 3) eff).
Definition fs_fault_possible (eff : list bool) (unl : bool) : bool :=
  existsb (fun b => b) eff || unl.

Definition is_nil_nat (l : list nat) : bool := match l with [] => true | _ :: _ => false end.

Definition verdict_of (s : scenario) : verdict :=
  let h := sn_hist s in
  let vn := current h in
  let n := (List.length h - 1)%nat in
  match sn_index s with
  | IdxLying => SafetyOnly
  | cls =>
    let is_current := match sn_local s with Some l => lines_eqb l vn | None => false end in
    if is_current then
      (* nothing has to be written; if the implementation writes anyway, a
         write fault may surface as an error *)
      match cls with
      | IdxIntact => if fs_fault_possible (sn_eff s) (sn_unlink s) then Either else MustConverge
      | _ => if fs_fault_possible (sn_eff s) (sn_unlink s) || sn_full_fault s then Either else MustConverge
      end
    else
      if fs_fault_certain vn (sn_eff s) then MustFail
      else
        let pos := match sn_local s with Some l => positions l h 0 | None => [] end in
        match cls, pos with
        | IdxIntact, first :: _ =>
            (* the chain of patches from the local version on is what is needed *)
            let lastp := last pos first in
            if existsb (fun j => (lastp <=? j)%nat) (sn_pfaults s) then MustFail
            else if existsb (fun j => (first <=? j)%nat) (sn_pfaults s) then Either
            else if fs_fault_possible (sn_eff s) false then Either
            else MustConverge
        | IdxIntact, [] =>
            (* foreign or absent: the full download is what is needed *)
            if sn_full_fault s then MustFail
            else if fs_fault_possible (sn_eff s) false then Either
            else MustConverge
        | _, _ =>
            (* unusable index: full download, but a usable remainder may still be used *)
            if sn_full_fault s || negb (is_nil_nat (sn_pfaults s)) || fs_fault_possible (sn_eff s) false
            then Either else MustConverge
        end
  end.

Definition content_of (ls : list str) : str := concat ls.

(** Statement 1+2: the local file and the returned lines equal the current content. *)
Definition converged (s : scenario) (o : observation) : bool :=
  let vn := current (sn_hist s) in
  result_eqb lines_eqb (ob_result o) (Ok vn)
  && option_eqb str_eqb (ob_local o) (Some (content_of vn))
  && negb (ob_new o).

(** Statement 3: an error is raised, the local file is exactly as it was, no temporary file. *)
Definition failed_safely (s : scenario) (o : observation) : bool :=
  negb (is_ok (ob_result o))
  && option_eqb str_eqb (ob_local o)
       (match sn_local s with Some l => Some (content_of l) | None => None end)
  && (negb (ob_new o) || sn_unlink s).

(** A repository whose index records other hashes than those of its history is
    outside the property's premise; what remains is that a run either fails
    safely or returns exactly what it left in the local file (which is then the
    old or a completely written new content), with no temporary file. *)
Definition returned_is_local (o : observation) : bool :=
  match ob_result o with
  | Ok ls => option_eqb str_eqb (ob_local o) (Some (content_of ls)) && negb (ob_new o)
  | Err _ => false
  end.

Definition property_holds (s : scenario) (o : observation) : bool :=
  match verdict_of s with
  | SafetyOnly => returned_is_local o || failed_safely s o
  | MustConverge => converged s o
  | MustFail => failed_safely s o
  | Either => converged s o || failed_safely s o
  end.

(** * Part 2: a repository that publishes a pdiff index for a history

    The history is given by its oldest version [v0] and one [pstep] per published
    patch: the alignment (EdSpec) between the version before and the version
    after, from which the patch — the descending ed script of the alignment, in
    ed's concrete syntax — is derived.  Every (old, new) pair and every diff
    algorithm is some alignment (C18). *)

Record pstep := mkstep {
  ps_name : str;             (* file name of the patch below <remote>.diff/ *)
  ps_hsize : str;            (* size column of its -History row *)
  ps_psize : str;            (* size column of its -Patches row *)
  ps_wide : bool;            (* "n,n" instead of "n" for one-line ranges *)
  ps_al : list seg }.        (* the alignment old -> new the patch was computed from *)

Definition ps_script (s : pstep) : list str := render (ps_wide s) (script_of (ps_al s)).
Definition ps_new (s : pstep) : list str := new_of (ps_al s).

(** v0 .. vn *)
Fixpoint versions (v : list str) (steps : list pstep) : list (list str) :=
  v :: match steps with [] => [] | s :: r => versions (ps_new s) r end.

(** every alignment is well formed, starts at the version before it, and the
    next one starts where it ends *)
Fixpoint chain_ok (v : list str) (steps : list pstep) : bool :=
  match steps with
  | [] => true
  | s :: r => forallb seg_ok (ps_al s) && lines_eqb (old_of (ps_al s)) v && chain_ok (ps_new s) r
  end.

Definition is_nil_str (s : str) : bool := match s with [] => true | _ :: _ => false end.

Fixpoint distinct (names : list str) : bool :=
  match names with
  | [] => true
  | n :: r => negb (existsb (str_eqb n) r) && distinct r
  end.

(** The index as a list of (field name, field contents) — all paragraphs
    together, in file order, contents as a deb822 reader delivers them: first
    line and continuation lines joined by LF, outer whitespace stripped. *)
Record pubindex := mkpidx {
  px_fields : list (str * str);
  px_sep : str;                        (* the column separator *)
  px_cur_size : str;                   (* size column of -Current *)
  px_hist_entries : list str;          (* the lines of the -History contents (blank ones allowed) *)
  px_patch_entries : list str }.       (* the lines of the -Patches contents *)

Definition field_count (name : str) (fs : list (str * str)) : nat :=
  List.length (filter (fun f => str_eqb (fst f) name) fs).

(** every field called [name] has the contents [value] *)
Definition field_is (name value : str) (fs : list (str * str)) : bool :=
  forallb (fun f => negb (str_eqb (fst f) name) || str_eqb (snd f) value) fs.

Definition nonblank (es : list str) : list str := filter (fun e => negb (is_nil_str e)) es.

Section Published.
Variable is_space : N -> bool.
Variable is_linebreak : N -> bool.
Variable prefix : str.                  (* "SHA1" or "SHA256" *)
Variable Hk : list str -> str.          (* that digest of a content, as the index prints it *)

(** a column: non-empty, no white space;  a separator: non-empty, only white space *)
Definition token_ok (t : str) : bool :=
  negb (is_nil_str t) && forallb (fun c => negb (is_space c)) t.
Definition sep_ok (w : str) : bool :=
  negb (is_nil_str w) && forallb is_space w.
Definition lb_free (e : str) : bool := forallb (fun c => negb (is_linebreak c)) e.

Definition fname (suffix : string) : str := prefix ++ dec suffix.

Definition row (w h s n : str) : str := h ++ w ++ s ++ w ++ n.

(** -History: digest of the version BEFORE the patch, size, patch name; oldest first *)
Fixpoint hist_rows (w : str) (v : list str) (steps : list pstep) : list str :=
  match steps with
  | [] => []
  | s :: r => row w (Hk v) (ps_hsize s) (ps_name s) :: hist_rows w (ps_new s) r
  end.

(** -Patches: digest of the patch file itself, size, patch name *)
Definition patch_rows (w : str) (steps : list pstep) : list str :=
  map (fun s => row w (Hk (ps_script s)) (ps_psize s) (ps_name s)) steps.

(** -Current records the digest of [vn]: every field of that name reads
    "<digest of vn> <size>". *)
Definition current_ok (vn : list str) (px : pubindex) : bool :=
  token_ok (Hk vn) && sep_ok (px_sep px) && token_ok (px_cur_size px)
  && field_is (fname "-Current") (Hk vn ++ px_sep px ++ px_cur_size px) (px_fields px).

(** the contents of a multi-line field whose lines are [entries] *)
Definition entries_value (entries : list str) : str := join [10%N] entries.

(** The index is well formed and records the history [v0], [steps] in -Current
    and -History, and digests for the patches [psteps] in -Patches. *)
Definition index_records (v0 : list str) (steps psteps : list pstep) (px : pubindex) : bool :=
  let fs := px_fields px in
  forallb (fun s => token_ok (ps_name s) && token_ok (ps_hsize s) && token_ok (ps_psize s)
                    && token_ok (Hk (ps_script s))) steps
  && forallb (fun s => token_ok (ps_name s) && token_ok (ps_hsize s) && token_ok (ps_psize s)
                       && token_ok (Hk (ps_script s))) psteps
  && forallb (fun v => token_ok (Hk v)) (versions v0 steps)
  && current_ok (current (versions v0 steps)) px
  && (1 <=? field_count (fname "-Current") fs)%nat
  && (field_count (fname "-History") fs =? 1)%nat
  && field_is (fname "-History") (entries_value (px_hist_entries px)) fs
  && forallb lb_free (px_hist_entries px)
  && strs_eqb (nonblank (px_hist_entries px)) (hist_rows (px_sep px) v0 steps)
  && (field_count (fname "-Patches") fs =? 1)%nat
  && field_is (fname "-Patches") (entries_value (px_patch_entries px)) fs
  && forallb lb_free (px_patch_entries px)
  && strs_eqb (nonblank (px_patch_entries px)) (patch_rows (px_sep px) psteps).

(** The repository publishes the history: the alignments chain up, patch names
    are distinct, and the index records every version and every patch. *)
Definition publishes (v0 : list str) (steps : list pstep) (px : pubindex) : bool :=
  chain_ok v0 steps
  && distinct (map ps_name steps)
  && index_records v0 steps steps px.

End Published.

(** * Part 3: the Index file as text

    A deb822 file: paragraphs separated by one blank line; a field is its name, a
    colon, the first line of its contents, and one continuation line (a space,
    then the text, or " ." for an empty line) per further line of contents. *)

Record rfield := mkrf {
  rf_name : str;
  rf_first : str;                  (* contents on the line of the name (may be empty) *)
  rf_conts : list str }.           (* further lines of the contents *)

Definition rf_field (f : rfield) : str * str :=
  (rf_name f, join [10%N] (rf_first f :: rf_conts f)).

Definition first_line (f : rfield) : str :=
  rf_name f ++ [58%N] ++ (match rf_first f with [] => [] | _ => 32%N :: rf_first f end) ++ [10%N].
Definition cont_line (e : str) : str :=
  32%N :: (match e with [] => [46%N] | _ => e end) ++ [10%N].
Definition field_lines (f : rfield) : list str := first_line f :: map cont_line (rf_conts f).
Definition para_lines (p : list rfield) : list str := flat_map field_lines p.

Fixpoint index_lines (ps : list (list rfield)) : list str :=
  match ps with
  | [] => []
  | [p] => para_lines p
  | p :: ps' => para_lines p ++ [10%N] :: index_lines ps'
  end.

Section IndexText.
Variable is_space : N -> bool.

Definition is_alpha_c (c : N) : bool :=
  ((65 <=? c)%N && (c <=? 90)%N) || ((97 <=? c)%N && (c <=? 122)%N).
Definition is_name_c (c : N) : bool :=
  is_alpha_c c || is_ascii_digit c || (c =? 45)%N || (c =? 95)%N.

(** a field name: a letter, then at least one of [A-Za-z0-9_-] *)
Definition name_ok (n : str) : bool :=
  match n with
  | c :: ((_ :: _) as r) => is_alpha_c c && forallb is_name_c r
  | _ => false
  end.

(** a line of contents: no LF, no white space at either end *)
Definition trimmed (e : str) : bool :=
  match e with
  | [] => true
  | c :: _ => negb (is_space c) && negb (is_space (last e c))
  end
  && negb (existsb (N.eqb 10) e).

Definition rfield_ok (f : rfield) : bool :=
  name_ok (rf_name f) && trimmed (rf_first f)
  && forallb (fun e => trimmed e && negb (str_eqb e [46%N])) (rf_conts f).

Definition index_text_ok (ps : list (list rfield)) : bool :=
  forallb (fun p => negb (match p with [] => true | _ => false end) && forallb rfield_ok p) ps.

End IndexText.

(** * Part 4: the mirror of a history

    What a repository that publishes [v0], [steps] puts on line: the Index file
    (one paragraph: -Current, -History, -Patches; single blanks between columns),
    each patch under its name, the full current file. *)
Section Mirror.
Variable is_space : N -> bool.
Variable prefix : str.
Variable Hk : list str -> str.
Variable cur_size : str.                (* the size column of -Current *)

Definition mirror_index (v0 : list str) (steps : list pstep) : list (list rfield) :=
  [[mkrf (fname prefix "-Current")
         (Hk (current (versions v0 steps)) ++ [32%N] ++ cur_size) [];
    mkrf (fname prefix "-History") [] (hist_rows Hk [32%N] v0 steps);
    mkrf (fname prefix "-Patches") [] (patch_rows Hk [32%N] steps)]].

Definition mirror_px (v0 : list str) (steps : list pstep) : pubindex :=
  mkpidx (concat (map (map rf_field) (mirror_index v0 steps))) [32%N] cur_size
         ([] :: hist_rows Hk [32%N] v0 steps) ([] :: patch_rows Hk [32%N] steps).

(** GET <remote>.diff/<name>.gz *)
Definition mirror_patch (steps : list pstep) (name : str) : option (list str) :=
  match List.find (fun s => str_eqb (ps_name s) name) steps with
  | Some s => Some (ps_script s)
  | None => None
  end.

(** The history can be published: alignments chain up, patch names are distinct
    tokens, sizes and digests are tokens. *)
Definition history_ok (v0 : list str) (steps : list pstep) : bool :=
  chain_ok v0 steps
  && distinct (map ps_name steps)
  && forallb (fun s => token_ok is_space (ps_name s) && token_ok is_space (ps_hsize s)
                       && token_ok is_space (ps_psize s)
                       && token_ok is_space (Hk (ps_script s))) steps
  && forallb (fun v => token_ok is_space (Hk v)) (versions v0 steps)
  && token_ok is_space cur_size.

End Mirror.
