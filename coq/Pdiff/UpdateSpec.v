(** Independent reference for C19: what the property promises as a function of
    the published HISTORY and of the injected FAULTS — never of the model.

    Part 1 (this section): the verdict the property gives for one run
    (used by [holds] in UpdateCheck.v on what the implementation did).
    Part 2: the description of a repository that publishes a pdiff index
    for a history (used by the theorems). *)
From Coq Require Import String.
From Verif Require Import Lib.Base Lib.PyStr Lib.Dec.

(** * Part 1: the three statements of the property, judged on an observation *)

(** What the harness did to the published index. *)
Inductive idx_class :=
| IdxIntact        (* consistent with the history (any field order, extra fields, spacing) *)
| IdxUnusable      (* missing, unparseable, or structurally unusable: no -Current, wrong
                      number of columns, a patch without recorded hash *)
| IdxLying.        (* well-formed but records hashes that are not those of the history *)

Record scenario := mkscn {
  sn_hist : list (list str);         (* v0 .. vn as line lists; vn = last = the repository's current content *)
  sn_local : option (list str);      (* local copy before the call *)
  sn_index : idx_class;
  sn_pfaults : list nat;             (* j: the published patch v_j -> v_{j+1} is corrupted, truncated or missing *)
  sn_full_fault : bool;              (* the full file cannot be downloaded *)
  sn_eff : list bool;                (* fault schedule of the file-system effects *)
  sn_unlink : bool }.                (* removing the temporary file fails as well *)

Record observation := mkobs {
  ob_result : result (list str);     (* returned lines, or exception kind *)
  ob_local : option str;             (* content of the local file afterwards *)
  ob_new : bool }.                   (* local + '.new' exists afterwards *)

Definition lines_eqb : list str -> list str -> bool := strs_eqb.

Definition current (h : list (list str)) : list str := last h [].

(** positions of [l] in the history *)
Fixpoint positions (l : list str) (h : list (list str)) (i : nat) : list nat :=
  match h with
  | [] => []
  | v :: h' => (if lines_eqb v l then [i] else []) ++ positions l h' (S i)
  end.

Inductive verdict := MustConverge | MustFail | Either | SafetyOnly.

(** A fault among the effects of ONE complete replacement of the local file by
    [vn]: open, one write per line, close, rename. *)
Definition fs_fault_certain (vn : list str) (eff : list bool) : bool :=
  existsb (fun b => b) (firstn (List.length vn + 3) eff).
Definition fs_fault_possible (eff : list bool) (unl : bool) : bool :=
  existsb (fun b => b) eff || unl.

Definition is_nil_nat (l : list nat) : bool := match l with [] => true | _ :: _ => false end.

Definition verdict_of (s : scenario) : verdict :=
  let h := sn_hist s in
  let vn := current h in
  let n := (List.length h - 1)%nat in
  match sn_index s with
  | IdxLying => SafetyOnly
  | cls =>
    let is_current := match sn_local s with Some l => lines_eqb l vn | None => false end in
    if is_current then
      (* nothing has to be written; if the implementation writes anyway, a
         write fault may surface as an error *)
      match cls with
      | IdxIntact => if fs_fault_possible (sn_eff s) (sn_unlink s) then Either else MustConverge
      | _ => if fs_fault_possible (sn_eff s) (sn_unlink s) || sn_full_fault s then Either else MustConverge
      end
    else
      if fs_fault_certain vn (sn_eff s) then MustFail
      else
        let pos := match sn_local s with Some l => positions l h 0 | None => [] end in
        match cls, pos with
        | IdxIntact, first :: _ =>
            (* the chain of patches from the local version on is what is needed *)
            let lastp := last pos first in
            if existsb (fun j => (lastp <=? j)%nat) (sn_pfaults s) then MustFail
            else if existsb (fun j => (first <=? j)%nat) (sn_pfaults s) then Either
            else if fs_fault_possible (sn_eff s) false then Either
            else MustConverge
        | IdxIntact, [] =>
            (* foreign or absent: the full download is what is needed *)
            if sn_full_fault s then MustFail
            else if fs_fault_possible (sn_eff s) false then Either
            else MustConverge
        | _, _ =>
            (* unusable index: full download, but a usable remainder may still be used *)
            if sn_full_fault s || negb (is_nil_nat (sn_pfaults s)) || fs_fault_possible (sn_eff s) false
            then Either else MustConverge
        end
  end.

Definition content_of (ls : list str) : str := concat ls.

(** Statement 1+2: the local file and the returned lines equal the current content. *)
Definition converged (s : scenario) (o : observation) : bool :=
  let vn := current (sn_hist s) in
  result_eqb lines_eqb (ob_result o) (Ok vn)
  && option_eqb str_eqb (ob_local o) (Some (content_of vn))
  && negb (ob_new o).

(** Statement 3: an error is raised, the local file is exactly as it was, no temporary file. *)
Definition failed_safely (s : scenario) (o : observation) : bool :=
  negb (is_ok (ob_result o))
  && option_eqb str_eqb (ob_local o)
       (match sn_local s with Some l => Some (content_of l) | None => None end)
  && (negb (ob_new o) || sn_unlink s).

(** A repository whose index records other hashes than those of its history is
    outside the property's premise; what remains is that a run either fails
    safely or returns exactly what it left in the local file (which is then the
    old or a completely written new content), with no temporary file. *)
Definition returned_is_local (o : observation) : bool :=
  match ob_result o with
  | Ok ls => option_eqb str_eqb (ob_local o) (Some (content_of ls)) && negb (ob_new o)
  | Err _ => false
  end.

Definition property_holds (s : scenario) (o : observation) : bool :=
  match verdict_of s with
  | SafetyOnly => returned_is_local o || failed_safely s o
  | MustConverge => converged s o
  | MustFail => failed_safely s o
  | Either => converged s o || failed_safely s o
  end.
