(** Case format evaluated by the correspondence check of C18.
    [agree]: the model reproduces what the implementation did.
    [holds]: the property itself, judged on what the implementation did,
             against the ed semantics of EdSpec. *)
From Coq Require Import String.
From Verif Require Import Lib.Base Lib.Dec Lib.PySlice Gen.PyChars Pdiff.Ed Pdiff.EdSpec.

Record case := mk {
  c_bytes : bool;                       (* bytes flavour (ASCII-only \d) or str *)
  c_old : list string;
  c_script : list string;
  c_expect : option (list string);      (* the target file, when the script was derived from one *)
  c_obs : result (list string);         (* what the implementation did, patches streamed into patch_lines *)
  c_obs2 : result (list string);        (* the same with the patches collected into a list first *)
}.

Definition model_run (b : bool) (old script : list str) : result (list str) :=
  if b then apply_script is_ascii_digit ascii_digit_val old script
  else apply_script re_d nd_val old script.

Definition dec_obs (o : result (list string)) : result (list str) :=
  match o with Ok ls => Ok (map dec ls) | Err e => Err e end.

(** the model reproduces the two observed results *)
Definition agree_obs (c : case) : bool :=
  let m := model_run (c_bytes c) (map dec (c_old c)) (map dec (c_script c)) in
  result_eqb strs_eqb m (dec_obs (c_obs c)) && result_eqb strs_eqb m (dec_obs (c_obs2 c)).

(** ... and, when the harness derived the script from a target file, the model itself produces that target
    (so that the correspondence also confronts the model with the diff-derived expectation; with this conjunct
    [agree c = true -> holds c = true] holds for every case, Props/C18.v) *)
Definition agree_expect (c : case) : bool :=
  match c_expect c with
  | Some n => result_eqb strs_eqb (model_run (c_bytes c) (map dec (c_old c)) (map dec (c_script c))) (Ok (map dec n))
  | None => true
  end.

Definition agree (c : case) : bool := agree_obs c && agree_expect c.

(** A decimal digit the str pattern accepts but ed's grammar does not:
    such scripts are outside the property's domain. *)
Definition has_foreign_digit (ls : list str) : bool :=
  existsb (existsb (fun ch => re_d ch && negb (is_ascii_digit ch))) ls.

Definition holds_obs (c : case) (obs : result (list str)) : bool :=
  let old := map dec (c_old c) in
  let script := map dec (c_script c) in
  (match c_expect c with
   | Some n => result_eqb strs_eqb obs (Ok (map dec n))
   | None => true
   end)
  &&
  (match spec_parse script with
   | Some cs =>
       match ed_run old cs with
       | Some b => result_eqb strs_eqb obs (Ok b)
       | None => true                       (* addresses outside the buffer: unspecified *)
       end
   | None =>
       if has_foreign_digit script then true
       else result_eqb strs_eqb obs (Err ValueError)
   end).

Definition holds (c : case) : bool :=
  holds_obs c (dec_obs (c_obs c)) && holds_obs c (dec_obs (c_obs2 c)).

Definition bad_agree (cs : list case) : list N := bad agree cs.
Definition bad_holds (cs : list case) : list N := bad holds cs.
