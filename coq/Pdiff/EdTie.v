(** Tie by regeneration for C18 — proofs. *)
From Coq Require Import Lia.
From Verif Require Import Lib.Base Lib.Dec Lib.PyStr Lib.PySlice Lib.Tr Gen.PyChars
  Pdiff.Ed Pdiff.TrPrims Gen.TrEd.

Local Open Scope Z_scope.

(** ** the inner loop: collecting the text block of an a/c command *)

(** [for c in i: … lines.append(c) … else: raise]: Some (block, rest of the iterator) or
    None = ValueError (empty line, or the stream ends before the terminator). *)
Fixpoint collect (i : list str) (acc : list str) : option (list str * list str) :=
  match i with
  | [] => None
  | c :: i' =>
      match c with
      | [] => None
      | _ => if is_terminator c then Some (acc, i') else collect i' (acc ++ [c])
      end
  end.

Lemma str_in_empty c : tr_str_in c [[]%N; []%N] = match c with [] => true | _ => false end.
Proof. destruct c; reflexivity. Qed.

Lemma str_in_terminator c :
  tr_str_in c [[46; 10]%N; [46]%N; [46; 10]%N; [46]%N] = is_terminator c.
Proof.
  unfold tr_str_in, is_terminator. cbn [existsb].
  destruct (str_eqb c [46%N; 10%N]), (str_eqb c [46%N]); reflexivity.
Qed.

Lemma loop2_eq :
  forall i fuel (kx : bool -> list str -> list patch -> option trp_pattern -> list str -> option trp_pattern ->
                  str -> (str * option str * str) -> str -> option str -> str -> Z -> Z -> list str ->
                  result (list patch))
         b source out re_cmd patch_re line m first_ last_ cmd first last lines,
    (length i < fuel)%nat ->
    tr_patches_from_ed_script_loop2 fuel kx b source out re_cmd i patch_re line m first_ last_ cmd first last lines
    = match collect i lines with
      | None => Err ValueError
      | Some (ls, rest) => kx b source out re_cmd rest patch_re line m first_ last_ cmd first last ls
      end.
Proof.
  induction i as [|c i IH]; intros fuel kx b source out re_cmd patch_re line m first_ last_ cmd first last lines Hf;
    (destruct fuel as [|fuel]; [cbn [length] in Hf; lia|]).
  - reflexivity.
  - cbn [tr_patches_from_ed_script_loop2 collect].
    rewrite str_in_empty, str_in_terminator.
    destruct c as [|ch c]; [reflexivity|].
    destruct (is_terminator (ch :: c)); [reflexivity|].
    apply IH. cbn [length] in Hf. lia.
Qed.

Lemma collect_length i : forall acc ls rest,
  collect i acc = Some (ls, rest) -> (length rest < length i)%nat.
Proof.
  induction i as [|c i IH]; intros acc ls rest H; cbn [collect] in H; [discriminate|].
  destruct c as [|ch c]; [discriminate|].
  destruct (is_terminator (ch :: c)).
  - injection H as _ <-. cbn [length]. lia.
  - apply IH in H. cbn [length]. lia.
Qed.

Section Leaf.
Variable is_digit : N -> bool.
Variable digit_val : N -> N.

(** the model's block state = [collect] *)
Lemma parse_inblk i : forall f l racc,
  parse is_digit digit_val (InBlk f l racc) i
  = match collect i (rev racc) with
    | None => Err ValueError
    | Some (ls, rest) => do ps <- parse is_digit digit_val Top rest; Ok ((f, l, ls) :: ps)
    end.
Proof.
  induction i as [|c i IH]; intros f l racc; cbn [parse collect]; [reflexivity|].
  destruct c as [|ch c]; [reflexivity|].
  destruct (is_terminator (ch :: c)); [reflexivity|].
  rewrite IH. reflexivity.
Qed.

(** [int()] on a digit run *)
Definition int_of (s : str) : result Z :=
  match s with
  | [] => Err ValueError
  | _ => if forallb is_digit s then Ok (Z.of_N (horner digit_val 0 s)) else Err ValueError
  end.

Lemma span_digits_all l : forallb is_digit (fst (span_digits is_digit l)) = true.
Proof.
  induction l as [|c l IH]; cbn [span_digits]; [reflexivity|].
  destruct (is_digit c) eqn:E; [|reflexivity].
  destruct (span_digits is_digit l) as [d r]. cbn [fst forallb] in *. now rewrite E, IH.
Qed.

Lemma int_of_digits d : d <> [] -> forallb is_digit d = true ->
  int_of d = Ok (Z.of_N (horner digit_val 0 d)).
Proof. intros Hne Hd. unfold int_of. rewrite Hd. destruct d; [contradiction|reflexivity]. Qed.

(** the match on the literal 44 (',') as a test *)
Lemma match_cmd_unfold l :
  match_cmd is_digit digit_val l =
  let (d1, r1) := span_digits is_digit l in
  match d1 with
  | [] => None
  | _ =>
    match r1 with
    | [] => None
    | x :: r2 =>
        if (x =? 44)%N then
          let (d2, r3) := span_digits is_digit r2 in
          match d2, r3 with
          | _ :: _, c :: r4 =>
              if is_cmd_char c && at_dollar r4
              then Some (horner digit_val 0 d1, Some (horner digit_val 0 d2), c) else None
          | _, _ => None
          end
        else
          if is_cmd_char x && at_dollar r2
          then Some (horner digit_val 0 d1, None, x) else None
    end
  end.
Proof.
  unfold match_cmd. destruct (span_digits is_digit l) as [d1 r1].
  destruct d1 as [|d d1]; [reflexivity|]. destruct r1 as [|x r2]; [reflexivity|].
  destruct x as [|p]; [reflexivity|].
  do 6 (destruct p as [p|p|]; try reflexivity).
Qed.

(** what the regenerated code does with a match: groups as text, then int() of the groups *)
Lemma match_cmd_groups l a b0 c :
  match_cmd is_digit digit_val l = Some (a, b0, c) ->
  exists g1 g2,
    cmd_groups is_digit digit_val l = Some (g1, g2, [c])
    /\ int_of g1 = Ok (Z.of_N a)
    /\ match b0 with
       | None => g2 = None
       | Some n => exists s, g2 = Some s /\ int_of s = Ok (Z.of_N n)
       end.
Proof.
  intros H. unfold cmd_groups. rewrite H. rewrite match_cmd_unfold in H.
  pose proof (span_digits_all l) as Hd1.
  destruct (span_digits is_digit l) as [d1 r1]. cbn [fst] in Hd1.
  destruct d1 as [|d d1]; [discriminate|]. destruct r1 as [|x r2]; [discriminate|].
  destruct (x =? 44)%N.
  - cbn [tl]. pose proof (span_digits_all r2) as Hd2.
    destruct (span_digits is_digit r2) as [d2 r3]. cbn [fst] in Hd2 |- *.
    destruct d2 as [|e d2]; [discriminate|]. destruct r3 as [|c' r4]; [discriminate|].
    destruct (is_cmd_char c' && at_dollar r4); [|discriminate].
    injection H as <- <- <-.
    exists (d :: d1), (Some (e :: d2)). split; [reflexivity|]. split.
    + now apply int_of_digits.
    + exists (e :: d2). split; [reflexivity|]. now apply int_of_digits.
  - destruct (is_cmd_char x && at_dollar r2); [|discriminate].
    injection H as <- <- <-.
    exists (d :: d1), None. split; [reflexivity|]. split; [|reflexivity].
    now apply int_of_digits.
Qed.

Lemma match_cmd_none_groups l :
  match_cmd is_digit digit_val l = None -> cmd_groups is_digit digit_val l = None.
Proof. intros H. unfold cmd_groups. now rewrite H. Qed.

End Leaf.

Definition pat_of (b : bool) : trp_pattern := if b then PatBytes else PatStr.

Lemma trp_match_pat b line :
  trp_match b (Some (pat_of b)) line = Ok (cmd_groups (trp_is_digit b) (trp_digit_val b) line).
Proof. destruct b; reflexivity. Qed.

Lemma trp_int_eq b s : trp_int b s = int_of (trp_is_digit b) (trp_digit_val b) s.
Proof. reflexivity. Qed.

Lemma ofN_eqb (c k : N) : (Z.of_N c =? Z.of_N k)%Z = (c =? k)%N.
Proof.
  destruct (N.eqb_spec c k) as [->|Hne]; [apply Z.eqb_refl|].
  apply Z.eqb_neq. intros H. apply Hne. now apply N2Z.inj.
Qed.

Lemma ok_app_bind (out : list patch) (x : patch) (r : result (list patch)) :
  match r with Ok ps => Ok ((out ++ [x]) ++ ps) | Err e => Err e end
  = match (do ps <- r; Ok (x :: ps)) with Ok ps => Ok (out ++ ps) | Err e => Err e end.
Proof. destruct r; cbn [bind]; [now rewrite <- app_assoc|reflexivity]. Qed.

(** the outer loop.  [patch_re] is None before the first line and the flavour's pattern afterwards. *)
Lemma loop1_eq b source re_cmd : forall fuel i out patch_re,
  (length i < fuel)%nat ->
  patch_re = None \/ patch_re = Some (pat_of b) ->
  tr_patches_from_ed_script_loop1 fuel b source out re_cmd i patch_re
  = match parse (trp_is_digit b) (trp_digit_val b) Top i with
    | Ok ps => Ok (out ++ ps)
    | Err e => Err e
    end.
Proof.
  induction fuel as [|fuel IH]; intros i out patch_re Hf Hpr; [lia|].
  destruct i as [|line i].
  - cbn [tr_patches_from_ed_script_loop1 parse]. now rewrite app_nil_r.
  - cbn [length] in Hf.
    cbn [tr_patches_from_ed_script_loop1 parse].
    assert (Hpat : (if trp_isinstance b line TyBytes then Some PatBytes else Some PatStr) = Some (pat_of b))
      by (destruct b; reflexivity).
    rewrite ?Hpat.
    destruct Hpr as [-> | ->]; cbn [tr_is_some negb].
    all: rewrite trp_match_pat; cbn [bind].
    all: destruct (match_cmd (trp_is_digit b) (trp_digit_val b) line) as [[[a b0] c]|] eqn:Hm;
      [|rewrite (match_cmd_none_groups _ _ _ Hm); reflexivity].
    all: destruct (match_cmd_groups _ _ _ _ _ _ Hm) as (g1 & g2 & Hg & Hi1 & Hi2).
    all: rewrite Hg; cbn [trp_groups]; rewrite trp_int_eq, Hi1; cbn [bind].
    all: destruct b0 as [n|];
      [destruct Hi2 as (s & -> & Hs); rewrite trp_int_eq, Hs | subst g2]; cbn [bind tr_ord].
    all: change 100%Z with (Z.of_N 100); change 97%Z with (Z.of_N 97); rewrite !ofN_eqb.
    all: destruct (c =? 100)%N;
      [rewrite IH by (first [lia | right; reflexivity]); apply ok_app_bind|].
    all: destruct (c =? 97)%N; try reflexivity.
    all: rewrite loop2_eq by lia; rewrite parse_inblk; cbn [rev].
    all: destruct (collect i []) as [[ls rest]|] eqn:Hc; [|reflexivity].
    all: apply collect_length in Hc.
    all: rewrite IH by (first [lia | right; reflexivity]); apply ok_app_bind.
Qed.

(** ** the two functions *)

Lemma tr_patches_from_ed_script_eq b source :
  tr_patches_from_ed_script b source = parse (trp_is_digit b) (trp_digit_val b) Top source.
Proof.
  unfold tr_patches_from_ed_script.
  rewrite loop1_eq by (first [lia | left; reflexivity]).
  destruct (parse (trp_is_digit b) (trp_digit_val b) Top source); reflexivity.
Qed.

Lemma patch_lines_loop_eq patches0 : forall ps lines,
  tr_patch_lines_loop1 ps lines patches0 = Ok (patch_lines lines ps).
Proof.
  induction ps as [|[[f l] args] ps IH]; intros lines; cbn [tr_patch_lines_loop1]; [reflexivity|].
  rewrite IH. reflexivity.
Qed.

Lemma tr_patch_lines_eq lines patches :
  tr_patch_lines lines patches = Ok (patch_lines lines patches).
Proof. unfold tr_patch_lines. apply patch_lines_loop_eq. Qed.

(** both together: what [patch_lines(lines, patches_from_ed_script(script))] leaves in [lines]
    (or the exception), with the patches collected first *)
Lemma tr_apply_script_eq b lines script :
  (do ps <- tr_patches_from_ed_script b script; tr_patch_lines lines ps)
  = apply_script (trp_is_digit b) (trp_digit_val b) lines script.
Proof.
  rewrite tr_patches_from_ed_script_eq. unfold apply_script.
  destruct (parse (trp_is_digit b) (trp_digit_val b) Top script); cbn [bind]; [apply tr_patch_lines_eq|reflexivity].
Qed.
