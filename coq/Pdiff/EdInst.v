(** The two instances of the digit class: bytes pattern (ASCII) and str pattern
    (Unicode Nd, table regenerated from the interpreter). *)
From Verif Require Import Lib.Base Lib.Dec Lib.PySlice Gen.PyChars Pdiff.Ed Pdiff.EdSpec Pdiff.EdProofs.

Lemma ascii_digit_cases c :
  is_ascii_digit c = true ->
  In c [48; 49; 50; 51; 52; 53; 54; 55; 56; 57]%N.
Proof.
  unfold is_ascii_digit. intros H. apply andb_true_iff in H. destruct H as [H1 H2].
  apply N.leb_le in H1, H2. cbn [In].
  assert (c = 48 \/ c = 49 \/ c = 50 \/ c = 51 \/ c = 52 \/ c = 53 \/ c = 54
          \/ c = 55 \/ c = 56 \/ c = 57)%N as Hc by lia.
  intuition.
Qed.

Lemma digit_class_ok_bytes : digit_class_ok is_ascii_digit ascii_digit_val.
Proof.
  repeat split; auto.
Qed.

Lemma digit_class_ok_str : digit_class_ok re_d nd_val.
Proof.
  split; [|repeat split; vm_compute; reflexivity].
  intros c Hc. apply ascii_digit_cases in Hc. cbn [In] in Hc.
  repeat (destruct Hc as [<-|Hc]; [split; vm_compute; reflexivity|]).
  contradiction.
Qed.
