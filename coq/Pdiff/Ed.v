(** Model of debian_support.patches_from_ed_script / patch_lines.
    No proofs here: the model must still run when a proof breaks. *)
From Verif Require Import Lib.Base Lib.Dec Lib.PySlice.

Section Ed.
(** The pattern's digit class and int()'s digit value:
    ASCII for the bytes pattern, Unicode Nd for the str pattern. *)
Variable is_digit : N -> bool.
Variable digit_val : N -> N.

Fixpoint span_digits (s : str) : str * str :=
  match s with
  | c :: s' => if is_digit c then let (d, r) := span_digits s' in (c :: d, r) else ([], s)
  | [] => ([], [])
  end.

Definition is_cmd_char (c : N) : bool := (c =? 97)%N || (c =? 99)%N || (c =? 100)%N.

(** '$' : at the end, or just before a final LF. *)
Definition at_dollar (s : str) : bool :=
  match s with [] => true | [10%N] => true | _ => false end.

(** ^(\d+)(?:,(\d+))?([acd])$  — deterministic: digits, ',' and [acd] are disjoint. *)
Definition match_cmd (l : str) : option (N * option N * N) :=
  let (d1, r1) := span_digits l in
  match d1 with
  | [] => None
  | _ =>
    match r1 with
    | 44%N :: r2 =>
        let (d2, r3) := span_digits r2 in
        match d2, r3 with
        | _ :: _, c :: r4 =>
            if is_cmd_char c && at_dollar r4
            then Some (horner digit_val 0 d1, Some (horner digit_val 0 d2), c) else None
        | _, _ => None
        end
    | c :: r4 =>
        if is_cmd_char c && at_dollar r4
        then Some (horner digit_val 0 d1, None, c) else None
    | [] => None
    end
  end.

Definition patch := (Z * Z * list str)%type.

Inductive pstate :=
| Top
| InBlk (first last : Z) (racc : list str).

Definition is_terminator (l : str) : bool :=
  str_eqb l [46%N; 10%N] || str_eqb l [46%N].

(** patches_from_ed_script, as one pass over the script lines. *)
Fixpoint parse (st : pstate) (ls : list str) : result (list patch) :=
  match ls with
  | [] =>
      match st with
      | Top => Ok []
      | InBlk _ _ _ => Err ValueError     (* for ... else: raise ValueError *)
      end
  | line :: ls' =>
      match st with
      | Top =>
          match match_cmd line with
          | None => Err ValueError
          | Some (a, b, c) =>
              let a := Z.of_N a in
              if (c =? 100)%N then
                let first := (a - 1)%Z in
                let last := match b with None => (first + 1)%Z | Some b => Z.of_N b end in
                do ps <- parse Top ls'; Ok ((first, last, []) :: ps)
              else if (c =? 97)%N then
                match b with
                | Some _ => Err ValueError
                | None => parse (InBlk a a []) ls'
                end
              else
                let first := (a - 1)%Z in
                let last := match b with None => (first + 1)%Z | Some b => Z.of_N b end in
                parse (InBlk first last []) ls'
          end
      | InBlk f l racc =>
          match line with
          | [] => Err ValueError
          | _ =>
            if is_terminator line then
              do ps <- parse Top ls'; Ok ((f, l, rev racc) :: ps)
            else parse (InBlk f l (line :: racc)) ls'
          end
      end
  end.

Definition patch_lines (lines : list str) (ps : list patch) : list str :=
  fold_left (fun ls p => match p with (f, l, args) => slice_assign ls f l args end) ps lines.

(** patch_lines(lines, patches_from_ed_script(script)); the visible result is
    either the exception or the final content of [lines]. *)
Definition apply_script (lines script : list str) : result (list str) :=
  do ps <- parse Top script; Ok (patch_lines lines ps).

End Ed.
