(** Proofs for C19 (update_file).  The theorems are about the model functions of
    Pdiff/Update.v — the same definitions UpdateCheck.agree runs — and are stated
    against Pdiff/UpdateSpec.v (Part 1: the verdict functions [holds] uses;
    Part 2: what "a repository publishes a pdiff index for a history" means). *)
From Coq Require Import String.
From Verif Require Import Lib.Base Lib.PyStr Lib.Dec Lib.PySlice
  Gen.PyChars Pdiff.Ed Pdiff.EdSpec Pdiff.EdProofs Pdiff.EdInst
  Pdiff.Update Pdiff.UpdateSpec Pdiff.UpdateCheck.

(** * 0. Small general facts *)

Lemma option_str_eqb_refl (o : option str) : option_eqb str_eqb o o = true.
Proof. destruct o; simpl; [apply str_eqb_refl|reflexivity]. Qed.

Lemma strs_eqb_refl (l : list str) : strs_eqb l l = true.
Proof. now apply strs_eqb_eq. Qed.

Lemma str_neq_eqb (a b : str) : a <> b -> str_eqb a b = false.
Proof. intros Hne. destruct (str_eqb a b) eqn:E; [|reflexivity]. now apply str_eqb_eq in E. Qed.

Lemma option_str_eqb_eq (a b : option str) : option_eqb str_eqb a b = true <-> a = b.
Proof.
  destruct a, b; simpl; split; intros E; try discriminate; try reflexivity.
  - apply str_eqb_eq in E. now subst.
  - inversion E. apply str_eqb_refl.
Qed.

Lemma result_strs_eqb_eq (a b : result (list str)) :
  result_eqb strs_eqb a b = true <-> a = b.
Proof.
  destruct a, b; simpl; split; intros E; try discriminate.
  - apply strs_eqb_eq in E. now subst.
  - inversion E. apply strs_eqb_refl.
  - apply err_eqb_eq in E. now subst.
  - inversion E. now apply err_eqb_eq.
Qed.

(** * 1. replace_file: the effect sequence *)

Lemma write_all_ok ls : forall buf s b s',
  write_all ls buf s = (true, b, s') -> b = buf ++ ls.
Proof.
  induction ls as [|l ls IH]; intros buf s b s' E; cbn [write_all] in E.
  - inversion E. now rewrite app_nil_r.
  - destruct (next s) as [fail s1]. destruct fail; [discriminate|].
    apply IH in E. now rewrite <- app_assoc in E.
Qed.

(** What one run leaves behind, as the property phrases it. *)
Definition outcome_safe {A} (written : A -> list str) (fs : fsstate) (sc : sched)
    (out : result A * fsstate) : Prop :=
  match fst out with
  | Ok a => f_local (snd out) = Some (written a) /\ f_new (snd out) = None
  | Err _ => f_local (snd out) = f_local fs
             /\ (s_unlink sc = false -> f_new (snd out) = None)
  end.

Lemma replace_file_safe lines fs sc :
  f_new fs = None ->
  outcome_safe (fun _ => lines) fs sc (replace_file lines fs sc).
Proof.
  intros Hn. unfold outcome_safe, replace_file.
  destruct (next (s_eff sc)) as [fo s1]. destruct fo.
  - unfold finally_unlink. rewrite Hn. cbn. auto.
  - destruct (write_all lines [] s1) as [[ok buf] s2] eqn:Ew.
    destruct (next s2) as [fc s3].
    destruct (negb ok || fc) eqn:E.
    + unfold finally_unlink. cbn [f_new f_local].
      destruct (s_unlink sc); cbn; split; auto; intros; discriminate.
    + destruct (next s3) as [fr s4]. destruct fr.
      * unfold finally_unlink. cbn [f_new f_local].
        destruct (s_unlink sc); cbn; split; auto; intros; discriminate.
      * unfold finally_unlink. cbn.
        apply orb_false_iff in E. destruct E as [E _].
        apply negb_false_iff in E. subst ok.
        apply write_all_ok in Ew. cbn in Ew. subst buf. auto.
Qed.

(** A fault anywhere among the effects of one complete replacement — open, one
    write per line, close, rename — makes replace_file raise. *)
Lemma write_all_fault ls : forall buf s ok b s',
  write_all ls buf s = (ok, b, s') ->
  existsb (fun x => x) (firstn (List.length ls) s) = true -> ok = false.
Proof.
  induction ls as [|l ls IH]; intros buf s ok b s' E Hf; cbn [write_all] in E.
  - cbn in Hf. discriminate.
  - destruct s as [|x s]; [cbn in Hf; discriminate|].
    cbn [next] in E. cbn [List.length firstn existsb] in Hf. destruct x.
    + now inversion E.
    + cbn in Hf. eapply IH; eassumption.
Qed.

Lemma write_all_rest ls : forall buf s b s',
  write_all ls buf s = (true, b, s') -> s' = skipn (List.length ls) s.
Proof.
  induction ls as [|l ls IH]; intros buf s b s' E; cbn [write_all] in E.
  - now inversion E.
  - destruct s as [|x s]; cbn [next] in E.
    + apply IH in E. rewrite E. now rewrite !skipn_nil.
    + destruct x; [discriminate|]. apply IH in E. exact E.
Qed.

Lemma existsb_firstn_split (n m : nat) (s : list bool) :
  existsb (fun x => x) (firstn (n + m) s) =
  existsb (fun x => x) (firstn n s) || existsb (fun x => x) (firstn m (skipn n s)).
Proof.
  revert s. induction n as [|n IH]; intros s; cbn [plus firstn skipn existsb]; [reflexivity|].
  destruct s as [|x s]; cbn [firstn existsb skipn].
  - now rewrite firstn_nil.
  - rewrite IH. now rewrite orb_assoc.
Qed.

Lemma replace_file_fault lines fs sc :
  fs_fault_certain lines (s_eff sc) = true ->
  is_ok (fst (replace_file lines fs sc)) = false.
Proof.
  unfold fs_fault_certain, replace_file. intros Hf.
  assert (Hres : forall fs0, is_ok (fst (finally_unlink (Err IOError) fs0 sc)) = false).
  { intros fs0. unfold finally_unlink. destruct (f_new fs0); [|reflexivity].
    destruct (s_unlink sc); reflexivity. }
  destruct (s_eff sc) as [|x s]; [now rewrite firstn_nil in Hf|].
  cbn [next]. destruct x; [now apply Hres|].
  replace (List.length lines + 3)%nat with (S (List.length lines + 2)) in Hf by lia.
  cbn [firstn existsb orb] in Hf.
  destruct (write_all lines [] s) as [[ok buf] s2] eqn:Ew.
  rewrite existsb_firstn_split in Hf.
  destruct (existsb (fun x => x) (firstn (List.length lines) s)) eqn:E1.
  - pose proof (write_all_fault _ _ _ _ _ _ Ew E1) as ->.
    destruct (next s2). cbn [negb orb]. now apply Hres.
  - cbn [orb] in Hf. destruct ok.
    + apply write_all_rest in Ew. subst s2.
      destruct (skipn (List.length lines) s) as [|c s3]; [discriminate|].
      cbn [next negb orb]. destruct c; [now apply Hres|].
      cbn [firstn existsb orb] in Hf.
      destruct s3 as [|r s4]; [discriminate|]. cbn [next]. cbn [firstn existsb] in Hf.
      destruct r; [now apply Hres|]. cbn in Hf. discriminate.
    + destruct (next s2). cbn [negb orb]. now apply Hres.
Qed.

(** With no fault scheduled the replacement happens. *)
Definition no_faults (sc : sched) : bool :=
  forallb negb (s_eff sc) && negb (s_unlink sc).

Lemma next_quiet s : forallb negb s = true ->
  fst (next s) = false /\ forallb negb (snd (next s)) = true.
Proof.
  destruct s as [|x s]; cbn; [auto|]. intros E. apply andb_true_iff in E.
  destruct E as [E1 E2]. apply negb_true_iff in E1. auto.
Qed.

Lemma write_all_quiet ls : forall buf s, forallb negb s = true ->
  exists s', write_all ls buf s = (true, buf ++ ls, s') /\ forallb negb s' = true.
Proof.
  induction ls as [|l ls IH]; intros buf s Hs; cbn [write_all].
  - exists s. now rewrite app_nil_r.
  - destruct (next_quiet s Hs) as [E1 E2]. destruct (next s) as [fail s1]. cbn in E1, E2.
    subst fail. destruct (IH (buf ++ [l]) s1 E2) as [s' [E3 E4]].
    exists s'. rewrite E3. now rewrite <- app_assoc.
Qed.

(** no fault among the effects (whether or not the unlink would fail: it is not
    attempted once the rename has happened) *)
Definition eff_quiet (sc : sched) : bool := forallb negb (s_eff sc).

Lemma no_faults_eff_quiet sc : no_faults sc = true -> eff_quiet sc = true.
Proof. unfold no_faults. intros E. apply andb_prop in E. tauto. Qed.

Lemma replace_file_effquiet lines fs sc :
  eff_quiet sc = true -> f_new fs = None ->
  replace_file lines fs sc = (Ok tt, mkfs (Some lines) None).
Proof.
  unfold eff_quiet. intros Hq Hn.
  unfold replace_file.
  destruct (next_quiet _ Hq) as [E1 E2]. destruct (next (s_eff sc)) as [fo s1].
  cbn in E1, E2. subst fo.
  destruct (write_all_quiet lines [] s1 E2) as [s2 [Ew Hs2]]. rewrite Ew. cbn [app].
  destruct (next_quiet _ Hs2) as [E3 E4]. destruct (next s2) as [fc s3].
  cbn in E3, E4. subst fc. cbn [negb orb].
  destruct (next_quiet _ E4) as [E5 _]. destruct (next s3) as [fr s4]. cbn in E5. subst fr.
  reflexivity.
Qed.

Lemma replace_file_quiet lines fs sc :
  no_faults sc = true -> f_new fs = None ->
  replace_file lines fs sc = (Ok tt, mkfs (Some lines) None).
Proof. intros Hq. apply replace_file_effquiet. now apply no_faults_eff_quiet. Qed.

(** * 2. update_file is safe under EVERY environment and EVERY fault schedule *)

Section Safety.
Variables is_space is_linebreak is_digit : N -> bool.
Variable digit_val : N -> N.
Variable H : hkind -> list str -> str.

Notation update_with_index := (update_with_index is_space is_linebreak is_digit digit_val H).
Notation update_file := (update_file is_space is_linebreak is_digit digit_val H).

Lemma download_file_safe e fs sc :
  f_new fs = None -> outcome_safe (fun ls => ls) fs sc (download_file e fs sc).
Proof.
  intros Hn. unfold download_file. destruct (e_full e) as [lines|x].
  - pose proof (replace_file_safe lines fs sc Hn) as Hs.
    destruct (replace_file lines fs sc) as [r fs']. unfold outcome_safe in *. cbn in *.
    destruct r; exact Hs.
  - unfold outcome_safe. cbn. auto.
Qed.

Lemma unchanged_safe {A} (w : A -> list str) fs sc x :
  f_new fs = None -> outcome_safe w fs sc (Err x, fs).
Proof. intros Hn. unfold outcome_safe. cbn. auto. Qed.

Lemma update_with_index_safe e idx lines fs sc :
  f_new fs = None -> f_local fs = Some lines ->
  outcome_safe (fun ls => ls) fs sc (update_with_index e idx lines fs sc).
Proof.
  intros Hn Hl. unfold Update.update_with_index.
  destruct idx as [| |paras]; try now apply download_file_safe.
  destruct (negb (hash_avail e (choose_kind (concat paras)))); [now apply unchanged_safe|].
  destruct (run_fields _ _ _ _ _ _) as [st| |]; try now apply download_file_safe.
  2: { unfold outcome_safe. cbn. auto. }
  destruct (st_remote st) as [rh|]; [|now apply download_file_safe].
  destruct (_ || _); [now apply download_file_safe|].
  destruct (apply_patches _ _ _ _ _ _ _ _) as [lines'|x]; [|now apply unchanged_safe].
  destruct (negb _); [now apply unchanged_safe|].
  pose proof (replace_file_safe lines' fs sc Hn) as Hs.
  destruct (replace_file lines' fs sc) as [r fs']. unfold outcome_safe in *. cbn in *.
  destruct r; exact Hs.
Qed.

Theorem update_file_safe e fs sc :
  f_new fs = None ->
  outcome_safe (fun ls => ls) fs sc (update_file e fs sc).
Proof.
  intros Hn. unfold Update.update_file.
  destruct (f_local fs) as [lines|] eqn:Hl.
  - destruct (read_index is_space (e_index e)) as [idx|x]; [|now apply unchanged_safe].
    apply update_with_index_safe; assumption.
  - now apply download_file_safe.
Qed.

End Safety.

(** * 3. Reading the index of a publishing repository *)

Lemma names_distinct k :
  f_current k <> f_history k /\ f_current k <> f_patches k /\ f_history k <> f_patches k.
Proof. destruct k; repeat split; intros E; vm_compute in E; discriminate. Qed.

Lemma fname_current k : f_current k = fname (prefix_of k) "-Current".
Proof. reflexivity. Qed.
Lemma fname_history k : f_history k = fname (prefix_of k) "-History".
Proof. reflexivity. Qed.
Lemma fname_patches k : f_patches k = fname (prefix_of k) "-Patches".
Proof. reflexivity. Qed.

Lemma field_count_cons n a b fs :
  field_count n ((a, b) :: fs) = ((if str_eqb a n then 1 else 0) + field_count n fs)%nat.
Proof. unfold field_count. cbn [filter fst]. destruct (str_eqb a n); reflexivity. Qed.

Lemma field_is_cons n v a b fs :
  field_is n v ((a, b) :: fs) = (negb (str_eqb a n) || str_eqb b v) && field_is n v fs.
Proof. reflexivity. Qed.

Lemma versions_cons v steps : versions v steps = v :: tl (versions v steps).
Proof. destruct steps; reflexivity. Qed.

(** the newest version *)
Fixpoint final (v : list str) (steps : list pstep) : list str :=
  match steps with [] => v | s :: r => final (ps_new s) r end.

Lemma current_versions steps : forall v, current (versions v steps) = final v steps.
Proof.
  unfold current. induction steps as [|s r IH]; intros v; [reflexivity|].
  cbn [versions final]. rewrite <- IH. rewrite (versions_cons (ps_new s) r). reflexivity.
Qed.

Lemma final_in_versions steps : forall v, In (final v steps) (versions v steps).
Proof.
  induction steps as [|s r IH]; intros v; cbn [versions final]; [now left|].
  right. apply IH.
Qed.

Lemma distinct_NoDup names : distinct names = true -> NoDup names.
Proof.
  induction names as [|n r IH]; cbn [distinct]; intros E; [constructor|].
  apply andb_true_iff in E. destruct E as [E1 E2]. constructor; [|now apply IH].
  intros Hin. apply negb_true_iff in E1.
  assert (existsb (str_eqb n) r = true) as Hx.
  { apply existsb_exists. exists n. split; [assumption|apply str_eqb_refl]. }
  congruence.
Qed.

Section Index.
Variables is_space is_linebreak is_digit : N -> bool.
Variable digit_val : N -> N.
Variable H : hkind -> list str -> str.

Notation resplit := (resplit is_space).
Notation resplit_aux := (resplit_aux is_space).
Notation token_ok := (token_ok is_space).
Notation sep_ok := (sep_ok is_space).
Notation lb_free := (lb_free is_linebreak).
Notation splitlines_aux := (splitlines_aux is_linebreak false).
Notation hist_entries := (hist_entries is_space).
Notation patch_entries := (patch_entries is_space).
Notation step_field := (step_field is_space is_linebreak).
Notation run_fields := (run_fields is_space is_linebreak).

(** ** re.split(r'\s+') on a row of columns *)

Lemma resplit_aux_token t : forall s cur sk,
  forallb (fun c => negb (is_space c)) t = true ->
  resplit_aux (t ++ s) cur sk =
  resplit_aux s (rev t ++ cur) (match t with [] => sk | _ => false end).
Proof.
  induction t as [|c t IH]; intros s cur sk Ht; [reflexivity|].
  cbn [forallb] in Ht. apply andb_true_iff in Ht. destruct Ht as [Hc Ht].
  apply negb_true_iff in Hc. cbn [app Update.resplit_aux]. rewrite Hc.
  rewrite IH by assumption. cbn [rev]. rewrite <- app_assoc. cbn [app].
  destruct t; reflexivity.
Qed.

Lemma resplit_aux_skip w : forall s,
  forallb is_space w = true -> resplit_aux (w ++ s) [] true = resplit_aux s [] true.
Proof.
  induction w as [|c w IH]; intros s Hw; [reflexivity|].
  cbn [forallb] in Hw. apply andb_true_iff in Hw. destruct Hw as [Hc Hw].
  cbn [app Update.resplit_aux]. rewrite Hc. now apply IH.
Qed.

Lemma resplit_aux_sep w s cur :
  sep_ok w = true ->
  resplit_aux (w ++ s) cur false = rev cur :: resplit_aux s [] true.
Proof.
  unfold UpdateSpec.sep_ok. intros Hw. apply andb_true_iff in Hw. destruct Hw as [Hne Hw].
  destruct w as [|c w]; [discriminate|].
  cbn [forallb] in Hw. apply andb_true_iff in Hw. destruct Hw as [Hc Hw].
  cbn [app Update.resplit_aux]. rewrite Hc. now rewrite resplit_aux_skip.
Qed.

Lemma token_parts t : token_ok t = true ->
  t <> [] /\ forallb (fun c => negb (is_space c)) t = true.
Proof.
  unfold UpdateSpec.token_ok. intros E. apply andb_true_iff in E. destruct E as [E1 E2].
  split; [|assumption]. now destruct t.
Qed.

Lemma resplit_aux_tok t s cur sk :
  token_ok t = true ->
  resplit_aux (t ++ s) cur sk = resplit_aux s (rev t ++ cur) false.
Proof.
  intros Ht. destruct (token_parts t Ht) as [Hne Hns].
  rewrite resplit_aux_token by assumption. now destruct t.
Qed.

Lemma resplit_row w a b c :
  sep_ok w = true -> token_ok a = true -> token_ok b = true -> token_ok c = true ->
  resplit (row w a b c) = [a; b; c].
Proof.
  intros Hw Ha Hb Hc. unfold row, Update.resplit.
  rewrite resplit_aux_tok by assumption. rewrite resplit_aux_sep by assumption.
  rewrite resplit_aux_tok by assumption. rewrite resplit_aux_sep by assumption.
  rewrite <- (app_nil_r c). rewrite resplit_aux_tok by assumption.
  cbn [Update.resplit_aux]. now rewrite !app_nil_r, !rev_involutive.
Qed.

Lemma resplit_two w a b :
  sep_ok w = true -> token_ok a = true -> token_ok b = true ->
  resplit (a ++ w ++ b) = [a; b].
Proof.
  intros Hw Ha Hb. unfold Update.resplit.
  rewrite resplit_aux_tok by assumption. rewrite resplit_aux_sep by assumption.
  rewrite <- (app_nil_r b). rewrite resplit_aux_tok by assumption.
  cbn [Update.resplit_aux]. now rewrite !app_nil_r, !rev_involutive.
Qed.

(** ** value.splitlines() of a multi-line field *)

Hypothesis Hlb10 : is_linebreak 10 = true.

Lemma splitlines_aux_lbfree e : forall s cur,
  lb_free e = true ->
  splitlines_aux (e ++ s) cur = splitlines_aux s (rev e ++ cur).
Proof.
  induction e as [|c e IH]; intros s cur He; [reflexivity|].
  cbn [UpdateSpec.lb_free forallb] in He. apply andb_true_iff in He. destruct He as [Hc He].
  apply negb_true_iff in Hc. cbn [app PyStr.splitlines_aux]. rewrite Hc.
  rewrite IH by exact He. cbn [rev]. now rewrite <- app_assoc.
Qed.

Lemma splitlines_aux_lf s cur :
  splitlines_aux (10%N :: s) cur = rev cur :: splitlines_aux s [].
Proof.
  cbn [PyStr.splitlines_aux]. rewrite Hlb10. destruct s as [|y s].
  - now rewrite app_nil_r.
  - cbn [N.eqb Pos.eqb andb]. now rewrite app_nil_r.
Qed.

Lemma nonblank_cons e x :
  nonblank (e :: x) = if negb (is_nil_str e) then e :: nonblank x else nonblank x.
Proof. reflexivity. Qed.

Lemma nonblank_eof cur : nonblank (splitlines_aux [] cur) = nonblank [rev cur].
Proof.
  destruct cur as [|c cur]; [reflexivity|]. reflexivity.
Qed.

Lemma nonblank_splitlines es :
  forallb lb_free es = true ->
  nonblank (splitlines is_linebreak false (entries_value es)) = nonblank es.
Proof.
  unfold entries_value, splitlines.
  induction es as [|e es IH]; intros Hes; [reflexivity|].
  cbn [forallb] in Hes. apply andb_true_iff in Hes. destruct Hes as [He Hes].
  destruct es as [|e2 es].
  - cbn [join intersperse_concat]. rewrite <- (app_nil_r e) at 1.
    rewrite splitlines_aux_lbfree by assumption. rewrite nonblank_eof.
    now rewrite app_nil_r, rev_involutive.
  - rewrite join_cons by discriminate. cbn [app].
    rewrite splitlines_aux_lbfree by assumption. rewrite splitlines_aux_lf.
    rewrite app_nil_r, rev_involutive.
    rewrite 2!(nonblank_cons e). rewrite IH by assumption. reflexivity.
Qed.

(** ** the entry loops skip blank entries *)

Lemma hist_entries_nonblank lh es : forall acc,
  hist_entries lh es acc = hist_entries lh (nonblank es) acc.
Proof.
  induction es as [|e es IH]; intros acc; [reflexivity|].
  destruct e as [|c e].
  - cbn [Update.hist_entries is_nil]. apply IH.
  - change (nonblank ((c :: e) :: es)) with ((c :: e) :: nonblank es).
    cbn [Update.hist_entries is_nil].
    destruct (resplit (c :: e)) as [|h [|x [|n [|? ?]]]]; try reflexivity.
    destruct (_ || _); apply IH.
Qed.

Lemma patch_entries_nonblank es : forall d,
  patch_entries es d = patch_entries (nonblank es) d.
Proof.
  induction es as [|e es IH]; intros d; [reflexivity|].
  destruct e as [|c e].
  - cbn [Update.patch_entries is_nil]. apply IH.
  - change (nonblank ((c :: e) :: es)) with ((c :: e) :: nonblank es).
    cbn [Update.patch_entries is_nil].
    destruct (resplit (c :: e)) as [|h [|x [|n [|? ?]]]]; try reflexivity.
    apply IH.
Qed.

End Index.

(** * 4. The history walk, the digest table and the patch chain *)

Fixpoint chain_from (local v : list str) (steps : list pstep) : option (list pstep) :=
  match steps with
  | [] => None
  | s :: r => if lines_eqb v local then Some steps else chain_from local (ps_new s) r
  end.

(** H separates the local content from every published version (a boolean fact
    about finitely many digests, not an injectivity axiom) *)
Definition no_collision (Hk : list str -> str) (local : list str) (vs : list (list str)) : bool :=
  forallb (fun v => implb (str_eqb (Hk v) (Hk local)) (lines_eqb v local)) vs.

(** the mirror serves, under each patch name, the script of that step *)
Definition patches_published (e : env) (steps : list pstep) : bool :=
  forallb (fun s => result_eqb strs_eqb (e_patch e (ps_name s)) (Ok (ps_script s))) steps.

Definition patch_good (e : env) (s : pstep) : bool :=
  result_eqb strs_eqb (e_patch e (ps_name s)) (Ok (ps_script s)).

(** the patch cannot be fetched, or what is fetched does not have the recorded digest *)
Definition patch_bad (Hk : list str -> str) (e : env) (s : pstep) : bool :=
  match e_patch e (ps_name s) with
  | Err _ => true
  | Ok c => negb (str_eqb (Hk c) (Hk (ps_script s)))
  end.

Lemma chain_from_spec local steps : forall v sfx,
  chain_from local v steps = Some sfx ->
  chain_ok v steps = true ->
  chain_ok local sfx = true /\ final local sfx = final v steps /\ sfx <> []
  /\ (forall s, In s sfx -> In s steps).
Proof.
  induction steps as [|s r IH]; intros v sfx E Hc; [discriminate|].
  cbn [chain_from] in E. destruct (lines_eqb v local) eqn:Ev.
  - apply strs_eqb_eq in Ev. inversion E; subst. repeat split; auto. discriminate.
  - cbn [chain_ok] in Hc. apply andb_true_iff in Hc. destruct Hc as [_ Hc].
    destruct (IH _ _ E Hc) as (A & B & C & D). repeat split; auto.
    intros s0 Hs0. right. now apply D.
Qed.

Section Converge.
Variables is_space is_linebreak is_digit : N -> bool.
Variable digit_val : N -> N.
Variable H : hkind -> list str -> str.
Hypothesis Hlb10 : is_linebreak 10 = true.
Hypothesis Hdc : digit_class_ok is_digit digit_val.

Notation resplit := (resplit is_space).
Notation token_ok := (token_ok is_space).
Notation sep_ok := (sep_ok is_space).
Notation hist_entries := (hist_entries is_space).
Notation patch_entries := (patch_entries is_space).
Notation step_field := (step_field is_space is_linebreak).
Notation run_fields := (run_fields is_space is_linebreak).
Notation apply_patches := (apply_patches is_digit digit_val H).
Notation update_with_index := (update_with_index is_space is_linebreak is_digit digit_val H).
Notation update_file := (update_file is_space is_linebreak is_digit digit_val H).

Variable k : hkind.
Notation Hk := (H k).

Definition steps_tokens (steps : list pstep) : bool :=
  forallb (fun s => token_ok (ps_name s) && token_ok (ps_hsize s) && token_ok (ps_psize s)
                    && token_ok (Hk (ps_script s))) steps.

(** ** -History *)

Fixpoint walk (lh : str) (v : list str) (steps : list pstep) (acc : list str) : list str :=
  match steps with
  | [] => acc
  | s :: r =>
      if negb (is_nil acc) || str_eqb (Hk v) lh
      then walk lh (ps_new s) r (acc ++ [ps_name s])
      else walk lh (ps_new s) r acc
  end.

Lemma row_not_nil w a b c : token_ok a = true -> is_nil (row w a b c) = false.
Proof.
  intros Ha. destruct (token_parts is_space a Ha) as [Hne _]. unfold row.
  now destruct a.
Qed.

Lemma hist_entries_rows lh w steps : forall v acc,
  sep_ok w = true -> steps_tokens steps = true ->
  forallb (fun v => token_ok (Hk v)) (versions v steps) = true ->
  hist_entries lh (hist_rows Hk w v steps) acc = Some (walk lh v steps acc).
Proof.
  induction steps as [|s r IH]; intros v acc Hw Ht Hv; [reflexivity|].
  cbn [steps_tokens forallb] in Ht. apply andb_true_iff in Ht. destruct Ht as [Hs Ht].
  apply andb_true_iff in Hs. destruct Hs as [Hs H4].
  apply andb_true_iff in Hs. destruct Hs as [Hs H3].
  apply andb_true_iff in Hs. destruct Hs as [H1 H2].
  cbn [versions forallb] in Hv. apply andb_true_iff in Hv. destruct Hv as [Hv0 Hv].
  cbn [hist_rows Update.hist_entries walk].
  rewrite row_not_nil by assumption. rewrite resplit_row by assumption.
  destruct (_ || _); now apply IH.
Qed.

Lemma walk_nonempty lh steps : forall v acc,
  acc <> [] -> walk lh v steps acc = acc ++ map ps_name steps.
Proof.
  induction steps as [|s r IH]; intros v acc Hne; cbn [walk map]; [now rewrite app_nil_r|].
  destruct acc as [|a acc]; [congruence|]. cbn [is_nil negb orb].
  rewrite IH by (destruct acc; discriminate). now rewrite <- app_assoc.
Qed.

Lemma walk_chain_from local steps : forall v,
  no_collision Hk local (versions v steps) = true ->
  walk (Hk local) v steps [] =
  match chain_from local v steps with Some sfx => map ps_name sfx | None => [] end.
Proof.
  induction steps as [|s r IH]; intros v Hnc; [reflexivity|].
  cbn [versions no_collision forallb] in Hnc. apply andb_true_iff in Hnc.
  destruct Hnc as [Hv Hnc]. cbn [walk chain_from is_nil negb orb].
  destruct (lines_eqb v local) eqn:Ev.
  - apply strs_eqb_eq in Ev. subst v. rewrite str_eqb_refl.
    rewrite walk_nonempty by discriminate. reflexivity.
  - destruct (str_eqb (Hk v) (Hk local)); [discriminate|]. now apply IH.
Qed.

(** ** -Patches *)

Definition digest_table (steps : list pstep) : list (str * str) :=
  rev (map (fun s => (ps_name s, Hk (ps_script s))) steps).

Lemma patch_entries_rows w steps : forall d,
  sep_ok w = true -> steps_tokens steps = true ->
  patch_entries (patch_rows Hk w steps) d = Some (digest_table steps ++ d).
Proof.
  unfold digest_table.
  induction steps as [|s r IH]; intros d Hw Ht; [reflexivity|].
  cbn [steps_tokens forallb] in Ht. apply andb_true_iff in Ht. destruct Ht as [Hs Ht].
  apply andb_true_iff in Hs. destruct Hs as [Hs H4].
  apply andb_true_iff in Hs. destruct Hs as [Hs H3].
  apply andb_true_iff in Hs. destruct Hs as [H1 H2].
  cbn [patch_rows map Update.patch_entries].
  rewrite row_not_nil by assumption. rewrite resplit_row by assumption.
  fold (patch_rows Hk w r). rewrite IH by assumption.
  cbn [rev]. now rewrite <- app_assoc.
Qed.

Lemma dict_get_in (L : list (str * str)) d n h :
  NoDup (map fst L) -> In (n, h) L -> dict_get n (L ++ d) = Some h.
Proof.
  unfold dict_get. induction L as [|[a b] L IH]; intros Hnd Hin; [destruct Hin|].
  cbn [map fst] in Hnd. inversion Hnd as [|? ? Hna Hnd']; subst.
  cbn [app List.find fst]. destruct (str_eqb a n) eqn:Ea.
  - apply str_eqb_eq in Ea. subst a. destruct Hin as [Hin|Hin].
    + inversion Hin; subst. reflexivity.
    + exfalso. apply Hna. change n with (fst (n, h)). now apply in_map.
  - destruct Hin as [Hin|Hin].
    + inversion Hin; subst. now rewrite str_eqb_refl in Ea.
    + now apply IH.
Qed.

Lemma digest_table_get steps d s :
  distinct (map ps_name steps) = true -> In s steps ->
  dict_get (ps_name s) (digest_table steps ++ d) = Some (Hk (ps_script s)).
Proof.
  intros Hd Hin. apply dict_get_in.
  - unfold digest_table. rewrite map_rev, map_map. cbn [fst].
    apply NoDup_rev. now apply distinct_NoDup.
  - unfold digest_table. apply -> in_rev.
    apply (in_map (fun s => (ps_name s, Hk (ps_script s)))). exact Hin.
Qed.

(** ** the patch loop along a chain: C18's theorem applies to each step *)

Lemma step_script_exact s v :
  forallb seg_ok (ps_al s) = true -> lines_eqb (old_of (ps_al s)) v = true ->
  apply_script is_digit digit_val v (ps_script s) = Ok (ps_new s).
Proof.
  intros Hok Hv. apply strs_eqb_eq in Hv. subst v. unfold ps_script, ps_new.
  apply (script_matches_ed is_digit digit_val Hdc).
  - apply script_of_from_text_ok; [assumption|reflexivity].
  - now apply alignment_script_exact.
Qed.

Lemma apply_patches_chain e d sfx : forall v,
  chain_ok v sfx = true ->
  (forall s, In s sfx -> e_patch e (ps_name s) = Ok (ps_script s)) ->
  (forall s, In s sfx -> dict_get (ps_name s) d = Some (Hk (ps_script s))) ->
  apply_patches k e d (map ps_name sfx) v = Ok (final v sfx).
Proof.
  induction sfx as [|s r IH]; intros v Hc Hp Hd; [reflexivity|].
  cbn [chain_ok] in Hc. apply andb_true_iff in Hc. destruct Hc as [Hc Hr].
  apply andb_true_iff in Hc. destruct Hc as [Hok Hv].
  cbn [map Update.apply_patches final].
  rewrite (Hp s) by now left. rewrite (Hd s) by now left.
  rewrite str_eqb_refl. cbn [negb]. rewrite step_script_exact by assumption.
  apply IH; [assumption| |]; intros s0 Hs0; [apply Hp|apply Hd]; now right.
Qed.

End Converge.

(** * 5. The field loop on an index that publishes the history *)

Section Main.
Variables is_space is_linebreak is_digit : N -> bool.
Variable digit_val : N -> N.
Variable H : hkind -> list str -> str.
Hypothesis Hlb10 : is_linebreak 10 = true.
Hypothesis Hdc : digit_class_ok is_digit digit_val.

Notation resplit := (resplit is_space).
Notation hist_entries := (hist_entries is_space).
Notation patch_entries := (patch_entries is_space).
Notation step_field := (step_field is_space is_linebreak).
Notation run_fields := (run_fields is_space is_linebreak).
Notation apply_patches := (apply_patches is_digit digit_val H).
Notation update_with_index := (update_with_index is_space is_linebreak is_digit digit_val H).
Notation update_file := (update_file is_space is_linebreak is_digit digit_val H).

Lemma field_is_head n v a b fs :
  field_is n v ((a, b) :: fs) = true -> str_eqb a n = true -> b = v.
Proof.
  rewrite field_is_cons. intros E Ea. rewrite Ea in E. cbn in E.
  apply andb_true_iff in E. destruct E as [E _]. now apply str_eqb_eq.
Qed.

Lemma field_is_tail n v f fs : field_is n v (f :: fs) = true -> field_is n v fs = true.
Proof. unfold field_is. cbn [forallb]. intros E. apply andb_true_iff in E. tauto. Qed.

Lemma run_fields_spec k lh cv hv pv rh sz (W : list str -> list str) (PD : list (str * str)) :
  resplit cv = [rh; sz] ->
  (forall acc, hist_entries lh (splitlines is_linebreak false hv) acc = Some (W acc)) ->
  (forall d, patch_entries (splitlines is_linebreak false pv) d = Some (PD ++ d)) ->
  forall fs st,
  field_is (f_current k) cv fs = true ->
  field_is (f_history k) hv fs = true ->
  field_is (f_patches k) pv fs = true ->
  (field_count (f_history k) fs <= 1)%nat ->
  (field_count (f_patches k) fs <= 1)%nat ->
  run_fields k lh fs st =
    if (1 <=? field_count (f_current k) fs)%nat && str_eqb lh rh then UpToDate
    else Cont (mkst (if (1 <=? field_count (f_current k) fs)%nat then Some rh else st_remote st)
                    (if (1 <=? field_count (f_history k) fs)%nat then W (st_apply st) else st_apply st)
                    (if (1 <=? field_count (f_patches k) fs)%nat then PD ++ st_hashes st
                     else st_hashes st)).
Proof.
  intros Hcv HW HP. destruct (names_distinct k) as (Nch & Ncp & Nhp).
  induction fs as [|[name value] fs IH]; intros st Fc Fh Fp Ch Cp.
  - cbn. now destruct st.
  - pose proof (IH) as IH'.
    specialize (fun st => IH' st (field_is_tail _ _ _ _ Fc) (field_is_tail _ _ _ _ Fh)
                                (field_is_tail _ _ _ _ Fp)).
    rewrite field_count_cons in Ch, Cp. rewrite !field_count_cons.
    cbn [Update.run_fields Update.step_field].
    destruct (str_eqb name (f_current k)) eqn:EC.
    + pose proof (field_is_head _ _ _ _ _ Fc EC) as ->. apply str_eqb_eq in EC. subst name.
      pose proof (str_neq_eqb _ _ Nch) as E1. pose proof (str_neq_eqb _ _ Ncp) as E2.
      rewrite E1, E2 in *. cbn [plus] in *. rewrite Hcv.
      destruct (str_eqb lh rh) eqn:El; [reflexivity|].
      rewrite IH' by lia. rewrite !andb_false_r. cbn [st_remote st_apply st_hashes Nat.leb].
      destruct (field_count (f_current k) fs); reflexivity.
    + destruct (str_eqb name (f_history k)) eqn:EH.
      * pose proof (field_is_head _ _ _ _ _ Fh EH) as ->. apply str_eqb_eq in EH. subst name.
        pose proof (str_neq_eqb _ _ Nhp) as E2.
        rewrite E2 in *. cbn [plus] in *. rewrite HW.
        assert (field_count (f_history k) fs = 0)%nat as Z by lia.
        rewrite IH' by lia. rewrite Z. cbn [st_remote st_apply st_hashes Nat.leb]. reflexivity.
      * destruct (str_eqb name (f_patches k)) eqn:EP.
        -- pose proof (field_is_head _ _ _ _ _ Fp EP) as ->. cbn [plus] in *. rewrite HP.
           assert (field_count (f_patches k) fs = 0)%nat as Z by lia.
           rewrite IH' by lia. rewrite Z. cbn [st_remote st_apply st_hashes Nat.leb]. reflexivity.
        -- cbn [plus] in *. now apply IH'.
Qed.

(** Whatever -History and -Patches say: the recorded current digest is the only
    one the loop can pick up. *)
Lemma run_fields_remote k lh cv rh sz :
  resplit cv = [rh; sz] ->
  forall fs st,
  field_is (f_current k) cv fs = true ->
  (st_remote st = None \/ st_remote st = Some rh) ->
  match run_fields k lh fs st with
  | Cont st' => st_remote st' = None \/ st_remote st' = Some rh
  | UpToDate => str_eqb lh rh = true
  | Unusable => True
  end.
Proof.
  intros Hcv. induction fs as [|[name value] fs IH]; intros st Fc Hst; [exact Hst|].
  pose proof (field_is_tail _ _ _ _ Fc) as Fc'.
  cbn [Update.run_fields Update.step_field].
  destruct (str_eqb name (f_current k)) eqn:EC.
  - pose proof (field_is_head _ _ _ _ _ Fc EC) as ->. rewrite Hcv.
    destruct (str_eqb lh rh) eqn:El; [reflexivity|]. apply IH; [assumption|]. now right.
  - destruct (str_eqb name (f_history k)).
    + destruct (hist_entries _ _ _); [|exact I]. now apply IH.
    + destruct (str_eqb name (f_patches k)).
      * destruct (patch_entries _ _); [|exact I]. now apply IH.
      * now apply IH.
Qed.

End Main.

(** * 6. The theorems *)

(** What the property observes of a run of the model. *)
Definition observe (out : result (list str) * fsstate) : observation :=
  mkobs (fst out) (option_map (@concat N) (f_local (snd out))) (is_some (f_new (snd out))).

Definition full_published (e : env) (vn : list str) : bool :=
  result_eqb strs_eqb (e_full e) (Ok vn).

(** the full file, if it can be fetched at all, is the current content *)
Definition full_honest (e : env) (vn : list str) : bool :=
  match e_full e with Ok ls => lines_eqb ls vn | Err _ => true end.

(** replace_file(lines, local); return lines *)
Definition commit (lines : list str) (fs : fsstate) (sc : sched) : result (list str) * fsstate :=
  let (r, fs') := replace_file lines fs sc in
  (match r with Ok _ => Ok lines | Err x => Err x end, fs').

Lemma download_file_commit e fs sc :
  download_file e fs sc =
  match e_full e with Ok lines => commit lines fs sc | Err x => (Err x, fs) end.
Proof. reflexivity. Qed.

Lemma commit_effquiet lines fs sc :
  eff_quiet sc = true -> f_new fs = None ->
  commit lines fs sc = (Ok lines, mkfs (Some lines) None).
Proof. intros Hq Hn. unfold commit. now rewrite replace_file_effquiet. Qed.

Lemma commit_quiet lines fs sc :
  no_faults sc = true -> f_new fs = None ->
  commit lines fs sc = (Ok lines, mkfs (Some lines) None).
Proof. intros Hq Hn. unfold commit. now rewrite replace_file_quiet. Qed.

Lemma commit_fault lines fs sc :
  fs_fault_certain lines (s_eff sc) = true -> is_ok (fst (commit lines fs sc)) = false.
Proof.
  intros Hf. pose proof (replace_file_fault lines fs sc Hf) as E. unfold commit.
  destruct (replace_file lines fs sc) as [r fs']. cbn in *. now destruct r.
Qed.

Section Theorems.
Variables is_space is_linebreak is_digit : N -> bool.
Variable digit_val : N -> N.
Variable H : hkind -> list str -> str.
Hypothesis Hlb10 : is_linebreak 10 = true.
Hypothesis Hdc : digit_class_ok is_digit digit_val.

Notation update_with_index := (update_with_index is_space is_linebreak is_digit digit_val H).
Notation update_file := (update_file is_space is_linebreak is_digit digit_val H).
Notation publishes := (publishes is_space is_linebreak).
Notation index_records := (index_records is_space is_linebreak).
Notation run_fields := (run_fields is_space is_linebreak).

Lemma download_file_effquiet e fs sc vn :
  full_published e vn = true -> eff_quiet sc = true -> f_new fs = None ->
  download_file e fs sc = (Ok vn, mkfs (Some vn) None).
Proof.
  unfold full_published, download_file. intros Hf Hq Hn.
  apply result_strs_eqb_eq in Hf. rewrite Hf. now rewrite replace_file_effquiet.
Qed.

Lemma download_file_quiet e fs sc vn :
  full_published e vn = true -> no_faults sc = true -> f_new fs = None ->
  download_file e fs sc = (Ok vn, mkfs (Some vn) None).
Proof. intros Hf Hq. apply download_file_effquiet; [assumption|now apply no_faults_eff_quiet]. Qed.

Lemma current_ok_parts prefix Hk vn px :
  current_ok is_space prefix Hk vn px = true ->
  sep_ok is_space (px_sep px) = true
  /\ resplit is_space (Hk vn ++ px_sep px ++ px_cur_size px) = [Hk vn; px_cur_size px]
  /\ field_is (fname prefix "-Current") (Hk vn ++ px_sep px ++ px_cur_size px) (px_fields px) = true.
Proof.
  unfold current_ok. intros E.
  do 3 (apply andb_prop in E; let X := fresh "X" in destruct E as [E X]).
  repeat split; try assumption. now apply resplit_two.
Qed.

(** ** the field loop on an index that records a history *)
Lemma run_fields_published k local v0 steps psteps px :
  index_records (prefix_of k) (H k) v0 steps psteps px = true ->
  let vn := current (versions v0 steps) in
  run_fields k (H k local) (px_fields px) (mkst None [] []) =
    if str_eqb (H k local) (H k vn) then UpToDate
    else Cont (mkst (Some (H k vn)) (walk H k (H k local) v0 steps [])
                    (digest_table H k psteps ++ [])).
Proof.
  unfold UpdateSpec.index_records. intros E.
  repeat (apply andb_prop in E; let X := fresh "X" in destruct E as [E X]).
  rename E into Ptok, X10 into Pptok, X9 into Pvtok, X8 into Pcur, X7 into Pc1, X6 into Ph1,
    X5 into Phis, X4 into Phlb, X3 into Phrows, X2 into Pp1, X1 into Ppis, X0 into Pplb,
    X into Pprows.
  destruct (current_ok_parts _ _ _ _ Pcur) as (Hsep & Hcv & Fc).
  apply strs_eqb_eq in Phrows, Pprows. apply Nat.eqb_eq in Ph1, Pp1.
  set (vn := current (versions v0 steps)) in *.
  rewrite (run_fields_spec is_space is_linebreak k (H k local) _
             (entries_value (px_hist_entries px)) (entries_value (px_patch_entries px)) _ _
             (walk H k (H k local) v0 steps) (digest_table H k psteps) Hcv).
  2: { intros acc. rewrite hist_entries_nonblank.
       rewrite (nonblank_splitlines is_linebreak Hlb10) by assumption. rewrite Phrows.
       now apply hist_entries_rows. }
  2: { intros d. rewrite patch_entries_nonblank.
       rewrite (nonblank_splitlines is_linebreak Hlb10) by assumption. rewrite Pprows.
       now apply patch_entries_rows. }
  2: exact Fc. 2: exact Phis. 2: exact Ppis.
  2: { rewrite fname_history. lia. } 2: { rewrite fname_patches. lia. }
  rewrite fname_current, fname_history, fname_patches, Ph1, Pp1, Pc1.
  cbn [andb Nat.leb st_remote st_apply st_hashes]. reflexivity.
Qed.

Lemma publishes_parts prefix Hk v0 steps px :
  publishes prefix Hk v0 steps px = true ->
  chain_ok v0 steps = true /\ distinct (map ps_name steps) = true
  /\ index_records prefix Hk v0 steps steps px = true.
Proof.
  unfold UpdateSpec.publishes. intros E.
  do 2 (apply andb_prop in E; let X := fresh "X" in destruct E as [E X]). auto.
Qed.

Lemma no_collision_current Hk local v0 steps :
  no_collision Hk local (versions v0 steps) = true ->
  str_eqb (Hk local) (Hk (current (versions v0 steps))) = true ->
  local = current (versions v0 steps).
Proof.
  intros Hnc Eup. unfold no_collision in Hnc. rewrite forallb_forall in Hnc.
  assert (Hin : In (current (versions v0 steps)) (versions v0 steps))
    by (rewrite current_versions; apply final_in_versions).
  specialize (Hnc _ Hin). apply str_eqb_eq in Eup. rewrite <- Eup, str_eqb_refl in Hnc.
  cbn [implb] in Hnc. apply strs_eqb_eq in Hnc. now subst.
Qed.

(** ** update_converges, once the index has been read *)

(** what has to be served intact for this local content: nothing if it is current,
    the patches of its chain if it is in the history, else the full file *)
Definition needed_served (e : env) (local vn v0 : list str) (steps : list pstep) : bool :=
  if lines_eqb local vn then true
  else match chain_from local v0 steps with
       | Some sfx => forallb (patch_good e) sfx
       | None => full_published e vn
       end.

Theorem update_converges_fields_gen e fs sc local paras v0 steps px :
  let k := choose_kind (concat paras) in
  let vn := current (versions v0 steps) in
  f_new fs = None -> f_local fs = Some local ->
  concat paras = px_fields px ->
  hash_avail e k = true ->
  publishes (prefix_of k) (H k) v0 steps px = true ->
  needed_served e local vn v0 steps = true ->
  no_collision (H k) local (versions v0 steps) = true ->
  eff_quiet sc = true ->
  update_with_index e (IndexFields paras) local fs sc = (Ok vn, mkfs (Some vn) None).
Proof.
  intros k vn Hn Hl Hfields Hav Hpub Hneed Hnc Hq.
  destruct (publishes_parts _ _ _ _ _ Hpub) as (Pchain & Pdist & Prec).
  unfold Update.update_with_index. fold k. rewrite Hav. cbn [negb].
  rewrite Hfields. rewrite (run_fields_published k local v0 steps steps px Prec).
  fold vn.
  assert (Hvn : vn = final v0 steps) by apply current_versions.
  destruct (str_eqb (H k local) (H k vn)) eqn:Eup.
  - (* up to date *)
    pose proof (no_collision_current _ _ _ _ Hnc Eup) as E. fold vn in E. subst local.
    destruct fs as [l n]. cbn in Hn, Hl. now subst.
  - unfold needed_served in Hneed.
    destruct (lines_eqb local vn) eqn:Elv.
    { apply strs_eqb_eq in Elv. subst local. now rewrite str_eqb_refl in Eup. }
    rewrite (walk_chain_from H k) by assumption.
    destruct (chain_from local v0 steps) as [sfx|] eqn:Ecf; cbn [st_remote st_apply st_hashes].
    + destruct (chain_from_spec _ _ _ _ Ecf Pchain) as (Cc & Cf & Cne & Cin).
      assert (is_nil (map ps_name sfx) = false) as -> by now destruct sfx.
      cbn [orb].
      assert (forallb (fun n => dict_has n (digest_table H k steps ++ [])) (map ps_name sfx) = true)
        as ->.
      { apply forallb_forall. intros n Hin. apply in_map_iff in Hin. destruct Hin as (s & <- & Hs).
        unfold dict_has. now rewrite (digest_table_get H k) by auto. }
      cbn [negb].
      rewrite (apply_patches_chain is_digit digit_val H Hdc k e _ sfx local Cc).
      2: { intros s Hs. rewrite forallb_forall in Hneed.
           apply result_strs_eqb_eq. now apply Hneed. }
      2: { intros s Hs. apply (digest_table_get H k); auto. }
      rewrite Cf, <- Hvn. rewrite str_eqb_refl. cbn [negb].
      now rewrite replace_file_effquiet.
    + cbn [is_nil orb]. now apply download_file_effquiet.
Qed.

Lemma needed_served_all e local vn v0 steps :
  patches_published e steps = true -> full_published e vn = true ->
  chain_ok v0 steps = true ->
  needed_served e local vn v0 steps = true.
Proof.
  intros Hp Hf Hc. unfold needed_served. destruct (lines_eqb local vn); [reflexivity|].
  destruct (chain_from local v0 steps) as [sfx|] eqn:E; [|assumption].
  destruct (chain_from_spec _ _ _ _ E Hc) as (_ & _ & _ & Hin).
  unfold patches_published in Hp. rewrite forallb_forall in *. intros s Hs. apply Hp. now apply Hin.
Qed.

Theorem update_converges_fields e fs sc local paras v0 steps px :
  let k := choose_kind (concat paras) in
  let vn := current (versions v0 steps) in
  f_new fs = None -> f_local fs = Some local ->
  concat paras = px_fields px ->
  hash_avail e k = true ->
  publishes (prefix_of k) (H k) v0 steps px = true ->
  patches_published e steps = true ->
  full_published e vn = true ->
  no_collision (H k) local (versions v0 steps) = true ->
  no_faults sc = true ->
  update_with_index e (IndexFields paras) local fs sc = (Ok vn, mkfs (Some vn) None).
Proof.
  intros k vn Hn Hl Hfields Hav Hpub Hpat Hfull Hnc Hq.
  apply (update_converges_fields_gen e fs sc local paras v0 steps px); try assumption.
  - apply needed_served_all; try assumption.
    now destruct (publishes_parts _ _ _ _ _ Hpub) as (Pchain & _).
  - now apply no_faults_eff_quiet.
Qed.

(** ** update_converges *)
Theorem update_converges e fs sc paras v0 steps px :
  let k := choose_kind (concat paras) in
  let vn := current (versions v0 steps) in
  f_new fs = None ->
  read_index is_space (e_index e) = Ok (IndexFields paras) ->
  concat paras = px_fields px ->
  hash_avail e k = true ->
  publishes (prefix_of k) (H k) v0 steps px = true ->
  patches_published e steps = true ->
  full_published e vn = true ->
  match f_local fs with
  | Some local => no_collision (H k) local (versions v0 steps)
  | None => true
  end = true ->
  no_faults sc = true ->
  update_file e fs sc = (Ok vn, mkfs (Some vn) None).
Proof.
  intros k vn Hn Hidx Hfields Hav Hpub Hpat Hfull Hnc Hq. unfold Update.update_file.
  destruct (f_local fs) as [local|] eqn:Hl.
  - rewrite Hidx. now apply (update_converges_fields e fs sc local paras v0 steps px).
  - now apply download_file_quiet.
Qed.

End Theorems.

(** * 7. The same, in the words of the Spec that [holds] evaluates *)

Lemma converged_intro s vn :
  current (sn_hist s) = vn ->
  converged s (observe (Ok vn, mkfs (Some vn) None)) = true.
Proof.
  intros <-. unfold converged, observe. cbn.
  unfold lines_eqb, content_of. now rewrite strs_eqb_refl, str_eqb_refl.
Qed.

Lemma quiet_existsb s : forallb negb s = true -> existsb (fun b => b) s = false.
Proof.
  induction s as [|x s IH]; [reflexivity|]. cbn. intros E. apply andb_true_iff in E.
  destruct E as [E1 E2]. apply negb_true_iff in E1. subst x. now apply IH.
Qed.

Lemma quiet_firstn n : forall s, forallb negb s = true -> forallb negb (firstn n s) = true.
Proof.
  induction n as [|n IH]; intros s E; [reflexivity|]. destruct s as [|x s]; [reflexivity|].
  cbn in *. apply andb_true_iff in E. destruct E as [E1 E2]. rewrite E1. now apply IH.
Qed.

(** with no fault of any kind, an intact or unusable index obliges to converge *)
Lemma verdict_quiet s :
  sn_index s <> IdxLying -> sn_pfaults s = [] -> sn_full_fault s = false ->
  forallb negb (sn_eff s) = true -> sn_unlink s = false ->
  verdict_of s = MustConverge.
Proof.
  intros Hi Hp Hf He Hu. unfold verdict_of, fs_fault_possible, fs_fault_certain.
  rewrite Hp, Hf, Hu. rewrite (quiet_existsb _ He).
  rewrite (quiet_existsb _ (quiet_firstn _ _ He)). cbn [orb existsb is_nil_nat negb].
  destruct (sn_index s); try congruence;
    destruct (match sn_local s with Some l => lines_eqb l _ | None => false end);
    try reflexivity;
    destruct (match sn_local s with Some l => positions l _ 0 | None => [] end); reflexivity.
Qed.

(** update_fault_safe, for EVERY environment (index, patches, full file), EVERY
    local state and EVERY fault schedule: the run either returns exactly what it
    left in the local file, with no temporary file, or raises with the local
    file exactly as before and the temporary file gone (unless removing it was
    itself made to fail). *)
Theorem update_fault_safe_spec is_space is_linebreak is_digit digit_val H e fs sc s :
  f_new fs = None -> sn_local s = f_local fs -> sn_unlink s = s_unlink sc ->
  let o := observe (update_file is_space is_linebreak is_digit digit_val H e fs sc) in
  returned_is_local o || failed_safely s o = true.
Proof.
  intros Hn Hl Hu o. subst o.
  pose proof (update_file_safe is_space is_linebreak is_digit digit_val H e fs sc Hn) as Hs.
  unfold outcome_safe in Hs. unfold returned_is_local, failed_safely, observe.
  destruct (update_file _ _ _ _ _ e fs sc) as [r fs']. cbn [fst snd] in *.
  cbn [ob_result ob_local ob_new]. destruct r as [ls|x].
  - destruct Hs as [E1 E2]. rewrite E1, E2. cbn. unfold content_of. now rewrite str_eqb_refl.
  - destruct Hs as [E1 E2]. rewrite E1, Hl, Hu. cbn [is_ok negb andb orb].
    assert (option_eqb str_eqb (option_map (@concat N) (f_local fs))
              match f_local fs with Some l => Some (content_of l) | None => None end = true) as ->.
    { destruct (f_local fs); cbn; [apply str_eqb_refl|reflexivity]. }
    cbn [andb]. destruct (s_unlink sc); [now rewrite orb_true_r|].
    now rewrite E2.
Qed.

(** Tie to the check: whenever [agree] holds of a case — the implementation did
    what the model does on the world the harness built — what the IMPLEMENTATION
    did satisfies the safety clause that [holds] evaluates. *)
Lemma agree_observe u : agree_update u = true -> observation_of u = observe (model_update u).
Proof.
  unfold agree_update. destruct (model_update u) as [r fs']. unfold observation_of, observe.
  cbn [ob_result ob_local ob_new fst snd]. intros E.
  apply andb_prop in E. destruct E as [E E3]. apply andb_prop in E. destruct E as [E1 E2].
  apply result_strs_eqb_eq in E1. apply option_str_eqb_eq in E2. apply Bool.eqb_prop in E3.
  now rewrite E1, E2, E3.
Qed.

Theorem agree_implies_safe u :
  agree_update u = true ->
  returned_is_local (observation_of u) || failed_safely (scenario_of u) (observation_of u) = true.
Proof.
  intros E. rewrite (agree_observe u E). unfold model_update.
  now apply update_fault_safe_spec.
Qed.

Section Converged.
Variables is_space is_linebreak is_digit : N -> bool.
Variable digit_val : N -> N.
Variable H : hkind -> list str -> str.
Hypothesis Hlb10 : is_linebreak 10 = true.
Hypothesis Hdc : digit_class_ok is_digit digit_val.
Notation update_file := (update_file is_space is_linebreak is_digit digit_val H).

(** update_converges, as [holds] judges it: on the scenario "history v0..vn,
    index intact, no fault of any kind", with the local copy anywhere. *)
Theorem update_converges_spec e fs sc paras v0 steps px :
  let k := choose_kind (concat paras) in
  let vn := current (versions v0 steps) in
  let s := mkscn (versions v0 steps) (f_local fs) IdxIntact [] false (s_eff sc) (s_unlink sc) in
  f_new fs = None ->
  read_index is_space (e_index e) = Ok (IndexFields paras) ->
  concat paras = px_fields px ->
  hash_avail e k = true ->
  publishes is_space is_linebreak (prefix_of k) (H k) v0 steps px = true ->
  patches_published e steps = true ->
  full_published e vn = true ->
  match f_local fs with
  | Some local => no_collision (H k) local (versions v0 steps)
  | None => true
  end = true ->
  no_faults sc = true ->
  verdict_of s = MustConverge
  /\ property_holds s (observe (update_file e fs sc)) = true.
Proof.
  intros k vn s Hn Hidx Hfields Hav Hpub Hpat Hfull Hnc Hq.
  assert (Hv : verdict_of s = MustConverge).
  { unfold no_faults in Hq. apply andb_prop in Hq. destruct Hq as [Hq1 Hq2].
    apply negb_true_iff in Hq2. apply verdict_quiet; try reflexivity; try assumption.
    discriminate. }
  split; [exact Hv|]. unfold property_holds. rewrite Hv.
  rewrite (update_converges is_space is_linebreak is_digit digit_val H Hlb10 Hdc
             e fs sc paras v0 steps px) by assumption.
  now apply converged_intro.
Qed.

End Converged.

(** * 7b. update_unusable_index_downloads *)

(** An entry line with the wrong number of columns. *)
Definition bad_entry (is_space : N -> bool) (e : str) : bool :=
  negb (is_nil e) && negb (List.length (resplit is_space e) =? 3)%nat.

(** A field of the index that update_file cannot use: -Current without exactly two
    columns, or a -History / -Patches line without exactly three. *)
Definition malformed_field (is_space is_linebreak : N -> bool) (k : hkind) (f : field) : bool :=
  (str_eqb (fst f) (f_current k) && negb (List.length (resplit is_space (snd f)) =? 2)%nat)
  || ((str_eqb (fst f) (f_history k) || str_eqb (fst f) (f_patches k))
      && existsb (bad_entry is_space) (splitlines is_linebreak false (snd f))).

Section Unusable.
Variables is_space is_linebreak is_digit : N -> bool.
Variable digit_val : N -> N.
Variable H : hkind -> list str -> str.
Notation update_with_index := (update_with_index is_space is_linebreak is_digit digit_val H).
Notation update_file := (update_file is_space is_linebreak is_digit digit_val H).
Notation run_fields := (run_fields is_space is_linebreak).
Notation step_field := (step_field is_space is_linebreak).
Notation hist_entries := (hist_entries is_space).
Notation patch_entries := (patch_entries is_space).

(** the index cannot be fetched *)
Theorem update_index_absent e fs sc :
  e_index e = IdxAbsent -> update_file e fs sc = download_file e fs sc.
Proof. intros E. unfold Update.update_file. rewrite E. now destruct (f_local fs). Qed.

(** the index is not a sequence of deb822 paragraphs *)
Theorem update_index_unparseable e fs sc ls :
  e_index e = IdxLines ls -> parse_pf is_space ls = Err ParseError ->
  update_file e fs sc = download_file e fs sc.
Proof.
  intros E Hp. unfold Update.update_file. rewrite E. cbn [read_index]. rewrite Hp.
  now destruct (f_local fs).
Qed.

Lemma run_fields_app k lh pre : forall post st,
  run_fields k lh (pre ++ post) st =
  match run_fields k lh pre st with
  | Cont st' => run_fields k lh post st'
  | out => out
  end.
Proof.
  induction pre as [|f pre IH]; intros post st; [reflexivity|].
  cbn [app Update.run_fields]. destruct (step_field k lh st f); try reflexivity. apply IH.
Qed.

(** without a -Current field the loop neither returns early nor learns a remote digest *)
Lemma run_fields_no_current k lh fs : forall st,
  field_count (f_current k) fs = 0%nat -> st_remote st = None ->
  match run_fields k lh fs st with
  | Cont st' => st_remote st' = None
  | UpToDate => False
  | Unusable => True
  end.
Proof.
  induction fs as [|[name value] fs IH]; intros st Hc Hst; [exact Hst|].
  rewrite field_count_cons in Hc.
  cbn [Update.run_fields Update.step_field].
  destruct (str_eqb name (f_current k)); [cbn in Hc; lia|]. cbn [plus] in Hc.
  destruct (str_eqb name (f_history k)).
  - destruct (hist_entries _ _ _); [|exact I]. now apply IH.
  - destruct (str_eqb name (f_patches k)).
    + destruct (patch_entries _ _); [|exact I]. now apply IH.
    + now apply IH.
Qed.

Lemma hist_entries_bad lh es : forall acc,
  existsb (bad_entry is_space) es = true -> hist_entries lh es acc = None.
Proof.
  induction es as [|e es IH]; intros acc Hb; [discriminate|].
  cbn [existsb] in Hb. cbn [Update.hist_entries]. unfold bad_entry in Hb at 1.
  destruct (is_nil e); [cbn in Hb; now apply IH|]. cbn [negb andb] in Hb.
  destruct (resplit is_space e) as [|h [|x [|n [|? ?]]]]; try reflexivity.
  cbn in Hb. destruct (_ || _); now apply IH.
Qed.

Lemma patch_entries_bad es : forall d,
  existsb (bad_entry is_space) es = true -> patch_entries es d = None.
Proof.
  induction es as [|e es IH]; intros d Hb; [discriminate|].
  cbn [existsb] in Hb. cbn [Update.patch_entries]. unfold bad_entry in Hb at 1.
  destruct (is_nil e); [cbn in Hb; now apply IH|]. cbn [negb andb] in Hb.
  destruct (resplit is_space e) as [|h [|x [|n [|? ?]]]]; try reflexivity.
  cbn in Hb. now apply IH.
Qed.

Lemma step_field_malformed k lh st f :
  malformed_field is_space is_linebreak k f = true -> step_field k lh st f = Unusable.
Proof.
  destruct (names_distinct k) as (Nch & Ncp & Nhp).
  destruct f as [name value]. unfold malformed_field. cbn [fst snd Update.step_field].
  intros Hm. destruct (str_eqb name (f_current k)) eqn:EC.
  - apply str_eqb_eq in EC. subst name.
    rewrite (str_neq_eqb _ _ Nch), (str_neq_eqb _ _ Ncp) in Hm. cbn [andb orb] in Hm.
    rewrite orb_false_r in Hm.
    destruct (resplit is_space value) as [|a [|b [|c r]]]; try reflexivity. discriminate.
  - cbn [andb orb] in Hm. destruct (str_eqb name (f_history k)).
    + cbn [orb andb] in Hm. now rewrite hist_entries_bad.
    + cbn [orb] in Hm. destruct (str_eqb name (f_patches k)); [|discriminate].
      cbn [andb] in Hm. now rewrite patch_entries_bad.
Qed.

(** the index has no usable -Current field at all *)
Theorem update_no_current_downloads e paras lines fs sc :
  let k := choose_kind (concat paras) in
  hash_avail e k = true ->
  field_count (f_current k) (concat paras) = 0%nat ->
  update_with_index e (IndexFields paras) lines fs sc = download_file e fs sc.
Proof.
  intros k Hav Hc. unfold Update.update_with_index. fold k. rewrite Hav. cbn [negb].
  pose proof (run_fields_no_current k (H k lines) (concat paras) (mkst None [] []) Hc eq_refl) as Hr.
  destruct (run_fields _ _ _ _) as [st| |]; [|destruct Hr|reflexivity].
  now rewrite Hr.
Qed.

(** a field with the wrong number of columns, before any -Current field could
    have said "up to date" *)
Theorem update_malformed_field_downloads e paras pre f post lines fs sc :
  let k := choose_kind (concat paras) in
  hash_avail e k = true ->
  concat paras = pre ++ f :: post ->
  field_count (f_current k) pre = 0%nat ->
  malformed_field is_space is_linebreak k f = true ->
  update_with_index e (IndexFields paras) lines fs sc = download_file e fs sc.
Proof.
  intros k Hav Hsplit Hc Hm. unfold Update.update_with_index. fold k. rewrite Hav. cbn [negb].
  rewrite Hsplit, run_fields_app.
  pose proof (run_fields_no_current k (H k lines) pre (mkst None [] []) Hc eq_refl) as Hr.
  destruct (run_fields k (H k lines) pre _) as [st| |]; [|destruct Hr|reflexivity].
  cbn [Update.run_fields]. now rewrite step_field_malformed.
Qed.

End Unusable.

(** * 7c. Honest -Current, anything else arbitrary: every fault schedule, every
    patch corruption; and the faults that MUST surface as an error *)

Lemma dict_has_in n L : dict_has n L = true -> exists kv, In kv L /\ fst kv = n.
Proof.
  unfold dict_has, dict_get. destruct (List.find _ L) as [kv|] eqn:E; [|discriminate].
  intros _. apply find_some in E. destruct E as [E1 E2]. apply str_eqb_eq in E2. eauto.
Qed.

Section Faults.
Variables is_space is_linebreak is_digit : N -> bool.
Variable digit_val : N -> N.
Variable H : hkind -> list str -> str.
Hypothesis Hlb10 : is_linebreak 10 = true.
Hypothesis Hdc : digit_class_ok is_digit digit_val.
Notation update_with_index := (update_with_index is_space is_linebreak is_digit digit_val H).
Notation update_file := (update_file is_space is_linebreak is_digit digit_val H).
Notation run_fields := (run_fields is_space is_linebreak).
Notation apply_patches := (apply_patches is_digit digit_val H).
Notation index_records := (index_records is_space is_linebreak).
Notation publishes := (publishes is_space is_linebreak).

(** the digest kind update_file selects for this index *)
Definition kind_of (e : env) : hkind :=
  match read_index is_space (e_index e) with
  | Ok (IndexFields paras) => choose_kind (concat paras)
  | _ => SHA1
  end.

(** every -Current field of the index (of the selected kind) records the digest
    of [vn]; -History, -Patches and everything else are arbitrary *)
Definition index_current_honest (e : env) (vn : list str) (sep size : str) : bool :=
  match read_index is_space (e_index e) with
  | Ok (IndexFields paras) =>
      let fs := concat paras in
      let k := choose_kind fs in
      current_ok is_space (prefix_of k) (H k) vn (mkpidx fs sep size [] [])
  | _ => true
  end.

Lemma download_file_cases e fs sc vn k :
  full_honest e vn = true ->
  (exists x, download_file e fs sc = (Err x, fs))
  \/ (exists ls, H k ls = H k vn /\ download_file e fs sc = commit ls fs sc).
Proof.
  unfold full_honest. intros Hf. rewrite download_file_commit.
  destruct (e_full e) as [ls|x]; [|left; eauto].
  apply strs_eqb_eq in Hf. subst ls. right. eauto.
Qed.

(** The three ways a run can end. *)
Lemma update_file_cases e fs sc vn sep size :
  index_current_honest e vn sep size = true -> full_honest e vn = true ->
  let k := kind_of e in
  (exists x, update_file e fs sc = (Err x, fs))
  \/ (exists local, f_local fs = Some local /\ H k local = H k vn
                     /\ update_file e fs sc = (Ok local, fs))
  \/ (exists ls, H k ls = H k vn /\ update_file e fs sc = commit ls fs sc).
Proof.
  intros Hidx Hfull k.
  assert (Hdl : (exists x, download_file e fs sc = (Err x, fs))
                \/ (exists ls, H k ls = H k vn /\ download_file e fs sc = commit ls fs sc))
    by now apply download_file_cases.
  assert (Hdl' : (exists x, download_file e fs sc = (Err x, fs))
     \/ (exists local, f_local fs = Some local /\ H k local = H k vn
                        /\ download_file e fs sc = (Ok local, fs))
     \/ (exists ls, H k ls = H k vn /\ download_file e fs sc = commit ls fs sc))
    by (destruct Hdl as [Hd|Hd]; auto).
  unfold Update.update_file. destruct (f_local fs) as [local|] eqn:Hl.
  2: { destruct Hdl as [Hd|Hd]; auto. }
  unfold index_current_honest in Hidx. unfold kind_of in k.
  destruct (read_index is_space (e_index e)) as [idx|x]; [|left; eauto].
  destruct idx as [| |paras]; try exact Hdl'.
  cbv zeta in Hidx. destruct (current_ok_parts is_space _ _ _ _ Hidx) as (_ & Hcv & Fc).
  cbn [px_fields px_sep px_cur_size] in Hcv, Fc.
  unfold Update.update_with_index. fold k.
  destruct (negb (hash_avail e k)); [left; eauto|].
  pose proof (run_fields_remote is_space is_linebreak k (H k local) _ _ _ Hcv
                (concat paras) (mkst None [] []) Fc (or_introl eq_refl)) as Hr.
  destruct (run_fields k (H k local) (concat paras) _) as [st| |]; try exact Hdl'.
  2: { right; left. exists local. apply str_eqb_eq in Hr. auto. }
  destruct (st_remote st) as [rh|]; [|exact Hdl'].
  destruct Hr as [Hr|Hr]; [discriminate|]. inversion Hr; subst rh.
  destruct (_ || _); [exact Hdl'|].
  destruct (apply_patches _ _ _ _ _) as [lines'|x]; [|left; eauto].
  destruct (negb _) eqn:Eh; [left; eauto|].
  apply negb_false_iff, str_eqb_eq in Eh. right; right. exists lines'. split; [exact Eh|reflexivity].
Qed.

Lemma commit_result ls fs sc r :
  fst (commit ls fs sc) = Ok r -> r = ls.
Proof.
  unfold commit. destruct (replace_file ls fs sc) as [[]?]; cbn; congruence.
Qed.

(** update_fault_safe, second half: whatever the faults, whatever the patches
    and the rest of the index are, a successful run returns — and, by the first
    half, has stored — a content whose digest is the one recorded as current *)
Theorem update_success_is_current e fs sc vn sep size ls :
  index_current_honest e vn sep size = true -> full_honest e vn = true ->
  fst (update_file e fs sc) = Ok ls ->
  H (kind_of e) ls = H (kind_of e) vn.
Proof.
  intros Hidx Hfull Hok.
  destruct (update_file_cases e fs sc vn sep size Hidx Hfull) as [[x E]|[(l & _ & Hh & E)|(l & Hh & E)]];
    rewrite E in Hok; cbn in Hok.
  - discriminate.
  - inversion Hok; now subst.
  - apply commit_result in Hok. now subst.
Qed.

(** the fault that must surface: if the local file is not current, a fault
    anywhere among open / write_1..write_n / close / rename of the one complete
    replacement raises (and by the first half leaves the local file as it was) *)
Theorem update_write_fault_raises e fs sc vn sep size :
  index_current_honest e vn sep size = true -> full_honest e vn = true ->
  (forall x, H (kind_of e) x = H (kind_of e) vn -> x = vn) ->
  match f_local fs with Some local => negb (lines_eqb local vn) | None => true end = true ->
  fs_fault_certain vn (s_eff sc) = true ->
  is_ok (fst (update_file e fs sc)) = false.
Proof.
  intros Hidx Hfull Hinj Hloc Hf.
  destruct (update_file_cases e fs sc vn sep size Hidx Hfull) as [[x E]|[(l & Hl & Hh & E)|(l & Hh & E)]];
    rewrite E.
  - reflexivity.
  - apply Hinj in Hh. subst l. rewrite Hl in Hloc. unfold lines_eqb in Hloc.
    now rewrite strs_eqb_refl in Hloc.
  - apply Hinj in Hh. subst l. now apply commit_fault.
Qed.

(** ** a garbled or missing patch raises *)

Lemma apply_patches_garbled k e d sfx : forall v,
  chain_ok v sfx = true ->
  (forall s, In s sfx -> dict_get (ps_name s) d = Some (H k (ps_script s))) ->
  forallb (fun s => patch_good e s || patch_bad (H k) e s) sfx = true ->
  existsb (patch_bad (H k) e) sfx = true ->
  is_ok (apply_patches k e d (map ps_name sfx) v) = false.
Proof.
  induction sfx as [|s r IH]; intros v Hc Hd Hgb Hb; [discriminate|].
  cbn [chain_ok] in Hc. apply andb_true_iff in Hc. destruct Hc as [Hc Hr].
  apply andb_true_iff in Hc. destruct Hc as [Hok Hv].
  cbn [forallb] in Hgb. apply andb_true_iff in Hgb. destruct Hgb as [Hs Hgb].
  cbn [existsb] in Hb. cbn [map Update.apply_patches].
  rewrite (Hd s) by now left.
  destruct (patch_bad (H k) e s) eqn:Ebad.
  - unfold patch_bad in Ebad. destruct (e_patch e (ps_name s)) as [c|x]; [|reflexivity].
    now rewrite Ebad.
  - rewrite orb_false_r in Hs. cbn [orb] in Hb. unfold patch_good in Hs.
    apply result_strs_eqb_eq in Hs. rewrite Hs. rewrite str_eqb_refl. cbn [negb].
    rewrite (step_script_exact is_digit digit_val Hdc) by assumption.
    apply IH; auto. intros s0 Hs0. apply Hd. now right.
Qed.

Theorem update_garbled_patch_raises e fs sc local paras v0 steps px sfx :
  let k := choose_kind (concat paras) in
  let vn := current (versions v0 steps) in
  concat paras = px_fields px ->
  hash_avail e k = true ->
  publishes (prefix_of k) (H k) v0 steps px = true ->
  no_collision (H k) local (versions v0 steps) = true ->
  lines_eqb local vn = false ->
  chain_from local v0 steps = Some sfx ->
  forallb (fun s => patch_good e s || patch_bad (H k) e s) sfx = true ->
  existsb (patch_bad (H k) e) sfx = true ->
  exists x, update_with_index e (IndexFields paras) local fs sc = (Err x, fs).
Proof.
  intros k vn Hfields Hav Hpub Hnc Hloc Ecf Hgb Hb.
  destruct (publishes_parts is_space is_linebreak _ _ _ _ _ Hpub) as (Pchain & Pdist & Prec).
  unfold Update.update_with_index. fold k. rewrite Hav. cbn [negb].
  rewrite Hfields.
  rewrite (run_fields_published is_space is_linebreak H Hlb10 k local v0 steps steps px Prec).
  fold vn.
  destruct (str_eqb (H k local) (H k vn)) eqn:Eup.
  { pose proof (no_collision_current _ _ _ _ Hnc Eup) as E. fold vn in E. subst local.
    unfold lines_eqb in Hloc. now rewrite strs_eqb_refl in Hloc. }
  rewrite (walk_chain_from H k) by assumption. rewrite Ecf. cbn [st_remote st_apply st_hashes].
  destruct (chain_from_spec _ _ _ _ Ecf Pchain) as (Cc & Cf & Cne & Cin).
  assert (is_nil (map ps_name sfx) = false) as -> by now destruct sfx.
  cbn [orb].
  assert (forallb (fun n => dict_has n (digest_table H k steps ++ [])) (map ps_name sfx) = true)
    as ->.
  { apply forallb_forall. intros n Hin. apply in_map_iff in Hin. destruct Hin as (s & <- & Hs).
    unfold dict_has. now rewrite (digest_table_get H k) by auto. }
  cbn [negb].
  pose proof (apply_patches_garbled k e (digest_table H k steps ++ []) sfx local Cc) as Hg.
  destruct (apply_patches k e _ _ local) as [lines'|x]; [|eauto].
  exfalso. assert (true = false) as Habs; [|discriminate]. apply Hg; auto.
  intros s Hs. apply (digest_table_get H k); auto.
Qed.

(** ** a patch without recorded digest: the index is unusable, full download *)
Theorem update_missing_digest_downloads e fs sc local paras v0 steps psteps px sfx :
  let k := choose_kind (concat paras) in
  let vn := current (versions v0 steps) in
  concat paras = px_fields px ->
  hash_avail e k = true ->
  index_records (prefix_of k) (H k) v0 steps psteps px = true ->
  no_collision (H k) local (versions v0 steps) = true ->
  lines_eqb local vn = false ->
  chain_from local v0 steps = Some sfx ->
  existsb (fun s => negb (existsb (str_eqb (ps_name s)) (map ps_name psteps))) sfx = true ->
  update_with_index e (IndexFields paras) local fs sc = download_file e fs sc.
Proof.
  intros k vn Hfields Hav Prec Hnc Hloc Ecf Hmiss.
  unfold Update.update_with_index. fold k. rewrite Hav. cbn [negb].
  rewrite Hfields.
  rewrite (run_fields_published is_space is_linebreak H Hlb10 k local v0 steps psteps px Prec).
  fold vn.
  destruct (str_eqb (H k local) (H k vn)) eqn:Eup.
  { pose proof (no_collision_current _ _ _ _ Hnc Eup) as E. fold vn in E. subst local.
    unfold lines_eqb in Hloc. now rewrite strs_eqb_refl in Hloc. }
  rewrite (walk_chain_from H k) by assumption. rewrite Ecf. cbn [st_remote st_apply st_hashes].
  assert (forallb (fun n => dict_has n (digest_table H k psteps ++ [])) (map ps_name sfx) = false)
    as ->; [|now rewrite orb_true_r].
  apply existsb_exists in Hmiss. destruct Hmiss as (s & Hs & Hno).
  destruct (forallb _ _) eqn:E; [|reflexivity]. exfalso.
  rewrite forallb_forall in E. specialize (E (ps_name s) (in_map _ _ _ Hs)).
  apply dict_has_in in E. destruct E as ([a b] & Hin & Ha). cbn in Ha. subst a.
  rewrite app_nil_r in Hin. unfold digest_table in Hin. apply in_rev in Hin.
  apply in_map_iff in Hin. destruct Hin as (s' & Es' & Hs').
  inversion Es' as [[En Eh]]. apply negb_true_iff in Hno.
  assert (existsb (str_eqb (ps_name s)) (map ps_name psteps) = true) as Hx; [|congruence].
  apply existsb_exists. exists (ps_name s'). split; [now apply in_map|].
  rewrite En. apply str_eqb_refl.
Qed.

End Faults.

(** ** in the words of the Spec *)
Section FaultsSpec.
Variables is_space is_linebreak is_digit : N -> bool.
Variable digit_val : N -> N.
Variable H : hkind -> list str -> str.
Notation update_file := (update_file is_space is_linebreak is_digit digit_val H).

(** update_fault_safe as the property words it: for every fault schedule and every
    corruption of patches, -History and -Patches — success with local = returned =
    current content, or an error with the local file as before and no '.new' *)
Theorem update_fault_safe_converges_spec e fs sc vn sep size s :
  f_new fs = None ->
  index_current_honest is_space H e vn sep size = true -> full_honest e vn = true ->
  (forall x, H (kind_of is_space e) x = H (kind_of is_space e) vn -> x = vn) ->
  current (sn_hist s) = vn -> sn_local s = f_local fs -> sn_unlink s = s_unlink sc ->
  let o := observe (update_file e fs sc) in
  converged s o || failed_safely s o = true.
Proof.
  intros Hn Hidx Hfull Hinj Hcur Hl Hu o.
  pose proof (update_fault_safe_spec is_space is_linebreak is_digit digit_val H e fs sc s Hn Hl Hu)
    as Hs. cbv zeta in Hs. fold o in Hs.
  destruct (failed_safely s o); [now rewrite orb_true_r|]. rewrite orb_false_r in *.
  unfold returned_is_local in Hs. unfold converged. rewrite Hcur.
  destruct (ob_result o) as [ls|x] eqn:Er; [|discriminate].
  assert (ls = vn) as ->.
  { apply Hinj.
    exact (update_success_is_current is_space is_linebreak is_digit digit_val H
             e fs sc vn sep size ls Hidx Hfull Er). }
  unfold lines_eqb. cbn [result_eqb]. rewrite strs_eqb_refl. exact Hs.
Qed.

Theorem update_write_fault_fails_spec e fs sc vn sep size s :
  f_new fs = None ->
  index_current_honest is_space H e vn sep size = true -> full_honest e vn = true ->
  (forall x, H (kind_of is_space e) x = H (kind_of is_space e) vn -> x = vn) ->
  match f_local fs with Some local => negb (lines_eqb local vn) | None => true end = true ->
  fs_fault_certain vn (s_eff sc) = true ->
  sn_local s = f_local fs -> sn_unlink s = s_unlink sc ->
  let o := observe (update_file e fs sc) in
  failed_safely s o = true.
Proof.
  intros Hn Hidx Hfull Hinj Hloc Hf Hl Hu o.
  pose proof (update_fault_safe_spec is_space is_linebreak is_digit digit_val H e fs sc s Hn Hl Hu)
    as Hs. cbv zeta in Hs. fold o in Hs.
  pose proof (update_write_fault_raises is_space is_linebreak is_digit digit_val H
                e fs sc vn sep size Hidx Hfull Hinj Hloc Hf) as Hr.
  unfold returned_is_local in Hs. change (ob_result o) with (fst (update_file e fs sc)) in Hs.
  destruct (fst (update_file e fs sc)); [discriminate|]. exact Hs.
Qed.

End FaultsSpec.

(** ** the same at the level of update_file *)
Section TopLevel.
Variables is_space is_linebreak is_digit : N -> bool.
Variable digit_val : N -> N.
Variable H : hkind -> list str -> str.
Hypothesis Hlb10 : is_linebreak 10 = true.
Hypothesis Hdc : digit_class_ok is_digit digit_val.
Notation update_with_index := (update_with_index is_space is_linebreak is_digit digit_val H).
Notation update_file := (update_file is_space is_linebreak is_digit digit_val H).

Lemma update_file_with_index e fs sc lines idx :
  f_local fs = Some lines -> read_index is_space (e_index e) = Ok idx ->
  update_file e fs sc = update_with_index e idx lines fs sc.
Proof. intros Hl Hi. unfold Update.update_file. now rewrite Hl, Hi. Qed.

Theorem update_file_no_current_downloads e paras fs sc :
  let k := choose_kind (concat paras) in
  read_index is_space (e_index e) = Ok (IndexFields paras) ->
  hash_avail e k = true ->
  field_count (f_current k) (concat paras) = 0%nat ->
  update_file e fs sc = download_file e fs sc.
Proof.
  intros k Hi Hav Hc. destruct (f_local fs) as [lines|] eqn:Hl.
  - rewrite (update_file_with_index e fs sc lines _ Hl Hi).
    now apply update_no_current_downloads.
  - unfold Update.update_file. now rewrite Hl.
Qed.

Theorem update_file_malformed_field_downloads e paras pre f post fs sc :
  let k := choose_kind (concat paras) in
  read_index is_space (e_index e) = Ok (IndexFields paras) ->
  hash_avail e k = true ->
  concat paras = pre ++ f :: post ->
  field_count (f_current k) pre = 0%nat ->
  malformed_field is_space is_linebreak k f = true ->
  update_file e fs sc = download_file e fs sc.
Proof.
  intros k Hi Hav Hs Hc Hm. destruct (f_local fs) as [lines|] eqn:Hl.
  - rewrite (update_file_with_index e fs sc lines _ Hl Hi).
    now apply (update_malformed_field_downloads is_space is_linebreak is_digit digit_val H
                 e paras pre f post).
  - unfold Update.update_file. now rewrite Hl.
Qed.

Theorem update_file_missing_digest_downloads e fs sc local paras v0 steps psteps px sfx :
  let k := choose_kind (concat paras) in
  let vn := current (versions v0 steps) in
  f_local fs = Some local ->
  read_index is_space (e_index e) = Ok (IndexFields paras) ->
  concat paras = px_fields px ->
  hash_avail e k = true ->
  index_records is_space is_linebreak (prefix_of k) (H k) v0 steps psteps px = true ->
  no_collision (H k) local (versions v0 steps) = true ->
  lines_eqb local vn = false ->
  chain_from local v0 steps = Some sfx ->
  existsb (fun s => negb (existsb (str_eqb (ps_name s)) (map ps_name psteps))) sfx = true ->
  update_file e fs sc = download_file e fs sc.
Proof.
  intros k vn Hl Hi. rewrite (update_file_with_index e fs sc local _ Hl Hi).
  now apply update_missing_digest_downloads.
Qed.

Theorem update_file_garbled_patch_raises e fs sc local paras v0 steps px sfx :
  let k := choose_kind (concat paras) in
  let vn := current (versions v0 steps) in
  f_local fs = Some local ->
  read_index is_space (e_index e) = Ok (IndexFields paras) ->
  concat paras = px_fields px ->
  hash_avail e k = true ->
  publishes is_space is_linebreak (prefix_of k) (H k) v0 steps px = true ->
  no_collision (H k) local (versions v0 steps) = true ->
  lines_eqb local vn = false ->
  chain_from local v0 steps = Some sfx ->
  forallb (fun s => patch_good e s || patch_bad (H k) e s) sfx = true ->
  existsb (patch_bad (H k) e) sfx = true ->
  exists x, update_file e fs sc = (Err x, fs).
Proof.
  intros k vn Hl Hi. rewrite (update_file_with_index e fs sc local _ Hl Hi).
  now apply update_garbled_patch_raises.
Qed.

End TopLevel.

(** * 7d. The Index file as text: PackageFile reads back what was rendered *)

Lemma rdropwhile_prefix {A} (p : A -> bool) l : exists t, l = rdropwhile p l ++ t.
Proof.
  unfold rdropwhile. exists (rev (fst (span p (rev l)))).
  rewrite <- rev_app_distr. rewrite dropwhile_span, span_app. now rewrite rev_involutive.
Qed.

Section IndexText.
Variable is_space : N -> bool.
Hypothesis Hsp32 : is_space 32 = true.
Hypothesis Hsp10 : is_space 10 = true.
Hypothesis Hdot : is_space 46 = false.
Hypothesis Halpha : forall c, is_alpha_c c = true -> is_space c = false.

Notation trimmed := (trimmed is_space).
Notation rfield_ok := (rfield_ok is_space).
Notation match_cont := (match_cont is_space).
Notation match_field := (match_field is_space).
Notation pf_loop := (pf_loop is_space).

Lemma trimmed_parts e :
  trimmed e = true ->
  e = [] \/ (exists c r, e = c :: r /\ is_space c = false)
            /\ (exists r z, e = r ++ [z] /\ is_space z = false).
Proof.
  unfold UpdateSpec.trimmed. intros E. apply andb_prop in E. destruct E as [E _].
  destruct e as [|c r]; [now left|]. right.
  apply andb_prop in E. destruct E as [E1 E2]. apply negb_true_iff in E1, E2.
  split; [eauto|].
  exists (removelast (c :: r)), (last (c :: r) c). split; [|assumption].
  apply app_removelast_last. discriminate.
Qed.

Lemma rstrip_line e :
  trimmed e = true -> rstrip_by is_space (e ++ [10%N]) = e.
Proof.
  intros Ht. unfold rstrip_by. rewrite rdropwhile_app_drop by (cbn; now rewrite Hsp10).
  destruct (trimmed_parts e Ht) as [->|[_ (r & z & -> & Hz)]]; [reflexivity|].
  now apply rdropwhile_app_keep.
Qed.

Lemma strip_line e :
  trimmed e = true ->
  strip_by is_space ((match e with [] => [] | _ => 32%N :: e end) ++ [10%N]) = e.
Proof.
  intros Ht. unfold strip_by, lstrip_by.
  destruct e as [|c r].
  - cbn [app dropwhile]. now rewrite Hsp10.
  - destruct (trimmed_parts _ Ht) as [E|[(c' & r' & E & Hc) _]]; [discriminate|].
    inversion E; subst c' r'.
    cbn [app dropwhile]. rewrite Hsp32, Hc. rewrite app_comm_cons.
    now apply rstrip_line.
Qed.

Lemma match_cont_cont e :
  trimmed e = true -> str_eqb e [46%N] = false -> match_cont (cont_line e) = Some e.
Proof.
  intros Ht Hne. unfold Update.match_cont, cont_line.
  destruct e as [|c r].
  - cbn [span app]. rewrite Hsp32. cbn [span]. rewrite Hdot. reflexivity.
  - destruct (trimmed_parts _ Ht) as [E|[(c' & r' & E & Hc) _]]; [discriminate|].
    inversion E; subst c' r'.
    cbn [span app]. rewrite Hsp32. cbn [span]. rewrite Hc.
    assert (str_eqb (c :: r ++ [10%N]) [46%N] = false) as ->.
    { destruct r; cbn; now rewrite andb_false_r. }
    assert (str_eqb (c :: r ++ [10%N]) [46%N; 10%N] = false) as ->.
    { destruct r as [|x r]; cbn in *.
      - now rewrite andb_true_r in *.
      - destruct r; cbn; now rewrite ?andb_false_r. }
    cbn [orb]. rewrite app_comm_cons. f_equal. now apply rstrip_line.
Qed.

Lemma name_ok_parts n :
  name_ok n = true ->
  exists c x r, n = c :: x :: r /\ is_alpha_c c = true /\ forallb is_name_c (x :: r) = true.
Proof.
  unfold name_ok. destruct n as [|c [|x r]]; try discriminate. intros E.
  apply andb_prop in E. destruct E as [E1 E2]. eauto 6.
Qed.

Lemma match_cont_first f :
  name_ok (rf_name f) = true -> match_cont (first_line f) = None.
Proof.
  intros Hn. destruct (name_ok_parts _ Hn) as (c & x & r & E & Hc & _).
  unfold Update.match_cont, first_line. rewrite E. cbn [app span].
  now rewrite (Halpha c Hc).
Qed.

Lemma match_cont_blank : match_cont [10%N] = None.
Proof. unfold Update.match_cont. cbn [span]. now rewrite Hsp10. Qed.

Lemma match_field_first f :
  rfield_ok f = true -> match_field (first_line f) = Some (rf_name f, rf_first f).
Proof.
  unfold UpdateSpec.rfield_ok. intros E. apply andb_prop in E. destruct E as [E _].
  apply andb_prop in E. destruct E as [Hn Ht].
  destruct (name_ok_parts _ Hn) as (c & x & r & En & Hc & Hr).
  unfold Update.match_field, first_line. rewrite En. cbn [app].
  change (is_alpha c) with (is_alpha_c c). rewrite Hc.
  change (x :: r ++ 58%N :: ?v) with ((x :: r) ++ 58%N :: v).
  rewrite (span_forall_app is_name_char (x :: r) 58%N) by (try exact Hr; reflexivity).
  now rewrite strip_line.
Qed.

Lemma not_blank_first f :
  name_ok (rf_name f) = true -> is_blank_line (first_line f) = false.
Proof.
  intros Hn. destruct (name_ok_parts _ Hn) as (c & x & r & E & Hc & _).
  unfold is_blank_line, first_line. rewrite E. cbn [app].
  set (line := c :: _).
  assert (Hc1 : in_chars [32%N; 9%N] c = false).
  { unfold in_chars. cbn [existsb]. unfold is_alpha_c in Hc.
    destruct (N.eqb_spec c 32) as [->|_]; [discriminate|].
    destruct (N.eqb_spec c 9) as [->|_]; [discriminate|]. reflexivity. }
  unfold strip_by, lstrip_by. subst line. cbn [dropwhile]. rewrite Hc1.
  unfold rstrip_by.
  destruct (rdropwhile_prefix (in_chars [32%N; 9%N]) (c :: x :: r ++ 58%N :: (match rf_first f with [] => [] | _ => 32%N :: rf_first f end) ++ [10%N])) as [t Et].
  destruct (rdropwhile _ _) as [|y l]; [reflexivity|].
  cbn [app] in Et. inversion Et as [[Ey El]]. subst y.
  destruct l; [|cbn; now rewrite andb_false_r].
  cbn. destruct (N.eqb_spec c 10) as [->|_]; [discriminate|reflexivity].
Qed.

(** ** the paragraph reader, field by field *)

Definition flush (cur : option field) (pkg : para) : para :=
  match cur with Some f => f :: pkg | None => pkg end.

Lemma pf_cont_lines entries : forall ls paras pkg nm ct,
  forallb (fun e => trimmed e && negb (str_eqb e [46%N])) entries = true ->
  pf_loop (map Some (map cont_line entries) ++ ls) paras pkg (Some (nm, ct)) =
  pf_loop ls paras pkg (Some (nm, ct ++ concat (map (fun e => 10%N :: e) entries))).
Proof.
  induction entries as [|e es IH]; intros ls paras pkg nm ct Hok.
  - cbn [map app concat]. now rewrite app_nil_r.
  - cbn [forallb] in Hok. apply andb_prop in Hok. destruct Hok as [He Hes].
    apply andb_prop in He. destruct He as [Ht Hd]. apply negb_true_iff in Hd.
    cbn [map app]. unfold cont_line at 1. cbn [Update.pf_loop].
    change (32%N :: (match e with [] => [46%N] | _ => e end) ++ [10%N]) with (cont_line e).
    rewrite match_cont_cont by assumption. rewrite IH by assumption.
    cbn [map concat]. now rewrite <- app_assoc.
Qed.

Lemma join_lf_conts a es :
  join [10%N] (a :: es) = a ++ concat (map (fun e => 10%N :: e) es).
Proof.
  revert a. induction es as [|e es IH]; intros a; [cbn; now rewrite app_nil_r|].
  rewrite join_cons by discriminate. rewrite IH. reflexivity.
Qed.

Lemma pf_field_lines f ls paras pkg cur :
  rfield_ok f = true ->
  pf_loop (map Some (field_lines f) ++ ls) paras pkg cur =
  pf_loop ls paras (flush cur pkg) (Some (rf_field f)).
Proof.
  intros Hok. pose proof Hok as Hok'. unfold UpdateSpec.rfield_ok in Hok'.
  apply andb_prop in Hok'. destruct Hok' as [E Hc]. apply andb_prop in E. destruct E as [Hn Ht].
  destruct (name_ok_parts _ Hn) as (c & x & r & En & _).
  unfold field_lines. cbn [map app].
  assert (Hline : exists y l, first_line f = y :: l).
  { unfold first_line. rewrite En. cbn. eauto. }
  destruct Hline as (y & l & Hline).
  assert (Hstep : forall pkg0,
    (if is_blank_line (first_line f)
     then match pkg0 with [] => Err ParseError | _ => pf_loop (map Some (map cont_line (rf_conts f)) ++ ls) (rev pkg0 :: paras) [] None end
     else match match_field (first_line f) with
          | None => Err ParseError
          | Some f0 => pf_loop (map Some (map cont_line (rf_conts f)) ++ ls) paras pkg0 (Some f0)
          end) = pf_loop ls paras pkg0 (Some (rf_field f))).
  { intros pkg0. rewrite not_blank_first by assumption. rewrite match_field_first by assumption.
    rewrite pf_cont_lines by assumption. unfold rf_field. now rewrite join_lf_conts. }
  cbn [Update.pf_loop]. rewrite Hline. rewrite <- Hline.
  destruct cur as [[nm ct]|]; cbn [flush].
  - rewrite match_cont_first by assumption. exact (Hstep ((nm, ct) :: pkg)).
  - exact (Hstep pkg).
Qed.

Lemma pf_para_lines p : forall pkg cur,
  forallb rfield_ok p = true ->
  exists pkg' cur',
    (forall ls paras, pf_loop (map Some (para_lines p) ++ ls) paras pkg cur = pf_loop ls paras pkg' cur')
    /\ flush cur' pkg' = rev (map rf_field p) ++ flush cur pkg.
Proof.
  induction p as [|f p IH]; intros pkg cur Hok.
  - exists pkg, cur. split; reflexivity.
  - cbn [forallb] in Hok. apply andb_prop in Hok. destruct Hok as [Hf Hp].
    destruct (IH (flush cur pkg) (Some (rf_field f)) Hp) as (pkg' & cur' & E1 & E2).
    exists pkg', cur'. split.
    + intros ls paras. unfold para_lines. cbn [flat_map]. rewrite map_app, <- app_assoc.
      rewrite pf_field_lines by assumption. apply E1.
    + rewrite E2. cbn [flush map rev]. now rewrite <- app_assoc.
Qed.

Lemma pf_blank ls paras pkg cur :
  flush cur pkg <> [] ->
  pf_loop (Some [10%N] :: ls) paras pkg cur = pf_loop ls (rev (flush cur pkg) :: paras) [] None.
Proof.
  intros Hne. cbn [Update.pf_loop].
  assert (Hb : is_blank_line [10%N] = true) by reflexivity.
  destruct cur as [[nm ct]|]; cbn [flush] in *.
  - rewrite match_cont_blank, Hb. reflexivity.
  - rewrite Hb. destruct pkg; [congruence|reflexivity].
Qed.

Lemma pf_eof paras pkg cur :
  pf_loop [] paras pkg cur =
  Ok (rev (match flush cur pkg with [] => paras | _ => rev (flush cur pkg) :: paras end)).
Proof. reflexivity. Qed.

Lemma index_text_parses_acc ps : forall acc,
  index_text_ok is_space ps = true ->
  pf_loop (map Some (index_lines ps)) acc [] None = Ok (rev acc ++ map (map rf_field) ps).
Proof.
  induction ps as [|p ps IH]; intros acc Hok.
  - cbn. now rewrite app_nil_r.
  - unfold index_text_ok in Hok. cbn [forallb] in Hok. apply andb_prop in Hok.
    destruct Hok as [Hp Hps]. apply andb_prop in Hp. destruct Hp as [Hne Hp].
    destruct (pf_para_lines p [] None Hp) as (pkg' & cur' & E1 & E2).
    cbn [flush] in E2. rewrite app_nil_r in E2.
    assert (Hfl : flush cur' pkg' <> []).
    { rewrite E2. destruct p; [discriminate|]. cbn. intros E. apply app_eq_nil in E.
      destruct E as [_ E]. discriminate. }
    destruct ps as [|p2 ps].
    + cbn [index_lines]. rewrite <- (app_nil_r (map Some (para_lines p))). rewrite E1.
      rewrite pf_eof. destruct (flush cur' pkg') as [|f0 fl] eqn:Efl; [congruence|].
      rewrite E2. cbn [rev map]. now rewrite rev_involutive.
    + change (index_lines (p :: p2 :: ps)) with (para_lines p ++ [10%N] :: index_lines (p2 :: ps)).
      rewrite map_app. cbn [map]. rewrite E1. rewrite pf_blank by assumption.
      rewrite IH by exact Hps. rewrite E2, rev_involutive. cbn [rev map].
      now rewrite <- app_assoc.
Qed.

(** PackageFile, applied to the text of an index, yields its paragraphs *)
Theorem index_text_parses ps :
  index_text_ok is_space ps = true ->
  parse_pf is_space (map Some (index_lines ps)) = Ok (map (map rf_field) ps).
Proof. intros Hok. unfold parse_pf. now rewrite index_text_parses_acc. Qed.

End IndexText.

(** * 8. The instance the check runs (py_isspace, py_islinebreak, re_d, nd_val) *)

Lemma py_lb10 : py_islinebreak 10 = true.
Proof. vm_compute. reflexivity. Qed.

Definition update_converges_py H :=
  update_converges py_isspace py_islinebreak re_d nd_val H py_lb10 digit_class_ok_str.
Definition update_converges_spec_py H :=
  update_converges_spec py_isspace py_islinebreak re_d nd_val H py_lb10 digit_class_ok_str.

Definition update_garbled_patch_raises_py H :=
  update_file_garbled_patch_raises py_isspace py_islinebreak re_d nd_val H py_lb10 digit_class_ok_str.
Definition update_missing_digest_downloads_py H :=
  update_file_missing_digest_downloads py_isspace py_islinebreak re_d nd_val H py_lb10.

Lemma py_alpha_nospace c : is_alpha_c c = true -> py_isspace c = false.
Proof.
  unfold is_alpha_c. intros Hc. apply not_true_is_false. intros E.
  unfold py_isspace, in_ranges in E. apply existsb_exists in E.
  destruct E as [[lo hi] [Hin Hr]]. cbn [fst snd] in Hr.
  apply andb_prop in Hr. destruct Hr as [H1 H2]. apply N.leb_le in H1, H2.
  assert (Hc' : ((65 <= c)%N /\ (c <= 90)%N) \/ ((97 <= c)%N /\ (c <= 122)%N)).
  { apply orb_prop in Hc. destruct Hc as [Hc|Hc]; apply andb_prop in Hc; destruct Hc as [A B];
      apply N.leb_le in A, B; auto. }
  unfold py_space_ranges in Hin. cbn [In] in Hin.
  repeat (destruct Hin as [Hin|Hin]; [inversion Hin; subst; lia|]). destruct Hin.
Qed.

Definition index_text_parses_py :=
  index_text_parses py_isspace (eq_refl : py_isspace 32 = true) (eq_refl : py_isspace 10 = true)
    (eq_refl : py_isspace 46 = false) py_alpha_nospace.

(** update_converges with the index given as TEXT *)
Theorem update_converges_text_py H e fs sc rps v0 steps px :
  let paras := map (map rf_field) rps in
  let k := choose_kind (concat paras) in
  let vn := current (versions v0 steps) in
  f_new fs = None ->
  e_index e = IdxLines (map Some (index_lines rps)) ->
  index_text_ok py_isspace rps = true ->
  concat paras = px_fields px ->
  hash_avail e k = true ->
  publishes py_isspace py_islinebreak (prefix_of k) (H k) v0 steps px = true ->
  patches_published e steps = true ->
  full_published e vn = true ->
  match f_local fs with
  | Some local => no_collision (H k) local (versions v0 steps)
  | None => true
  end = true ->
  no_faults sc = true ->
  update_file py_isspace py_islinebreak re_d nd_val H e fs sc = (Ok vn, mkfs (Some vn) None).
Proof.
  intros paras k vn Hn Hidx Htext. apply update_converges_py; [assumption|].
  rewrite Hidx. cbn [read_index]. now rewrite index_text_parses_py.
Qed.

(** * 9. The hash hypotheses are satisfiable: an injective "digest" whose values are
    single tokens (used only by the non-vacuity Examples) *)

Definition inj_char (c : N) : N := (2 * c + 20001)%N.
Definition inj_line (l : str) : str := map inj_char l ++ [20000%N].
Definition injH (k : hkind) (ls : list str) : str :=
  match k with SHA1 => 49%N | SHA256 => 50%N end :: flat_map inj_line ls.

Lemma inj_char_inj a b : inj_char a = inj_char b -> a = b.
Proof. unfold inj_char. lia. Qed.
Lemma inj_char_not_end a : inj_char a <> 20000%N.
Proof. unfold inj_char. lia. Qed.

Lemma inj_line_app l1 : forall l2 r1 r2,
  inj_line l1 ++ r1 = inj_line l2 ++ r2 -> l1 = l2 /\ r1 = r2.
Proof.
  unfold inj_line.
  induction l1 as [|a l1 IH]; intros [|b l2] r1 r2 E; cbn [map app] in E.
  - injection E as E. auto.
  - injection E as E1 E2. symmetry in E1. now apply inj_char_not_end in E1.
  - injection E as E1 E2. now apply inj_char_not_end in E1.
  - injection E as E1 E2. apply inj_char_inj in E1. subst b.
    destruct (IH l2 r1 r2 E2) as [-> ->]. auto.
Qed.

Lemma injH_inj k x : forall y, injH k x = injH k y -> x = y.
Proof.
  unfold injH. induction x as [|l x IH]; intros [|m y] E; inversion E as [E1]; clear E.
  - reflexivity.
  - unfold inj_line in E1. destruct (map inj_char m); discriminate.
  - unfold inj_line in E1. destruct (map inj_char l); discriminate.
  - cbn [flat_map] in E1. apply inj_line_app in E1. destruct E1 as [-> E1].
    f_equal. apply IH. now f_equal.
Qed.

(** * 10. The model meets the whole verdict table of the Spec on an intact index

    For a repository that publishes its history, whatever combination of faults
    the scenario lists — any set of published patches bad (missing, or with a
    digest other than the recorded one), the full file unavailable, any schedule
    of open / write / close / rename / unlink faults — and wherever the local
    copy is, the run of the model satisfies [property_holds], i.e. exactly what
    [holds] demands of the implementation: converge where it must, fail safely
    where it must, one of the two elsewhere. *)

Fixpoint patches_as_scenario (Hk : list str -> str) (e : env) (pf : list nat) (j : nat)
    (steps : list pstep) : bool :=
  match steps with
  | [] => true
  | s :: r => (if existsb (Nat.eqb j) pf then patch_bad Hk e s else patch_good e s)
              && patches_as_scenario Hk e pf (S j) r
  end.

Definition full_as_scenario (e : env) (vn : list str) (ff : bool) : bool :=
  if ff then negb (is_ok (e_full e)) else full_published e vn.

Lemma positions_ge l h : forall i x, In x (positions l h i) -> i <= x.
Proof.
  induction h as [|v h IH]; intros i x Hin; [destruct Hin|].
  cbn [positions] in Hin. apply in_app_or in Hin. destruct Hin as [Hin|Hin].
  - destruct (lines_eqb v l); [|destruct Hin]. destruct Hin as [<-|[]]. lia.
  - apply IH in Hin. lia.
Qed.

Lemma positions_chain local steps : forall v i,
  lines_eqb (final v steps) local = false ->
  match chain_from local v steps with
  | None => positions local (versions v steps) i = []
  | Some sfx => exists first rest,
      positions local (versions v steps) i = (i + first) :: rest
      /\ sfx = skipn first steps /\ first < List.length steps
      /\ (forall x, In x rest -> i + first < x)
  end.
Proof.
  induction steps as [|s r IH]; intros v i Hfin.
  - cbn [final] in Hfin. cbn [chain_from versions positions]. now rewrite Hfin.
  - cbn [final] in Hfin. cbn [chain_from versions positions].
    destruct (lines_eqb v local) eqn:Ev.
    + exists 0, (positions local (versions (ps_new s) r) (S i)). repeat split.
      * cbn [app]. now rewrite Nat.add_0_r.
      * cbn [List.length]. lia.
      * intros x Hx. apply positions_ge in Hx. lia.
    + cbn [app]. specialize (IH (ps_new s) (S i) Hfin).
      destruct (chain_from local (ps_new s) r) as [sfx|]; [|exact IH].
      destruct IH as (first & rest & E1 & E2 & E3 & E4).
      exists (S first), rest. repeat split.
      * rewrite E1. f_equal. lia.
      * exact E2.
      * cbn [List.length]. lia.
      * intros x Hx. apply E4 in Hx. lia.
Qed.

Lemma last_cons_in {A} (l : list A) a : In (last (a :: l) a) (a :: l).
Proof.
  revert a. induction l as [|b l IH]; intros a; [now left|].
  change (last (a :: b :: l) a) with (last (b :: l) a).
  right. destruct l as [|c l]; [now left|].
  specialize (IH b). change (last (b :: c :: l) a) with (last (c :: l) a).
  change (last (b :: c :: l) b) with (last (c :: l) b) in IH.
  assert (last (c :: l) a = last (c :: l) b) as ->; [|exact IH].
  clear. revert c. induction l as [|d l IH]; intros c; [reflexivity|].
  change (last (c :: d :: l) a) with (last (d :: l) a).
  change (last (c :: d :: l) b) with (last (d :: l) b). apply IH.
Qed.

Section Pas.
Variable Hk : list str -> str.
Variable e : env.
Variable pf : list nat.

Lemma pas_skipn steps : forall j n,
  patches_as_scenario Hk e pf j steps = true ->
  patches_as_scenario Hk e pf (j + n) (skipn n steps) = true.
Proof.
  induction steps as [|s r IH]; intros j n Hp.
  - now rewrite skipn_nil.
  - destruct n as [|n]; [now rewrite Nat.add_0_r|].
    cbn [patches_as_scenario] in Hp. apply andb_prop in Hp. destruct Hp as [_ Hp].
    cbn [skipn]. replace (j + S n) with (S j + n) by lia. now apply IH.
Qed.

Lemma pas_good_or_bad sfx : forall j,
  patches_as_scenario Hk e pf j sfx = true ->
  forallb (fun s => patch_good e s || patch_bad Hk e s) sfx = true.
Proof.
  induction sfx as [|s r IH]; intros j Hp; [reflexivity|].
  cbn [patches_as_scenario] in Hp. apply andb_prop in Hp. destruct Hp as [Hs Hp].
  cbn [forallb]. rewrite (IH _ Hp), andb_true_r.
  destruct (existsb (Nat.eqb j) pf); rewrite Hs; [apply orb_true_r|reflexivity].
Qed.

Lemma pas_bad sfx : forall j x,
  patches_as_scenario Hk e pf j sfx = true ->
  In x pf -> j <= x -> x < j + List.length sfx ->
  existsb (patch_bad Hk e) sfx = true.
Proof.
  induction sfx as [|s r IH]; intros j x Hp Hin H1 H2; [cbn in H2; lia|].
  cbn [patches_as_scenario] in Hp. apply andb_prop in Hp. destruct Hp as [Hs Hp].
  cbn [existsb]. destruct (Nat.eq_dec j x) as [->|Hne].
  - assert (existsb (Nat.eqb x) pf = true) as Hx.
    { apply existsb_exists. exists x. split; [assumption|apply Nat.eqb_refl]. }
    rewrite Hx in Hs. now rewrite Hs.
  - rewrite (IH (S j) x Hp Hin); [apply orb_true_r|lia|cbn [List.length] in H2; lia].
Qed.

Lemma pas_all_good sfx : forall j,
  patches_as_scenario Hk e pf j sfx = true ->
  existsb (fun x => j <=? x) pf = false ->
  forallb (patch_good e) sfx = true.
Proof.
  induction sfx as [|s r IH]; intros j Hp Hno; [reflexivity|].
  cbn [patches_as_scenario] in Hp. apply andb_prop in Hp. destruct Hp as [Hs Hp].
  assert (Hnone : forall m, j <= m -> existsb (Nat.eqb m) pf = false).
  { intros m Hm. destruct (existsb (Nat.eqb m) pf) eqn:E; [|reflexivity].
    apply existsb_exists in E. destruct E as (x & Hx & Ex). apply Nat.eqb_eq in Ex. subst x.
    assert (existsb (fun x => j <=? x) pf = true) as Hc; [|congruence].
    apply existsb_exists. exists m. split; [assumption|now apply Nat.leb_le]. }
  rewrite (Hnone j) in Hs by lia. cbn [forallb]. rewrite Hs. cbn [andb].
  apply (IH (S j) Hp).
  destruct (existsb (fun x => S j <=? x) pf) eqn:E; [|reflexivity].
  apply existsb_exists in E. destruct E as (x & Hx & Ex). apply Nat.leb_le in Ex.
  assert (existsb (Nat.eqb x) pf = true) as Hc; [|rewrite (Hnone x) in Hc by lia; discriminate].
  apply existsb_exists. exists x. split; [assumption|apply Nat.eqb_refl].
Qed.

End Pas.

Lemma failed_safely_unchanged s x fs :
  f_new fs = None -> sn_local s = f_local fs ->
  failed_safely s (observe (Err x, fs)) = true.
Proof.
  intros Hn Hl. unfold failed_safely, observe. cbn. rewrite Hn, Hl. cbn.
  destruct (f_local fs); cbn; [now rewrite str_eqb_refl|reflexivity].
Qed.

Lemma fs_fault_possible_quiet eff : fs_fault_possible eff false = false -> forallb negb eff = true.
Proof.
  unfold fs_fault_possible. rewrite orb_false_r.
  induction eff as [|x eff IH]; [reflexivity|]. cbn. destruct x; [discriminate|]. exact IH.
Qed.

Section Intact.
Variables is_space is_linebreak is_digit : N -> bool.
Variable digit_val : N -> N.
Variable H : hkind -> list str -> str.
Hypothesis Hlb10 : is_linebreak 10 = true.
Hypothesis Hdc : digit_class_ok is_digit digit_val.
Notation update_with_index := (update_with_index is_space is_linebreak is_digit digit_val H).
Notation update_file := (update_file is_space is_linebreak is_digit digit_val H).
Notation publishes := (publishes is_space is_linebreak).

Lemma update_uptodate e fs sc paras v0 steps px :
  let k := choose_kind (concat paras) in
  let vn := current (versions v0 steps) in
  concat paras = px_fields px ->
  hash_avail e k = true ->
  publishes (prefix_of k) (H k) v0 steps px = true ->
  update_with_index e (IndexFields paras) vn fs sc = (Ok vn, fs).
Proof.
  intros k vn Hfields Hav Hpub.
  destruct (publishes_parts is_space is_linebreak _ _ _ _ _ Hpub) as (Pchain & Pdist & Prec).
  unfold Update.update_with_index. fold k. rewrite Hav. cbn [negb]. rewrite Hfields.
  rewrite (run_fields_published is_space is_linebreak H Hlb10 k vn v0 steps steps px Prec).
  fold vn. now rewrite str_eqb_refl.
Qed.

Lemma update_foreign_downloads e fs sc local paras v0 steps px :
  let k := choose_kind (concat paras) in
  let vn := current (versions v0 steps) in
  concat paras = px_fields px ->
  hash_avail e k = true ->
  publishes (prefix_of k) (H k) v0 steps px = true ->
  no_collision (H k) local (versions v0 steps) = true ->
  lines_eqb local vn = false ->
  chain_from local v0 steps = None ->
  update_with_index e (IndexFields paras) local fs sc = download_file e fs sc.
Proof.
  intros k vn Hfields Hav Hpub Hnc Hloc Ecf.
  destruct (publishes_parts is_space is_linebreak _ _ _ _ _ Hpub) as (Pchain & Pdist & Prec).
  unfold Update.update_with_index. fold k. rewrite Hav. cbn [negb]. rewrite Hfields.
  rewrite (run_fields_published is_space is_linebreak H Hlb10 k local v0 steps steps px Prec).
  fold vn.
  destruct (str_eqb (H k local) (H k vn)) eqn:Eup.
  { pose proof (no_collision_current _ _ _ _ Hnc Eup) as E. fold vn in E. subst local.
    unfold lines_eqb in Hloc. now rewrite strs_eqb_refl in Hloc. }
  rewrite (walk_chain_from H k) by assumption. rewrite Ecf. reflexivity.
Qed.

Theorem update_meets_spec_intact e fs sc paras v0 steps px pf ff :
  let k := choose_kind (concat paras) in
  let vn := current (versions v0 steps) in
  let s := mkscn (versions v0 steps) (f_local fs) IdxIntact pf ff (s_eff sc) (s_unlink sc) in
  f_new fs = None ->
  read_index is_space (e_index e) = Ok (IndexFields paras) ->
  concat paras = px_fields px ->
  hash_avail e k = true ->
  publishes (prefix_of k) (H k) v0 steps px = true ->
  patches_as_scenario (H k) e pf 0 steps = true ->
  forallb (fun j => j <? List.length steps) pf = true ->
  full_as_scenario e vn ff = true ->
  match f_local fs with
  | Some local => no_collision (H k) local (versions v0 steps)
  | None => true
  end = true ->
  (forall x, H k x = H k vn -> x = vn) ->
  property_holds s (observe (update_file e fs sc)) = true.
Proof.
  intros k vn s Hn Hidx Hfields Hav Hpub Hpas Hpf Hfull Hnc Hinj.
  destruct (publishes_parts is_space is_linebreak _ _ _ _ _ Hpub) as (Pchain & Pdist & Prec).
  (* the premises of the fault theorems *)
  assert (Hkind : kind_of is_space e = k) by (unfold kind_of; now rewrite Hidx).
  assert (Hhon : index_current_honest is_space H e vn (px_sep px) (px_cur_size px) = true).
  { unfold index_current_honest. rewrite Hidx. cbv zeta. fold k. rewrite Hfields.
    unfold UpdateSpec.index_records in Prec.
    repeat (apply andb_prop in Prec; let X := fresh "X" in destruct Prec as [Prec X]).
    exact X8. }
  assert (Hfh : full_honest e vn = true).
  { unfold full_as_scenario in Hfull. unfold full_honest. destruct ff.
    - destruct (e_full e); [discriminate|reflexivity].
    - unfold full_published in Hfull. apply result_strs_eqb_eq in Hfull. rewrite Hfull.
      unfold lines_eqb. apply strs_eqb_refl. }
  assert (Hinj' : forall x, H (kind_of is_space e) x = H (kind_of is_space e) vn -> x = vn)
    by (rewrite Hkind; exact Hinj).
  assert (Hcur : current (sn_hist s) = vn) by reflexivity.
  (* "one of the two": every fault schedule, every patch fault *)
  pose proof (update_fault_safe_converges_spec is_space is_linebreak is_digit digit_val H
                e fs sc vn _ _ s Hn Hhon Hfh Hinj' Hcur eq_refl eq_refl) as HE.
  cbv zeta in HE.
  (* a certain write fault *)
  assert (HW : match f_local fs with Some local => negb (lines_eqb local vn) | None => true end = true ->
               fs_fault_certain vn (s_eff sc) = true ->
               failed_safely s (observe (update_file e fs sc)) = true).
  { intros A B.
    exact (update_write_fault_fails_spec is_space is_linebreak is_digit digit_val H
             e fs sc vn _ _ s Hn Hhon Hfh Hinj' A B eq_refl eq_refl). }
  unfold property_holds, verdict_of. cbn [sn_hist sn_local sn_index sn_pfaults sn_full_fault sn_eff sn_unlink s].
  fold vn.
  destruct (f_local fs) as [local|] eqn:Hl.
  - (* a local copy exists *)
    rewrite (update_file_with_index is_space is_linebreak is_digit digit_val H e fs sc local _ Hl Hidx) in *.
    destruct (lines_eqb local vn) eqn:Ecur.
    + (* it is current *)
      apply strs_eqb_eq in Ecur. subst local.
      pose proof (update_uptodate e fs sc paras v0 steps px Hfields Hav Hpub) as Hu.
      fold vn in Hu. rewrite Hu.
      assert (Hc : converged s (observe (Ok vn, fs)) = true).
      { destruct fs as [l n]. cbn in Hn, Hl. subst. now apply converged_intro. }
      destruct (fs_fault_possible _ _); rewrite Hc; reflexivity.
    + destruct (fs_fault_certain vn (s_eff sc)) eqn:Ecert.
      { apply HW; reflexivity. }
      assert (Hfin : lines_eqb (final v0 steps) local = false).
      { rewrite <- (current_versions steps v0). fold vn. unfold lines_eqb in *.
        destruct (strs_eqb vn local) eqn:E; [|reflexivity].
        apply strs_eqb_eq in E. subst local. now rewrite strs_eqb_refl in Ecur. }
      pose proof (positions_chain local steps v0 0 Hfin) as Hpos.
      destruct (chain_from local v0 steps) as [sfx|] eqn:Ecf.
      * destruct Hpos as (first & rest & Epos & Esfx & Hlt & Hrest). cbn [plus] in Epos, Hrest.
        rewrite Epos.
        pose proof (pas_skipn (H k) e pf steps 0 first Hpas) as Hpas'.
        cbn [plus] in Hpas'. rewrite <- Esfx in Hpas'.
        assert (Hlen : first + List.length sfx = List.length steps).
        { rewrite Esfx, skipn_length. lia. }
        destruct (existsb (fun j => last (first :: rest) first <=? j) pf) eqn:E1.
        -- (* a bad patch that cannot be avoided *)
           apply existsb_exists in E1. destruct E1 as (x & Hx & Ex). apply Nat.leb_le in Ex.
           assert (first <= last (first :: rest) first).
           { destruct (last_cons_in rest first) as [<-|Hin]; [lia|]. apply Hrest in Hin. lia. }
           rewrite forallb_forall in Hpf. pose proof (Hpf x Hx) as Hxn. apply Nat.ltb_lt in Hxn.
           destruct (update_garbled_patch_raises is_space is_linebreak is_digit digit_val H Hlb10 Hdc
                       e fs sc local paras v0 steps px sfx Hfields Hav Hpub Hnc Ecur Ecf
                       (pas_good_or_bad _ _ _ _ _ Hpas')
                       (pas_bad _ _ _ sfx first x Hpas' Hx ltac:(lia) ltac:(lia))) as [y Ey].
           rewrite Ey. now apply failed_safely_unchanged.
        -- destruct (existsb (fun j => first <=? j) pf) eqn:E2; [exact HE|].
           destruct (fs_fault_possible (s_eff sc) false) eqn:E3; [exact HE|].
           rewrite (update_converges_fields_gen is_space is_linebreak is_digit digit_val H Hlb10 Hdc
                      e fs sc local paras v0 steps px); try assumption.
           ++ now apply converged_intro.
           ++ unfold needed_served. fold vn. rewrite Ecur, Ecf.
              exact (pas_all_good _ _ _ sfx first Hpas' E2).
           ++ now apply fs_fault_possible_quiet.
      * rewrite Hpos.
        rewrite (update_foreign_downloads e fs sc local paras v0 steps px) in * by assumption.
        destruct ff.
        -- unfold full_as_scenario in Hfull. rewrite download_file_commit.
           destruct (e_full e) as [?|x]; [discriminate|]. now apply failed_safely_unchanged.
        -- destruct (fs_fault_possible (s_eff sc) false) eqn:E3; [exact HE|].
           rewrite (download_file_effquiet e fs sc vn); try assumption.
           ++ now apply converged_intro.
           ++ now apply fs_fault_possible_quiet.
  - (* no local copy *)
    assert (Hup : update_file e fs sc = download_file e fs sc).
    { unfold Update.update_file. now rewrite Hl. }
    rewrite Hup in *.
    destruct (fs_fault_certain vn (s_eff sc)) eqn:Ecert.
    { now apply HW. }
    destruct ff.
    + unfold full_as_scenario in Hfull. rewrite download_file_commit.
      destruct (e_full e) as [?|x]; [discriminate|]. apply failed_safely_unchanged; [assumption|].
      cbn. now rewrite Hl.
    + destruct (fs_fault_possible (s_eff sc) false) eqn:E3; [exact HE|].
      rewrite (download_file_effquiet e fs sc vn); try assumption.
      * now apply converged_intro.
      * now apply fs_fault_possible_quiet.
Qed.

End Intact.

Definition update_meets_spec_intact_py H :=
  update_meets_spec_intact py_isspace py_islinebreak re_d nd_val H py_lb10 digit_class_ok_str.

(** Tie to the check: on a case where [agree] holds and whose world is an intact
    publishing repository with the faults its scenario lists, [holds] is true of
    what the IMPLEMENTATION did. *)
Theorem agree_intact_implies_holds u paras v0 steps px pf ff :
  let pool := pool_of u in
  let H := pool_hash (map (@concat N) pool) in
  let e := env_of u in
  let fs := mkfs (option_map (deref pool) (u_local u)) None in
  let sc := mksched (u_eff u) (u_unlink u) in
  let k := choose_kind (concat paras) in
  let vn := current (versions v0 steps) in
  agree_update u = true ->
  scenario_of u = mkscn (versions v0 steps) (f_local fs) IdxIntact pf ff (s_eff sc) (s_unlink sc) ->
  read_index py_isspace (e_index e) = Ok (IndexFields paras) ->
  concat paras = px_fields px ->
  hash_avail e k = true ->
  publishes py_isspace py_islinebreak (prefix_of k) (H k) v0 steps px = true ->
  patches_as_scenario (H k) e pf 0 steps = true ->
  forallb (fun j => j <? List.length steps) pf = true ->
  full_as_scenario e vn ff = true ->
  match f_local fs with
  | Some local => no_collision (H k) local (versions v0 steps)
  | None => true
  end = true ->
  (forall x, H k x = H k vn -> x = vn) ->
  holds_update u = true.
Proof.
  intros pool H e fs sc k vn Hag Hscn Hidx Hfields Hav Hpub Hpas Hpf Hfull Hnc Hinj.
  unfold holds_update. rewrite (agree_observe u Hag), Hscn. unfold model_update.
  now apply (update_meets_spec_intact_py H e fs sc paras v0 steps px pf ff).
Qed.

(** * 11. update_unusable_index_downloads, in one statement *)

(** a field update_file cannot use comes before any -Current field it can use *)
Fixpoint malformed_first (is_space is_linebreak : N -> bool) (k : hkind) (fs : list field) : bool :=
  match fs with
  | [] => false
  | f :: r =>
      if malformed_field is_space is_linebreak k f then true
      else if str_eqb (fst f) (f_current k) then false
      else malformed_first is_space is_linebreak k r
  end.

(** absent | not a deb822 file | no -Current field | a malformed field first *)
Definition unusable_index (is_space is_linebreak : N -> bool) (e : env) : bool :=
  match e_index e with
  | IdxAbsent => true
  | IdxLines ls =>
      match parse_pf is_space ls with
      | Err ParseError => true
      | Err _ => false
      | Ok paras =>
          let fs := concat paras in
          let k := choose_kind fs in
          hash_avail e k
          && ((field_count (f_current k) fs =? 0)%nat || malformed_first is_space is_linebreak k fs)
      end
  end.

Lemma malformed_first_split is_space is_linebreak k fs :
  malformed_first is_space is_linebreak k fs = true ->
  exists pre f post, fs = pre ++ f :: post /\ field_count (f_current k) pre = 0%nat
                     /\ malformed_field is_space is_linebreak k f = true.
Proof.
  induction fs as [|f r IH]; [discriminate|]. cbn [malformed_first].
  destruct (malformed_field is_space is_linebreak k f) eqn:Em.
  - intros _. exists [], f, r. auto.
  - destruct (str_eqb (fst f) (f_current k)) eqn:Ec; [discriminate|].
    intros Hr. destruct (IH Hr) as (pre & g & post & E1 & E2 & E3).
    exists (f :: pre), g, post. repeat split; [now rewrite E1| |exact E3].
    destruct f as [a b]. rewrite field_count_cons. cbn [fst] in Ec. now rewrite Ec.
Qed.

Theorem update_unusable_index_downloads is_space is_linebreak is_digit digit_val H e fs sc :
  unusable_index is_space is_linebreak e = true ->
  update_file is_space is_linebreak is_digit digit_val H e fs sc = download_file e fs sc.
Proof.
  unfold unusable_index. intros Hu.
  destruct (e_index e) as [|ls] eqn:Ei; [now apply update_index_absent|].
  destruct (parse_pf is_space ls) as [paras|x] eqn:Ep.
  - assert (Hidx : read_index is_space (e_index e) = Ok (IndexFields paras)).
    { rewrite Ei. cbn [read_index]. now rewrite Ep. }
    cbv zeta in Hu. apply andb_prop in Hu. destruct Hu as [Hav Hu].
    apply orb_prop in Hu. destruct Hu as [Hu|Hu].
    + apply Nat.eqb_eq in Hu.
      now apply (update_file_no_current_downloads is_space is_linebreak is_digit digit_val H e paras).
    + destruct (malformed_first_split _ _ _ _ Hu) as (pre & f & post & E1 & E2 & E3).
      now apply (update_file_malformed_field_downloads is_space is_linebreak is_digit digit_val H
                   e paras pre f post).
  - destruct x; try discriminate.
    now apply (update_index_unparseable is_space is_linebreak is_digit digit_val H e fs sc ls).
Qed.

(** "... same conclusion": with the full file served and no fault, from any local state *)
Theorem update_unusable_index_converges is_space is_linebreak is_digit digit_val H e fs sc vn :
  unusable_index is_space is_linebreak e = true ->
  full_published e vn = true -> no_faults sc = true -> f_new fs = None ->
  update_file is_space is_linebreak is_digit digit_val H e fs sc = (Ok vn, mkfs (Some vn) None).
Proof.
  intros Hu Hf Hq Hn. rewrite update_unusable_index_downloads by assumption.
  now apply download_file_quiet.
Qed.

(** * 12. Every history: the mirror of a publishable history meets all premises *)

Definition mirror_env (k : hkind) (Hk : list str -> str) (sha1 sha256 sha2 : bool)
    (cur_size : str) (v0 : list str) (steps : list pstep) : env :=
  mkenv sha1 sha256 sha2
    (IdxLines (map Some (index_lines (mirror_index (prefix_of k) Hk cur_size v0 steps))))
    (fun n => match mirror_patch steps n with Some c => Ok c | None => Err IOError end)
    (Ok (current (versions v0 steps))).

Section Mirror.
Variables is_space is_linebreak : N -> bool.
Hypothesis Hsp32 : is_space 32 = true.
Hypothesis Hsp10 : is_space 10 = true.
Hypothesis Hlb32 : is_linebreak 32 = false.
Hypothesis Hlbsp : forall c, is_linebreak c = true -> is_space c = true.
Variable k : hkind.
Variable Hk : list str -> str.
Variable cur_size : str.
Notation token_ok := (token_ok is_space).
Notation lb_free := (lb_free is_linebreak).
Notation trimmed := (trimmed is_space).

Lemma token_lb_free t : token_ok t = true -> lb_free t = true.
Proof.
  intros Ht. destruct (token_parts is_space t Ht) as [_ Hns].
  unfold UpdateSpec.lb_free. rewrite forallb_forall in *. intros c Hc.
  specialize (Hns c Hc). apply negb_true_iff in Hns. apply negb_true_iff.
  destruct (is_linebreak c) eqn:E; [|reflexivity]. apply Hlbsp in E. congruence.
Qed.

Lemma token_no_lf t : token_ok t = true -> existsb (N.eqb 10) t = false.
Proof.
  intros Ht. destruct (token_parts is_space t Ht) as [_ Hns].
  destruct (existsb (N.eqb 10) t) eqn:E; [|reflexivity].
  apply existsb_exists in E. destruct E as (c & Hc & Ec). apply N.eqb_eq in Ec. subst c.
  rewrite forallb_forall in Hns. specialize (Hns _ Hc). now rewrite Hsp10 in Hns.
Qed.

Lemma forallb_app {A} (f : A -> bool) a b : forallb f (a ++ b) = forallb f a && forallb f b.
Proof. induction a; cbn; [reflexivity|]. now rewrite IHa, andb_assoc. Qed.

Lemma row_lb_free a b c :
  token_ok a = true -> token_ok b = true -> token_ok c = true ->
  lb_free (row [32%N] a b c) = true.
Proof.
  intros Ha Hb Hc. unfold row, UpdateSpec.lb_free. rewrite !forallb_app.
  pose proof (token_lb_free _ Ha) as A. pose proof (token_lb_free _ Hb) as B.
  pose proof (token_lb_free _ Hc) as C. unfold UpdateSpec.lb_free in A, B, C.
  rewrite A, B, C. cbn. now rewrite Hlb32.
Qed.

Lemma existsb_app' {A} (f : A -> bool) a b : existsb f (a ++ b) = existsb f a || existsb f b.
Proof. induction a; cbn; [reflexivity|]. now rewrite IHa, orb_assoc. Qed.

Lemma last_app_token (a : str) x y d : last (x ++ a ++ [y]) d = y.
Proof. rewrite app_assoc. apply last_last. Qed.

(** a value "tok sep ... sep tok" is trimmed *)
Lemma trimmed_tokens a mid z :
  token_ok a = true -> token_ok z = true -> existsb (N.eqb 10) mid = false ->
  trimmed (a ++ mid ++ z) = true.
Proof.
  intros Ha Hz Hm. unfold UpdateSpec.trimmed.
  destruct (token_parts is_space a Ha) as [Hane Hans].
  destruct (token_parts is_space z Hz) as [Hzne Hzns].
  destruct a as [|c a]; [congruence|]. cbn [app].
  cbn [forallb] in Hans. apply andb_prop in Hans. destruct Hans as [Hc _].
  rewrite Hc. cbn [andb].
  assert (Hlast : is_space (last (c :: a ++ mid ++ z) c) = false).
  { destruct (exists_last Hzne) as (z' & y & ->).
    change (c :: a ++ mid ++ z' ++ [y]) with ((c :: a) ++ mid ++ z' ++ [y]).
    rewrite (app_assoc mid), (app_assoc (c :: a)). rewrite last_last.
    rewrite forallb_app in Hzns. apply andb_prop in Hzns. destruct Hzns as [_ Hy].
    cbn in Hy. rewrite andb_true_r in Hy. now apply negb_true_iff in Hy. }
  rewrite Hlast. cbn [negb andb].
  change (c :: a ++ mid ++ z) with ((c :: a) ++ mid ++ z). rewrite !existsb_app'.
  rewrite (token_no_lf _ Ha), (token_no_lf _ Hz), Hm. reflexivity.
Qed.

Lemma row_trimmed a b c :
  token_ok a = true -> token_ok b = true -> token_ok c = true ->
  trimmed (row [32%N] a b c) = true /\ str_eqb (row [32%N] a b c) [46%N] = false.
Proof.
  intros Ha Hb Hc. split.
  - unfold row.
    replace (a ++ [32%N] ++ b ++ [32%N] ++ c) with (a ++ ([32%N] ++ b ++ [32%N]) ++ c)
      by (now rewrite <- !app_assoc).
    apply trimmed_tokens; try assumption. rewrite !existsb_app'. rewrite (token_no_lf _ Hb). reflexivity.
  - destruct (token_parts is_space a Ha) as [Hane _]. unfold row.
    destruct a as [|x a]; [congruence|]. cbn. destruct a; cbn; now rewrite ?andb_false_r.
Qed.

Notation steps_tok steps :=
  (forallb (fun s => token_ok (ps_name s) && token_ok (ps_hsize s) && token_ok (ps_psize s)
                     && token_ok (Hk (ps_script s))) steps).

Lemma hist_rows_facts steps : forall v,
  steps_tok steps = true ->
  forallb (fun v => token_ok (Hk v)) (versions v steps) = true ->
  forallb lb_free (hist_rows Hk [32%N] v steps) = true
  /\ nonblank (hist_rows Hk [32%N] v steps) = hist_rows Hk [32%N] v steps
  /\ forallb (fun e => trimmed e && negb (str_eqb e [46%N])) (hist_rows Hk [32%N] v steps) = true.
Proof.
  induction steps as [|s r IH]; intros v Ht Hv; [auto|].
  cbn [forallb] in Ht. apply andb_prop in Ht. destruct Ht as [Hs Ht].
  apply andb_prop in Hs. destruct Hs as [Hs H4]. apply andb_prop in Hs. destruct Hs as [Hs H3].
  apply andb_prop in Hs. destruct Hs as [H1 H2].
  cbn [versions forallb] in Hv. apply andb_prop in Hv. destruct Hv as [Hv0 Hv].
  destruct (IH _ Ht Hv) as (A & B & C). cbn [hist_rows forallb].
  destruct (row_trimmed _ _ _ Hv0 H2 H1) as [T1 T2].
  repeat split.
  - now rewrite row_lb_free, A.
  - rewrite nonblank_cons.
    assert (is_nil_str (row [32%N] (Hk v) (ps_hsize s) (ps_name s)) = false) as ->.
    { destruct (token_parts is_space _ Hv0) as [Hne _]. unfold row. now destruct (Hk v). }
    cbn [negb]. now rewrite B.
  - now rewrite T1, T2, C.
Qed.

Lemma patch_rows_facts steps :
  steps_tok steps = true ->
  forallb lb_free (patch_rows Hk [32%N] steps) = true
  /\ nonblank (patch_rows Hk [32%N] steps) = patch_rows Hk [32%N] steps
  /\ forallb (fun e => trimmed e && negb (str_eqb e [46%N])) (patch_rows Hk [32%N] steps) = true.
Proof.
  induction steps as [|s r IH]; intros Ht; [auto|].
  cbn [forallb] in Ht. apply andb_prop in Ht. destruct Ht as [Hs Ht].
  apply andb_prop in Hs. destruct Hs as [Hs H4]. apply andb_prop in Hs. destruct Hs as [Hs H3].
  apply andb_prop in Hs. destruct Hs as [H1 H2].
  destruct (IH Ht) as (A & B & C). unfold patch_rows in *. cbn [map forallb].
  destruct (row_trimmed _ _ _ H4 H3 H1) as [T1 T2].
  repeat split.
  - now rewrite row_lb_free, A.
  - rewrite nonblank_cons.
    assert (is_nil_str (row [32%N] (Hk (ps_script s)) (ps_psize s) (ps_name s)) = false) as ->.
    { destruct (token_parts is_space _ H4) as [Hne _]. unfold row. now destruct (Hk (ps_script s)). }
    cbn [negb]. now rewrite B.
  - now rewrite T1, T2, C.
Qed.

Lemma history_ok_parts v0 steps :
  history_ok is_space Hk cur_size v0 steps = true ->
  chain_ok v0 steps = true /\ distinct (map ps_name steps) = true
  /\ steps_tok steps = true
  /\ forallb (fun v => token_ok (Hk v)) (versions v0 steps) = true
  /\ token_ok cur_size = true.
Proof.
  unfold history_ok. intros E.
  do 4 (apply andb_prop in E; let X := fresh "X" in destruct E as [E X]). auto.
Qed.

Lemma current_token v0 steps :
  forallb (fun v => token_ok (Hk v)) (versions v0 steps) = true ->
  token_ok (Hk (current (versions v0 steps))) = true.
Proof.
  intros Hv. rewrite forallb_forall in Hv. apply Hv.
  rewrite current_versions. apply final_in_versions.
Qed.

Theorem mirror_publishes v0 steps :
  history_ok is_space Hk cur_size v0 steps = true ->
  publishes is_space is_linebreak (prefix_of k) Hk v0 steps
    (mirror_px (prefix_of k) Hk cur_size v0 steps) = true.
Proof.
  intros Hok. destruct (history_ok_parts _ _ Hok) as (Hc & Hd & Ht & Hv & Hcs).
  destruct (hist_rows_facts steps v0 Ht Hv) as (A1 & A2 & _).
  destruct (patch_rows_facts steps Ht) as (B1 & B2 & _).
  pose proof (current_token _ _ Hv) as Hvn.
  unfold UpdateSpec.publishes. rewrite Hc, Hd. cbn [andb].
  unfold UpdateSpec.index_records. rewrite Ht, Hv. cbn [andb].
  unfold current_ok, mirror_px.
  cbn [px_fields px_sep px_cur_size px_hist_entries px_patch_entries].
  rewrite Hvn, Hcs.
  assert (Hsep : sep_ok is_space [32%N] = true) by (cbn; now rewrite Hsp32).
  rewrite Hsep. cbn [andb forallb]. rewrite A1, B1.
  rewrite !nonblank_cons. cbn [is_nil_str negb]. rewrite A2, B2, !strs_eqb_refl.
  unfold mirror_index, rf_field, entries_value.
  cbn [map concat app rf_name rf_first rf_conts join intersperse_concat].
  destruct k; cbn [prefix_of]; unfold field_is, field_count, fname;
    cbn [forallb filter fst snd]; vm_compute (str_eqb (dec _ ++ dec _) (dec _ ++ dec _));
    cbn [negb orb andb List.length app Nat.leb Nat.eqb]; now rewrite !str_eqb_refl.
Qed.

Theorem mirror_text_ok v0 steps :
  history_ok is_space Hk cur_size v0 steps = true ->
  index_text_ok is_space (mirror_index (prefix_of k) Hk cur_size v0 steps) = true.
Proof.
  intros Hok. destruct (history_ok_parts _ _ Hok) as (Hc & Hd & Ht & Hv & Hcs).
  destruct (hist_rows_facts steps v0 Ht Hv) as (_ & _ & A3).
  destruct (patch_rows_facts steps Ht) as (_ & _ & B3).
  pose proof (current_token _ _ Hv) as Hvn.
  unfold index_text_ok, mirror_index. cbn [forallb negb andb].
  unfold UpdateSpec.rfield_ok. cbn [rf_name rf_first rf_conts forallb].
  rewrite A3, B3.
  assert (trimmed (Hk (current (versions v0 steps)) ++ [32%N] ++ cur_size) = true) as ->.
  { apply trimmed_tokens; try assumption. reflexivity. }
  assert (trimmed [] = true) as -> by reflexivity.
  destruct k; reflexivity.
Qed.

Lemma mirror_choose_kind v0 steps :
  choose_kind (concat (map (map rf_field) (mirror_index (prefix_of k) Hk cur_size v0 steps))) = k.
Proof.
  unfold mirror_index, choose_kind, rf_field.
  cbn [map concat app existsb fst rf_name]. destruct k; reflexivity.
Qed.

Lemma mirror_patch_served steps s :
  distinct (map ps_name steps) = true -> In s steps ->
  mirror_patch steps (ps_name s) = Some (ps_script s).
Proof.
  unfold mirror_patch. induction steps as [|t r IH]; intros Hd Hin; [destruct Hin|].
  cbn [map distinct] in Hd. apply andb_prop in Hd. destruct Hd as [Hn Hd].
  cbn [List.find]. destruct (str_eqb (ps_name t) (ps_name s)) eqn:E.
  - destruct Hin as [->|Hin]; [reflexivity|]. exfalso.
    apply negb_true_iff in Hn. apply str_eqb_eq in E.
    assert (existsb (str_eqb (ps_name t)) (map ps_name r) = true) as Hx; [|congruence].
    apply existsb_exists. exists (ps_name s). split; [now apply in_map|].
    rewrite E. apply str_eqb_refl.
  - destruct Hin as [->|Hin]; [now rewrite str_eqb_refl in E|]. now apply IH.
Qed.

End Mirror.

Lemma py_lb_is_space c : py_islinebreak c = true -> py_isspace c = true.
Proof.
  unfold py_islinebreak. intros E. apply existsb_exists in E. destruct E as (x & Hx & Ex).
  apply N.eqb_eq in Ex. subst x. unfold py_linebreaks in Hx. cbn [In] in Hx.
  repeat (destruct Hx as [<-|Hx]; [reflexivity|]). destruct Hx.
Qed.

Section AllHistories.
Variable H : hkind -> list str -> str.
Variable k : hkind.
Variable cur_size : str.
Variables (v0 : list str) (steps : list pstep).
Hypothesis Hok : history_ok py_isspace (H k) cur_size v0 steps = true.
Let vn := current (versions v0 steps).
Let rps := mirror_index (prefix_of k) (H k) cur_size v0 steps.
Let px := mirror_px (prefix_of k) (H k) cur_size v0 steps.

Lemma mirror_kind : choose_kind (concat (map (map rf_field) rps)) = k.
Proof. apply mirror_choose_kind. Qed.

Lemma mirror_kind' : choose_kind (@concat field (map (map rf_field) rps)) = k.
Proof. exact mirror_kind. Qed.

Lemma mirror_pub :
  publishes py_isspace py_islinebreak (prefix_of k) (H k) v0 steps px = true.
Proof.
  apply mirror_publishes; try reflexivity; [apply py_lb_is_space|exact Hok].
Qed.

Lemma mirror_txt : index_text_ok py_isspace rps = true.
Proof. apply (mirror_text_ok py_isspace py_islinebreak); try reflexivity; [apply py_lb_is_space|exact Hok]. Qed.

Lemma mirror_read e :
  e_index e = IdxLines (map Some (index_lines rps)) ->
  read_index py_isspace (e_index e) = Ok (IndexFields (map (map rf_field) rps)).
Proof. intros ->. cbn [read_index]. now rewrite (index_text_parses_py rps mirror_txt). Qed.

(** update_converges for EVERY publishable history: the premises about the index
    are theorems about the mirror, not hypotheses *)
Theorem update_converges_all_histories sha1 sha256 sha2 local sc :
  let e := mirror_env k (H k) sha1 sha256 sha2 cur_size v0 steps in
  hash_avail e k = true ->
  match local with
  | Some l => no_collision (H k) l (versions v0 steps)
  | None => true
  end = true ->
  no_faults sc = true ->
  update_file py_isspace py_islinebreak re_d nd_val H e (mkfs local None) sc
  = (Ok vn, mkfs (Some vn) None).
Proof.
  intros e Hav Hnc Hq.
  pose proof (update_converges_text_py H e (mkfs local None) sc rps v0 steps px) as T.
  cbv zeta in T. rewrite mirror_kind in T. apply T; try reflexivity; try assumption.
  - exact mirror_txt.
  - exact mirror_pub.
  - unfold patches_published. apply forallb_forall. intros s Hs. cbn [e_patch e mirror_env].
    destruct (history_ok_parts py_isspace _ _ _ _ Hok) as (_ & Hd & _).
    rewrite (mirror_patch_served steps s Hd Hs). cbn. apply strs_eqb_refl.
  - unfold full_published. cbn. apply strs_eqb_refl.
Qed.

(** the whole verdict table for EVERY publishable history: any environment that
    serves the mirror's Index, with any set of bad patches, the full file there or
    not, any fault schedule, any local state *)
Theorem update_meets_spec_all_histories e fs sc pf ff :
  let s := mkscn (versions v0 steps) (f_local fs) IdxIntact pf ff (s_eff sc) (s_unlink sc) in
  f_new fs = None ->
  e_index e = IdxLines (map Some (index_lines rps)) ->
  hash_avail e k = true ->
  patches_as_scenario (H k) e pf 0 steps = true ->
  forallb (fun j => j <? List.length steps) pf = true ->
  full_as_scenario e vn ff = true ->
  match f_local fs with
  | Some local => no_collision (H k) local (versions v0 steps)
  | None => true
  end = true ->
  (forall x, H k x = H k vn -> x = vn) ->
  property_holds s (observe (update_file py_isspace py_islinebreak re_d nd_val H e fs sc)) = true.
Proof.
  intros s Hn Hidx Hav Hpas Hpf Hfull Hnc Hinj.
  pose proof (update_meets_spec_intact_py H e fs sc (map (map rf_field) rps) v0 steps px pf ff) as T.
  cbv zeta in T. rewrite mirror_kind' in T. apply T; try assumption; try reflexivity.
  - now apply mirror_read.
  - exact mirror_pub.
Qed.

End AllHistories.

(** * 13. A malformed field anywhere: full download unless a -Current field before
    it already said "up to date" *)

(** this field is not a -Current field that records the digest [lh] *)
Definition not_uptodate (is_space : N -> bool) (k : hkind) (lh : str) (f : field) : bool :=
  negb (str_eqb (fst f) (f_current k))
  || match resplit is_space (snd f) with
     | [rh; _] => negb (str_eqb lh rh)
     | _ => true
     end.

Section Unusable2.
Variables is_space is_linebreak is_digit : N -> bool.
Variable digit_val : N -> N.
Variable H : hkind -> list str -> str.
Notation update_with_index := (update_with_index is_space is_linebreak is_digit digit_val H).
Notation update_file := (update_file is_space is_linebreak is_digit digit_val H).
Notation run_fields := (run_fields is_space is_linebreak).

Lemma run_fields_not_uptodate k lh fs : forall st,
  forallb (not_uptodate is_space k lh) fs = true ->
  run_fields k lh fs st <> UpToDate.
Proof.
  induction fs as [|[name value] fs IH]; intros st Hall; [discriminate|].
  cbn [forallb] in Hall. apply andb_prop in Hall. destruct Hall as [Hf Hall].
  unfold not_uptodate in Hf. cbn [fst snd] in Hf.
  cbn [Update.run_fields Update.step_field].
  destruct (str_eqb name (f_current k)).
  - cbn [negb orb] in Hf.
    destruct (resplit is_space value) as [|rh [|x [|? ?]]]; try discriminate.
    apply negb_true_iff in Hf. rewrite Hf. now apply IH.
  - destruct (str_eqb name (f_history k)).
    + destruct (hist_entries _ _ _ _); [now apply IH|discriminate].
    + destruct (str_eqb name (f_patches k)).
      * destruct (patch_entries _ _ _); [now apply IH|discriminate].
      * now apply IH.
Qed.

Theorem update_malformed_field_downloads_gen e paras pre f post lines fs sc :
  let k := choose_kind (concat paras) in
  hash_avail e k = true ->
  concat paras = pre ++ f :: post ->
  forallb (not_uptodate is_space k (H k lines)) pre = true ->
  malformed_field is_space is_linebreak k f = true ->
  update_with_index e (IndexFields paras) lines fs sc = download_file e fs sc.
Proof.
  intros k Hav Hsplit Hpre Hm. unfold Update.update_with_index. fold k. rewrite Hav. cbn [negb].
  rewrite Hsplit, run_fields_app.
  pose proof (run_fields_not_uptodate k (H k lines) pre (mkst None [] []) Hpre) as Hr.
  destruct (run_fields k (H k lines) pre _) as [st| |]; [|congruence|reflexivity].
  cbn [Update.run_fields]. now rewrite step_field_malformed.
Qed.

Theorem update_file_malformed_field_downloads_gen e paras pre f post lines fs sc :
  let k := choose_kind (concat paras) in
  f_local fs = Some lines ->
  read_index is_space (e_index e) = Ok (IndexFields paras) ->
  hash_avail e k = true ->
  concat paras = pre ++ f :: post ->
  forallb (not_uptodate is_space k (H k lines)) pre = true ->
  malformed_field is_space is_linebreak k f = true ->
  update_file e fs sc = download_file e fs sc.
Proof.
  intros k Hl Hi. rewrite (update_file_with_index is_space is_linebreak is_digit digit_val H
                             e fs sc lines _ Hl Hi).
  now apply update_malformed_field_downloads_gen.
Qed.

End Unusable2.
