(** Proofs for C19 (update_file).  The theorems are about the model functions of
    Pdiff/Update.v — the same definitions UpdateCheck.agree runs — and are stated
    against Pdiff/UpdateSpec.v (Part 1: the verdict functions [holds] uses;
    Part 2: what "a repository publishes a pdiff index for a history" means). *)
From Coq Require Import String.
From Verif Require Import Lib.Base Lib.PyStr Lib.Dec Lib.PySlice
  Pdiff.Ed Pdiff.EdSpec Pdiff.EdProofs Pdiff.Update Pdiff.UpdateSpec.

(** * 0. Small general facts *)

Lemma option_str_eqb_refl (o : option str) : option_eqb str_eqb o o = true.
Proof. destruct o; simpl; [apply str_eqb_refl|reflexivity]. Qed.

Lemma strs_eqb_refl (l : list str) : strs_eqb l l = true.
Proof. now apply strs_eqb_eq. Qed.

Lemma str_neq_eqb (a b : str) : a <> b -> str_eqb a b = false.
Proof. intros Hne. destruct (str_eqb a b) eqn:E; [|reflexivity]. now apply str_eqb_eq in E. Qed.

Lemma option_str_eqb_eq (a b : option str) : option_eqb str_eqb a b = true <-> a = b.
Proof.
  destruct a, b; simpl; split; intros E; try discriminate; try reflexivity.
  - apply str_eqb_eq in E. now subst.
  - inversion E. apply str_eqb_refl.
Qed.

Lemma result_strs_eqb_eq (a b : result (list str)) :
  result_eqb strs_eqb a b = true <-> a = b.
Proof.
  destruct a, b; simpl; split; intros E; try discriminate.
  - apply strs_eqb_eq in E. now subst.
  - inversion E. apply strs_eqb_refl.
  - apply err_eqb_eq in E. now subst.
  - inversion E. now apply err_eqb_eq.
Qed.

(** * 1. replace_file: the effect sequence *)

Lemma write_all_ok ls : forall buf s b s',
  write_all ls buf s = (true, b, s') -> b = buf ++ ls.
Proof.
  induction ls as [|l ls IH]; intros buf s b s' E; cbn [write_all] in E.
  - inversion E. now rewrite app_nil_r.
  - destruct (next s) as [fail s1]. destruct fail; [discriminate|].
    apply IH in E. now rewrite <- app_assoc in E.
Qed.

(** What one run leaves behind, as the property phrases it. *)
Definition outcome_safe {A} (written : A -> list str) (fs : fsstate) (sc : sched)
    (out : result A * fsstate) : Prop :=
  match fst out with
  | Ok a => f_local (snd out) = Some (written a) /\ f_new (snd out) = None
  | Err _ => f_local (snd out) = f_local fs
             /\ (s_unlink sc = false -> f_new (snd out) = None)
  end.

Lemma replace_file_safe lines fs sc :
  f_new fs = None ->
  outcome_safe (fun _ => lines) fs sc (replace_file lines fs sc).
Proof.
  intros Hn. unfold outcome_safe, replace_file.
  destruct (next (s_eff sc)) as [fo s1]. destruct fo.
  - unfold finally_unlink. rewrite Hn. cbn. auto.
  - destruct (write_all lines [] s1) as [[ok buf] s2] eqn:Ew.
    destruct (next s2) as [fc s3].
    destruct (negb ok || fc) eqn:E.
    + unfold finally_unlink. cbn [f_new f_local].
      destruct (s_unlink sc); cbn; split; auto; intros; discriminate.
    + destruct (next s3) as [fr s4]. destruct fr.
      * unfold finally_unlink. cbn [f_new f_local].
        destruct (s_unlink sc); cbn; split; auto; intros; discriminate.
      * unfold finally_unlink. cbn.
        apply orb_false_iff in E. destruct E as [E _].
        apply negb_false_iff in E. subst ok.
        apply write_all_ok in Ew. cbn in Ew. subst buf. auto.
Qed.

(** A fault anywhere among the effects of one complete replacement — open, one
    write per line, close, rename — makes replace_file raise. *)
Lemma write_all_fault ls : forall buf s ok b s',
  write_all ls buf s = (ok, b, s') ->
  existsb (fun x => x) (firstn (List.length ls) s) = true -> ok = false.
Proof.
  induction ls as [|l ls IH]; intros buf s ok b s' E Hf; cbn [write_all] in E.
  - cbn in Hf. discriminate.
  - destruct s as [|x s]; [cbn in Hf; discriminate|].
    cbn [next] in E. cbn [List.length firstn existsb] in Hf. destruct x.
    + now inversion E.
    + cbn in Hf. eapply IH; eassumption.
Qed.

Lemma write_all_rest ls : forall buf s b s',
  write_all ls buf s = (true, b, s') -> s' = skipn (List.length ls) s.
Proof.
  induction ls as [|l ls IH]; intros buf s b s' E; cbn [write_all] in E.
  - now inversion E.
  - destruct s as [|x s]; cbn [next] in E.
    + apply IH in E. rewrite E. now rewrite !skipn_nil.
    + destruct x; [discriminate|]. apply IH in E. exact E.
Qed.

Lemma existsb_firstn_split (n m : nat) (s : list bool) :
  existsb (fun x => x) (firstn (n + m) s) =
  existsb (fun x => x) (firstn n s) || existsb (fun x => x) (firstn m (skipn n s)).
Proof.
  revert s. induction n as [|n IH]; intros s; cbn [plus firstn skipn existsb]; [reflexivity|].
  destruct s as [|x s]; cbn [firstn existsb skipn].
  - now rewrite firstn_nil.
  - rewrite IH. now rewrite orb_assoc.
Qed.

Lemma replace_file_fault lines fs sc :
  fs_fault_certain lines (s_eff sc) = true ->
  is_ok (fst (replace_file lines fs sc)) = false.
Proof.
  unfold fs_fault_certain, replace_file. intros Hf.
  assert (Hres : forall fs0, is_ok (fst (finally_unlink (Err IOError) fs0 sc)) = false).
  { intros fs0. unfold finally_unlink. destruct (f_new fs0); [|reflexivity].
    destruct (s_unlink sc); reflexivity. }
  destruct (s_eff sc) as [|x s]; [now rewrite firstn_nil in Hf|].
  cbn [next]. destruct x; [now apply Hres|].
  replace (List.length lines + 3)%nat with (S (List.length lines + 2)) in Hf by lia.
  cbn [firstn existsb orb] in Hf.
  destruct (write_all lines [] s) as [[ok buf] s2] eqn:Ew.
  rewrite existsb_firstn_split in Hf.
  destruct (existsb (fun x => x) (firstn (List.length lines) s)) eqn:E1.
  - pose proof (write_all_fault _ _ _ _ _ _ Ew E1) as ->.
    destruct (next s2). cbn [negb orb]. now apply Hres.
  - cbn [orb] in Hf. destruct ok.
    + apply write_all_rest in Ew. subst s2.
      destruct (skipn (List.length lines) s) as [|c s3]; [discriminate|].
      cbn [next negb orb]. destruct c; [now apply Hres|].
      cbn [firstn existsb orb] in Hf.
      destruct s3 as [|r s4]; [discriminate|]. cbn [next]. cbn [firstn existsb] in Hf.
      destruct r; [now apply Hres|]. cbn in Hf. discriminate.
    + destruct (next s2). cbn [negb orb]. now apply Hres.
Qed.

(** With no fault scheduled the replacement happens. *)
Definition no_faults (sc : sched) : bool :=
  forallb negb (s_eff sc) && negb (s_unlink sc).

Lemma next_quiet s : forallb negb s = true ->
  fst (next s) = false /\ forallb negb (snd (next s)) = true.
Proof.
  destruct s as [|x s]; cbn; [auto|]. intros E. apply andb_true_iff in E.
  destruct E as [E1 E2]. apply negb_true_iff in E1. auto.
Qed.

Lemma write_all_quiet ls : forall buf s, forallb negb s = true ->
  exists s', write_all ls buf s = (true, buf ++ ls, s') /\ forallb negb s' = true.
Proof.
  induction ls as [|l ls IH]; intros buf s Hs; cbn [write_all].
  - exists s. now rewrite app_nil_r.
  - destruct (next_quiet s Hs) as [E1 E2]. destruct (next s) as [fail s1]. cbn in E1, E2.
    subst fail. destruct (IH (buf ++ [l]) s1 E2) as [s' [E3 E4]].
    exists s'. rewrite E3. now rewrite <- app_assoc.
Qed.

Lemma replace_file_quiet lines fs sc :
  no_faults sc = true -> f_new fs = None ->
  replace_file lines fs sc = (Ok tt, mkfs (Some lines) None).
Proof.
  unfold no_faults. intros Hq Hn. apply andb_true_iff in Hq. destruct Hq as [Hq Hu].
  unfold replace_file.
  destruct (next_quiet _ Hq) as [E1 E2]. destruct (next (s_eff sc)) as [fo s1].
  cbn in E1, E2. subst fo.
  destruct (write_all_quiet lines [] s1 E2) as [s2 [Ew Hs2]]. rewrite Ew. cbn [app].
  destruct (next_quiet _ Hs2) as [E3 E4]. destruct (next s2) as [fc s3].
  cbn in E3, E4. subst fc. cbn [negb orb].
  destruct (next_quiet _ E4) as [E5 _]. destruct (next s3) as [fr s4]. cbn in E5. subst fr.
  reflexivity.
Qed.

(** * 2. update_file is safe under EVERY environment and EVERY fault schedule *)

Section Safety.
Variables is_space is_linebreak is_digit : N -> bool.
Variable digit_val : N -> N.
Variable H : hkind -> list str -> str.

Notation update_with_index := (update_with_index is_space is_linebreak is_digit digit_val H).
Notation update_file := (update_file is_space is_linebreak is_digit digit_val H).

Lemma download_file_safe e fs sc :
  f_new fs = None -> outcome_safe (fun ls => ls) fs sc (download_file e fs sc).
Proof.
  intros Hn. unfold download_file. destruct (e_full e) as [lines|x].
  - pose proof (replace_file_safe lines fs sc Hn) as Hs.
    destruct (replace_file lines fs sc) as [r fs']. unfold outcome_safe in *. cbn in *.
    destruct r; exact Hs.
  - unfold outcome_safe. cbn. auto.
Qed.

Lemma unchanged_safe {A} (w : A -> list str) fs sc x :
  f_new fs = None -> outcome_safe w fs sc (Err x, fs).
Proof. intros Hn. unfold outcome_safe. cbn. auto. Qed.

Lemma update_with_index_safe e idx lines fs sc :
  f_new fs = None -> f_local fs = Some lines ->
  outcome_safe (fun ls => ls) fs sc (update_with_index e idx lines fs sc).
Proof.
  intros Hn Hl. unfold Update.update_with_index.
  destruct idx as [| |paras]; try now apply download_file_safe.
  destruct (negb (hash_avail e (choose_kind (concat paras)))); [now apply unchanged_safe|].
  destruct (run_fields _ _ _ _ _ _) as [st| |]; try now apply download_file_safe.
  2: { unfold outcome_safe. cbn. auto. }
  destruct (st_remote st) as [rh|]; [|now apply download_file_safe].
  destruct (_ || _); [now apply download_file_safe|].
  destruct (apply_patches _ _ _ _ _ _ _ _) as [lines'|x]; [|now apply unchanged_safe].
  destruct (negb _); [now apply unchanged_safe|].
  pose proof (replace_file_safe lines' fs sc Hn) as Hs.
  destruct (replace_file lines' fs sc) as [r fs']. unfold outcome_safe in *. cbn in *.
  destruct r; exact Hs.
Qed.

Theorem update_file_safe e fs sc :
  f_new fs = None ->
  outcome_safe (fun ls => ls) fs sc (update_file e fs sc).
Proof.
  intros Hn. unfold Update.update_file.
  destruct (f_local fs) as [lines|] eqn:Hl.
  - destruct (read_index is_space (e_index e)) as [idx|x]; [|now apply unchanged_safe].
    apply update_with_index_safe; assumption.
  - now apply download_file_safe.
Qed.

End Safety.

(** * 3. Reading the index of a publishing repository *)

Lemma names_distinct k :
  f_current k <> f_history k /\ f_current k <> f_patches k /\ f_history k <> f_patches k.
Proof. destruct k; repeat split; intros E; vm_compute in E; discriminate. Qed.

Lemma fname_current k : f_current k = fname (prefix_of k) "-Current".
Proof. reflexivity. Qed.
Lemma fname_history k : f_history k = fname (prefix_of k) "-History".
Proof. reflexivity. Qed.
Lemma fname_patches k : f_patches k = fname (prefix_of k) "-Patches".
Proof. reflexivity. Qed.

Lemma field_count_cons n a b fs :
  field_count n ((a, b) :: fs) = ((if str_eqb a n then 1 else 0) + field_count n fs)%nat.
Proof. unfold field_count. cbn [filter fst]. destruct (str_eqb a n); reflexivity. Qed.

Lemma field_is_cons n v a b fs :
  field_is n v ((a, b) :: fs) = (negb (str_eqb a n) || str_eqb b v) && field_is n v fs.
Proof. reflexivity. Qed.

Lemma versions_cons v steps : versions v steps = v :: tl (versions v steps).
Proof. destruct steps; reflexivity. Qed.

(** the newest version *)
Fixpoint final (v : list str) (steps : list pstep) : list str :=
  match steps with [] => v | s :: r => final (ps_new s) r end.

Lemma current_versions steps : forall v, current (versions v steps) = final v steps.
Proof.
  unfold current. induction steps as [|s r IH]; intros v; [reflexivity|].
  cbn [versions final]. rewrite <- IH. rewrite (versions_cons (ps_new s) r). reflexivity.
Qed.

Lemma final_in_versions steps : forall v, In (final v steps) (versions v steps).
Proof.
  induction steps as [|s r IH]; intros v; cbn [versions final]; [now left|].
  right. apply IH.
Qed.

Lemma distinct_NoDup names : distinct names = true -> NoDup names.
Proof.
  induction names as [|n r IH]; cbn [distinct]; intros E; [constructor|].
  apply andb_true_iff in E. destruct E as [E1 E2]. constructor; [|now apply IH].
  intros Hin. apply negb_true_iff in E1.
  assert (existsb (str_eqb n) r = true) as Hx.
  { apply existsb_exists. exists n. split; [assumption|apply str_eqb_refl]. }
  congruence.
Qed.

Section Index.
Variables is_space is_linebreak is_digit : N -> bool.
Variable digit_val : N -> N.
Variable H : hkind -> list str -> str.

Notation resplit := (resplit is_space).
Notation resplit_aux := (resplit_aux is_space).
Notation token_ok := (token_ok is_space).
Notation sep_ok := (sep_ok is_space).
Notation lb_free := (lb_free is_linebreak).
Notation splitlines_aux := (splitlines_aux is_linebreak false).
Notation hist_entries := (hist_entries is_space).
Notation patch_entries := (patch_entries is_space).
Notation step_field := (step_field is_space is_linebreak).
Notation run_fields := (run_fields is_space is_linebreak).

(** ** re.split(r'\s+') on a row of columns *)

Lemma resplit_aux_token t : forall s cur sk,
  forallb (fun c => negb (is_space c)) t = true ->
  resplit_aux (t ++ s) cur sk =
  resplit_aux s (rev t ++ cur) (match t with [] => sk | _ => false end).
Proof.
  induction t as [|c t IH]; intros s cur sk Ht; [reflexivity|].
  cbn [forallb] in Ht. apply andb_true_iff in Ht. destruct Ht as [Hc Ht].
  apply negb_true_iff in Hc. cbn [app Update.resplit_aux]. rewrite Hc.
  rewrite IH by assumption. cbn [rev]. rewrite <- app_assoc. cbn [app].
  destruct t; reflexivity.
Qed.

Lemma resplit_aux_skip w : forall s,
  forallb is_space w = true -> resplit_aux (w ++ s) [] true = resplit_aux s [] true.
Proof.
  induction w as [|c w IH]; intros s Hw; [reflexivity|].
  cbn [forallb] in Hw. apply andb_true_iff in Hw. destruct Hw as [Hc Hw].
  cbn [app Update.resplit_aux]. rewrite Hc. now apply IH.
Qed.

Lemma resplit_aux_sep w s cur :
  sep_ok w = true ->
  resplit_aux (w ++ s) cur false = rev cur :: resplit_aux s [] true.
Proof.
  unfold UpdateSpec.sep_ok. intros Hw. apply andb_true_iff in Hw. destruct Hw as [Hne Hw].
  destruct w as [|c w]; [discriminate|].
  cbn [forallb] in Hw. apply andb_true_iff in Hw. destruct Hw as [Hc Hw].
  cbn [app Update.resplit_aux]. rewrite Hc. now rewrite resplit_aux_skip.
Qed.

Lemma token_parts t : token_ok t = true ->
  t <> [] /\ forallb (fun c => negb (is_space c)) t = true.
Proof.
  unfold UpdateSpec.token_ok. intros E. apply andb_true_iff in E. destruct E as [E1 E2].
  split; [|assumption]. now destruct t.
Qed.

Lemma resplit_aux_tok t s cur sk :
  token_ok t = true ->
  resplit_aux (t ++ s) cur sk = resplit_aux s (rev t ++ cur) false.
Proof.
  intros Ht. destruct (token_parts t Ht) as [Hne Hns].
  rewrite resplit_aux_token by assumption. now destruct t.
Qed.

Lemma resplit_row w a b c :
  sep_ok w = true -> token_ok a = true -> token_ok b = true -> token_ok c = true ->
  resplit (row w a b c) = [a; b; c].
Proof.
  intros Hw Ha Hb Hc. unfold row, Update.resplit.
  rewrite resplit_aux_tok by assumption. rewrite resplit_aux_sep by assumption.
  rewrite resplit_aux_tok by assumption. rewrite resplit_aux_sep by assumption.
  rewrite <- (app_nil_r c). rewrite resplit_aux_tok by assumption.
  cbn [Update.resplit_aux]. now rewrite !app_nil_r, !rev_involutive.
Qed.

Lemma resplit_two w a b :
  sep_ok w = true -> token_ok a = true -> token_ok b = true ->
  resplit (a ++ w ++ b) = [a; b].
Proof.
  intros Hw Ha Hb. unfold Update.resplit.
  rewrite resplit_aux_tok by assumption. rewrite resplit_aux_sep by assumption.
  rewrite <- (app_nil_r b). rewrite resplit_aux_tok by assumption.
  cbn [Update.resplit_aux]. now rewrite !app_nil_r, !rev_involutive.
Qed.

(** ** value.splitlines() of a multi-line field *)

Hypothesis Hlb10 : is_linebreak 10 = true.

Lemma splitlines_aux_lbfree e : forall s cur,
  lb_free e = true ->
  splitlines_aux (e ++ s) cur = splitlines_aux s (rev e ++ cur).
Proof.
  induction e as [|c e IH]; intros s cur He; [reflexivity|].
  cbn [UpdateSpec.lb_free forallb] in He. apply andb_true_iff in He. destruct He as [Hc He].
  apply negb_true_iff in Hc. cbn [app PyStr.splitlines_aux]. rewrite Hc.
  rewrite IH by exact He. cbn [rev]. now rewrite <- app_assoc.
Qed.

Lemma splitlines_aux_lf s cur :
  splitlines_aux (10%N :: s) cur = rev cur :: splitlines_aux s [].
Proof.
  cbn [PyStr.splitlines_aux]. rewrite Hlb10. destruct s as [|y s].
  - now rewrite app_nil_r.
  - cbn [N.eqb Pos.eqb andb]. now rewrite app_nil_r.
Qed.

Lemma nonblank_cons e x :
  nonblank (e :: x) = if negb (is_nil_str e) then e :: nonblank x else nonblank x.
Proof. reflexivity. Qed.

Lemma nonblank_eof cur : nonblank (splitlines_aux [] cur) = nonblank [rev cur].
Proof.
  destruct cur as [|c cur]; [reflexivity|]. reflexivity.
Qed.

Lemma nonblank_splitlines es :
  forallb lb_free es = true ->
  nonblank (splitlines is_linebreak false (entries_value es)) = nonblank es.
Proof.
  unfold entries_value, splitlines.
  induction es as [|e es IH]; intros Hes; [reflexivity|].
  cbn [forallb] in Hes. apply andb_true_iff in Hes. destruct Hes as [He Hes].
  destruct es as [|e2 es].
  - cbn [join intersperse_concat]. rewrite <- (app_nil_r e) at 1.
    rewrite splitlines_aux_lbfree by assumption. rewrite nonblank_eof.
    now rewrite app_nil_r, rev_involutive.
  - rewrite join_cons by discriminate. cbn [app].
    rewrite splitlines_aux_lbfree by assumption. rewrite splitlines_aux_lf.
    rewrite app_nil_r, rev_involutive.
    rewrite 2!(nonblank_cons e). rewrite IH by assumption. reflexivity.
Qed.

(** ** the entry loops skip blank entries *)

Lemma hist_entries_nonblank lh es : forall acc,
  hist_entries lh es acc = hist_entries lh (nonblank es) acc.
Proof.
  induction es as [|e es IH]; intros acc; [reflexivity|].
  destruct e as [|c e].
  - cbn [Update.hist_entries is_nil]. apply IH.
  - change (nonblank ((c :: e) :: es)) with ((c :: e) :: nonblank es).
    cbn [Update.hist_entries is_nil].
    destruct (resplit (c :: e)) as [|h [|x [|n [|? ?]]]]; try reflexivity.
    destruct (_ || _); apply IH.
Qed.

Lemma patch_entries_nonblank es : forall d,
  patch_entries es d = patch_entries (nonblank es) d.
Proof.
  induction es as [|e es IH]; intros d; [reflexivity|].
  destruct e as [|c e].
  - cbn [Update.patch_entries is_nil]. apply IH.
  - change (nonblank ((c :: e) :: es)) with ((c :: e) :: nonblank es).
    cbn [Update.patch_entries is_nil].
    destruct (resplit (c :: e)) as [|h [|x [|n [|? ?]]]]; try reflexivity.
    apply IH.
Qed.

End Index.

(** * 4. The history walk, the digest table and the patch chain *)

Fixpoint chain_from (local v : list str) (steps : list pstep) : option (list pstep) :=
  match steps with
  | [] => None
  | s :: r => if lines_eqb v local then Some steps else chain_from local (ps_new s) r
  end.

(** H separates the local content from every published version (a boolean fact
    about finitely many digests, not an injectivity axiom) *)
Definition no_collision (Hk : list str -> str) (local : list str) (vs : list (list str)) : bool :=
  forallb (fun v => implb (str_eqb (Hk v) (Hk local)) (lines_eqb v local)) vs.

(** the mirror serves, under each patch name, the script of that step *)
Definition patches_published (e : env) (steps : list pstep) : bool :=
  forallb (fun s => result_eqb strs_eqb (e_patch e (ps_name s)) (Ok (ps_script s))) steps.

Lemma chain_from_spec local steps : forall v sfx,
  chain_from local v steps = Some sfx ->
  chain_ok v steps = true ->
  chain_ok local sfx = true /\ final local sfx = final v steps /\ sfx <> []
  /\ (forall s, In s sfx -> In s steps).
Proof.
  induction steps as [|s r IH]; intros v sfx E Hc; [discriminate|].
  cbn [chain_from] in E. destruct (lines_eqb v local) eqn:Ev.
  - apply strs_eqb_eq in Ev. inversion E; subst. repeat split; auto. discriminate.
  - cbn [chain_ok] in Hc. apply andb_true_iff in Hc. destruct Hc as [_ Hc].
    destruct (IH _ _ E Hc) as (A & B & C & D). repeat split; auto.
    intros s0 Hs0. right. now apply D.
Qed.

Section Converge.
Variables is_space is_linebreak is_digit : N -> bool.
Variable digit_val : N -> N.
Variable H : hkind -> list str -> str.
Hypothesis Hlb10 : is_linebreak 10 = true.
Hypothesis Hdc : digit_class_ok is_digit digit_val.

Notation resplit := (resplit is_space).
Notation token_ok := (token_ok is_space).
Notation sep_ok := (sep_ok is_space).
Notation hist_entries := (hist_entries is_space).
Notation patch_entries := (patch_entries is_space).
Notation step_field := (step_field is_space is_linebreak).
Notation run_fields := (run_fields is_space is_linebreak).
Notation apply_patches := (apply_patches is_digit digit_val H).
Notation update_with_index := (update_with_index is_space is_linebreak is_digit digit_val H).
Notation update_file := (update_file is_space is_linebreak is_digit digit_val H).

Variable k : hkind.
Notation Hk := (H k).

Definition steps_tokens (steps : list pstep) : bool :=
  forallb (fun s => token_ok (ps_name s) && token_ok (ps_hsize s) && token_ok (ps_psize s)
                    && token_ok (Hk (ps_script s))) steps.

(** ** -History *)

Fixpoint walk (lh : str) (v : list str) (steps : list pstep) (acc : list str) : list str :=
  match steps with
  | [] => acc
  | s :: r =>
      if negb (is_nil acc) || str_eqb (Hk v) lh
      then walk lh (ps_new s) r (acc ++ [ps_name s])
      else walk lh (ps_new s) r acc
  end.

Lemma row_not_nil w a b c : token_ok a = true -> is_nil (row w a b c) = false.
Proof.
  intros Ha. destruct (token_parts is_space a Ha) as [Hne _]. unfold row.
  now destruct a.
Qed.

Lemma hist_entries_rows lh w steps : forall v acc,
  sep_ok w = true -> steps_tokens steps = true ->
  forallb (fun v => token_ok (Hk v)) (versions v steps) = true ->
  hist_entries lh (hist_rows Hk w v steps) acc = Some (walk lh v steps acc).
Proof.
  induction steps as [|s r IH]; intros v acc Hw Ht Hv; [reflexivity|].
  cbn [steps_tokens forallb] in Ht. apply andb_true_iff in Ht. destruct Ht as [Hs Ht].
  apply andb_true_iff in Hs. destruct Hs as [Hs H4].
  apply andb_true_iff in Hs. destruct Hs as [Hs H3].
  apply andb_true_iff in Hs. destruct Hs as [H1 H2].
  cbn [versions forallb] in Hv. apply andb_true_iff in Hv. destruct Hv as [Hv0 Hv].
  cbn [hist_rows Update.hist_entries walk].
  rewrite row_not_nil by assumption. rewrite resplit_row by assumption.
  destruct (_ || _); now apply IH.
Qed.

Lemma walk_nonempty lh steps : forall v acc,
  acc <> [] -> walk lh v steps acc = acc ++ map ps_name steps.
Proof.
  induction steps as [|s r IH]; intros v acc Hne; cbn [walk map]; [now rewrite app_nil_r|].
  destruct acc as [|a acc]; [congruence|]. cbn [is_nil negb orb].
  rewrite IH by (destruct acc; discriminate). now rewrite <- app_assoc.
Qed.

Lemma walk_chain_from local steps : forall v,
  no_collision Hk local (versions v steps) = true ->
  walk (Hk local) v steps [] =
  match chain_from local v steps with Some sfx => map ps_name sfx | None => [] end.
Proof.
  induction steps as [|s r IH]; intros v Hnc; [reflexivity|].
  cbn [versions no_collision forallb] in Hnc. apply andb_true_iff in Hnc.
  destruct Hnc as [Hv Hnc]. cbn [walk chain_from is_nil negb orb].
  destruct (lines_eqb v local) eqn:Ev.
  - apply strs_eqb_eq in Ev. subst v. rewrite str_eqb_refl.
    rewrite walk_nonempty by discriminate. reflexivity.
  - destruct (str_eqb (Hk v) (Hk local)); [discriminate|]. now apply IH.
Qed.

(** ** -Patches *)

Definition digest_table (steps : list pstep) : list (str * str) :=
  rev (map (fun s => (ps_name s, Hk (ps_script s))) steps).

Lemma patch_entries_rows w steps : forall d,
  sep_ok w = true -> steps_tokens steps = true ->
  patch_entries (patch_rows Hk w steps) d = Some (digest_table steps ++ d).
Proof.
  unfold digest_table.
  induction steps as [|s r IH]; intros d Hw Ht; [reflexivity|].
  cbn [steps_tokens forallb] in Ht. apply andb_true_iff in Ht. destruct Ht as [Hs Ht].
  apply andb_true_iff in Hs. destruct Hs as [Hs H4].
  apply andb_true_iff in Hs. destruct Hs as [Hs H3].
  apply andb_true_iff in Hs. destruct Hs as [H1 H2].
  cbn [patch_rows map Update.patch_entries].
  rewrite row_not_nil by assumption. rewrite resplit_row by assumption.
  fold (patch_rows Hk w r). rewrite IH by assumption.
  cbn [rev]. now rewrite <- app_assoc.
Qed.

Lemma dict_get_in (L : list (str * str)) d n h :
  NoDup (map fst L) -> In (n, h) L -> dict_get n (L ++ d) = Some h.
Proof.
  unfold dict_get. induction L as [|[a b] L IH]; intros Hnd Hin; [destruct Hin|].
  cbn [map fst] in Hnd. inversion Hnd as [|? ? Hna Hnd']; subst.
  cbn [app List.find fst]. destruct (str_eqb a n) eqn:Ea.
  - apply str_eqb_eq in Ea. subst a. destruct Hin as [Hin|Hin].
    + inversion Hin; subst. reflexivity.
    + exfalso. apply Hna. change n with (fst (n, h)). now apply in_map.
  - destruct Hin as [Hin|Hin].
    + inversion Hin; subst. now rewrite str_eqb_refl in Ea.
    + now apply IH.
Qed.

Lemma digest_table_get steps d s :
  distinct (map ps_name steps) = true -> In s steps ->
  dict_get (ps_name s) (digest_table steps ++ d) = Some (Hk (ps_script s)).
Proof.
  intros Hd Hin. apply dict_get_in.
  - unfold digest_table. rewrite map_rev, map_map. cbn [fst].
    apply NoDup_rev. now apply distinct_NoDup.
  - unfold digest_table. apply -> in_rev.
    apply (in_map (fun s => (ps_name s, Hk (ps_script s)))). exact Hin.
Qed.

(** ** the patch loop along a chain: C18's theorem applies to each step *)

Lemma step_script_exact s v :
  forallb seg_ok (ps_al s) = true -> lines_eqb (old_of (ps_al s)) v = true ->
  apply_script is_digit digit_val v (ps_script s) = Ok (ps_new s).
Proof.
  intros Hok Hv. apply strs_eqb_eq in Hv. subst v. unfold ps_script, ps_new.
  apply (script_matches_ed is_digit digit_val Hdc).
  - apply script_of_from_text_ok; [assumption|reflexivity].
  - now apply alignment_script_exact.
Qed.

Lemma apply_patches_chain e d sfx : forall v,
  chain_ok v sfx = true ->
  (forall s, In s sfx -> e_patch e (ps_name s) = Ok (ps_script s)) ->
  (forall s, In s sfx -> dict_get (ps_name s) d = Some (Hk (ps_script s))) ->
  apply_patches k e d (map ps_name sfx) v = Ok (final v sfx).
Proof.
  induction sfx as [|s r IH]; intros v Hc Hp Hd; [reflexivity|].
  cbn [chain_ok] in Hc. apply andb_true_iff in Hc. destruct Hc as [Hc Hr].
  apply andb_true_iff in Hc. destruct Hc as [Hok Hv].
  cbn [map Update.apply_patches final].
  rewrite (Hp s) by now left. rewrite (Hd s) by now left.
  rewrite str_eqb_refl. cbn [negb]. rewrite step_script_exact by assumption.
  apply IH; [assumption| |]; intros s0 Hs0; [apply Hp|apply Hd]; now right.
Qed.

End Converge.

(** * 5. The field loop on an index that publishes the history *)

Section Main.
Variables is_space is_linebreak is_digit : N -> bool.
Variable digit_val : N -> N.
Variable H : hkind -> list str -> str.
Hypothesis Hlb10 : is_linebreak 10 = true.
Hypothesis Hdc : digit_class_ok is_digit digit_val.

Notation resplit := (resplit is_space).
Notation hist_entries := (hist_entries is_space).
Notation patch_entries := (patch_entries is_space).
Notation step_field := (step_field is_space is_linebreak).
Notation run_fields := (run_fields is_space is_linebreak).
Notation apply_patches := (apply_patches is_digit digit_val H).
Notation update_with_index := (update_with_index is_space is_linebreak is_digit digit_val H).
Notation update_file := (update_file is_space is_linebreak is_digit digit_val H).

Lemma field_is_head n v a b fs :
  field_is n v ((a, b) :: fs) = true -> str_eqb a n = true -> b = v.
Proof.
  rewrite field_is_cons. intros E Ea. rewrite Ea in E. cbn in E.
  apply andb_true_iff in E. destruct E as [E _]. now apply str_eqb_eq.
Qed.

Lemma field_is_tail n v f fs : field_is n v (f :: fs) = true -> field_is n v fs = true.
Proof. unfold field_is. cbn [forallb]. intros E. apply andb_true_iff in E. tauto. Qed.

Lemma run_fields_spec k lh cv hv pv rh sz (W : list str -> list str) (PD : list (str * str)) :
  resplit cv = [rh; sz] ->
  (forall acc, hist_entries lh (splitlines is_linebreak false hv) acc = Some (W acc)) ->
  (forall d, patch_entries (splitlines is_linebreak false pv) d = Some (PD ++ d)) ->
  forall fs st,
  field_is (f_current k) cv fs = true ->
  field_is (f_history k) hv fs = true ->
  field_is (f_patches k) pv fs = true ->
  (field_count (f_history k) fs <= 1)%nat ->
  (field_count (f_patches k) fs <= 1)%nat ->
  run_fields k lh fs st =
    if (1 <=? field_count (f_current k) fs)%nat && str_eqb lh rh then UpToDate
    else Cont (mkst (if (1 <=? field_count (f_current k) fs)%nat then Some rh else st_remote st)
                    (if (1 <=? field_count (f_history k) fs)%nat then W (st_apply st) else st_apply st)
                    (if (1 <=? field_count (f_patches k) fs)%nat then PD ++ st_hashes st
                     else st_hashes st)).
Proof.
  intros Hcv HW HP. destruct (names_distinct k) as (Nch & Ncp & Nhp).
  induction fs as [|[name value] fs IH]; intros st Fc Fh Fp Ch Cp.
  - cbn. now destruct st.
  - pose proof (IH) as IH'.
    specialize (fun st => IH' st (field_is_tail _ _ _ _ Fc) (field_is_tail _ _ _ _ Fh)
                                (field_is_tail _ _ _ _ Fp)).
    rewrite field_count_cons in Ch, Cp. rewrite !field_count_cons.
    cbn [Update.run_fields Update.step_field].
    destruct (str_eqb name (f_current k)) eqn:EC.
    + pose proof (field_is_head _ _ _ _ _ Fc EC) as ->. apply str_eqb_eq in EC. subst name.
      pose proof (str_neq_eqb _ _ Nch) as E1. pose proof (str_neq_eqb _ _ Ncp) as E2.
      rewrite E1, E2 in *. cbn [plus] in *. rewrite Hcv.
      destruct (str_eqb lh rh) eqn:El; [reflexivity|].
      rewrite IH' by lia. rewrite !andb_false_r. cbn [st_remote st_apply st_hashes Nat.leb].
      destruct (field_count (f_current k) fs); reflexivity.
    + destruct (str_eqb name (f_history k)) eqn:EH.
      * pose proof (field_is_head _ _ _ _ _ Fh EH) as ->. apply str_eqb_eq in EH. subst name.
        pose proof (str_neq_eqb _ _ Nhp) as E2.
        rewrite E2 in *. cbn [plus] in *. rewrite HW.
        assert (field_count (f_history k) fs = 0)%nat as Z by lia.
        rewrite IH' by lia. rewrite Z. cbn [st_remote st_apply st_hashes Nat.leb]. reflexivity.
      * destruct (str_eqb name (f_patches k)) eqn:EP.
        -- pose proof (field_is_head _ _ _ _ _ Fp EP) as ->. cbn [plus] in *. rewrite HP.
           assert (field_count (f_patches k) fs = 0)%nat as Z by lia.
           rewrite IH' by lia. rewrite Z. cbn [st_remote st_apply st_hashes Nat.leb]. reflexivity.
        -- cbn [plus] in *. now apply IH'.
Qed.

(** Whatever -History and -Patches say: the recorded current digest is the only
    one the loop can pick up. *)
Lemma run_fields_remote k lh cv rh sz :
  resplit cv = [rh; sz] ->
  forall fs st,
  field_is (f_current k) cv fs = true ->
  (st_remote st = None \/ st_remote st = Some rh) ->
  match run_fields k lh fs st with
  | Cont st' => st_remote st' = None \/ st_remote st' = Some rh
  | UpToDate => str_eqb lh rh = true
  | Unusable => True
  end.
Proof.
  intros Hcv. induction fs as [|[name value] fs IH]; intros st Fc Hst; [exact Hst|].
  pose proof (field_is_tail _ _ _ _ Fc) as Fc'.
  cbn [Update.run_fields Update.step_field].
  destruct (str_eqb name (f_current k)) eqn:EC.
  - pose proof (field_is_head _ _ _ _ _ Fc EC) as ->. rewrite Hcv.
    destruct (str_eqb lh rh) eqn:El; [reflexivity|]. apply IH; [assumption|]. now right.
  - destruct (str_eqb name (f_history k)).
    + destruct (hist_entries _ _ _); [|exact I]. now apply IH.
    + destruct (str_eqb name (f_patches k)).
      * destruct (patch_entries _ _); [|exact I]. now apply IH.
      * now apply IH.
Qed.

End Main.

(** * 6. The theorems *)

(** What the property observes of a run of the model. *)
Definition is_some {A} (o : option A) : bool := match o with Some _ => true | None => false end.

Definition observe (out : result (list str) * fsstate) : observation :=
  mkobs (fst out) (option_map (@concat N) (f_local (snd out))) (is_some (f_new (snd out))).

Definition full_published (e : env) (vn : list str) : bool :=
  result_eqb strs_eqb (e_full e) (Ok vn).

(** the full file, if it can be fetched at all, is the current content *)
Definition full_honest (e : env) (vn : list str) : bool :=
  match e_full e with Ok ls => lines_eqb ls vn | Err _ => true end.

(** replace_file(lines, local); return lines *)
Definition commit (lines : list str) (fs : fsstate) (sc : sched) : result (list str) * fsstate :=
  let (r, fs') := replace_file lines fs sc in
  (match r with Ok _ => Ok lines | Err x => Err x end, fs').

Lemma download_file_commit e fs sc :
  download_file e fs sc =
  match e_full e with Ok lines => commit lines fs sc | Err x => (Err x, fs) end.
Proof. reflexivity. Qed.

Lemma commit_quiet lines fs sc :
  no_faults sc = true -> f_new fs = None ->
  commit lines fs sc = (Ok lines, mkfs (Some lines) None).
Proof. intros Hq Hn. unfold commit. now rewrite replace_file_quiet. Qed.

Lemma commit_fault lines fs sc :
  fs_fault_certain lines (s_eff sc) = true -> is_ok (fst (commit lines fs sc)) = false.
Proof.
  intros Hf. pose proof (replace_file_fault lines fs sc Hf) as E. unfold commit.
  destruct (replace_file lines fs sc) as [r fs']. cbn in *. now destruct r.
Qed.

Section Theorems.
Variables is_space is_linebreak is_digit : N -> bool.
Variable digit_val : N -> N.
Variable H : hkind -> list str -> str.
Hypothesis Hlb10 : is_linebreak 10 = true.
Hypothesis Hdc : digit_class_ok is_digit digit_val.

Notation update_with_index := (update_with_index is_space is_linebreak is_digit digit_val H).
Notation update_file := (update_file is_space is_linebreak is_digit digit_val H).
Notation publishes := (publishes is_space is_linebreak).
Notation index_records := (index_records is_space is_linebreak).
Notation run_fields := (run_fields is_space is_linebreak).

Lemma download_file_quiet e fs sc vn :
  full_published e vn = true -> no_faults sc = true -> f_new fs = None ->
  download_file e fs sc = (Ok vn, mkfs (Some vn) None).
Proof.
  unfold full_published, download_file. intros Hf Hq Hn.
  apply result_strs_eqb_eq in Hf. rewrite Hf. now rewrite replace_file_quiet.
Qed.

Lemma current_ok_parts prefix Hk vn px :
  current_ok is_space prefix Hk vn px = true ->
  sep_ok is_space (px_sep px) = true
  /\ resplit is_space (Hk vn ++ px_sep px ++ px_cur_size px) = [Hk vn; px_cur_size px]
  /\ field_is (fname prefix "-Current") (Hk vn ++ px_sep px ++ px_cur_size px) (px_fields px) = true.
Proof.
  unfold current_ok. intros E.
  do 3 (apply andb_prop in E; let X := fresh "X" in destruct E as [E X]).
  repeat split; try assumption. now apply resplit_two.
Qed.

(** ** the field loop on an index that records a history *)
Lemma run_fields_published k local v0 steps psteps px :
  index_records (prefix_of k) (H k) v0 steps psteps px = true ->
  let vn := current (versions v0 steps) in
  run_fields k (H k local) (px_fields px) (mkst None [] []) =
    if str_eqb (H k local) (H k vn) then UpToDate
    else Cont (mkst (Some (H k vn)) (walk H k (H k local) v0 steps [])
                    (digest_table H k psteps ++ [])).
Proof.
  unfold UpdateSpec.index_records. intros E.
  repeat (apply andb_prop in E; let X := fresh "X" in destruct E as [E X]).
  rename E into Ptok, X10 into Pptok, X9 into Pvtok, X8 into Pcur, X7 into Pc1, X6 into Ph1,
    X5 into Phis, X4 into Phlb, X3 into Phrows, X2 into Pp1, X1 into Ppis, X0 into Pplb,
    X into Pprows.
  destruct (current_ok_parts _ _ _ _ Pcur) as (Hsep & Hcv & Fc).
  apply strs_eqb_eq in Phrows, Pprows. apply Nat.eqb_eq in Ph1, Pp1.
  intros vn.
  rewrite (run_fields_spec is_space is_linebreak k (H k local) _
             (entries_value (px_hist_entries px)) (entries_value (px_patch_entries px)) _ _
             (walk H k (H k local) v0 steps) (digest_table H k psteps) Hcv).
  2: { intros acc. rewrite hist_entries_nonblank.
       rewrite (nonblank_splitlines is_linebreak Hlb10) by assumption. rewrite Phrows.
       now apply hist_entries_rows. }
  2: { intros d. rewrite patch_entries_nonblank.
       rewrite (nonblank_splitlines is_linebreak Hlb10) by assumption. rewrite Pprows.
       now apply patch_entries_rows. }
  2: exact Fc. 2: exact Phis. 2: exact Ppis.
  2: { rewrite fname_history. lia. } 2: { rewrite fname_patches. lia. }
  rewrite fname_current, fname_history, fname_patches, Ph1, Pp1, Pc1.
  cbn [andb Nat.leb st_remote st_apply st_hashes]. reflexivity.
Qed.

Lemma publishes_parts prefix Hk v0 steps px :
  publishes prefix Hk v0 steps px = true ->
  chain_ok v0 steps = true /\ distinct (map ps_name steps) = true
  /\ index_records prefix Hk v0 steps steps px = true.
Proof.
  unfold UpdateSpec.publishes. intros E.
  do 2 (apply andb_prop in E; let X := fresh "X" in destruct E as [E X]). auto.
Qed.

Lemma no_collision_current Hk local v0 steps :
  no_collision Hk local (versions v0 steps) = true ->
  str_eqb (Hk local) (Hk (current (versions v0 steps))) = true ->
  local = current (versions v0 steps).
Proof.
  intros Hnc Eup. unfold no_collision in Hnc. rewrite forallb_forall in Hnc.
  assert (Hin : In (current (versions v0 steps)) (versions v0 steps))
    by (rewrite current_versions; apply final_in_versions).
  specialize (Hnc _ Hin). apply str_eqb_eq in Eup. rewrite <- Eup, str_eqb_refl in Hnc.
  cbn [implb] in Hnc. apply strs_eqb_eq in Hnc. now subst.
Qed.

(** ** update_converges, once the index has been read *)
Theorem update_converges_fields e fs sc local paras v0 steps px :
  let k := choose_kind (concat paras) in
  let vn := current (versions v0 steps) in
  f_new fs = None -> f_local fs = Some local ->
  concat paras = px_fields px ->
  hash_avail e k = true ->
  publishes (prefix_of k) (H k) v0 steps px = true ->
  patches_published e steps = true ->
  full_published e vn = true ->
  no_collision (H k) local (versions v0 steps) = true ->
  no_faults sc = true ->
  update_with_index e (IndexFields paras) local fs sc = (Ok vn, mkfs (Some vn) None).
Proof.
  intros k vn Hn Hl Hfields Hav Hpub Hpat Hfull Hnc Hq.
  destruct (publishes_parts _ _ _ _ _ Hpub) as (Pchain & Pdist & Prec).
  unfold Update.update_with_index. fold k. rewrite Hav. cbn [negb].
  rewrite Hfields. rewrite (run_fields_published k local v0 steps steps px Prec).
  fold vn.
  assert (Hvn : vn = final v0 steps) by apply current_versions.
  destruct (str_eqb (H k local) (H k vn)) eqn:Eup.
  - (* up to date *)
    pose proof (no_collision_current _ _ _ _ Hnc Eup) as E. fold vn in E. subst local.
    destruct fs as [l n]. cbn in Hn, Hl. now subst.
  - rewrite (walk_chain_from H k) by assumption.
    destruct (chain_from local v0 steps) as [sfx|] eqn:Ecf; cbn [st_remote st_apply st_hashes].
    + destruct (chain_from_spec _ _ _ _ Ecf Pchain) as (Cc & Cf & Cne & Cin).
      assert (is_nil (map ps_name sfx) = false) as -> by now destruct sfx.
      cbn [orb].
      assert (forallb (fun n => dict_has n (digest_table H k steps ++ [])) (map ps_name sfx) = true)
        as ->.
      { apply forallb_forall. intros n Hin. apply in_map_iff in Hin. destruct Hin as (s & <- & Hs).
        unfold dict_has. now rewrite (digest_table_get H k) by auto. }
      cbn [negb].
      rewrite (apply_patches_chain is_digit digit_val H Hdc k e _ sfx local Cc).
      2: { intros s Hs. unfold patches_published in Hpat. rewrite forallb_forall in Hpat.
           apply result_strs_eqb_eq. apply Hpat. now apply Cin. }
      2: { intros s Hs. apply (digest_table_get H k); auto. }
      rewrite Cf, <- Hvn. rewrite str_eqb_refl. cbn [negb].
      now rewrite replace_file_quiet.
    + cbn [is_nil orb]. now apply download_file_quiet.
Qed.

End Theorems.
