(** Python string built-ins on code-point lists.  Definitions first, then the
    lemmas several areas share.  Character predicates are parameters so that the
    same function serves str (tables of Gen/PyChars.v) and bytes (ASCII). *)
From Verif Require Import Lib.Base.

Definition LF : N := 10.
Definition CR : N := 13.
Definition SP : N := 32.
Definition TAB : N := 9.

(** ASCII whitespace of bytes.strip()/bytes.split(): space \t \n \r \x0b \x0c *)
Definition bytes_isspace (c : N) : bool :=
  (c =? 32)%N || ((9 <=? c)%N && (c <=? 13)%N).

(** bytes.splitlines() boundaries *)
Definition bytes_islinebreak (c : N) : bool := (c =? 10)%N || (c =? 13)%N.

Section Generic.
Context {A : Type}.

Fixpoint span (p : A -> bool) (s : list A) : list A * list A :=
  match s with
  | c :: s' => if p c then let (a, b) := span p s' in (c :: a, b) else ([], s)
  | [] => ([], [])
  end.

Fixpoint dropwhile (p : A -> bool) (s : list A) : list A :=
  match s with
  | c :: s' => if p c then dropwhile p s' else s
  | [] => []
  end.

Definition takewhile (p : A -> bool) (s : list A) : list A := fst (span p s).

Definition rdropwhile (p : A -> bool) (s : list A) : list A :=
  rev (dropwhile p (rev s)).

Fixpoint last_opt (s : list A) : option A :=
  match s with
  | [] => None
  | [a] => Some a
  | _ :: s' => last_opt s'
  end.

Fixpoint intersperse_concat (sep : list A) (ls : list (list A)) : list A :=
  match ls with
  | [] => []
  | [l] => l
  | l :: ls' => l ++ sep ++ intersperse_concat sep ls'
  end.
End Generic.

(** [sep.join(ls)] *)
Definition join (sep : str) (ls : list str) : str := intersperse_concat sep ls.

(** [s.lstrip()] / [s.rstrip()] / [s.strip()] for a whitespace predicate;
    [s.strip(chars)] is [strip_by (fun c => existsb (N.eqb c) chars)]. *)
Definition lstrip_by (p : N -> bool) (s : str) : str := dropwhile p s.
Definition rstrip_by (p : N -> bool) (s : str) : str := rdropwhile p s.
Definition strip_by (p : N -> bool) (s : str) : str := rstrip_by p (lstrip_by p s).
Definition in_chars (chars : list N) (c : N) : bool := existsb (N.eqb c) chars.

Fixpoint startswith (pre s : str) : bool :=
  match pre, s with
  | [], _ => true
  | a :: pre', b :: s' => (a =? b)%N && startswith pre' s'
  | _ :: _, [] => false
  end.

Definition endswith (suf s : str) : bool := startswith (rev suf) (rev s).

(** [sub in s] *)
Fixpoint contains (sub s : str) : bool :=
  startswith sub s || match s with [] => false | _ :: s' => contains sub s' end.

(** [s.find(sub)] as an option *)
Fixpoint find_from (sub s : str) (i : nat) : option nat :=
  if startswith sub s then Some i
  else match s with [] => None | _ :: s' => find_from sub s' (S i) end.
Definition find (sub s : str) : option nat := find_from sub s 0.

Definition mem_char (c : N) (s : str) : bool := existsb (N.eqb c) s.

(** [s.split(c)] for a one-character separator: always at least one piece. *)
Fixpoint split_on (c : N) (s : str) : list str :=
  match s with
  | [] => [[]]
  | x :: s' =>
      if (x =? c)%N then [] :: split_on c s'
      else match split_on c s' with
           | p :: ps => (x :: p) :: ps
           | [] => [[x]]          (* unreachable *)
           end
  end.

(** [s.split(c, 1)] *)
Fixpoint split_on_first (c : N) (s : str) : str * option str :=
  match s with
  | [] => ([], None)
  | x :: s' =>
      if (x =? c)%N then ([], Some s')
      else let (a, b) := split_on_first c s' in (x :: a, b)
  end.

(** [s.split()] : maximal runs of non-whitespace *)
Fixpoint split_ws_aux (isspace : N -> bool) (s : str) (cur : str) : list str :=
  match s with
  | [] => match cur with [] => [] | _ => [rev cur] end
  | x :: s' =>
      if isspace x then
        match cur with
        | [] => split_ws_aux isspace s' []
        | _ => rev cur :: split_ws_aux isspace s' []
        end
      else split_ws_aux isspace s' (x :: cur)
  end.
Definition split_ws (isspace : N -> bool) (s : str) : list str := split_ws_aux isspace s [].

(** [s.splitlines(keepends)]; [islb] = line-boundary predicate (py_islinebreak
    for str, bytes_islinebreak for bytes); CR LF counts as one boundary. *)
Fixpoint splitlines_aux (islb : N -> bool) (keep : bool) (s : str) (cur : str) : list str :=
  match s with
  | [] => match cur with [] => [] | _ => [rev cur] end
  | x :: s' =>
      if islb x then
        match s' with
        | y :: s'' =>
            if (x =? 13)%N && (y =? 10)%N
            then (rev cur ++ if keep then [x; y] else []) :: splitlines_aux islb keep s'' []
            else (rev cur ++ if keep then [x] else []) :: splitlines_aux islb keep s' []
        | [] => [rev cur ++ if keep then [x] else []]
        end
      else splitlines_aux islb keep s' (x :: cur)
  end.
Definition splitlines (islb : N -> bool) (keep : bool) (s : str) : list str :=
  splitlines_aux islb keep s [].

Definition ascii_lower_char (c : N) : N :=
  if (65 <=? c)%N && (c <=? 90)%N then (c + 32)%N else c.
(** [s.lower()] on ASCII text *)
Definition ascii_lower (s : str) : str := map ascii_lower_char s.
Definition is_ascii (s : str) : bool := forallb (fun c => (c <? 128)%N) s.

(** * Lemmas *)

Lemma span_app {A} (p : A -> bool) s :
  fst (span p s) ++ snd (span p s) = s.
Proof.
  induction s as [|c s IH]; simpl; [reflexivity|].
  destruct (p c); [|reflexivity]. destruct (span p s); simpl in *. now rewrite IH.
Qed.

Lemma span_all {A} (p : A -> bool) s : forallb p (fst (span p s)) = true.
Proof.
  induction s as [|c s IH]; simpl; [reflexivity|].
  destruct (p c) eqn:E; [|reflexivity]. destruct (span p s); simpl in *. now rewrite E.
Qed.

Lemma span_snd_head {A} (p : A -> bool) s c r :
  snd (span p s) = c :: r -> p c = false.
Proof.
  induction s as [|x s IH]; simpl; [discriminate|].
  destruct (p x) eqn:E.
  - destruct (span p s); simpl in *. exact IH.
  - simpl. intros [= <- <-]. exact E.
Qed.

Lemma span_forall_app {A} (p : A -> bool) a x r :
  forallb p a = true -> p x = false -> span p (a ++ x :: r) = (a, x :: r).
Proof.
  induction a as [|c a IH]; simpl; intros Ha Hx.
  - now rewrite Hx.
  - apply andb_true_iff in Ha. destruct Ha as [-> Ha]. now rewrite IH.
Qed.

Lemma span_forall_nil {A} (p : A -> bool) a :
  forallb p a = true -> span p a = (a, []).
Proof.
  induction a as [|c a IH]; simpl; intros Ha; [reflexivity|].
  apply andb_true_iff in Ha. destruct Ha as [-> Ha]. now rewrite IH.
Qed.

Lemma dropwhile_span {A} (p : A -> bool) s : dropwhile p s = snd (span p s).
Proof.
  induction s as [|c s IH]; simpl; [reflexivity|].
  destruct (p c); [|reflexivity]. destruct (span p s); simpl in *. exact IH.
Qed.

Lemma dropwhile_idem {A} (p : A -> bool) s : dropwhile p (dropwhile p s) = dropwhile p s.
Proof.
  induction s as [|c s IH]; simpl; [reflexivity|].
  destruct (p c) eqn:E; [exact IH|]. simpl. now rewrite E.
Qed.

Lemma dropwhile_head_false {A} (p : A -> bool) c s : p c = false -> dropwhile p (c :: s) = c :: s.
Proof. simpl. now intros ->. Qed.

Lemma dropwhile_app_all {A} (p : A -> bool) a b :
  forallb p a = true -> dropwhile p (a ++ b) = dropwhile p b.
Proof.
  induction a as [|c a IH]; simpl; intros Ha; [reflexivity|].
  apply andb_true_iff in Ha. destruct Ha as [-> Ha]. now apply IH.
Qed.

Lemma rdropwhile_app_keep {A} (p : A -> bool) a c :
  p c = false -> rdropwhile p (a ++ [c]) = a ++ [c].
Proof.
  intros H. unfold rdropwhile. rewrite rev_app_distr. simpl. rewrite H.
  simpl. now rewrite rev_involutive.
Qed.

Lemma rdropwhile_app_drop {A} (p : A -> bool) a b :
  forallb p b = true -> rdropwhile p (a ++ b) = rdropwhile p a.
Proof.
  intros H. unfold rdropwhile. rewrite rev_app_distr.
  rewrite dropwhile_app_all; [reflexivity|].
  rewrite forallb_forall in *. intros x Hx. apply H. now apply in_rev.
Qed.

Lemma rdropwhile_idem {A} (p : A -> bool) s : rdropwhile p (rdropwhile p s) = rdropwhile p s.
Proof. unfold rdropwhile. now rewrite rev_involutive, dropwhile_idem. Qed.

Lemma strip_by_idem p s : strip_by p (strip_by p s) = strip_by p s.
Proof.
  unfold strip_by, lstrip_by, rstrip_by.
  set (t := dropwhile p s).
  assert (H : dropwhile p (rdropwhile p t) = rdropwhile p t).
  { subst t. destruct (dropwhile p s) as [|c r] eqn:E.
    - reflexivity.
    - assert (Hc : p c = false).
      { rewrite dropwhile_span in E. eapply span_snd_head; eassumption. }
      (* the first character survives rstrip *)
      unfold rdropwhile.
      destruct (rev (dropwhile p (rev (c :: r)))) as [|c' r'] eqn:E2; [reflexivity|].
      assert (c' = c) as ->.
      { cbn [rev] in E2.
        assert (G : forall l, exists l', dropwhile p (l ++ [c]) = l' ++ [c]).
        { induction l as [|x l [l' IH]]; simpl.
          - rewrite Hc. now exists [].
          - destruct (p x); [now exists l'|]. now exists (x :: l). }
        destruct (G (rev r)) as [l' Hl']. rewrite Hl' in E2.
        rewrite rev_app_distr in E2. simpl in E2. congruence. }
      now apply dropwhile_head_false. }
  rewrite H. apply rdropwhile_idem.
Qed.

Lemma splitlines_aux_concat islb s : forall cur,
  concat (splitlines_aux islb true s cur) = rev cur ++ s.
Proof.
  assert (G : forall n s, length s <= n -> forall cur,
             concat (splitlines_aux islb true s cur) = rev cur ++ s).
  { induction n as [|n IH]; intros s0 Hlen cur.
    - destruct s0; [|simpl in Hlen; lia]. simpl. destruct cur; simpl; now rewrite ?app_nil_r.
    - destruct s0 as [|x s']; [simpl; destruct cur; simpl; now rewrite ?app_nil_r|].
      simpl in Hlen. cbn [splitlines_aux]. destruct (islb x).
      + destruct s' as [|y s''].
        * simpl. now rewrite app_nil_r.
        * destruct ((x =? 13)%N && (y =? 10)%N).
          -- cbn [concat]. rewrite IH by (simpl in Hlen; lia). simpl.
             now rewrite <- app_assoc.
          -- cbn [concat]. rewrite IH by lia. simpl. now rewrite <- app_assoc.
      + rewrite IH by lia. simpl. now rewrite <- app_assoc. }
  intros cur. eapply G. reflexivity.
Qed.

(** "".join(s.splitlines(keepends=True)) == s *)
Theorem splitlines_keepends_concat islb s : concat (splitlines islb true s) = s.
Proof. unfold splitlines. now rewrite splitlines_aux_concat. Qed.

Lemma join_cons sep l ls :
  ls <> [] -> join sep (l :: ls) = l ++ sep ++ join sep ls.
Proof. destruct ls; [congruence|reflexivity]. Qed.

Lemma split_on_nonempty c s : split_on c s <> [].
Proof.
  induction s as [|x s IH]; simpl; [discriminate|].
  destruct (x =? c)%N; [discriminate|]. destruct (split_on c s); [congruence|discriminate].
Qed.

(** sep.join(s.split(sep)) == s  (one-character separator) *)
Theorem join_split_on c s : join [c] (split_on c s) = s.
Proof.
  induction s as [|x s IH]; [reflexivity|].
  cbn [split_on]. destruct (N.eqb_spec x c) as [->|Hne].
  - rewrite join_cons by apply split_on_nonempty. simpl. now rewrite IH.
  - pose proof (split_on_nonempty c s) as Hn.
    destruct (split_on c s) as [|p ps]; [congruence|].
    destruct ps as [|p' ps'].
    + simpl in *. now rewrite IH.
    + rewrite join_cons by discriminate. rewrite join_cons in IH by discriminate.
      cbn [app]. f_equal. exact IH.
Qed.

(** s.split(sep) of a join of sep-free pieces gives the pieces back *)
Theorem split_on_join c ls :
  ls <> [] -> forallb (fun l => negb (mem_char c l)) ls = true ->
  split_on c (join [c] ls) = ls.
Proof.
  induction ls as [|l ls IH]; [congruence|]. intros _ Hall.
  cbn [forallb] in Hall. apply andb_true_iff in Hall. destruct Hall as [Hl Hls].
  assert (Hone : forall l rest, negb (mem_char c l) = true ->
            split_on c (l ++ c :: rest) = l :: split_on c rest).
  { clear. induction l as [|x l IH]; intros rest H; simpl.
    - now rewrite N.eqb_refl.
    - simpl in H. apply negb_true_iff, orb_false_iff in H. destruct H as [H1 H2].
      rewrite N.eqb_sym in H1. rewrite H1. rewrite IH by now apply negb_true_iff. reflexivity. }
  assert (Hlast : forall l, negb (mem_char c l) = true -> split_on c l = [l]).
  { clear. induction l as [|x l IH]; intros H; simpl; [reflexivity|].
    simpl in H. apply negb_true_iff, orb_false_iff in H. destruct H as [H1 H2].
    rewrite N.eqb_sym in H1. rewrite H1. rewrite IH by now apply negb_true_iff. reflexivity. }
  destruct ls as [|l2 ls].
  - simpl. now apply Hlast.
  - rewrite join_cons by discriminate. cbn [app]. rewrite Hone by assumption.
    rewrite IH; [reflexivity|discriminate|assumption].
Qed.
