(** Python slice reads and slice assignment with clamping and negative indices. *)
From Verif Require Import Lib.Base.

Section Slice.
Context {A : Type}.

(** [PySlice_AdjustIndices] for step 1. *)
Definition clamp_index (n : nat) (i : Z) : nat :=
  let n' := Z.of_nat n in
  if (i <? 0)%Z then Z.to_nat (Z.max 0 (i + n'))
  else Z.to_nat (Z.min i n').

(** [l[i:j]] *)
Definition slice (l : list A) (i j : Z) : list A :=
  let a := clamp_index (length l) i in
  let b := clamp_index (length l) j in
  firstn (b - a) (skipn a l).

(** [l[i:j] = r] (list_ass_slice: when the clamped stop is below the clamped
    start, stop := start). *)
Definition slice_assign (l : list A) (i j : Z) (r : list A) : list A :=
  let a := clamp_index (length l) i in
  let b := Nat.max a (clamp_index (length l) j) in
  firstn a l ++ r ++ skipn b l.

Lemma clamp_index_in_range n i :
  (0 <= i <= Z.of_nat n)%Z -> clamp_index n i = Z.to_nat i.
Proof.
  unfold clamp_index. intros H.
  destruct (Z.ltb_spec i 0); lia.
Qed.

Lemma slice_assign_in_range (l : list A) (a b : nat) r :
  a <= b <= length l ->
  slice_assign l (Z.of_nat a) (Z.of_nat b) r = firstn a l ++ r ++ skipn b l.
Proof.
  intros H. unfold slice_assign.
  rewrite !clamp_index_in_range by lia.
  rewrite !Nat2Z.id. now rewrite Nat.max_r by lia.
Qed.

Lemma skipn_length_app (a b : list A) : skipn (length a) (a ++ b) = b.
Proof. induction a; simpl; auto. Qed.

Lemma firstn_length_app (a b : list A) : firstn (length a) (a ++ b) = a.
Proof. induction a; simpl; congruence. Qed.

Lemma slice_assign_app (pre mid post r : list A) :
  slice_assign (pre ++ mid ++ post) (Z.of_nat (length pre))
    (Z.of_nat (length pre + length mid)) r = pre ++ r ++ post.
Proof.
  rewrite slice_assign_in_range by (rewrite !app_length; lia).
  rewrite firstn_length_app.
  f_equal. f_equal.
  rewrite app_assoc, <- app_length.
  apply skipn_length_app.
Qed.

End Slice.
