(** Case-file literals and decimal numerals.

    [dec] decodes the escaped string literals written by the harness:
    printable ASCII other than double-quote and backslash stands for itself, everything
    else is written as a backslash followed by six hexadecimal digits. *)
From Coq Require Import String Ascii DecimalN DecimalPos DecimalFacts.
From Verif Require Import Lib.Base.

Definition hexval (a : ascii) : N :=
  let n := N_of_ascii a in
  if (48 <=? n)%N && (n <=? 57)%N then n - 48
  else if (97 <=? n)%N && (n <=? 102)%N then n - 87
  else if (65 <=? n)%N && (n <=? 70)%N then n - 55
  else 0.

Fixpoint dec (s : string) : str :=
  match s with
  | EmptyString => []
  | String a s' =>
      if (N_of_ascii a =? 92)%N then
        match s' with
        | String h1 (String h2 (String h3 (String h4 (String h5 (String h6 r))))) =>
            (hexval h1 * 1048576 + hexval h2 * 65536 + hexval h3 * 4096
             + hexval h4 * 256 + hexval h5 * 16 + hexval h6)%N :: dec r
        | _ => []
        end
      else N_of_ascii a :: dec s'
  end.

(** * Decimal numerals over ASCII digits (48..57) *)

Fixpoint uint_to_str (d : Decimal.uint) : str :=
  match d with
  | Decimal.Nil => []
  | Decimal.D0 d => 48 :: uint_to_str d
  | Decimal.D1 d => 49 :: uint_to_str d
  | Decimal.D2 d => 50 :: uint_to_str d
  | Decimal.D3 d => 51 :: uint_to_str d
  | Decimal.D4 d => 52 :: uint_to_str d
  | Decimal.D5 d => 53 :: uint_to_str d
  | Decimal.D6 d => 54 :: uint_to_str d
  | Decimal.D7 d => 55 :: uint_to_str d
  | Decimal.D8 d => 56 :: uint_to_str d
  | Decimal.D9 d => 57 :: uint_to_str d
  end%N.

(** [print_dec n] is Python's [str(n)] / ["%d" % n] for a non-negative integer. *)
Definition print_dec (n : N) : str := uint_to_str (N.to_uint n).

Definition is_ascii_digit (c : N) : bool := (48 <=? c)%N && (c <=? 57)%N.

(** Horner evaluation; [digit_val] is a parameter so that the same function
    serves ASCII-only ([bytes] patterns) and Unicode-decimal ([str]) parsing. *)
Fixpoint horner (dv : N -> N) (acc : N) (s : str) : N :=
  match s with
  | [] => acc
  | c :: s => horner dv (acc * 10 + dv c) s
  end.

Definition ascii_digit_val (c : N) : N := c - 48.

(** Python's [int(s)] on a non-empty string of ASCII digits. *)
Definition parse_dec (s : str) : N := horner ascii_digit_val 0 s.

Lemma is_digit_print_dec n : forallb is_ascii_digit (print_dec n) = true.
Proof.
  unfold print_dec. generalize (N.to_uint n) as d.
  induction d; simpl; auto.
Qed.

Lemma print_dec_nonempty n : print_dec n <> [].
Proof.
  unfold print_dec. destruct n as [|p]; simpl; [discriminate|].
  unfold Pos.to_uint.
  pose proof (DecimalPos.Unsigned.to_uint_nonnil p) as H.
  unfold Pos.to_uint in H.
  destruct (Decimal.rev (Pos.to_little_uint p)); simpl; congruence.
Qed.

(** Horner evaluation of a [Decimal.uint] agrees with [N.of_uint]. *)
Fixpoint uint_horner (acc : N) (d : Decimal.uint) : N :=
  match d with
  | Decimal.Nil => acc
  | Decimal.D0 d => uint_horner (acc * 10 + 0) d
  | Decimal.D1 d => uint_horner (acc * 10 + 1) d
  | Decimal.D2 d => uint_horner (acc * 10 + 2) d
  | Decimal.D3 d => uint_horner (acc * 10 + 3) d
  | Decimal.D4 d => uint_horner (acc * 10 + 4) d
  | Decimal.D5 d => uint_horner (acc * 10 + 5) d
  | Decimal.D6 d => uint_horner (acc * 10 + 6) d
  | Decimal.D7 d => uint_horner (acc * 10 + 7) d
  | Decimal.D8 d => uint_horner (acc * 10 + 8) d
  | Decimal.D9 d => uint_horner (acc * 10 + 9) d
  end%N.

Lemma horner_uint acc d :
  horner ascii_digit_val acc (uint_to_str d) = uint_horner acc d.
Proof.
  revert acc. induction d; intro acc; simpl; try reflexivity; rewrite IHd; reflexivity.
Qed.

Lemma uint_horner_acc acc d :
  uint_horner acc d = (acc * 10 ^ N.of_nat (Decimal.nb_digits d) + uint_horner 0 d)%N.
Proof.
  revert acc. induction d; intro acc; cbn [uint_horner Decimal.nb_digits].
  1: { simpl. lia. }
  all: rewrite IHd; rewrite (IHd (0 * 10 + _)%N);
    rewrite Nat2N.inj_succ, N.pow_succ_r'; lia.
Qed.

Lemma of_uint_acc_horner d acc :
  Npos (Pos.of_uint_acc d acc) = uint_horner (Npos acc) d.
Proof.
  revert acc. induction d; intro acc; cbn [Pos.of_uint_acc uint_horner];
    try reflexivity; rewrite IHd; f_equal; lia.
Qed.

Lemma of_uint_horner d : N.of_uint d = uint_horner 0 d.
Proof.
  unfold N.of_uint.
  induction d; cbn [Pos.of_uint uint_horner]; try reflexivity;
    try (rewrite of_uint_acc_horner; reflexivity).
  exact IHd.
Qed.

Theorem parse_print_dec n : parse_dec (print_dec n) = n.
Proof.
  unfold parse_dec, print_dec.
  rewrite horner_uint, <- of_uint_horner.
  apply DecimalN.Unsigned.of_to.
Qed.

(** [print_dec] never has a leading zero except for 0 itself. *)
Lemma print_dec_0 : print_dec 0 = [48%N].
Proof. reflexivity. Qed.
