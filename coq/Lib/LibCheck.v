(** Validation of Lib/PyStr.v, Lib/PySlice.v and Lib/Dec.v against the Python
    built-ins they model (run by ./check --libcheck and as spec-side validation). *)
From Coq Require Import String.
From Verif Require Import Lib.Base Lib.Dec Lib.PySlice Lib.PyStr Gen.PyChars.

Inductive case :=
| LSplitlines (bytes keep : bool) (s : string) (out : list string)
| LSplitOn (c : N) (s : string) (out : list string)
| LSplitWs (bytes : bool) (s : string) (out : list string)
| LStrip (bytes : bool) (mode : N) (s : string) (out : string)      (* 0 strip 1 lstrip 2 rstrip *)
| LStripChars (chars : string) (s : string) (out : string)
| LJoin (sep : string) (ls : list string) (out : string)
| LSliceAssign (l : list N) (i j : Z) (r : list N) (out : list N)
| LSlice (l : list N) (i j : Z) (out : list N)
| LDec (n : N) (out : string)
| LLower (s : string) (out : string)
| LFind (sub s : string) (out : option N)
| LIsSpace (c : N) (out : bool)
| LReD (c : N) (out : bool).

Definition strs_eq (a : list str) (b : list string) := strs_eqb a (map dec b).

Definition agree (c : case) : bool :=
  match c with
  | LSplitlines b k s out =>
      strs_eq (splitlines (if b then bytes_islinebreak else py_islinebreak) k (dec s)) out
  | LSplitOn ch s out => strs_eq (split_on ch (dec s)) out
  | LSplitWs b s out => strs_eq (split_ws (if b then bytes_isspace else py_isspace) (dec s)) out
  | LStrip b m s out =>
      let p := if b then bytes_isspace else py_isspace in
      str_eqb (match m with 0%N => strip_by p | 1%N => lstrip_by p | _ => rstrip_by p end (dec s)) (dec out)
  | LStripChars ch s out => str_eqb (strip_by (in_chars (dec ch)) (dec s)) (dec out)
  | LJoin sep ls out => str_eqb (join (dec sep) (map dec ls)) (dec out)
  | LSliceAssign l i j r out => list_eqb N.eqb (slice_assign l i j r) out
  | LSlice l i j out => list_eqb N.eqb (slice l i j) out
  | LDec n out => str_eqb (print_dec n) (dec out) && (parse_dec (dec out) =? n)%N
  | LLower s out => str_eqb (ascii_lower (dec s)) (dec out)
  | LFind sub s out => option_eqb N.eqb (option_map N.of_nat (find (dec sub) (dec s))) out
  | LIsSpace c out => Bool.eqb (py_isspace c) out
  | LReD c out => Bool.eqb (re_d c) out
  end.

Definition holds (c : case) : bool := true.
Definition bad_agree (cs : list case) : list N := bad agree cs.
Definition bad_holds (cs : list case) : list N := bad holds cs.
