(** Runtime for the functions that harness/py2coq.py regenerates from the Python source
    (coq/Gen/Tr*.v): the Python operations the translated subset uses, as total functions
    into [result].  No proofs about particular translated functions here; only small
    characterising lemmas that the tie proofs ([<Area>/Tie*.v]) share. *)
From Verif Require Import Lib.Base Lib.PyStr Lib.Dec Lib.PySlice.

Definition tr_is_nil {A} (l : list A) : bool := match l with [] => true | _ => false end.
Definition tr_is_some {A} (o : option A) : bool := match o with Some _ => true | None => false end.
Definition tr_is_none {A} (o : option A) : bool := match o with Some _ => false | None => true end.

(** [[f(x) for x in l]] where [f] may raise: left to right, the first exception wins *)
Fixpoint tr_mapM {A B} (f : A -> result B) (l : list A) : result (list B) :=
  match l with
  | [] => Ok []
  | a :: l => do b <- f a; do bs <- tr_mapM f l; Ok (b :: bs)
  end.

Lemma tr_mapM_ok {A B} (f : A -> result B) (g : A -> B) (l : list A) :
  (forall a, In a l -> f a = Ok (g a)) -> tr_mapM f l = Ok (map g l).
Proof.
  induction l as [|a l IH]; intros H; cbn [tr_mapM map]; [reflexivity|].
  rewrite (H a (or_introl eq_refl)). cbn [bind].
  rewrite IH; [reflexivity|]. intros b Hb. apply H. now right.
Qed.

(** [l[i]] for a Python int index (negative indices count from the end) *)
Definition tr_index {A} (l : list A) (i : Z) : result A :=
  let n := Z.of_nat (length l) in
  let j := if (i <? 0)%Z then (i + n)%Z else i in
  if (j <? 0)%Z then Err IndexError
  else match nth_error l (Z.to_nat j) with
       | Some a => Ok a
       | None => Err IndexError
       end.

Lemma tr_index_nth {A} (l : list A) (i : nat) (a : A) :
  nth_error l i = Some a -> tr_index l (Z.of_nat i) = Ok a.
Proof.
  intros H. unfold tr_index.
  assert (E : (Z.of_nat i <? 0)%Z = false) by (apply Z.ltb_ge; apply Nat2Z.is_nonneg).
  rewrite E, E, Nat2Z.id, H. reflexivity.
Qed.

Definition tr_len {A} (l : list A) : Z := Z.of_nat (length l).

(** [enumerate(l)] *)
Fixpoint tr_enumerate_from {A} (i : Z) (l : list A) : list (Z * A) :=
  match l with
  | [] => []
  | a :: l => (i, a) :: tr_enumerate_from (i + 1)%Z l
  end.
Definition tr_enumerate {A} (l : list A) : list (Z * A) := tr_enumerate_from 0%Z l.

(** [x in (a, b, …)] for strings and [c in "…"] for characters *)
Definition tr_str_in (x : str) (l : list str) : bool := existsb (str_eqb x) l.
Definition tr_char_in (c : N) (s : str) : bool := existsb (N.eqb c) s.

(** [ord(c)] for a one-character string; [TypeError] otherwise *)
Definition tr_ord (s : str) : result Z :=
  match s with
  | [c] => Ok (Z.of_N c)
  | _ => Err TypeError
  end.

(** Python's floor division and modulo agree with Coq's [Z.div]/[Z.modulo] (both round
    towards minus infinity, the remainder takes the sign of the divisor). *)
Definition tr_floordiv (a b : Z) : result Z := if (b =? 0)%Z then Err OtherError else Ok (a / b)%Z.
Definition tr_mod (a b : Z) : result Z := if (b =? 0)%Z then Err OtherError else Ok (a mod b)%Z.

(** [min]/[max] on ints *)
Definition tr_min (a b : Z) : Z := Z.min a b.
Definition tr_max (a b : Z) : Z := Z.max a b.

(** [l[i:j]] with optional bounds (step 1) and [l[i:j] = r] *)
Definition tr_slice {A} (l : list A) (i j : option Z) : list A :=
  slice l (match i with Some i => i | None => 0%Z end)
          (match j with Some j => j | None => Z.of_nat (length l) end).
Definition tr_slice_assign {A} (l : list A) (i j : option Z) (r : list A) : list A :=
  slice_assign l (match i with Some i => i | None => 0%Z end)
                 (match j with Some j => j | None => Z.of_nat (length l) end) r.

(** [l[i] = v] *)
Fixpoint tr_set_nth {A} (l : list A) (i : nat) (v : A) : option (list A) :=
  match l, i with
  | [], _ => None
  | _ :: l, O => Some (v :: l)
  | a :: l, S i => match tr_set_nth l i v with Some l' => Some (a :: l') | None => None end
  end.
Definition tr_set_index {A} (l : list A) (i : Z) (v : A) : result (list A) :=
  let n := Z.of_nat (length l) in
  let j := if (i <? 0)%Z then (i + n)%Z else i in
  if (j <? 0)%Z then Err IndexError
  else match tr_set_nth l (Z.to_nat j) v with
       | Some l' => Ok l'
       | None => Err IndexError
       end.

(** [[x for x in l if p(x)]] *)
Definition tr_filter {A} (p : A -> bool) (l : list A) : list A := filter p l.

(** [a or d] in value position: [a] if it is truthy, else [d] — for an optional / a plain str or list [a] *)
Definition tr_opt_or {A} (a : option (list A)) (d : list A) : list A :=
  match a with Some (x :: v) => x :: v | _ => d end.
Definition tr_or {A} (a d : list A) : list A := match a with [] => d | _ :: _ => a end.

(** the truth value of an optional str/list as a narrowing test ([if x:], [a if x else b]): [Some] of the value where
    Python takes the true branch (not None and not empty), [None] where it takes the false branch *)
Definition tr_opt_truthy {A} (o : option (list A)) : option (list A) :=
  match o with Some (x :: v) => Some (x :: v) | _ => None end.

(** a dict with str keys as an association list in insertion order: [d.get(k)] and [d[k] = v]
    (an existing key keeps its place, and its key object) *)
Fixpoint tr_dict_get {V} (d : list (str * V)) (k : str) : option V :=
  match d with
  | [] => None
  | (k', v) :: d => if str_eqb k' k then Some v else tr_dict_get d k
  end.
Fixpoint tr_dict_set {V} (d : list (str * V)) (k : str) (v : V) : list (str * V) :=
  match d with
  | [] => [(k, v)]
  | (k', v') :: d => if str_eqb k' k then (k', v) :: d else (k', v') :: tr_dict_set d k v
  end.

(** Result of a translated METHOD: the object state reached is returned on normal return and on an exception alike
    (Python keeps the partial effects of a method that raises). *)
Inductive mres (A S : Type) :=
| MOk (a : A) (s : S)
| MErr (e : err) (s : S).
Arguments MOk {A S} a s.
Arguments MErr {A S} e s.

(** a method call on a value that may be None: [None.m()] raises AttributeError (no such kind in [err]: OtherError) *)
Definition tr_unwrap {A} (o : option A) : result A :=
  match o with Some a => Ok a | None => Err OtherError end.

(** [a + b] on strings of which one may be None: [str + None] / [None + str] is a TypeError (both operands have
    been evaluated by then) *)
Definition tr_add_opt (a b : option str) : result str :=
  match a, b with
  | Some x, Some y => Ok (x ++ y)
  | _, _ => Err TypeError
  end.

(** truth value of an optional str / list held in a state attribute: None and the empty value are falsy *)
Definition tr_opt_nonempty {A} (o : option (list A)) : bool :=
  match o with Some (_ :: _) => true | _ => false end.

(** [a == b] for an Optional[str] [a] and a str [b]: None equals no str *)
Definition tr_opt_str_eqb (a : option str) (b : str) : bool :=
  match a with Some x => str_eqb x b | None => false end.

(** [[f(x) for x in l]] in METHOD MODE where [f] runs on and changes the object's state: the elements are produced
    left to right, each on the state its predecessor left; the first exception ends it, with the state reached *)
Fixpoint tr_mapS {A B S} (f : S -> A -> mres B S) (l : list A) (s : S) : mres (list B) S :=
  match l with
  | [] => MOk [] s
  | a :: l =>
      match f s a with
      | MErr e s' => MErr e s'
      | MOk b s' =>
          match tr_mapS f l s' with
          | MErr e s'' => MErr e s''
          | MOk bs s'' => MOk (b :: bs) s''
          end
      end
  end.

(** [s * n] / [n * s] for a str (or list) and an int: [n] copies; a count [n <= 0] gives the empty sequence *)
Definition tr_repeat {A} (s : list A) (n : Z) : list A := concat (repeat s (Z.to_nat n)).

(** truth value of an Optional[bool]: None and False are falsy *)
Definition tr_opt_true (o : option bool) : bool := match o with Some true => true | _ => false end.

(** [[x for x in l if p(x)]] with a filter that may raise: the elements are tested in order *)
Fixpoint tr_filterM {A} (p : A -> result bool) (l : list A) : result (list A) :=
  match l with
  | [] => Ok []
  | a :: r => do b <- p a; do r' <- tr_filterM p r; Ok (if b then a :: r' else r')
  end.
