(** Shared base: text as code-point lists, Python-exception result type. *)
From Coq Require Export List NArith ZArith Bool Lia.
Export ListNotations.

Definition char := N.
Definition str := list N.

(** Python exception kinds, as far as any property distinguishes them. *)
Inductive err :=
| ValueError | KeyError | TypeError | IndexError | ParseError | DebError
| IOError | FormatError | AssertionError | NotImplementedError | StopIteration
| OutOfFuel | OtherError.

Inductive result (A : Type) :=
| Ok (a : A)
| Err (e : err).
Arguments Ok {A} a.
Arguments Err {A} e.

Definition bind {A B} (r : result A) (f : A -> result B) : result B :=
  match r with Ok a => f a | Err e => Err e end.
Notation "'do' x <- r ; k" := (bind r (fun x => k))
  (at level 200, x pattern, r at level 100, k at level 200, right associativity).

Definition is_ok {A} (r : result A) : bool :=
  match r with Ok _ => true | Err _ => false end.

Definition err_eqb (a b : err) : bool :=
  match a, b with
  | ValueError, ValueError | KeyError, KeyError | TypeError, TypeError
  | IndexError, IndexError | ParseError, ParseError | DebError, DebError
  | IOError, IOError | FormatError, FormatError | AssertionError, AssertionError
  | NotImplementedError, NotImplementedError | StopIteration, StopIteration
  | OutOfFuel, OutOfFuel | OtherError, OtherError => true
  | _, _ => false
  end.

Lemma err_eqb_eq a b : err_eqb a b = true <-> a = b.
Proof. destruct a, b; simpl; split; intro H; try reflexivity; try discriminate. Qed.

Definition result_eqb {A} (eqb : A -> A -> bool) (x y : result A) : bool :=
  match x, y with
  | Ok a, Ok b => eqb a b
  | Err e, Err f => err_eqb e f
  | _, _ => false
  end.

(** Boolean equality on lists, strings, options, pairs. *)
Fixpoint list_eqb {A} (eqb : A -> A -> bool) (l1 l2 : list A) : bool :=
  match l1, l2 with
  | [], [] => true
  | a :: l1, b :: l2 => eqb a b && list_eqb eqb l1 l2
  | _, _ => false
  end.

Lemma list_eqb_eq {A} (eqb : A -> A -> bool)
  (H : forall a b, eqb a b = true <-> a = b) :
  forall l1 l2, list_eqb eqb l1 l2 = true <-> l1 = l2.
Proof.
  induction l1 as [|a l1 IH]; destruct l2 as [|b l2]; simpl; split; intro E;
    try reflexivity; try discriminate.
  - apply andb_true_iff in E. destruct E as [E1 E2].
    apply H in E1. apply IH in E2. now subst.
  - inversion E; subst. apply andb_true_iff. split; [now apply H|now apply IH].
Qed.

Definition str_eqb : str -> str -> bool := list_eqb N.eqb.
Lemma str_eqb_eq a b : str_eqb a b = true <-> a = b.
Proof. apply list_eqb_eq. intros; apply N.eqb_eq. Qed.
Lemma str_eqb_refl a : str_eqb a a = true.
Proof. now apply str_eqb_eq. Qed.

Definition strs_eqb : list str -> list str -> bool := list_eqb str_eqb.
Lemma strs_eqb_eq a b : strs_eqb a b = true <-> a = b.
Proof. apply list_eqb_eq. apply str_eqb_eq. Qed.

Definition option_eqb {A} (eqb : A -> A -> bool) (x y : option A) : bool :=
  match x, y with
  | Some a, Some b => eqb a b
  | None, None => true
  | _, _ => false
  end.

Definition pair_eqb {A B} (ea : A -> A -> bool) (eb : B -> B -> bool)
  (x y : A * B) : bool := ea (fst x) (fst y) && eb (snd x) (snd y).

(** Indices (0-based) of the elements on which [f] is false. *)
Fixpoint bad_from {A} (f : A -> bool) (i : N) (l : list A) : list N :=
  match l with
  | [] => []
  | a :: l => if f a then bad_from f (N.succ i) l else i :: bad_from f (N.succ i) l
  end.
Definition bad {A} (f : A -> bool) (l : list A) : list N := bad_from f 0%N l.
