(** Model of debian_support.BaseVersion: construction, the regex leaf for
    [re_valid_version], the colon and hyphen rules, [__setattr__] with
    write / recompute / roll back, [_update_full_version], [__str__].
    Character classes, end anchor and [magic_attrs] come from the generated
    table Gen/VersionConsts.v.  No proofs here. *)
From Coq Require Import String.
From Verif Require Import Lib.Base Lib.Dec Lib.PyStr Gen.PyChars Gen.VersionConsts.

(** * Values that get assigned: [None], a str, an int *)
Inductive pyval :=
| VNone
| VStr (s : str)
| VInt (z : Z).

(** [str(value)] *)
Definition py_str (v : pyval) : str :=
  match v with
  | VNone => [78; 111; 110; 101]%N                      (* "None" *)
  | VStr s => s
  | VInt z => if (z <? 0)%Z then 45%N :: print_dec (Z.to_N (- z)) else print_dec (Z.to_N z)
  end.

(** * The regex leaf *)

Definition is_epoch_char (c : N) : bool :=
  if ver_epoch_unicode_d then re_d c else in_ranges ver_epoch_ranges c.
Definition is_up_char (c : N) : bool := in_ranges ver_upstream_ranges c.
Definition is_rev_char (c : N) : bool := in_ranges ver_revision_ranges c.

(** The end anchor: [\Z], or [$] which also matches before a final LF. *)
Definition at_end (t : str) : bool :=
  match t with
  | [] => true
  | [c] => (c =? 10)%N && ver_end_dollar
  | _ => false
  end.

Definition is_nil {A} (l : list A) : bool := match l with [] => true | _ => false end.

(** [(-(?P<debian_revision>R+))?END] tried at [t]: the group is tried first
    (greedy [?]); R+ is greedy and giving characters back cannot reach END because
    what follows would be an R character. *)
Definition tail_ok (t : str) : option (option str) :=
  let with_rev :=
    match t with
    | c :: t' =>
        if (c =? 45)%N then                                 (* '-' *)
          let (r, rest) := span is_rev_char t' in
          if negb (is_nil r) && at_end rest then Some r else None
        else None
    | [] => None
    end in
  match with_rev with
  | Some r => Some (Some r)
  | None => if at_end t then Some None else None
  end.

(** [(?P<upstream_version>U+?)] followed by the tail: the shortest non-empty
    prefix of U characters after which the tail matches. *)
Fixpoint match_up (t : str) : option (str * option str) :=
  match t with
  | [] => None
  | c :: t' =>
      if is_up_char c then
        match tail_ok t' with
        | Some rv => Some ([c], rv)
        | None =>
            match match_up t' with
            | Some (u, rv) => Some (c :: u, rv)
            | None => None
            end
        end
      else None
  end.

(** [re_valid_version.match(s)]: groups epoch, upstream_version, debian_revision.
    The optional epoch group is tried first; if the rest then fails, fewer digits
    cannot be followed by ':' and the group is skipped. *)
Definition match_version (s : str) : option (option str * str * option str) :=
  let without := match match_up s with Some (u, r) => Some (None, u, r) | None => None end in
  let (d, rest) := span is_epoch_char s in
  match d, rest with
  | _ :: _, c :: rest' =>
      if (c =? 58)%N then                                   (* ':' *)
        match match_up rest' with
        | Some (u, r) => Some (Some d, u, r)
        | None => without
        end
      else without
  | _, _ => without
  end.

(** * The object *)

Record vstate := mkV {
  st_full : str;               (* _BaseVersion__full_version *)
  st_epoch : option str;       (* _BaseVersion__epoch *)
  st_up : option str;          (* _BaseVersion__upstream_version (None only transiently) *)
  st_rev : option str;         (* _BaseVersion__debian_revision *)
}.

Definition is_none {A} (o : option A) : bool := match o with None => true | Some _ => false end.

(** [_set_full_version(version)]: raises before any attribute is written. *)
Definition set_full (version : str) : result vstate :=
  match match_version version with
  | None => Err ValueError
  | Some (e, u, r) =>
      if is_none e && mem_char 58 u then Err ValueError
      else if is_none r && mem_char 45 u then Err ValueError
      else Ok (mkV version e (Some u) r)
  end.

(** [_update_full_version()]: [str + None] is a TypeError; [if self.__debian_revision:]
    is truthiness (None and "" both skip the revision). *)
Definition update_full (st : vstate) : result vstate :=
  let v0 := match st_epoch st with Some e => e ++ [58%N] | None => [] end in
  match st_up st with
  | None => Err TypeError
  | Some u =>
      let v1 := v0 ++ u in
      let v2 := match st_rev st with
                | Some (c :: r) => v1 ++ 45%N :: c :: r
                | _ => v1
                end in
      set_full v2
  end.

Definition s_full_version : str := dec "full_version".
Definition s_epoch : str := dec "epoch".
Definition s_upstream_version : str := dec "upstream_version".
Definition s_debian_revision : str := dec "debian_revision".
Definition s_debian_version : str := dec "debian_version".

Definition magic_attrs : list str := map dec ver_magic_attrs.

(** [getattr(self, "_BaseVersion__" + attr)] followed by [setattr(...)]: only the
    three component slots exist besides full_version. *)
Definition put_private (attr : str) (value : option str) (st : vstate) : option vstate :=
  if str_eqb attr s_epoch then Some (mkV (st_full st) value (st_up st) (st_rev st))
  else if str_eqb attr s_upstream_version then Some (mkV (st_full st) (st_epoch st) value (st_rev st))
  else if str_eqb attr s_debian_revision then Some (mkV (st_full st) (st_epoch st) (st_up st) value)
  else None.

(** [obj.<name> = v]: the state afterwards and the exception, if any. *)
Definition setattr (st : vstate) (name : str) (v : pyval) : vstate * option err :=
  if negb (existsb (str_eqb name) magic_attrs) then (st, None)     (* an ordinary attribute *)
  else
    let attr := if str_eqb name s_debian_version then s_debian_revision else name in
    if str_eqb attr s_full_version then
      match set_full (py_str v) with
      | Ok st' => (st', None)
      | Err e => (st, Some e)
      end
    else
      let value := match v with VNone => None | _ => Some (py_str v) end in
      match put_private attr value st with
      | None => (st, Some OtherError)                    (* AttributeError *)
      | Some st1 =>
          match update_full st1 with
          | Ok st2 => (st2, None)
          | Err ValueError | Err TypeError =>
              (* setattr(self, private, old_value); self._update_full_version(); raise ValueError *)
              match update_full st with
              | Ok st3 => (st3, Some ValueError)
              | Err e2 => (st, Some e2)
              end
          | Err e => (st1, Some e)
          end
      end.

(** [Version(v)] *)
Definition version_new (v : pyval) : result vstate := set_full (py_str v).

(** [str(obj)] *)
Definition version_str (st : vstate) : str := st_full st.

(** [obj.<name>] for the five magic names *)
Definition getattr (st : vstate) (name : str) : option (option str) :=
  let attr := if str_eqb name s_debian_version then s_debian_revision else name in
  if str_eqb attr s_full_version then Some (Some (st_full st))
  else if str_eqb attr s_epoch then Some (st_epoch st)
  else if str_eqb attr s_upstream_version then Some (st_up st)
  else if str_eqb attr s_debian_revision then Some (st_rev st)
  else None.

(** A sequence of assignments; the trace records the outcome of each. *)
Fixpoint run_assigns (st : vstate) (ops : list (str * pyval)) : list (vstate * option err) :=
  match ops with
  | [] => []
  | (name, v) :: ops' =>
      let r := setattr st name v in r :: run_assigns (fst r) ops'
  end.
