(** Case format evaluated by the correspondence check of C14.
    [agree]: the model (Parse.v) reproduces what the implementation did.
    [holds]: the property itself, judged on what the implementation did, against
             the grammar of ParseSpec.v. *)
From Coq Require Import String.
From Verif Require Import Lib.Base Lib.Dec Version.Parse Version.ParseSpec.

(** An assigned value as the harness writes it. *)
Inductive aval :=
| ANone
| AStr (s : string)
| AInt (z : Z).

(** What the driver reads back: str(v), v.full_version, v.epoch,
    v.upstream_version, v.debian_revision, v.debian_version. *)
Record snap := mkS {
  s_str : string;
  s_full : option string;
  s_epoch : option string;
  s_up : option string;
  s_rev : option string;
  s_debver : option string;
}.

Inductive case :=
| CNew (v : aval) (obs : result snap)
    (* Version(v) *)
| CSeq (init : string) (ops : list (string * aval)) (obs : result (snap * list (option err * snap)))
    (* v = Version(init); then setattr(v, name, value) for each op, recording the
       exception kind (if any) and a snapshot after each *)
| CLeaf (s : string) (groups : option (option string * string * option string)).
    (* BaseVersion.re_valid_version.match(s): epoch, upstream_version, debian_revision *)

(** Decoded snapshot *)
Record dsnap := mkD {
  d_str : str; d_full : option str; d_epoch : option str; d_up : option str;
  d_rev : option str; d_debver : option str }.

Definition odec (o : option string) : option str :=
  match o with Some s => Some (dec s) | None => None end.

Definition dsnap_of (s : snap) : dsnap :=
  mkD (dec (s_str s)) (odec (s_full s)) (odec (s_epoch s)) (odec (s_up s)) (odec (s_rev s))
      (odec (s_debver s)).

Definition ostr_eqb := option_eqb str_eqb.

Definition dsnap_eqb (x y : dsnap) : bool :=
  str_eqb (d_str x) (d_str y) && ostr_eqb (d_full x) (d_full y) && ostr_eqb (d_epoch x) (d_epoch y)
  && ostr_eqb (d_up x) (d_up y) && ostr_eqb (d_rev x) (d_rev y) && ostr_eqb (d_debver x) (d_debver y).

Definition pyval_of (a : aval) : pyval :=
  match a with ANone => VNone | AStr s => VStr (dec s) | AInt z => VInt z end.

(** * agree *)

Definition snap_of_state (st : vstate) : dsnap :=
  mkD (version_str st) (Some (st_full st)) (st_epoch st) (st_up st) (st_rev st) (st_rev st).

Definition oerr_eqb := option_eqb err_eqb.

Definition step_eqb (x y : option err * dsnap) : bool :=
  oerr_eqb (fst x) (fst y) && dsnap_eqb (snd x) (snd y).

Definition model_seq (init : str) (ops : list (str * pyval)) : result (dsnap * list (option err * dsnap)) :=
  do st <- version_new (VStr init);
  Ok (snap_of_state st,
      map (fun r : vstate * option err => (snd r, snap_of_state (fst r))) (run_assigns st ops)).

Definition groups_eqb (x y : option (option str * str * option str)) : bool :=
  option_eqb (fun a b : option str * str * option str =>
                match a, b with
                | (e1, u1, r1), (e2, u2, r2) => ostr_eqb e1 e2 && str_eqb u1 u2 && ostr_eqb r1 r2
                end) x y.

Definition agree (c : case) : bool :=
  match c with
  | CNew v obs =>
      result_eqb dsnap_eqb
        (do st <- version_new (pyval_of v); Ok (snap_of_state st))
        (match obs with Ok s => Ok (dsnap_of s) | Err e => Err e end)
  | CSeq init ops obs =>
      result_eqb (fun x y : dsnap * list (option err * dsnap) =>
                    dsnap_eqb (fst x) (fst y) && list_eqb step_eqb (snd x) (snd y))
        (model_seq (dec init) (map (fun p : string * aval => (dec (fst p), pyval_of (snd p))) ops))
        (match obs with
         | Ok (s, l) => Ok (dsnap_of s, map (fun p : option err * snap => (fst p, dsnap_of (snd p))) l)
         | Err e => Err e
         end)
  | CLeaf s groups =>
      groups_eqb (match_version (dec s))
        (match groups with
         | Some (e, u, r) => Some (odec e, dec u, odec r)
         | None => None
         end)
  end.

(** * holds *)

(** The snapshot a valid version string must show: str() and full_version are the
    string itself, the components are its decomposition (and so recompose to it). *)
Definition snap_is_version (d : dsnap) (s : str) : bool :=
  match spec_decompose s with
  | Some (e, u, r) =>
      str_eqb (d_str d) s && ostr_eqb (d_full d) (Some s)
      && ostr_eqb (d_epoch d) e && ostr_eqb (d_up d) (Some u) && ostr_eqb (d_rev d) r
      && ostr_eqb (d_debver d) r
      && str_eqb (recompose (d_epoch d) (match d_up d with Some u => u | None => [] end) (d_rev d)) s
  | None => false
  end.

(** Version(s) for a string s *)
Definition new_ok (s : str) (obs : result dsnap) : bool :=
  match obs with
  | Ok d => valid_spec s && snap_is_version d s
  | Err e => negb (valid_spec s) && err_eqb e ValueError
  end.

(** The text a value is stored as: None stays None, anything else goes through
    str() (decimal for an int). *)
Definition value_text (a : aval) : option str :=
  match a with
  | ANone => None
  | AStr s => Some (dec s)
  | AInt z => Some (if (z <? 0)%Z then HYPHEN :: print_dec (Z.to_N (- z)) else print_dec (Z.to_N z))
  end.

Definition n_full_version : str := dec "full_version".
Definition n_epoch : str := dec "epoch".
Definition n_upstream_version : str := dec "upstream_version".
Definition n_debian_revision : str := dec "debian_revision".
Definition n_debian_version : str := dec "debian_version".

(** The version string that assigning [value] to [name] asks for, given the
    components before: None = no such version can be written down (upstream
    removed); an empty revision means "no revision".  [inl tt] = not one of the
    five attributes. *)
Definition requested (prev : dsnap) (name : str) (a : aval) : option (option str) :=
  let v := value_text a in
  let norm_rev (r : option str) := match r with Some [] => None | _ => r end in
  let mk (e : option str) (u : option str) (r : option str) :=
    match u with
    | Some u => Some (recompose e u (norm_rev r))
    | None => None
    end in
  if str_eqb name n_full_version then
    Some (Some (match v with Some s => s | None => dec "None" end))
  else if str_eqb name n_epoch then Some (mk v (d_up prev) (d_rev prev))
  else if str_eqb name n_upstream_version then Some (mk (d_epoch prev) v (d_rev prev))
  else if str_eqb name n_debian_revision || str_eqb name n_debian_version then
    Some (mk (d_epoch prev) (d_up prev) v)
  else None.

(** One assignment: either the requested version is valid and the object now is
    exactly that version, or ValueError and the object is exactly as before. *)
Definition step_ok (prev : dsnap) (name : str) (a : aval) (out : option err) (now : dsnap) : bool :=
  match requested prev name a with
  | None => is_none out && dsnap_eqb now prev                 (* an ordinary attribute *)
  | Some req =>
      let valid := match req with Some s => valid_spec s | None => false end in
      if valid then
        is_none out && match req with Some s => snap_is_version now s | None => false end
      else oerr_eqb out (Some ValueError) && dsnap_eqb now prev
  end.

Fixpoint steps_ok (prev : dsnap) (ops : list (str * aval)) (obs : list (option err * dsnap)) : bool :=
  match ops, obs with
  | [], [] => true
  | (name, a) :: ops', (out, now) :: obs' => step_ok prev name a out now && steps_ok now ops' obs'
  | _, _ => false
  end.

Definition holds (c : case) : bool :=
  match c with
  | CNew (AStr s) obs => new_ok (dec s) (match obs with Ok d => Ok (dsnap_of d) | Err e => Err e end)
  | CNew _ _ => true                   (* not a string: outside the property *)
  | CSeq init ops obs =>
      match obs with
      | Ok (s0, l) =>
          new_ok (dec init) (Ok (dsnap_of s0))
          && steps_ok (dsnap_of s0) (map (fun p : string * aval => (dec (fst p), snd p)) ops)
               (map (fun p : option err * snap => (fst p, dsnap_of (snd p))) l)
      | Err e => new_ok (dec init) (Err e)
      end
  | CLeaf _ _ => true
  end.

Definition bad_agree (cs : list case) : list N := bad agree cs.
Definition bad_holds (cs : list case) : list N := bad holds cs.
