(** Independent reference for C14 (and the notion of "valid version" of C03):
    the version grammar of Debian Policy 5.6.12,

      version ::= [ epoch ":" ] upstream [ "-" revision ]
      epoch    : one or more ASCII digits
      upstream : one or more of  A-Z a-z 0-9 . + ~   plus "-" only when a revision
                 is present and ":" only when an epoch is present
      revision : one or more of  A-Z a-z 0-9 + . ~

    given twice: declaratively ([valid_version]) and as a decision procedure
    ([valid_spec], [spec_decompose]) that cuts at the first colon and the last
    hyphen.  Character classes are written out by hand here; the model takes its
    classes from the table generated from the source. *)
From Verif Require Import Lib.Base.

Definition is_digit09 (c : N) : bool := (48 <=? c)%N && (c <=? 57)%N.
Definition is_alnum (c : N) : bool :=
  is_digit09 c || ((65 <=? c)%N && (c <=? 90)%N) || ((97 <=? c)%N && (c <=? 122)%N).

Definition COLON : N := 58.
Definition HYPHEN : N := 45.

(** upstream characters other than ':' and '-' *)
Definition policy_upstream_base (c : N) : bool :=
  is_alnum c || (c =? 46)%N || (c =? 43)%N || (c =? 126)%N.
Definition policy_upstream_char (colon_ok hyphen_ok : bool) (c : N) : bool :=
  policy_upstream_base c || (colon_ok && (c =? COLON)%N) || (hyphen_ok && (c =? HYPHEN)%N).
Definition policy_revision_char (c : N) : bool :=
  is_alnum c || (c =? 43)%N || (c =? 46)%N || (c =? 126)%N.

Definition nonempty {A} (l : list A) : bool := match l with [] => false | _ => true end.
Definition is_some {A} (o : option A) : bool := match o with Some _ => true | None => false end.

(** Recomposition of the three components. *)
Definition recompose (e : option str) (u : str) (r : option str) : str :=
  (match e with Some e => e ++ [COLON] | None => [] end)
  ++ u ++ (match r with Some r => HYPHEN :: r | None => [] end).

(** The grammar, declaratively. *)
Definition valid_components (e : option str) (u : str) (r : option str) : Prop :=
  (match e with Some e => e <> [] /\ forallb is_digit09 e = true | None => True end)
  /\ u <> [] /\ forallb (policy_upstream_char (is_some e) (is_some r)) u = true
  /\ (match r with Some r => r <> [] /\ forallb policy_revision_char r = true | None => True end).

Definition valid_version (s : str) : Prop :=
  exists e u r, s = recompose e u r /\ valid_components e u r.

(** The decision procedure. *)

(** before / after the first [c] *)
Fixpoint cut_first (c : N) (s : str) : option (str * str) :=
  match s with
  | [] => None
  | x :: s' =>
      if (x =? c)%N then Some ([], s')
      else match cut_first c s' with
           | Some (p, q) => Some (x :: p, q)
           | None => None
           end
  end.

(** before / after the last [c] *)
Fixpoint cut_last (c : N) (s : str) : option (str * str) :=
  match s with
  | [] => None
  | x :: s' =>
      match cut_last c s' with
      | Some (p, q) => Some (x :: p, q)
      | None => if (x =? c)%N then Some ([], s') else None
      end
  end.

Definition spec_split (s : str) : option str * str * option str :=
  let (e, rest) := match cut_first COLON s with
                   | Some (e, rest) => (Some e, rest)
                   | None => (None, s)
                   end in
  match cut_last HYPHEN rest with
  | Some (u, r) => (e, u, Some r)
  | None => (e, rest, None)
  end.

Definition components_ok (e : option str) (u : str) (r : option str) : bool :=
  (match e with Some e => nonempty e && forallb is_digit09 e | None => true end)
  && nonempty u && forallb (policy_upstream_char (is_some e) (is_some r)) u
  && (match r with Some r => nonempty r && forallb policy_revision_char r | None => true end).

(** [spec_decompose s] = the components of a valid version, None for an invalid one. *)
Definition spec_decompose (s : str) : option (option str * str * option str) :=
  match spec_split s with
  | (e, u, r) => if components_ok e u r then Some (e, u, r) else None
  end.

Definition valid_spec (s : str) : bool := is_some (spec_decompose s).
