(** Primitives that the regenerated methods of debian_support.BaseVersion (Gen/TrVersionParse.v) call.
    Each is DEFINED from the model's own leaf functions (Version/Parse.v): the regex leaf [match_version],
    [py_str], [put_private], [getattr], [magic_attrs].

    The object state is the four private attributes, in the order
    ([__full_version], [__epoch], [__upstream_version], [__debian_revision]) = the fields of [vstate].

    Values are dynamic in Python.  A value that may be None is [option nnval]; [nnval] is a str or an int (the
    value space of the model's [pyval], minus None).  The private slots themselves hold None or a str (as in
    [vstate]); storing anything else is OUTSIDE the model's state space and is reported as [OutOfFuel], which no
    tie theorem allows: the theorems therefore show that it never happens.

    What the primitives say about Python (checked by the correspondence, not here):
    - [re_valid_version.match] is the hand-written leaf [match_version] (pattern text asserted by the
      translator spec; its three character classes are regenerated into Gen/VersionConsts.v);
    - [str(v)] of None / a str / an int is [py_str];
    - [getattr(self, "_BaseVersion__<a>")] reads a private slot, AttributeError (OtherError) if there is no
      such slot; [setattr(self, "_BaseVersion__<a>", v)] and [super().__setattr__(name, v)] store into a
      private slot, or into an ordinary attribute (then the four slots are unchanged) — in Python
      [setattr(self, private, v)] itself goes through BaseVersion.__setattr__, whose first branch hands a
      non-magic name to [object.__setattr__]; the primitive is that store;
    - [super().__getattribute__(name)] for a non-magic name: ordinary attribute lookup is NOT modelled, every
      such name is reported as AttributeError (what the model's [getattr] says for them: [None]);
    - [isinstance(v, BaseVersion)] is false on the modelled values (None, str, int). *)
From Verif Require Import Lib.Base Lib.Dec Lib.PyStr Lib.Tr Version.Parse.

(** * dynamic values *)
Inductive nnval :=
| NStr (s : str)
| NInt (z : Z).

Definition pv_of (v : option nnval) : pyval :=
  match v with
  | None => VNone
  | Some (NStr s) => VStr s
  | Some (NInt z) => VInt z
  end.

Definition nn_of (v : pyval) : option nnval :=
  match v with
  | VNone => None
  | VStr s => Some (NStr s)
  | VInt z => Some (NInt z)
  end.

(** [str(value)] *)
Definition trp_str_opt (v : option nnval) : str := py_str (pv_of v).

(** [isinstance(version, BaseVersion)]: never, on the modelled values *)
Definition trp_isinstance_BaseVersion (v : option nnval) (_ : unit) : bool := false.

(** * the match object of re_valid_version *)
Definition vmatch : Type := (option str * str * option str)%type.

Definition trp_match_version (s : str) : option vmatch := match_version s.
Definition trp_group_epoch (m : vmatch) (_ : unit) : option str := fst (fst m).
Definition trp_group_upstream (m : vmatch) (_ : unit) : str := snd (fst m).
Definition trp_group_revision (m : vmatch) (_ : unit) : option str := snd m.

(** * the object state *)
Definition stT : Type := (str * option str * option str * option str)%type.

Definition st_of (st : vstate) : stT := (st_full st, st_epoch st, st_up st, st_rev st).

(** [self.magic_attrs]: the model's list (generated from the source) *)
Definition trp_magic_attrs : list str := magic_attrs.

(** the name mangling of private attributes: [self.__x] inside class BaseVersion is [_BaseVersion__x] *)
Definition private_prefix : str := [95; 66; 97; 115; 101; 86; 101; 114; 115; 105; 111; 110; 95; 95]%N.

Fixpoint strip_prefix (p s : str) : option str :=
  match p, s with
  | [], _ => Some s
  | a :: p', b :: s' => if (a =? b)%N then strip_prefix p' s' else None
  | _ :: _, [] => None
  end.

Definition is_private (name : str) : bool := tr_is_some (strip_prefix private_prefix name).

(** the three component slots are those that the model's [put_private] knows; reading one is the model's
    [getattr] on the same name *)
Definition get_private (attr : str) (st : vstate) : option (option str) :=
  match put_private attr None st with
  | Some _ => getattr st attr
  | None => None
  end.

(** [getattr(self, name)] for a mangled private name *)
Definition trp_getattr (s_full : str) (s_ep s_up s_rev : option str) (_ : unit) (name : str)
  : result (option nnval) :=
  let st := mkV s_full s_ep s_up s_rev in
  match strip_prefix private_prefix name with
  | None => Err OutOfFuel                         (* not a private slot: lookup of other attributes is not modelled *)
  | Some a =>
      if str_eqb a s_full_version then Ok (Some (NStr s_full))
      else match get_private a st with
           | Some o => Ok (option_map NStr o)
           | None => Err OtherError                (* AttributeError *)
           end
  end.

(** what a private slot can hold in the model: None or a str *)
Definition slot_value (v : option nnval) : option (option str) :=
  match v with
  | None => Some None
  | Some (NStr s) => Some (Some s)
  | Some (NInt _) => None
  end.

(** [object.__setattr__(self, name, v)] *)
Definition obj_setattr (s_full : str) (s_ep s_up s_rev : option str) (name : str) (v : option nnval)
  : mres unit stT :=
  let st := mkV s_full s_ep s_up s_rev in
  match strip_prefix private_prefix name with
  | None => MOk tt (st_of st)                     (* an ordinary attribute: the four slots are unchanged *)
  | Some a =>
      if str_eqb a s_full_version then
        match v with
        | Some (NStr s) => MOk tt (s, s_ep, s_up, s_rev)
        | _ => MErr OutOfFuel (st_of st)           (* the slot holds a str in the model *)
        end
      else
        match put_private a None st with
        | None => MOk tt (st_of st)               (* some other mangled name: an ordinary attribute *)
        | Some _ =>
            match slot_value v with
            | None => MErr OutOfFuel (st_of st)    (* the slots hold None or a str in the model *)
            | Some sv =>
                match put_private a sv st with
                | Some st' => MOk tt (st_of st')
                | None => MErr OutOfFuel (st_of st)
                end
            end
        end
  end.

(** [setattr(self, name, v)] (the builtin: the first argument is [self]) *)
Definition trp_setattr (s_full : str) (s_ep s_up s_rev : option str) (_ : unit) (name : str) (v : option nnval)
  : mres unit stT := obj_setattr s_full s_ep s_up s_rev name v.

(** [super(BaseVersion, self).__setattr__(name, v)] *)
Definition trp_super_setattr (s_full : str) (s_ep s_up s_rev : option str) (name : str) (v : option nnval)
  : mres unit stT := obj_setattr s_full s_ep s_up s_rev name v.

(** [super(BaseVersion, self).__getattribute__(name)] for a name that is not magic: not modelled, reported as
    AttributeError for every name *)
Definition trp_super_getattribute (s_full : str) (s_ep s_up s_rev : option str) (name : str)
  : result (option nnval) := Err OtherError.
