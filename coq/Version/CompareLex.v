(** Generic order theory used by the C03 proofs: three-way comparisons that are
    total preorders ([cmp_laws]), their lexicographic product, and the
    lexicographic order on lists in which a list that has run out supplies a
    fixed padding element ([lexpad]) -- the shape shared by
    [_version_cmp_string] (pad with order 0), [_version_cmp_part] (pad with "0")
    and dpkg's [verrevcmp] (NUL orders as 0, absent number = 0).
    Nothing here mentions the model or the spec. *)
From Coq Require Import List Bool Arith Lia.
Import ListNotations.

Record cmp_laws {A : Type} (cmp : A -> A -> comparison) : Prop := {
  cl_refl : forall x, cmp x x = Eq;
  cl_anti : forall x y, cmp y x = CompOpp (cmp x y);
  cl_trans : forall x y z, cmp x y = Lt -> cmp y z = Lt -> cmp x z = Lt;
  cl_eq_l : forall x y z, cmp x y = Eq -> cmp x z = cmp y z }.

Section Consequences.
  Context {A : Type} (cmp : A -> A -> comparison) (L : cmp_laws cmp).

  Lemma cl_eq_sym x y : cmp x y = Eq -> cmp y x = Eq.
  Proof. intro H. rewrite (cl_anti _ L), H. reflexivity. Qed.

  Lemma cl_eq_r x y z : cmp y z = Eq -> cmp x y = cmp x z.
  Proof.
    intro H. rewrite (cl_anti _ L y x), (cl_anti _ L z x).
    f_equal. apply (cl_eq_l _ L). exact H.
  Qed.

  Lemma cl_gt_lt x y : cmp x y = Gt <-> cmp y x = Lt.
  Proof.
    rewrite (cl_anti _ L x y). destruct (cmp x y); simpl; split; congruence.
  Qed.

  Lemma cl_trans_gt x y z : cmp x y = Gt -> cmp y z = Gt -> cmp x z = Gt.
  Proof.
    rewrite !cl_gt_lt. intros H1 H2. exact (cl_trans _ L _ _ _ H2 H1).
  Qed.

  (** [<=] is transitive, strictness is inherited *)
  Lemma cl_le_trans x y z : cmp x y <> Gt -> cmp y z <> Gt -> cmp x z <> Gt.
  Proof.
    intros H1 H2.
    destruct (cmp x y) eqn:E1; [| |congruence];
      destruct (cmp y z) eqn:E2; try congruence.
    - rewrite (cl_eq_l _ L _ _ _ E1), E2. discriminate.
    - rewrite (cl_eq_l _ L _ _ _ E1), E2. discriminate.
    - rewrite <- (cl_eq_r x _ _ E2), E1. discriminate.
    - rewrite (cl_trans _ L _ _ _ E1 E2). discriminate.
  Qed.

  Lemma cl_lt_le_trans x y z : cmp x y = Lt -> cmp y z <> Gt -> cmp x z = Lt.
  Proof.
    intros E1 H2. destruct (cmp y z) eqn:E2; try congruence.
    - now rewrite <- (cl_eq_r x _ _ E2).
    - exact (cl_trans _ L _ _ _ E1 E2).
  Qed.

  Lemma cl_le_lt_trans x y z : cmp x y <> Gt -> cmp y z = Lt -> cmp x z = Lt.
  Proof.
    intros H1 E2. destruct (cmp x y) eqn:E1; try congruence.
    - now rewrite (cl_eq_l _ L _ _ _ E1).
    - exact (cl_trans _ L _ _ _ E1 E2).
  Qed.
End Consequences.

(** * Lexicographic product *)
Section LexProd.
  Context {A B : Type} (ca : A -> A -> comparison) (cb : B -> B -> comparison).
  Hypothesis La : cmp_laws ca.
  Hypothesis Lb : cmp_laws cb.

  Definition lexprod (x y : A * B) : comparison :=
    match ca (fst x) (fst y) with
    | Eq => cb (snd x) (snd y)
    | r => r
    end.

  Lemma lexprod_laws : cmp_laws lexprod.
  Proof.
    split; unfold lexprod.
    - intros [a b]; simpl. now rewrite (cl_refl _ La), (cl_refl _ Lb).
    - intros [a b] [a' b']; simpl. rewrite (cl_anti _ La a a').
      destruct (ca a a'); simpl; auto. apply (cl_anti _ Lb).
    - intros [a b] [a' b'] [a'' b'']; simpl.
      destruct (ca a a') eqn:E1; try discriminate;
        destruct (ca a' a'') eqn:E2; try discriminate; intros H1 H2.
      + rewrite (cl_eq_l _ La _ _ _ E1), E2. exact (cl_trans _ Lb _ _ _ H1 H2).
      + now rewrite (cl_eq_l _ La _ _ _ E1), E2.
      + now rewrite <- (cl_eq_r _ La a _ _ E2), E1.
      + now rewrite (cl_trans _ La _ _ _ E1 E2).
    - intros [a b] [a' b'] [a'' b'']; simpl.
      destruct (ca a a') eqn:E1; try discriminate. intro H.
      rewrite (cl_eq_l _ La _ _ _ E1).
      destruct (ca a' a''); auto. apply (cl_eq_l _ Lb). exact H.
  Qed.
End LexProd.

(** * Lexicographic order on lists with padding *)
Section LexPad.
  Context {A : Type} (cmp : A -> A -> comparison) (d : A).

  Fixpoint lexpad_r (lb : list A) : comparison :=
    match lb with
    | [] => Eq
    | b :: lb' => match cmp d b with Eq => lexpad_r lb' | r => r end
    end.

  Fixpoint lexpad (la lb : list A) : comparison :=
    match la with
    | [] => lexpad_r lb
    | a :: la' =>
        match lb with
        | [] => match cmp a d with Eq => lexpad la' [] | r => r end
        | b :: lb' => match cmp a b with Eq => lexpad la' lb' | r => r end
        end
    end.

  Definition hdd (l : list A) : A := match l with [] => d | x :: _ => x end.

  (** the same with a step count instead of case analysis on the lists *)
  Fixpoint lexn (n : nat) (la lb : list A) : comparison :=
    match n with
    | O => Eq
    | S n => match cmp (hdd la) (hdd lb) with Eq => lexn n (tl la) (tl lb) | r => r end
    end.

  Lemma lexpad_nil_l lb : lexpad [] lb = lexpad_r lb.
  Proof. reflexivity. Qed.

  (** one step, with the exhausted side read as the padding element *)
  Lemma lexpad_step la lb :
    la <> [] \/ lb <> [] ->
    lexpad la lb = match cmp (hdd la) (hdd lb) with
                   | Eq => lexpad (tl la) (tl lb)
                   | r => r
                   end.
  Proof.
    destruct la as [|a la], lb as [|b lb]; simpl; intros [H|H]; try congruence; reflexivity.
  Qed.

  Hypothesis L : cmp_laws cmp.

  Lemma lexn_nil n : lexn n [] [] = Eq.
  Proof. induction n; simpl; auto. now rewrite (cl_refl _ L). Qed.

  Lemma lexpad_r_lexn lb : forall n, length lb <= n -> lexpad_r lb = lexn n [] lb.
  Proof.
    induction lb as [|b lb IH]; intros n Hn.
    - now rewrite lexn_nil.
    - destruct n; simpl in *; [lia|]. destruct (cmp d b); auto. apply IH. lia.
  Qed.

  Lemma lexpad_lexn la : forall lb n, length la <= n -> length lb <= n -> lexpad la lb = lexn n la lb.
  Proof.
    induction la as [|a la IH]; intros lb n Ha Hb.
    - simpl. now apply lexpad_r_lexn.
    - destruct n; simpl in *; [lia|].
      destruct lb as [|b lb]; simpl in *.
      + destruct (cmp a d); auto. apply IH; simpl; lia.
      + destruct (cmp a b); auto. apply IH; lia.
  Qed.

  Lemma lexn_refl n : forall l, lexn n l l = Eq.
  Proof. induction n; intro l; simpl; auto. now rewrite (cl_refl _ L). Qed.

  Lemma lexn_anti n : forall la lb, lexn n lb la = CompOpp (lexn n la lb).
  Proof.
    induction n; intros la lb; simpl; auto.
    rewrite (cl_anti _ L (hdd la) (hdd lb)). destruct (cmp (hdd la) (hdd lb)); simpl; auto.
  Qed.

  Lemma lexn_eq_l n : forall a b c, lexn n a b = Eq -> lexn n a c = lexn n b c.
  Proof.
    induction n; intros a b c; simpl; auto.
    destruct (cmp (hdd a) (hdd b)) eqn:E; try discriminate. intro H.
    rewrite (cl_eq_l _ L _ _ _ E). destruct (cmp (hdd b) (hdd c)); auto.
  Qed.

  Lemma lexn_trans n : forall a b c, lexn n a b = Lt -> lexn n b c = Lt -> lexn n a c = Lt.
  Proof.
    induction n; intros a b c; simpl; [discriminate|].
    destruct (cmp (hdd a) (hdd b)) eqn:E1; try discriminate;
      destruct (cmp (hdd b) (hdd c)) eqn:E2; try discriminate; intros H1 H2.
    - rewrite (cl_eq_l _ L _ _ _ E1), E2. eauto.
    - now rewrite (cl_eq_l _ L _ _ _ E1), E2.
    - now rewrite <- (cl_eq_r _ L (hdd a) _ _ E2), E1.
    - now rewrite (cl_trans _ L _ _ _ E1 E2).
  Qed.

  Theorem lexpad_laws : cmp_laws lexpad.
  Proof.
    split.
    - intro x. rewrite (lexpad_lexn x x (length x)); auto. apply lexn_refl.
    - intros x y.
      rewrite (lexpad_lexn y x (length x + length y)), (lexpad_lexn x y (length x + length y)); try lia.
      apply lexn_anti.
    - intros x y z.
      rewrite (lexpad_lexn x y (length x + length y + length z)),
              (lexpad_lexn y z (length x + length y + length z)),
              (lexpad_lexn x z (length x + length y + length z)); try lia.
      apply lexn_trans.
    - intros x y z.
      rewrite (lexpad_lexn x y (length x + length y + length z)),
              (lexpad_lexn y z (length x + length y + length z)),
              (lexpad_lexn x z (length x + length y + length z)); try lia.
      apply lexn_eq_l.
  Qed.

  (** padding elements at the end do not matter *)
  Lemma lexpad_pad_r la : lexpad la [d] = lexpad la [].
  Proof.
    destruct la as [|a la]; simpl.
    - now rewrite (cl_refl _ L).
    - destruct (cmp a d); auto.
  Qed.

  Lemma lexpad_app_pad_l la : lexpad (la ++ [d]) la = Eq.
  Proof.
    induction la as [|a la IH]; simpl.
    - now rewrite (cl_refl _ L).
    - now rewrite (cl_refl _ L).
  Qed.

  Lemma lexpad_snoc_pad la lb : lexpad (la ++ [d]) (lb ++ [d]) = lexpad la lb.
  Proof.
    pose proof lexpad_laws as LL.
    rewrite (cl_eq_l _ LL _ _ (lb ++ [d]) (lexpad_app_pad_l la)).
    apply (cl_eq_r _ LL). apply lexpad_app_pad_l.
  Qed.

  (** * Equality of the order = equality of the trimmed lists *)
  Variable is_d : A -> bool.
  Hypothesis is_d_spec : forall x, is_d x = true <-> x = d.

  Fixpoint trim (l : list A) : list A :=
    match l with
    | [] => []
    | x :: l' =>
        match trim l' with
        | [] => if is_d x then [] else [x]
        | t => x :: t
        end
    end.

  Lemma lexpad_trim l : lexpad l (trim l) = Eq.
  Proof.
    induction l as [|x l IH]; simpl; auto.
    destruct (trim l) as [|t ts] eqn:E.
    - destruct (is_d x) eqn:Ex.
      + apply is_d_spec in Ex. subst x. now rewrite (cl_refl _ L).
      + now rewrite (cl_refl _ L).
    - now rewrite (cl_refl _ L).
  Qed.

  Lemma trim_eq_lexpad la lb : trim la = trim lb -> lexpad la lb = Eq.
  Proof.
    intro H. pose proof lexpad_laws as LL.
    rewrite (cl_eq_l _ LL _ _ lb (lexpad_trim la)), H.
    apply (cl_eq_sym _ LL). apply lexpad_trim.
  Qed.

  (** the converse needs comparison-equal elements to be identical *)
  Variable P : A -> Prop.
  Hypothesis P_d : P d.
  Hypothesis P_eq : forall x y, P x -> P y -> cmp x y = Eq -> x = y.

  Lemma lexpad_r_eq_trim lb : Forall P lb -> lexpad_r lb = Eq -> trim lb = [].
  Proof.
    induction 1 as [|b lb Hb Hlb IH]; simpl; auto.
    destruct (cmp d b) eqn:E; try discriminate. intro H.
    rewrite (IH H). apply (P_eq _ _ P_d Hb) in E. subst b.
    now rewrite (proj2 (is_d_spec d) eq_refl).
  Qed.

  Lemma lexpad_eq_trim la : forall lb, Forall P la -> Forall P lb ->
    lexpad la lb = Eq -> trim la = trim lb.
  Proof.
    induction la as [|a la IH]; intros lb Ha Hb H.
    - simpl in *. symmetry. now apply lexpad_r_eq_trim.
    - inversion Ha as [|? ? Pa Pla]; subst. destruct lb as [|b lb]; simpl in H.
      + destruct (cmp a d) eqn:E; try discriminate.
        apply (P_eq _ _ Pa P_d) in E. subst a.
        simpl. rewrite (IH [] Pla (Forall_nil _) H). simpl.
        now rewrite (proj2 (is_d_spec d) eq_refl).
      + inversion Hb as [|? ? Pb Plb]; subst.
        destruct (cmp a b) eqn:E; try discriminate.
        apply (P_eq _ _ Pa Pb) in E. subst b.
        simpl. now rewrite (IH lb Pla Plb H).
  Qed.

  Theorem lexpad_eq_iff_trim la lb : Forall P la -> Forall P lb ->
    (lexpad la lb = Eq <-> trim la = trim lb).
  Proof. intros Ha Hb. split; [now apply lexpad_eq_trim|apply trim_eq_lexpad]. Qed.
End LexPad.
