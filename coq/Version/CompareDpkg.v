(** C03 proofs, dpkg side.  On strings of "nice" characters (not NUL, and on
    which Python's Unicode-aware digit class coincides with C's [isdigit]) dpkg's
    [verrevcmp] never runs out of fuel and the sign of its result is the padded
    lexicographic order [keys_cmp] on the same key [pkey] that the Python chunk
    loop computes ([verrevcmp_key]). *)
From Verif Require Import Lib.Base Lib.Dec Lib.PyStr Gen.PyChars
  Version.Parse Version.Compare Version.Dpkg Version.CompareLex Version.CompareKey.
Local Open Scope Z_scope.

(** * Nice characters *)

Definition nice (c : N) : bool :=
  negb (c =? 0)%N && Bool.eqb (re_d c) (c_isdigit c)
  && (if c_isdigit c then (nd_val c =? c - 48)%N else true).

Lemma nice_nonnul c : nice c = true -> nonnul c = true.
Proof. unfold nice, nonnul. intro H. apply andb_true_iff in H. destruct H as [H _].
  apply andb_true_iff in H. tauto. Qed.

Lemma nice_digit c : nice c = true -> re_d c = c_isdigit c.
Proof. unfold nice. intro H. apply andb_true_iff in H. destruct H as [H _].
  apply andb_true_iff in H. destruct H as [_ H]. now apply eqb_prop in H. Qed.

Lemma nice_val c : nice c = true -> c_isdigit c = true -> nd_val c = ascii_digit_val c.
Proof. unfold nice. intros H D. rewrite D in H. apply andb_true_iff in H. destruct H as [_ H].
  now apply N.eqb_eq in H. Qed.

Lemma isdigit_range c : c_isdigit c = true -> (48 <= c <= 57)%N.
Proof. unfold c_isdigit. intro H. apply andb_true_iff in H. destruct H as [H1 H2].
  apply N.leb_le in H1. apply N.leb_le in H2. lia. Qed.

Lemma order_digit c : c_isdigit c = true -> order c = 0.
Proof. unfold order. now intros ->. Qed.

Lemma order_nul : order 0 = 0.
Proof. reflexivity. Qed.

Lemma order_nondigit c : nice c = true -> c_isdigit c = false -> order c = py_order c.
Proof.
  intros Hn Hd. pose proof (nice_nonnul c Hn) as H0. pose proof (nice_digit c Hn) as Hr.
  unfold order, py_order. rewrite Hd, Hr, Hd. unfold nonnul in H0.
  change (re_alpha c) with (c_isalpha c).
  destruct (c_isalpha c) eqn:Ea.
  - destruct (c =? 126)%N eqn:E; [|reflexivity].
    apply N.eqb_eq in E. subst c. discriminate.
  - destruct (c =? 126)%N; [reflexivity|]. now rewrite H0.
Qed.

Lemma py_order_nonzero c : re_d c = false -> py_order c <> 0.
Proof. intro H. pose proof (py_order_nondigit c H). lia. Qed.

(** * The non-digit loop *)

Definition stop_nd (r : list N) : bool :=
  match r with [] => true | x :: _ => c_isdigit x end.

Lemma order_peek_stop r : stop_nd r = true -> order (peek r) = 0.
Proof. destruct r; simpl; [reflexivity|apply order_digit]. Qed.

Lemma loop_cond_stop r : stop_nd r = true -> nonnul (peek r) && negb (c_isdigit (peek r)) = false.
Proof. destruct r as [|x r]; simpl; [reflexivity|]. intros ->. apply andb_false_r. Qed.

Definition ndchar (c : N) : bool := nice c && negb (c_isdigit c).

Lemma ndchar_facts c : ndchar c = true ->
  nonnul c && negb (c_isdigit c) = true /\ order c = py_order c /\ py_order c <> 0.
Proof.
  unfold ndchar. intro H. apply andb_true_iff in H. destruct H as [Hn Hd].
  apply negb_true_iff in Hd. repeat split.
  - now rewrite (nice_nonnul c Hn), Hd.
  - now apply order_nondigit.
  - apply py_order_nonzero. now rewrite (nice_digit c Hn).
Qed.

Lemma nondigit_loop_spec na : forall nb ra rb fuel,
  forallb ndchar na = true -> forallb ndchar nb = true ->
  stop_nd ra = true -> stop_nd rb = true ->
  (length na + length nb < fuel)%nat ->
  match ord_cmp na nb with
  | Eq => nondigit_loop fuel (na ++ ra) (nb ++ rb) = L1Next ra rb
  | Lt => exists r, nondigit_loop fuel (na ++ ra) (nb ++ rb) = L1Return r /\ r < 0
  | Gt => exists r, nondigit_loop fuel (na ++ ra) (nb ++ rb) = L1Return r /\ 0 < r
  end.
Proof.
  induction na as [|x na IH]; intros nb ra rb fuel Ha Hb Sa Sb Hf;
    (destruct fuel as [|fuel]; [lia|]); destruct nb as [|y nb].
  - cbn [app ord_cmp map lexpad lexpad_r nondigit_loop].
    now rewrite (loop_cond_stop _ Sa), (loop_cond_stop _ Sb).
  - cbn [forallb] in Hb. apply andb_true_iff in Hb. destruct Hb as [Hy Hb].
    destruct (ndchar_facts y Hy) as (Cy & Oy & Ny).
    unfold ord_cmp. cbn [app map lexpad lexpad_r nondigit_loop peek].
    rewrite Cy, orb_true_r, (order_peek_stop _ Sa), Oy.
    destruct (Z.compare_spec 0 (py_order y)) as [E|E|E]; [lia| |].
    + destruct (Z.eqb_spec 0 (py_order y)); [lia|]. cbn [negb]. eexists; split; [reflexivity|lia].
    + destruct (Z.eqb_spec 0 (py_order y)); [lia|]. cbn [negb]. eexists; split; [reflexivity|lia].
  - cbn [forallb] in Ha. apply andb_true_iff in Ha. destruct Ha as [Hx Ha].
    destruct (ndchar_facts x Hx) as (Cx & Ox & Nx).
    unfold ord_cmp. cbn [app map lexpad lexpad_r nondigit_loop peek].
    rewrite Cx, orb_true_l, (order_peek_stop _ Sb), Ox.
    destruct (Z.compare_spec (py_order x) 0) as [E|E|E]; [lia| |].
    + destruct (Z.eqb_spec (py_order x) 0); [lia|]. cbn [negb]. eexists; split; [reflexivity|lia].
    + destruct (Z.eqb_spec (py_order x) 0); [lia|]. cbn [negb]. eexists; split; [reflexivity|lia].
  - cbn [forallb] in Ha, Hb. apply andb_true_iff in Ha. apply andb_true_iff in Hb.
    destruct Ha as [Hx Ha], Hb as [Hy Hb].
    destruct (ndchar_facts x Hx) as (Cx & Ox & Nx). destruct (ndchar_facts y Hy) as (Cy & Oy & Ny).
    unfold ord_cmp. cbn [app map lexpad nondigit_loop peek adv].
    rewrite Cx, orb_true_l, Ox, Oy.
    destruct (Z.compare_spec (py_order x) (py_order y)) as [E|E|E].
    + destruct (Z.eqb_spec (py_order x) (py_order y)); [|lia]. cbn [negb].
      apply (IH nb ra rb fuel Ha Hb Sa Sb). simpl in Hf. lia.
    + destruct (Z.eqb_spec (py_order x) (py_order y)); [lia|]. cbn [negb].
      eexists; split; [reflexivity|lia].
    + destruct (Z.eqb_spec (py_order x) (py_order y)); [lia|]. cbn [negb].
      eexists; split; [reflexivity|lia].
Qed.

(** * The digit loop *)

Definition finish (r : option (list N * list N * Z)) (k : list N -> list N -> result Z) : result Z :=
  match r with
  | None => Err OutOfFuel
  | Some (a, b, first_diff) =>
      if c_isdigit (peek a) then Ok 1
      else if c_isdigit (peek b) then Ok (-1)
      else if negb (first_diff =? 0) then Ok first_diff
      else k a b
  end.

Lemma verrevcmp_fuel_S f a b :
  verrevcmp_fuel (S f) a b =
    if nonnul (peek a) || nonnul (peek b) then
      match nondigit_loop (S (length a + length b)) a b with
      | L1Fuel => Err OutOfFuel
      | L1Return rc => Ok rc
      | L1Next a b =>
          finish (digit_loop (S (length (skip_zeros a) + length (skip_zeros b)))
                             (skip_zeros a) (skip_zeros b) 0)
                 (verrevcmp_fuel f)
      end
    else Ok 0.
Proof. reflexivity. Qed.

Definition stop_dg (r : list N) : bool :=
  match r with [] => true | x :: _ => negb (c_isdigit x) end.

Lemma isdigit_peek_stop r : stop_dg r = true -> c_isdigit (peek r) = false.
Proof. destruct r; simpl; [reflexivity|apply negb_true_iff]. Qed.

Definition nz (x : list N) : bool :=
  match x with [] => true | c :: _ => negb (c =? 48)%N end.

Definition aval (acc : N) (x : str) : N := horner ascii_digit_val acc x.

Lemma aval_ge acc x : (acc <= aval acc x)%N.
Proof.
  unfold aval. revert acc. induction x as [|c x IH]; intro acc; simpl; [lia|].
  specialize (IH (acc * 10 + ascii_digit_val c)%N). lia.
Qed.

Lemma aval_cons acc c x : aval acc (c :: x) = aval (acc * 10 + ascii_digit_val c) x.
Proof. reflexivity. Qed.

Lemma digit_phase x : forall y ra rb fd A B fuel k,
  forallb c_isdigit x = true -> forallb c_isdigit y = true ->
  stop_dg ra = true -> stop_dg rb = true ->
  (length x + length y < fuel)%nat ->
  Z.sgn fd = z_of_cmp (A ?= B)%N ->
  ((A < 10 * B /\ B < 10 * A) \/ (A = 0 /\ B = 0 /\ nz x = true /\ nz y = true))%N ->
  match (aval A x ?= aval B y)%N with
  | Eq => finish (digit_loop fuel (x ++ ra) (y ++ rb) fd) k = k ra rb
  | Lt => exists r, finish (digit_loop fuel (x ++ ra) (y ++ rb) fd) k = Ok r /\ r < 0
  | Gt => exists r, finish (digit_loop fuel (x ++ ra) (y ++ rb) fd) k = Ok r /\ 0 < r
  end.
Proof.
  induction x as [|c x IH]; intros y ra rb fd A B fuel k Hx Hy Sa Sb Hf Hfd Inv;
    (destruct fuel as [|fuel]; [lia|]); destruct y as [|d y].
  - cbn [app digit_loop aval horner].
    rewrite (isdigit_peek_stop _ Sa). cbn [andb finish].
    rewrite (isdigit_peek_stop _ Sa), (isdigit_peek_stop _ Sb).
    destruct (N.compare_spec A B) as [E|E|E]; simpl in Hfd.
    + apply (proj1 (Z.sgn_null_iff _)) in Hfd. subst fd. reflexivity.
    + apply (proj1 (Z.sgn_neg_iff _)) in Hfd. destruct (Z.eqb_spec fd 0); [lia|]. cbn [negb].
      eexists; split; [reflexivity|lia].
    + apply (proj1 (Z.sgn_pos_iff _)) in Hfd. destruct (Z.eqb_spec fd 0); [lia|]. cbn [negb].
      eexists; split; [reflexivity|lia].
  - cbn [forallb] in Hy. apply andb_true_iff in Hy. destruct Hy as [Hd Hy].
    pose proof (isdigit_range d Hd) as Rd.
    cbn [app digit_loop]. rewrite (isdigit_peek_stop _ Sa). cbn [andb finish peek].
    rewrite (isdigit_peek_stop _ Sa), Hd.
    assert (Hlt : (aval A [] < aval B (d :: y))%N).
    { rewrite aval_cons. pose proof (aval_ge (B * 10 + ascii_digit_val d) y) as G.
      unfold aval at 1. cbn [horner]. unfold ascii_digit_val in *.
      destruct Inv as [[I1 I2]|(-> & -> & _ & Nz)]; [lia|].
      simpl in Nz. apply negb_true_iff in Nz. apply N.eqb_neq in Nz. lia. }
    apply N.compare_lt_iff in Hlt. rewrite Hlt. eexists; split; [reflexivity|lia].
  - cbn [forallb] in Hx. apply andb_true_iff in Hx. destruct Hx as [Hc Hx].
    pose proof (isdigit_range c Hc) as Rc.
    cbn [app digit_loop peek]. rewrite Hc, (isdigit_peek_stop _ Sb). cbn [andb finish peek].
    rewrite Hc.
    assert (Hgt : (aval B [] < aval A (c :: x))%N).
    { rewrite aval_cons. pose proof (aval_ge (A * 10 + ascii_digit_val c) x) as G.
      unfold aval at 1. cbn [horner]. unfold ascii_digit_val in *.
      destruct Inv as [[I1 I2]|(-> & -> & Nz & _)]; [lia|].
      simpl in Nz. apply negb_true_iff in Nz. apply N.eqb_neq in Nz. lia. }
    apply N.compare_gt_iff in Hgt. rewrite Hgt. eexists; split; [reflexivity|lia].
  - cbn [forallb] in Hx, Hy. apply andb_true_iff in Hx. apply andb_true_iff in Hy.
    destruct Hx as [Hc Hx], Hy as [Hd Hy].
    pose proof (isdigit_range c Hc) as Rc. pose proof (isdigit_range d Hd) as Rd.
    cbn [app digit_loop peek adv]. rewrite Hc, Hd. cbn [andb].
    rewrite !aval_cons.
    apply (IH y ra rb _ _ _ fuel k Hx Hy Sa Sb); [simpl in Hf; lia| |].
    + unfold ascii_digit_val.
      destruct (Z.eqb_spec fd 0) as [F|F].
      * subst fd. simpl in Hfd. symmetry in Hfd. apply z_of_cmp_0 in Hfd.
        apply N.compare_eq in Hfd. subst B.
        destruct (N.compare_spec (A * 10 + (c - 48)) (A * 10 + (d - 48))) as [E|E|E]; simpl.
        -- apply (proj2 (Z.sgn_null_iff _)). lia.
        -- apply (proj2 (Z.sgn_neg_iff _)). lia.
        -- apply (proj2 (Z.sgn_pos_iff _)). lia.
      * destruct (N.compare_spec A B) as [E|E|E]; simpl in Hfd.
        -- apply (proj1 (Z.sgn_null_iff _)) in Hfd. lia.
        -- rewrite Hfd. assert (L : (A * 10 + (c - 48) < B * 10 + (d - 48))%N) by lia.
           apply N.compare_lt_iff in L. now rewrite L.
        -- rewrite Hfd. assert (L : (B * 10 + (d - 48) < A * 10 + (c - 48))%N) by lia.
           apply N.compare_gt_iff in L. now rewrite L.
    + left. unfold ascii_digit_val.
      destruct Inv as [[I1 I2]|(-> & -> & Nzx & Nzy)]; [lia|].
      simpl in Nzx, Nzy. apply negb_true_iff in Nzx, Nzy.
      apply N.eqb_neq in Nzx. apply N.eqb_neq in Nzy. lia.
Qed.

(** leading zeros *)
Lemma skip_zeros_app x r : forallb c_isdigit x = true -> stop_dg r = true ->
  exists z, skip_zeros (x ++ r) = z ++ r /\ forallb c_isdigit z = true /\ nz z = true
            /\ aval 0 z = aval 0 x /\ (length z <= length x)%nat.
Proof.
  induction x as [|c x IH]; intros Hx Sr.
  - exists []. cbn [app]. repeat split; auto.
    destruct r as [|y r]; [reflexivity|]. simpl in Sr.
    destruct (N.eqb_spec y 48) as [->|Ne]; [discriminate|].
    cbn [skip_zeros]. destruct y as [|p]; [reflexivity|].
    do 6 (destruct p as [p|p|]; try reflexivity). congruence.
  - cbn [forallb] in Hx. apply andb_true_iff in Hx. destruct Hx as [Hc Hx].
    destruct (N.eqb_spec c 48) as [->|Ne].
    + destruct (IH Hx Sr) as (z & E & Dz & Nz & V & Lz).
      exists z. cbn [app skip_zeros]. repeat split; auto. simpl; lia.
    + exists (c :: x). repeat split; auto.
      * cbn [app skip_zeros]. destruct c as [|p]; [reflexivity|].
        do 6 (destruct p as [p|p|]; try reflexivity). congruence.
      * cbn [forallb]. now rewrite Hc, Hx.
      * simpl. now apply negb_true_iff, N.eqb_neq.
Qed.

(** * Nice strings cut into a non-digit run, a digit run and the rest *)

Lemma forallb_app_iff {A} (p : A -> bool) x y :
  forallb p (x ++ y) = true <-> forallb p x = true /\ forallb p y = true.
Proof. rewrite forallb_app. apply andb_true_iff. Qed.

Lemma forallb_and {A} (p q : A -> bool) x :
  forallb p x = true -> forallb q x = true -> forallb (fun c => p c && q c) x = true.
Proof.
  induction x as [|c x IH]; simpl; auto. intros Hp Hq.
  apply andb_true_iff in Hp. apply andb_true_iff in Hq.
  destruct Hp as [-> Hp], Hq as [-> Hq]. simpl. auto.
Qed.

Lemma forallb_impl {A} (p q : A -> bool) x :
  (forall c, p c = true -> q c = true) -> forallb p x = true -> forallb q x = true.
Proof.
  intro H. induction x as [|c x IH]; simpl; auto. intro Hp.
  apply andb_true_iff in Hp. destruct Hp as [Hc Hp]. now rewrite (H c Hc), IH.
Qed.

Record cut_facts (a : str) : Prop := {
  cf_eq : a = cut_nd a ++ (cut_dg a ++ cut_rest a);
  cf_nd : forallb ndchar (cut_nd a) = true;
  cf_stop_nd : stop_nd (cut_dg a ++ cut_rest a) = true;
  cf_dg : forallb c_isdigit (cut_dg a) = true;
  cf_stop_dg : stop_dg (cut_rest a) = true;
  cf_val : pval (cut_dg a) = aval 0 (cut_dg a);
  cf_rest : forallb nice (cut_rest a) = true }.

Lemma horner_ext dv1 dv2 x : (forall c, In c x -> dv1 c = dv2 c) ->
  forall acc, horner dv1 acc x = horner dv2 acc x.
Proof.
  induction x as [|c x IH]; intros H acc; simpl; [reflexivity|].
  rewrite (H c (or_introl eq_refl)). apply IH. intros y Hy. apply H. now right.
Qed.

Lemma nice_cut a : forallb nice a = true -> cut_facts a.
Proof.
  intro Hn.
  pose proof (cut_app a) as Eq.
  assert (Hn' := Hn). rewrite Eq in Hn'.
  apply forallb_app_iff in Hn'. destruct Hn' as [N1 N23].
  apply forallb_app_iff in N23. destruct N23 as [N2 N3].
  assert (D2 : forallb c_isdigit (cut_dg a) = true).
  { pose proof (span_all re_d (snd (span nondig a))) as H. fold (cut_dg a) in H.
    pose proof (forallb_and _ _ _ N2 H) as H'. revert H'. apply forallb_impl.
    intros c Hc. apply andb_true_iff in Hc. destruct Hc as [Hc1 Hc2].
    now rewrite <- (nice_digit c Hc1). }
  split; auto.
  - pose proof (span_all nondig a) as H. fold (cut_nd a) in H.
    pose proof (forallb_and _ _ _ N1 H) as H'. revert H'. apply forallb_impl.
    intros c Hc. apply andb_true_iff in Hc. destruct Hc as [Hc1 Hc2].
    unfold ndchar. rewrite Hc1. unfold nondig in Hc2. now rewrite <- (nice_digit c Hc1).
  - unfold cut_dg, cut_rest. rewrite span_app.
    destruct (snd (span nondig a)) as [|x r] eqn:E; [reflexivity|].
    pose proof (span_snd_head _ _ _ _ E) as Hx. unfold nondig in Hx. apply negb_false_iff in Hx.
    assert (Nx : nice x = true).
    { assert (In x a) as Hin.
      { rewrite <- (span_app nondig a), E. apply in_or_app. right. now left. }
      rewrite forallb_forall in Hn. now apply Hn. }
    simpl. now rewrite <- (nice_digit x Nx).
  - unfold cut_rest.
    destruct (snd (span re_d (snd (span nondig a)))) as [|x r] eqn:E; [reflexivity|].
    pose proof (span_snd_head _ _ _ _ E) as Hx.
    assert (Nx : nice x = true).
    { fold (cut_rest a) in E. rewrite E in N3. simpl in N3. now apply andb_true_iff in N3. }
    simpl. now rewrite <- (nice_digit x Nx), Hx.
  - unfold pval, aval. apply horner_ext. intros c Hc.
    rewrite forallb_forall in N2, D2. apply nice_val; auto.
Qed.

Lemma cut_nil : cut_nd [] = [] /\ cut_dg [] = [] /\ cut_rest [] = [].
Proof. repeat split. Qed.

Lemma pkey_hd a : hdd key_dflt (pkey a) = (cut_nd a, pval (cut_dg a)).
Proof. destruct a as [|c a]; [reflexivity|]. now rewrite pkey_unfold. Qed.

Lemma pkey_tl a : tl (pkey a) = pkey (cut_rest a).
Proof. destruct a as [|c a]; [reflexivity|]. now rewrite pkey_unfold. Qed.

Lemma pkey_nonnil a : a <> [] -> pkey a <> [].
Proof. intro H. now rewrite (pkey_unfold a H). Qed.

Lemma cut_rest_le a : (length (cut_rest a) <= length a)%nat.
Proof.
  destruct a as [|c a]; [simpl; lia|].
  pose proof (cut_rest_shorter (c :: a) ltac:(discriminate)) as H. lia.
Qed.

Lemma nice_head_nonnul a : forallb nice a = true -> a <> [] -> nonnul (peek a) = true.
Proof.
  destruct a as [|c a]; [congruence|]. simpl. intros H _.
  apply andb_true_iff in H. destruct H as [H _]. now apply nice_nonnul.
Qed.

Theorem verrevcmp_fuel_key n : forall a b fuel,
  (length a + length b <= n)%nat -> (length a + length b < fuel)%nat ->
  forallb nice a = true -> forallb nice b = true ->
  exists r, verrevcmp_fuel fuel a b = Ok r
            /\ Z.sgn r = z_of_cmp (keys_cmp (pkey a) (pkey b)).
Proof.
  induction n as [|n IH]; intros a b fuel Hn Hf Na Nb.
  - destruct a, b; simpl in Hn; try lia.
    destruct fuel; [lia|]. exists 0. split; reflexivity.
  - destruct fuel as [|f]; [lia|].
    assert (Hnil : (a = [] /\ b = []) \/ (a <> [] \/ b <> [])).
    { destruct a; [destruct b; [left; auto|right; right; discriminate]|right; left; discriminate]. }
    destruct Hnil as [[-> ->]|Hne].
    { exists 0. split; reflexivity. }
    rewrite verrevcmp_fuel_S.
    assert (Hcond : nonnul (peek a) || nonnul (peek b) = true).
    { destruct Hne as [H|H]; [rewrite (nice_head_nonnul a Na H)|rewrite (nice_head_nonnul b Nb H)];
        auto using orb_true_r. }
    rewrite Hcond.
    rewrite keys_cmp_step by (destruct Hne as [H|H]; [left|right]; now apply pkey_nonnil).
    rewrite !pkey_hd, !pkey_tl, key_cmp_unfold.
    destruct (nice_cut a Na) as [Ea NDa SNa DGa SDa Va Ra].
    destruct (nice_cut b Nb) as [Eb NDb SNb DGb SDb Vb Rb].
    assert (Hlen : (length (cut_rest a) + length (cut_rest b) < length a + length b)%nat).
    { destruct Hne as [H|H].
      - pose proof (cut_rest_shorter a H). pose proof (cut_rest_le b). lia.
      - pose proof (cut_rest_shorter b H). pose proof (cut_rest_le a). lia. }
    assert (Hla : (length (cut_nd a) <= length a)%nat).
    { rewrite Ea at 2. rewrite app_length. lia. }
    assert (Hlb : (length (cut_nd b) <= length b)%nat).
    { rewrite Eb at 2. rewrite app_length. lia. }
    pose proof (nondigit_loop_spec (cut_nd a) (cut_nd b) _ _ (S (length a + length b))
                  NDa NDb SNa SNb ltac:(lia)) as HL.
    rewrite <- Ea, <- Eb in HL.
    destruct (ord_cmp (cut_nd a) (cut_nd b)).
    + rewrite HL.
      destruct (skip_zeros_app _ _ DGa SDa) as (za & Eza & Dza & Nza & Vza & Lza).
      destruct (skip_zeros_app _ _ DGb SDb) as (zb & Ezb & Dzb & Nzb & Vzb & Lzb).
      rewrite Eza, Ezb.
      pose proof (digit_phase za zb (cut_rest a) (cut_rest b) 0 0%N 0%N
                    (S (length (za ++ cut_rest a) + length (zb ++ cut_rest b)))
                    (verrevcmp_fuel f) Dza Dzb SDa SDb
                    ltac:(rewrite !app_length; lia) eq_refl
                    ltac:(right; auto)) as HD.
      rewrite Vza, Vzb, <- Va, <- Vb in HD.
      destruct (N.compare (pval (cut_dg a)) (pval (cut_dg b))).
      * rewrite HD. apply IH; auto; lia.
      * destruct HD as (r & -> & Hr). exists r. split; auto. now apply Z.sgn_neg_iff.
      * destruct HD as (r & -> & Hr). exists r. split; auto. now apply Z.sgn_pos_iff.
    + destruct HL as (r & -> & Hr). exists r. split; auto. now apply Z.sgn_neg_iff.
    + destruct HL as (r & -> & Hr). exists r. split; auto. now apply Z.sgn_pos_iff.
Qed.

Theorem verrevcmp_key a b : forallb nice a = true -> forallb nice b = true ->
  exists r, verrevcmp a b = Ok r /\ Z.sgn r = z_of_cmp (keys_cmp (pkey a) (pkey b)).
Proof.
  intros Na Nb. unfold verrevcmp. apply (verrevcmp_fuel_key (length a + length b)); auto.
Qed.
