(** Primitives that the regenerated control flow of the version comparison (Gen/TrVersionCmp.v) calls:
    the regex leaves and [int()] of debian_support.NativeVersion, in terms of the hand-written model
    (Version/Compare.v).  The pattern texts are asserted by the translator spec (harness/props/c03.py):
    a changed pattern fails the translation closed. *)
From Verif Require Import Lib.Base Lib.Dec Lib.PyStr Gen.PyChars Version.Parse Version.Compare.

(** [re_digit.match(x)] for a one-character string: pattern \d *)
Definition trp_re_digit_char (c : N) : bool := re_d c.
(** [re_alpha.match(x)]: pattern [A-Za-z] *)
Definition trp_re_alpha_char (c : N) : bool := re_alpha c.
(** [int(x)] for a one-character string *)
Definition trp_int_char (c : N) : result Z :=
  if re_d c then Ok (Z.of_N (nd_val c)) else Err ValueError.
(** [re_all_digits_or_not.findall(s)]: pattern \d+|\D+ *)
Definition trp_findall_chunks (s : str) : list str := py_chunks s.
(** [re_digits.match(a)]: pattern \d+ *)
Definition trp_re_digits (a : str) : bool := starts_digit a.
(** [int(a)] on a string *)
Definition trp_int_str (a : str) : result Z := py_int a.
