(** Independent reference for C03: dpkg's version comparison, transcribed from
    lib/dpkg/version.c ([order], [verrevcmp], [dpkg_version_compare]) and the
    splitting done by lib/dpkg/parsehelp.c ([parseversion]) onto character lists.
    A C string is a [list N] without NUL; [*p] at the end reads NUL = 0.
    Nothing here mentions the Python model. *)
From Verif Require Import Lib.Base.
Local Open Scope Z_scope.

Definition c_isdigit (c : N) : bool := (48 <=? c)%N && (c <=? 57)%N.
Definition c_isalpha (c : N) : bool :=
  ((65 <=? c)%N && (c <=? 90)%N) || ((97 <=? c)%N && (c <=? 122)%N).

(** [*p] *)
Definition peek (s : list N) : N := match s with [] => 0%N | c :: _ => c end.
(** [p++] *)
Definition adv (s : list N) : list N := match s with [] => [] | _ :: s' => s' end.

(**
<<
static int order(int c)
{
    if (c_isdigit(c)) return 0;
    else if (c_isalpha(c)) return c;
    else if (c == '~') return -1;
    else if (c) return c + 256;
    else return 0;
}
>> *)
Definition order (c : N) : Z :=
  if c_isdigit c then 0
  else if c_isalpha c then Z.of_N c
  else if (c =? 126)%N then -1
  else if negb (c =? 0)%N then Z.of_N c + 256
  else 0.

(** The three inner loops and the outer loop of
<<
static int verrevcmp(const char *a, const char *b)
{
    if (a == NULL) a = "";
    if (b == NULL) b = "";
    while ( *a || *b) {
        int first_diff = 0;
        while (( *a && !c_isdigit( *a)) || ( *b && !c_isdigit( *b))) {
            int ac = order( *a);
            int bc = order( *b);
            if (ac != bc) return ac - bc;
            a++; b++;
        }
        while ( *a == '0') a++;
        while ( *b == '0') b++;
        while (c_isdigit( *a) && c_isdigit( *b)) {
            if (!first_diff) first_diff = *a - *b;
            a++; b++;
        }
        if (c_isdigit( *a)) return 1;
        if (c_isdigit( *b)) return -1;
        if (first_diff) return first_diff;
    }
    return 0;
}
>> *)

Inductive loop1 :=
| L1Return (rc : Z)
| L1Next (a b : list N)
| L1Fuel.

Definition nonnul (c : N) : bool := negb (c =? 0)%N.

Fixpoint nondigit_loop (fuel : nat) (a b : list N) : loop1 :=
  match fuel with
  | O => L1Fuel
  | S fuel =>
      if (nonnul (peek a) && negb (c_isdigit (peek a)))
         || (nonnul (peek b) && negb (c_isdigit (peek b)))
      then
        let ac := order (peek a) in
        let bc := order (peek b) in
        if negb (ac =? bc) then L1Return (ac - bc)
        else nondigit_loop fuel (adv a) (adv b)
      else L1Next a b
  end.

(** [while ( *a == '0') a++;]  *)
Fixpoint skip_zeros (a : list N) : list N :=
  match a with
  | 48%N :: a' => skip_zeros a'
  | _ => a
  end.

(** The digit loop; returns the pointers and [first_diff]. *)
Fixpoint digit_loop (fuel : nat) (a b : list N) (first_diff : Z) : option (list N * list N * Z) :=
  match fuel with
  | O => None
  | S fuel =>
      if c_isdigit (peek a) && c_isdigit (peek b) then
        let fd := if first_diff =? 0 then Z.of_N (peek a) - Z.of_N (peek b) else first_diff in
        digit_loop fuel (adv a) (adv b) fd
      else Some (a, b, first_diff)
  end.

Fixpoint verrevcmp_fuel (fuel : nat) (a b : list N) : result Z :=
  match fuel with
  | O => Err OutOfFuel
  | S fuel =>
      if nonnul (peek a) || nonnul (peek b) then
        match nondigit_loop (S (length a + length b)) a b with
        | L1Fuel => Err OutOfFuel
        | L1Return rc => Ok rc
        | L1Next a b =>
            let a := skip_zeros a in
            let b := skip_zeros b in
            match digit_loop (S (length a + length b)) a b 0 with
            | None => Err OutOfFuel
            | Some (a, b, first_diff) =>
                if c_isdigit (peek a) then Ok 1
                else if c_isdigit (peek b) then Ok (-1)
                else if negb (first_diff =? 0) then Ok first_diff
                else verrevcmp_fuel fuel a b
            end
        end
      else Ok 0
  end.

Definition verrevcmp (a b : list N) : result Z :=
  verrevcmp_fuel (S (length a + length b)) a b.

(** [struct dpkg_version] *)
Record dpkg_version := mkDV { dv_epoch : N; dv_version : list N; dv_revision : list N }.

(**
<<
int dpkg_version_compare(const struct dpkg_version *a, const struct dpkg_version *b)
{
    int rc;
    if (a->epoch > b->epoch) return 1;
    if (a->epoch < b->epoch) return -1;
    rc = verrevcmp(a->version, b->version);
    if (rc) return rc;
    return verrevcmp(a->revision, b->revision);
}
>> *)
Definition dpkg_version_compare (a b : dpkg_version) : result Z :=
  if (dv_epoch b <? dv_epoch a)%N then Ok 1
  else if (dv_epoch a <? dv_epoch b)%N then Ok (-1)
  else
    do rc <- verrevcmp (dv_version a) (dv_version b);
    if negb (rc =? 0) then Ok rc
    else verrevcmp (dv_revision a) (dv_revision b).

(** * Splitting a version string (parseversion)

    epoch = the number before the FIRST colon (0 when there is no colon);
    revision = what follows the LAST hyphen of the remainder ("" when there is
    none); version = the rest.  [strtol] on a non-empty digit string. *)

Fixpoint strchr (c : N) (s : list N) : option (list N * list N) :=   (* before, after *)
  match s with
  | [] => None
  | x :: s' =>
      if (x =? c)%N then Some ([], s')
      else match strchr c s' with
           | Some (p, q) => Some (x :: p, q)
           | None => None
           end
  end.

Fixpoint strrchr (c : N) (s : list N) : option (list N * list N) :=
  match s with
  | [] => None
  | x :: s' =>
      match strrchr c s' with
      | Some (p, q) => Some (x :: p, q)
      | None => if (x =? c)%N then Some ([], s') else None
      end
  end.

Fixpoint strtol_digits (acc : N) (s : list N) : N :=
  match s with
  | [] => acc
  | c :: s' => strtol_digits (acc * 10 + (c - 48))%N s'
  end.

(** Returns None where dpkg reports an error that concerns the splitting
    (empty or non-numeric epoch, nothing after the colon, empty revision, empty
    version); the character checks are C14's subject ([valid_spec]). *)
Definition dpkg_parse (s : list N) : option dpkg_version :=
  let split_rev (epoch : N) (rest : list N) :=
    match strrchr 45 rest with
    | Some (v, r) =>
        match r, v with
        | [], _ => None
        | _, [] => None
        | _, _ => Some (mkDV epoch v r)
        end
    | None => match rest with [] => None | _ => Some (mkDV epoch rest []) end
    end in
  match strchr 58 s with
  | Some (e, rest) =>
      match e, rest with
      | [], _ => None
      | _, [] => None
      | _, _ => if forallb c_isdigit e then split_rev (strtol_digits 0 e) rest else None
      end
  | None => split_rev 0%N s
  end.

Definition sgn (z : Z) : Z := Z.sgn z.

(** The reference order on version strings: sign of dpkg's comparison. *)
Definition dpkg_compare (a b : list N) : option Z :=
  match dpkg_parse a, dpkg_parse b with
  | Some va, Some vb =>
      match dpkg_version_compare va vb with
      | Ok rc => Some (sgn rc)
      | Err _ => None
      end
  | _, _ => None
  end.
