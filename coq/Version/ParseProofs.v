(** Proofs for C14: the model of BaseVersion (Parse.v) against the Policy grammar
    (ParseSpec.v).

    Part 1  the character classes of the generated table are the Policy classes
            (these lemmas are the only place where Gen/VersionConsts.v is looked at:
            a widened class or a [$] anchor in the source breaks exactly them)
    Part 2  cutting at the first / last occurrence of a character
    Part 3  the regex leaf: [tail_ok], [match_up] (lazy), [match_version]
    Part 4  [set_full s] = the grammar's decomposition of [s]   (set_full_spec)
    Part 5  the grammar: decision procedure vs declarative form, uniqueness
    Part 6  [setattr]: recomposed version or ValueError and the same state
    Part 7  sequences of assignments; the property checked by ParseCheck.holds *)
From Coq Require Import String.
From Coq Require Import Lia ZifyBool.
From Verif Require Import Lib.Base Lib.Dec Lib.PyStr Gen.PyChars Gen.VersionConsts
  Version.Parse Version.ParseSpec.

Local Arguments mem_char : simpl never.

(** * Part 1: character classes *)

Lemma epoch_class c : is_epoch_char c = is_digit09 c.
Proof.
  unfold is_epoch_char, is_digit09, in_ranges, ver_epoch_unicode_d, ver_epoch_ranges.
  cbn [existsb fst snd]. lia.
Qed.

Lemma up_class c : is_up_char c = policy_upstream_char true true c.
Proof.
  unfold is_up_char, policy_upstream_char, policy_upstream_base, is_alnum, is_digit09,
    in_ranges, ver_upstream_ranges, COLON, HYPHEN.
  cbn [existsb fst snd andb]. lia.
Qed.

Lemma rev_class c : is_rev_char c = policy_revision_char c.
Proof.
  unfold is_rev_char, policy_revision_char, is_alnum, is_digit09, in_ranges, ver_revision_ranges.
  cbn [existsb fst snd]. lia.
Qed.

Lemma end_class t : at_end t = is_nil t.
Proof.
  destruct t as [|c [|d t]]; try reflexivity.
  unfold at_end, ver_end_dollar. now rewrite andb_false_r.
Qed.

(** what the rest of the file uses about the Policy classes *)
Lemma digit_not_colon c : is_digit09 c = true -> (COLON =? c)%N = false.
Proof. unfold is_digit09, COLON. lia. Qed.

Lemma rev_not_colon c : policy_revision_char c = true -> (COLON =? c)%N = false.
Proof. unfold policy_revision_char, is_alnum, is_digit09, COLON. lia. Qed.

Lemma rev_not_hyphen c : policy_revision_char c = true -> (HYPHEN =? c)%N = false.
Proof. unfold policy_revision_char, is_alnum, is_digit09, HYPHEN. lia. Qed.

Lemma up_char_split co hy c :
  policy_upstream_char co hy c
  = policy_upstream_char true true c && (co || negb (COLON =? c)%N) && (hy || negb (HYPHEN =? c)%N).
Proof.
  unfold policy_upstream_char, policy_upstream_base, is_alnum, is_digit09, COLON, HYPHEN.
  destruct co, hy; cbn [andb orb]; lia.
Qed.

(** * Generic list facts *)

Lemma forallb_eq {A} (p q : A -> bool) l : (forall x, p x = q x) -> forallb p l = forallb q l.
Proof. intros H. induction l as [|x l IH]; cbn; [reflexivity|]. now rewrite H, IH. Qed.

Lemma mem_char_app c a b : mem_char c (a ++ b) = mem_char c a || mem_char c b.
Proof. unfold mem_char. apply existsb_app. Qed.

Lemma mem_char_cons c x s : mem_char c (x :: s) = (c =? x)%N || mem_char c s.
Proof. reflexivity. Qed.

Lemma forallb_not_mem (p : N -> bool) c s :
  (forall x, p x = true -> (c =? x)%N = false) -> forallb p s = true -> mem_char c s = false.
Proof.
  intros H. induction s as [|x s IH]; cbn [forallb]; [reflexivity|].
  intros Hs. apply andb_true_iff in Hs. destruct Hs as [Hx Hs].
  now rewrite mem_char_cons, (H _ Hx), IH.
Qed.

Lemma up_forall_split co hy u :
  forallb (policy_upstream_char co hy) u
  = forallb is_up_char u && (co || negb (mem_char COLON u)) && (hy || negb (mem_char HYPHEN u)).
Proof.
  induction u as [|c u IH]; cbn [forallb].
  - destruct co, hy; reflexivity.
  - rewrite IH, (up_char_split co hy c), up_class, !mem_char_cons.
    destruct (policy_upstream_char true true c), (forallb is_up_char u), co, hy,
      (COLON =? c)%N, (HYPHEN =? c)%N, (mem_char COLON u), (mem_char HYPHEN u); reflexivity.
Qed.

Lemma nonempty_is_nil {A} (l : list A) : negb (is_nil l) = nonempty l.
Proof. now destruct l. Qed.

Lemma span_snd_nil {A} (p : A -> bool) s : is_nil (snd (span p s)) = forallb p s.
Proof.
  induction s as [|c s IH]; cbn; [reflexivity|].
  destruct (p c); [|reflexivity]. destruct (span p s); cbn in *. exact IH.
Qed.

(** * Part 2: cutting at the first / last occurrence *)

Lemma cut_first_some c s a b :
  cut_first c s = Some (a, b) -> s = a ++ c :: b /\ mem_char c a = false.
Proof.
  revert a b. induction s as [|x s IH]; cbn; intros a b H; [discriminate|].
  destruct (x =? c)%N eqn:E.
  - injection H as <- <-. apply N.eqb_eq in E. subst. now split.
  - destruct (cut_first c s) as [[p q]|]; [|discriminate]. injection H as <- <-.
    destruct (IH p q eq_refl) as [-> Hp]. split; [reflexivity|].
    rewrite mem_char_cons, Hp, N.eqb_sym, E. reflexivity.
Qed.

Lemma cut_first_none c s : cut_first c s = None -> mem_char c s = false.
Proof.
  induction s as [|x s IH]; cbn; [reflexivity|].
  destruct (x =? c)%N eqn:E; [discriminate|].
  destruct (cut_first c s) as [[p q]|]; [discriminate|]. intros _.
  now rewrite mem_char_cons, N.eqb_sym, E, IH.
Qed.

Lemma cut_first_app c a b : mem_char c a = false -> cut_first c (a ++ c :: b) = Some (a, b).
Proof.
  induction a as [|x a IH]; cbn.
  - intros _. now rewrite N.eqb_refl.
  - intros H. rewrite mem_char_cons in H. apply orb_false_iff in H. destruct H as [Hx Ha].
    rewrite N.eqb_sym, Hx, (IH Ha). reflexivity.
Qed.

Lemma cut_first_not_mem c s : mem_char c s = false -> cut_first c s = None.
Proof.
  induction s as [|x s IH]; cbn; [reflexivity|].
  intros H. rewrite mem_char_cons in H. apply orb_false_iff in H. destruct H as [Hx Hs].
  now rewrite N.eqb_sym, Hx, (IH Hs).
Qed.

Lemma cut_last_some c s a b :
  cut_last c s = Some (a, b) -> s = a ++ c :: b /\ mem_char c b = false.
Proof.
  revert a b. induction s as [|x s IH]; cbn; intros a b H; [discriminate|].
  destruct (cut_last c s) as [[p q]|] eqn:Hc.
  - injection H as <- <-. destruct (IH p q eq_refl) as [-> Hq]. now split.
  - destruct (x =? c)%N eqn:E; [|discriminate]. injection H as <- <-.
    apply N.eqb_eq in E. subst x. split; [reflexivity|].
    clear IH. induction s as [|y s IHs]; [reflexivity|].
    cbn in Hc. destruct (cut_last c s) as [[p q]|]; [discriminate|].
    destruct (y =? c)%N eqn:Ey; [discriminate|].
    rewrite mem_char_cons, N.eqb_sym, Ey. now apply IHs.
Qed.

Lemma cut_last_none c s : cut_last c s = None -> mem_char c s = false.
Proof.
  induction s as [|x s IH]; cbn; [reflexivity|].
  destruct (cut_last c s) as [[p q]|]; [discriminate|].
  destruct (x =? c)%N eqn:E; [discriminate|]. intros _.
  now rewrite mem_char_cons, N.eqb_sym, E, IH.
Qed.

Lemma cut_last_not_mem c s : mem_char c s = false -> cut_last c s = None.
Proof.
  induction s as [|x s IH]; cbn; [reflexivity|].
  intros H. rewrite mem_char_cons in H. apply orb_false_iff in H. destruct H as [Hx Hs].
  now rewrite (IH Hs), N.eqb_sym, Hx.
Qed.

Lemma cut_last_app c a b : mem_char c b = false -> cut_last c (a ++ c :: b) = Some (a, b).
Proof.
  intros Hb. induction a as [|x a IH]; cbn.
  - now rewrite (cut_last_not_mem _ _ Hb), N.eqb_refl.
  - now rewrite IH.
Qed.

(** * Part 3: the regex leaf *)

(** [(-(R+))?\Z] at [t]: nothing left, or a hyphen and a non-empty all-R remainder *)
Lemma tail_ok_eq t :
  tail_ok t = match t with
              | [] => Some None
              | c :: r => if (c =? HYPHEN)%N && nonempty r && forallb is_rev_char r
                          then Some (Some r) else None
              end.
Proof.
  destruct t as [|c t]; [reflexivity|].
  unfold tail_ok. rewrite (end_class (c :: t)). cbn [is_nil].
  change (c =? 45)%N with (c =? HYPHEN)%N.
  destruct (c =? HYPHEN)%N; [|reflexivity]. cbn [andb].
  destruct (forallb is_rev_char t) eqn:Hall.
  - rewrite (span_forall_nil _ _ Hall), end_class, nonempty_is_nil. cbn [is_nil].
    rewrite !andb_true_r. now destruct (nonempty t).
  - pose proof (span_snd_nil is_rev_char t) as Hs. rewrite Hall in Hs.
    destruct (span is_rev_char t) as [r rest]. cbn [snd] in Hs.
    rewrite end_class, Hs, !andb_false_r. reflexivity.
Qed.

Definition rev_cond (u r : str) : bool :=
  nonempty u && forallb is_up_char u && nonempty r && forallb is_rev_char r.

(** what the lazy upstream group followed by the optional revision group finds:
    a cut at the LAST hyphen when both sides are well-formed, else all of [t] *)
Definition up_split (t : str) : option (str * option str) :=
  match cut_last HYPHEN t with
  | Some (u, r) =>
      if rev_cond u r then Some (u, Some r)
      else if forallb is_up_char t then Some (t, None) else None
  | None => if nonempty t && forallb is_up_char t then Some (t, None) else None
  end.

Lemma rev_no_hyphen r : forallb is_rev_char r = true -> mem_char HYPHEN r = false.
Proof.
  apply forallb_not_mem. intros x Hx. rewrite rev_class in Hx. now apply rev_not_hyphen.
Qed.

Lemma rev_no_colon r : forallb is_rev_char r = true -> mem_char COLON r = false.
Proof.
  apply forallb_not_mem. intros x Hx. rewrite rev_class in Hx. now apply rev_not_colon.
Qed.

Lemma match_up_eq t : match_up t = up_split t.
Proof.
  induction t as [|c t IH]; [reflexivity|].
  cbn [match_up]. rewrite IH, tail_ok_eq. clear IH.
  unfold up_split. cbn [cut_last].
  destruct (is_up_char c) eqn:Hc.
  2:{ destruct (cut_last HYPHEN t) as [[p q]|].
      - unfold rev_cond. cbn [forallb nonempty]. rewrite Hc. reflexivity.
      - destruct (c =? HYPHEN)%N; unfold rev_cond; cbn [forallb nonempty andb]; rewrite Hc; reflexivity. }
  destruct t as [|d t].
  - cbn [cut_last]. destruct (c =? HYPHEN)%N; unfold rev_cond; cbn [forallb nonempty andb];
      rewrite Hc; reflexivity.
  - destruct ((d =? HYPHEN)%N && nonempty t && forallb is_rev_char t) eqn:Htail.
    + apply andb_true_iff in Htail. destruct Htail as [Htail Hall].
      apply andb_true_iff in Htail. destruct Htail as [Hd Hne].
      cbn [cut_last]. rewrite (cut_last_not_mem _ _ (rev_no_hyphen _ Hall)), Hd.
      unfold rev_cond. cbn [forallb nonempty andb]. now rewrite Hc, Hne, Hall.
    + destruct (cut_last HYPHEN (d :: t)) as [[p q]|] eqn:Hcl.
      * destruct (rev_cond p q) eqn:Hrc.
        -- unfold rev_cond in *. cbn [forallb nonempty andb]. rewrite Hc. cbn [andb].
           destruct p as [|p0 p]; [discriminate|]. cbn [nonempty andb] in Hrc. now rewrite Hrc.
        -- assert (rev_cond (c :: p) q = false) as ->.
           { unfold rev_cond in *. cbn [forallb nonempty andb]. rewrite Hc. cbn [andb].
             destruct p as [|p0 p]; [|exact Hrc].
             apply cut_last_some in Hcl. destruct Hcl as [Hcl _]. cbn [app] in Hcl.
             injection Hcl as -> ->. rewrite N.eqb_refl in Htail. cbn [forallb andb] in *.
             exact Htail. }
           cbn [forallb]. rewrite Hc. cbn [andb].
           destruct (is_up_char d && forallb is_up_char t); reflexivity.
      * cbn [nonempty andb]. destruct (c =? HYPHEN)%N.
        -- unfold rev_cond. cbn [nonempty andb]. cbn [forallb]. rewrite Hc. cbn [andb].
           destruct (is_up_char d && forallb is_up_char t); reflexivity.
        -- cbn [forallb]. rewrite Hc. cbn [andb].
           destruct (is_up_char d && forallb is_up_char t); reflexivity.
Qed.

(** * Part 4: construction = the grammar's decomposition *)

Definition lift_up (e : option str) (m : option (str * option str))
  : option (option str * str * option str) :=
  match m with Some (u, r) => Some (e, u, r) | None => None end.

(** the body of [_set_full_version] after the match *)
Definition finish (s : str) (m : option (option str * str * option str)) : result vstate :=
  match m with
  | None => Err ValueError
  | Some (e, u, r) =>
      if is_none e && mem_char 58 u then Err ValueError
      else if is_none r && mem_char 45 u then Err ValueError
      else Ok (mkV s e (Some u) r)
  end.

Lemma set_full_finish s : set_full s = finish s (match_version s).
Proof. reflexivity. Qed.

Definition to_result (s : str) (o : option (option str * str * option str)) : result vstate :=
  match o with
  | Some (e, u, r) => Ok (mkV s e (Some u) r)
  | None => Err ValueError
  end.

(** the grammar after the epoch has been cut off *)
Definition rest_decompose (e : option str) (t : str) : option (option str * str * option str) :=
  match cut_last HYPHEN t with
  | Some (u, r) => if components_ok e u (Some r) then Some (e, u, Some r) else None
  | None => if components_ok e t None then Some (e, t, None) else None
  end.

Lemma spec_decompose_rest s :
  spec_decompose s = match cut_first COLON s with
                     | Some (e, rest) => rest_decompose (Some e) rest
                     | None => rest_decompose None s
                     end.
Proof.
  unfold spec_decompose, spec_split, rest_decompose.
  destruct (cut_first COLON s) as [[e rest]|].
  - destruct (cut_last HYPHEN rest) as [[u r]|]; reflexivity.
  - destruct (cut_last HYPHEN s) as [[u r]|]; reflexivity.
Qed.

Definition epoch_ok (e : option str) : bool :=
  match e with Some e => nonempty e && forallb is_digit09 e | None => true end.

(** without an epoch group, a string with a colon is always refused *)
Lemma without_colon s t :
  mem_char COLON t = true -> finish s (lift_up None (match_up t)) = Err ValueError.
Proof.
  intros Hm. rewrite match_up_eq. unfold up_split.
  destruct (cut_last HYPHEN t) as [[u r]|] eqn:Hcl.
  - destruct (rev_cond u r) eqn:Hrc.
    + cbn [lift_up finish is_none andb].
      apply cut_last_some in Hcl. destruct Hcl as [-> _].
      unfold rev_cond in Hrc. apply andb_true_iff in Hrc. destruct Hrc as [_ Hr].
      rewrite mem_char_app, mem_char_cons, (rev_no_colon _ Hr) in Hm.
      change (COLON =? HYPHEN)%N with false in Hm. rewrite orb_false_r in Hm. cbn [orb] in Hm.
      change 58%N with COLON. now rewrite Hm.
    + destruct (forallb is_up_char t); [|reflexivity].
      cbn [lift_up finish is_none andb]. change 58%N with COLON. now rewrite Hm.
  - destruct (nonempty t && forallb is_up_char t); [|reflexivity].
    cbn [lift_up finish is_none andb]. change 58%N with COLON. now rewrite Hm.
Qed.

Lemma with_rest e s t :
  epoch_ok e = true -> (e = None -> mem_char COLON t = false) ->
  finish s (lift_up e (match_up t)) = to_result s (rest_decompose e t).
Proof.
  intros He Hcolon. rewrite match_up_eq. unfold up_split, rest_decompose.
  assert (Hrule1 : forall u, mem_char COLON u = false \/ is_some e = true ->
                             is_none e && mem_char 58 u = false).
  { intros u [H|H]; [change 58%N with COLON; rewrite H; apply andb_false_r|].
    destruct e; [reflexivity|discriminate]. }
  destruct (cut_last HYPHEN t) as [[u r]|] eqn:Hcl.
  - apply cut_last_some in Hcl. destruct Hcl as [Ht Hr].
    assert (Hcu : is_some e || negb (mem_char COLON u) = true).
    { destruct e; [reflexivity|]. cbn [is_some orb]. rewrite Ht, mem_char_app in Hcolon.
      destruct (mem_char COLON u); [|reflexivity]. now specialize (Hcolon eq_refl). }
    assert (Hco : components_ok e u (Some r) = rev_cond u r).
    { unfold components_ok, rev_cond. fold (epoch_ok e). rewrite He. cbn [andb is_some].
      rewrite up_forall_split, Hcu. cbn [orb]. rewrite !andb_true_r.
      rewrite (forallb_eq _ _ r rev_class). now rewrite !andb_assoc. }
    rewrite Hco. destruct (rev_cond u r) eqn:Hrc.
    + cbn [lift_up finish to_result]. rewrite Hrule1.
      * reflexivity.
      * destruct e; [now right|left]. cbn [is_some orb] in Hcu. now destruct (mem_char COLON u).
    + assert (Hh : mem_char 45 t = true).
      { rewrite Ht, mem_char_app, mem_char_cons. change (45 =? HYPHEN)%N with true.
        now rewrite orb_true_r. }
      destruct (forallb is_up_char t); [|reflexivity].
      cbn [lift_up finish to_result is_none andb]. rewrite Hh.
      now destruct (is_none e && mem_char 58 t).
  - apply cut_last_none in Hcl.
    assert (Hco : components_ok e t None = nonempty t && forallb is_up_char t).
    { unfold components_ok. fold (epoch_ok e). rewrite He. cbn [andb is_some].
      rewrite up_forall_split, Hcl. cbn [orb negb]. rewrite !andb_true_r.
      destruct e; cbn [is_some orb]; [now rewrite andb_true_r|].
      rewrite (Hcolon eq_refl). cbn [negb]. now rewrite andb_true_r. }
    rewrite Hco. destruct (nonempty t && forallb is_up_char t); [|reflexivity].
    cbn [lift_up finish to_result is_none andb]. change 45%N with HYPHEN. rewrite Hcl.
    rewrite Hrule1; [reflexivity|].
    destruct e; [now right|left; now apply Hcolon].
Qed.

Lemma to_result_inj s o1 o2 : to_result s o1 = to_result s o2 -> o1 = o2.
Proof.
  destruct o1 as [[[e1 u1] r1]|], o2 as [[[e2 u2] r2]|]; cbn; intros H; try discriminate; [|reflexivity].
  now injection H as -> -> ->.
Qed.

(** THE LINK: [_set_full_version(s)] succeeds exactly on the strings the grammar
    accepts, and stores exactly the grammar's decomposition. *)
Theorem set_full_spec s : set_full s = to_result s (spec_decompose s).
Proof.
  rewrite set_full_finish, spec_decompose_rest.
  destruct (cut_first COLON s) as [[e rest]|] eqn:Hcf.
  - apply cut_first_some in Hcf. destruct Hcf as [Hs He].
    assert (Hcolon : mem_char COLON s = true).
    { rewrite Hs, mem_char_app, mem_char_cons, N.eqb_refl. now rewrite orb_true_r. }
    assert (Hwithout : forall m, m = lift_up None (match_up s) -> finish s m = to_result s None).
    { intros m ->. now apply without_colon. }
    destruct (nonempty e && forallb is_digit09 e) eqn:Hd.
    + (* a well-formed epoch: the epoch group takes it *)
      assert (Hsp : span is_epoch_char s = (e, COLON :: rest)).
      { rewrite Hs. apply span_forall_app.
        - apply andb_true_iff in Hd. destruct Hd as [_ Hd].
          now rewrite (forallb_eq _ _ e epoch_class).
        - reflexivity. }
      pose proof (with_rest (Some e) s rest Hd (fun H => ltac:(discriminate))) as Hw.
      unfold match_version. rewrite Hsp.
      apply andb_true_iff in Hd. destruct Hd as [Hne _].
      destruct e as [|e0 e]; [discriminate|].
      change (COLON =? 58)%N with true. cbv iota.
      destruct (match_up rest) as [[u r]|] eqn:Hm.
      * exact Hw.
      * cbn [lift_up finish] in Hw. change (Err ValueError) with (to_result s None) in Hw.
        apply to_result_inj in Hw. rewrite <- Hw. now apply Hwithout.
    + (* the part before the first colon is not an epoch *)
      assert (Hrd : rest_decompose (Some e) rest = None).
      { unfold rest_decompose, components_ok. rewrite Hd. cbn [andb].
        destruct (cut_last HYPHEN rest) as [[u r]|]; reflexivity. }
      rewrite Hrd. apply Hwithout.
      unfold match_version.
      destruct (span is_epoch_char s) as [d rs] eqn:Hsp.
      destruct d as [|d0 d]; [reflexivity|]. destruct rs as [|c rs]; [reflexivity|].
      destruct (c =? 58)%N eqn:Hc; [|reflexivity]. exfalso.
      apply N.eqb_eq in Hc. subst c.
      pose proof (span_app is_epoch_char s) as Happ. pose proof (span_all is_epoch_char s) as Hall.
      rewrite Hsp in Happ, Hall. cbn [fst snd] in Happ, Hall.
      assert (Hnc : mem_char COLON (d0 :: d) = false).
      { apply (forallb_not_mem is_epoch_char); [|exact Hall].
        intros x Hx. rewrite epoch_class in Hx. now apply digit_not_colon. }
      pose proof (cut_first_app COLON _ rs Hnc) as Hcf. change 58%N with COLON in Happ.
      rewrite Happ, Hs in Hcf. rewrite (cut_first_app _ _ _ He) in Hcf.
      injection Hcf as -> _. rewrite (forallb_eq _ _ _ epoch_class) in Hall.
      cbn [nonempty andb] in Hd. congruence.
  - (* no colon at all *)
    apply cut_first_none in Hcf.
    rewrite <- (with_rest None s s eq_refl (fun _ => Hcf)). f_equal.
    unfold match_version.
    destruct (span is_epoch_char s) as [d rs] eqn:Hsp.
    destruct d as [|d0 d]; [reflexivity|]. destruct rs as [|c rs]; [reflexivity|].
    destruct (c =? 58)%N eqn:Hc; [|reflexivity]. exfalso.
    apply N.eqb_eq in Hc. subst c.
    pose proof (span_app is_epoch_char s) as Happ. rewrite Hsp in Happ. cbn [fst snd] in Happ.
    rewrite <- Happ, mem_char_app, mem_char_cons in Hcf. change (COLON =? 58)%N with true in Hcf.
    now rewrite orb_true_r in Hcf.
Qed.

Corollary version_new_spec s : version_new (VStr s) = to_result s (spec_decompose s).
Proof. exact (set_full_spec s). Qed.

Theorem accepts_iff_valid s : is_ok (version_new (VStr s)) = valid_spec s.
Proof.
  rewrite version_new_spec. unfold valid_spec.
  now destruct (spec_decompose s) as [[[e u] r]|].
Qed.

Theorem rejects_with_ValueError s e : version_new (VStr s) = Err e -> e = ValueError.
Proof.
  rewrite version_new_spec. destruct (spec_decompose s) as [[[e' u] r]|]; cbn; congruence.
Qed.

(** * Part 5: the grammar — decision procedure, declarative form, uniqueness *)

Lemma spec_decompose_sound s e u r :
  spec_decompose s = Some (e, u, r) -> s = recompose e u r /\ components_ok e u r = true.
Proof.
  unfold spec_decompose, spec_split.
  destruct (cut_first COLON s) as [[e0 rest]|] eqn:Hcf.
  - apply cut_first_some in Hcf. destruct Hcf as [-> _].
    destruct (cut_last HYPHEN rest) as [[u0 r0]|] eqn:Hcl.
    + apply cut_last_some in Hcl. destruct Hcl as [-> _].
      destruct (components_ok (Some e0) u0 (Some r0)) eqn:Hok; [|discriminate].
      intros [= <- <- <-]. split; [|exact Hok]. unfold recompose. now rewrite <- app_assoc.
    + destruct (components_ok (Some e0) rest None) eqn:Hok; [|discriminate].
      intros [= <- <- <-]. split; [|exact Hok]. unfold recompose. now rewrite <- app_assoc, app_nil_r.
  - destruct (cut_last HYPHEN s) as [[u0 r0]|] eqn:Hcl.
    + apply cut_last_some in Hcl. destruct Hcl as [-> _].
      destruct (components_ok None u0 (Some r0)) eqn:Hok; [|discriminate].
      intros [= <- <- <-]. now split.
    + destruct (components_ok None s None) eqn:Hok; [|discriminate].
      intros [= <- <- <-]. split; [|exact Hok]. unfold recompose. now rewrite app_nil_r.
Qed.

Lemma components_ok_parts e u r :
  components_ok e u r = true ->
  epoch_ok e = true /\ nonempty u = true
  /\ forallb is_up_char u = true
  /\ (is_some e || negb (mem_char COLON u)) = true
  /\ (is_some r || negb (mem_char HYPHEN u)) = true
  /\ match r with Some r => nonempty r = true /\ forallb is_rev_char r = true | None => True end.
Proof.
  unfold components_ok. fold (epoch_ok e). rewrite up_forall_split. intros H.
  apply andb_true_iff in H. destruct H as [H Hr].
  apply andb_true_iff in H. destruct H as [H Hup].
  apply andb_true_iff in H. destruct H as [He Hu].
  apply andb_true_iff in Hup. destruct Hup as [Hup Hh].
  apply andb_true_iff in Hup. destruct Hup as [Hup Hc].
  repeat split; try assumption.
  destruct r as [r|]; [|exact I]. apply andb_true_iff in Hr. destruct Hr as [Hn Hr].
  split; [exact Hn|]. now rewrite (forallb_eq _ _ r rev_class).
Qed.

(** a triple of well-formed components is what its recomposition decomposes to *)
Lemma spec_decompose_complete e u r :
  components_ok e u r = true -> spec_decompose (recompose e u r) = Some (e, u, r).
Proof.
  intros Hok. pose proof (components_ok_parts _ _ _ Hok) as (He & Hu & Hup & Hc & Hh & Hr).
  assert (Htail_colon : mem_char COLON (match r with Some r => HYPHEN :: r | None => [] end) = false).
  { destruct r as [r|]; [|reflexivity]. destruct Hr as [_ Hr].
    rewrite mem_char_cons, (rev_no_colon _ Hr). reflexivity. }
  assert (Hcl : cut_last HYPHEN (u ++ match r with Some r => HYPHEN :: r | None => [] end)
                = match r with Some r => Some (u, r) | None => None end).
  { destruct r as [r|].
    - destruct Hr as [_ Hr]. apply cut_last_app. now apply rev_no_hyphen.
    - rewrite app_nil_r. apply cut_last_not_mem. cbn [is_some orb] in Hh.
      now destruct (mem_char HYPHEN u). }
  unfold spec_decompose, spec_split, recompose.
  destruct e as [e|].
  - cbn [epoch_ok] in He. apply andb_true_iff in He. destruct He as [_ He].
    rewrite <- app_assoc. cbn [app].
    rewrite cut_first_app.
    2:{ apply (forallb_not_mem is_digit09); [|exact He]. intros x Hx. now apply digit_not_colon. }
    rewrite Hcl. destruct r as [r|]; rewrite ?app_nil_r; now rewrite Hok.
  - cbn [app]. rewrite cut_first_not_mem.
    2:{ rewrite mem_char_app. cbn [is_some orb] in Hc.
        destruct (mem_char COLON u); [discriminate|]. exact Htail_colon. }
    rewrite Hcl. destruct r as [r|]; rewrite ?app_nil_r; now rewrite Hok.
Qed.

(** [recompose (parse s) = s], and the components are the cut at the first colon
    and at the last hyphen *)
Theorem recompose_id s e u r :
  spec_decompose s = Some (e, u, r) -> recompose e u r = s.
Proof. intros H. symmetry. now apply spec_decompose_sound in H. Qed.

Theorem decompose_is_split s e u r :
  spec_decompose s = Some (e, u, r) -> spec_split s = (e, u, r).
Proof.
  unfold spec_decompose. destruct (spec_split s) as [[e0 u0] r0].
  destruct (components_ok e0 u0 r0); [|discriminate]. now intros [= <- <- <-].
Qed.

Theorem decomposition_unique e u r e' u' r' :
  components_ok e u r = true -> components_ok e' u' r' = true ->
  recompose e u r = recompose e' u' r' -> (e, u, r) = (e', u', r').
Proof.
  intros H1 H2 Heq. apply spec_decompose_complete in H1, H2. rewrite Heq in H1. congruence.
Qed.

Lemma nonempty_true {A} (l : list A) : nonempty l = true <-> l <> [].
Proof. destruct l; cbn; split; intros H; try discriminate; try reflexivity. now elim H. Qed.

Lemma components_ok_iff e u r : components_ok e u r = true <-> valid_components e u r.
Proof.
  unfold components_ok, valid_components. rewrite !andb_true_iff.
  destruct e as [e|], r as [r|]; rewrite ?andb_true_iff, ?nonempty_true; tauto.
Qed.

(** the decision procedure decides the declarative grammar *)
Theorem valid_spec_iff_grammar s : valid_spec s = true <-> valid_version s.
Proof.
  unfold valid_spec, valid_version. split.
  - destruct (spec_decompose s) as [[[e u] r]|] eqn:H; [|discriminate]. intros _.
    apply spec_decompose_sound in H. destruct H as [-> Hok].
    exists e, u, r. split; [reflexivity|]. now apply components_ok_iff.
  - intros (e & u & r & -> & Hok). apply components_ok_iff in Hok.
    now rewrite (spec_decompose_complete _ _ _ Hok).
Qed.

(** what a successfully constructed object holds *)
Theorem new_decomposes s st :
  version_new (VStr s) = Ok st ->
  exists e u r,
    st = mkV s e (Some u) r
    /\ spec_split s = (e, u, r)
    /\ components_ok e u r = true
    /\ recompose e u r = s
    /\ version_str st = s.
Proof.
  rewrite version_new_spec. destruct (spec_decompose s) as [[[e u] r]|] eqn:H; [|discriminate].
  cbn [to_result]. intros [= <-]. exists e, u, r.
  pose proof (spec_decompose_sound _ _ _ _ H) as [Hs Hok].
  repeat split; [now apply decompose_is_split|exact Hok|now symmetry].
Qed.

Theorem str_id s st : version_new (VStr s) = Ok st -> version_str st = s.
Proof. intros H. apply new_decomposes in H. now destruct H as (e & u & r & _ & _ & _ & _ & H). Qed.

Theorem new_from_components e u r :
  components_ok e u r = true ->
  version_new (VStr (recompose e u r)) = Ok (mkV (recompose e u r) e (Some u) r).
Proof. intros H. now rewrite version_new_spec, (spec_decompose_complete _ _ _ H). Qed.

(** * Part 6: assignment to a component *)
From Verif Require Import Version.ParseCheck.
(* ParseCheck's record field [s_epoch] hides the attribute name of Parse.v *)
Notation a_epoch := Verif.Version.Parse.s_epoch.

Lemma ostr_eqb_eq a b : ostr_eqb a b = true <-> a = b.
Proof.
  destruct a as [a|], b as [b|]; cbn; split; intros H; try discriminate; try reflexivity.
  - apply str_eqb_eq in H. now subst.
  - injection H as ->. apply str_eqb_refl.
Qed.

Lemma ostr_eqb_refl a : ostr_eqb a a = true.
Proof. now apply ostr_eqb_eq. Qed.

(** The invariant of a live object: the stored components are the grammar's
    decomposition of the stored full string. *)
Definition inv (st : vstate) : bool :=
  match spec_decompose (st_full st), st_up st with
  | Some (e, u, r), Some u' =>
      ostr_eqb (st_epoch st) e && str_eqb u' u && ostr_eqb (st_rev st) r
  | _, _ => false
  end.

Lemma inv_spec st :
  inv st = true <->
  exists e u r, st = mkV (recompose e u r) e (Some u) r /\ components_ok e u r = true.
Proof.
  split.
  - destruct st as [f e [u|] r]; unfold inv; cbn [st_full st_epoch st_up st_rev].
    2:{ destruct (spec_decompose f) as [[[? ?] ?]|]; discriminate. }
    destruct (spec_decompose f) as [[[e0 u0] r0]|] eqn:Hd; [|discriminate].
    intros H. apply andb_true_iff in H. destruct H as [H Hr].
    apply andb_true_iff in H. destruct H as [He Hu].
    apply ostr_eqb_eq in He, Hr. apply str_eqb_eq in Hu. subst.
    apply spec_decompose_sound in Hd. destruct Hd as [-> Hok]. now exists e0, u0, r0.
  - intros (e & u & r & -> & Hok). unfold inv. cbn [st_full st_epoch st_up st_rev].
    rewrite (spec_decompose_complete _ _ _ Hok).
    now rewrite !ostr_eqb_refl, str_eqb_refl.
Qed.

Lemma inv_of_decompose s e u r :
  spec_decompose s = Some (e, u, r) -> inv (mkV s e (Some u) r) = true.
Proof.
  intros H. unfold inv. cbn [st_full st_epoch st_up st_rev]. rewrite H.
  now rewrite !ostr_eqb_refl, str_eqb_refl.
Qed.

(** the invariant in terms of the model alone: re-reading the full string gives
    back this very state *)
Lemma inv_iff_reparse st : inv st = true <-> set_full (st_full st) = Ok st.
Proof.
  rewrite set_full_spec. split.
  - intros H. apply inv_spec in H. destruct H as (e & u & r & -> & Hok).
    cbn [st_full]. now rewrite (spec_decompose_complete _ _ _ Hok).
  - destruct (spec_decompose (st_full st)) as [[[e u] r]|] eqn:Hd; [|discriminate].
    cbn [to_result]. intros [= <-]. now apply inv_of_decompose.
Qed.

Theorem new_establishes_inv s st : version_new (VStr s) = Ok st -> inv st = true.
Proof.
  rewrite version_new_spec. destruct (spec_decompose s) as [[[e u] r]|] eqn:Hd; [|discriminate].
  intros [= <-]. now apply inv_of_decompose.
Qed.

(** an empty revision is no revision ([if self.__debian_revision:]) *)
Definition norm_rev (r : option str) : option str :=
  match r with Some [] => None | _ => r end.

Lemma update_full_eq st1 :
  update_full st1 = match st_up st1 with
                    | None => Err TypeError
                    | Some u => set_full (recompose (st_epoch st1) u (norm_rev (st_rev st1)))
                    end.
Proof.
  unfold update_full, recompose. destruct (st_up st1) as [u|]; [|reflexivity].
  destruct (st_rev st1) as [[|c r]|]; cbn [norm_rev]; f_equal;
    rewrite ?app_nil_r, <- ?app_assoc; reflexivity.
Qed.

Lemma rollback_restores st : inv st = true -> update_full st = Ok st.
Proof.
  intros H. apply inv_spec in H. destruct H as (e & u & r & -> & Hok).
  rewrite update_full_eq. cbn [st_up st_epoch st_rev].
  assert (norm_rev r = r) as ->.
  { destruct r as [[|c r]|]; try reflexivity.
    apply components_ok_parts in Hok. now destruct Hok as (_ & _ & _ & _ & _ & [Hn _]). }
  now rewrite set_full_spec, (spec_decompose_complete _ _ _ Hok).
Qed.

(** The assigned value as stored: None stays None, anything else goes through str() *)
Definition value_of (v : pyval) : option str :=
  match v with VNone => None | _ => Some (py_str v) end.

(** The version string an assignment asks for.  [None] = not one of the five
    attributes; [Some None] = no string can be written down (upstream removed). *)
Definition target (st : vstate) (name : str) (v : pyval) : option (option str) :=
  let mk (e : option str) (u : option str) (r : option str) :=
    match u with
    | Some u => Some (recompose e u (norm_rev r))
    | None => None
    end in
  if str_eqb name s_full_version then Some (Some (py_str v))
  else if str_eqb name a_epoch then Some (mk (value_of v) (st_up st) (st_rev st))
  else if str_eqb name s_upstream_version then Some (mk (st_epoch st) (value_of v) (st_rev st))
  else if str_eqb name s_debian_revision || str_eqb name s_debian_version then
    Some (mk (st_epoch st) (st_up st) (value_of v))
  else None.

(** ... and what must happen: the object becomes exactly the decomposition of the
    requested string when that is a valid version; otherwise ValueError and the
    object stays what it was. *)
Definition spec_result (st : vstate) (req : option str) : vstate * option err :=
  match (match req with Some s => spec_decompose s | None => None end), req with
  | Some (e, u, r), Some s => (mkV s e (Some u) r, None)
  | _, _ => (st, Some ValueError)
  end.

Definition setattr_spec (st : vstate) (name : str) (v : pyval) : vstate * option err :=
  match target st name v with
  | None => (st, None)
  | Some req => spec_result st req
  end.

Lemma assign_component st st1 :
  inv st = true ->
  match update_full st1 with
  | Ok st2 => (st2, None)
  | Err ValueError | Err TypeError =>
      match update_full st with
      | Ok st3 => (st3, Some ValueError)
      | Err e2 => (st, Some e2)
      end
  | Err e => (st1, Some e)
  end
  = spec_result st (match st_up st1 with
                    | Some u => Some (recompose (st_epoch st1) u (norm_rev (st_rev st1)))
                    | None => None
                    end).
Proof.
  intros Hinv. rewrite (rollback_restores _ Hinv), update_full_eq.
  destruct (st_up st1) as [u|]; [|reflexivity].
  rewrite set_full_spec. unfold spec_result.
  destruct (spec_decompose (recompose (st_epoch st1) u (norm_rev (st_rev st1)))) as [[[e' u'] r']|];
    reflexivity.
Qed.

Lemma magic_attrs_eq :
  magic_attrs = [s_full_version; a_epoch; s_upstream_version; s_debian_revision; s_debian_version].
Proof. vm_compute. reflexivity. Qed.

Ltac is_name x :=
  lazymatch x with
  | s_full_version => idtac | a_epoch => idtac | s_upstream_version => idtac
  | s_debian_revision => idtac | s_debian_version => idtac
  end.
Ltac eval_names :=
  repeat match goal with
         | |- context [str_eqb ?a ?b] =>
             is_name a; is_name b;
             let r := eval vm_compute in (str_eqb a b) in change (str_eqb a b) with r
         end.

(** [obj.name = v] on a live object does exactly what the specification says. *)
Theorem setattr_eq_spec st name v : inv st = true -> setattr st name v = setattr_spec st name v.
Proof.
  intros Hinv. unfold setattr, setattr_spec, target. rewrite magic_attrs_eq. cbn [existsb].
  destruct (str_eqb name s_full_version) eqn:E1.
  { apply str_eqb_eq in E1. subst name. eval_names. cbv beta iota zeta.
    rewrite set_full_spec. unfold spec_result.
    destruct (spec_decompose (py_str v)) as [[[e u] r]|]; reflexivity. }
  destruct (str_eqb name a_epoch) eqn:E2.
  { apply str_eqb_eq in E2. subst name. eval_names. cbv beta iota zeta.
    unfold put_private. eval_names. cbv beta iota zeta.
    rewrite (assign_component st _ Hinv). reflexivity. }
  destruct (str_eqb name s_upstream_version) eqn:E3.
  { apply str_eqb_eq in E3. subst name. eval_names. cbv beta iota zeta.
    unfold put_private. eval_names. cbv beta iota zeta.
    rewrite (assign_component st _ Hinv). reflexivity. }
  destruct (str_eqb name s_debian_revision) eqn:E4.
  { apply str_eqb_eq in E4. subst name. eval_names. cbv beta iota zeta.
    unfold put_private. eval_names. cbv beta iota zeta.
    rewrite (assign_component st _ Hinv). reflexivity. }
  destruct (str_eqb name s_debian_version) eqn:E5.
  { apply str_eqb_eq in E5. subst name. eval_names. cbv beta iota zeta.
    unfold put_private. eval_names. cbv beta iota zeta.
    rewrite (assign_component st _ Hinv). reflexivity. }
  reflexivity.
Qed.

Theorem setattr_preserves_inv st name v : inv st = true -> inv (fst (setattr st name v)) = true.
Proof.
  intros Hinv. rewrite (setattr_eq_spec _ _ _ Hinv). unfold setattr_spec.
  destruct (target st name v) as [req|]; [|exact Hinv].
  unfold spec_result. destruct req as [s|]; [|exact Hinv].
  destruct (spec_decompose s) as [[[e u] r]|] eqn:Hd; [|exact Hinv].
  now apply inv_of_decompose.
Qed.

(** The same, spelled out: ok-or-rollback. *)
Theorem setattr_ok_or_rollback st name v :
  inv st = true ->
  inv (fst (setattr st name v)) = true
  /\ match target st name v with
     | None => setattr st name v = (st, None)                 (* an ordinary attribute *)
     | Some None => setattr st name v = (st, Some ValueError)   (* upstream_version = None *)
     | Some (Some s) =>
         if valid_spec s
         then snd (setattr st name v) = None
              /\ st_full (fst (setattr st name v)) = s
              /\ version_new (VStr s) = Ok (fst (setattr st name v))
         else setattr st name v = (st, Some ValueError)
     end.
Proof.
  intros Hinv. split; [now apply setattr_preserves_inv|].
  rewrite (setattr_eq_spec _ _ _ Hinv). unfold setattr_spec.
  destruct (target st name v) as [[s|]|]; try reflexivity.
  unfold spec_result, valid_spec. rewrite version_new_spec.
  destruct (spec_decompose s) as [[[e u] r]|]; cbn [is_some fst snd st_full to_result]; auto.
Qed.

(** * Part 7: sequences of assignments, and the property that the check evaluates *)

(** every step of a run is the specified step from the state before it *)
Fixpoint trace_ok (st : vstate) (ops : list (str * pyval)) (tr : list (vstate * option err)) : Prop :=
  match ops, tr with
  | [], [] => True
  | (name, v) :: ops', r :: tr' =>
      r = setattr_spec st name v /\ inv (fst r) = true /\ trace_ok (fst r) ops' tr'
  | _, _ => False
  end.

Theorem assigns_ok_or_rollback ops : forall st,
  inv st = true -> trace_ok st ops (run_assigns st ops).
Proof.
  induction ops as [|[name v] ops IH]; intros st Hinv; cbn [run_assigns trace_ok]; [exact I|].
  pose proof (setattr_preserves_inv st name v Hinv) as Hinv'.
  repeat split; [now apply setattr_eq_spec|exact Hinv'|now apply IH].
Qed.

Theorem assigns_preserve_inv ops : forall st,
  inv st = true -> forallb (fun r => inv (fst r)) (run_assigns st ops) = true.
Proof.
  induction ops as [|[name v] ops IH]; intros st Hinv; cbn [run_assigns forallb]; [reflexivity|].
  pose proof (setattr_preserves_inv st name v Hinv) as Hinv'. now rewrite Hinv', IH.
Qed.

(** ** reflection lemmas for the check's comparison functions *)

Lemma option_eqb_eq {A} (eqb : A -> A -> bool) (H : forall a b, eqb a b = true <-> a = b) x y :
  option_eqb eqb x y = true <-> x = y.
Proof.
  destruct x as [a|], y as [b|]; cbn; split; intros E; try discriminate; try reflexivity.
  - apply H in E. now subst.
  - injection E as ->. now apply H.
Qed.

Lemma dsnap_eqb_eq x y : dsnap_eqb x y = true <-> x = y.
Proof.
  destruct x as [a1 a2 a3 a4 a5 a6], y as [b1 b2 b3 b4 b5 b6]. unfold dsnap_eqb.
  cbn [d_str d_full d_epoch d_up d_rev d_debver]. rewrite !andb_true_iff, !ostr_eqb_eq, str_eqb_eq.
  split.
  - intros [[[[[-> ->] ->] ->] ->] ->]. reflexivity.
  - intros [= -> -> -> -> -> ->]. repeat split.
Qed.

Lemma dsnap_eqb_refl x : dsnap_eqb x x = true.
Proof. now apply dsnap_eqb_eq. Qed.

Lemma oerr_eqb_eq x y : oerr_eqb x y = true <-> x = y.
Proof. apply option_eqb_eq. apply err_eqb_eq. Qed.

Lemma step_eqb_eq x y : step_eqb x y = true <-> x = y.
Proof.
  destruct x as [o1 d1], y as [o2 d2]. unfold step_eqb. cbn [fst snd].
  rewrite andb_true_iff, oerr_eqb_eq, dsnap_eqb_eq. split; [intros [-> ->]|intros [= -> ->]]; auto.
Qed.

(** ** the model satisfies what [holds] checks *)

Lemma snap_is_version_ok s e u r :
  spec_decompose s = Some (e, u, r) ->
  snap_is_version (snap_of_state (mkV s e (Some u) r)) s = true.
Proof.
  intros H. unfold snap_is_version, snap_of_state, version_str. rewrite H.
  cbn [d_str d_full d_epoch d_up d_rev d_debver st_full st_epoch st_up st_rev].
  rewrite (recompose_id _ _ _ _ H).
  now rewrite !str_eqb_refl, !ostr_eqb_refl.
Qed.

Lemma new_ok_model s :
  new_ok s (do st <- version_new (VStr s); Ok (snap_of_state st)) = true.
Proof.
  rewrite version_new_spec. unfold new_ok, valid_spec.
  destruct (spec_decompose s) as [[[e u] r]|] eqn:H; cbn [to_result bind is_some negb andb].
  - now apply snap_is_version_ok.
  - reflexivity.
Qed.

Lemma requested_eq st name a :
  requested (snap_of_state st) name a = target st name (pyval_of a).
Proof. destruct a; reflexivity. Qed.

Lemma step_ok_model st name a :
  inv st = true ->
  step_ok (snap_of_state st) name a (snd (setattr st name (pyval_of a)))
    (snap_of_state (fst (setattr st name (pyval_of a)))) = true.
Proof.
  intros Hinv. rewrite (setattr_eq_spec _ _ _ Hinv). unfold step_ok, setattr_spec.
  rewrite requested_eq. destruct (target st name (pyval_of a)) as [req|].
  - unfold spec_result, valid_spec. destruct req as [s|].
    + destruct (spec_decompose s) as [[[e u] r]|] eqn:Hd; cbn [is_some fst snd].
      * now rewrite (snap_is_version_ok _ _ _ _ Hd).
      * now rewrite dsnap_eqb_refl.
    + cbn [fst snd]. now rewrite dsnap_eqb_refl.
  - cbn [fst snd]. now rewrite dsnap_eqb_refl.
Qed.

Lemma steps_ok_model (ops : list (string * aval)) : forall st,
  inv st = true ->
  steps_ok (snap_of_state st)
    (map (fun p : string * aval => (dec (fst p), snd p)) ops)
    (map (fun r : vstate * option err => (snd r, snap_of_state (fst r)))
         (run_assigns st (map (fun p : string * aval => (dec (fst p), pyval_of (snd p))) ops)))
  = true.
Proof.
  induction ops as [|[name a] ops IH]; intros st Hinv; [reflexivity|].
  cbn [map run_assigns steps_ok fst snd].
  rewrite (step_ok_model _ _ _ Hinv). cbn [andb].
  apply IH. now apply setattr_preserves_inv.
Qed.

(** Whenever the implementation's observation coincides with the model's output
    (what [agree] tests, case by case, on every run), the property as evaluated by
    [holds] is true of that observation — for every case, of any size. *)
Theorem agree_implies_holds c : agree c = true -> holds c = true.
Proof.
  destruct c as [v obs|init ops obs|s g]; cbn [agree holds]; [| |reflexivity].
  - destruct v as [|s|z]; try reflexivity. cbn [pyval_of]. intros Hag.
    pose proof (new_ok_model (dec s)) as Hm.
    destruct (do st <- version_new (VStr (dec s)); Ok (snap_of_state st)) as [d|e] eqn:Hr;
      destruct obs as [o|e']; cbn [result_eqb] in Hag; try discriminate.
    + apply dsnap_eqb_eq in Hag. now subst d.
    + apply err_eqb_eq in Hag. now subst e.
  - unfold model_seq. intros Hag.
    pose proof (new_ok_model (dec init)) as Hm.
    destruct (version_new (VStr (dec init))) as [st|e] eqn:Hnew; cbn [bind] in Hag, Hm.
    + destruct obs as [[s0 l]|e']; cbn [result_eqb fst snd] in Hag; [|discriminate].
      apply andb_true_iff in Hag. destruct Hag as [H0 Hl].
      apply dsnap_eqb_eq in H0. apply (list_eqb_eq _ step_eqb_eq) in Hl.
      rewrite <- H0, <- Hl, Hm. cbn [andb].
      apply steps_ok_model. now apply (new_establishes_inv (dec init)).
    + destruct obs as [[s0 l]|e']; cbn [result_eqb] in Hag; [discriminate|].
      apply err_eqb_eq in Hag. now subst e.
Qed.

(** ** where the components sit in the string *)

Lemma digit_not_hyphen c : is_digit09 c = true -> (HYPHEN =? c)%N = false.
Proof. unfold is_digit09, HYPHEN. lia. Qed.

(** epoch = what precedes the FIRST colon; revision = what follows the LAST hyphen;
    no epoch = no colon anywhere; no revision = no hyphen anywhere *)
Theorem new_cut_points s st :
  version_new (VStr s) = Ok st ->
  match st_epoch st with
  | Some e => exists rest, s = e ++ COLON :: rest /\ mem_char COLON e = false
  | None => mem_char COLON s = false
  end
  /\ match st_rev st with
     | Some r => exists p, s = p ++ HYPHEN :: r /\ mem_char HYPHEN r = false
     | None => mem_char HYPHEN s = false
     end.
Proof.
  intros H. apply new_decomposes in H. destruct H as (e & u & r & -> & Hsp & Hok & Hre & _).
  cbn [st_epoch st_rev]. unfold spec_split in Hsp.
  apply components_ok_parts in Hok. destruct Hok as (He & _ & _ & _ & _ & _).
  destruct (cut_first COLON s) as [[e0 rest]|] eqn:Hcf.
  - apply cut_first_some in Hcf. destruct Hcf as [Hs Hne].
    destruct (cut_last HYPHEN rest) as [[u0 r0]|] eqn:Hcl.
    + injection Hsp as <- <- <-. apply cut_last_some in Hcl. destruct Hcl as [Hrest Hnr].
      split; [now exists rest|]. exists (e0 ++ COLON :: u0). split; [|exact Hnr].
      now rewrite Hs, Hrest, <- app_assoc.
    + injection Hsp as <- <- <-. apply cut_last_none in Hcl.
      split; [now exists rest|]. rewrite Hs, mem_char_app, mem_char_cons, Hcl.
      cbn [epoch_ok] in He. apply andb_true_iff in He. destruct He as [_ He].
      rewrite (forallb_not_mem is_digit09 HYPHEN e0 digit_not_hyphen He). reflexivity.
  - apply cut_first_none in Hcf.
    destruct (cut_last HYPHEN s) as [[u0 r0]|] eqn:Hcl.
    + injection Hsp as <- <- <-. apply cut_last_some in Hcl. destruct Hcl as [Hs Hnr].
      split; [exact Hcf|]. now exists u0.
    + injection Hsp as <- <- <-. apply cut_last_none in Hcl. now split.
Qed.

(** ** any constructor argument, and attribute reads *)

(** [Version(v)] for None / str / int: [str(v)] is what gets parsed *)
Theorem version_new_any v : version_new v = to_result (py_str v) (spec_decompose (py_str v)).
Proof. exact (set_full_spec (py_str v)). Qed.

(** reading the five attributes returns the stored slots; debian_version is an
    alias of debian_revision; any other name is not served by [__getattr__]'s table *)
Theorem getattr_fields st :
  getattr st s_full_version = Some (Some (st_full st))
  /\ getattr st a_epoch = Some (st_epoch st)
  /\ getattr st s_upstream_version = Some (st_up st)
  /\ getattr st s_debian_revision = Some (st_rev st)
  /\ getattr st s_debian_version = Some (st_rev st).
Proof. repeat split. Qed.
