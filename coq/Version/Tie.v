(** TIE BY REGENERATION (DESIGN §3.1b).  Gen/TrVersionCmp.v is regenerated from
    lib/debian/debian_support.py on every run by harness/py2coq.py: the control flow of
    [NativeVersion._order], [_version_cmp_string] and [_version_cmp_part] as the source has it now
    (loops on explicit fuel, [pop(0)] with its IndexError, [int()] with its ValueError).
    This file proves that those regenerated functions never raise, never run out of fuel, and
    equal the hand-written model functions of Version/Compare.v — the ones the theorems of
    Props/C03.v are about — on ALL inputs. *)
From Verif Require Import Lib.Base Lib.Dec Lib.PyStr Lib.Tr Gen.PyChars.
From Verif Require Import Version.Parse Version.Compare Version.CompareKey Version.TrPrims Gen.TrVersionCmp.
Local Open Scope Z_scope.

Lemma tr_order_eq x : tr_order x = Ok (py_order x).
Proof.
  unfold tr_order, py_order, trp_re_digit_char, trp_int_char, trp_re_alpha_char.
  destruct (x =? 126)%N; [reflexivity|].
  destruct (re_d x); [reflexivity|].
  destruct (re_alpha x); reflexivity.
Qed.

Lemma Zgtb_ltb a b : (a >? b) = (b <? a).
Proof. apply Z.gtb_ltb. Qed.

Lemma tr_cmp_string_loop_eq fuel va vb : forall la lb,
  (length la + length lb < fuel)%nat ->
  tr_version_cmp_string_loop1 fuel va vb la lb = Ok (cmp_orders la lb).
Proof.
  induction fuel as [|fuel IH]; intros la lb Hf; [lia|].
  cbn [tr_version_cmp_string_loop1].
  destruct la as [|a la]; destruct lb as [|b lb]; cbn [tr_is_nil negb orb andb length] in *.
  - reflexivity.
  - cbv zeta. cbn [cmp_orders cmp_orders_r]. rewrite Zgtb_ltb.
    destruct (0 <? b); [reflexivity|]. destruct (b <? 0); [reflexivity|].
    rewrite IH by (cbn [length]; lia). reflexivity.
  - cbv zeta. cbn [cmp_orders]. rewrite Zgtb_ltb.
    destruct (a <? 0); [reflexivity|]. destruct (0 <? a); [reflexivity|].
    rewrite IH by (cbn [length]; lia). reflexivity.
  - cbv zeta. cbn [cmp_orders]. rewrite Zgtb_ltb.
    destruct (a <? b); [reflexivity|]. destruct (b <? a); [reflexivity|].
    rewrite IH by (cbn [length]; lia). reflexivity.
Qed.

Lemma tr_version_cmp_string_eq va vb : tr_version_cmp_string va vb = Ok (py_cmp_string va vb).
Proof.
  unfold tr_version_cmp_string, py_cmp_string.
  assert (M : forall s, tr_mapM (fun x => do t <- tr_order x; Ok t) s = Ok (map py_order s)).
  { intros s. apply tr_mapM_ok. intros a _. rewrite tr_order_eq. reflexivity. }
  rewrite !M. cbn [bind]. cbv zeta.
  apply tr_cmp_string_loop_eq. lia.
Qed.

(** a chunk that starts with a digit consists of digits (true of every [findall] chunk and of "0") *)
Definition homog (a : str) : bool := negb (starts_digit a) || forallb re_d a.

Lemma trp_int_str_digits a : starts_digit a = true -> homog a = true ->
  trp_int_str a = Ok (py_int_digits a).
Proof.
  unfold homog, trp_int_str, py_int. intros Hs Hh. rewrite Hs in Hh. cbn [negb orb] in Hh.
  destruct a as [|c a]; [discriminate|]. rewrite Hh. reflexivity.
Qed.

Lemma tr_cmp_chunk_step a b (k : result Z) : homog a = true -> homog b = true ->
  (if trp_re_digits a && trp_re_digits b
   then do t1 <- trp_int_str a; (let aval := t1 in do t2 <- trp_int_str b; (let bval := t2 in
        if aval <? bval then Ok (-1) else if aval >? bval then Ok 1 else k))
   else do t3 <- tr_version_cmp_string a b; (let res := t3 in if negb (res =? 0) then Ok res else k))
  = (let r := cmp_chunk a b in if r =? 0 then k else Ok r).
Proof.
  intros Ha Hb. unfold trp_re_digits, cmp_chunk.
  destruct (starts_digit a) eqn:Ea; destruct (starts_digit b) eqn:Eb; cbn [andb].
  - rewrite (trp_int_str_digits a Ea Ha), (trp_int_str_digits b Eb Hb). cbn [bind]. cbv zeta.
    rewrite Zgtb_ltb.
    destruct (py_int_digits a <? py_int_digits b); [reflexivity|].
    destruct (py_int_digits b <? py_int_digits a); reflexivity.
  - rewrite tr_version_cmp_string_eq. cbn [bind]. cbv zeta.
    destruct (py_cmp_string a b =? 0); reflexivity.
  - rewrite tr_version_cmp_string_eq. cbn [bind]. cbv zeta.
    destruct (py_cmp_string a b =? 0); reflexivity.
  - rewrite tr_version_cmp_string_eq. cbn [bind]. cbv zeta.
    destruct (py_cmp_string a b =? 0); reflexivity.
Qed.

Lemma homog_zero : homog chunk_zero = true.
Proof. vm_compute. reflexivity. Qed.

Lemma tr_cmp_part_loop_eq fuel va vb : forall la lb,
  forallb homog la = true -> forallb homog lb = true ->
  (length la + length lb < fuel)%nat ->
  tr_version_cmp_part_loop1 fuel va vb la lb = Ok (cmp_chunks la lb).
Proof.
  induction fuel as [|fuel IH]; intros la lb Hla Hlb Hf; [lia|].
  cbn [tr_version_cmp_part_loop1].
  destruct la as [|a la]; destruct lb as [|b lb];
    cbn [tr_is_nil negb orb andb length forallb] in *.
  - reflexivity.
  - apply andb_true_iff in Hlb. destruct Hlb as [Hb Hlb]. cbv zeta.
    change [48%N] with chunk_zero.
    rewrite (tr_cmp_chunk_step chunk_zero b _ homog_zero Hb).
    cbn [cmp_chunks cmp_chunks_r]. cbv zeta.
    destruct (cmp_chunk chunk_zero b =? 0); [|reflexivity].
    rewrite (IH [] lb) by (auto; cbn [length]; lia). reflexivity.
  - apply andb_true_iff in Hla. destruct Hla as [Ha Hla]. cbv zeta.
    change [48%N] with chunk_zero.
    rewrite (tr_cmp_chunk_step a chunk_zero _ Ha homog_zero).
    cbn [cmp_chunks]. cbv zeta.
    destruct (cmp_chunk a chunk_zero =? 0); [|reflexivity].
    rewrite (IH la []) by (auto; cbn [length]; lia). reflexivity.
  - apply andb_true_iff in Hla. destruct Hla as [Ha Hla].
    apply andb_true_iff in Hlb. destruct Hlb as [Hb Hlb]. cbv zeta.
    rewrite (tr_cmp_chunk_step a b _ Ha Hb).
    cbn [cmp_chunks]. cbv zeta.
    destruct (cmp_chunk a b =? 0); [|reflexivity].
    rewrite (IH la lb) by (auto; cbn [length]; lia). reflexivity.
Qed.

Lemma alt_homog dg cs : alt dg cs = true -> forallb homog cs = true.
Proof.
  revert dg. induction cs as [|c cs IH]; intros dg H; [reflexivity|].
  cbn [alt forallb] in *. apply andb_true_iff in H. destruct H as [Hc Hcs].
  rewrite (IH _ Hcs), andb_true_r. unfold homog.
  destruct dg.
  - unfold dchunk in Hc. apply andb_true_iff in Hc. destruct Hc as [_ Hc]. rewrite Hc. apply orb_true_r.
  - unfold nchunk in Hc. apply andb_true_iff in Hc. destruct Hc as [Hn Hc].
    destruct c as [|x c]; [reflexivity|]. cbn [forallb starts_digit] in *.
    apply andb_true_iff in Hc. destruct Hc as [Hx _]. destruct (re_d x); [discriminate|reflexivity].
Qed.

Lemma tr_version_cmp_part_eq va vb : tr_version_cmp_part va vb = Ok (py_cmp_part va vb).
Proof.
  unfold tr_version_cmp_part, py_cmp_part, trp_findall_chunks. cbv zeta.
  apply tr_cmp_part_loop_eq.
  - exact (alt_homog _ _ (py_chunks_alt va)).
  - exact (alt_homog _ _ (py_chunks_alt vb)).
  - lia.
Qed.
