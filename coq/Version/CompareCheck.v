(** Case format evaluated by the correspondence check of C03.
    [agree]: the model (Compare.v on top of Parse.v) reproduces what the
             implementation did.
    [holds]: the property itself, judged on what the implementation did, against
             dpkg's order (Dpkg.v) on strings that are valid by ParseSpec.v. *)
From Coq Require Import String.
From Verif Require Import Lib.Base Lib.Dec Gen.PyChars
  Version.Parse Version.Compare Version.Dpkg Version.ParseSpec.
Local Open Scope Z_scope.

(** What the driver records for a pair (a, b) once both objects exist. *)
Record pair_obs := mkP {
  p_ab : ops6;            (* a<b a<=b a==b a!=b a>=b a>b *)
  p_ba : ops6;            (* the same with the operands swapped *)
  p_vc_ab : Z;            (* version_compare(a, b) *)
  p_vc_ba : Z;            (* version_compare(b, a) *)
  p_hash_eq : bool;       (* hash(Version(a)) == hash(Version(b)) *)
}.

Inductive case :=
| CPair (a b : string) (obs : result pair_obs)
| CTriple (a b c : string) (ab bc ac : result Z)          (* version_compare on the three pairs *)
(* leaves, each against the live object of the imported module *)
| CChunks (s : string) (chunks : list string)             (* re_all_digits_or_not.findall(s) *)
| COrder (c : N) (o : Z)                                  (* NativeVersion._order(chr(c)) *)
| CPart (a b : string) (r : Z)                            (* NativeVersion._version_cmp_part(a, b) *)
| CHashKey (s : string) (key : list (string * N))         (* BaseVersion._hash_key(s), when it exists *)
(* spec against /usr/bin/dpkg --compare-versions (only [agree] is used) *)
| CDpkg (a b : string) (rel : Z).

Definition ops_eqb (x y : ops6) : bool :=
  Bool.eqb (o_lt x) (o_lt y) && Bool.eqb (o_le x) (o_le y) && Bool.eqb (o_eq x) (o_eq y)
  && Bool.eqb (o_ne x) (o_ne y) && Bool.eqb (o_ge x) (o_ge y) && Bool.eqb (o_gt x) (o_gt y).

Definition pair_obs_eqb (x y : pair_obs) : bool :=
  ops_eqb (p_ab x) (p_ab y) && ops_eqb (p_ba x) (p_ba y)
  && (p_vc_ab x =? p_vc_ab y) && (p_vc_ba x =? p_vc_ba y)
  && Bool.eqb (p_hash_eq x) (p_hash_eq y).

Definition model_pair (a b : str) : result pair_obs :=
  do va <- version_new (VStr a);
  do vb <- version_new (VStr b);
  do oab <- py_ops va vb;
  do oba <- py_ops vb va;
  do cab <- py_version_compare a b;
  do cba <- py_version_compare b a;
  do ka <- py_hash_key va;
  do kb <- py_hash_key vb;
  Ok (mkP oab oba cab cba (vkey_eqb ka kb)).

Definition key_list_eqb (x : list key_elt) (y : list (string * N)) : bool :=
  list_eqb key_elt_eqb x (map (fun p => (dec (fst p), snd p)) y).

Definition agree (c : case) : bool :=
  match c with
  | CPair a b obs => result_eqb pair_obs_eqb (model_pair (dec a) (dec b)) obs
  | CTriple a b c ab bc ac =>
      result_eqb Z.eqb (py_version_compare (dec a) (dec b)) ab
      && result_eqb Z.eqb (py_version_compare (dec b) (dec c)) bc
      && result_eqb Z.eqb (py_version_compare (dec a) (dec c)) ac
  | CChunks s chunks => strs_eqb (py_chunks (dec s)) (map dec chunks)
  | COrder ch o => py_order ch =? o
  | CPart a b r => py_cmp_part (dec a) (dec b) =? r
  | CHashKey s key => key_list_eqb (hash_key (dec s)) key
  | CDpkg a b rel =>
      match dpkg_compare (dec a) (dec b) with
      | Some s => s =? rel
      | None => false
      end
  end.

(** (x, y, z) = signs of compare(a,b), compare(b,c), compare(a,c): transitivity of
    <= and >=, with strictness inherited. *)
Definition trans_ok (x y z : Z) : bool :=
  (if (x <=? 0) && (y <=? 0) then (z <=? 0) && (if (x <? 0) || (y <? 0) then z <? 0 else true) else true)
  && (if (x >=? 0) && (y >=? 0) then (z >=? 0) && (if (x >? 0) || (y >? 0) then z >? 0 else true) else true).

Definition both_valid (a b : str) : bool := valid_spec a && valid_spec b.

Definition holds (c : case) : bool :=
  match c with
  | CPair a b obs =>
      let a := dec a in
      let b := dec b in
      if both_valid a b then
        match obs, dpkg_compare a b with
        | Ok o, Some s =>
            (* ordered exactly as dpkg does; the six operators and version_compare
               all tell the same story; swapping the operands negates it *)
            (p_vc_ab o =? s) && ops_eqb (p_ab o) (ops_of s)
            && (p_vc_ba o =? - s) && ops_eqb (p_ba o) (ops_of (- s))
            (* equal versions have equal hashes *)
            && (if s =? 0 then p_hash_eq o else true)
        | _, _ => false
        end
      else true
  | CTriple a b c ab bc ac =>
      let a := dec a in
      let b := dec b in
      let c := dec c in
      if valid_spec a && valid_spec b && valid_spec c then
        match ab, bc, ac, dpkg_compare a b, dpkg_compare b c, dpkg_compare a c with
        | Ok x, Ok y, Ok z, Some sx, Some sy, Some sz =>
            trans_ok x y z && (x =? sx) && (y =? sy) && (z =? sz)
        | _, _, _, _, _, _ => false
        end
      else true
  | _ => true
  end.

Definition bad_agree (cs : list case) : list N := bad agree cs.
Definition bad_holds (cs : list case) : list N := bad holds cs.
