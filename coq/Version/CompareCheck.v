(** Case format evaluated by the correspondence check of C03.
    [agree]: the model (Compare.v on top of Parse.v) reproduces what the
             implementation did.
    [holds]: the property itself, judged on what the implementation did, against
             dpkg's order (Dpkg.v) on strings that are valid by ParseSpec.v. *)
From Coq Require Import String.
From Verif Require Import Lib.Base Lib.Dec Lib.PyStr Gen.PyChars
  Version.Parse Version.Compare Version.Dpkg Version.ParseSpec.
Local Open Scope Z_scope.

(** What the driver records for a pair (a, b) once both objects exist. *)
Record pair_obs := mkP {
  p_ab : ops6;            (* a<b a<=b a==b a!=b a>=b a>b *)
  p_ba : ops6;            (* the same with the operands swapped *)
  p_vc_ab : Z;            (* version_compare(a, b) *)
  p_vc_ba : Z;            (* version_compare(b, a) *)
  p_hash_eq : bool;       (* hash(Version(a)) == hash(Version(b)) *)
}.

(** What the driver records for two objects after their histories. *)
Record hist_obs := mkH {
  h_aerrs : list (option err);   (* outcome of each assignment on the first object *)
  h_berrs : list (option err);
  h_astr : string;               (* str(a) afterwards *)
  h_bstr : string;
  h_ab : ops6;                   (* a<b a<=b a==b a!=b a>=b a>b  on the live objects *)
  h_hash_eq : bool;              (* hash(a) == hash(b) *)
  h_a_fresh : bool * bool;       (* a == Version(str(a)),  hash(a) == hash(Version(str(a))) *)
  h_b_fresh : bool * bool;
}.

Inductive case :=
| CPair (a b : string) (obs : result pair_obs)
| CTriple (a b c : string) (ab bc ac : result Z)          (* version_compare on the three pairs *)
(* leaves, each against the live object of the imported module *)
| CChunks (s : string) (chunks : list string)             (* re_all_digits_or_not.findall(s) *)
| COrder (c : N) (o : Z)                                  (* NativeVersion._order(chr(c)) *)
| CPart (a b : string) (r : Z)                            (* NativeVersion._version_cmp_part(a, b) *)
| CHashKey (s : string) (key : list (string * N))         (* BaseVersion._hash_key(s), when it exists *)
(* spec against /usr/bin/dpkg --compare-versions (only [agree] is used) *)
| CDpkg (a b : string) (rel : Z)
(* two objects, each made from a string, hashed once (so that anything memoised is), then taken through
   a history of attribute assignments (accepted and rejected ones), then compared and hashed *)
| CHist (a : string) (aops : list (string * option string))
        (b : string) (bops : list (string * option string)) (obs : result hist_obs).

Definition ops_eqb (x y : ops6) : bool :=
  Bool.eqb (o_lt x) (o_lt y) && Bool.eqb (o_le x) (o_le y) && Bool.eqb (o_eq x) (o_eq y)
  && Bool.eqb (o_ne x) (o_ne y) && Bool.eqb (o_ge x) (o_ge y) && Bool.eqb (o_gt x) (o_gt y).

Definition pair_obs_eqb (x y : pair_obs) : bool :=
  ops_eqb (p_ab x) (p_ab y) && ops_eqb (p_ba x) (p_ba y)
  && (p_vc_ab x =? p_vc_ab y) && (p_vc_ba x =? p_vc_ba y)
  && Bool.eqb (p_hash_eq x) (p_hash_eq y).

Definition model_pair (a b : str) : result pair_obs :=
  do va <- version_new (VStr a);
  do vb <- version_new (VStr b);
  do oab <- py_ops va vb;
  do oba <- py_ops vb va;
  do cab <- py_version_compare a b;
  do cba <- py_version_compare b a;
  do ka <- py_hash_key va;
  do kb <- py_hash_key vb;
  Ok (mkP oab oba cab cba (vkey_eqb ka kb)).

Definition opt_err_eqb (x y : option err) : bool := option_eqb err_eqb x y.
Definition bb_eqb (x y : bool * bool) : bool := Bool.eqb (fst x) (fst y) && Bool.eqb (snd x) (snd y).

Definition hist_obs_eqb (x y : hist_obs) : bool :=
  list_eqb opt_err_eqb (h_aerrs x) (h_aerrs y) && list_eqb opt_err_eqb (h_berrs x) (h_berrs y)
  && str_eqb (dec (h_astr x)) (dec (h_astr y)) && str_eqb (dec (h_bstr x)) (dec (h_bstr y))
  && ops_eqb (h_ab x) (h_ab y) && Bool.eqb (h_hash_eq x) (h_hash_eq y)
  && bb_eqb (h_a_fresh x) (h_a_fresh y) && bb_eqb (h_b_fresh x) (h_b_fresh y).

Definition lit_ops (ops : list (string * option string)) : list (str * pyval) :=
  map (fun p => (dec (fst p), match snd p with Some v => VStr (dec v) | None => VNone end)) ops.

Definition final_state (st : vstate) (tr : list (vstate * option err)) : vstate :=
  match last_opt tr with Some r => fst r | None => st end.

(** the object against a fresh object made from its own string: (==, equal hash keys) *)
Definition fresh_cmp (v : vstate) : result (bool * bool) :=
  do w <- version_new (VStr (version_str v));
  do o <- py_ops v w;
  do kv <- py_hash_key v;
  do kw <- py_hash_key w;
  Ok (o_eq o, vkey_eqb kv kw).

(** [model_hist] returns the strings as code-point lists; compared with [dec] of the literals *)
Definition model_hist (a : str) (aops : list (str * pyval)) (b : str) (bops : list (str * pyval))
  : result (list (option err) * list (option err) * str * str * ops6 * bool * (bool * bool) * (bool * bool)) :=
  do va0 <- version_new (VStr a);
  do vb0 <- version_new (VStr b);
  let tra := run_assigns va0 aops in
  let trb := run_assigns vb0 bops in
  let va := final_state va0 tra in
  let vb := final_state vb0 trb in
  do o <- py_ops va vb;
  do ka <- py_hash_key va;
  do kb <- py_hash_key vb;
  do fa <- fresh_cmp va;
  do fb <- fresh_cmp vb;
  Ok (map snd tra, map snd trb, version_str va, version_str vb, o, vkey_eqb ka kb, fa, fb).

Definition agree_hist (a : string) aops (b : string) bops (obs : result hist_obs) : bool :=
  match model_hist (dec a) (lit_ops aops) (dec b) (lit_ops bops), obs with
  | Ok (ea, eb, sa, sb, o, he, fa, fb), Ok h =>
      list_eqb opt_err_eqb ea (h_aerrs h) && list_eqb opt_err_eqb eb (h_berrs h)
      && str_eqb sa (dec (h_astr h)) && str_eqb sb (dec (h_bstr h))
      && ops_eqb o (h_ab h) && Bool.eqb he (h_hash_eq h)
      && bb_eqb fa (h_a_fresh h) && bb_eqb fb (h_b_fresh h)
  | Err e, Err f => err_eqb e f
  | _, _ => false
  end.

Definition key_list_eqb (x : list key_elt) (y : list (string * N)) : bool :=
  list_eqb key_elt_eqb x (map (fun p => (dec (fst p), snd p)) y).

Definition agree (c : case) : bool :=
  match c with
  | CPair a b obs => result_eqb pair_obs_eqb (model_pair (dec a) (dec b)) obs
  | CTriple a b c ab bc ac =>
      result_eqb Z.eqb (py_version_compare (dec a) (dec b)) ab
      && result_eqb Z.eqb (py_version_compare (dec b) (dec c)) bc
      && result_eqb Z.eqb (py_version_compare (dec a) (dec c)) ac
  | CChunks s chunks => strs_eqb (py_chunks (dec s)) (map dec chunks)
  | COrder ch o => py_order ch =? o
  | CPart a b r => py_cmp_part (dec a) (dec b) =? r
  | CHashKey s key => key_list_eqb (hash_key (dec s)) key
  | CDpkg a b rel =>
      match dpkg_compare (dec a) (dec b) with
      | Some s => s =? rel
      | None => false
      end
  | CHist a aops b bops obs => agree_hist a aops b bops obs
  end.

(** (x, y, z) = signs of compare(a,b), compare(b,c), compare(a,c): transitivity of
    <= and >=, with strictness inherited. *)
Definition trans_ok (x y z : Z) : bool :=
  (if (x <=? 0) && (y <=? 0) then (z <=? 0) && (if (x <? 0) || (y <? 0) then z <? 0 else true) else true)
  && (if (x >=? 0) && (y >=? 0) then (z >=? 0) && (if (x >? 0) || (y >? 0) then z >? 0 else true) else true).

Definition both_valid (a b : str) : bool := valid_spec a && valid_spec b.

Definition holds (c : case) : bool :=
  match c with
  | CPair a b obs =>
      let a := dec a in
      let b := dec b in
      if both_valid a b then
        match obs, dpkg_compare a b with
        | Ok o, Some s =>
            (* ordered exactly as dpkg does; the six operators and version_compare
               all tell the same story; swapping the operands negates it *)
            (p_vc_ab o =? s) && ops_eqb (p_ab o) (ops_of s)
            && (p_vc_ba o =? - s) && ops_eqb (p_ba o) (ops_of (- s))
            (* equal versions have equal hashes *)
            && (if s =? 0 then p_hash_eq o else true)
        | _, _ => false
        end
      else true
  | CTriple a b c ab bc ac =>
      let a := dec a in
      let b := dec b in
      let c := dec c in
      if valid_spec a && valid_spec b && valid_spec c then
        match ab, bc, ac, dpkg_compare a b, dpkg_compare b c, dpkg_compare a c with
        | Ok x, Ok y, Ok z, Some sx, Some sy, Some sz =>
            trans_ok x y z && (x =? sx) && (y =? sy) && (z =? sz)
        | _, _, _, _, _, _ => false
        end
      else true
  | CHist a aops b bops obs =>
      (* the objects are judged by the strings they display: when both are valid, the six operators order
         them as dpkg orders those strings, equal ones hash equal, and each object equals — and hashes like —
         a fresh object made from its own string *)
      match obs with
      | Ok h =>
          let sa := dec (h_astr h) in
          let sb := dec (h_bstr h) in
          if both_valid sa sb then
            match dpkg_compare sa sb with
            | Some s =>
                ops_eqb (h_ab h) (ops_of s)
                && (if s =? 0 then h_hash_eq h else true)
                && fst (h_a_fresh h) && snd (h_a_fresh h)
                && fst (h_b_fresh h) && snd (h_b_fresh h)
            | None => false
            end
          else true
      | Err _ => if both_valid (dec a) (dec b) then false else true
      end
  | _ => true
  end.

Definition bad_agree (cs : list case) : list N := bad agree cs.
Definition bad_holds (cs : list case) : list N := bad holds cs.
