(** Model of debian_support.NativeVersion comparison: [_order],
    [_version_cmp_string], [_version_cmp_part], [_compare], the six rich
    comparison operators, [version_compare], and the key hashed by [__hash__].
    The str patterns \d / \D are Unicode-aware (Gen/PyChars.v [re_d], [nd_val]).
    No proofs here. *)
From Verif Require Import Lib.Base Lib.Dec Lib.PyStr Gen.PyChars Version.Parse.
Local Open Scope Z_scope.

(** [re_alpha = "[A-Za-z]"] *)
Definition re_alpha (c : N) : bool :=
  ((65 <=? c)%N && (c <=? 90)%N) || ((97 <=? c)%N && (c <=? 122)%N).

(** [_order(x)] *)
Definition py_order (c : N) : Z :=
  if (c =? 126)%N then -1
  else if re_d c then Z.of_N (nd_val c) + 1
  else if re_alpha c then Z.of_N c
  else Z.of_N c + 256.

(** The [while la or lb] loop of [_version_cmp_string] on the order lists:
    an exhausted side supplies 0. *)
Fixpoint cmp_orders_r (lb : list Z) : Z :=
  match lb with
  | [] => 0
  | b :: lb' => if 0 <? b then -1 else if b <? 0 then 1 else cmp_orders_r lb'
  end.

Fixpoint cmp_orders (la lb : list Z) : Z :=
  match la with
  | [] => cmp_orders_r lb
  | a :: la' =>
      match lb with
      | [] => if a <? 0 then -1 else if 0 <? a then 1 else cmp_orders la' []
      | b :: lb' => if a <? b then -1 else if b <? a then 1 else cmp_orders la' lb'
      end
  end.

Definition py_cmp_string (va vb : str) : Z :=
  cmp_orders (map py_order va) (map py_order vb).

(** [re.findall(r"\d+|\D+", s)]: maximal runs of digits / non-digits. *)
Fixpoint py_chunks (s : str) : list str :=
  match s with
  | [] => []
  | c :: s' =>
      match py_chunks s' with
      | (d :: ch) :: rest =>
          if Bool.eqb (re_d c) (re_d d) then (c :: d :: ch) :: rest
          else [c] :: (d :: ch) :: rest
      | _ => [[c]]
      end
  end.

(** [re_digits.match(a)]: the chunk starts with a digit *)
Definition starts_digit (a : str) : bool :=
  match a with c :: _ => re_d c | [] => false end.

(** [int(a)] for a chunk of decimal digits (any Unicode Nd) *)
Definition py_int_digits (a : str) : Z := Z.of_N (horner nd_val 0 a).

Definition chunk_zero : str := [48%N].

(** One iteration's verdict on the chunks [a] and [b]; 0 = go on. *)
Definition cmp_chunk (a b : str) : Z :=
  if starts_digit a && starts_digit b then
    let aval := py_int_digits a in
    let bval := py_int_digits b in
    if aval <? bval then -1 else if bval <? aval then 1 else 0
  else py_cmp_string a b.

(** The [while la or lb] loop of [_version_cmp_part]: an exhausted side supplies "0". *)
Fixpoint cmp_chunks_r (lb : list str) : Z :=
  match lb with
  | [] => 0
  | b :: lb' => let r := cmp_chunk chunk_zero b in if r =? 0 then cmp_chunks_r lb' else r
  end.

Fixpoint cmp_chunks (la lb : list str) : Z :=
  match la with
  | [] => cmp_chunks_r lb
  | a :: la' =>
      match lb with
      | [] => let r := cmp_chunk a chunk_zero in if r =? 0 then cmp_chunks la' [] else r
      | b :: lb' => let r := cmp_chunk a b in if r =? 0 then cmp_chunks la' lb' else r
      end
  end.

Definition py_cmp_part (va vb : str) : Z := cmp_chunks (py_chunks va) (py_chunks vb).

(** [x or "0"] for an attribute that is None or a str *)
Definition or_str (o : option str) (dflt : str) : str :=
  match o with
  | Some (c :: s) => c :: s
  | _ => dflt
  end.

(** [int(s)] on a component; a non-digit makes it a ValueError.  (Python's int()
    also accepts blanks, signs and underscores; components never contain them.) *)
Definition py_int (s : str) : result Z :=
  match s with
  | [] => Err ValueError
  | _ => if forallb re_d s then Ok (py_int_digits s) else Err ValueError
  end.

(** [self._compare(other)] for two Version objects *)
Definition py_compare (a b : vstate) : result Z :=
  do lepoch <- py_int (or_str (st_epoch a) chunk_zero);
  do repoch <- py_int (or_str (st_epoch b) chunk_zero);
  if lepoch <? repoch then Ok (-1)
  else if repoch <? lepoch then Ok 1
  else
    let res := py_cmp_part (or_str (st_up a) chunk_zero) (or_str (st_up b) chunk_zero) in
    if negb (res =? 0) then Ok res
    else Ok (py_cmp_part (or_str (st_rev a) chunk_zero) (or_str (st_rev b) chunk_zero)).

(** The six operators, in the order lt le eq ne ge gt *)
Record ops6 := mkOps { o_lt : bool; o_le : bool; o_eq : bool; o_ne : bool; o_ge : bool; o_gt : bool }.

Definition ops_of (c : Z) : ops6 :=
  mkOps (c <? 0) (c <=? 0) (c =? 0) (negb (c =? 0)) (c >=? 0) (c >? 0).

Definition py_ops (a b : vstate) : result ops6 :=
  do c <- py_compare a b; Ok (ops_of c).

(** [version_compare(a, b)] on strings *)
Definition py_version_compare (a b : str) : result Z :=
  do va <- version_new (VStr a);
  do vb <- version_new (VStr b);
  do lt <- (do c <- py_compare va vb; Ok (c <? 0));
  if lt then Ok (-1)
  else
    do gt <- (do c <- py_compare va vb; Ok (c >? 0));
    if gt then Ok 1 else Ok 0.

(** * The hashed key *)

(** [re.findall] with the pattern  ([^0-9]STAR)([0-9]STAR)  on [part]: at each position the longest run of
    non-ASCII-digits then the longest run of ASCII digits; one final empty match
    at the end of the string. *)
Fixpoint findall_nd_d (fuel : nat) (s : str) : list (str * str) :=
  match fuel with
  | O => []
  | S fuel =>
      match s with
      | [] => [([], [])]
      | _ =>
          let (nd, r) := span (fun c => negb (is_ascii_digit c)) s in
          let (d, r') := span is_ascii_digit r in
          (nd, d) :: findall_nd_d fuel r'
      end
  end.

Definition key_elt := (str * N)%type.

Definition key_elt_is_empty (k : key_elt) : bool := is_nil (fst k) && (snd k =? 0)%N.

(** [_hash_key(part)] *)
Definition hash_key (part : str) : list key_elt :=
  let key := map (fun p : str * str =>
                    (fst p, parse_dec (match snd p with [] => [48%N] | d => d end)))
                 (findall_nd_d (S (length part)) part) in
  rdropwhile key_elt_is_empty key.

Definition vkey := (Z * list key_elt * list key_elt)%type.

(** The tuple handed to [hash()] *)
Definition py_hash_key (a : vstate) : result vkey :=
  do e <- py_int (or_str (st_epoch a) chunk_zero);
  Ok (e, hash_key (or_str (st_up a) []), hash_key (or_str (st_rev a) [])).

Definition key_elt_eqb (x y : key_elt) : bool := str_eqb (fst x) (fst y) && (snd x =? snd y)%N.
Definition vkey_eqb (x y : vkey) : bool :=
  match x, y with
  | (e1, u1, r1), (e2, u2, r2) =>
      (e1 =? e2) && list_eqb key_elt_eqb u1 u2 && list_eqb key_elt_eqb r1 r2
  end.
