(** C03: the bridge between the correspondence and the property.

    [agree c = true -> holds c = true] for every case of Version/CompareCheck.v:
    whenever the implementation's observation equals what the model computes
    ([agree]), the property as [holds] judges it on that observation is true.

    Route: [agree] forces the observation to be the model's output (the boolean
    equalities are decidable equalities), and the model's output satisfies [holds]
    by the property theorems of CompareProofs.v ([model_pair_holds],
    [model_triple_holds]); for histories, C14's [assigns_preserve_inv] gives [inv]
    for the object reached, and on [inv] objects [py_compare_is_dpkg_obj],
    [hash_respects_eq], [compare_refl], [inv_iff_reparse] do the rest. *)
From Coq Require Import String.
From Verif Require Import Lib.Base Lib.Dec Lib.PyStr Gen.PyChars
  Version.Parse Version.ParseSpec Version.ParseProofs Version.Compare Version.Dpkg
  Version.CompareCheck Version.CompareProofs.
Local Open Scope Z_scope.

(** * The boolean equalities of [agree] are equalities *)

Lemma ops_eqb_eq x y : ops_eqb x y = true <-> x = y.
Proof.
  destruct x as [a1 a2 a3 a4 a5 a6], y as [b1 b2 b3 b4 b5 b6]. unfold ops_eqb.
  cbn [o_lt o_le o_eq o_ne o_ge o_gt].
  rewrite !andb_true_iff, !Bool.eqb_true_iff. split.
  - intros [[[[[-> ->] ->] ->] ->] ->]. reflexivity.
  - intros [= -> -> -> -> -> ->]. repeat split.
Qed.

Lemma ops_eqb_refl x : ops_eqb x x = true.
Proof. now apply ops_eqb_eq. Qed.

Lemma pair_obs_eqb_eq x y : pair_obs_eqb x y = true <-> x = y.
Proof.
  destruct x as [a1 a2 a3 a4 a5], y as [b1 b2 b3 b4 b5]. unfold pair_obs_eqb.
  cbn [p_ab p_ba p_vc_ab p_vc_ba p_hash_eq].
  rewrite !andb_true_iff, !ops_eqb_eq, !Z.eqb_eq, Bool.eqb_true_iff. split.
  - intros [[[[-> ->] ->] ->] ->]. reflexivity.
  - intros [= -> -> -> -> ->]. repeat split.
Qed.

Lemma result_eqb_eq {A} (eqb : A -> A -> bool) (H : forall a b, eqb a b = true <-> a = b)
  (x y : result A) : result_eqb eqb x y = true -> x = y.
Proof.
  destruct x as [a|e], y as [b|f]; cbn [result_eqb]; intro E; try discriminate.
  - apply H in E. now subst.
  - apply err_eqb_eq in E. now subst.
Qed.

Lemma bb_eqb_true x : bb_eqb (true, true) x = true -> fst x = true /\ snd x = true.
Proof.
  destruct x as [[] []]; cbn; intro H; try discriminate. auto.
Qed.

(** * Pairs and triples: the observation is the model's output *)

Lemma agree_pair_holds a b obs : agree (CPair a b obs) = true -> holds (CPair a b obs) = true.
Proof.
  cbn [agree]. intro H. apply (result_eqb_eq _ pair_obs_eqb_eq) in H. subst obs.
  apply model_pair_holds.
Qed.

Lemma agree_triple_holds a b c ab bc ac :
  agree (CTriple a b c ab bc ac) = true -> holds (CTriple a b c ab bc ac) = true.
Proof.
  cbn [agree]. intro H.
  apply andb_true_iff in H. destruct H as [H Hac]. apply andb_true_iff in H. destruct H as [Hab Hbc].
  apply (result_eqb_eq _ Z.eqb_eq) in Hab, Hbc, Hac. subst ab bc ac.
  apply model_triple_holds.
Qed.

(** * Histories *)

Lemma last_opt_in {A} (l : list A) r : last_opt l = Some r -> In r l.
Proof.
  induction l as [|x l IH]; [discriminate|].
  destruct l as [|y l].
  - intros [= ->]. now left.
  - intro H. right. apply IH. exact H.
Qed.

(** every object reached through a history of assignments (accepted or rejected) is live *)
Lemma final_state_inv st ops :
  inv st = true -> inv (final_state st (run_assigns st ops)) = true.
Proof.
  intro H. unfold final_state. destruct (last_opt (run_assigns st ops)) as [r|] eqn:E; [|exact H].
  apply last_opt_in in E. pose proof (assigns_preserve_inv ops st H) as F.
  rewrite forallb_forall in F. exact (F r E).
Qed.

(** the fresh object made from a live object's string IS that object *)
Lemma fresh_of_inv v : inv v = true -> version_new (VStr (version_str v)) = Ok v.
Proof. intro H. apply inv_iff_reparse in H. exact H. Qed.

Lemma vkey_eqb_self v k : inv v = true -> py_hash_key v = Ok k -> vkey_eqb k k = true.
Proof.
  intros H K. pose proof (hash_respects_eq v v H H (compare_refl v (inv_epoch_int v H))) as E.
  unfold hash_eq in E. now rewrite K in E.
Qed.

(** ... so a live object equals, and has the hash key of, the fresh object of its string *)
Lemma fresh_cmp_inv v : inv v = true -> fresh_cmp v = Ok (true, true).
Proof.
  intro H. unfold fresh_cmp. rewrite (fresh_of_inv v H). cbn [bind].
  unfold py_ops. rewrite (compare_refl v (inv_epoch_int v H)). cbn [bind].
  destruct (hash_key_total v H) as [k K]. rewrite K. cbn [bind].
  now rewrite (vkey_eqb_self v k H K).
Qed.

(** what the model computes on two live objects *)
Lemma live_pair_model va vb : inv va = true -> inv vb = true ->
  exists z ka kb,
    py_ops va vb = Ok (ops_of z) /\ py_hash_key va = Ok ka /\ py_hash_key vb = Ok kb
    /\ dpkg_compare (version_str va) (version_str vb) = Some z
    /\ (z = 0 -> vkey_eqb ka kb = true).
Proof.
  intros Ia Ib. destruct (py_compare_is_dpkg_obj va vb Ia Ib) as (z & Ec & Ed).
  destruct (hash_key_total va Ia) as [ka Ka]. destruct (hash_key_total vb Ib) as [kb Kb].
  exists z, ka, kb. repeat split; auto.
  - unfold py_ops. now rewrite Ec.
  - intros ->. pose proof (hash_respects_eq va vb Ia Ib Ec) as H. unfold hash_eq in H.
    now rewrite Ka, Kb in H.
Qed.

(** the shape of [model_hist]: it fails exactly when one of the two constructions does;
    otherwise the operators are dpkg's verdict on the two displayed strings, equal
    ones have equal hash keys, and both fresh comparisons say (True, True) *)
Lemma model_hist_shape a aops b bops :
  match version_new (VStr a), version_new (VStr b) with
  | Ok va0, Ok vb0 =>
      let tra := run_assigns va0 aops in
      let trb := run_assigns vb0 bops in
      let va := final_state va0 tra in
      let vb := final_state vb0 trb in
      exists z he,
        model_hist a aops b bops
        = Ok (map snd tra, map snd trb, version_str va, version_str vb, ops_of z, he,
              (true, true), (true, true))
        /\ dpkg_compare (version_str va) (version_str vb) = Some z
        /\ (z = 0 -> he = true)
  | Err e, _ => model_hist a aops b bops = Err e
  | Ok _, Err e => model_hist a aops b bops = Err e
  end.
Proof.
  unfold model_hist.
  destruct (version_new (VStr a)) as [va0|ea] eqn:Ea; [|reflexivity].
  destruct (version_new (VStr b)) as [vb0|eb] eqn:Eb; [|reflexivity].
  cbn [bind]. cbv zeta.
  pose proof (final_state_inv va0 aops (new_establishes_inv a va0 Ea)) as Ia.
  pose proof (final_state_inv vb0 bops (new_establishes_inv b vb0 Eb)) as Ib.
  destruct (live_pair_model _ _ Ia Ib) as (z & ka & kb & Eo & Ka & Kb & Ed & Eh).
  exists z, (vkey_eqb ka kb).
  rewrite Eo, Ka, Kb. cbn [bind]. rewrite (fresh_cmp_inv _ Ia), (fresh_cmp_inv _ Ib). cbn [bind].
  repeat split; auto.
Qed.

Lemma not_both_valid_l a b e : version_new (VStr a) = Err e -> both_valid a b = false.
Proof.
  intro H. unfold both_valid. rewrite <- (accepts_iff_valid a), H. reflexivity.
Qed.

Lemma not_both_valid_r a b e : version_new (VStr b) = Err e -> both_valid a b = false.
Proof.
  intro H. unfold both_valid. rewrite <- (accepts_iff_valid b), H. apply andb_false_r.
Qed.

Lemma agree_hist_holds a aops b bops obs :
  agree (CHist a aops b bops obs) = true -> holds (CHist a aops b bops obs) = true.
Proof.
  cbn [agree holds]. unfold agree_hist.
  pose proof (model_hist_shape (dec a) (lit_ops aops) (dec b) (lit_ops bops)) as S.
  destruct (version_new (VStr (dec a))) as [va0|ea] eqn:Ea.
  - destruct (version_new (VStr (dec b))) as [vb0|eb] eqn:Eb.
    + cbv zeta in S. destruct S as (z & he & -> & Ed & Eh).
      destruct obs as [h|f]; [|discriminate].
      intro H. repeat (apply andb_true_iff in H; let H' := fresh "G" in destruct H as [H H']).
      rename H into G6.
      (* G6 aerrs, G5 berrs, G4 astr, G3 bstr, G2 ops, G1 hash, G0 a_fresh, G b_fresh *)
      apply str_eqb_eq in G4, G3. apply ops_eqb_eq in G2. apply Bool.eqb_prop in G1.
      apply bb_eqb_true in G0, G. destruct G0 as [A1 A2]. destruct G as [B1 B2].
      rewrite <- G4, <- G3, Ed.
      destruct (both_valid _ _); [|reflexivity].
      rewrite <- G2, ops_eqb_refl, A1, A2, B1, B2. cbn [andb].
      rewrite !andb_true_r.
      destruct (Z.eqb_spec z 0) as [Z0|]; [|reflexivity].
      rewrite <- G1. exact (Eh Z0).
    + rewrite S. destruct obs as [h|f]; [discriminate|]. intros _.
      now rewrite (not_both_valid_r _ _ _ Eb).
  - rewrite S. destruct obs as [h|f]; [discriminate|]. intros _.
    now rewrite (not_both_valid_l _ _ _ Ea).
Qed.

(** * Every case *)
Theorem agree_implies_holds : forall c, agree c = true -> holds c = true.
Proof.
  intros [a b obs|a b c ab bc ac|s ch|ch o|a b r|s key|a b rel|a aops b bops obs].
  - apply agree_pair_holds.
  - apply agree_triple_holds.
  - reflexivity.
  - reflexivity.
  - reflexivity.
  - reflexivity.
  - reflexivity.
  - apply agree_hist_holds.
Qed.

(** * The model, taken as the observation, meets the property on every history case *)

(** the model's output as an observation; [sa], [sb] are literal spellings of the two
    displayed strings (the model returns code-point lists, the record holds literals) *)
Definition hist_obs_of
  (m : result (list (option err) * list (option err) * str * str * ops6 * bool * (bool * bool) * (bool * bool)))
  (sa sb : string) : result hist_obs :=
  match m with
  | Ok (ea, eb, _, _, o, he, fa, fb) => Ok (mkH ea eb sa sb o he fa fb)
  | Err e => Err e
  end.

Definition spells
  (m : result (list (option err) * list (option err) * str * str * ops6 * bool * (bool * bool) * (bool * bool)))
  (sa sb : string) : bool :=
  match m with
  | Ok (_, _, ma, mb, _, _, _, _) => str_eqb ma (dec sa) && str_eqb mb (dec sb)
  | Err _ => true
  end.

Lemma opt_err_eqb_refl x : opt_err_eqb x x = true.
Proof. destruct x as [e|]; cbn; [now apply err_eqb_eq|reflexivity]. Qed.

Lemma errs_eqb_refl l : list_eqb opt_err_eqb l l = true.
Proof. induction l as [|x l IH]; cbn; [reflexivity|]. now rewrite opt_err_eqb_refl, IH. Qed.

Lemma bb_eqb_refl x : bb_eqb x x = true.
Proof. destruct x as [[] []]; reflexivity. Qed.

Theorem model_hist_holds a aops b bops sa sb :
  let m := model_hist (dec a) (lit_ops aops) (dec b) (lit_ops bops) in
  spells m sa sb = true ->
  holds (CHist a aops b bops (hist_obs_of m sa sb)) = true.
Proof.
  intros m Hs. apply agree_implies_holds. cbn [agree]. unfold agree_hist. fold m.
  destruct m as [[[[[[[[ea eb] ma] mb] o] he] fa] fb]|e]; cbn [hist_obs_of spells] in *.
  - cbn [h_aerrs h_berrs h_astr h_bstr h_ab h_hash_eq h_a_fresh h_b_fresh].
    apply andb_true_iff in Hs. destruct Hs as [-> ->].
    now rewrite !errs_eqb_refl, ops_eqb_refl, Bool.eqb_reflx, !bb_eqb_refl.
  - now apply err_eqb_eq.
Qed.
